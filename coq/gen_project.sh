#!/bin/sh
# regenerate _CoqProject from the files present (full .vo builds only)
cd "$(dirname "$0")"
{ cat _CoqProject.head; find theories -name '*.v' | sort; } > _CoqProject.new
if ! cmp -s _CoqProject.new _CoqProject 2>/dev/null; then mv _CoqProject.new _CoqProject; coq_makefile -f _CoqProject -o Makefile >/dev/null; else rm _CoqProject.new; fi
[ -f Makefile ] || coq_makefile -f _CoqProject -o Makefile >/dev/null
