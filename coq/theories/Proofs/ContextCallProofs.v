(** C09: a whole call through a processor ([whole_call]) composed from the request and response
    journeys proved in ContextWireProofs. *)
From Coq Require Import ZArith List Lia Bool.
From FV Require Import Base.Res Base.Bytes Model.Headers Model.Receivers Model.Context
  Proofs.HeadersMapProofs Proofs.ContextProofs Proofs.ContextWireProofs.
Import ListNotations.
Open Scope Z_scope.

(** the handler's additions, one AddResponseHeader at a time, amount to [assign_all] on the response
    map of ITS context; no other context changes, no context appears *)
Lemma run_handler_adds hadd : forall s j cj s',
  good s -> ctx_at s j = Some cj -> run s (handler_adds j hadd) = Some s' ->
  good s' /\ ctxs s' = ctxs s
  /\ resp_of s' cj = assign_all (resp_of s cj) hadd
  /\ (forall i ci, i <> j -> nth_error (ctxs s) i = Some ci ->
        req_of s' ci = req_of s ci /\ resp_of s' ci = resp_of s ci).
Proof.
  induction hadd as [|[k v] hadd IH]; intros s j cj s' G Hj H.
  - cbn in H. injection H as <-. split; [exact G|]. split; [reflexivity|]. split; [reflexivity|]. intros; split; reflexivity.
  - cbn [handler_adds map run fst snd] in H. fold (handler_adds j hadd) in H.
    destruct (step s (OAdd j MResp k v)) as [s1|] eqn:E; [|discriminate].
    assert (G1 : good s1) by (eapply step_good; eassumption).
    pose proof E as E'. cbn [step] in E'. rewrite Hj in E'. injection E' as E'.
    assert (Hc1 : ctxs s1 = ctxs s) by (rewrite <- E'; reflexivity).
    assert (Hj1 : ctx_at s1 j = Some cj) by (unfold ctx_at; rewrite Hc1; exact Hj).
    assert (Hb : (c_resp cj < length (heap s))%nat).
    { destruct (g_sep s G) as [Hb _]. apply (Hb (SResp j)). cbn. unfold ctx_at in Hj. now rewrite Hj. }
    assert (Hr1 : resp_of s1 cj = assign (resp_of s cj) k v).
    { rewrite <- E'. unfold resp_of. cbn [sel]. now rewrite get_put_same. }
    destruct (IH s1 j cj s' G1 Hj1 H) as (G' & Hc' & Hr' & Ho').
    split; [exact G'|]. split; [congruence|]. split.
    + rewrite Hr', Hr1. reflexivity.
    + intros i ci Hij Hi.
      destruct (other_context_unchanged s (OAdd j MResp k v) s1 i j ci G E eq_refl Hij Hi) as (A & B & _).
      assert (Hi1 : nth_error (ctxs s1) i = Some ci) by (rewrite Hc1; exact Hi).
      destruct (Ho' i ci Hij Hi1) as (A' & B'). split; congruence.
Qed.

Lemma new_proto_spec s s1 :
  good s -> step s ONewProto = Some s1 ->
  good s1 /\ ctxs s1 = ctxs s /\ next_op s1 = next_op s
  /\ (exists pe, nth_error (protos s1) (Nat.pred (length (protos s1))) = Some pe)
  /\ (forall i ci, nth_error (ctxs s) i = Some ci -> req_of s1 ci = req_of s ci /\ resp_of s1 ci = resp_of s ci).
Proof.
  intros G H. split; [eapply step_good; eassumption|].
  cbn [step] in H. injection H as <-. cbn. repeat split.
  - exists (length (heap s)). rewrite app_length. cbn. replace (Nat.pred (length (protos s) + 1)) with (length (protos s)) by lia.
    rewrite nth_error_app2 by lia. now rewrite Nat.sub_diag.
  - unfold req_of, get. cbn. rewrite app_nth1; [reflexivity|]. eapply req_addr_bound; eassumption.
  - unfold resp_of, get. cbn. rewrite app_nth1; [reflexivity|].
    destruct (g_sep s G) as [Hb _]. apply (Hb (SResp i)). cbn. now rewrite H.
Qed.

(** the response map of the handler's context when the reply is written: the request's op id, the
    correlation id (if any), then the handler's additions in order *)
Definition handler_resp (op cid : bytes) (hadd : list hpair) : list hpair :=
  assign_all (match cid with
              | [] => assign [] opid_header op
              | _ => assign (assign [] opid_header op) cid_header cid
              end) hadd.

Lemma handler_entry op cid hadd k :
  lookup k (handler_resp op cid hadd) =
    match lookup k hadd with
    | Some v => Some v
    | None => if bytes_eqb k cid_header then (match cid with [] => None | _ => Some cid end)
              else if bytes_eqb k opid_header then Some op else None
    end.
Proof.
  unfold handler_resp. destruct cid as [|b bs].
  - rewrite lookup_assign_all by (apply assign_nodup; constructor).
    destruct (lookup k hadd); [reflexivity|]. rewrite lookup_assign by constructor. cbn [lookup].
    destruct (bytes_eqb k cid_header) eqn:Ec; [|reflexivity].
    apply bytes_eqb_eq in Ec. subst k. reflexivity.
  - rewrite lookup_assign_all by (apply assign_nodup, assign_nodup; constructor).
    destruct (lookup k hadd); [reflexivity|].
    rewrite lookup_assign by (apply assign_nodup; constructor).
    destruct (bytes_eqb k cid_header); [reflexivity|].
    rewrite lookup_assign by constructor. reflexivity.
Qed.

(** THE CALL. The caller's context [c] (index [i]) carries an op id; the handler adds [hadd]; the
    response headers fit a frame. When the call returns, for every name but _opid the caller's
    response map holds the handler context's entry if there is one (the handler's last value for the
    name, or the correlation id under _cid), else what the caller had before. The caller's _opid
    response entry and its request headers are untouched. The handler's context (still present in
    the final state) holds exactly the caller's headers under all names but _opid, and a fresh op id. *)
Theorem whole_call_spec s i c op hadd s' :
  good s -> ctx_at s i = Some c -> header_size (req_of s c) < 2147483648 ->
  lookup opid_header (req_of s c) = Some op ->
  header_size (handler_resp op (correlation_id s c) hadd) < 2147483648 ->
  whole_call s i hadd = Some s' ->
  (forall k, k <> opid_header ->
     lookup k (resp_of s' c) =
       match lookup k (handler_resp op (correlation_id s c) hadd) with
       | Some v => Some v
       | None => lookup k (resp_of s c)
       end)
  /\ lookup opid_header (resp_of s' c) = lookup opid_header (resp_of s c)
  /\ req_of s' c = req_of s c
  /\ exists cj, nth_error (ctxs s') (length (ctxs s)) = Some cj
       /\ (forall k, k <> opid_header -> lookup k (req_of s' cj) = lookup k (req_of s c))
       /\ lookup opid_header (req_of s' cj) = Some (format_uint ((next_op s + 1) mod two64))
       /\ resp_of s' cj = handler_resp op (correlation_id s c) hadd.
Proof.
  intros G Hi Hsz Hop Hfit H. unfold whole_call in H.
  destruct (step s ONewProto) as [s1|] eqn:E1; [|discriminate].
  destruct (new_proto_spec s s1 G E1) as (G1 & Hc1 & Hn1 & (pe & Hpe) & Hsame1).
  destruct (Hsame1 i c Hi) as (Hreq1 & Hresp1).
  assert (Hi1 : ctx_at s1 i = Some c) by (unfold ctx_at; rewrite Hc1; exact Hi).
  destruct (send_request s1 i (Nat.pred (length (protos s1)))) as [s2|] eqn:E2; [|discriminate].
  assert (Hsz1 : header_size (req_of s1 c) < 2147483648) by (rewrite Hreq1; exact Hsz).
  assert (Hop1 : lookup opid_header (req_of s1 c) = Some op) by (rewrite Hreq1; exact Hop).
  destruct (request_travels s1 i _ c pe op s2 G1 Hi1 Hsz1 Hpe Hop1 E2)
    as (c2 & Hc2 & Hrq & Hrqop & Hcid & _ & Hrop & Hrcid & Hrnone & Hreq2 & Hresp2).
  assert (G2 : good s2).
  { unfold send_request in E2. rewrite Hi1 in E2. rewrite wire_roundtrip in E2 by exact Hsz1.
    eapply step_good; eassumption. }
  assert (Hlen : Nat.eqb (length (ctxs s2)) (length (ctxs s1)) = false).
  { apply Nat.eqb_neq. rewrite Hc2, app_length. cbn. lia. }
  rewrite Hlen in H.
  destruct (run s2 (handler_adds (length (ctxs s1)) hadd)) as [s3|] eqn:E3; [|discriminate].
  assert (Hj2 : ctx_at s2 (length (ctxs s1)) = Some c2).
  { unfold ctx_at. rewrite Hc2, nth_error_app2, Nat.sub_diag by lia. reflexivity. }
  destruct (run_handler_adds hadd s2 _ c2 s3 G2 Hj2 E3) as (G3 & Hc3 & Hr3 & Ho3).
  assert (Hilt : (i < length (ctxs s1))%nat).
  { unfold ctx_at in Hi1. apply nth_error_Some. congruence. }
  assert (Hi2 : nth_error (ctxs s2) i = Some c).
  { rewrite Hc2, nth_error_app1 by exact Hilt. exact Hi1. }
  destruct (Ho3 i c ltac:(lia) Hi2) as (Hreq3 & Hresp3).
  assert (Hj3 : ctx_at s3 (length (ctxs s1)) = Some c2) by (unfold ctx_at; rewrite Hc3; exact Hj2).
  assert (Hi3 : ctx_at s3 i = Some c) by (unfold ctx_at; rewrite Hc3; exact Hi2).
  (* the handler's response map, exactly *)
  assert (Hcid1 : correlation_id s1 c = correlation_id s c) by (unfold correlation_id; now rewrite Hreq1).
  assert (Hbase : resp_of s2 c2 = match correlation_id s c with
                                  | [] => assign [] opid_header op
                                  | _ => assign (assign [] opid_header op) cid_header (correlation_id s c)
                                  end).
  { pose proof E2 as E2'. unfold send_request in E2'. rewrite Hi1 in E2'. rewrite wire_roundtrip in E2' by exact Hsz1.
    assert (Hop' : lookup opid_header (to_map (req_of s1 c)) = Some op).
    { rewrite to_map_id by (apply keys_ok_get, (g_keys s1 G1)). exact Hop1. }
    destruct (recv_spec s1 _ (req_of s1 c) pe op s2 G1 Hpe Hop' E2') as (c2' & Hc2' & Hrq' & Hrs' & _).
    rewrite Hc2 in Hc2'. apply app_inv_head in Hc2'. injection Hc2' as <-.
    rewrite Hrs'. cbv zeta. rewrite <- Hrq'. fold (correlation_id s2 c2). rewrite Hcid, Hcid1. reflexivity. }
  assert (Hr3e : resp_of s3 c2 = handler_resp op (correlation_id s c) hadd).
  { rewrite Hr3, Hbase. reflexivity. }
  assert (Hsz3 : header_size (resp_of s3 c2) < 2147483648) by (rewrite Hr3e; exact Hfit).
  destruct (response_travels s3 _ i c2 c s' G3 Hj3 Hi3 Hsz3 H) as (Hk & Hopid & Hreq').
  split; [|split; [|split]].
  - intros k Hne. rewrite (Hk k Hne), Hr3e, Hresp3, Hresp2, Hresp1. reflexivity.
  - rewrite Hopid, Hresp3, Hresp2, Hresp1. reflexivity.
  - rewrite Hreq', Hreq3, Hreq2, Hreq1. reflexivity.
  - (* the handler's context, as it still stands in the final state *)
    exists c2. rewrite <- Hc1.
    assert (Hcs' : ctxs s' = ctxs s3).
    { unfold send_response in H. rewrite Hj3 in H. rewrite wire_roundtrip in H by exact Hsz3.
      cbn [step] in H. rewrite Hi3 in H. injection H as <-. reflexivity. }
    split; [rewrite Hcs', Hc3; exact Hj2|].
    assert (Hrq' : req_of s' c2 = req_of s2 c2).
    { assert (A : req_of s' c2 = req_of s3 c2).
      { unfold send_response in H. rewrite Hj3 in H. rewrite wire_roundtrip in H by exact Hsz3.
        eapply req_unchanged; [exact G3 | exact H | exact Hj3 |].
        cbn [target]. rewrite Hi3. cbn. intros Heq. injection Heq as Heq.
        destruct (g_sep s3 G3) as [_ Hinj].
        assert (S1 : slot_addr s3 (SResp i) = Some (c_resp c)) by (cbn; unfold ctx_at in Hi3; now rewrite Hi3).
        assert (S2 : slot_addr s3 (SReq (length (ctxs s1))) = Some (c_req c2)) by (cbn; unfold ctx_at in Hj3; now rewrite Hj3).
        rewrite Heq in S1. pose proof (Hinj _ _ _ S1 S2) as X. discriminate X. }
      rewrite A.
      (* the handler's additions go to its response map, not its request map *)
      clear - G2 Hj2 E3. revert s2 G2 Hj2 E3. induction hadd as [|[k v] hadd IH]; intros s2 G2 Hj2 E3.
      - cbn in E3. injection E3 as <-. reflexivity.
      - cbn [handler_adds map run fst snd] in E3. fold (handler_adds (length (ctxs s1)) hadd) in E3.
        destruct (step s2 (OAdd (length (ctxs s1)) MResp k v)) as [sx|] eqn:E; [|discriminate].
        assert (Gx : good sx) by (eapply step_good; eassumption).
        assert (Hjx : ctx_at sx (length (ctxs s1)) = Some c2).
        { pose proof E as E'. cbn [step] in E'. rewrite Hj2 in E'. injection E' as <-. exact Hj2. }
        rewrite (IH sx Gx Hjx E3).
        eapply req_unchanged; [exact G2 | exact E | exact Hj2 |].
        cbn [target]. rewrite Hj2. cbn [sel]. intros Heq. injection Heq as Heq.
        destruct (g_sep s2 G2) as [_ Hinj].
        assert (S1 : slot_addr s2 (SResp (length (ctxs s1))) = Some (c_resp c2)) by (cbn; unfold ctx_at in Hj2; now rewrite Hj2).
        assert (S2 : slot_addr s2 (SReq (length (ctxs s1))) = Some (c_req c2)) by (cbn; unfold ctx_at in Hj2; now rewrite Hj2).
        rewrite Heq in S1. pose proof (Hinj _ _ _ S1 S2) as X. discriminate X. }
    split; [|split].
    + intros k Hne. rewrite Hrq', (Hrq k Hne), Hreq1. reflexivity.
    + rewrite Hrq', Hrqop, Hn1. reflexivity.
    + rewrite <- Hr3e.
      unfold send_response in H. rewrite Hj3 in H. rewrite wire_roundtrip in H by exact Hsz3.
      destruct (other_context_unchanged s3 _ s' (length (ctxs s1)) i c2 G3 H eq_refl ltac:(lia) Hj3) as (_ & B & _).
      exact B.
Qed.
