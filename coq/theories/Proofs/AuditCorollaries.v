(** C18: corollaries of the main equivalence — normal forms are unique, a type change is found at
    any position / depth / behind any typedef or include chain; a checker for normal forms used by
    the examples; passing verdicts for compatible edits. *)
From Coq Require Import ZArith List Bool Lia.
From FV Require Import Base.Bytes Model.Audit Proofs.AuditSpec Proofs.AuditProofs Proofs.AuditCompat.
Import ListNotations.
Open Scope Z_scope.

(** * Normal forms are unique *)
Lemma Resolves_fun P sc t r : Resolves P sc t r -> forall r', Resolves P sc t r' -> r = r'.
Proof.
  induction 1 as [sc | sc n k v d body r HT Hb HR IH | sc n k v rk rv HN Hk IHk Hv IHv]; intros r' H'.
  - inversion H'; reflexivity.
  - apply typedef_step_spec in HT. destruct (Resolves_alias_inv _ _ _ _ _ _ _ _ HT H') as [_ H2].
    apply IH; exact H2.
  - apply typedef_step_None in HN. destruct (Resolves_base_inv _ _ _ _ _ _ HN H') as (rk' & rv' & -> & H1 & H2).
    rewrite (IHk _ H1), (IHv _ H2). reflexivity.
Qed.

Lemma different_normal_forms po pn t t' r r' :
  Resolves po 0 t r -> Resolves pn 0 t' r' -> r <> r' -> ~ SameType po pn t t'.
Proof.
  intros H H' Hne (q & Hq & Hq'). apply Hne.
  rewrite (Resolves_fun _ _ _ _ H _ Hq), (Resolves_fun _ _ _ _ H' _ Hq'). reflexivity.
Qed.

(** * A change of type is found wherever it is *)
Section Found.
  Variables (fuel : nat) (po pn : program).
  Hypothesis Hconv : converged (audit fuel po pn) = true.

  (** a field of a struct, exception or union: any position in the field list (the field is found
      by its id), any depth inside the type (the normal forms differ somewhere), behind any chain of
      typedefs and includes (the normal form is reached through them) *)
  Theorem retyped_field_found k s s' o n r r' :
    In s (structs_of k po) -> Denotes s_name (structs_of k pn) (s_name s) s' ->
    Denotes f_id (s_fields s) (f_id o) o -> Denotes f_id (s_fields s') (f_id o) n ->
    Resolves po 0 (f_type o) r -> Resolves pn 0 (f_type n) r' -> r <> r' ->
    audit_fails fuel po pn = true.
  Proof.
    intros Hs Hs' Ho Hn Hr Hr' Hne. apply (audit_fails_iff_breaking po pn fuel Hconv).
    eapply B_structs, STB_fields; eauto. eapply FB_retyped; eauto.
    eapply different_normal_forms; eauto.
  Qed.

  (** an argument, a declared exception or the return type of a method *)
  Theorem retyped_argument_found sv sv' m m' o n r r' :
    In sv (p_services po) -> Denotes sv_name (p_services pn) (sv_name sv) sv' ->
    In m (sv_methods sv) -> Denotes m_name (sv_methods sv') (m_name m) m' ->
    Denotes f_id (m_args m) (f_id o) o -> Denotes f_id (m_args m') (f_id o) n ->
    Resolves po 0 (f_type o) r -> Resolves pn 0 (f_type n) r' -> r <> r' ->
    audit_fails fuel po pn = true.
  Proof.
    intros Hs Hs' Hm Hm' Ho Hn Hr Hr' Hne. apply (audit_fails_iff_breaking po pn fuel Hconv).
    eapply B_services, SVB_method; eauto. apply MB_arguments. eapply FB_retyped; eauto.
    eapply different_normal_forms; eauto.
  Qed.

  Theorem retyped_return_found sv sv' m m' r r' :
    In sv (p_services po) -> Denotes sv_name (p_services pn) (sv_name sv) sv' ->
    In m (sv_methods sv) -> Denotes m_name (sv_methods sv') (m_name m) m' ->
    Resolves po 0 (m_ret m) r -> Resolves pn 0 (m_ret m') r' -> r <> r' ->
    audit_fails fuel po pn = true.
  Proof.
    intros Hs Hs' Hm Hm' Hr Hr' Hne. apply (audit_fails_iff_breaking po pn fuel Hconv).
    eapply B_services, SVB_method; eauto. apply MB_return. eapply different_normal_forms; eauto.
  Qed.

  Theorem retyped_operation_found s s' o o' r r' :
    In s (p_scopes po) -> Denotes sc_name (p_scopes pn) (sc_name s) s' ->
    In o (sc_ops s) -> Denotes o_name (sc_ops s') (o_name o) o' ->
    Resolves po 0 (o_type o) r -> Resolves pn 0 (o_type o') r' -> r <> r' ->
    audit_fails fuel po pn = true.
  Proof.
    intros Hs Hs' Ho Ho' Hr Hr' Hne. apply (audit_fails_iff_breaking po pn fuel Hconv).
    eapply B_scopes, SB_operation_retyped; eauto. eapply different_normal_forms; eauto.
  Qed.
End Found.

(** * Passing verdicts *)
Theorem renamed_passes fuel po pn :
  Renamed po pn -> WfNames po -> Normalizing po ->
  converged (audit fuel po pn) = true -> audit_fails fuel po pn = false.
Proof.
  intros HR Hw Hn Hc. apply not_true_is_false. intro H.
  apply (audit_fails_iff_breaking po pn fuel Hc) in H. eapply renamed_not_breaking; eauto.
Qed.

(** * Computing normal forms (for examples) *)
Fixpoint resolve (fuel : nat) (P : program) (sc : nat) (t : ty) : option ty :=
  match fuel with
  | O => None
  | S f =>
    match t with
    | TNil => Some TNil
    | Ty n k v =>
      match typedef_step P sc n with
      | Some (d, TNil) => None
      | Some (d, body) => resolve f P d body
      | None =>
        match resolve f P sc k, resolve f P sc v with
        | Some rk, Some rv => Some (Ty (qualified_name P sc n) rk rv)
        | _, _ => None
        end
      end
    end
  end.

Lemma resolve_sound fuel : forall P sc t r, resolve fuel P sc t = Some r -> Resolves P sc t r.
Proof.
  induction fuel as [|f IH]; intros P sc t r H; cbn [resolve] in H; [discriminate|].
  destruct t as [|n k v].
  - inversion H; constructor.
  - destruct (typedef_step P sc n) as [[d body]|] eqn:E.
    + destruct body as [|bn bk bv]; [discriminate|].
      eapply R_alias; [apply typedef_step_spec; exact E | discriminate | apply IH; exact H].
    + destruct (resolve f P sc k) as [rk|] eqn:Ek; [|discriminate].
      destruct (resolve f P sc v) as [rv|] eqn:Ev; [|discriminate].
      inversion H; subst. apply R_base; auto. apply typedef_step_None; exact E.
Qed.

(** every typedef target has a normal form => every type expression has one *)
Lemma Normalizing_intro P :
  (forall sc n d body, typedef_step P sc n = Some (d, body) -> body <> TNil /\ exists r, Resolves P d body r) ->
  Normalizing P.
Proof.
  intros H sc t. induction t as [|n k [rk IHk] v [rv IHv]].
  - exists TNil; constructor.
  - destruct (typedef_step P sc n) as [[d body]|] eqn:E.
    + destruct (H _ _ _ _ E) as [Hb [r Hr]]. exists r. eapply R_alias; eauto. apply typedef_step_spec; exact E.
    + eexists. apply R_base; eauto. apply typedef_step_None; exact E.
Qed.
