(** Generic facts about the pigeon interpreter of Model/Peg.v:
    (A) a failing expression leaves the position where it was, a succeeding one never moves
        backwards and moves forward unless [may_empty] says it may succeed on nothing;
    (B) for a grammar that passes [check_wf] the interpreter never runs out of fuel once the
        fuel (= recursion depth) is at least (|input| + 1) * depth_unit. *)
From Coq Require Import ZArith List Bool Arith Lia.
From FV Require Import Model.PegSyntax Model.Peg Model.PegWf.
Import ListNotations.
Local Open Scope nat_scope.

Section Generic.
  Variables A V E : Type.
  Variable vnil : V.
  Variable vbytes : list Z -> V.
  Variable vlist : list V -> V.
  Variable run_action : A -> list Z -> Z -> list (String.string * V) -> ares V E.
  Variable rules : list (cexpr A).

  Notation pstate := (pstate E).
  Notation outcome := (outcome V E).
  Notation eval := (Peg.eval A V E vnil vbytes vlist run_action rules).
  Notation eval_loop := (Peg.eval_loop A V E vnil vbytes vlist run_action rules).
  Notation seq_go := (Peg.seq_go A V E vnil vlist).
  Notation choice_go := (Peg.choice_go A V E vnil).
  Notation lit_go := (Peg.lit_go V E vnil vbytes).
  Notation match_class := (Peg.match_class V E vnil vbytes).
  Notation match_any := (Peg.match_any V E vnil vbytes).
  Notation finish_action := (Peg.finish_action A V E run_action).

  Definition len (st : pstate) : nat := length (rest st).

  (** one-step unfoldings *)
  Lemma eval_S : forall f e cr st fr,
    eval (S f) e cr st fr =
    match e with
    | CAct a e1 =>
      match eval f e1 cr st fr with
      | Done true v st1 fr1 => finish_action a cr st st1 fr1
      | other => other
      end
    | CSeq es => seq_go (eval f) cr st es st fr []
    | CChoice es => choice_go (eval f) cr fr es st
    | CLabel l e1 =>
      match eval f e1 cr st [] with
      | Done true v st1 _ => Done true v st1 ((l, v) :: fr)
      | Done false v st1 _ => Done false v st1 fr
      | other => other
      end
    | CStar e1 => eval_loop f e1 cr st fr []
    | CPlus e1 =>
      match eval f e1 cr st [] with
      | Done true v st1 _ => eval_loop f e1 cr st1 fr [v]
      | Done false _ st1 _ => Done false vnil st1 fr
      | other => other
      end
    | COpt e1 =>
      match eval f e1 cr st [] with
      | Done _ v st1 _ => Done true v st1 fr
      | other => other
      end
    | CAnd e1 =>
      match eval f e1 cr st [] with
      | Done ok _ st1 _ => Done ok vnil (restore E st st1) fr
      | other => other
      end
    | CNot e1 =>
      match eval f e1 cr st [] with
      | Done ok _ st1 _ => Done (negb ok) vnil (restore E st st1) fr
      | other => other
      end
    | CRef i =>
      match nth_error rules i with
      | Some body =>
        match eval f body i st [] with
        | Done ok v st1 _ => Done ok v st1 fr
        | other => other
        end
      | None => Done false vnil st fr
      end
    | CLit runes => lit_go cr st fr runes st
    | CClass chars ranges inverted => match_class cr chars ranges inverted st fr
    | CAny => match_any cr st fr
    end.
  Proof. intros. destruct e; reflexivity. Qed.

  Lemma eval_loop_S : forall f e1 cr st fr acc,
    eval_loop (S f) e1 cr st fr acc =
    match eval f e1 cr st [] with
    | Done true v st1 _ => eval_loop f e1 cr st1 fr (v :: acc)
    | Done false _ st1 _ => Done true (vlist (rev acc)) st1 fr
    | other => other
    end.
  Proof. reflexivity. Qed.

  (** ** bytes consumed by one rune *)
  Lemma skip_width_le : forall w (l : list Z), length (skip_width w l) <= length l.
  Proof.
    intros w l. unfold skip_width.
    destruct l as [|a l]; [cbn; lia|].
    destruct (w <=? 1)%Z; [cbn; lia|].
    destruct l as [|b l]; [cbn; lia|].
    destruct (w <=? 2)%Z; [cbn; lia|].
    destruct l as [|c l]; [cbn; lia|].
    destruct (w <=? 3)%Z; [cbn; lia|].
    destruct l as [|d l]; cbn; lia.
  Qed.

  Lemma skip_width_lt : forall w (l : list Z), l <> [] -> length (skip_width w l) < length l.
  Proof.
    intros w l Hl. unfold skip_width.
    destruct l as [|a l]; [congruence|].
    destruct (w <=? 1)%Z; [cbn; lia|].
    destruct l as [|b l]; [cbn; lia|].
    destruct (w <=? 2)%Z; [cbn; lia|].
    destruct l as [|c l]; [cbn; lia|].
    destruct (w <=? 3)%Z; [cbn; lia|].
    destruct l as [|d l]; cbn; lia.
  Qed.

  Lemma decode_rune_nil : decode_rune [] = (rune_error, 0%Z).
  Proof. reflexivity. Qed.

  Lemma advance_rest : forall cr (st : pstate),
    rest (advance E cr st) = skip_width (snd (decode_rune (rest st))) (rest st).
  Proof.
    intros cr st. unfold advance.
    destruct (decode_rune (skip_width (snd (decode_rune (rest st))) (rest st))) as [rn n].
    reflexivity.
  Qed.

  Lemma advance_le : forall cr (st : pstate), len (advance E cr st) <= len st.
  Proof. intros. unfold len. rewrite advance_rest. apply skip_width_le. Qed.

  Lemma advance_lt : forall cr (st : pstate),
    fst (decode_rune (rest st)) <> rune_error -> len (advance E cr st) < len st.
  Proof.
    intros cr st H. unfold len. rewrite advance_rest. apply skip_width_lt.
    intro Hnil. rewrite Hnil in H. cbn in H. congruence.
  Qed.

  (** ** (A) positions *)
  Section Positions.
    Variable nl : nat -> bool.
    Hypothesis nl_closed : forall i body,
      nth_error rules i = Some body -> may_empty nl body = true -> nl i = true.

    Definition post (e : cexpr A) (st : pstate) (o : outcome) : Prop :=
      match o with
      | Done false _ st' _ => rest st' = rest st /\ off st' = off st
      | Done true _ st' _ => len st' <= len st /\ (may_empty nl e = false -> len st' < len st)
      | _ => True
      end.

    Definition post_loop (st : pstate) (o : outcome) : Prop :=
      match o with
      | Done ok _ st' _ => ok = true /\ len st' <= len st
      | _ => True
      end.

    Definition ev_ok (ev : evaluator A V E) : Prop := forall e cr st fr, post e st (ev e cr st fr).

    Lemma seq_go_post : forall ev cr st0, ev_ok ev ->
      forall es st1 fr1 acc,
      match seq_go ev cr st0 es st1 fr1 acc with
      | Done false _ st' _ => rest st' = rest st0 /\ off st' = off st0
      | Done true _ st' _ => len st' <= len st1 /\ (forallb (may_empty nl) es = false -> len st' < len st1)
      | _ => True
      end.
    Proof.
      intros ev cr st0 Hev es. induction es as [|e1 es IH]; intros st1 fr1 acc; cbn [Peg.seq_go forallb].
      - split; [lia | discriminate].
      - specialize (Hev e1 cr st1 fr1). unfold post in Hev.
        destruct (ev e1 cr st1 fr1) as [ok v st2 fr2| |]; [|exact I|exact I].
        destruct ok.
        + specialize (IH st2 fr2 (v :: acc)).
          destruct (seq_go ev cr st0 es st2 fr2 (v :: acc)) as [ok' v' st' fr'| |]; [|exact I|exact I].
          destruct ok'; [|exact IH].
          destruct Hev as [Hle Hlt]. destruct IH as [Hle' Hlt']. split; [lia|].
          intro Hne. apply andb_false_iff in Hne. destruct Hne as [Hne|Hne].
          * specialize (Hlt Hne). lia.
          * specialize (Hlt' Hne). lia.
        + cbn. split; reflexivity.
    Qed.

    Lemma choice_go_post : forall ev cr fr st, ev_ok ev ->
      forall es st1, rest st1 = rest st -> off st1 = off st ->
      match choice_go ev cr fr es st1 with
      | Done false _ st' _ => rest st' = rest st /\ off st' = off st
      | Done true _ st' _ => len st' <= len st /\ (existsb (may_empty nl) es = false -> len st' < len st)
      | _ => True
      end.
    Proof.
      intros ev cr fr st Hev es. induction es as [|e1 es IH]; intros st1 Hr Ho; cbn [Peg.choice_go existsb].
      - split; assumption.
      - specialize (Hev e1 cr st1 []). unfold post in Hev.
        destruct (ev e1 cr st1 []) as [ok v st2 fr2| |]; [|exact I|exact I].
        destruct ok.
        + destruct Hev as [Hle Hlt]. unfold len in *. rewrite Hr in *. split; [exact Hle|].
          intro Hne. apply orb_false_iff in Hne. destruct Hne as [Hne _]. exact (Hlt Hne).
        + destruct Hev as [Hr2 Ho2].
          specialize (IH st2 (eq_trans Hr2 Hr) (eq_trans Ho2 Ho)).
          destruct (choice_go ev cr fr es st2) as [ok' v' st' fr'| |]; [|exact I|exact I].
          destruct ok'; [|exact IH].
          destruct IH as [Hle Hlt]. split; [exact Hle|].
          intro Hne. apply orb_false_iff in Hne. destruct Hne as [_ Hne]. exact (Hlt Hne).
    Qed.

    Lemma lit_go_post : forall cr st0 fr rs st1,
      match lit_go cr st0 fr rs st1 with
      | Done false _ st' _ => rest st' = rest st0 /\ off st' = off st0
      | Done true _ st' _ =>
        len st' <= len st1
        /\ (match rs with [] => true | r :: _ => Z.eqb r rune_error end = false -> len st' < len st1)
      | _ => True
      end.
    Proof.
      intros cr st0 fr rs. induction rs as [|want rs IH]; intros st1; cbn [Peg.lit_go].
      - split; [lia | discriminate].
      - unfold cur_rune. destruct (Z.eqb_spec (fst (decode_rune (rest st1))) want) as [Heq|Hne].
        + specialize (IH (advance E cr st1)).
          destruct (lit_go cr st0 fr rs (advance E cr st1)) as [ok v st' fr'| |]; [|exact I|exact I].
          destruct ok; [|exact IH].
          destruct IH as [Hle _]. pose proof (advance_le cr st1) as Ha. split; [lia|].
          intro Hw. assert (Hlt : len (advance E cr st1) < len st1).
          { apply advance_lt. rewrite Heq. intro Hc. rewrite Hc in Hw. cbn in Hw. discriminate. }
          lia.
        + cbn. split; reflexivity.
    Qed.

    Lemma match_class_post : forall cr chars ranges inv st fr,
      match match_class cr chars ranges inv st fr with
      | Done false _ st' _ => rest st' = rest st /\ off st' = off st
      | Done true _ st' _ => len st' < len st
      | _ => True
      end.
    Proof.
      intros. unfold Peg.match_class.
      destruct (decode_rune (rest st)) as [cur w] eqn:Hd.
      destruct (Z.eqb_spec cur rune_error) as [He|Hne]; [split; reflexivity|].
      assert (Hlt : len (advance E cr st) < len st).
      { apply advance_lt. rewrite Hd. exact Hne. }
      destruct (in_chars cur chars || in_ranges cur ranges); destruct inv;
        first [exact Hlt | split; reflexivity].
    Qed.

    Lemma match_any_post : forall cr st fr,
      match match_any cr st fr with
      | Done false _ st' _ => rest st' = rest st /\ off st' = off st
      | Done true _ st' _ => len st' < len st
      | _ => True
      end.
    Proof.
      intros. unfold Peg.match_any.
      destruct (decode_rune (rest st)) as [cur w] eqn:Hd.
      destruct (Z.eqb_spec cur rune_error) as [He|Hne]; [split; reflexivity|].
      apply advance_lt. rewrite Hd. exact Hne.
    Qed.

    Lemma finish_action_post : forall a cr st st1 fr1,
      match finish_action a cr st st1 fr1 with
      | Done ok _ st' _ => ok = true /\ rest st' = rest st1
      | _ => True
      end.
    Proof.
      intros. unfold Peg.finish_action.
      destruct (run_action a (rest st) (off st1 - off st)%Z fr1); cbn; auto.
    Qed.

    Lemma eval_post_all : forall f,
      (forall e cr st fr, post e st (eval f e cr st fr))
      /\ (forall e1 cr st fr acc, post_loop st (eval_loop f e1 cr st fr acc)).
    Proof.
      induction f as [|f [IHe IHl]].
      - split; intros; exact I.
      - split.
        + intros e cr st fr. rewrite eval_S. destruct e as [a e1|es|es|l e1|e1|e1|e1|e1|e1|i|runes|chars ranges inv|].
          * (* CAct *)
            specialize (IHe e1 cr st fr). unfold post in *. cbn [may_empty].
            destruct (eval f e1 cr st fr) as [ok v st1 fr1| |]; [|exact I|exact I].
            destruct ok; [|exact IHe].
            pose proof (finish_action_post a cr st st1 fr1) as Hf.
            destruct (finish_action a cr st st1 fr1) as [ok' v' st' fr'| |]; [|exact I|exact I].
            destruct Hf as [-> Hr]. unfold len in *. rewrite Hr. exact IHe.
          * (* CSeq *)
            pose proof (seq_go_post (eval f) cr st IHe es st fr []) as H. unfold post. cbn [may_empty].
            destruct (seq_go (eval f) cr st es st fr []) as [ok v st' fr'| |]; [|exact I|exact I].
            destruct ok; exact H.
          * (* CChoice *)
            pose proof (choice_go_post (eval f) cr fr st IHe es st eq_refl eq_refl) as H. unfold post. cbn [may_empty].
            destruct (choice_go (eval f) cr fr es st) as [ok v st' fr'| |]; [|exact I|exact I].
            destruct ok; exact H.
          * (* CLabel *)
            specialize (IHe e1 cr st []). unfold post in *. cbn [may_empty].
            destruct (eval f e1 cr st []) as [ok v st1 fr1| |]; [|exact I|exact I].
            destruct ok; exact IHe.
          * (* CStar *)
            specialize (IHl e1 cr st fr []). unfold post, post_loop in *. cbn [may_empty].
            destruct (eval_loop f e1 cr st fr []) as [ok v st' fr'| |]; [|exact I|exact I].
            destruct IHl as [-> Hle]. split; [exact Hle | discriminate].
          * (* CPlus *)
            specialize (IHe e1 cr st []). unfold post in *. cbn [may_empty].
            destruct (eval f e1 cr st []) as [ok v st1 fr1| |]; [|exact I|exact I].
            destruct ok; [|exact IHe].
            specialize (IHl e1 cr st1 fr [v]). unfold post_loop in IHl.
            destruct (eval_loop f e1 cr st1 fr [v]) as [ok' v' st' fr'| |]; [|exact I|exact I].
            destruct IHl as [-> Hle]. destruct IHe as [Hle1 Hlt1]. split; [lia|].
            intro Hne. specialize (Hlt1 Hne). lia.
          * (* COpt *)
            specialize (IHe e1 cr st []). unfold post in *. cbn [may_empty].
            destruct (eval f e1 cr st []) as [ok v st1 fr1| |]; [|exact I|exact I].
            destruct ok.
            -- destruct IHe as [Hle _]. split; [exact Hle | discriminate].
            -- destruct IHe as [Hr _]. unfold len. rewrite Hr. split; [lia | discriminate].
          * (* CAnd *)
            specialize (IHe e1 cr st []). unfold post in *. cbn [may_empty].
            destruct (eval f e1 cr st []) as [ok v st1 fr1| |]; [|exact I|exact I].
            destruct ok; cbn; [split; [unfold len; cbn; lia | discriminate] | split; reflexivity].
          * (* CNot *)
            specialize (IHe e1 cr st []). unfold post in *. cbn [may_empty].
            destruct (eval f e1 cr st []) as [ok v st1 fr1| |]; [|exact I|exact I].
            destruct ok; cbn; [split; reflexivity | split; [unfold len; cbn; lia | discriminate]].
          * (* CRef *)
            unfold post. cbn [may_empty].
            destruct (nth_error rules i) as [body|] eqn:Hb; [|split; reflexivity].
            specialize (IHe body i st []). unfold post in IHe.
            destruct (eval f body i st []) as [ok v st1 fr1| |]; [|exact I|exact I].
            destruct ok; [|exact IHe].
            destruct IHe as [Hle Hlt]. split; [exact Hle|].
            intro Hn. apply Hlt. destruct (may_empty nl body) eqn:Hm; [|reflexivity].
            rewrite (nl_closed i body Hb Hm) in Hn. discriminate.
          * (* CLit *)
            pose proof (lit_go_post cr st fr runes st) as H. unfold post. cbn [may_empty].
            destruct (lit_go cr st fr runes st) as [ok v st' fr'| |]; [|exact I|exact I].
            destruct ok; exact H.
          * (* CClass *)
            pose proof (match_class_post cr chars ranges inv st fr) as H. unfold post. cbn [may_empty].
            destruct (match_class cr chars ranges inv st fr) as [ok v st' fr'| |]; [|exact I|exact I].
            destruct ok; [split; [lia | intros _; exact H] | exact H].
          * (* CAny *)
            pose proof (match_any_post cr st fr) as H. unfold post. cbn [may_empty].
            destruct (match_any cr st fr) as [ok v st' fr'| |]; [|exact I|exact I].
            destruct ok; [split; [lia | intros _; exact H] | exact H].
        + intros e1 cr st fr acc. rewrite eval_loop_S.
          specialize (IHe e1 cr st []). unfold post in IHe. unfold post_loop.
          destruct (eval f e1 cr st []) as [ok v st1 fr1| |]; [|exact I|exact I].
          destruct ok.
          * specialize (IHl e1 cr st1 fr (v :: acc)). unfold post_loop in IHl.
            destruct (eval_loop f e1 cr st1 fr (v :: acc)) as [ok' v' st' fr'| |]; [|exact I|exact I].
            destruct IHl as [-> Hle]. destruct IHe as [Hle1 _]. split; [reflexivity | lia].
          * destruct IHe as [Hr _]. unfold len. rewrite Hr. split; [reflexivity | lia].
    Qed.

    Lemma eval_post : forall f e cr st fr, post e st (eval f e cr st fr).
    Proof. intros f. exact (proj1 (eval_post_all f)). Qed.
  End Positions.

  (** ** (C) more fuel never changes an answer *)
  Definition ext (ev ev' : evaluator A V E) : Prop :=
    forall e cr st fr, ev e cr st fr <> OutOfFuel -> ev' e cr st fr = ev e cr st fr.

  Lemma seq_go_ext : forall ev ev' cr st0, ext ev ev' ->
    forall es st1 fr1 acc, seq_go ev cr st0 es st1 fr1 acc <> OutOfFuel ->
    seq_go ev' cr st0 es st1 fr1 acc = seq_go ev cr st0 es st1 fr1 acc.
  Proof.
    intros ev ev' cr st0 Hx es. induction es as [|e1 es IH]; intros st1 fr1 acc Hne; cbn [Peg.seq_go] in *; [reflexivity|].
    destruct (ev e1 cr st1 fr1) as [ok v st2 fr2|st2|] eqn:He; [| |congruence].
    - rewrite (Hx e1 cr st1 fr1) by (rewrite He; discriminate). rewrite He.
      destruct ok; [apply IH; exact Hne | reflexivity].
    - rewrite (Hx e1 cr st1 fr1) by (rewrite He; discriminate). rewrite He. reflexivity.
  Qed.

  Lemma choice_go_ext : forall ev ev' cr fr, ext ev ev' ->
    forall es st1, choice_go ev cr fr es st1 <> OutOfFuel ->
    choice_go ev' cr fr es st1 = choice_go ev cr fr es st1.
  Proof.
    intros ev ev' cr fr Hx es. induction es as [|e1 es IH]; intros st1 Hne; cbn [Peg.choice_go] in *; [reflexivity|].
    destruct (ev e1 cr st1 []) as [ok v st2 fr2|st2|] eqn:He; [| |congruence].
    - rewrite (Hx e1 cr st1 []) by (rewrite He; discriminate). rewrite He.
      destruct ok; [reflexivity | apply IH; exact Hne].
    - rewrite (Hx e1 cr st1 []) by (rewrite He; discriminate). rewrite He. reflexivity.
  Qed.

  Lemma eval_mono_all : forall f,
    ext (eval f) (eval (S f))
    /\ (forall e1 cr st fr acc, eval_loop f e1 cr st fr acc <> OutOfFuel ->
          eval_loop (S f) e1 cr st fr acc = eval_loop f e1 cr st fr acc).
  Proof.
    induction f as [|f [IHe IHl]].
    - split; [intros e cr st fr Hne | intros e1 cr st fr acc Hne]; cbn in Hne; congruence.
    - assert (Hsub : forall e1 cr st fr, eval f e1 cr st fr <> OutOfFuel ->
                                         eval (S f) e1 cr st fr = eval f e1 cr st fr) by exact IHe.
      split.
      + intros e cr st fr Hne. rewrite (eval_S (S f)). rewrite (eval_S f) in Hne |- *.
        destruct e as [a e1|es|es|l e1|e1|e1|e1|e1|e1|i|runes|chars ranges inv|].
        * destruct (eval f e1 cr st fr) as [ok v st1 fr1|st1|] eqn:He; [| |congruence];
            rewrite (Hsub e1 cr st fr) by (rewrite He; discriminate); rewrite He; reflexivity.
        * apply seq_go_ext; assumption.
        * apply choice_go_ext; assumption.
        * destruct (eval f e1 cr st []) as [ok v st1 fr1|st1|] eqn:He; [| |congruence];
            rewrite (Hsub e1 cr st []) by (rewrite He; discriminate); rewrite He; reflexivity.
        * apply IHl. exact Hne.
        * destruct (eval f e1 cr st []) as [ok v st1 fr1|st1|] eqn:He; [| |congruence];
            rewrite (Hsub e1 cr st []) by (rewrite He; discriminate); rewrite He; [|reflexivity].
          destruct ok; [apply IHl; exact Hne | reflexivity].
        * destruct (eval f e1 cr st []) as [ok v st1 fr1|st1|] eqn:He; [| |congruence];
            rewrite (Hsub e1 cr st []) by (rewrite He; discriminate); rewrite He; reflexivity.
        * destruct (eval f e1 cr st []) as [ok v st1 fr1|st1|] eqn:He; [| |congruence];
            rewrite (Hsub e1 cr st []) by (rewrite He; discriminate); rewrite He; reflexivity.
        * destruct (eval f e1 cr st []) as [ok v st1 fr1|st1|] eqn:He; [| |congruence];
            rewrite (Hsub e1 cr st []) by (rewrite He; discriminate); rewrite He; reflexivity.
        * destruct (nth_error rules i) as [body|]; [|reflexivity].
          destruct (eval f body i st []) as [ok v st1 fr1|st1|] eqn:He; [| |congruence];
            rewrite (Hsub body i st []) by (rewrite He; discriminate); rewrite He; reflexivity.
        * reflexivity.
        * reflexivity.
        * reflexivity.
      + intros e1 cr st fr acc Hne. rewrite (eval_loop_S (S f)). rewrite (eval_loop_S f) in Hne |- *.
        destruct (eval f e1 cr st []) as [ok v st1 fr1|st1|] eqn:He; [| |congruence];
          rewrite (Hsub e1 cr st []) by (rewrite He; discriminate); rewrite He; [|reflexivity].
        destruct ok; [apply IHl; exact Hne | reflexivity].
  Qed.

  Lemma eval_mono : forall f f' e cr st fr, f <= f' ->
    eval f e cr st fr <> OutOfFuel -> eval f' e cr st fr = eval f e cr st fr.
  Proof.
    intros f f' e cr st fr Hle. induction Hle as [|m Hle IH]; intros Hne; [reflexivity|].
    rewrite (proj1 (eval_mono_all m) e cr st fr); [exact (IH Hne)|]. rewrite (IH Hne). exact Hne.
  Qed.

  (** two sufficient budgets give the same answer *)
  Lemma eval_fuel_irrelevant : forall f1 f2 e cr st fr,
    eval f1 e cr st fr <> OutOfFuel -> eval f2 e cr st fr <> OutOfFuel ->
    eval f1 e cr st fr = eval f2 e cr st fr.
  Proof.
    intros f1 f2 e cr st fr H1 H2. destruct (Nat.le_ge_cases f1 f2) as [Hle|Hle].
    - symmetry. apply eval_mono; assumption.
    - apply eval_mono; assumption.
  Qed.

  Lemma parse_fuel_irrelevant : forall f1 f2 input,
    Peg.parse A V E vnil vbytes vlist run_action rules f1 input <> PFuel ->
    Peg.parse A V E vnil vbytes vlist run_action rules f2 input <> PFuel ->
    Peg.parse A V E vnil vbytes vlist run_action rules f1 input
    = Peg.parse A V E vnil vbytes vlist run_action rules f2 input.
  Proof.
    intros f1 f2 input. unfold Peg.parse. destruct (nth_error rules 0) as [body|]; [|reflexivity].
    intros H1 H2.
    assert (E1 : eval f1 body 0 (initial_state E input) [] <> OutOfFuel).
    { intro Hc. rewrite Hc in H1. congruence. }
    assert (E2 : eval f2 body 0 (initial_state E input) [] <> OutOfFuel).
    { intro Hc. rewrite Hc in H2. congruence. }
    rewrite (eval_fuel_irrelevant f1 f2 _ _ _ _ E1 E2). reflexivity.
  Qed.

  (** ** (B) termination with an explicit depth bound *)
  Section Termination.
    Variable nl : nat -> bool.
    Variable rk : nat -> nat.
    Variables R Hmax : nat.
    Hypothesis nl_closed : forall i body,
      nth_error rules i = Some body -> may_empty nl body = true -> nl i = true.
    Hypothesis rules_wf : forall i body,
      nth_error rules i = Some body -> wf_expr nl (length rules) body = true.
    Hypothesis rules_height : forall i body, nth_error rules i = Some body -> height body <= Hmax.
    Hypothesis rank_ok : forall i body,
      nth_error rules i = Some body -> forall j, In j (heads nl body) -> rk j < rk i.
    Hypothesis rank_bound : forall i, i < length rules -> rk i < R.

    Let H := S Hmax.
    Let C := S R * H.

    Definition need (n rho h : nat) : nat := n * C + rho * H + h.

    Definition heads_below (e : cexpr A) (rho : nat) : Prop := forall j, In j (heads nl e) -> rk j < rho.

    Lemma heads_seq_cons : forall (x : cexpr A) (t : list (cexpr A)),
      heads nl (CSeq (x :: t)) = heads nl x ++ (if may_empty nl x then heads nl (CSeq t) else []).
    Proof. reflexivity. Qed.

    Lemma heads_in_range : forall (e : cexpr A), wf_expr nl (length rules) e = true ->
      forall j, In j (heads nl e) -> j < length rules.
    Proof.
      fix IH 1. intros e Hwf j Hin. destruct e as [a e1|es|es|l e1|e1|e1|e1|e1|e1|i|runes|chars ranges inv|];
        cbn [wf_expr] in Hwf; try (cbn [heads] in Hin; now apply (IH e1)).
      - (* CSeq *)
        revert Hwf j Hin. induction es as [|x t IHes]; intros Hwf j Hin.
        + cbn in Hin. contradiction.
        + cbn [forallb] in Hwf. apply andb_true_iff in Hwf. destruct Hwf as [Hx Ht].
          rewrite heads_seq_cons in Hin. apply in_app_or in Hin. destruct Hin as [Hin|Hin].
          * exact (IH x Hx j Hin).
          * destruct (may_empty nl x); [exact (IHes Ht j Hin) | contradiction].
      - (* CChoice *)
        cbn [heads] in Hin. revert Hwf j Hin. induction es as [|x t IHes]; intros Hwf j Hin.
        + cbn in Hin. contradiction.
        + cbn [forallb] in Hwf. apply andb_true_iff in Hwf. destruct Hwf as [Hx Ht].
          cbn [flat_map] in Hin. apply in_app_or in Hin. destruct Hin as [Hin|Hin].
          * exact (IH x Hx j Hin).
          * exact (IHes Ht j Hin).
      - (* CStar *) apply andb_true_iff in Hwf. destruct Hwf as [_ Hwf]. cbn [heads] in Hin. exact (IH e1 Hwf j Hin).
      - (* CPlus *) apply andb_true_iff in Hwf. destruct Hwf as [_ Hwf]. cbn [heads] in Hin. exact (IH e1 Hwf j Hin).
      - (* CRef *) cbn [heads] in Hin. destruct Hin as [<-|[]]. apply Nat.ltb_lt. exact Hwf.
      - cbn in Hin. contradiction.
      - cbn in Hin. contradiction.
      - cbn in Hin. contradiction.
    Qed.

    Lemma heads_below_R : forall (e : cexpr A), wf_expr nl (length rules) e = true -> heads_below e R.
    Proof. intros e Hwf j Hin. apply rank_bound. exact (heads_in_range e Hwf j Hin). Qed.

    (** the expression is fit to be evaluated with [f] units of depth at state [st] *)
    Definition fits (f : nat) (e : cexpr A) (st : pstate) : Prop :=
      wf_expr nl (length rules) e = true /\ height e <= Hmax
      /\ exists rho, rho <= R /\ heads_below e rho /\ need (len st) rho (height e) <= f.

    Definition ev_total (f : nat) (ev : evaluator A V E) : Prop :=
      forall e cr st fr, fits f e st -> ev e cr st fr <> OutOfFuel.

    (** an expression reached after some input has been consumed fits with room to spare *)
    Lemma fits_later : forall f e st n rho h,
      wf_expr nl (length rules) e = true -> height e <= Hmax ->
      len st < n -> need n rho h <= f -> fits f e st.
    Proof.
      intros f e st n rho h Hwf Hh Hlt Hneed. split; [exact Hwf|]. split; [exact Hh|].
      exists R. split; [lia|]. split; [apply heads_below_R; exact Hwf|].
      unfold need in *. unfold C, H in *.
      assert (len st * (S R * S Hmax) + R * S Hmax + height e <= n * (S R * S Hmax)) by nia.
      lia.
    Qed.

    Lemma seq_go_total : forall f ev cr st0, ev_total f ev -> ev_ok nl ev ->
      forall es n rho hb st1 fr1 acc,
      forallb (wf_expr nl (length rules)) es = true ->
      (forall x, In x es -> height x <= hb) -> hb <= Hmax -> rho <= R ->
      need n rho hb <= f ->
      (len st1 = n /\ heads_below (CSeq es) rho) \/ len st1 < n ->
      seq_go ev cr st0 es st1 fr1 acc <> OutOfFuel.
    Proof.
      intros f ev cr st0 Htot Hok es. induction es as [|x t IH]; intros n rho hb st1 fr1 acc Hwf Hh Hhb Hrho Hneed Hpos;
        cbn [Peg.seq_go].
      - discriminate.
      - cbn [forallb] in Hwf. apply andb_true_iff in Hwf. destruct Hwf as [Hx Ht].
        assert (Hfit : fits f x st1).
        { destruct Hpos as [[Hn Hb]|Hlt].
          - split; [exact Hx|]. split; [specialize (Hh x (or_introl eq_refl)); lia|].
            exists rho. split; [exact Hrho|]. split.
            + intros j Hj. apply Hb. rewrite heads_seq_cons. apply in_or_app. left. exact Hj.
            + specialize (Hh x (or_introl eq_refl)). unfold need in *. rewrite Hn. lia.
          - apply (fits_later f x st1 n rho hb); [exact Hx | specialize (Hh x (or_introl eq_refl)); lia | exact Hlt | exact Hneed]. }
        specialize (Htot x cr st1 fr1 Hfit). specialize (Hok x cr st1 fr1). unfold post in Hok.
        destruct (ev x cr st1 fr1) as [ok v st2 fr2| |]; [|discriminate|congruence].
        destruct ok; [|discriminate].
        destruct Hok as [Hle Hlt].
        apply (IH n rho hb); try assumption.
        + intros y Hy. apply Hh. right. exact Hy.
        + destruct Hpos as [[Hn Hb]|Hl]; [|right; lia].
          destruct (may_empty nl x) eqn:Hm.
          * destruct (Nat.eq_dec (len st2) n) as [He|Hne]; [|right; lia].
            left. split; [exact He|]. intros j Hj. apply Hb. rewrite heads_seq_cons, Hm. apply in_or_app. right. exact Hj.
          * right. specialize (Hlt eq_refl). lia.
    Qed.

    Lemma choice_go_total : forall f ev cr fr st, ev_total f ev -> ev_ok nl ev ->
      forall es rho hb st1,
      forallb (wf_expr nl (length rules)) es = true ->
      (forall x, In x es -> height x <= hb) -> hb <= Hmax -> rho <= R ->
      need (len st) rho hb <= f ->
      heads_below (CChoice es) rho -> rest st1 = rest st ->
      choice_go ev cr fr es st1 <> OutOfFuel.
    Proof.
      intros f ev cr fr st Htot Hok es. induction es as [|x t IH]; intros rho hb st1 Hwf Hh Hhb Hrho Hneed Hb Hr;
        cbn [Peg.choice_go].
      - discriminate.
      - cbn [forallb] in Hwf. apply andb_true_iff in Hwf. destruct Hwf as [Hx Ht].
        assert (Hfit : fits f x st1).
        { split; [exact Hx|]. split; [specialize (Hh x (or_introl eq_refl)); lia|].
          exists rho. split; [exact Hrho|]. split.
          - intros j Hj. apply Hb. cbn [heads flat_map]. apply in_or_app. left. exact Hj.
          - specialize (Hh x (or_introl eq_refl)). unfold need, len in *. rewrite Hr. lia. }
        specialize (Htot x cr st1 [] Hfit). specialize (Hok x cr st1 []). unfold post in Hok.
        destruct (ev x cr st1 []) as [ok v st2 fr2| |]; [|discriminate|congruence].
        destruct ok; [discriminate|].
        destruct Hok as [Hr2 _].
        apply (IH rho hb); try assumption.
        + intros y Hy. apply Hh. right. exact Hy.
        + intros j Hj. apply Hb. cbn [heads flat_map]. apply in_or_app. right. exact Hj.
        + congruence.
    Qed.

    Lemma lit_go_total : forall cr st0 fr rs st1, lit_go cr st0 fr rs st1 <> OutOfFuel.
    Proof.
      intros cr st0 fr rs. induction rs as [|w rs IH]; intros st1; cbn [Peg.lit_go]; [discriminate|].
      destruct (cur_rune E st1 =? w)%Z; [apply IH | discriminate].
    Qed.

    Lemma max_le_fold : forall (es : list (cexpr A)) x, In x es ->
      height x <= fold_right (fun y acc => Nat.max (height y) acc) 0 es.
    Proof.
      induction es as [|y t IH]; intros x Hin; [contradiction|].
      cbn [fold_right]. destruct Hin as [->|Hin]; [lia | specialize (IH x Hin); lia].
    Qed.

    Lemma eval_total_all : forall f,
      ev_total f (eval f)
      /\ (forall e1 cr st fr acc rho,
            wf_expr nl (length rules) e1 = true -> may_empty nl e1 = false -> height e1 <= Hmax ->
            rho <= R -> heads_below e1 rho -> need (len st) rho (S (height e1)) <= f ->
            eval_loop f e1 cr st fr acc <> OutOfFuel).
    Proof.
      induction f as [|f [IHe IHl]].
      - split.
        + intros e cr st fr (Hwf & Hh & rho & Hrho & Hb & Hneed). exfalso.
          unfold need in Hneed. assert (1 <= height e) by (destruct e; cbn; lia). lia.
        + intros e1 cr st fr acc rho _ _ _ _ _ Hneed. exfalso. unfold need in Hneed. lia.
      - pose proof (eval_post nl nl_closed f) as Hpost.
        assert (Hok : ev_ok nl (eval f)) by exact Hpost.
        split.
        + intros e cr st fr (Hwf & Hh & rho & Hrho & Hb & Hneed). rewrite eval_S.
          (* sub-expression in head position, one level down *)
          assert (Hsub : forall e1, wf_expr nl (length rules) e1 = true -> S (height e1) <= height e ->
                                    heads_below e1 rho -> forall st1, rest st1 = rest st -> fits f e1 st1).
          { intros e1 Hw1 Hh1 Hb1 st1 Hr. split; [exact Hw1|]. split; [lia|].
            exists rho. split; [exact Hrho|]. split; [exact Hb1|]. unfold need, len in *. rewrite Hr. lia. }
          destruct e as [a e1|es|es|l e1|e1|e1|e1|e1|e1|i|runes|chars ranges inv|]; cbn [wf_expr height] in Hwf, Hh, Hneed.
          * (* CAct *)
            assert (Hf := IHe e1 cr st fr (Hsub e1 Hwf ltac:(cbn; lia) Hb st eq_refl)).
            destruct (eval f e1 cr st fr) as [ok v st1 fr1| |]; [|discriminate|congruence].
            destruct ok; [|discriminate]. unfold Peg.finish_action.
            destruct (run_action a (rest st) (off st1 - off st)%Z fr1); discriminate.
          * (* CSeq *)
            apply (seq_go_total f (eval f) cr st IHe Hok es (len st) rho
                     (fold_right (fun y acc => Nat.max (height y) acc) 0 es)); try assumption.
            -- apply max_le_fold.
            -- lia.
            -- unfold need in *. lia.
            -- left. split; [reflexivity | exact Hb].
          * (* CChoice *)
            apply (choice_go_total f (eval f) cr fr st IHe Hok es rho
                     (fold_right (fun y acc => Nat.max (height y) acc) 0 es)); try assumption.
            -- apply max_le_fold.
            -- lia.
            -- unfold need in *. lia.
            -- reflexivity.
          * (* CLabel *)
            assert (Hf := IHe e1 cr st [] (Hsub e1 Hwf ltac:(cbn; lia) Hb st eq_refl)).
            destruct (eval f e1 cr st []) as [ok v st1 fr1| |]; [|discriminate|congruence].
            destruct ok; discriminate.
          * (* CStar *)
            apply andb_true_iff in Hwf. destruct Hwf as [Hne Hwf]. apply negb_true_iff in Hne.
            apply (IHl e1 cr st fr [] rho); try assumption; [lia|]. unfold need in *. lia.
          * (* CPlus *)
            apply andb_true_iff in Hwf. destruct Hwf as [Hne Hwf]. apply negb_true_iff in Hne.
            assert (Hf := IHe e1 cr st [] (Hsub e1 Hwf ltac:(cbn; lia) Hb st eq_refl)).
            pose proof (Hpost e1 cr st []) as Hp. unfold post in Hp.
            destruct (eval f e1 cr st []) as [ok v st1 fr1| |]; [|discriminate|congruence].
            destruct ok; [|discriminate]. destruct Hp as [_ Hlt]. specialize (Hlt Hne).
            apply (IHl e1 cr st1 fr [v] R); try assumption; [lia | lia | apply heads_below_R; exact Hwf |].
            unfold need in *. unfold C, H in *.
            assert (len st1 * (S R * S Hmax) + R * S Hmax + S (height e1) <= len st * (S R * S Hmax)) by nia.
            lia.
          * (* COpt *)
            assert (Hf := IHe e1 cr st [] (Hsub e1 Hwf ltac:(cbn; lia) Hb st eq_refl)).
            destruct (eval f e1 cr st []) as [ok v st1 fr1| |]; [|discriminate|congruence]. discriminate.
          * (* CAnd *)
            assert (Hf := IHe e1 cr st [] (Hsub e1 Hwf ltac:(cbn; lia) Hb st eq_refl)).
            destruct (eval f e1 cr st []) as [ok v st1 fr1| |]; [|discriminate|congruence]. discriminate.
          * (* CNot *)
            assert (Hf := IHe e1 cr st [] (Hsub e1 Hwf ltac:(cbn; lia) Hb st eq_refl)).
            destruct (eval f e1 cr st []) as [ok v st1 fr1| |]; [|discriminate|congruence]. discriminate.
          * (* CRef *)
            destruct (nth_error rules i) as [body|] eqn:Hbody; [|discriminate].
            assert (Hfit : fits f body st).
            { split; [exact (rules_wf i body Hbody)|]. split; [exact (rules_height i body Hbody)|].
              exists (rk i). assert (Hri : rk i < rho) by (apply Hb; cbn; left; reflexivity).
              split; [lia|]. split; [exact (rank_ok i body Hbody)|].
              pose proof (rules_height i body Hbody) as Hhb. unfold need in *. unfold H in *.
              assert (rk i * S Hmax + S Hmax <= rho * S Hmax) by nia. lia. }
            assert (Hf := IHe body i st [] Hfit).
            destruct (eval f body i st []) as [ok v st1 fr1| |]; [|discriminate|congruence]. discriminate.
          * (* CLit *) apply lit_go_total.
          * (* CClass *)
            unfold Peg.match_class. destruct (decode_rune (rest st)) as [cur w].
            destruct (cur =? rune_error)%Z; [discriminate|].
            destruct (in_chars cur chars || in_ranges cur ranges); destruct inv; discriminate.
          * (* CAny *)
            unfold Peg.match_any. destruct (decode_rune (rest st)) as [cur w].
            destruct (cur =? rune_error)%Z; discriminate.
        + intros e1 cr st fr acc rho Hwf Hne Hh Hrho Hb Hneed. rewrite eval_loop_S.
          assert (Hfit : fits f e1 st).
          { split; [exact Hwf|]. split; [exact Hh|]. exists rho. split; [exact Hrho|]. split; [exact Hb|].
            unfold need in *. lia. }
          assert (Hf := IHe e1 cr st [] Hfit).
          pose proof (Hpost e1 cr st []) as Hp. unfold post in Hp.
          destruct (eval f e1 cr st []) as [ok v st1 fr1| |]; [|discriminate|congruence].
          destruct ok; [|discriminate]. destruct Hp as [_ Hlt]. specialize (Hlt Hne).
          apply (IHl e1 cr st1 fr (v :: acc) R); try assumption; [lia | apply heads_below_R; exact Hwf |].
          unfold need in *. unfold C, H in *.
          assert (len st1 * (S R * S Hmax) + R * S Hmax + S (height e1) <= len st * (S R * S Hmax)) by nia.
          lia.
    Qed.

    (** the start rule on any input *)
    Theorem eval_rule_total : forall i body input_st fuel fr cr,
      nth_error rules i = Some body ->
      (S (len input_st)) * C <= fuel ->
      eval fuel body cr input_st fr <> OutOfFuel.
    Proof.
      intros i body st fuel fr cr Hbody Hfuel.
      apply (proj1 (eval_total_all fuel)).
      split; [exact (rules_wf i body Hbody)|]. split; [exact (rules_height i body Hbody)|].
      exists R. split; [lia|]. split; [apply heads_below_R; exact (rules_wf i body Hbody)|].
      pose proof (rules_height i body Hbody) as Hh. unfold need. unfold C, H in *.
      assert (len st * (S R * S Hmax) + R * S Hmax + height body <= S (len st) * (S R * S Hmax)) by nia.
      lia.
    Qed.
  End Termination.
End Generic.

(** ** the computable check implies the hypotheses of (B) *)
Section CheckSound.
  Variables A V E : Type.
  Variable vnil : V.
  Variable vbytes : list Z -> V.
  Variable vlist : list V -> V.
  Variable run_action : A -> list Z -> Z -> list (String.string * V) -> ares V E.
  Variable rules : list (cexpr A).
  Variables (nlt : list bool) (rkt : list nat).
  Hypothesis checked : check_wf rules nlt rkt = true.

  Let nl := tbl_get false nlt.
  Let rk := tbl_get 0 rkt.

  Lemma nth_error_combine_seq : forall (X : Type) (l : list X) start i b,
    nth_error l i = Some b -> In (start + i, b) (combine (seq start (length l)) l).
  Proof.
    induction l as [|x l IH]; intros start i b Hn; [destruct i; discriminate|].
    destruct i as [|i]; cbn in *.
    - injection Hn as ->. left. f_equal. lia.
    - right. replace (start + S i) with (S start + i) by lia. apply IH. exact Hn.
  Qed.

  Lemma checked_parts :
    forallb (wf_expr nl (length rules)) rules = true
    /\ forallb (fun p => implb (may_empty nl (snd p)) (nl (fst p))) (combine (seq 0 (length rules)) rules) = true
    /\ forallb (fun p => forallb (fun j => rk j <? rk (fst p)) (heads nl (snd p)))
               (combine (seq 0 (length rules)) rules) = true
    /\ length rkt = length rules.
  Proof.
    pose proof checked as Hc. unfold check_wf in Hc. fold nl in Hc. fold rk in Hc.
    apply andb_true_iff in Hc. destruct Hc as [Hc He].
    apply andb_true_iff in Hc. destruct Hc as [Hc Hd].
    apply andb_true_iff in Hc. destruct Hc as [Hc Hw].
    apply andb_true_iff in Hc. destruct Hc as [Ha Hb].
    split; [exact Hw|]. split; [exact Hd|]. split; [exact He|]. apply Nat.eqb_eq. exact Hb.
  Qed.

  Lemma c_nl_closed : forall i body,
    nth_error rules i = Some body -> may_empty nl body = true -> nl i = true.
  Proof.
    intros i body Hn Hm. destruct checked_parts as (_ & H2 & _ & _).
    rewrite forallb_forall in H2. specialize (H2 (i, body) (nth_error_combine_seq _ rules 0 i body Hn)).
    cbn [fst snd] in H2. rewrite Hm in H2. exact H2.
  Qed.

  Lemma c_rules_wf : forall i body,
    nth_error rules i = Some body -> wf_expr nl (length rules) body = true.
  Proof.
    intros i body Hn. destruct checked_parts as (H1 & _). rewrite forallb_forall in H1.
    apply H1. exact (nth_error_In _ _ Hn).
  Qed.

  Lemma c_rank_ok : forall i body,
    nth_error rules i = Some body -> forall j, In j (heads nl body) -> rk j < rk i.
  Proof.
    intros i body Hn j Hj. destruct checked_parts as (_ & _ & H3 & _).
    rewrite forallb_forall in H3. specialize (H3 (i, body) (nth_error_combine_seq _ rules 0 i body Hn)).
    cbn [fst snd] in H3. rewrite forallb_forall in H3. apply Nat.ltb_lt. exact (H3 j Hj).
  Qed.

  Lemma nth_le_max : forall (l : list nat) i, nth i l 0 <= fold_right Nat.max 0 l.
  Proof.
    induction l as [|x l IH]; intros i; [destruct i; cbn; lia|].
    destruct i as [|i]; cbn [nth fold_right]; [lia | specialize (IH i); lia].
  Qed.

  Lemma c_rank_bound : forall i, i < length rules -> rk i < S (max_rank rkt).
  Proof. intros i _. unfold rk, tbl_get, max_rank. pose proof (nth_le_max rkt i). lia. Qed.

  Lemma in_height_le_max : forall (l : list (cexpr A)) body, In body l -> height body <= max_height l.
  Proof.
    unfold max_height. induction l as [|x l IH]; intros body Hn; [contradiction|].
    cbn [fold_right]. destruct Hn as [->|Hn]; [lia | specialize (IH body Hn); lia].
  Qed.

  Lemma c_rules_height : forall i body, nth_error rules i = Some body -> height body <= max_height rules.
  Proof. intros i body Hn. apply in_height_le_max. exact (nth_error_In _ _ Hn). Qed.

  (** a grammar that passes the check never exhausts a depth budget of (|input| + 1) * depth_unit *)
  Theorem wf_parse_total : forall input fuel,
    S (length input) * depth_unit rules rkt <= fuel ->
    Peg.parse A V E vnil vbytes vlist run_action rules fuel input <> PFuel.
  Proof.
    intros input fuel Hfuel. unfold Peg.parse.
    destruct (nth_error rules 0) as [body|] eqn:Hb; [|discriminate].
    pose proof (eval_rule_total A V E vnil vbytes vlist run_action rules nl rk (S (max_rank rkt)) (max_height rules)
                  c_nl_closed c_rules_wf c_rules_height c_rank_ok c_rank_bound
                  0 body (initial_state E input) fuel [] 0 Hb) as Ht.
    assert (Hlen : len E (initial_state E input) = length input).
    { unfold len, initial_state. destruct (decode_rune input) as [rn n]. reflexivity. }
    rewrite Hlen in Ht.
    assert (Hf : S (length input) * (S (S (max_rank rkt)) * S (max_height rules)) <= fuel).
    { unfold depth_unit in Hfuel. nia. }
    specialize (Ht Hf).
    destruct (Peg.eval A V E vnil vbytes vlist run_action rules fuel body 0 (initial_state E input) [])
      as [ok v st fr|st|]; [| |congruence].
    - destruct ok; destruct (errs st); discriminate.
    - discriminate.
  Qed.
End CheckSound.
