(** Lemmas about Model/ThriftBin.v: integer codec, wire codec round trip, skipping,
    field rules of the generated Write, required / union checks of the generated Read. *)
From Coq Require Import ZArith List Bool Lia.
From FV Require Import Base.Res Base.Bytes Model.ThriftBin Proofs.BytesProofs.
Import ListNotations.
Open Scope Z_scope.

Ltac Zify.zify_post_hook ::= Z.div_mod_to_equations.

(** * A usable induction principle for the nested type [val] *)
Section ValInd.
  Variable P : val -> Prop.
  Hypothesis HBool : forall b, P (VBool b).
  Hypothesis HInt : forall z, P (VInt z).
  Hypothesis HDouble : forall b, P (VDouble b).
  Hypothesis HBytes : forall b, P (VBytes b).
  Hypothesis HList : forall l, Forall P l -> P (VList l).
  Hypothesis HSet : forall l, Forall P l -> P (VSet l).
  Hypothesis HMap : forall l, Forall (fun kv => P (fst kv) /\ P (snd kv)) l -> P (VMap l).
  Hypothesis HStruct : forall l, Forall (fun o => match o with Some x => P x | None => True end) l -> P (VStruct l).
  Hypothesis HRec : forall l, Forall (fun ix => P (snd ix)) l -> P (VRec l).

  Fixpoint val_ind' (v : val) : P v :=
    match v with
    | VBool b => HBool b
    | VInt z => HInt z
    | VDouble b => HDouble b
    | VBytes b => HBytes b
    | VList l =>
      HList l ((fix go (l : list val) : Forall P l :=
                  match l with [] => Forall_nil _ | x :: r => Forall_cons x (val_ind' x) (go r) end) l)
    | VSet l =>
      HSet l ((fix go (l : list val) : Forall P l :=
                 match l with [] => Forall_nil _ | x :: r => Forall_cons x (val_ind' x) (go r) end) l)
    | VMap l =>
      HMap l ((fix go (l : list (val * val)) : Forall (fun kv => P (fst kv) /\ P (snd kv)) l :=
                 match l with
                 | [] => Forall_nil _
                 | (k, x) :: r => Forall_cons (k, x) (conj (val_ind' k) (val_ind' x)) (go r)
                 end) l)
    | VStruct l =>
      HStruct l ((fix go (l : list (option val))
                    : Forall (fun o => match o with Some x => P x | None => True end) l :=
                    match l with
                    | [] => Forall_nil _
                    | Some x :: r => Forall_cons (Some x) (val_ind' x) (go r)
                    | None :: r => Forall_cons None I (go r)
                    end) l)
    | VRec l =>
      HRec l ((fix go (l : list (Z * val)) : Forall (fun ix => P (snd ix)) l :=
                 match l with
                 | [] => Forall_nil _
                 | (i, x) :: r => Forall_cons (i, x) (val_ind' x) (go r)
                 end) l)
    end.
End ValInd.

(** * Integers *)
Lemma be_n_length n z : length (be_n n z) = n.
Proof.
  revert z; induction n as [|n IH]; intro z; cbn [be_n]; [reflexivity|].
  rewrite app_length, IH; cbn; lia.
Qed.

Lemma un_be_app a x : un_be (a ++ [x]) = un_be a * 256 + x.
Proof. unfold un_be. rewrite fold_left_app. reflexivity. Qed.

Lemma pow256_S n : 256 ^ Z.of_nat (S n) = 256 * 256 ^ Z.of_nat n.
Proof. rewrite Nat2Z.inj_succ, Z.pow_succ_r by lia. reflexivity. Qed.

Lemma pow256_pos n : 0 < 256 ^ Z.of_nat n.
Proof. apply Z.pow_pos_nonneg; lia. Qed.

Lemma un_be_be_n n z : un_be (be_n n z) = z mod 256 ^ Z.of_nat n.
Proof.
  revert z; induction n as [|n IH]; intro z.
  - cbn. rewrite Z.mod_1_r. reflexivity.
  - cbn [be_n]. rewrite un_be_app, IH, pow256_S.
    pose proof (pow256_pos n) as Hp.
    rewrite Z.rem_mul_r by lia. ring.
Qed.

Definition in_range (n : nat) (z : Z) : Prop :=
  - (256 ^ Z.of_nat n / 2) <= z < 256 ^ Z.of_nat n / 2.

Lemma signed_mod n z : (0 < n)%nat -> in_range n z -> signed n (z mod 256 ^ Z.of_nat n) = z.
Proof.
  intros Hn [Hlo Hhi]. unfold signed.
  pose proof (pow256_pos n) as Hp.
  assert (Hev : 256 ^ Z.of_nat n = 2 * (256 ^ Z.of_nat n / 2)).
  { destruct n; [lia|]. rewrite pow256_S. lia. }
  set (m := 256 ^ Z.of_nat n) in *.
  destruct (z mod m <? m / 2) eqn:E.
  - apply Z.ltb_lt in E. assert (0 <= z \/ z < 0) as [H|H] by lia.
    + rewrite Z.mod_small in * by lia. reflexivity.
    + assert (z mod m = z + m).
      { symmetry. apply Z.mod_unique with (q := -1); lia. }
      lia.
  - apply Z.ltb_ge in E. assert (0 <= z \/ z < 0) as [H|H] by lia.
    + rewrite Z.mod_small in * by lia. lia.
    + assert (z mod m = z + m).
      { symmetry. apply Z.mod_unique with (q := -1); lia. }
      lia.
Qed.

Lemma read_n_app n x r : length x = n -> read_n n (x ++ r) = Ok (x, r).
Proof.
  intros <-. unfold read_n.
  rewrite app_length.
  replace (Nat.leb (length x) (length x + length r)) with true
    by (symmetry; apply Nat.leb_le; lia).
  rewrite firstn_app, Nat.sub_diag, firstn_all, skipn_app, Nat.sub_diag, skipn_all.
  cbn. rewrite app_nil_r. reflexivity.
Qed.

Lemma read_int_be n z r : (0 < n)%nat -> in_range n z -> read_int n (be_n n z ++ r) = Ok (z, r).
Proof.
  intros Hn Hr. unfold read_int. rewrite read_n_app by apply be_n_length.
  cbn [bind]. rewrite un_be_be_n, signed_mod by assumption. reflexivity.
Qed.

Lemma in_range_4 z : in_range 4 z <-> -2147483648 <= z < 2147483648.
Proof. unfold in_range. change (256 ^ Z.of_nat 4 / 2) with 2147483648. lia. Qed.
Lemma in_range_2 z : in_range 2 z <-> -32768 <= z < 32768.
Proof. unfold in_range. change (256 ^ Z.of_nat 2 / 2) with 32768. lia. Qed.
Lemma in_range_1 z : in_range 1 z <-> -128 <= z < 128.
Proof. unfold in_range. change (256 ^ Z.of_nat 1 / 2) with 128. lia. Qed.

Lemma read_size_be z r : 0 <= z < 2147483648 -> read_size (be_n 4 z ++ r) = Ok (z, r).
Proof.
  intros H. unfold read_size. rewrite read_int_be; [|lia|apply in_range_4; lia].
  cbn [bind]. destruct (z <? 0) eqn:E; [apply Z.ltb_lt in E; lia|reflexivity].
Qed.

Lemma read_blob_be b r : zlen b < 2147483648 ->
  read_blob (be_n 4 (zlen b) ++ b ++ r) = Ok (b, r).
Proof.
  intros H. unfold read_blob. pose proof (zlen_nonneg b).
  rewrite read_size_be by lia. cbn [bind].
  rewrite zlen_app.
  pose proof (zlen_nonneg r).
  destruct (zlen b <=? zlen b + zlen r) eqn:E; [|apply Z.leb_gt in E; lia].
  unfold zlen. rewrite Nat2Z.id.
  rewrite firstn_app, Nat.sub_diag, firstn_all, skipn_app, Nat.sub_diag, skipn_all.
  cbn. rewrite app_nil_r. reflexivity.
Qed.

(** * The nested loops of [wenc] are the stand-alone ones *)
Lemma wenc_list_eq e t l :
  wenc e t (VList l) =
  wtype e (elem_ty (shape_of e t)) :: be_n 4 (zlen l) ++ wenc_seq e (elem_ty (shape_of e t)) l.
Proof.
  cbn [wenc]. cbv zeta. f_equal. f_equal.
  induction l as [|x r IH]; [reflexivity|]. cbn [wenc_seq]. rewrite <- IH. reflexivity.
Qed.
Lemma wenc_set_eq e t l :
  wenc e t (VSet l) =
  wtype e (elem_ty (shape_of e t)) :: be_n 4 (zlen l) ++ wenc_seq e (elem_ty (shape_of e t)) l.
Proof.
  cbn [wenc]. cbv zeta. f_equal. f_equal.
  induction l as [|x r IH]; [reflexivity|]. cbn [wenc_seq]. rewrite <- IH. reflexivity.
Qed.
Lemma wenc_map_eq e t l :
  wenc e t (VMap l) =
  wtype e (key_ty (shape_of e t)) :: wtype e (mval_ty (shape_of e t)) :: be_n 4 (zlen l) ++
  wenc_pairs e (key_ty (shape_of e t)) (mval_ty (shape_of e t)) l.
Proof.
  cbn [wenc]. cbv zeta. f_equal. f_equal. f_equal.
  induction l as [|[k x] r IH]; [reflexivity|]. cbn [wenc_pairs]. rewrite <- IH. reflexivity.
Qed.
Lemma wenc_rec_eq e t l :
  wenc e t (VRec l) = wenc_fields e (ftyp_of (struct_fields (shape_of e t))) l.
Proof.
  cbn [wenc]. cbv zeta.
  induction l as [|[i x] r IH]; [reflexivity|]. cbn [wenc_fields]. rewrite <- IH. reflexivity.
Qed.

(** * Well-typed wire values and the fuel they need *)
Definition int_ok (n : nat) : Prop := n = 1%nat \/ n = 2%nat \/ n = 4%nat \/ n = 8%nat.

Fixpoint wwt (e : env) (t : ty) (v : val) {struct v} : Prop :=
  match v with
  | VBool _ => shape_of e t = SBool
  | VInt z =>
    match shape_of e t with
    | SInt n => int_ok n /\ in_range n z
    | SEnum => in_range 4 z
    | _ => False
    end
  | VDouble b => shape_of e t = SDouble /\ 0 <= b < 2 ^ 64
  | VBytes b => (shape_of e t = SString \/ shape_of e t = SBinary) /\ zlen b < 2147483648
  | VList l =>
    match shape_of e t with
    | SList et =>
      zlen l < 2147483648 /\
      (fix go (l : list val) : Prop := match l with [] => True | x :: r => wwt e et x /\ go r end) l
    | _ => False
    end
  | VSet l =>
    match shape_of e t with
    | SSet et =>
      zlen l < 2147483648 /\
      (fix go (l : list val) : Prop := match l with [] => True | x :: r => wwt e et x /\ go r end) l
    | _ => False
    end
  | VMap l =>
    match shape_of e t with
    | SMap kt vt =>
      zlen l < 2147483648 /\
      (fix go (l : list (val * val)) : Prop :=
         match l with [] => True | (k, x) :: r => (wwt e kt k /\ wwt e vt x) /\ go r end) l
    | _ => False
    end
  | VRec l =>
    match shape_of e t with
    | SStruct _ decls =>
      (fix go (l : list (Z * val)) : Prop :=
         match l with
         | [] => True
         | (id, x) :: r =>
           (in_range 2 id /\ match ftyp_of decls id with Some ft => wwt e ft x | None => False end) /\ go r
         end) l
    | _ => False
    end
  | VStruct _ => False
  end.

Fixpoint wsize (v : val) : nat :=
  match v with
  | VList l | VSet l =>
    S ((fix go (l : list val) : nat := match l with [] => O | x :: r => S (wsize x + go r) end) l)
  | VMap l =>
    S ((fix go (l : list (val * val)) : nat :=
          match l with [] => O | (k, x) :: r => S (wsize k + wsize x + go r) end) l)
  | VRec l =>
    S ((fix go (l : list (Z * val)) : nat :=
          match l with [] => 1%nat | (_, x) :: r => S (wsize x + go r) end) l)
  | _ => 1%nat
  end.

Fixpoint size_seq (l : list val) : nat :=
  match l with [] => O | x :: r => S (wsize x + size_seq r) end.
Fixpoint size_pairs (l : list (val * val)) : nat :=
  match l with [] => O | (k, x) :: r => S (wsize k + wsize x + size_pairs r) end.
Fixpoint size_fields (l : list (Z * val)) : nat :=
  match l with [] => 1%nat | (_, x) :: r => S (wsize x + size_fields r) end.

Lemma wsize_list l : wsize (VList l) = S (size_seq l).
Proof. reflexivity. Qed.
Lemma wsize_set l : wsize (VSet l) = S (size_seq l).
Proof. reflexivity. Qed.
Lemma wsize_map l : wsize (VMap l) = S (size_pairs l).
Proof. reflexivity. Qed.
Lemma wsize_rec l : wsize (VRec l) = S (size_fields l).
Proof. reflexivity. Qed.

Definition wwt_entry (e : env) (decls : list field) (ix : Z * val) : Prop :=
  in_range 2 (fst ix) /\ match ftyp_of decls (fst ix) with Some ft => wwt e ft (snd ix) | None => False end.

Lemma wwt_list e t l :
  wwt e t (VList l) <->
  exists et, shape_of e t = SList et /\ zlen l < 2147483648 /\ Forall (wwt e et) l.
Proof.
  cbn [wwt]. destruct (shape_of e t) eqn:E; try (split; [tauto|intros [? [? _]]; discriminate]).
  split.
  - intros [Hl H]. eexists; split; [reflexivity|split; [exact Hl|]].
    induction l as [|x r IH]; constructor; [tauto|]. apply IH; [rewrite zlen_cons in Hl; lia|tauto].
  - intros [et [Heq [Hl H]]]. injection Heq as <-. split; [exact Hl|].
    clear Hl. induction H; [exact I|split; assumption].
Qed.
Lemma wwt_set e t l :
  wwt e t (VSet l) <->
  exists et, shape_of e t = SSet et /\ zlen l < 2147483648 /\ Forall (wwt e et) l.
Proof.
  cbn [wwt]. destruct (shape_of e t) eqn:E; try (split; [tauto|intros [? [? _]]; discriminate]).
  split.
  - intros [Hl H]. eexists; split; [reflexivity|split; [exact Hl|]].
    induction l as [|x r IH]; constructor; [tauto|]. apply IH; [rewrite zlen_cons in Hl; lia|tauto].
  - intros [et [Heq [Hl H]]]. injection Heq as <-. split; [exact Hl|].
    clear Hl. induction H; [exact I|split; assumption].
Qed.
Lemma wwt_map e t l :
  wwt e t (VMap l) <->
  exists kt vt, shape_of e t = SMap kt vt /\ zlen l < 2147483648 /\
                Forall (fun kv => wwt e kt (fst kv) /\ wwt e vt (snd kv)) l.
Proof.
  cbn [wwt]. destruct (shape_of e t) eqn:E; try (split; [tauto|intros [? [? [? _]]]; discriminate]).
  split.
  - intros [Hl H]. do 2 eexists; split; [reflexivity|split; [exact Hl|]].
    induction l as [|[a b] r IH]; constructor; [cbn; tauto|]. apply IH; [rewrite zlen_cons in Hl; lia|tauto].
  - intros [kt [vt [Heq [Hl H]]]]. injection Heq as <- <-. split; [exact Hl|].
    clear Hl. induction H as [|[a b] r Hx _ IH]; [exact I|split; assumption].
Qed.
Lemma wwt_rec e t l :
  wwt e t (VRec l) <->
  exists k decls, shape_of e t = SStruct k decls /\ Forall (wwt_entry e decls) l.
Proof.
  cbn [wwt]. destruct (shape_of e t) eqn:E; try (split; [tauto|intros [? [? [? _]]]; discriminate]).
  split.
  - intros H. do 2 eexists; split; [reflexivity|].
    induction l as [|[i x] r IH]; constructor; [unfold wwt_entry; cbn; tauto|]. apply IH; tauto.
  - intros [k' [decls [Heq H]]]. injection Heq as <- <-.
    induction H as [|[i x] r Hx _ IH]; [exact I|split; [exact Hx|assumption]].
Qed.

Lemma wwt_wtype e t v : wwt e t v -> 0 < wtype e t < 128.
Proof.
  unfold wtype. destruct v; cbn [wwt]; destruct (shape_of e t) eqn:E; cbn [wtype_of_shape];
    try tauto; try lia; try (intros [? ?]; discriminate); try discriminate;
    try (intros [[?|?] _]; discriminate).
  all: try (destruct nbytes as [|[|[|[|[|?]]]]]; lia).
Qed.

Lemma read_int_1 x r : 0 <= x < 128 -> read_int 1 (x :: r) = Ok (x, r).
Proof.
  intros H. change (x :: r) with ([x] ++ r).
  replace [x] with (be_n 1 x).
  - apply read_int_be; [lia|apply in_range_1; lia].
  - cbn. f_equal. lia.
Qed.

(** * Round trip of the wire codec *)
Definition rt_ok (e : env) (w : val) : Prop :=
  forall t fuel rest, wwt e t w -> (wsize w <= fuel)%nat ->
  wdec fuel e t (wenc e t w ++ rest) = Ok (w, rest).

Lemma wdec_seq_ok e et l :
  Forall (rt_ok e) l -> Forall (wwt e et) l ->
  forall fuel rest, (size_seq l <= fuel)%nat ->
  wdec_seq fuel e et (zlen l) (wenc_seq e et l ++ rest) = Ok (l, rest).
Proof.
  intros Hrt Hwt. induction l as [|x r IH]; intros fuel rest Hf.
  - destruct fuel; reflexivity.
  - inversion Hrt as [|? ? Hx Hr]; subst. inversion Hwt as [|? ? Wx Wr]; subst.
    cbn [size_seq] in Hf. destruct fuel as [|f]; [lia|].
    cbn [wdec_seq]. rewrite zlen_cons.
    pose proof (zlen_nonneg r) as Hz.
    destruct (1 + zlen r <=? 0) eqn:E; [apply Z.leb_le in E; lia|].
    cbn [wenc_seq]. rewrite <- app_assoc.
    rewrite (Hx et f _ Wx) by lia. cbn [bind].
    replace (1 + zlen r - 1) with (zlen r) by lia.
    rewrite (IH Hr Wr f rest) by lia. reflexivity.
Qed.

Lemma wdec_pairs_ok e kt vt l :
  Forall (fun kv => rt_ok e (fst kv) /\ rt_ok e (snd kv)) l ->
  Forall (fun kv => wwt e kt (fst kv) /\ wwt e vt (snd kv)) l ->
  forall fuel rest, (size_pairs l <= fuel)%nat ->
  wdec_pairs fuel e kt vt (zlen l) (wenc_pairs e kt vt l ++ rest) = Ok (l, rest).
Proof.
  intros Hrt Hwt. induction l as [|[a b] r IH]; intros fuel rest Hf.
  - destruct fuel; reflexivity.
  - inversion Hrt as [|? ? [Ha Hb] Hr]; subst. inversion Hwt as [|? ? [Wa Wb] Wr]; subst.
    cbn [fst snd] in *.
    cbn [size_pairs] in Hf. destruct fuel as [|f]; [lia|].
    cbn [wdec_pairs]. rewrite zlen_cons.
    pose proof (zlen_nonneg r) as Hz.
    destruct (1 + zlen r <=? 0) eqn:E; [apply Z.leb_le in E; lia|].
    cbn [wenc_pairs]. rewrite <- !app_assoc.
    rewrite (Ha kt f _ Wa) by lia. cbn [bind].
    rewrite (Hb vt f _ Wb) by lia. cbn [bind].
    replace (1 + zlen r - 1) with (zlen r) by lia.
    rewrite (IH Hr Wr f rest) by lia. reflexivity.
Qed.

Lemma wdec_fields_ok e decls l :
  Forall (fun ix => rt_ok e (snd ix)) l -> Forall (wwt_entry e decls) l ->
  forall fuel rest, (size_fields l <= fuel)%nat ->
  wdec_fields fuel e decls (wenc_fields e (ftyp_of decls) l ++ rest) = Ok (l, rest).
Proof.
  intros Hrt Hwt. induction l as [|[i x] r IH]; intros fuel rest Hf.
  - cbn [size_fields] in Hf. destruct fuel as [|f]; [lia|].
    cbn [wdec_fields wenc_fields app]. rewrite read_int_1 by lia. reflexivity.
  - inversion Hrt as [|? ? Hx Hr]; subst. inversion Hwt as [|? ? [Wi Wx] Wr]; subst.
    cbn [fst snd] in *.
    cbn [size_fields] in Hf. destruct fuel as [|f]; [lia|].
    destruct (ftyp_of decls i) as [ft|] eqn:Eft; [|contradiction].
    cbn [wdec_fields wenc_fields]. rewrite Eft.
    pose proof (wwt_wtype _ _ _ Wx) as Hw.
    cbn [app]. rewrite read_int_1 by lia. cbn [bind].
    destruct (wtype e ft =? 0) eqn:E0; [apply Z.eqb_eq in E0; lia|].
    rewrite <- !app_assoc. rewrite read_int_be by (assumption || lia). cbn [bind].
    rewrite Eft.
    rewrite (Hx ft f _ Wx) by lia. cbn [bind].
    rewrite (IH Hr Wr f rest) by lia. reflexivity.
Qed.

Lemma wtype_range e t : 0 <= wtype e t < 128.
Proof.
  unfold wtype. destruct (shape_of e t); cbn [wtype_of_shape]; try lia.
  destruct nbytes as [|[|[|[|[|?]]]]]; lia.
Qed.

Lemma wdec_wenc e : forall w, rt_ok e w.
Proof.
  induction w using val_ind'; unfold rt_ok; intros t fuel rest Hwt Hf.
  - (* bool *)
    cbn [wwt] in Hwt. destruct fuel as [|f]; [cbn in Hf; lia|].
    cbn [wdec wenc]. rewrite Hwt.
    rewrite read_n_app by reflexivity. cbn [bind]. destruct b; reflexivity.
  - (* int *)
    cbn [wwt] in Hwt. destruct fuel as [|f]; [cbn in Hf; lia|].
    cbn [wdec wenc]. cbv zeta. destruct (shape_of e t) eqn:E; try contradiction.
    + destruct Hwt as [Hn Hr]. cbn [int_width].
      rewrite read_int_be; [reflexivity| |assumption].
      destruct Hn as [-> | [-> | [-> | ->]]]; lia.
    + cbn [int_width]. rewrite read_int_be; [reflexivity|lia|assumption].
  - (* double *)
    cbn [wwt] in Hwt. destruct Hwt as [Hs Hr]. destruct fuel as [|f]; [cbn in Hf; lia|].
    cbn [wdec wenc]. rewrite Hs. rewrite read_n_app by apply be_n_length. cbn [bind].
    rewrite un_be_be_n. change (256 ^ Z.of_nat 8) with (2 ^ 64).
    rewrite Z.mod_small by lia. reflexivity.
  - (* bytes *)
    cbn [wwt] in Hwt. destruct Hwt as [Hs Hl]. destruct fuel as [|f]; [cbn in Hf; lia|].
    cbn [wdec wenc]. rewrite <- app_assoc.
    destruct Hs as [-> | ->]; rewrite read_blob_be by assumption; reflexivity.
  - (* list *)
    apply wwt_list in Hwt. destruct Hwt as [et [Hs [Hl Hall]]].
    rewrite wsize_list in Hf. destruct fuel as [|f]; [lia|].
    rewrite wenc_list_eq. cbn [wdec]. rewrite Hs. cbn [elem_ty].
    pose proof (zlen_nonneg l) as Hz.
    cbn [app]. rewrite read_int_1 by apply wtype_range. cbn [bind].
    rewrite <- app_assoc. rewrite read_size_be by lia. cbn [bind].
    rewrite (wdec_seq_ok e et l H Hall f) by lia. reflexivity.
  - (* set *)
    apply wwt_set in Hwt. destruct Hwt as [et [Hs [Hl Hall]]].
    rewrite wsize_set in Hf. destruct fuel as [|f]; [lia|].
    rewrite wenc_set_eq. cbn [wdec]. rewrite Hs. cbn [elem_ty].
    pose proof (zlen_nonneg l) as Hz.
    cbn [app]. rewrite read_int_1 by apply wtype_range. cbn [bind].
    rewrite <- app_assoc. rewrite read_size_be by lia. cbn [bind].
    rewrite (wdec_seq_ok e et l H Hall f) by lia. reflexivity.
  - (* map *)
    apply wwt_map in Hwt. destruct Hwt as [kt [vt [Hs [Hl Hall]]]].
    rewrite wsize_map in Hf. destruct fuel as [|f]; [lia|].
    rewrite wenc_map_eq. cbn [wdec]. rewrite Hs. cbn [key_ty mval_ty].
    pose proof (zlen_nonneg l) as Hz.
    cbn [app]. rewrite read_int_1 by apply wtype_range. cbn [bind].
    rewrite read_int_1 by apply wtype_range. cbn [bind].
    rewrite <- app_assoc. rewrite read_size_be by lia. cbn [bind].
    rewrite (wdec_pairs_ok e kt vt l H Hall f) by lia. reflexivity.
  - (* Go struct: not a wire value *)
    cbn [wwt] in Hwt. contradiction.
  - (* wire struct *)
    apply wwt_rec in Hwt. destruct Hwt as [k [decls [Hs Hall]]].
    rewrite wsize_rec in Hf. destruct fuel as [|f]; [lia|].
    rewrite wenc_rec_eq. cbn [wdec]. rewrite Hs. cbn [struct_fields].
    rewrite (wdec_fields_ok e decls l H Hall f) by lia. reflexivity.
Qed.

Theorem codec_roundtrip e t w fuel rest :
  wwt e t w -> (wsize w <= fuel)%nat -> wdec fuel e t (wenc e t w ++ rest) = Ok (w, rest).
Proof. intros; apply wdec_wenc; assumption. Qed.

(** * Skipping: thrift.Skip consumes exactly the encoding of any well-typed value *)
Fixpoint wdepth (v : val) : Z :=
  match v with
  | VList l | VSet l =>
    1 + (fix go (l : list val) : Z := match l with [] => 0 | x :: r => Z.max (wdepth x) (go r) end) l
  | VMap l =>
    1 + (fix go (l : list (val * val)) : Z :=
           match l with [] => 0 | (k, x) :: r => Z.max (Z.max (wdepth k) (wdepth x)) (go r) end) l
  | VRec l =>
    1 + (fix go (l : list (Z * val)) : Z := match l with [] => 0 | (_, x) :: r => Z.max (wdepth x) (go r) end) l
  | _ => 1
  end.
Fixpoint depth_seq (l : list val) : Z :=
  match l with [] => 0 | x :: r => Z.max (wdepth x) (depth_seq r) end.
Fixpoint depth_pairs (l : list (val * val)) : Z :=
  match l with [] => 0 | (k, x) :: r => Z.max (Z.max (wdepth k) (wdepth x)) (depth_pairs r) end.
Fixpoint depth_fields (l : list (Z * val)) : Z :=
  match l with [] => 0 | (_, x) :: r => Z.max (wdepth x) (depth_fields r) end.
Lemma wdepth_list l : wdepth (VList l) = 1 + depth_seq l. Proof. reflexivity. Qed.
Lemma wdepth_set l : wdepth (VSet l) = 1 + depth_seq l. Proof. reflexivity. Qed.
Lemma wdepth_map l : wdepth (VMap l) = 1 + depth_pairs l. Proof. reflexivity. Qed.
Lemma wdepth_rec l : wdepth (VRec l) = 1 + depth_fields l. Proof. reflexivity. Qed.

Definition sk_ok (e : env) (w : val) : Prop :=
  forall t fuel depth rest, wwt e t w -> (wsize w <= fuel)%nat -> wdepth w <= depth ->
  skip fuel depth (wtype e t) (wenc e t w ++ rest) = Ok rest.

Lemma skip_seq_ok e et l :
  Forall (sk_ok e) l -> Forall (wwt e et) l ->
  forall fuel depth rest, (size_seq l <= fuel)%nat -> depth_seq l <= depth ->
  skip_seq fuel depth (wtype e et) (zlen l) (wenc_seq e et l ++ rest) = Ok rest.
Proof.
  intros Hsk Hwt. induction l as [|x r IH]; intros fuel depth rest Hf Hd.
  - destruct fuel; reflexivity.
  - inversion Hsk as [|? ? Hx Hr]; subst. inversion Hwt as [|? ? Wx Wr]; subst.
    cbn [size_seq] in Hf. cbn [depth_seq] in Hd. destruct fuel as [|f]; [lia|].
    cbn [skip_seq]. rewrite zlen_cons.
    pose proof (zlen_nonneg r) as Hz.
    destruct (1 + zlen r <=? 0) eqn:E; [apply Z.leb_le in E; lia|].
    cbn [wenc_seq]. rewrite <- app_assoc.
    rewrite (Hx et f depth _ Wx) by lia. cbn [bind].
    replace (1 + zlen r - 1) with (zlen r) by lia.
    apply (IH Hr Wr f depth rest); lia.
Qed.

Lemma skip_pairs_ok e kt vt l :
  Forall (fun kv => sk_ok e (fst kv) /\ sk_ok e (snd kv)) l ->
  Forall (fun kv => wwt e kt (fst kv) /\ wwt e vt (snd kv)) l ->
  forall fuel depth rest, (size_pairs l <= fuel)%nat -> depth_pairs l <= depth ->
  skip_pairs fuel depth (wtype e kt) (wtype e vt) (zlen l) (wenc_pairs e kt vt l ++ rest) = Ok rest.
Proof.
  intros Hsk Hwt. induction l as [|[a b] r IH]; intros fuel depth rest Hf Hd.
  - destruct fuel; reflexivity.
  - inversion Hsk as [|? ? [Ha Hb] Hr]; subst. inversion Hwt as [|? ? [Wa Wb] Wr]; subst.
    cbn [fst snd] in *.
    cbn [size_pairs] in Hf. cbn [depth_pairs] in Hd. destruct fuel as [|f]; [lia|].
    cbn [skip_pairs]. rewrite zlen_cons.
    pose proof (zlen_nonneg r) as Hz.
    destruct (1 + zlen r <=? 0) eqn:E; [apply Z.leb_le in E; lia|].
    cbn [wenc_pairs]. rewrite <- !app_assoc.
    rewrite (Ha kt f depth _ Wa) by lia. cbn [bind].
    rewrite (Hb vt f depth _ Wb) by lia. cbn [bind].
    replace (1 + zlen r - 1) with (zlen r) by lia.
    apply (IH Hr Wr f depth rest); lia.
Qed.

(** fields typed by the writer's schema [ftyp] *)
Definition wwt_entry_by (e : env) (ftyp : Z -> option ty) (ix : Z * val) : Prop :=
  in_range 2 (fst ix) /\ match ftyp (fst ix) with Some ft => wwt e ft (snd ix) | None => False end.

Lemma skip_fields_ok e ftyp l :
  Forall (fun ix => sk_ok e (snd ix)) l -> Forall (wwt_entry_by e ftyp) l ->
  forall fuel depth rest, (size_fields l <= fuel)%nat -> depth_fields l <= depth ->
  skip_fields fuel depth (wenc_fields e ftyp l ++ rest) = Ok rest.
Proof.
  intros Hsk Hwt. induction l as [|[i x] r IH]; intros fuel depth rest Hf Hd.
  - cbn [size_fields] in Hf. destruct fuel as [|f]; [lia|].
    cbn [skip_fields wenc_fields app]. rewrite read_int_1 by lia. reflexivity.
  - inversion Hsk as [|? ? Hx Hr]; subst. inversion Hwt as [|? ? [Wi Wx] Wr]; subst.
    cbn [fst snd] in *.
    cbn [size_fields] in Hf. cbn [depth_fields] in Hd. destruct fuel as [|f]; [lia|].
    destruct (ftyp i) as [ft|] eqn:Eft; [|contradiction].
    cbn [skip_fields wenc_fields]. rewrite Eft.
    pose proof (wwt_wtype _ _ _ Wx) as Hw.
    cbn [app]. rewrite read_int_1 by lia. cbn [bind].
    destruct (wtype e ft =? 0) eqn:E0; [apply Z.eqb_eq in E0; lia|].
    rewrite <- !app_assoc. rewrite read_int_be by (assumption || lia). cbn [bind].
    rewrite (Hx ft f depth _ Wx) by lia. cbn [bind].
    apply (IH Hr Wr f depth rest); lia.
Qed.

Lemma wwt_rec_by e t l :
  wwt e t (VRec l) -> Forall (wwt_entry_by e (ftyp_of (struct_fields (shape_of e t)))) l.
Proof.
  intros H. apply wwt_rec in H. destruct H as [k [decls [Hs H]]]. rewrite Hs. exact H.
Qed.

Lemma skip_wenc e : forall w, sk_ok e w.
Proof.
  induction w using val_ind'; unfold sk_ok; intros t fuel depth rest Hwt Hf Hd.
  - cbn [wwt] in Hwt. destruct fuel as [|f]; [cbn in Hf; lia|].
    cbn [wdepth] in Hd. unfold wtype. rewrite Hwt. cbn [wtype_of_shape skip wenc].
    destruct (depth <=? 0) eqn:E; [apply Z.leb_le in E; lia|]. cbn.
    destruct b; reflexivity.
  - cbn [wwt] in Hwt. destruct fuel as [|f]; [cbn in Hf; lia|].
    cbn [wdepth] in Hd. unfold wtype. cbn [wenc]. cbv zeta.
    destruct (shape_of e t) eqn:E; try contradiction.
    + destruct Hwt as [Hn Hr]. cbn [int_width wtype_of_shape skip].
      destruct (depth <=? 0) eqn:E1; [apply Z.leb_le in E1; lia|].
      destruct Hn as [-> | [-> | [-> | ->]]]; cbn [Z.eqb Pos.eqb];
        rewrite read_n_app by apply be_n_length; reflexivity.
    + cbn [int_width wtype_of_shape skip].
      destruct (depth <=? 0) eqn:E1; [apply Z.leb_le in E1; lia|].
      cbn [Z.eqb Pos.eqb]. rewrite read_n_app by apply be_n_length; reflexivity.
  - cbn [wwt] in Hwt. destruct Hwt as [Hs Hr]. destruct fuel as [|f]; [cbn in Hf; lia|].
    cbn [wdepth] in Hd. unfold wtype. rewrite Hs. cbn [wtype_of_shape skip wenc].
    destruct (depth <=? 0) eqn:E1; [apply Z.leb_le in E1; lia|].
    cbn [Z.eqb Pos.eqb]. rewrite read_n_app by apply be_n_length; reflexivity.
  - cbn [wwt] in Hwt. destruct Hwt as [Hs Hl]. destruct fuel as [|f]; [cbn in Hf; lia|].
    cbn [wdepth] in Hd. unfold wtype. cbn [wenc]. rewrite <- app_assoc.
    destruct Hs as [-> | ->]; cbn [wtype_of_shape skip];
      (destruct (depth <=? 0) eqn:E1; [apply Z.leb_le in E1; lia|]);
      cbn [Z.eqb Pos.eqb]; rewrite read_blob_be by assumption; reflexivity.
  - apply wwt_list in Hwt. destruct Hwt as [et [Hs [Hl Hall]]].
    rewrite wsize_list in Hf. rewrite wdepth_list in Hd. destruct fuel as [|f]; [lia|].
    rewrite wenc_list_eq. unfold wtype at 1. rewrite Hs. cbn [elem_ty wtype_of_shape skip].
    pose proof (zlen_nonneg l) as Hz.
    assert (0 <= depth_seq l) by (clear; induction l; cbn [depth_seq]; lia).
    destruct (depth <=? 0) eqn:E1; [apply Z.leb_le in E1; lia|].
    cbn [Z.eqb Pos.eqb orb app]. rewrite read_int_1 by apply wtype_range. cbn [bind].
    rewrite <- app_assoc. rewrite read_size_be by lia. cbn [bind].
    apply (skip_seq_ok e et l H Hall f); lia.
  - apply wwt_set in Hwt. destruct Hwt as [et [Hs [Hl Hall]]].
    rewrite wsize_set in Hf. rewrite wdepth_set in Hd. destruct fuel as [|f]; [lia|].
    rewrite wenc_set_eq. unfold wtype at 1. rewrite Hs. cbn [elem_ty wtype_of_shape skip].
    pose proof (zlen_nonneg l) as Hz.
    assert (0 <= depth_seq l) by (clear; induction l; cbn [depth_seq]; lia).
    destruct (depth <=? 0) eqn:E1; [apply Z.leb_le in E1; lia|].
    cbn [Z.eqb Pos.eqb orb app]. rewrite read_int_1 by apply wtype_range. cbn [bind].
    rewrite <- app_assoc. rewrite read_size_be by lia. cbn [bind].
    apply (skip_seq_ok e et l H Hall f); lia.
  - apply wwt_map in Hwt. destruct Hwt as [kt [vt [Hs [Hl Hall]]]].
    rewrite wsize_map in Hf. rewrite wdepth_map in Hd. destruct fuel as [|f]; [lia|].
    rewrite wenc_map_eq. unfold wtype at 1. rewrite Hs. cbn [key_ty mval_ty wtype_of_shape skip].
    pose proof (zlen_nonneg l) as Hz.
    assert (0 <= depth_pairs l) by (clear; induction l as [|[a b] r]; cbn [depth_pairs]; lia).
    destruct (depth <=? 0) eqn:E1; [apply Z.leb_le in E1; lia|].
    cbn [Z.eqb Pos.eqb orb app]. rewrite read_int_1 by apply wtype_range. cbn [bind].
    rewrite read_int_1 by apply wtype_range. cbn [bind].
    rewrite <- app_assoc. rewrite read_size_be by lia. cbn [bind].
    apply (skip_pairs_ok e kt vt l H Hall f); lia.
  - cbn [wwt] in Hwt. contradiction.
  - pose proof (wwt_rec_by _ _ _ Hwt) as Hall.
    apply wwt_rec in Hwt. destruct Hwt as [k [decls [Hs _]]].
    rewrite wsize_rec in Hf. rewrite wdepth_rec in Hd. destruct fuel as [|f]; [lia|].
    rewrite wenc_rec_eq. unfold wtype. rewrite Hs. cbn [wtype_of_shape skip].
    assert (0 <= depth_fields l) by (clear; induction l as [|[a b] r]; cbn [depth_fields]; lia).
    destruct (depth <=? 0) eqn:E1; [apply Z.leb_le in E1; lia|].
    cbn [Z.eqb Pos.eqb orb]. rewrite Hs in Hall.
    apply (skip_fields_ok e _ l H Hall f); lia.
Qed.
