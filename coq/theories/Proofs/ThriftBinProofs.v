(** Lemmas about Model/ThriftBin.v: integer codec, wire codec round trip, skipping,
    field rules of the generated Write, required / union checks of the generated Read. *)
From Coq Require Import ZArith List Bool Lia.
From FV Require Import Base.Res Base.Bytes Model.ThriftBin Proofs.BytesProofs.
Import ListNotations.
Open Scope Z_scope.

Ltac Zify.zify_post_hook ::= Z.div_mod_to_equations.

(** * A usable induction principle for the nested type [val] *)
Section ValInd.
  Variable P : val -> Prop.
  Hypothesis HBool : forall b, P (VBool b).
  Hypothesis HInt : forall z, P (VInt z).
  Hypothesis HDouble : forall b, P (VDouble b).
  Hypothesis HBytes : forall b, P (VBytes b).
  Hypothesis HList : forall l, Forall P l -> P (VList l).
  Hypothesis HSet : forall l, Forall P l -> P (VSet l).
  Hypothesis HMap : forall l, Forall (fun kv => P (fst kv) /\ P (snd kv)) l -> P (VMap l).
  Hypothesis HStruct : forall l, Forall (fun o => match o with Some x => P x | None => True end) l -> P (VStruct l).
  Hypothesis HRec : forall l, Forall (fun ix => P (snd ix)) l -> P (VRec l).

  Fixpoint val_ind' (v : val) : P v :=
    match v with
    | VBool b => HBool b
    | VInt z => HInt z
    | VDouble b => HDouble b
    | VBytes b => HBytes b
    | VList l =>
      HList l ((fix go (l : list val) : Forall P l :=
                  match l with [] => Forall_nil _ | x :: r => Forall_cons x (val_ind' x) (go r) end) l)
    | VSet l =>
      HSet l ((fix go (l : list val) : Forall P l :=
                 match l with [] => Forall_nil _ | x :: r => Forall_cons x (val_ind' x) (go r) end) l)
    | VMap l =>
      HMap l ((fix go (l : list (val * val)) : Forall (fun kv => P (fst kv) /\ P (snd kv)) l :=
                 match l with
                 | [] => Forall_nil _
                 | (k, x) :: r => Forall_cons (k, x) (conj (val_ind' k) (val_ind' x)) (go r)
                 end) l)
    | VStruct l =>
      HStruct l ((fix go (l : list (option val))
                    : Forall (fun o => match o with Some x => P x | None => True end) l :=
                    match l with
                    | [] => Forall_nil _
                    | Some x :: r => Forall_cons (Some x) (val_ind' x) (go r)
                    | None :: r => Forall_cons None I (go r)
                    end) l)
    | VRec l =>
      HRec l ((fix go (l : list (Z * val)) : Forall (fun ix => P (snd ix)) l :=
                 match l with
                 | [] => Forall_nil _
                 | (i, x) :: r => Forall_cons (i, x) (val_ind' x) (go r)
                 end) l)
    end.
End ValInd.

(** * Integers *)
Lemma be_n_length n z : length (be_n n z) = n.
Proof.
  revert z; induction n as [|n IH]; intro z; cbn [be_n]; [reflexivity|].
  rewrite app_length, IH; cbn; lia.
Qed.

Lemma un_be_app a x : un_be (a ++ [x]) = un_be a * 256 + x.
Proof. unfold un_be. rewrite fold_left_app. reflexivity. Qed.

Lemma pow256_S n : 256 ^ Z.of_nat (S n) = 256 * 256 ^ Z.of_nat n.
Proof. rewrite Nat2Z.inj_succ, Z.pow_succ_r by lia. reflexivity. Qed.

Lemma pow256_pos n : 0 < 256 ^ Z.of_nat n.
Proof. apply Z.pow_pos_nonneg; lia. Qed.

Lemma un_be_be_n n z : un_be (be_n n z) = z mod 256 ^ Z.of_nat n.
Proof.
  revert z; induction n as [|n IH]; intro z.
  - cbn. rewrite Z.mod_1_r. reflexivity.
  - cbn [be_n]. rewrite un_be_app, IH, pow256_S.
    pose proof (pow256_pos n) as Hp.
    rewrite Z.rem_mul_r by lia. ring.
Qed.

Definition in_range (n : nat) (z : Z) : Prop :=
  - (256 ^ Z.of_nat n / 2) <= z < 256 ^ Z.of_nat n / 2.

Lemma signed_mod n z : (0 < n)%nat -> in_range n z -> signed n (z mod 256 ^ Z.of_nat n) = z.
Proof.
  intros Hn [Hlo Hhi]. unfold signed.
  pose proof (pow256_pos n) as Hp.
  assert (Hev : 256 ^ Z.of_nat n = 2 * (256 ^ Z.of_nat n / 2)).
  { destruct n; [lia|]. rewrite pow256_S. lia. }
  set (m := 256 ^ Z.of_nat n) in *.
  destruct (z mod m <? m / 2) eqn:E.
  - apply Z.ltb_lt in E. assert (0 <= z \/ z < 0) as [H|H] by lia.
    + rewrite Z.mod_small in * by lia. reflexivity.
    + assert (z mod m = z + m).
      { symmetry. apply Z.mod_unique with (q := -1); lia. }
      lia.
  - apply Z.ltb_ge in E. assert (0 <= z \/ z < 0) as [H|H] by lia.
    + rewrite Z.mod_small in * by lia. lia.
    + assert (z mod m = z + m).
      { symmetry. apply Z.mod_unique with (q := -1); lia. }
      lia.
Qed.

Lemma read_n_app n x r : length x = n -> read_n n (x ++ r) = Ok (x, r).
Proof.
  intros <-. unfold read_n.
  rewrite app_length.
  replace (Nat.leb (length x) (length x + length r)) with true
    by (symmetry; apply Nat.leb_le; lia).
  rewrite firstn_app, Nat.sub_diag, firstn_all, skipn_app, Nat.sub_diag, skipn_all.
  cbn. rewrite app_nil_r. reflexivity.
Qed.

Lemma read_int_be n z r : (0 < n)%nat -> in_range n z -> read_int n (be_n n z ++ r) = Ok (z, r).
Proof.
  intros Hn Hr. unfold read_int. rewrite read_n_app by apply be_n_length.
  cbn [bind]. rewrite un_be_be_n, signed_mod by assumption. reflexivity.
Qed.

Lemma in_range_4 z : in_range 4 z <-> -2147483648 <= z < 2147483648.
Proof. unfold in_range. change (256 ^ Z.of_nat 4 / 2) with 2147483648. lia. Qed.
Lemma in_range_2 z : in_range 2 z <-> -32768 <= z < 32768.
Proof. unfold in_range. change (256 ^ Z.of_nat 2 / 2) with 32768. lia. Qed.
Lemma in_range_1 z : in_range 1 z <-> -128 <= z < 128.
Proof. unfold in_range. change (256 ^ Z.of_nat 1 / 2) with 128. lia. Qed.

Lemma read_size_be z r : 0 <= z < 2147483648 -> read_size (be_n 4 z ++ r) = Ok (z, r).
Proof.
  intros H. unfold read_size. rewrite read_int_be; [|lia|apply in_range_4; lia].
  cbn [bind]. destruct (z <? 0) eqn:E; [apply Z.ltb_lt in E; lia|reflexivity].
Qed.

Lemma read_blob_be b r : zlen b < 2147483648 ->
  read_blob (be_n 4 (zlen b) ++ b ++ r) = Ok (b, r).
Proof.
  intros H. unfold read_blob. pose proof (zlen_nonneg b).
  rewrite read_size_be by lia. cbn [bind].
  rewrite zlen_app.
  pose proof (zlen_nonneg r).
  destruct (zlen b <=? zlen b + zlen r) eqn:E; [|apply Z.leb_gt in E; lia].
  unfold zlen. rewrite Nat2Z.id.
  rewrite firstn_app, Nat.sub_diag, firstn_all, skipn_app, Nat.sub_diag, skipn_all.
  cbn. rewrite app_nil_r. reflexivity.
Qed.

(** * The nested loops of [wenc] are the stand-alone ones *)
Lemma wenc_list_eq e t l :
  wenc e t (VList l) =
  wtype e (elem_ty (shape_of e t)) :: be_n 4 (zlen l) ++ wenc_seq e (elem_ty (shape_of e t)) l.
Proof.
  cbn [wenc]. cbv zeta. f_equal. f_equal.
  induction l as [|x r IH]; [reflexivity|]. cbn [wenc_seq]. rewrite <- IH. reflexivity.
Qed.
Lemma wenc_set_eq e t l :
  wenc e t (VSet l) =
  wtype e (elem_ty (shape_of e t)) :: be_n 4 (zlen l) ++ wenc_seq e (elem_ty (shape_of e t)) l.
Proof.
  cbn [wenc]. cbv zeta. f_equal. f_equal.
  induction l as [|x r IH]; [reflexivity|]. cbn [wenc_seq]. rewrite <- IH. reflexivity.
Qed.
Lemma wenc_map_eq e t l :
  wenc e t (VMap l) =
  wtype e (key_ty (shape_of e t)) :: wtype e (mval_ty (shape_of e t)) :: be_n 4 (zlen l) ++
  wenc_pairs e (key_ty (shape_of e t)) (mval_ty (shape_of e t)) l.
Proof.
  cbn [wenc]. cbv zeta. f_equal. f_equal. f_equal.
  induction l as [|[k x] r IH]; [reflexivity|]. cbn [wenc_pairs]. rewrite <- IH. reflexivity.
Qed.
Lemma wenc_rec_eq e t l :
  wenc e t (VRec l) = wenc_fields e (ftyp_of (struct_fields (shape_of e t))) l.
Proof.
  cbn [wenc]. cbv zeta.
  induction l as [|[i x] r IH]; [reflexivity|]. cbn [wenc_fields]. rewrite <- IH. reflexivity.
Qed.

(** * Well-typed wire values and the fuel they need *)
Definition int_ok (n : nat) : Prop := n = 1%nat \/ n = 2%nat \/ n = 4%nat \/ n = 8%nat.

Fixpoint wwt (e : env) (t : ty) (v : val) {struct v} : Prop :=
  match v with
  | VBool _ => shape_of e t = SBool
  | VInt z =>
    match shape_of e t with
    | SInt n => int_ok n /\ in_range n z
    | SEnum => in_range 4 z
    | _ => False
    end
  | VDouble b => shape_of e t = SDouble /\ 0 <= b < 2 ^ 64
  | VBytes b => (shape_of e t = SString \/ shape_of e t = SBinary) /\ zlen b < 2147483648
  | VList l =>
    match shape_of e t with
    | SList et =>
      zlen l < 2147483648 /\
      (fix go (l : list val) : Prop := match l with [] => True | x :: r => wwt e et x /\ go r end) l
    | _ => False
    end
  | VSet l =>
    match shape_of e t with
    | SSet et =>
      zlen l < 2147483648 /\
      (fix go (l : list val) : Prop := match l with [] => True | x :: r => wwt e et x /\ go r end) l
    | _ => False
    end
  | VMap l =>
    match shape_of e t with
    | SMap kt vt =>
      zlen l < 2147483648 /\
      (fix go (l : list (val * val)) : Prop :=
         match l with [] => True | (k, x) :: r => (wwt e kt k /\ wwt e vt x) /\ go r end) l
    | _ => False
    end
  | VRec l =>
    match shape_of e t with
    | SStruct _ decls =>
      (fix go (l : list (Z * val)) : Prop :=
         match l with
         | [] => True
         | (id, x) :: r =>
           (in_range 2 id /\ match ftyp_of decls id with Some ft => wwt e ft x | None => False end) /\ go r
         end) l
    | _ => False
    end
  | VStruct _ => False
  end.

Fixpoint wsize (v : val) : nat :=
  match v with
  | VList l | VSet l =>
    S ((fix go (l : list val) : nat := match l with [] => O | x :: r => S (wsize x + go r) end) l)
  | VMap l =>
    S ((fix go (l : list (val * val)) : nat :=
          match l with [] => O | (k, x) :: r => S (wsize k + wsize x + go r) end) l)
  | VRec l =>
    S ((fix go (l : list (Z * val)) : nat :=
          match l with [] => 1%nat | (_, x) :: r => S (wsize x + go r) end) l)
  | _ => 1%nat
  end.

Fixpoint size_seq (l : list val) : nat :=
  match l with [] => O | x :: r => S (wsize x + size_seq r) end.
Fixpoint size_pairs (l : list (val * val)) : nat :=
  match l with [] => O | (k, x) :: r => S (wsize k + wsize x + size_pairs r) end.
Fixpoint size_fields (l : list (Z * val)) : nat :=
  match l with [] => 1%nat | (_, x) :: r => S (wsize x + size_fields r) end.

Lemma wsize_list l : wsize (VList l) = S (size_seq l).
Proof. reflexivity. Qed.
Lemma wsize_set l : wsize (VSet l) = S (size_seq l).
Proof. reflexivity. Qed.
Lemma wsize_map l : wsize (VMap l) = S (size_pairs l).
Proof. reflexivity. Qed.
Lemma wsize_rec l : wsize (VRec l) = S (size_fields l).
Proof. reflexivity. Qed.

Definition wwt_entry (e : env) (decls : list field) (ix : Z * val) : Prop :=
  in_range 2 (fst ix) /\ match ftyp_of decls (fst ix) with Some ft => wwt e ft (snd ix) | None => False end.

Lemma wwt_list e t l :
  wwt e t (VList l) <->
  exists et, shape_of e t = SList et /\ zlen l < 2147483648 /\ Forall (wwt e et) l.
Proof.
  cbn [wwt]. destruct (shape_of e t) eqn:E; try (split; [tauto|intros [? [? _]]; discriminate]).
  split.
  - intros [Hl H]. eexists; split; [reflexivity|split; [exact Hl|]].
    induction l as [|x r IH]; constructor; [tauto|]. apply IH; [rewrite zlen_cons in Hl; lia|tauto].
  - intros [et [Heq [Hl H]]]. injection Heq as <-. split; [exact Hl|].
    clear Hl. induction H; [exact I|split; assumption].
Qed.
Lemma wwt_set e t l :
  wwt e t (VSet l) <->
  exists et, shape_of e t = SSet et /\ zlen l < 2147483648 /\ Forall (wwt e et) l.
Proof.
  cbn [wwt]. destruct (shape_of e t) eqn:E; try (split; [tauto|intros [? [? _]]; discriminate]).
  split.
  - intros [Hl H]. eexists; split; [reflexivity|split; [exact Hl|]].
    induction l as [|x r IH]; constructor; [tauto|]. apply IH; [rewrite zlen_cons in Hl; lia|tauto].
  - intros [et [Heq [Hl H]]]. injection Heq as <-. split; [exact Hl|].
    clear Hl. induction H; [exact I|split; assumption].
Qed.
Lemma wwt_map e t l :
  wwt e t (VMap l) <->
  exists kt vt, shape_of e t = SMap kt vt /\ zlen l < 2147483648 /\
                Forall (fun kv => wwt e kt (fst kv) /\ wwt e vt (snd kv)) l.
Proof.
  cbn [wwt]. destruct (shape_of e t) eqn:E; try (split; [tauto|intros [? [? [? _]]]; discriminate]).
  split.
  - intros [Hl H]. do 2 eexists; split; [reflexivity|split; [exact Hl|]].
    induction l as [|[a b] r IH]; constructor; [cbn; tauto|]. apply IH; [rewrite zlen_cons in Hl; lia|tauto].
  - intros [kt [vt [Heq [Hl H]]]]. injection Heq as <- <-. split; [exact Hl|].
    clear Hl. induction H as [|[a b] r Hx _ IH]; [exact I|split; assumption].
Qed.
Lemma wwt_rec e t l :
  wwt e t (VRec l) <->
  exists k decls, shape_of e t = SStruct k decls /\ Forall (wwt_entry e decls) l.
Proof.
  cbn [wwt]. destruct (shape_of e t) eqn:E; try (split; [tauto|intros [? [? [? _]]]; discriminate]).
  split.
  - intros H. do 2 eexists; split; [reflexivity|].
    induction l as [|[i x] r IH]; constructor; [unfold wwt_entry; cbn; tauto|]. apply IH; tauto.
  - intros [k' [decls [Heq H]]]. injection Heq as <- <-.
    induction H as [|[i x] r Hx _ IH]; [exact I|split; [exact Hx|assumption]].
Qed.

Lemma wwt_wtype e t v : wwt e t v -> 0 < wtype e t < 128.
Proof.
  unfold wtype. destruct v; cbn [wwt]; destruct (shape_of e t) eqn:E; cbn [wtype_of_shape];
    try tauto; try lia; try (intros [? ?]; discriminate); try discriminate;
    try (intros [[?|?] _]; discriminate).
  all: try (destruct nbytes as [|[|[|[|[|?]]]]]; lia).
Qed.

Lemma read_int_1 x r : 0 <= x < 128 -> read_int 1 (x :: r) = Ok (x, r).
Proof.
  intros H. change (x :: r) with ([x] ++ r).
  replace [x] with (be_n 1 x).
  - apply read_int_be; [lia|apply in_range_1; lia].
  - cbn. f_equal. lia.
Qed.

(** * Round trip of the wire codec *)
Definition rt_ok (e : env) (w : val) : Prop :=
  forall t fuel rest, wwt e t w -> (wsize w <= fuel)%nat ->
  wdec fuel e t (wenc e t w ++ rest) = Ok (w, rest).

Lemma wdec_seq_ok e et l :
  Forall (rt_ok e) l -> Forall (wwt e et) l ->
  forall fuel rest, (size_seq l <= fuel)%nat ->
  wdec_seq fuel e et (zlen l) (wenc_seq e et l ++ rest) = Ok (l, rest).
Proof.
  intros Hrt Hwt. induction l as [|x r IH]; intros fuel rest Hf.
  - destruct fuel; reflexivity.
  - inversion Hrt as [|? ? Hx Hr]; subst. inversion Hwt as [|? ? Wx Wr]; subst.
    cbn [size_seq] in Hf. destruct fuel as [|f]; [lia|].
    cbn [wdec_seq]. rewrite zlen_cons.
    pose proof (zlen_nonneg r) as Hz.
    destruct (1 + zlen r <=? 0) eqn:E; [apply Z.leb_le in E; lia|].
    cbn [wenc_seq]. rewrite <- app_assoc.
    rewrite (Hx et f _ Wx) by lia. cbn [bind].
    replace (1 + zlen r - 1) with (zlen r) by lia.
    rewrite (IH Hr Wr f rest) by lia. reflexivity.
Qed.

Lemma wdec_pairs_ok e kt vt l :
  Forall (fun kv => rt_ok e (fst kv) /\ rt_ok e (snd kv)) l ->
  Forall (fun kv => wwt e kt (fst kv) /\ wwt e vt (snd kv)) l ->
  forall fuel rest, (size_pairs l <= fuel)%nat ->
  wdec_pairs fuel e kt vt (zlen l) (wenc_pairs e kt vt l ++ rest) = Ok (l, rest).
Proof.
  intros Hrt Hwt. induction l as [|[a b] r IH]; intros fuel rest Hf.
  - destruct fuel; reflexivity.
  - inversion Hrt as [|? ? [Ha Hb] Hr]; subst. inversion Hwt as [|? ? [Wa Wb] Wr]; subst.
    cbn [fst snd] in *.
    cbn [size_pairs] in Hf. destruct fuel as [|f]; [lia|].
    cbn [wdec_pairs]. rewrite zlen_cons.
    pose proof (zlen_nonneg r) as Hz.
    destruct (1 + zlen r <=? 0) eqn:E; [apply Z.leb_le in E; lia|].
    cbn [wenc_pairs]. rewrite <- !app_assoc.
    rewrite (Ha kt f _ Wa) by lia. cbn [bind].
    rewrite (Hb vt f _ Wb) by lia. cbn [bind].
    replace (1 + zlen r - 1) with (zlen r) by lia.
    rewrite (IH Hr Wr f rest) by lia. reflexivity.
Qed.

Lemma wdec_fields_ok e decls l :
  Forall (fun ix => rt_ok e (snd ix)) l -> Forall (wwt_entry e decls) l ->
  forall fuel rest, (size_fields l <= fuel)%nat ->
  wdec_fields fuel e decls (wenc_fields e (ftyp_of decls) l ++ rest) = Ok (l, rest).
Proof.
  intros Hrt Hwt. induction l as [|[i x] r IH]; intros fuel rest Hf.
  - cbn [size_fields] in Hf. destruct fuel as [|f]; [lia|].
    cbn [wdec_fields wenc_fields app]. rewrite read_int_1 by lia. reflexivity.
  - inversion Hrt as [|? ? Hx Hr]; subst. inversion Hwt as [|? ? [Wi Wx] Wr]; subst.
    cbn [fst snd] in *.
    cbn [size_fields] in Hf. destruct fuel as [|f]; [lia|].
    destruct (ftyp_of decls i) as [ft|] eqn:Eft; [|contradiction].
    cbn [wdec_fields wenc_fields]. rewrite Eft.
    pose proof (wwt_wtype _ _ _ Wx) as Hw.
    cbn [app]. rewrite read_int_1 by lia. cbn [bind].
    destruct (wtype e ft =? 0) eqn:E0; [apply Z.eqb_eq in E0; lia|].
    rewrite <- !app_assoc. rewrite read_int_be by (assumption || lia). cbn [bind].
    rewrite Eft.
    rewrite (Hx ft f _ Wx) by lia. cbn [bind].
    rewrite (IH Hr Wr f rest) by lia. reflexivity.
Qed.

Lemma wtype_range e t : 0 <= wtype e t < 128.
Proof.
  unfold wtype. destruct (shape_of e t); cbn [wtype_of_shape]; try lia.
  destruct nbytes as [|[|[|[|[|?]]]]]; lia.
Qed.

Lemma wdec_wenc e : forall w, rt_ok e w.
Proof.
  induction w using val_ind'; unfold rt_ok; intros t fuel rest Hwt Hf.
  - (* bool *)
    cbn [wwt] in Hwt. destruct fuel as [|f]; [cbn in Hf; lia|].
    cbn [wdec wenc]. rewrite Hwt.
    rewrite read_n_app by reflexivity. cbn [bind]. destruct b; reflexivity.
  - (* int *)
    cbn [wwt] in Hwt. destruct fuel as [|f]; [cbn in Hf; lia|].
    cbn [wdec wenc]. cbv zeta. destruct (shape_of e t) eqn:E; try contradiction.
    + destruct Hwt as [Hn Hr]. cbn [int_width].
      rewrite read_int_be; [reflexivity| |assumption].
      destruct Hn as [-> | [-> | [-> | ->]]]; lia.
    + cbn [int_width]. rewrite read_int_be; [reflexivity|lia|assumption].
  - (* double *)
    cbn [wwt] in Hwt. destruct Hwt as [Hs Hr]. destruct fuel as [|f]; [cbn in Hf; lia|].
    cbn [wdec wenc]. rewrite Hs. rewrite read_n_app by apply be_n_length. cbn [bind].
    rewrite un_be_be_n. change (256 ^ Z.of_nat 8) with (2 ^ 64).
    rewrite Z.mod_small by lia. reflexivity.
  - (* bytes *)
    cbn [wwt] in Hwt. destruct Hwt as [Hs Hl]. destruct fuel as [|f]; [cbn in Hf; lia|].
    cbn [wdec wenc]. rewrite <- app_assoc.
    destruct Hs as [-> | ->]; rewrite read_blob_be by assumption; reflexivity.
  - (* list *)
    apply wwt_list in Hwt. destruct Hwt as [et [Hs [Hl Hall]]].
    rewrite wsize_list in Hf. destruct fuel as [|f]; [lia|].
    rewrite wenc_list_eq. cbn [wdec]. rewrite Hs. cbn [elem_ty].
    pose proof (zlen_nonneg l) as Hz.
    cbn [app]. rewrite read_int_1 by apply wtype_range. cbn [bind].
    rewrite <- app_assoc. rewrite read_size_be by lia. cbn [bind].
    rewrite (wdec_seq_ok e et l H Hall f) by lia. reflexivity.
  - (* set *)
    apply wwt_set in Hwt. destruct Hwt as [et [Hs [Hl Hall]]].
    rewrite wsize_set in Hf. destruct fuel as [|f]; [lia|].
    rewrite wenc_set_eq. cbn [wdec]. rewrite Hs. cbn [elem_ty].
    pose proof (zlen_nonneg l) as Hz.
    cbn [app]. rewrite read_int_1 by apply wtype_range. cbn [bind].
    rewrite <- app_assoc. rewrite read_size_be by lia. cbn [bind].
    rewrite (wdec_seq_ok e et l H Hall f) by lia. reflexivity.
  - (* map *)
    apply wwt_map in Hwt. destruct Hwt as [kt [vt [Hs [Hl Hall]]]].
    rewrite wsize_map in Hf. destruct fuel as [|f]; [lia|].
    rewrite wenc_map_eq. cbn [wdec]. rewrite Hs. cbn [key_ty mval_ty].
    pose proof (zlen_nonneg l) as Hz.
    cbn [app]. rewrite read_int_1 by apply wtype_range. cbn [bind].
    rewrite read_int_1 by apply wtype_range. cbn [bind].
    rewrite <- app_assoc. rewrite read_size_be by lia. cbn [bind].
    rewrite (wdec_pairs_ok e kt vt l H Hall f) by lia. reflexivity.
  - (* Go struct: not a wire value *)
    cbn [wwt] in Hwt. contradiction.
  - (* wire struct *)
    apply wwt_rec in Hwt. destruct Hwt as [k [decls [Hs Hall]]].
    rewrite wsize_rec in Hf. destruct fuel as [|f]; [lia|].
    rewrite wenc_rec_eq. cbn [wdec]. rewrite Hs. cbn [struct_fields].
    rewrite (wdec_fields_ok e decls l H Hall f) by lia. reflexivity.
Qed.

Theorem codec_roundtrip e t w fuel rest :
  wwt e t w -> (wsize w <= fuel)%nat -> wdec fuel e t (wenc e t w ++ rest) = Ok (w, rest).
Proof. intros; apply wdec_wenc; assumption. Qed.

(** * Skipping: thrift.Skip consumes exactly the encoding of any well-typed value *)
Fixpoint wdepth (v : val) : Z :=
  match v with
  | VList l | VSet l =>
    1 + (fix go (l : list val) : Z := match l with [] => 0 | x :: r => Z.max (wdepth x) (go r) end) l
  | VMap l =>
    1 + (fix go (l : list (val * val)) : Z :=
           match l with [] => 0 | (k, x) :: r => Z.max (Z.max (wdepth k) (wdepth x)) (go r) end) l
  | VRec l =>
    1 + (fix go (l : list (Z * val)) : Z := match l with [] => 0 | (_, x) :: r => Z.max (wdepth x) (go r) end) l
  | _ => 1
  end.
Fixpoint depth_seq (l : list val) : Z :=
  match l with [] => 0 | x :: r => Z.max (wdepth x) (depth_seq r) end.
Fixpoint depth_pairs (l : list (val * val)) : Z :=
  match l with [] => 0 | (k, x) :: r => Z.max (Z.max (wdepth k) (wdepth x)) (depth_pairs r) end.
Fixpoint depth_fields (l : list (Z * val)) : Z :=
  match l with [] => 0 | (_, x) :: r => Z.max (wdepth x) (depth_fields r) end.
Lemma wdepth_list l : wdepth (VList l) = 1 + depth_seq l. Proof. reflexivity. Qed.
Lemma wdepth_set l : wdepth (VSet l) = 1 + depth_seq l. Proof. reflexivity. Qed.
Lemma wdepth_map l : wdepth (VMap l) = 1 + depth_pairs l. Proof. reflexivity. Qed.
Lemma wdepth_rec l : wdepth (VRec l) = 1 + depth_fields l. Proof. reflexivity. Qed.

Definition sk_ok (e : env) (w : val) : Prop :=
  forall t fuel depth rest, wwt e t w -> (wsize w <= fuel)%nat -> wdepth w <= depth ->
  skip fuel depth (wtype e t) (wenc e t w ++ rest) = Ok rest.

Lemma skip_seq_ok e et l :
  Forall (sk_ok e) l -> Forall (wwt e et) l ->
  forall fuel depth rest, (size_seq l <= fuel)%nat -> depth_seq l <= depth ->
  skip_seq fuel depth (wtype e et) (zlen l) (wenc_seq e et l ++ rest) = Ok rest.
Proof.
  intros Hsk Hwt. induction l as [|x r IH]; intros fuel depth rest Hf Hd.
  - destruct fuel; reflexivity.
  - inversion Hsk as [|? ? Hx Hr]; subst. inversion Hwt as [|? ? Wx Wr]; subst.
    cbn [size_seq] in Hf. cbn [depth_seq] in Hd. destruct fuel as [|f]; [lia|].
    cbn [skip_seq]. rewrite zlen_cons.
    pose proof (zlen_nonneg r) as Hz.
    destruct (1 + zlen r <=? 0) eqn:E; [apply Z.leb_le in E; lia|].
    cbn [wenc_seq]. rewrite <- app_assoc.
    rewrite (Hx et f depth _ Wx) by lia. cbn [bind].
    replace (1 + zlen r - 1) with (zlen r) by lia.
    apply (IH Hr Wr f depth rest); lia.
Qed.

Lemma skip_pairs_ok e kt vt l :
  Forall (fun kv => sk_ok e (fst kv) /\ sk_ok e (snd kv)) l ->
  Forall (fun kv => wwt e kt (fst kv) /\ wwt e vt (snd kv)) l ->
  forall fuel depth rest, (size_pairs l <= fuel)%nat -> depth_pairs l <= depth ->
  skip_pairs fuel depth (wtype e kt) (wtype e vt) (zlen l) (wenc_pairs e kt vt l ++ rest) = Ok rest.
Proof.
  intros Hsk Hwt. induction l as [|[a b] r IH]; intros fuel depth rest Hf Hd.
  - destruct fuel; reflexivity.
  - inversion Hsk as [|? ? [Ha Hb] Hr]; subst. inversion Hwt as [|? ? [Wa Wb] Wr]; subst.
    cbn [fst snd] in *.
    cbn [size_pairs] in Hf. cbn [depth_pairs] in Hd. destruct fuel as [|f]; [lia|].
    cbn [skip_pairs]. rewrite zlen_cons.
    pose proof (zlen_nonneg r) as Hz.
    destruct (1 + zlen r <=? 0) eqn:E; [apply Z.leb_le in E; lia|].
    cbn [wenc_pairs]. rewrite <- !app_assoc.
    rewrite (Ha kt f depth _ Wa) by lia. cbn [bind].
    rewrite (Hb vt f depth _ Wb) by lia. cbn [bind].
    replace (1 + zlen r - 1) with (zlen r) by lia.
    apply (IH Hr Wr f depth rest); lia.
Qed.

(** fields typed by the writer's schema [ftyp] *)
Definition wwt_entry_by (e : env) (ftyp : Z -> option ty) (ix : Z * val) : Prop :=
  in_range 2 (fst ix) /\ match ftyp (fst ix) with Some ft => wwt e ft (snd ix) | None => False end.

Lemma skip_fields_ok e ftyp l :
  Forall (fun ix => sk_ok e (snd ix)) l -> Forall (wwt_entry_by e ftyp) l ->
  forall fuel depth rest, (size_fields l <= fuel)%nat -> depth_fields l <= depth ->
  skip_fields fuel depth (wenc_fields e ftyp l ++ rest) = Ok rest.
Proof.
  intros Hsk Hwt. induction l as [|[i x] r IH]; intros fuel depth rest Hf Hd.
  - cbn [size_fields] in Hf. destruct fuel as [|f]; [lia|].
    cbn [skip_fields wenc_fields app]. rewrite read_int_1 by lia. reflexivity.
  - inversion Hsk as [|? ? Hx Hr]; subst. inversion Hwt as [|? ? [Wi Wx] Wr]; subst.
    cbn [fst snd] in *.
    cbn [size_fields] in Hf. cbn [depth_fields] in Hd. destruct fuel as [|f]; [lia|].
    destruct (ftyp i) as [ft|] eqn:Eft; [|contradiction].
    cbn [skip_fields wenc_fields]. rewrite Eft.
    pose proof (wwt_wtype _ _ _ Wx) as Hw.
    cbn [app]. rewrite read_int_1 by lia. cbn [bind].
    destruct (wtype e ft =? 0) eqn:E0; [apply Z.eqb_eq in E0; lia|].
    rewrite <- !app_assoc. rewrite read_int_be by (assumption || lia). cbn [bind].
    rewrite (Hx ft f depth _ Wx) by lia. cbn [bind].
    apply (IH Hr Wr f depth rest); lia.
Qed.

Lemma wwt_rec_by e t l :
  wwt e t (VRec l) -> Forall (wwt_entry_by e (ftyp_of (struct_fields (shape_of e t)))) l.
Proof.
  intros H. apply wwt_rec in H. destruct H as [k [decls [Hs H]]]. rewrite Hs. exact H.
Qed.

Lemma skip_wenc e : forall w, sk_ok e w.
Proof.
  induction w using val_ind'; unfold sk_ok; intros t fuel depth rest Hwt Hf Hd.
  - cbn [wwt] in Hwt. destruct fuel as [|f]; [cbn in Hf; lia|].
    cbn [wdepth] in Hd. unfold wtype. rewrite Hwt. cbn [wtype_of_shape skip wenc].
    destruct (depth <=? 0) eqn:E; [apply Z.leb_le in E; lia|]. cbn.
    destruct b; reflexivity.
  - cbn [wwt] in Hwt. destruct fuel as [|f]; [cbn in Hf; lia|].
    cbn [wdepth] in Hd. unfold wtype. cbn [wenc]. cbv zeta.
    destruct (shape_of e t) eqn:E; try contradiction.
    + destruct Hwt as [Hn Hr]. cbn [int_width wtype_of_shape skip].
      destruct (depth <=? 0) eqn:E1; [apply Z.leb_le in E1; lia|].
      destruct Hn as [-> | [-> | [-> | ->]]]; cbn [Z.eqb Pos.eqb];
        rewrite read_n_app by apply be_n_length; reflexivity.
    + cbn [int_width wtype_of_shape skip].
      destruct (depth <=? 0) eqn:E1; [apply Z.leb_le in E1; lia|].
      cbn [Z.eqb Pos.eqb]. rewrite read_n_app by apply be_n_length; reflexivity.
  - cbn [wwt] in Hwt. destruct Hwt as [Hs Hr]. destruct fuel as [|f]; [cbn in Hf; lia|].
    cbn [wdepth] in Hd. unfold wtype. rewrite Hs. cbn [wtype_of_shape skip wenc].
    destruct (depth <=? 0) eqn:E1; [apply Z.leb_le in E1; lia|].
    cbn [Z.eqb Pos.eqb]. rewrite read_n_app by apply be_n_length; reflexivity.
  - cbn [wwt] in Hwt. destruct Hwt as [Hs Hl]. destruct fuel as [|f]; [cbn in Hf; lia|].
    cbn [wdepth] in Hd. unfold wtype. cbn [wenc]. rewrite <- app_assoc.
    destruct Hs as [-> | ->]; cbn [wtype_of_shape skip];
      (destruct (depth <=? 0) eqn:E1; [apply Z.leb_le in E1; lia|]);
      cbn [Z.eqb Pos.eqb]; rewrite read_blob_be by assumption; reflexivity.
  - apply wwt_list in Hwt. destruct Hwt as [et [Hs [Hl Hall]]].
    rewrite wsize_list in Hf. rewrite wdepth_list in Hd. destruct fuel as [|f]; [lia|].
    rewrite wenc_list_eq. unfold wtype at 1. rewrite Hs. cbn [elem_ty wtype_of_shape skip].
    pose proof (zlen_nonneg l) as Hz.
    assert (0 <= depth_seq l) by (clear; induction l; cbn [depth_seq]; lia).
    destruct (depth <=? 0) eqn:E1; [apply Z.leb_le in E1; lia|].
    cbn [Z.eqb Pos.eqb orb app]. rewrite read_int_1 by apply wtype_range. cbn [bind].
    rewrite <- app_assoc. rewrite read_size_be by lia. cbn [bind].
    apply (skip_seq_ok e et l H Hall f); lia.
  - apply wwt_set in Hwt. destruct Hwt as [et [Hs [Hl Hall]]].
    rewrite wsize_set in Hf. rewrite wdepth_set in Hd. destruct fuel as [|f]; [lia|].
    rewrite wenc_set_eq. unfold wtype at 1. rewrite Hs. cbn [elem_ty wtype_of_shape skip].
    pose proof (zlen_nonneg l) as Hz.
    assert (0 <= depth_seq l) by (clear; induction l; cbn [depth_seq]; lia).
    destruct (depth <=? 0) eqn:E1; [apply Z.leb_le in E1; lia|].
    cbn [Z.eqb Pos.eqb orb app]. rewrite read_int_1 by apply wtype_range. cbn [bind].
    rewrite <- app_assoc. rewrite read_size_be by lia. cbn [bind].
    apply (skip_seq_ok e et l H Hall f); lia.
  - apply wwt_map in Hwt. destruct Hwt as [kt [vt [Hs [Hl Hall]]]].
    rewrite wsize_map in Hf. rewrite wdepth_map in Hd. destruct fuel as [|f]; [lia|].
    rewrite wenc_map_eq. unfold wtype at 1. rewrite Hs. cbn [key_ty mval_ty wtype_of_shape skip].
    pose proof (zlen_nonneg l) as Hz.
    assert (0 <= depth_pairs l) by (clear; induction l as [|[a b] r]; cbn [depth_pairs]; lia).
    destruct (depth <=? 0) eqn:E1; [apply Z.leb_le in E1; lia|].
    cbn [Z.eqb Pos.eqb orb app]. rewrite read_int_1 by apply wtype_range. cbn [bind].
    rewrite read_int_1 by apply wtype_range. cbn [bind].
    rewrite <- app_assoc. rewrite read_size_be by lia. cbn [bind].
    apply (skip_pairs_ok e kt vt l H Hall f); lia.
  - cbn [wwt] in Hwt. contradiction.
  - pose proof (wwt_rec_by _ _ _ Hwt) as Hall.
    apply wwt_rec in Hwt. destruct Hwt as [k [decls [Hs _]]].
    rewrite wsize_rec in Hf. rewrite wdepth_rec in Hd. destruct fuel as [|f]; [lia|].
    rewrite wenc_rec_eq. unfold wtype. rewrite Hs. cbn [wtype_of_shape skip].
    assert (0 <= depth_fields l) by (clear; induction l as [|[a b] r]; cbn [depth_fields]; lia).
    destruct (depth <=? 0) eqn:E1; [apply Z.leb_le in E1; lia|].
    cbn [Z.eqb Pos.eqb orb]. rewrite Hs in Hall.
    apply (skip_fields_ok e _ l H Hall f); lia.
Qed.

(** * Unknown fields are skipped: a reader with declarations [decls] decodes what a writer with the
      larger schema [ftyp] wrote, dropping exactly the fields it does not declare *)
Definition known (decls : list field) (ix : Z * val) : bool :=
  match ftyp_of decls (fst ix) with Some _ => true | None => false end.

Lemma unknown_fields_skipped e decls ftyp l :
  (forall id ft, ftyp_of decls id = Some ft -> ftyp id = Some ft) ->
  Forall (wwt_entry_by e ftyp) l ->
  Forall (fun ix => wdepth (snd ix) <= 64) l ->
  forall fuel rest, (size_fields l <= fuel)%nat ->
  wdec_fields fuel e decls (wenc_fields e ftyp l ++ rest) = Ok (filter (known decls) l, rest).
Proof.
  intros Hagree Hwt Hdep. induction l as [|[i x] r IH]; intros fuel rest Hf.
  - cbn [size_fields] in Hf. destruct fuel as [|f]; [lia|].
    cbn [wdec_fields wenc_fields app filter]. rewrite read_int_1 by lia. reflexivity.
  - inversion Hwt as [|? ? [Wi Wx] Wr]; subst. inversion Hdep as [|? ? Dx Dr]; subst.
    cbn [fst snd] in *.
    cbn [size_fields] in Hf. destruct fuel as [|f]; [lia|].
    destruct (ftyp i) as [ft|] eqn:Eft; [|contradiction].
    cbn [wdec_fields wenc_fields]. rewrite Eft.
    pose proof (wwt_wtype _ _ _ Wx) as Hw.
    cbn [app]. rewrite read_int_1 by lia. cbn [bind].
    destruct (wtype e ft =? 0) eqn:E0; [apply Z.eqb_eq in E0; lia|].
    rewrite <- !app_assoc. rewrite read_int_be by (assumption || lia). cbn [bind].
    cbn [filter]. unfold known at 1. cbn [fst].
    destruct (ftyp_of decls i) as [ft'|] eqn:Ed.
    + pose proof (Hagree _ _ Ed) as Ha. rewrite Eft in Ha. injection Ha as <-.
      rewrite (wdec_wenc e x ft f _ Wx) by lia. cbn [bind].
      rewrite (IH Wr Dr f rest) by lia. reflexivity.
    + unfold skip_default.
      rewrite (skip_wenc e x ft f 64 _ Wx) by lia. cbn [bind].
      apply (IH Wr Dr f rest); lia.
Qed.

(** * The generated Write: which fields go on the wire *)
Fixpoint tw_fields (e : env) (fs : list field) (ovs : list (option val)) {struct ovs}
  : res (list (Z * val)) :=
  match fs, ovs with
  | [], [] => Ok []
  | f :: fs', ov :: ovs' =>
    if is_optional f && negb (isset e f ov) then tw_fields e fs' ovs' else
    do w <- match ov with
            | Some x => to_wire e (fty f) x
            | None => nil_wire e (fty f)
            end;
    do r <- tw_fields e fs' ovs'; Ok ((fid f, w) :: r)
  | _, _ => Err EOther
  end.

Lemma to_wire_struct_eq e t ovs :
  to_wire e t (VStruct ovs) =
  match shape_of e t with
  | SStruct k decls =>
    if is_union k && negb (count_set e decls ovs =? 1) then Err EInvalidData else
    do l' <- tw_fields e decls ovs; Ok (VRec l')
  | _ => Err EOther
  end.
Proof.
  cbn [to_wire]. cbv zeta. destruct (shape_of e t); try reflexivity.
  destruct (is_union k && negb (count_set e fs ovs =? 1)); [reflexivity|].
  f_equal.
  revert fs. induction ovs as [|ov ovs IH]; intros [|f fs]; try reflexivity.
  cbn [tw_fields]. rewrite <- IH. reflexivity.
Qed.

(** a field is written iff it is required/default, or optional and set *)
Definition written (e : env) (f : field) (ov : option val) : bool :=
  negb (is_optional f) || isset e f ov.

(** [l] is exactly: for every declared field in declaration order that is [written], its id with
    the wire form of its value (nil slices/maps/binary as empty) *)
Fixpoint written_spec (e : env) (fs : list field) (ovs : list (option val)) (l : list (Z * val)) : Prop :=
  match fs, ovs with
  | [], [] => l = []
  | f :: fs', ov :: ovs' =>
    if written e f ov then
      exists w l', l = (fid f, w) :: l' /\
                   match ov with
                   | Some x => to_wire e (fty f) x = Ok w
                   | None => nil_wire e (fty f) = Ok w
                   end /\ written_spec e fs' ovs' l'
    else written_spec e fs' ovs' l
  | _, _ => False
  end.

Lemma tw_fields_spec e fs ovs l : tw_fields e fs ovs = Ok l -> written_spec e fs ovs l.
Proof.
  revert fs l. induction ovs as [|ov ovs IH]; intros [|f fs] l H; cbn [tw_fields] in H; try discriminate.
  - injection H as <-. reflexivity.
  - cbn [written_spec]. unfold written.
    destruct (is_optional f) eqn:Eo; cbn [negb andb orb] in *.
    + destruct (isset e f ov) eqn:Es; cbn [negb] in *.
      * destruct (match ov with Some x => to_wire e (fty f) x | None => nil_wire e (fty f) end) as [w| | |] eqn:Ew;
          cbn [bind] in H; try discriminate.
        destruct (tw_fields e fs ovs) as [r| | |] eqn:Er; cbn [bind] in H; try discriminate.
        injection H as <-. exists w, r. split; [reflexivity|]. split; [|apply IH; assumption].
        destruct ov; assumption.
      * apply IH; assumption.
    + destruct (match ov with Some x => to_wire e (fty f) x | None => nil_wire e (fty f) end) as [w| | |] eqn:Ew;
        cbn [bind] in H; try discriminate.
      destruct (tw_fields e fs ovs) as [r| | |] eqn:Er; cbn [bind] in H; try discriminate.
      injection H as <-. exists w, r. split; [reflexivity|]. split; [|apply IH; assumption].
      destruct ov; assumption.
Qed.

Fixpoint written_ids (e : env) (fs : list field) (ovs : list (option val)) : list Z :=
  match fs, ovs with
  | f :: fs', ov :: ovs' =>
    if written e f ov then fid f :: written_ids e fs' ovs' else written_ids e fs' ovs'
  | _, _ => []
  end.

Lemma written_spec_ids e fs ovs l : written_spec e fs ovs l -> map fst l = written_ids e fs ovs.
Proof.
  revert fs l. induction ovs as [|ov ovs IH]; intros [|f fs] l H; cbn [written_spec] in H; try contradiction.
  - subst. reflexivity.
  - cbn [written_ids]. destruct (written e f ov).
    + destruct H as [w [l' [-> [_ H]]]]. cbn [map fst]. f_equal. apply IH; assumption.
    + apply IH; assumption.
Qed.

(** layout of the bytes of a struct-like: every written field as
    [wire type of the declared type; id; value], then the stop byte *)
Lemma gwrite_struct e t ovs b :
  gwrite e t (VStruct ovs) = Ok b ->
  exists k decls l,
    shape_of e t = SStruct k decls /\
    (is_union k = true -> count_set e decls ovs = 1) /\
    written_spec e decls ovs l /\ map fst l = written_ids e decls ovs /\
    b = wenc_fields e (ftyp_of decls) l.
Proof.
  unfold gwrite. rewrite to_wire_struct_eq. intros H.
  destruct (shape_of e t) eqn:Es; cbn [bind] in H; try discriminate.
  destruct (is_union k && negb (count_set e fs ovs =? 1)) eqn:Eu; cbn [bind] in H; [discriminate|].
  destruct (tw_fields e fs ovs) as [l| | |] eqn:El; cbn [bind] in H; try discriminate.
  injection H as <-. exists k, fs, l.
  pose proof (tw_fields_spec _ _ _ _ El) as Hsp.
  repeat split; try assumption.
  - intros Hk. rewrite Hk in Eu. cbn [andb] in Eu.
    destruct (count_set e fs ovs =? 1) eqn:E1; [apply Z.eqb_eq in E1; exact E1|discriminate].
  - apply written_spec_ids; assumption.
  - change (wenc e t (VRec l) = wenc_fields e (ftyp_of fs) l).
    rewrite wenc_rec_eq, Es. reflexivity.
Qed.

(** a union on the wire has exactly one field *)
Lemma count_written e fs ovs :
  Forall (fun f => is_optional f = true) fs -> length fs = length ovs ->
  Z.of_nat (length (written_ids e fs ovs)) = count_set e fs ovs.
Proof.
  intros Hopt. revert ovs. induction Hopt as [|f fs Hf _ IH]; intros [|ov ovs] Hl; cbn in Hl; try discriminate.
  - reflexivity.
  - cbn [written_ids count_set]. unfold written. rewrite Hf. cbn [negb orb].
    injection Hl as Hl. specialize (IH ovs Hl).
    destruct (isset e f ov); cbn [length]; lia.
Qed.

Lemma union_one_field e t ovs b k decls :
  shape_of e t = SStruct k decls -> is_union k = true ->
  Forall (fun f => is_optional f = true) decls -> length decls = length ovs ->
  gwrite e t (VStruct ovs) = Ok b ->
  exists id w, b = wenc_fields e (ftyp_of decls) [(id, w)] /\ written_ids e decls ovs = [id].
Proof.
  intros Hs Hk Hopt Hlen H.
  destruct (gwrite_struct _ _ _ _ H) as [k' [decls' [l [Hs' [Hu [Hsp [Hids ->]]]]]]].
  rewrite Hs in Hs'. injection Hs' as <- <-.
  specialize (Hu Hk). pose proof (count_written e decls ovs Hopt Hlen) as Hc.
  rewrite Hu, <- Hids, map_length in Hc.
  destruct l as [|[id w] [|? ?]]; cbn [length] in Hc; try lia.
  exists id, w. split; [reflexivity|]. rewrite <- Hids. reflexivity.
Qed.

(** * The generated Read on a wire struct *)
Fixpoint fw_fields (e : env) (decls : list field) (l : list (Z * val)) (st : list (option val))
  : res (list (option val)) :=
  match l with
  | [] => Ok st
  | (id, x) :: r =>
    match find_field decls id with
    | Some f => do g <- from_wire e (fty f) x; fw_fields e decls r (store decls id (Some g) st)
    | None => fw_fields e decls r st
    end
  end.

Lemma from_wire_rec_eq e t l :
  from_wire e t (VRec l) =
  match shape_of e t with
  | SStruct k decls =>
    do st <- fw_fields e decls l (new_struct e decls);
    if negb (required_seen decls (map fst l)) then Err EInvalidData else
    if is_union k && negb (count_set e decls st =? 1) then Err EInvalidData else
    Ok (VStruct st)
  | _ => Err EOther
  end.
Proof.
  cbn [from_wire]. cbv zeta. destruct (shape_of e t); try reflexivity.
  f_equal. generalize (new_struct e fs).
  induction l as [|[i x] r IH]; intro st; [reflexivity|].
  cbn [fw_fields]. destruct (find_field fs i); [|apply IH].
  destruct (from_wire e (fty f) x); cbn [bind]; try reflexivity. apply IH.
Qed.

Lemma required_seen_in decls seen f :
  required_seen decls seen = true -> In f decls -> fmod f = MRequired -> In (fid f) seen.
Proof.
  induction decls as [|g decls IH]; intros H Hin Hreq; [contradiction|].
  cbn [required_seen] in H. apply andb_prop in H. destruct H as [H1 H2].
  destruct Hin as [->|Hin]; [|apply IH; assumption].
  rewrite Hreq in H1. apply existsb_exists in H1. destruct H1 as [x [Hx Heq]].
  apply Z.eqb_eq in Heq. subst. assumption.
Qed.

Lemma missing_required_rejected e t l k decls f :
  shape_of e t = SStruct k decls -> In f decls -> fmod f = MRequired ->
  ~ In (fid f) (map fst l) ->
  forall g, from_wire e t (VRec l) <> Ok g.
Proof.
  intros Hs Hin Hreq Hno g H. rewrite from_wire_rec_eq, Hs in H.
  destruct (fw_fields e decls l (new_struct e decls)); cbn [bind] in H; try discriminate.
  destruct (required_seen decls (map fst l)) eqn:Er; cbn [negb] in H; [|discriminate].
  apply Hno. eapply required_seen_in; eassumption.
Qed.

Lemma read_union_one e t l k decls st :
  shape_of e t = SStruct k decls -> is_union k = true ->
  from_wire e t (VRec l) = Ok (VStruct st) -> count_set e decls st = 1.
Proof.
  intros Hs Hk H. rewrite from_wire_rec_eq, Hs in H.
  destruct (fw_fields e decls l (new_struct e decls)); cbn [bind] in H; try discriminate.
  destruct (negb (required_seen decls (map fst l))); [discriminate|].
  rewrite Hk in H. cbn [andb] in H.
  destruct (count_set e decls a =? 1) eqn:E1; cbn [negb] in H; [|discriminate].
  injection H as <-. apply Z.eqb_eq in E1. exact E1.
Qed.

(** args / result synthesis *)
Lemma args_no_optional args f :
  In f (map args_field args) -> fmod f <> MOptional.
Proof.
  intros H. apply in_map_iff in H. destruct H as [g [<- _]].
  unfold args_field. destruct (fmod g) eqn:E; cbn; try rewrite E; discriminate.
Qed.
Lemma result_all_optional ret throws f :
  In f ((match ret with Some t => [mkField 0 MOptional t None] | None => [] end) ++ map opt_field throws) ->
  fmod f = MOptional.
Proof.
  intros H. apply in_app_or in H. destruct H as [H|H].
  - destruct ret; [destruct H as [<-|[]]; reflexivity|contradiction].
  - apply in_map_iff in H. destruct H as [g [<- _]]. reflexivity.
Qed.
