(** C19 — lemmas about Model/MapOrder.v: sorting makes map iteration order irrelevant,
    set-like stores commute, the generation plan and the output locations do not depend on
    map order or on absolute locations. *)
From Coq Require Import String List ZArith Bool Permutation Sorting.Sorted Lia.
From FV Require Import Model.MapOrder.
Import ListNotations.
Open Scope Z_scope.

(* ------------------------------------------------------------------------------------------ *)
(** * Go string comparison is a strict total order *)

Lemma str_eqb_eq (a b : str) : str_eqb a b = true <-> a = b.
Proof.
  revert b; induction a as [|x a IH]; intros [|y b]; cbn [str_eqb]; split; intro H;
    try reflexivity; try discriminate.
  - apply andb_true_iff in H as [Hx Hab]. apply Z.eqb_eq in Hx. apply IH in Hab. now subst.
  - injection H as -> ->. apply andb_true_iff; split; [apply Z.eqb_refl | now apply IH].
Qed.

Lemma str_eqb_refl (a : str) : str_eqb a a = true.
Proof. now apply str_eqb_eq. Qed.

Lemma str_eqb_neq (a b : str) : str_eqb a b = false <-> a <> b.
Proof.
  split.
  - intros H E. apply str_eqb_eq in E. congruence.
  - intros H. destruct (str_eqb a b) eqn:E; [|reflexivity]. apply str_eqb_eq in E. contradiction.
Qed.

Lemma str_eqb_sym (a b : str) : str_eqb a b = str_eqb b a.
Proof.
  destruct (str_eqb a b) eqn:E.
  - apply str_eqb_eq in E. subst. symmetry. apply str_eqb_refl.
  - symmetry. apply str_eqb_neq. apply str_eqb_neq in E. congruence.
Qed.

Lemma str_ltb_irrefl (a : str) : str_ltb a a = false.
Proof. induction a as [|x a IH]; cbn [str_ltb]; [reflexivity|]. now rewrite Z.ltb_irrefl. Qed.

Lemma str_ltb_tricho (a b : str) : a = b \/ str_ltb a b = true \/ str_ltb b a = true.
Proof.
  revert b; induction a as [|x a IH]; intros [|y b]; cbn [str_ltb]; auto.
  destruct (Z.ltb_spec x y) as [Hxy|Hxy]; [auto|].
  destruct (Z.ltb_spec y x) as [Hyx|Hyx]; [auto|].
  assert (x = y) by lia. subst y.
  destruct (IH b) as [-> | [H | H]]; auto.
Qed.

Lemma str_ltb_trans (a b c : str) :
  str_ltb a b = true -> str_ltb b c = true -> str_ltb a c = true.
Proof.
  revert b c; induction a as [|x a IH]; intros [|y b] [|z c]; cbn [str_ltb]; try discriminate; auto.
  destruct (Z.ltb_spec x y) as [Hxy|Hxy].
  - intros _. destruct (Z.ltb_spec y z) as [Hyz|Hyz].
    + intros _. destruct (Z.ltb_spec x z); [reflexivity|lia].
    + destruct (Z.ltb_spec z y); [discriminate|]. intros _.
      destruct (Z.ltb_spec x z); [reflexivity|lia].
  - destruct (Z.ltb_spec y x) as [Hyx|Hyx]; [discriminate|].
    assert (x = y) by lia. subst y. intros Hab.
    destruct (Z.ltb_spec x z) as [Hxz|Hxz]; [reflexivity|].
    destruct (Z.ltb_spec z x) as [Hzx|Hzx]; [discriminate|].
    intros Hbc. eapply IH; eauto.
Qed.

(* ------------------------------------------------------------------------------------------ *)
(** * Sorting with a comparison that is strict on the elements: the result is unique *)

Section SortFacts.
  Context {A : Type} (less : A -> A -> bool) (P : A -> Prop).

  Record strict_on : Prop := {
    so_tricho : forall x y, P x -> P y -> x = y \/ less x y = true \/ less y x = true;
    so_trans : forall x y z, P x -> P y -> P z -> less x y = true -> less y z = true -> less x z = true;
    so_irrefl : forall x, P x -> less x x = false }.

  (** what every correct sort guarantees: no later element is [less] than an earlier one *)
  Definition inv_free : list A -> Prop := StronglySorted (fun x y => less y x = false).

  Lemma so_asym (S : strict_on) x y : P x -> P y -> less x y = true -> less y x = false.
  Proof.
    intros Hx Hy Hxy. destruct (less y x) eqn:E; [|reflexivity].
    pose proof (so_trans S x y x Hx Hy Hx Hxy E) as H. rewrite (so_irrefl S x Hx) in H. discriminate.
  Qed.

  Lemma insert_by_perm x l : Permutation (insert_by less x l) (x :: l).
  Proof.
    induction l as [|y l IH]; cbn [insert_by]; [reflexivity|].
    destruct (less y x); [|reflexivity].
    rewrite IH. apply perm_swap.
  Qed.

  Lemma sort_by_perm l : Permutation (sort_by less l) l.
  Proof.
    induction l as [|x l IH]; cbn [sort_by fold_right]; [reflexivity|].
    fold (sort_by less l). rewrite insert_by_perm. now constructor.
  Qed.

  Lemma insert_by_sorted (S : strict_on) x l :
    P x -> Forall P l -> inv_free l -> inv_free (insert_by less x l).
  Proof.
    intros Hx HP Hs. induction l as [|y l IH]; cbn [insert_by].
    - constructor; constructor.
    - apply StronglySorted_inv in Hs as [Hs Hy].
      inversion HP as [|? ? Py Pl]; subst.
      destruct (less y x) eqn:Eyx.
      + constructor; [now apply IH|].
        eapply Permutation_Forall; [symmetry; apply insert_by_perm|].
        constructor; [|exact Hy]. now apply so_asym.
      + constructor; [constructor; assumption|].
        constructor; [exact Eyx|].
        rewrite Forall_forall in Hy, Pl |- *. intros z Hz.
        destruct (less z x) eqn:Ezx; [|reflexivity]. exfalso.
        destruct (so_tricho S y x Py Hx) as [-> | [H | H]].
        * rewrite (Hy z Hz) in Ezx. discriminate.
        * congruence.
        * pose proof (so_trans S z x y (Pl z Hz) Hx Py Ezx H) as H2.
          rewrite (Hy z Hz) in H2. discriminate.
  Qed.

  Lemma sort_by_sorted (S : strict_on) l : Forall P l -> inv_free (sort_by less l).
  Proof.
    induction l as [|x l IH]; intros HP; cbn [sort_by fold_right]; [constructor|].
    fold (sort_by less l). inversion HP; subst.
    apply insert_by_sorted; auto.
    eapply Permutation_Forall; [symmetry; apply sort_by_perm|assumption].
  Qed.

  Lemma sorted_perm_unique (S : strict_on) a b :
    Forall P a -> Permutation a b -> inv_free a -> inv_free b -> a = b.
  Proof.
    revert b. induction a as [|x a IH]; intros b HP Hperm Sa Sb.
    - apply Permutation_nil in Hperm. now subst.
    - destruct b as [|y b]; [apply Permutation_sym, Permutation_nil in Hperm; discriminate|].
      apply StronglySorted_inv in Sa as [Sa Hx]. apply StronglySorted_inv in Sb as [Sb Hy].
      inversion HP as [|? ? Px Pa]; subst.
      assert (Py : P y).
      { assert (Hin : In y (x :: a)) by (eapply Permutation_in; [symmetry; exact Hperm|now left]).
        rewrite Forall_forall in HP. now apply HP. }
      assert (x = y) as ->.
      { assert (Hxin : In x (y :: b)) by (eapply Permutation_in; [exact Hperm|now left]).
        assert (Hyin : In y (x :: a)) by (eapply Permutation_in; [symmetry; exact Hperm|now left]).
        rewrite Forall_forall in Hx, Hy.
        destruct (so_tricho S x y Px Py) as [E | [H | H]]; [exact E| |]; exfalso.
        - destruct Hxin as [E | Hin]; [subst; rewrite (so_irrefl S _ Px) in H; discriminate|].
          rewrite (Hy x Hin) in H. discriminate.
        - destruct Hyin as [E | Hin]; [subst; rewrite (so_irrefl S _ Px) in H; discriminate|].
          rewrite (Hx y Hin) in H. discriminate. }
      f_equal. apply IH; auto. eapply Permutation_cons_inv; eauto.
  Qed.

  (** whatever algorithm sorted [l] (Go's pdqsort included), the result is [sort_by less l] *)
  Theorem any_sort_is_sort_by (S : strict_on) l out :
    Forall P l -> Permutation l out -> inv_free out -> out = sort_by less l.
  Proof.
    intros HP Hperm Hs. symmetry. apply sorted_perm_unique; auto.
    - eapply Permutation_Forall; [symmetry; apply sort_by_perm|assumption].
    - rewrite sort_by_perm. assumption.
    - now apply sort_by_sorted.
  Qed.

  Theorem sort_by_order_free (S : strict_on) l l' :
    Forall P l -> Permutation l l' -> sort_by less l = sort_by less l'.
  Proof.
    intros HP Hperm. apply sorted_perm_unique; auto.
    - eapply Permutation_Forall; [symmetry; apply sort_by_perm|assumption].
    - rewrite !sort_by_perm. assumption.
    - now apply sort_by_sorted.
    - apply sort_by_sorted; auto. eapply Permutation_Forall; eauto.
  Qed.
End SortFacts.

Lemma str_strict : strict_on str_ltb (fun _ => True).
Proof.
  constructor.
  - intros x y _ _. apply str_ltb_tricho.
  - intros x y z _ _ _. apply str_ltb_trans.
  - intros x _. apply str_ltb_irrefl.
Qed.

Lemma Forall_True {A} (l : list A) : Forall (fun _ => True) l.
Proof. induction l; constructor; auto. Qed.

Theorem sort_strings_order_free (l l' : list str) :
  Permutation l l' -> sort_strings l = sort_strings l'.
Proof. intros H. apply (sort_by_order_free str_ltb _ str_strict); [apply Forall_True|exact H]. Qed.

Theorem sort_strings_any_algorithm (l out : list str) :
  Permutation l out -> inv_free str_ltb out -> out = sort_strings l.
Proof. intros H1 H2. apply (any_sort_is_sort_by str_ltb _ str_strict); auto using Forall_True. Qed.

(* ------------------------------------------------------------------------------------------ *)
(** * Loop schemas *)

Lemma fold_append_map {A B} (f : A -> B) (l : list A) (acc : list B) :
  fold_left (fun s e => s ++ [f e]) l acc = acc ++ map f l.
Proof.
  revert acc; induction l as [|x l IH]; intros acc; cbn [fold_left map].
  - now rewrite app_nil_r.
  - rewrite IH, <- app_assoc. reflexivity.
Qed.

(** CSortedKeys *)
Theorem sorted_keys_order_free {V} (iter iter' : list (str * V)) :
  Permutation iter iter' -> sorted_keys_loop iter = sorted_keys_loop iter'.
Proof.
  intros H. unfold sorted_keys_loop. rewrite !fold_append_map. cbn [app].
  apply sort_strings_order_free. now apply Permutation_map.
Qed.

(** CSortedValues, for a comparison that is strict on the values of the map *)
Theorem sorted_values_order_free {V} (less : V -> V -> bool) (iter iter' : list (str * V)) :
  strict_on less (fun v => In v (map snd iter)) ->
  Permutation iter iter' -> sorted_values_loop less iter = sorted_values_loop less iter'.
Proof.
  intros S H. unfold sorted_values_loop. rewrite !fold_append_map. cbn [app].
  apply (sort_by_order_free less _ S).
  - apply Forall_forall. auto.
  - now apply Permutation_map.
Qed.

(** ... and with a comparison that is NOT strict the result does depend on the order *)
Lemma sorted_values_order_sensitive :
  exists (iter iter' : list (str * module)),
    Permutation iter iter' /\ NoDup (map fst iter) /\
    sorted_values_loop modules_less_by_name_only iter <> sorted_values_loop modules_less_by_name_only iter'.
Proof.
  pose (a := Mod [97] [120] [] [] []). pose (b := Mod [98] [120] [] [] []).
  exists [([97], a); ([98], b)], [([98], b); ([97], a)]. split; [apply perm_swap|]. split.
  - cbn. constructor; [cbn; intros [H|[]]; discriminate|]. constructor; [intros []|constructor].
  - vm_compute. discriminate.
Qed.

(** entries of a Go map: a key determines its value *)
Lemma nodup_keys_functional {V} (l : list (str * V)) k v1 v2 :
  NoDup (map fst l) -> In (k, v1) l -> In (k, v2) l -> v1 = v2.
Proof.
  induction l as [|[k0 v0] l IH]; cbn [map fst]; intros Hnd H1 H2; [destruct H1|].
  inversion Hnd as [|? ? Hnotin Hnd']; subst.
  destruct H1 as [E1|H1], H2 as [E2|H2].
  - congruence.
  - injection E1 as -> ->. exfalso. apply Hnotin. apply in_map_iff. exists (k, v2). auto.
  - injection E2 as -> ->. exfalso. apply Hnotin. apply in_map_iff. exists (k, v1). auto.
  - now apply IH.
Qed.

(** Modules.Less (repaired) is strict on the values of a map keyed by file *)
Lemma modules_less_strict (vals : list module) :
  (forall x y, In x vals -> In y vals -> m_file x = m_file y -> x = y) ->
  strict_on modules_less (fun v => In v vals).
Proof.
  intros Hinj. constructor.
  - intros x y Hx Hy. unfold modules_less.
    destruct (str_eqb (m_name x) (m_name y)) eqn:En.
    + rewrite str_eqb_sym in En. rewrite En.
      destruct (str_ltb_tricho (m_file x) (m_file y)) as [E | [H | H]]; auto.
    + rewrite str_eqb_sym in En. rewrite En.
      destruct (str_ltb_tricho (m_name x) (m_name y)) as [E | [H | H]]; auto.
      rewrite E, str_eqb_refl in En. discriminate.
  - intros x y z _ _ _. unfold modules_less.
    destruct (str_eqb (m_name x) (m_name y)) eqn:Exy; destruct (str_eqb (m_name y) (m_name z)) eqn:Eyz.
    + apply str_eqb_eq in Exy, Eyz. rewrite Exy, Eyz, str_eqb_refl. apply str_ltb_trans.
    + apply str_eqb_eq in Exy. rewrite Exy, Eyz. auto.
    + apply str_eqb_eq in Eyz. rewrite <- Eyz, Exy. auto.
    + intros H1 H2. pose proof (str_ltb_trans _ _ _ H1 H2) as H3.
      destruct (str_eqb (m_name x) (m_name z)) eqn:Exz; [|exact H3].
      apply str_eqb_eq in Exz. rewrite Exz, str_ltb_irrefl in H3. discriminate.
  - intros x _. unfold modules_less. rewrite str_eqb_refl. apply str_ltb_irrefl.
Qed.

Definition keyed_by_file (iter : gomap module) : Prop := forall e, In e iter -> fst e = m_file (snd e).

Theorem html_modules_order_free (iter iter' : gomap module) :
  keyed_by_file iter -> NoDup (map fst iter) -> Permutation iter iter' ->
  transitive_includes_from iter = transitive_includes_from iter'.
Proof.
  intros Hk Hnd Hperm. unfold transitive_includes_from.
  apply sorted_values_order_free; [|exact Hperm].
  apply modules_less_strict. intros x y Hx Hy Hf.
  apply in_map_iff in Hx. destruct Hx as [[kx vx] [Ex Hx]].
  apply in_map_iff in Hy. destruct Hy as [[ky vy] [Ey Hy]].
  cbn [snd] in Ex, Ey. subst vx vy.
  pose proof (Hk _ Hx) as Kx. pose proof (Hk _ Hy) as Ky. cbn [fst snd] in Kx, Ky.
  assert (E : kx = ky) by congruence.
  rewrite <- E in Hy.
  exact (nodup_keys_functional iter kx x y Hnd Hx Hy).
Qed.

(** CSetInsert *)
Lemma lookup_store_eq {V} k (v : V) m : lookup k (store k v m) = Some v.
Proof. unfold store. cbn [lookup]. now rewrite str_eqb_refl. Qed.

Lemma lookup_store_neq {V} k k' (v : V) m : k <> k' -> lookup k (store k' v m) = lookup k m.
Proof. intros H. unfold store. cbn [lookup]. apply str_eqb_neq in H. now rewrite H. Qed.

Lemma store_congr {V} k (v : V) m m' : map_equiv m m' -> map_equiv (store k v m) (store k v m').
Proof. intros H k0. unfold store. cbn [lookup]. destruct (str_eqb k0 k); auto. Qed.

Lemma store_comm {V} k1 k2 (v1 v2 : V) m :
  (k1 = k2 -> v1 = v2) -> map_equiv (store k1 v1 (store k2 v2 m)) (store k2 v2 (store k1 v1 m)).
Proof.
  intros H k. unfold store. cbn [lookup].
  destruct (str_eqb k k1) eqn:E1, (str_eqb k k2) eqn:E2; auto.
  apply str_eqb_eq in E1, E2. subst. now rewrite H.
Qed.

Section SetInsert.
  Context {V W : Type} (keep : str * V -> bool) (kf : str * V -> str) (vf : str * V -> W).

  Definition consistent (l : list (str * V)) : Prop :=
    forall e1 e2, In e1 l -> In e2 l -> keep e1 = true -> keep e2 = true -> kf e1 = kf e2 -> vf e1 = vf e2.

  Definition step (t : gomap W) (e : str * V) : gomap W := if keep e then store (kf e) (vf e) t else t.

  Lemma step_congr e t t' : map_equiv t t' -> map_equiv (step t e) (step t' e).
  Proof. unfold step. destruct (keep e); auto using store_congr. Qed.

  Lemma fold_congr l t t' : map_equiv t t' -> map_equiv (fold_left step l t) (fold_left step l t').
  Proof. revert t t'; induction l as [|e l IH]; intros t t' H; cbn [fold_left]; auto using step_congr. Qed.

  Theorem set_insert_order_free_gen (iter iter' : list (str * V)) :
    Permutation iter iter' -> consistent iter ->
    forall t0 t0', map_equiv t0 t0' ->
    map_equiv (fold_left step iter t0) (fold_left step iter' t0').
  Proof.
    induction 1 as [|e l l' Hp IH|e1 e2 l|l1 l2 l3 H12 IH12 H23 IH23]; intros Hc t0 t0' Ht.
    - exact Ht.
    - cbn [fold_left]. apply IH; [|now apply step_congr].
      intros a b Ha Hb. apply Hc; now right.
    - cbn [fold_left]. apply fold_congr.
      unfold step. destruct (keep e1) eqn:K1, (keep e2) eqn:K2; auto using store_congr.
      intros k. rewrite (store_comm (kf e1) (kf e2) (vf e1) (vf e2) t0 (fun E => Hc e1 e2 (or_intror (or_introl eq_refl)) (or_introl eq_refl) K1 K2 E) k).
      apply store_congr, store_congr, Ht.
    - intros k. rewrite (IH12 Hc t0 t0 (fun _ => eq_refl) k).
      apply IH23; [|exact Ht].
      intros a b Ha Hb. apply Hc; eapply Permutation_in; try (symmetry; exact H12); assumption.
  Qed.
End SetInsert.

Theorem set_insert_order_free {V W} keep kf (vf : str * V -> W) iter iter' t0 :
  Permutation iter iter' -> consistent keep kf vf iter ->
  map_equiv (set_insert_loop keep kf vf iter t0) (set_insert_loop keep kf vf iter' t0).
Proof.
  intros Hp Hc. unfold set_insert_loop.
  apply (set_insert_order_free_gen keep kf vf iter iter' Hp Hc t0 t0). intros k; reflexivity.
Qed.

(** the two shapes the translator accepts as CSetInsert: (a) the store index is the range key
    itself, (b) the stored value is a constant *)
Corollary set_insert_at_key_order_free {V W} keep (vf : str * V -> W) iter iter' t0 :
  NoDup (map fst iter) -> Permutation iter iter' ->
  map_equiv (set_insert_loop keep fst vf iter t0) (set_insert_loop keep fst vf iter' t0).
Proof.
  intros Hnd Hp. apply set_insert_order_free; [exact Hp|].
  intros [k1 v1] [k2 v2] H1 H2 _ _ E. cbn [fst] in E. subst k2.
  now rewrite (nodup_keys_functional iter k1 v1 v2 Hnd H1 H2).
Qed.

Corollary set_insert_const_order_free {V W} keep kf (c : W) (iter iter' : list (str * V)) t0 :
  Permutation iter iter' ->
  map_equiv (set_insert_loop keep kf (fun _ => c) iter t0) (set_insert_loop keep kf (fun _ => c) iter' t0).
Proof. intros Hp. apply set_insert_order_free; [exact Hp|]. intros ? ? _ _ _ _ _. reflexivity. Qed.

(* ------------------------------------------------------------------------------------------ *)
(** * Lookups do not see the representation order of a map *)

Lemma lookup_in {V} (m : gomap V) k v : NoDup (map fst m) -> In (k, v) m -> lookup k m = Some v.
Proof.
  induction m as [|[k0 v0] m IH]; cbn [map fst lookup]; intros Hnd Hin; [destruct Hin|].
  inversion Hnd as [|? ? Hnotin Hnd']; subst.
  destruct Hin as [E|Hin].
  - injection E as -> ->. now rewrite str_eqb_refl.
  - destruct (str_eqb k k0) eqn:E; [|now apply IH].
    apply str_eqb_eq in E. subst k0. exfalso. apply Hnotin. apply in_map_iff. exists (k, v). auto.
Qed.

Lemma lookup_none {V} (m : gomap V) k : ~ In k (map fst m) -> lookup k m = None.
Proof.
  induction m as [|[k0 v0] m IH]; cbn [map fst lookup]; intros H; [reflexivity|].
  destruct (str_eqb k k0) eqn:E.
  - apply str_eqb_eq in E. subst. exfalso. apply H. now left.
  - apply IH. intros Hin. apply H. now right.
Qed.

Lemma lookup_some_in {V} (m : gomap V) k v : lookup k m = Some v -> In (k, v) m.
Proof.
  induction m as [|[k0 v0] m IH]; cbn [lookup]; [discriminate|].
  destruct (str_eqb k k0) eqn:E.
  - apply str_eqb_eq in E. subst. intros H. injection H as ->. now left.
  - intros H. right. now apply IH.
Qed.

Theorem lookup_perm {V} (m m' : gomap V) :
  NoDup (map fst m) -> Permutation m m' -> map_equiv m m'.
Proof.
  intros Hnd Hp k.
  assert (Hnd' : NoDup (map fst m')) by (eapply Permutation_NoDup; [apply Permutation_map; exact Hp|exact Hnd]).
  destruct (lookup k m) as [v|] eqn:E.
  - symmetry. apply lookup_in; [exact Hnd'|]. eapply Permutation_in; [exact Hp|]. now apply lookup_some_in.
  - destruct (lookup k m') as [v'|] eqn:E'; [|reflexivity].
    apply lookup_some_in in E'. apply Permutation_sym in Hp. eapply Permutation_in in E'; [|exact Hp].
    rewrite (lookup_in m k v' Hnd E') in E. discriminate.
Qed.

(* ------------------------------------------------------------------------------------------ *)
(** * The generation plan does not depend on how ParsedIncludes is laid out *)

(** two parse trees that agree on everything except the internal order of every ParsedIncludes map *)
Fixpoint same_view (fuel : nat) (m m' : module) : Prop :=
  m_file m = m_file m' /\ m_name m = m_name m' /\ m_includes m = m_includes m' /\
  match fuel with
  | O => True
  | S f => forall k, match lookup k (m_parsed m), lookup k (m_parsed m') with
                     | Some c, Some c' => same_view f c c'
                     | None, None => True
                     | _, _ => False
                     end
  end.

Lemma same_view_refl fuel m : same_view fuel m m.
Proof.
  revert m; induction fuel as [|f IH]; intros m; cbn [same_view]; repeat split; auto.
  intros k. destruct (lookup k (m_parsed m)); auto.
Qed.

Theorem gen_plan_view_free fuel uv m m' done acc :
  same_view fuel m m' -> gen_plan fuel uv m done acc = gen_plan fuel uv m' done acc.
Proof.
  revert m m' done acc. induction fuel as [|f IH]; intros m m' done acc Hv.
  - destruct Hv as (Hf & _ & _ & _). cbn [gen_plan]. now rewrite Hf.
  - destruct Hv as (Hf & Hn & Hi & Hl). cbn [gen_plan]. rewrite Hf.
    destruct (existsb (str_eqb (m_file m')) done); [reflexivity|].
    unfold ordered_includes. rewrite Hi.
    generalize (sort_by include_less (m_includes m')) as incs.
    generalize (m_file m' :: done, acc ++ [m_file m']) as st.
    intros st incs; revert st. induction incs as [|inc incs IHi]; intros st; cbn [fold_left]; [reflexivity|].
    rewrite <- IHi. f_equal.
    destruct (snd inc && uv); [reflexivity|].
    specialize (Hl (fst inc)).
    destruct (lookup (fst inc) (m_parsed m)) as [c|], (lookup (fst inc) (m_parsed m')) as [c'|];
      try contradiction; auto.
Qed.

(** in particular: permuting the root's ParsedIncludes (any Go iteration / insertion order) *)
Corollary gen_plan_root_perm_free fuel uv f n incs parsed parsed' sc done acc :
  NoDup (map fst parsed) -> Permutation parsed parsed' ->
  gen_plan (S fuel) uv (Mod f n incs parsed sc) done acc = gen_plan (S fuel) uv (Mod f n incs parsed' sc) done acc.
Proof.
  intros Hnd Hp. apply gen_plan_view_free. cbn [same_view m_file m_name m_includes m_parsed].
  repeat split; auto. intros k. rewrite <- (lookup_perm parsed parsed' Hnd Hp k).
  destruct (lookup k parsed); auto using same_view_refl.
Qed.

(** the scope order after [Frugal.sort] does not depend on the order of declaration *)
Theorem sort_scopes_order_free (l l' : list str) : Permutation l l' -> sort_scopes l = sort_scopes l'.
Proof. apply sort_strings_order_free. Qed.

(* ------------------------------------------------------------------------------------------ *)
(** * Output locations do not depend on absolute locations *)

Lemma rel_common_root (root p q : path) : rel (root ++ p) (root ++ q) = rel p q.
Proof. induction root as [|c root IH]; cbn [app rel]; [reflexivity|]. now rewrite str_eqb_refl. Qed.

Lemma rel_from_root (root q : path) : rel root (root ++ q) = q.
Proof. rewrite <- (app_nil_r root) at 1. rewrite rel_common_root. destruct q; reflexivity. Qed.

Lemma output_dir_under_out lang out ns name :
  exists d, output_dir lang out ns name = out ++ d /\ forall out', output_dir lang out' ns name = out' ++ d.
Proof.
  unfold output_dir, join.
  destruct ((lang =? 3) || (lang =? 4)).
  - exists []. split; intros; now rewrite app_nil_r.
  - destruct ns as [v|].
    + eexists; split; intros; reflexivity.
    + destruct (lang =? 2).
      * exists []. split; intros; now rewrite app_nil_r.
      * eexists; split; intros; reflexivity.
Qed.

Theorem rel_output_dir_location_free lang out out' ns name :
  rel_output_dir lang out ns name = rel_output_dir lang out' ns name.
Proof.
  unfold rel_output_dir. destruct (output_dir_under_out lang out ns name) as (d & H1 & H2).
  rewrite H1, (H2 out'), !rel_from_root. reflexivity.
Qed.

Theorem py_init_dirs_location_free root root' d :
  py_init_dirs root (root ++ d) = py_init_dirs root' (root' ++ d).
Proof. unfold py_init_dirs. now rewrite !rel_from_root. Qed.

(* ------------------------------------------------------------------------------------------ *)
(** * CRecInsert: transitiveIncludesRec computes the same map whatever order Go picks at
      every single `range module.ParsedIncludes` *)

(** [chain R l a out]: the loop body [a = R(child, a)] run over [l] from [a] ends in [out] *)
Fixpoint chain (R : module -> gomap module -> gomap module -> Prop)
         (l : list (str * module)) (a out : gomap module) : Prop :=
  match l with
  | [] => out = a
  | e :: l' => exists a1, R (snd e) a a1 /\ chain R l' a1 out
  end.

(** all executions of transitiveIncludesRec(m, acc): at every visit ANY permutation of
    ParsedIncludes may be the iteration order (independently of every other visit) *)
Fixpoint trec_any (fuel : nat) (m : module) (acc out : gomap module) : Prop :=
  match fuel with
  | O => False
  | S f => exists order, Permutation (m_parsed m) order /\
                         chain (trec_any f) order (store (m_file m) m acc) out
  end.

(** [sub fuel m x]: x is m or occurs below it *)
Fixpoint sub (fuel : nat) (m x : module) : Prop :=
  match fuel with
  | O => False
  | S f => x = m \/ exists e, In e (m_parsed m) /\ sub f (snd e) x
  end.

(** the tree fits in the fuel *)
Fixpoint fits (fuel : nat) (m : module) : Prop :=
  match fuel with
  | O => False
  | S f => forall e, In e (m_parsed m) -> fits f (snd e)
  end.

(** the executable [trec] is one of the executions (identity order) *)
Lemma trec_is_an_execution fuel m acc : fits fuel m -> trec_any fuel m acc (trec fuel m acc).
Proof.
  revert m acc. induction fuel as [|f IH]; intros m acc Hfit; [destruct Hfit|].
  cbn [trec_any trec]. exists (m_parsed m). split; [reflexivity|].
  cbn [fits] in Hfit. revert Hfit. generalize (store (m_file m) m acc) as a.
  induction (m_parsed m) as [|e l IHl]; intros a Hfit; cbn [chain fold_left]; [reflexivity|].
  exists (trec f (snd e) a). split.
  - apply IH. apply Hfit. now left.
  - apply IHl. intros e' He'. apply Hfit. now right.
Qed.

Lemma sub_dec fuel m k :
  (exists y, sub fuel m y /\ m_file y = k) \/ (forall y, sub fuel m y -> m_file y <> k).
Proof.
  revert m. induction fuel as [|f IH]; intros m; [right; intros y []|].
  cbn [sub].
  destruct (str_eqb (m_file m) k) eqn:E.
  - apply str_eqb_eq in E. left. exists m. auto.
  - apply str_eqb_neq in E.
    assert (Hl : (exists e, In e (m_parsed m) /\ exists y, sub f (snd e) y /\ m_file y = k) \/
                 (forall e, In e (m_parsed m) -> forall y, sub f (snd e) y -> m_file y <> k)).
    { induction (m_parsed m) as [|e l IHl]; [right; intros e []|].
      destruct (IH (snd e)) as [(y & Hy & Hk) | Hno].
      - left. exists e. split; [now left|eauto].
      - destruct IHl as [(e' & He' & Hy) | Hno'].
        + left. exists e'. split; [now right|exact Hy].
        + right. intros e' [E' | He']; [subst e'; exact Hno|exact (Hno' e' He')]. }
    destruct Hl as [(e & He & y & Hy & Hk) | Hno].
    + left. exists y. split; [right; eauto|exact Hk].
    + right. intros y [-> | (e & He & Hy)]; [exact E|eauto].
Qed.

Section RecInsert.
  Variable k : str.

  Lemma trec_any_miss fuel : forall m acc out,
    trec_any fuel m acc out -> (forall y, sub fuel m y -> m_file y <> k) -> lookup k out = lookup k acc.
  Proof.
    induction fuel as [|f IH]; intros m acc out Hrun Hno; [destruct Hrun|].
    cbn [trec_any] in Hrun. destruct Hrun as (order & Hperm & Hch).
    assert (Hroot : m_file m <> k) by (apply Hno; cbn [sub]; now left).
    assert (Hkids : forall e, In e order -> forall y, sub f (snd e) y -> m_file y <> k).
    { intros e He y Hy. apply Hno. cbn [sub]. right. exists e. split; [|exact Hy].
      eapply Permutation_in; [symmetry; exact Hperm|exact He]. }
    transitivity (lookup k (store (m_file m) m acc)); [|apply lookup_store_neq; congruence].
    clear Hperm Hno. revert Hch Hkids. generalize (store (m_file m) m acc) as a.
    induction order as [|e l IHl]; intros a Hch Hkids; cbn [chain] in Hch; [now subst|].
    destruct Hch as (a1 & Hr & Hch).
    rewrite (IHl a1 Hch); [|intros e' He'; apply Hkids; now right].
    eapply IH; [exact Hr|]. apply Hkids. now left.
  Qed.

  Variable v : module.

  Lemma trec_any_hit fuel : forall m acc out,
    trec_any fuel m acc out ->
    (forall y, sub fuel m y -> m_file y = k -> y = v) ->
    (exists y, sub fuel m y /\ m_file y = k) \/ lookup k acc = Some v ->
    lookup k out = Some v.
  Proof.
    induction fuel as [|f IH]; intros m acc out Hrun Hfun Hsrc; [destruct Hrun|].
    cbn [trec_any] in Hrun. destruct Hrun as (order & Hperm & Hch).
    assert (Hkids : forall e, In e order -> forall y, sub f (snd e) y -> m_file y = k -> y = v).
    { intros e He y Hy. apply Hfun. cbn [sub]. right. exists e. split; [|exact Hy].
      eapply Permutation_in; [symmetry; exact Hperm|exact He]. }
    (* after the store at the root: either a child still holds a witness, or the map has it *)
    assert (Hsrc1 : (exists e, In e order /\ exists y, sub f (snd e) y /\ m_file y = k) \/
                    lookup k (store (m_file m) m acc) = Some v).
    { destruct Hsrc as [(y & Hy & Hk) | Hacc].
      - cbn [sub] in Hy. destruct Hy as [-> | (e & He & Hy)].
        + right. rewrite <- Hk. rewrite lookup_store_eq. f_equal. apply Hfun; [cbn [sub]; now left|exact Hk].
        + left. exists e. split; [eapply Permutation_in; [exact Hperm|exact He]|eauto].
      - right. destruct (str_eqb (m_file m) k) eqn:E.
        + apply str_eqb_eq in E. rewrite <- E, lookup_store_eq. f_equal. apply Hfun; [cbn [sub]; now left|exact E].
        + apply str_eqb_neq in E. rewrite lookup_store_neq; [exact Hacc|congruence]. }
    clear Hperm Hfun Hsrc. revert Hch Hkids Hsrc1. generalize (store (m_file m) m acc) as a.
    induction order as [|e l IHl]; intros a Hch Hkids Hsrc; cbn [chain] in Hch.
    - subst. destruct Hsrc as [(e & [] & _) | H]. exact H.
    - destruct Hch as (a1 & Hr & Hch).
      apply (IHl a1 Hch); [intros e' He'; apply Hkids; now right|].
      destruct Hsrc as [(e0 & [<- | He0] & y & Hy & Hk) | Ha].
      + right. eapply IH; [exact Hr|apply Hkids; now left|]. left. eauto.
      + left. exists e0. split; [exact He0|eauto].
      + right. eapply IH; [exact Hr|apply Hkids; now left|]. now right.
  Qed.
End RecInsert.

(** distinct parsed files are distinct modules (parser.go caches by file path) *)
Definition file_functional (fuel : nat) (m : module) : Prop :=
  forall x y, sub fuel m x -> sub fuel m y -> m_file x = m_file y -> x = y.

Theorem rec_insert_order_free fuel m acc out1 out2 :
  file_functional fuel m ->
  trec_any fuel m acc out1 -> trec_any fuel m acc out2 -> map_equiv out1 out2.
Proof.
  intros Hfun H1 H2 k.
  destruct (sub_dec fuel m k) as [(y & Hy & Hk) | Hno].
  - assert (Hf : forall y', sub fuel m y' -> m_file y' = k -> y' = y).
    { intros y' Hy' Hk'. apply Hfun; auto. congruence. }
    rewrite (trec_any_hit k y fuel m acc out1 H1 Hf), (trec_any_hit k y fuel m acc out2 H2 Hf); eauto.
  - rewrite (trec_any_miss k fuel m acc out1 H1 Hno), (trec_any_miss k fuel m acc out2 H2 Hno). reflexivity.
Qed.

(* ------------------------------------------------------------------------------------------ *)
(** * Global state: every Compile starts from the same globals, whatever ran before *)

Lemma run_compiles_init hist : run_compiles hist globals_init = globals_init.
Proof.
  unfold run_compiles. induction hist as [|og hist IH]; cbn [fold_left]; [reflexivity|].
  cbn [compile_globals snd globals_reset_fn]. exact IH.
Qed.

Theorem compile_sees_fresh_globals hist o generated :
  fst (compile_globals o generated (run_compiles hist globals_init)) = globals_set o globals_init.
Proof. now rewrite run_compiles_init. Qed.

(** json collectFrugals: like the generation plan, independent of the layout of ParsedIncludes *)
Theorem collect_frugals_view_free fuel m m' used acc :
  same_view fuel m m' -> collect_frugals fuel m used acc = collect_frugals fuel m' used acc.
Proof.
  revert m m' used acc. induction fuel as [|f IH]; intros m m' used acc Hv.
  - destruct Hv as (Hf & Hn & _ & _). cbn [collect_frugals]. now rewrite Hf, Hn.
  - destruct Hv as (Hf & Hn & Hi & Hl). cbn [collect_frugals]. rewrite Hf, Hn.
    destruct (existsb (str_eqb (m_name m')) used); [reflexivity|].
    unfold ordered_includes. rewrite Hi.
    generalize (sort_by include_less (m_includes m')) as incs.
    generalize (m_name m' :: used, acc ++ [m_file m']) as st.
    intros st incs; revert st. induction incs as [|inc incs IHi]; intros st; cbn [fold_left]; [reflexivity|].
    rewrite <- IHi. f_equal.
    specialize (Hl (fst inc)).
    destruct (lookup (fst inc) (m_parsed m)) as [c|], (lookup (fst inc) (m_parsed m')) as [c'|];
      try contradiction; auto.
Qed.

(* ------------------------------------------------------------------------------------------ *)
(** * The HTML index end to end: transitiveIncludesRec with any iteration orders, then a range
      over the resulting map in any order, then sort.Sort(Modules) *)

(** the entries of the Go map that a [store] history represents *)
Lemma dedup_keys_in {V} (m : gomap V) k v : In (k, v) (dedup_keys m) <-> lookup k m = Some v.
Proof.
  induction m as [|[k0 v0] m IH]; cbn [dedup_keys lookup].
  - split; [intros []|discriminate].
  - destruct (str_eqb k k0) eqn:E.
    + apply str_eqb_eq in E. subst k0. split.
      * intros [H | H]; [congruence|].
        apply filter_In in H as [_ H]. cbn [fst] in H. rewrite str_eqb_refl in H. discriminate.
      * intros H. left. congruence.
    + split.
      * intros [H | H]; [injection H as -> ->; rewrite str_eqb_refl in E; discriminate|].
        apply filter_In in H as [H _]. now apply IH.
      * intros H. right. apply filter_In. split; [now apply IH|]. cbn [fst]. now rewrite E.
Qed.

Lemma nodup_map_filter {A B} (f : A -> B) (p : A -> bool) (l : list A) :
  NoDup (map f l) -> NoDup (map f (filter p l)).
Proof.
  induction l as [|x l IH]; cbn [map filter]; intros H; [constructor|].
  inversion H as [|? ? Hnotin Hnd]; subst.
  destruct (p x); cbn [map]; [|now apply IH].
  constructor; [|now apply IH].
  intros Hin. apply Hnotin. apply in_map_iff in Hin as (y & Ey & Hy).
  apply filter_In in Hy as [Hy _]. apply in_map_iff. eauto.
Qed.

Lemma dedup_keys_nodup {V} (m : gomap V) : NoDup (map fst (dedup_keys m)).
Proof.
  induction m as [|[k0 v0] m IH]; cbn [dedup_keys map fst]; constructor.
  - intros Hin. apply in_map_iff in Hin as ([k v] & Ek & Hin). cbn [fst] in Ek. subst k.
    apply filter_In in Hin as [_ H]. cbn [fst] in H. rewrite str_eqb_refl in H. discriminate.
  - now apply nodup_map_filter.
Qed.

Lemma dedup_keys_equiv_perm {V} (m1 m2 : gomap V) :
  map_equiv m1 m2 -> Permutation (dedup_keys m1) (dedup_keys m2).
Proof.
  intros He. apply NoDup_Permutation.
  - eapply NoDup_map_inv. apply dedup_keys_nodup.
  - eapply NoDup_map_inv. apply dedup_keys_nodup.
  - intros [k v]. rewrite !dedup_keys_in, (He k). reflexivity.
Qed.

(** everything transitiveIncludesRec stores is keyed by the module's own file *)
Lemma trec_any_keyed fuel m out :
  trec_any fuel m [] out -> keyed_by_file (dedup_keys out).
Proof.
  intros Hrun [k v] Hin. cbn [fst snd]. apply dedup_keys_in in Hin.
  destruct (sub_dec fuel m k) as [(y & Hy & Hk) | Hno].
  - (* some module below m has file k: the map holds one of them, which has that file *)
    assert (Hv : exists y', sub fuel m y' /\ m_file y' = k /\ v = y').
    { clear y Hy Hk.
      (* generalise over the accumulator: every value bound to k is a module of the subtree with file k,
         or was already in the accumulator *)
      assert (G : forall fuel m acc out, trec_any fuel m acc out -> forall v, lookup k out = Some v ->
                  (exists y', sub fuel m y' /\ m_file y' = k /\ v = y') \/ lookup k acc = Some v).
      { clear. induction fuel as [|f IH]; intros m acc out Hrun v Hl; [destruct Hrun|].
        cbn [trec_any] in Hrun. destruct Hrun as (order & Hperm & Hch).
        assert (Hc : forall l a out, chain (trec_any f) l a out -> (forall e, In e l -> In e order) ->
                      lookup k out = Some v ->
                      (exists e y', In e order /\ sub f (snd e) y' /\ m_file y' = k /\ v = y') \/ lookup k a = Some v).
        { induction l as [|e l IHl]; intros a out' Hch' Hsub Hl'; cbn [chain] in Hch'.
          - subst. now right.
          - destruct Hch' as (a1 & Hr & Hch').
            destruct (IHl a1 out' Hch' (fun e' He' => Hsub e' (or_intror He')) Hl') as [H | H]; [now left|].
            destruct (IH (snd e) a a1 Hr v H) as [(y' & Hy' & Hk' & Ev) | H2]; [|now right].
            left. exists e, y'. repeat split; auto. apply Hsub. now left. }
        destruct (Hc order _ out Hch (fun e He => He) Hl) as [(e & y' & He & Hy' & Hk' & Ev) | H].
        - left. exists y'. repeat split; auto. cbn [sub]. right. exists e. split; [|exact Hy'].
          eapply Permutation_in; [symmetry; exact Hperm|exact He].
        - destruct (str_eqb k (m_file m)) eqn:E.
          + apply str_eqb_eq in E. subst k. rewrite lookup_store_eq in H. injection H as <-.
            left. exists m. repeat split; auto. cbn [sub]. now left.
          + apply str_eqb_neq in E. rewrite lookup_store_neq in H by exact E. now right. }
      destruct (G fuel m [] out Hrun v Hin) as [H | H]; [exact H|discriminate]. }
    destruct Hv as (y' & _ & Hk' & ->). now symmetry.
  - rewrite (trec_any_miss k fuel m [] out Hrun Hno) in Hin. discriminate.
Qed.

Theorem html_index_order_free fuel m out1 out2 iter1 iter2 :
  file_functional fuel m ->
  trec_any fuel m [] out1 -> trec_any fuel m [] out2 ->
  Permutation (dedup_keys out1) iter1 -> Permutation (dedup_keys out2) iter2 ->
  transitive_includes_from iter1 = transitive_includes_from iter2.
Proof.
  intros Hfun H1 H2 P1 P2.
  pose proof (rec_insert_order_free fuel m [] out1 out2 Hfun H1 H2) as He.
  pose proof (dedup_keys_equiv_perm out1 out2 He) as Pd.
  apply html_modules_order_free.
  - intros e He1. apply (trec_any_keyed fuel m out1 H1). eapply Permutation_in; [symmetry; exact P1|exact He1].
  - eapply Permutation_NoDup; [apply Permutation_map; exact P1|apply dedup_keys_nodup].
  - rewrite <- P1, <- P2. exact Pd.
Qed.

(** the executable [transitive_includes] is one of these executions *)
Corollary html_index_is_transitive_includes fuel m out iter :
  file_functional fuel m -> fits fuel m ->
  trec_any fuel m [] out -> Permutation (dedup_keys out) iter ->
  transitive_includes_from iter = transitive_includes fuel m.
Proof.
  intros Hfun Hfit Hrun Hp. unfold transitive_includes.
  exact (html_index_order_free fuel m out (trec fuel m []) iter (dedup_keys (trec fuel m [])) Hfun Hrun
           (trec_is_an_execution fuel m [] Hfit) Hp (Permutation_refl _)).
Qed.
