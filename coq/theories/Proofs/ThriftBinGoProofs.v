(** Round trip of the emitted struct code: from_wire (to_wire v) = v, and with the codec round
    trip: gread (gwrite v ++ rest) = (v, rest). *)
From Coq Require Import ZArith List Bool Lia.
From FV Require Import Base.Res Base.Bytes Model.ThriftBin Proofs.BytesProofs Proofs.ThriftBinProofs.
Import ListNotations.
Open Scope Z_scope.

(** the nested loops of to_wire / from_wire over containers as stand-alone functions *)
Fixpoint tw_seq (e : env) (et : ty) (l : list val) : res (list val) :=
  match l with [] => Ok [] | x :: r => do a <- to_wire e et x; do b <- tw_seq e et r; Ok (a :: b) end.
Fixpoint tw_pairs (e : env) (kt vt : ty) (l : list (val * val)) : res (list (val * val)) :=
  match l with
  | [] => Ok []
  | (k, x) :: r => do a <- to_wire e kt k; do b <- to_wire e vt x; do c <- tw_pairs e kt vt r; Ok ((a, b) :: c)
  end.
Fixpoint fw_seq (e : env) (et : ty) (l : list val) : res (list val) :=
  match l with [] => Ok [] | x :: r => do a <- from_wire e et x; do b <- fw_seq e et r; Ok (a :: b) end.
Fixpoint fw_pairs (e : env) (kt vt : ty) (l : list (val * val)) : res (list (val * val)) :=
  match l with
  | [] => Ok []
  | (k, x) :: r => do a <- from_wire e kt k; do b <- from_wire e vt x; do c <- fw_pairs e kt vt r; Ok ((a, b) :: c)
  end.

Lemma to_wire_list_eq e t l :
  to_wire e t (VList l) =
  match shape_of e t with SList et => do l' <- tw_seq e et l; Ok (VList l') | _ => Err EOther end.
Proof.
  cbn [to_wire]. cbv zeta. destruct (shape_of e t); try reflexivity. f_equal.
  induction l as [|x r IH]; [reflexivity|]. cbn [tw_seq]. rewrite <- IH. reflexivity.
Qed.
Lemma to_wire_set_eq e t l :
  to_wire e t (VSet l) =
  match shape_of e t with SSet et => do l' <- tw_seq e et l; Ok (VSet l') | _ => Err EOther end.
Proof.
  cbn [to_wire]. cbv zeta. destruct (shape_of e t); try reflexivity. f_equal.
  induction l as [|x r IH]; [reflexivity|]. cbn [tw_seq]. rewrite <- IH. reflexivity.
Qed.
Lemma to_wire_map_eq e t l :
  to_wire e t (VMap l) =
  match shape_of e t with SMap kt vt => do l' <- tw_pairs e kt vt l; Ok (VMap l') | _ => Err EOther end.
Proof.
  cbn [to_wire]. cbv zeta. destruct (shape_of e t); try reflexivity. f_equal.
  induction l as [|[a b] r IH]; [reflexivity|]. cbn [tw_pairs]. rewrite <- IH. reflexivity.
Qed.
Lemma from_wire_list_eq e t l :
  from_wire e t (VList l) = do l' <- fw_seq e (elem_ty (shape_of e t)) l; Ok (VList l').
Proof.
  cbn [from_wire]. cbv zeta. f_equal.
  induction l as [|x r IH]; [reflexivity|]. cbn [fw_seq]. rewrite <- IH. reflexivity.
Qed.
Lemma from_wire_set_eq e t l :
  from_wire e t (VSet l) = do l' <- fw_seq e (elem_ty (shape_of e t)) l; Ok (VSet l').
Proof.
  cbn [from_wire]. cbv zeta. f_equal.
  induction l as [|x r IH]; [reflexivity|]. cbn [fw_seq]. rewrite <- IH. reflexivity.
Qed.
Lemma from_wire_map_eq e t l :
  from_wire e t (VMap l) =
  do l' <- fw_pairs e (key_ty (shape_of e t)) (mval_ty (shape_of e t)) l; Ok (VMap l').
Proof.
  cbn [from_wire]. cbv zeta. f_equal.
  induction l as [|[a b] r IH]; [reflexivity|]. cbn [fw_pairs]. rewrite <- IH. reflexivity.
Qed.

(** * Go values of a declared type whose unwritten slots hold what New<T>() puts there *)
Inductive gwf (e : env) : ty -> val -> Prop :=
| gwf_bool t b : shape_of e t = SBool -> gwf e t (VBool b)
| gwf_int t n z : shape_of e t = SInt n -> int_ok n -> in_range n z -> gwf e t (VInt z)
| gwf_enum t z : shape_of e t = SEnum -> in_range 4 z -> gwf e t (VInt z)
| gwf_double t b : shape_of e t = SDouble -> 0 <= b < 2 ^ 64 -> gwf e t (VDouble b)
| gwf_bytes t b : shape_of e t = SString \/ shape_of e t = SBinary -> zlen b < 2147483648 ->
                  gwf e t (VBytes b)
| gwf_list t et l : shape_of e t = SList et -> zlen l < 2147483648 -> Forall (gwf e et) l ->
                    gwf e t (VList l)
| gwf_set t et l : shape_of e t = SSet et -> zlen l < 2147483648 -> Forall (gwf e et) l ->
                   gwf e t (VSet l)
| gwf_map t kt vt l : shape_of e t = SMap kt vt -> zlen l < 2147483648 ->
                      Forall (fun kv => gwf e kt (fst kv) /\ gwf e vt (snd kv)) l ->
                      gwf e t (VMap l)
| gwf_struct t k decls ovs :
    shape_of e t = SStruct k decls ->
    NoDup (map fid decls) -> Forall (fun f => in_range 2 (fid f)) decls ->
    (is_union k = true -> count_set e decls ovs = 1) ->
    Forall2 (fun f ov =>
               (written e f ov = true -> exists x, ov = Some x /\ gwf e (fty f) x) /\
               (written e f ov = false -> ov = new_slot e f)) decls ovs ->
    gwf e t (VStruct ovs).

Definition grt_ok (e : env) (v : val) : Prop :=
  forall t, gwf e t v -> exists w, to_wire e t v = Ok w /\ wwt e t w /\ from_wire e t w = Ok v.

Lemma seq_rt e et l :
  Forall (grt_ok e) l -> Forall (gwf e et) l ->
  exists l', tw_seq e et l = Ok l' /\ Forall (wwt e et) l' /\ fw_seq e et l' = Ok l /\ zlen l' = zlen l.
Proof.
  intros Hrt Hwf. induction l as [|x r IH].
  - exists []. repeat split; constructor.
  - inversion Hrt as [|? ? Hx Hr]; subst. inversion Hwf as [|? ? Wx Wr]; subst.
    destruct (Hx et Wx) as [w [Hw [Hww Hf]]].
    destruct (IH Hr Wr) as [l' [Hl' [Hall [Hfl Hlen]]]].
    exists (w :: l'). cbn [tw_seq fw_seq]. rewrite Hw, Hl', Hf, Hfl. cbn [bind].
    repeat split; [constructor; assumption|rewrite !zlen_cons; lia].
Qed.

Lemma pairs_rt e kt vt l :
  Forall (fun kv => grt_ok e (fst kv) /\ grt_ok e (snd kv)) l ->
  Forall (fun kv => gwf e kt (fst kv) /\ gwf e vt (snd kv)) l ->
  exists l', tw_pairs e kt vt l = Ok l' /\
             Forall (fun kv => wwt e kt (fst kv) /\ wwt e vt (snd kv)) l' /\
             fw_pairs e kt vt l' = Ok l /\ zlen l' = zlen l.
Proof.
  intros Hrt Hwf. induction l as [|[a b] r IH].
  - exists []. repeat split; constructor.
  - inversion Hrt as [|? ? [Ha Hb] Hr]; subst. inversion Hwf as [|? ? [Wa Wb] Wr]; subst.
    cbn [fst snd] in *.
    destruct (Ha kt Wa) as [wa [Hwa [Hwwa Hfa]]].
    destruct (Hb vt Wb) as [wb [Hwb [Hwwb Hfb]]].
    destruct (IH Hr Wr) as [l' [Hl' [Hall [Hfl Hlen]]]].
    exists ((wa, wb) :: l'). cbn [tw_pairs fw_pairs]. rewrite Hwa, Hwb, Hl', Hfa, Hfb, Hfl. cbn [bind].
    repeat split; [constructor; [split; assumption|assumption]|rewrite !zlen_cons; lia].
Qed.

(** slots *)
Lemma find_field_at pre f post :
  NoDup (map fid (pre ++ f :: post)) -> find_field (pre ++ f :: post) (fid f) = Some f.
Proof.
  unfold find_field. induction pre as [|g pre IH]; intros Hnd; cbn [app find].
  - rewrite Z.eqb_refl. reflexivity.
  - cbn [app map] in Hnd. inversion Hnd as [|? ? Hnin Hnd']; subst.
    destruct (fid g =? fid f) eqn:E.
    + apply Z.eqb_eq in E. exfalso. apply Hnin. rewrite E.
      rewrite map_app. apply in_or_app. right. left. reflexivity.
    + apply IH; assumption.
Qed.

Lemma store_at pre f post opre o orest nv :
  NoDup (map fid (pre ++ f :: post)) -> length pre = length opre ->
  store (pre ++ f :: post) (fid f) nv (opre ++ o :: orest) = opre ++ nv :: orest.
Proof.
  revert opre. induction pre as [|g pre IH]; intros [|o' opre] Hnd Hlen; cbn in Hlen; try discriminate.
  - cbn [app store]. rewrite Z.eqb_refl. reflexivity.
  - cbn [app map] in Hnd. inversion Hnd as [|? ? Hnin Hnd']; subst.
    cbn [app store].
    destruct (fid g =? fid f) eqn:E.
    + apply Z.eqb_eq in E. exfalso. apply Hnin. rewrite E.
      rewrite map_app. apply in_or_app. right. left. reflexivity.
    + f_equal. apply IH; [assumption|lia].
Qed.

Definition slot_ok (e : env) (f : field) (ov : option val) : Prop :=
  (written e f ov = true -> exists x, ov = Some x /\ gwf e (fty f) x) /\
  (written e f ov = false -> ov = new_slot e f).

Lemma fields_rt e decls :
  NoDup (map fid decls) -> Forall (fun f => in_range 2 (fid f)) decls ->
  forall post pre opre opost,
    decls = pre ++ post -> length pre = length opre ->
    Forall2 (slot_ok e) post opost ->
    Forall (fun o => match o with Some x => grt_ok e x | None => True end) opost ->
    exists l, tw_fields e post opost = Ok l /\ Forall (wwt_entry e decls) l /\
              map fst l = written_ids e post opost /\
              fw_fields e decls l (opre ++ new_struct e post) = Ok (opre ++ opost).
Proof.
  intros Hnd Hids. induction post as [|f post IH]; intros pre opre opost Hd Hlen Hsl Hrt.
  - inversion Hsl; subst. exists []. cbn. repeat split; constructor.
  - inversion Hsl as [|? ov ? opost' [Hw Hnw] Hsl']; subst.
    inversion Hrt as [|? ? Hov Hrt']; subst.
    assert (Hd' : pre ++ f :: post = (pre ++ [f]) ++ post) by (rewrite <- app_assoc; reflexivity).
    assert (Hlen' : length (pre ++ [f]) = length (opre ++ [ov])) by (rewrite !app_length; cbn; lia).
    destruct (IH (pre ++ [f]) (opre ++ [ov]) opost' Hd' Hlen' Hsl' Hrt') as [l' [Hl' [Hall [Hids' Hfw]]]].
    cbn [tw_fields written_ids new_struct map].
    destruct (written e f ov) eqn:Ew.
    + destruct (Hw eq_refl) as [x [-> Hx]].
      destruct (Hov _ Hx) as [w [Htw [Hww Hfr]]].
      assert (Hcond : is_optional f && negb (isset e f (Some x)) = false).
      { unfold written in Ew. destruct (is_optional f); destruct (isset e f (Some x)); cbn in *; congruence. }
      rewrite Hcond, Htw, Hl'. cbn [bind].
      exists ((fid f, w) :: l'). split; [reflexivity|].
      assert (Hin : In f (pre ++ f :: post)) by (apply in_or_app; right; left; reflexivity).
      split; [|split].
      * constructor; [|assumption]. unfold wwt_entry. cbn [fst snd]. split.
        -- rewrite Forall_forall in Hids. apply Hids. assumption.
        -- unfold ftyp_of. rewrite find_field_at by assumption. assumption.
      * cbn [map fst]. rewrite Hids'. reflexivity.
      * cbn [fw_fields]. rewrite find_field_at by assumption. rewrite Hfr. cbn [bind].
        rewrite store_at by assumption.
        unfold new_struct in *.
        replace (opre ++ Some x :: map (new_slot e) post) with ((opre ++ [Some x]) ++ map (new_slot e) post)
          by (rewrite <- app_assoc; reflexivity).
        rewrite Hfw. rewrite <- app_assoc. reflexivity.
    + assert (Hcond : is_optional f && negb (isset e f ov) = true).
      { unfold written in Ew. destruct (is_optional f); destruct (isset e f ov); cbn in *; congruence. }
      rewrite Hcond. exists l'. split; [assumption|]. split; [assumption|]. split; [assumption|].
      rewrite <- (Hnw eq_refl).
      replace (opre ++ ov :: map (new_slot e) post) with ((opre ++ [ov]) ++ map (new_slot e) post)
        by (rewrite <- app_assoc; reflexivity).
      unfold new_struct in Hfw. rewrite Hfw. rewrite <- app_assoc. reflexivity.
Qed.

Lemma required_written e fs ovs seen :
  Forall2 (slot_ok e) fs ovs ->
  (forall id, In id (written_ids e fs ovs) -> In id seen) ->
  required_seen fs seen = true.
Proof.
  intros H. induction H as [|f ov fs ovs [Hw _] _ IH]; intros Hsub; [reflexivity|].
  cbn [required_seen written_ids] in *.
  apply andb_true_intro. split.
  - destruct (fmod f) eqn:Em; try reflexivity.
    assert (Ew : written e f ov = true) by (unfold written, is_optional; rewrite Em; reflexivity).
    rewrite Ew in Hsub. apply existsb_exists. exists (fid f). split; [|apply Z.eqb_refl].
    apply Hsub. left. reflexivity.
  - apply IH. intros id Hin. apply Hsub. destruct (written e f ov); [right|]; assumption.
Qed.

Lemma go_rt e : forall v, grt_ok e v.
Proof.
  induction v using val_ind'; intros t Hwf;
    inversion Hwf as [ t0 b0 Hs | t0 n z0 Hs Hn Hr | t0 z0 Hs Hr | t0 b0 Hs Hr | t0 b0 Hs Hl
                     | t0 et l0 Hs Hl Hall | t0 et l0 Hs Hl Hall | t0 kt vt l0 Hs Hl Hall
                     | t0 k decls ovs Hs Hnd Hids Hun Hsl ]; subst.
  - exists (VBool b). cbn [to_wire from_wire wwt]. cbv zeta. rewrite Hs. cbn. repeat split; auto.
  - exists (VInt z). cbn [to_wire from_wire wwt]. cbv zeta. rewrite Hs. cbn. repeat split; auto; apply Hr.
  - exists (VInt z). cbn [to_wire from_wire wwt]. cbv zeta. rewrite Hs. cbn. repeat split; auto; apply Hr.
  - exists (VDouble b). cbn [to_wire from_wire wwt]. cbv zeta. rewrite Hs. cbn. repeat split; auto; lia.
  - exists (VBytes b). cbn [to_wire from_wire wwt]. cbv zeta.
    destruct Hs as [E|E]; rewrite E; cbn; repeat split; auto.
  - destruct (seq_rt e et l H Hall) as [l' [Htw [Hall' [Hfw Hlen]]]].
    exists (VList l'). rewrite to_wire_list_eq, Hs, Htw. cbn [bind]. split; [reflexivity|]. split.
    + apply wwt_list. exists et. repeat split; [assumption|lia|assumption].
    + rewrite from_wire_list_eq, Hs. cbn [elem_ty]. rewrite Hfw. reflexivity.
  - destruct (seq_rt e et l H Hall) as [l' [Htw [Hall' [Hfw Hlen]]]].
    exists (VSet l'). rewrite to_wire_set_eq, Hs, Htw. cbn [bind]. split; [reflexivity|]. split.
    + apply wwt_set. exists et. repeat split; [assumption|lia|assumption].
    + rewrite from_wire_set_eq, Hs. cbn [elem_ty]. rewrite Hfw. reflexivity.
  - destruct (pairs_rt e kt vt l H Hall) as [l' [Htw [Hall' [Hfw Hlen]]]].
    exists (VMap l'). rewrite to_wire_map_eq, Hs, Htw. cbn [bind]. split; [reflexivity|]. split.
    + apply wwt_map. exists kt, vt. repeat split; [assumption|lia|assumption].
    + rewrite from_wire_map_eq, Hs. cbn [key_ty mval_ty]. rewrite Hfw. reflexivity.
  - destruct (fields_rt e decls Hnd Hids decls [] [] l eq_refl eq_refl Hsl H) as [fl [Htw [Hall [Hfids Hfw]]]].
    cbn [app] in Hfw.
    exists (VRec fl). rewrite to_wire_struct_eq, Hs.
    assert (Hu : is_union k && negb (count_set e decls l =? 1) = false).
    { destruct (is_union k) eqn:Ek; [|reflexivity]. rewrite (Hun eq_refl). reflexivity. }
    rewrite Hu, Htw. cbn [bind]. split; [reflexivity|]. split.
    + apply wwt_rec. exists k, decls. split; assumption.
    + rewrite from_wire_rec_eq, Hs, Hfw. cbn [bind].
      rewrite (required_written e decls l (map fst fl) Hsl) by (intros id Hin; rewrite Hfids; exact Hin).
      cbn [negb]. rewrite Hu. reflexivity.
Qed.

Theorem go_struct_roundtrip e t v :
  gwf e t v -> exists w, to_wire e t v = Ok w /\ wwt e t w /\ from_wire e t w = Ok v.
Proof. apply go_rt. Qed.

(** the generated Read applied to what the generated Write produced returns the value and leaves
    the following bytes untouched *)
Theorem write_read_roundtrip e t v rest :
  gwf e t v ->
  exists b fuel0, gwrite e t v = Ok b /\
                  forall fuel, (fuel0 <= fuel)%nat -> gread fuel e t (b ++ rest) = Ok (v, rest).
Proof.
  intros H. destruct (go_rt e v t H) as [w [Htw [Hww Hfw]]].
  exists (wenc e t w), (wsize w). unfold gwrite, gread. rewrite Htw. cbn [bind]. split; [reflexivity|].
  intros fuel Hf. rewrite (codec_roundtrip e t w fuel rest Hww Hf). cbn [bind]. rewrite Hfw. reflexivity.
Qed.
