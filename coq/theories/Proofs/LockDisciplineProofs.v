(** C14 — the lock discipline holds of processor.go as it is now (data regenerated on every build) *)
From Coq Require Import List Bool.
From FV Require Import Gen.LockSites Model.LockDiscipline.
Import ListNotations.

Lemma processor_writes_guarded :
  sites_guarded processor_sites = true /\
  generated_other_oprot_uses = 0%nat /\
  (0 < count_writes processor_sites)%nat /\ (0 < generated_send_calls)%nat.
Proof. vm_compute. repeat split; repeat constructor. Qed.
