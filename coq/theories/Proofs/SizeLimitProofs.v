(** Lemmas about Model/SizeLimit.v (C12). *)
From Coq Require Import ZArith List Bool Lia.
From FV Require Import Model.SizeLimit.
Import ListNotations.
Open Scope Z_scope.

Ltac Zify.zify_post_hook ::= Z.div_mod_to_equations.

(** ** sizes *)
Lemma ops_size_cons : forall o r, ops_size (o :: r) = op_size o + ops_size r.
Proof. reflexivity. Qed.

Lemma ops_size_nonneg : forall l, ops_nonneg l -> 0 <= ops_size l.
Proof.
  induction l as [|o r IH]; intros Hn; [cbn; lia|].
  inversion Hn as [|? ? Ho Hr]; subst. specialize (IH Hr). unfold op_nonneg in Ho.
  rewrite ops_size_cons. lia.
Qed.

Lemma ops_size_app : forall a b, ops_size (a ++ b) = ops_size a + ops_size b.
Proof.
  induction a as [|o r IH]; intros b; [reflexivity|].
  rewrite <- app_comm_cons, !ops_size_cons, IH. lia.
Qed.

Lemma ops_nonneg_app : forall a b, ops_nonneg a -> ops_nonneg b -> ops_nonneg (a ++ b).
Proof. intros a b Ha Hb. apply Forall_app; split; assumption. Qed.

(** ** the buffer *)
Definition over (b : buf) (n : Z) : bool := (0 <? limit b) && (limit b <? len b + n).

Lemma exceeds_over : forall b n, exceeds b n = over b n.
Proof. intros b n. unfold exceeds, over. rewrite (Z.add_comm n). reflexivity. Qed.

Lemma over_true : forall b n, over b n = true <-> 0 < limit b /\ limit b < len b + n.
Proof. intros b n. unfold over. rewrite andb_true_iff, !Z.ltb_lt. tauto. Qed.

Lemma over_false : forall b n, over b n = false <-> (limit b <= 0 \/ len b + n <= limit b).
Proof.
  intros b n. unfold over. rewrite andb_false_iff, !Z.ltb_ge. tauto.
Qed.

(** The central fact: a sequence of writes is rejected iff the TOTAL exceeds the limit, and then
    the buffer is back in its initial state; otherwise everything is appended.  (The side
    condition excludes only the empty sequence on a buffer whose limit is below the 4-byte
    placeholder: no write, so nothing to reject.) *)
Lemma run_ops_spec : forall ops b, ops_nonneg ops -> (ops <> [] \/ over b 0 = false) ->
  run_ops b ops =
  if over b (ops_size ops) then (reset b, false)
  else (mkbuf (limit b) (len b + ops_size ops), true).
Proof.
  induction ops as [|o r IH]; intros b Hn Hside.
  - destruct Hside as [Hne|Hov]; [congruence|].
    cbn [run_ops ops_size fold_right]. rewrite Hov. destruct b as [l n]. cbn [limit len].
    f_equal. f_equal. lia.
  - inversion Hn as [|? ? Ho Hr]; subst. unfold op_nonneg in Ho.
    pose proof (ops_size_nonneg r Hr) as Hrs.
    cbn [run_ops]. unfold buf_op. rewrite exceeds_over, ops_size_cons.
    destruct (over b (op_size o)) eqn:Hx.
    + apply over_true in Hx.
      assert (Hy : over b (op_size o + ops_size r) = true) by (apply over_true; lia).
      rewrite Hy. reflexivity.
    + apply over_false in Hx.
      rewrite IH; [|assumption|right; apply over_false; cbn [limit len]; lia].
      cbn [limit len].
      destruct (over (mkbuf (limit b) (len b + op_size o)) (ops_size r)) eqn:Hz.
      * apply over_true in Hz. cbn [limit len] in Hz.
        assert (Hy : over b (op_size o + ops_size r) = true) by (apply over_true; lia).
        rewrite Hy. reflexivity.
      * apply over_false in Hz. cbn [limit len] in Hz.
        assert (Hy : over b (op_size o + ops_size r) = false) by (apply over_false; lia).
        rewrite Hy. f_equal. f_equal. lia.
Qed.

(** after a rejection the buffer is the initial buffer — whatever had been written before *)
Lemma run_ops_reject_resets : forall ops b,
  snd (run_ops b ops) = false -> fst (run_ops b ops) = new_buf (limit b).
Proof.
  induction ops as [|o r IH]; intros b H; cbn [run_ops] in *; [discriminate|].
  unfold buf_op in *. destruct (exceeds b (op_size o)); [reflexivity|].
  specialize (IH (mkbuf (limit b) (len b + op_size o)) H). exact IH.
Qed.

Lemma run_ops_limit : forall ops b, limit (fst (run_ops b ops)) = limit b.
Proof.
  induction ops as [|o r IH]; intros b; cbn [run_ops]; [reflexivity|].
  unfold buf_op. destruct (exceeds b (op_size o)); [reflexivity|].
  rewrite IH. reflexivity.
Qed.

(** ** buffer-level exactness from the initial state *)
Definition rejected (lim total : Z) : Prop := 0 < lim /\ lim < total.

Lemma buffer_exact : forall lim ops, ops_nonneg ops -> ops <> [] ->
  (snd (run_ops (new_buf lim) ops) = false <-> rejected lim (4 + ops_size ops))
  /\ (snd (run_ops (new_buf lim) ops) = true ->
      fst (run_ops (new_buf lim) ops) = mkbuf lim (4 + ops_size ops))
  /\ (snd (run_ops (new_buf lim) ops) = false -> fst (run_ops (new_buf lim) ops) = new_buf lim).
Proof.
  intros lim ops Hn Hne. rewrite (run_ops_spec ops (new_buf lim) Hn (or_introl Hne)).
  unfold rejected, new_buf. cbn [limit len].
  destruct (over (mkbuf lim 4) (ops_size ops)) eqn:Hx; cbn [fst snd].
  - apply over_true in Hx. cbn [limit len] in Hx.
    split; [split; [intros _; lia|reflexivity]|split; [discriminate|reflexivity]].
  - apply over_false in Hx. cbn [limit len] in Hx.
    split; [split; [discriminate|intros [? ?]; lia]|split; [reflexivity|discriminate]].
Qed.

Lemma buffer_unbounded : forall ops, ops_nonneg ops ->
  run_ops (new_buf 0) ops = (mkbuf 0 (4 + ops_size ops), true).
Proof.
  intros ops Hn. rewrite run_ops_spec; [|assumption|right; reflexivity]. reflexivity.
Qed.

(** the pinned code let strings through *)
Lemma pinned_bypass : forall lim n, 0 < lim -> lim < 4 + n ->
  run_ops_pinned (new_buf lim) [WS n] = (mkbuf lim (4 + n), true)
  /\ run_ops (new_buf lim) [WS n] = (new_buf lim, false).
Proof.
  intros lim n H0 H1. split; [reflexivity|].
  cbn [run_ops]. unfold buf_op, exceeds. cbn [new_buf limit len op_size].
  assert (E : (0 <? lim) && (lim <? n + 4) = true)
    by (apply andb_true_iff; split; apply Z.ltb_lt; lia).
  rewrite E. reflexivity.
Qed.

(** ** one buffer reused for many messages (Reset after each message that was taken out) *)
Lemma buffer_session_independent : forall msgs b, len b = 4 ->
  buffer_session b msgs = map (fresh_result (limit b)) msgs.
Proof.
  induction msgs as [|ops rest IH]; intros b Hb; [reflexivity|].
  cbn [buffer_session map]. unfold fresh_result at 1.
  assert (Eb : b = new_buf (limit b)) by (destruct b as [l n]; cbn in *; subst; reflexivity).
  rewrite <- Eb. destruct (run_ops b ops) as [b' ok] eqn:E.
  f_equal. rewrite IH by reflexivity. cbn [reset limit].
  pose proof (run_ops_limit ops b) as Hl. rewrite E in Hl. cbn [fst] in Hl. rewrite Hl. reflexivity.
Qed.

(** ** the client: prepareMessage *)
Lemma prepare_as_run : forall lim m,
  prepare lim m =
  let '(b, ok) := run_ops (new_buf lim) (W (hdr m) :: body m) in
  if ok then Some (frame_len b) else None.
Proof.
  intros lim m. unfold prepare. cbn [run_ops].
  destruct (buf_op (new_buf lim) (W (hdr m))) as [b1 ok1]. destruct ok1; reflexivity.
Qed.

Lemma msg_ops_nonneg : forall m, 0 <= hdr m -> ops_nonneg (body m) -> ops_nonneg (W (hdr m) :: body m).
Proof. intros m Hh Hb. constructor; [exact Hh|exact Hb]. Qed.

Lemma prepare_spec : forall lim m, 0 <= hdr m -> ops_nonneg (body m) ->
  prepare lim m = if (0 <? lim) && (lim <? framed_size m) then None else Some (framed_size m).
Proof.
  intros lim m Hh Hb. rewrite prepare_as_run.
  rewrite run_ops_spec; [|apply msg_ops_nonneg; assumption|left; discriminate].
  unfold over, framed_size. cbn [new_buf limit len]. rewrite ops_size_cons. cbn [op_size].
  replace (4 + (hdr m + ops_size (body m))) with (4 + hdr m + ops_size (body m)) by lia.
  destruct ((0 <? lim) && (lim <? 4 + hdr m + ops_size (body m))); reflexivity.
Qed.

Lemma prepare_exact : forall lim m, 0 <= hdr m -> ops_nonneg (body m) ->
  (prepare lim m = None <-> rejected lim (framed_size m))
  /\ (forall n, prepare lim m = Some n -> n = framed_size m /\ ~ rejected lim (framed_size m)).
Proof.
  intros lim m Hh Hb. rewrite prepare_spec by assumption. unfold rejected.
  destruct ((0 <? lim) && (lim <? framed_size m)) eqn:E.
  - apply andb_true_iff in E. rewrite !Z.ltb_lt in E. split; [tauto|]. intros n H; discriminate.
  - apply andb_false_iff in E. rewrite !Z.ltb_ge in E. split.
    + split; [discriminate|]. intros [? ?]. lia.
    + intros n H. inversion H. split; [reflexivity|]. intros [? ?]. lia.
Qed.

(** the transports' own checks can no longer fire: the client's buffer has the same limit *)
Lemma transport_check_redundant : forall t m n, 0 <= hdr m -> ops_nonneg (body m) ->
  prepare (request_limit t) m = Some n -> transport_check t n = true.
Proof.
  intros t m n Hh Hb H. apply (proj2 (prepare_exact _ _ Hh Hb)) in H. destruct H as [-> Hnr].
  unfold rejected in Hnr. destruct t as [|rl rs]; cbn [transport_check request_limit] in *.
  - apply negb_true_iff, Z.ltb_ge. unfold nats_max in *. lia.
  - apply negb_true_iff, andb_false_iff. rewrite !Z.ltb_ge. lia.
Qed.

Lemma publisher_check_redundant : forall p m n, 0 <= hdr m -> ops_nonneg (body m) ->
  prepare (publish_limit p) m = Some n -> publisher_check p n = true.
Proof.
  intros p m n Hh Hb H. apply (proj2 (prepare_exact _ _ Hh Hb)) in H. destruct H as [-> Hnr].
  unfold rejected in Hnr. destruct p as [|mps]; cbn [publisher_check publish_limit] in *.
  - apply negb_true_iff, Z.ltb_ge. unfold nats_max in *. lia.
  - apply negb_true_iff, andb_false_iff. rewrite !Z.ltb_ge.
    destruct (mps <? 0) eqn:E; [apply Z.ltb_lt in E; lia|apply Z.ltb_ge in E; lia].
Qed.

Lemma framed_size_ge9 : forall m, msg_ok m -> 9 <= framed_size m.
Proof.
  intros m [Hh Hb]. pose proof (ops_size_nonneg _ Hb). unfold framed_size. lia.
Qed.

Lemma process_reply_not_req : forall k, process_reply k <> ReqTooLarge.
Proof. intros k. destruct k; cbn; discriminate. Qed.

(** ** request side of a call *)
Lemma call_request_exact : forall t m r, msg_ok m ->
  (out (call t m r) = ReqTooLarge <-> rejected (request_limit t) (framed_size m))
  /\ (sent (call t m r) = None <-> rejected (request_limit t) (framed_size m))
  /\ (~ rejected (request_limit t) (framed_size m) -> sent (call t m r) = Some (framed_size m)).
Proof.
  intros t m r Hm. pose proof (framed_size_ge9 m Hm) as H9. destruct Hm as [Hh Hb].
  assert (Hh0 : 0 <= hdr m) by lia.
  pose proof (prepare_exact (request_limit t) m Hh0 Hb) as [Hnone Hsome].
  unfold call. destruct (prepare (request_limit t) m) as [n|] eqn:Ep.
  - destruct (Hsome n eq_refl) as [-> Hnr].
    rewrite (transport_check_redundant t m _ Hh0 Hb Ep). cbn [negb].
    assert (E4 : framed_size m =? 4 = false) by (apply Z.eqb_neq; lia). rewrite E4.
    destruct t as [|rl rs].
    + destruct (server_bounded nats_max r) as [[k z]|]; cbn [out sent];
        (split; [split; [intros H; try discriminate; exfalso; eapply process_reply_not_req; eauto|tauto]|
                 split; [split; [discriminate|tauto]|reflexivity]]).
    + destruct ((0 <? rs) && (rs <? rhdr r + ops_size (rbody r))); cbn [out sent];
        (split; [split; [discriminate|tauto]|split; [split; [discriminate|tauto]|reflexivity]]).
  - cbn [out sent]. pose proof (proj1 Hnone eq_refl) as Hr.
    split; [tauto|]. split; [tauto|]. intros; tauto.
Qed.

Lemma oneway_request_exact : forall t m r, msg_ok m ->
  (out (oneway t m r) = ReqTooLarge <-> rejected (request_limit t) (framed_size m))
  /\ (sent (oneway t m r) = None <-> rejected (request_limit t) (framed_size m))
  /\ (~ rejected (request_limit t) (framed_size m) -> sent (oneway t m r) = Some (framed_size m)).
Proof.
  intros t m r Hm. pose proof (call_request_exact t m r Hm) as Hcall.
  pose proof (framed_size_ge9 m Hm) as H9. destruct Hm as [Hh Hb].
  assert (Hh0 : 0 <= hdr m) by lia.
  pose proof (prepare_exact (request_limit t) m Hh0 Hb) as [Hnone Hsome].
  unfold oneway. destruct (prepare (request_limit t) m) as [n|] eqn:Ep.
  - destruct (Hsome n eq_refl) as [-> Hnr].
    rewrite (transport_check_redundant t m _ Hh0 Hb Ep). cbn [negb].
    assert (E4 : framed_size m =? 4 = false) by (apply Z.eqb_neq; lia). rewrite E4.
    destruct t as [|rl rs]; [|exact Hcall].
    cbn [out sent].
    split; [split; [discriminate|tauto]|split; [split; [discriminate|tauto]|reflexivity]].
  - cbn [out sent]. pose proof (proj1 Hnone eq_refl) as Hr.
    split; [tauto|]. split; [tauto|]. intros; tauto.
Qed.

(** ** publishers *)
Lemma publish_exact : forall p m, msg_ok m ->
  (fst (publish p m) = ReqTooLarge <-> rejected (publish_limit p) (framed_size m))
  /\ (snd (publish p m) = None <-> rejected (publish_limit p) (framed_size m))
  /\ (~ rejected (publish_limit p) (framed_size m) -> publish p m = (OkReply, Some (framed_size m))).
Proof.
  intros p m [Hh Hb]. assert (Hh0 : 0 <= hdr m) by lia.
  pose proof (prepare_exact (publish_limit p) m Hh0 Hb) as [Hnone Hsome].
  unfold publish. destruct (prepare (publish_limit p) m) as [n|] eqn:Ep.
  - destruct (Hsome n eq_refl) as [-> Hnr].
    rewrite (publisher_check_redundant p m _ Hh0 Hb Ep). cbn [negb fst snd].
    split; [split; [discriminate|tauto]|]. split; [split; [discriminate|tauto]|reflexivity].
  - cbn [fst snd]. pose proof (proj1 Hnone eq_refl). split; [tauto|]. split; [tauto|]. tauto.
Qed.

(** STOMP: a non-positive maxPublishSize means "no limit" on both sides *)
Lemma stomp_unlimited : forall mps m, mps <= 0 -> -9223372036854775808 <= mps -> msg_ok m ->
  framed_size m < 9223372036854775808 ->
  publish (PStomp mps) m = (OkReply, Some (framed_size m)).
Proof.
  intros mps m H0 Hlow Hm Hsz. apply (proj2 (proj2 (publish_exact (PStomp mps) m Hm))).
  unfold rejected. cbn [publish_limit]. destruct (mps <? 0) eqn:E.
  - apply Z.ltb_lt in E. lia.
  - apply Z.ltb_ge in E. lia.
Qed.

(** ** the server's bounded reply path *)
Lemma err_ops_nonneg : forall h l, 0 <= h -> ops_nonneg l -> ops_nonneg (W h :: l).
Proof. intros h l Hh Hl. constructor; [exact Hh|exact Hl]. Qed.

Lemma send_error_fit : forall lim r, reply_ok r -> ~ rejected lim (err_size lim r) ->
  send_error (new_buf lim) r = (mkbuf lim (err_size lim r), true).
Proof.
  intros lim r (Hrh & Hmh & Hrb & Heb) Hfit. unfold rejected, err_size in Hfit.
  pose proof (ops_size_nonneg _ Heb) as Hes.
  assert (Hne : forall h, W h :: ebody r <> []) by (intros; discriminate).
  unfold send_error, err_size.
  rewrite run_ops_spec; [|apply err_ops_nonneg; [lia|assumption]|left; apply Hne].
  rewrite ops_size_cons. cbn [op_size]. unfold over. cbn [new_buf limit len].
  replace (4 + (rhdr r + ops_size (ebody r))) with (4 + rhdr r + ops_size (ebody r)) by lia.
  destruct ((0 <? lim) && (lim <? 4 + rhdr r + ops_size (ebody r))) eqn:E.
  - (* the full error reply is rejected: the buffer is empty again; second attempt *)
    change (reset (new_buf lim)) with (new_buf lim).
    rewrite run_ops_spec; [|apply err_ops_nonneg; [lia|assumption]|left; apply Hne].
    rewrite ops_size_cons. cbn [op_size]. unfold over. cbn [new_buf limit len].
    assert (E2 : (0 <? lim) && (lim <? 4 + (mhdr r + ops_size (ebody r))) = false).
    { apply andb_false_iff. rewrite !Z.ltb_ge. lia. }
    rewrite E2. f_equal. f_equal. lia.
  - reflexivity.
Qed.

Lemma server_bounded_spec : forall lim r, reply_ok r ->
  (~ rejected lim (reply_size r) -> server_bounded lim r = Some (FReply, reply_size r))
  /\ (rejected lim (reply_size r) -> ~ rejected lim (err_size lim r) ->
      server_bounded lim r = Some (FTooLarge, err_size lim r)).
Proof.
  intros lim r Hok. pose proof Hok as (Hrh & Hmh & Hrb & Heb).
  assert (Hn : ops_nonneg (W (rhdr r) :: rbody r)) by (apply err_ops_nonneg; [lia|assumption]).
  assert (Hne : W (rhdr r) :: rbody r <> []) by discriminate.
  pose proof (run_ops_spec _ (new_buf lim) Hn (or_introl Hne)) as Hspec.
  rewrite ops_size_cons in Hspec. cbn [op_size] in Hspec.
  unfold server_bounded. rewrite Hspec. unfold reply_size, rejected.
  split.
  - intros Hnr.
    assert (E : over (new_buf lim) (rhdr r + ops_size (rbody r)) = false)
      by (apply over_false; cbn [new_buf limit len]; lia).
    rewrite E. cbn [frame_len len new_buf limit]. f_equal. f_equal. lia.
  - intros Hrej Hfit.
    assert (E : over (new_buf lim) (rhdr r + ops_size (rbody r)) = true)
      by (apply over_true; cbn [new_buf limit len]; lia).
    rewrite E. change (reset (new_buf lim)) with (new_buf lim).
    rewrite (send_error_fit lim r Hok Hfit).
    unfold has_write_data, frame_len. cbn [len andb].
    pose proof (ops_size_nonneg _ Heb) as Hes.
    assert (E4 : 4 <? err_size lim r = true).
    { apply Z.ltb_lt. unfold err_size.
      destruct ((0 <? lim) && (lim <? 4 + rhdr r + ops_size (ebody r))); lia. }
    rewrite E4. reflexivity.
Qed.

(** ** response side of a call *)
Definition response_exceeds (t : transport) (r : reply) : Prop :=
  match t with
  | TNats => nats_max < reply_size r
  | THttp _ resp => 0 < resp /\ resp < rhdr r + ops_size (rbody r)
  end.

(** the error reply itself fits the server's buffer (only the NATS server has one) *)
Definition error_reply_fits (t : transport) (r : reply) : Prop :=
  match t with
  | TNats => err_size nats_max r <= nats_max
  | THttp _ _ => True
  end.

Lemma process_reply_too_large : process_reply FTooLarge = RespTooLarge.
Proof. reflexivity. Qed.

Lemma call_response : forall t m r, msg_ok m -> reply_ok r ->
  ~ rejected (request_limit t) (framed_size m) ->
  (response_exceeds t r -> error_reply_fits t r ->
     out (call t m r) = RespTooLarge /\ sent (call t m r) = Some (framed_size m))
  /\ (~ response_exceeds t r ->
     out (call t m r) = OkReply /\ sent (call t m r) = Some (framed_size m)
     /\ back (call t m r) = Some (reply_size r)).
Proof.
  intros t m r Hm Hr Hnr. pose proof (framed_size_ge9 m Hm) as H9. destruct Hm as [Hh Hb].
  assert (Hh0 : 0 <= hdr m) by lia.
  pose proof (prepare_spec (request_limit t) m Hh0 Hb) as Hp.
  assert (E : (0 <? request_limit t) && (request_limit t <? framed_size m) = false).
  { unfold rejected in Hnr. apply andb_false_iff. rewrite !Z.ltb_ge. lia. }
  rewrite E in Hp. unfold call. rewrite Hp.
  rewrite (transport_check_redundant t m _ Hh0 Hb Hp). cbn [negb].
  assert (E4 : framed_size m =? 4 = false) by (apply Z.eqb_neq; lia). rewrite E4.
  destruct t as [|rl rs]; cbn [response_exceeds error_reply_fits].
  - pose proof (server_bounded_spec nats_max r Hr) as [Hfit Hover]. split.
    + intros Hex Hef. rewrite Hover.
      * cbn [out sent]. split; reflexivity.
      * unfold rejected, nats_max in *. lia.
      * unfold rejected. lia.
    + intros Hnex. rewrite Hfit.
      * cbn [out sent back process_reply]. repeat split.
      * unfold rejected. lia.
  - split.
    + intros [H0 H1] _.
      assert (E5 : (0 <? rs) && (rs <? rhdr r + ops_size (rbody r)) = true)
        by (apply andb_true_iff; rewrite !Z.ltb_lt; lia).
      rewrite E5. cbn [out sent]. split; reflexivity.
    + intros Hnex.
      assert (E5 : (0 <? rs) && (rs <? rhdr r + ops_size (rbody r)) = false)
        by (apply andb_false_iff; rewrite !Z.ltb_ge; lia).
      rewrite E5. cbn [out sent back]. unfold reply_size. repeat split. f_equal. lia.
Qed.

(** a call never ends in a timeout or a garbled reply because of sizes (as long as the error
    reply fits the server's buffer) *)
Lemma call_never_silent : forall t m r, msg_ok m -> reply_ok r -> error_reply_fits t r ->
  out (call t m r) = OkReply \/ out (call t m r) = ReqTooLarge \/ out (call t m r) = RespTooLarge.
Proof.
  intros t m r Hm Hr Hef.
  destruct (Z_lt_dec 0 (request_limit t)) as [H0|H0];
    [destruct (Z_lt_dec (request_limit t) (framed_size m)) as [H1|H1]|].
  - right; left. apply (proj1 (call_request_exact t m r Hm)). split; assumption.
  - assert (Hnr : ~ rejected (request_limit t) (framed_size m)) by (unfold rejected; lia).
    destruct (call_response t m r Hm Hr Hnr) as [Hex Hnex].
    assert (Hdec : response_exceeds t r \/ ~ response_exceeds t r).
    { destruct t; cbn [response_exceeds]; lia. }
    destruct Hdec as [Hd|Hd]; [right; right; apply (Hex Hd Hef)|left; apply (Hnex Hd)].
  - assert (Hnr : ~ rejected (request_limit t) (framed_size m)) by (unfold rejected; lia).
    destruct (call_response t m r Hm Hr Hnr) as [Hex Hnex].
    assert (Hdec : response_exceeds t r \/ ~ response_exceeds t r).
    { destruct t; cbn [response_exceeds]; lia. }
    destruct Hdec as [Hd|Hd]; [right; right; apply (Hex Hd Hef)|left; apply (Hnex Hd)].
Qed.

(** ** sessions *)
Lemma reg_remove_fresh : forall x r, reg_mem x r = false -> reg_remove x (x :: r) = r.
Proof.
  intros x r H. cbn [reg_remove]. rewrite Z.eqb_refl.
  induction r as [|y s IH]; [reflexivity|].
  cbn [reg_mem existsb] in H. apply orb_false_iff in H. destruct H as [Hxy Hs].
  cbn [reg_remove]. rewrite Hxy. f_equal. apply IH. exact Hs.
Qed.

Definition expected_step (t : transport) (c : Z * msg * reply) : step_result :=
  let '(_, m, r) := c in SOut (call t m r).

Lemma call_prepare_none : forall t m r, prepare (request_limit t) m = None ->
  call t m r = mkres ReqTooLarge None None.
Proof. intros t m r H. unfold call. rewrite H. reflexivity. Qed.

Lemma session_call_empty : forall t opid m r,
  session_call t [] opid m r = ([], SOut (call t m r)).
Proof.
  intros t opid m r. destruct t as [|rl rs]; [|reflexivity].
  unfold session_call. destruct (prepare (request_limit TNats) m) as [n|] eqn:Ep.
  - destruct (n =? 4) eqn:E4.
    + unfold call. rewrite Ep, E4. reflexivity.
    + cbn [reg_mem existsb]. rewrite reg_remove_fresh by reflexivity. reflexivity.
  - rewrite (call_prepare_none _ _ r Ep). reflexivity.
Qed.

(** every call of a session is judged on its own — earlier failures (or successes) leave no
    trace, even when the same FContext (same op id) is used again *)
Lemma session_independent : forall t calls,
  session t [] calls = ([], map (expected_step t) calls).
Proof.
  intros t calls. induction calls as [|[[opid m] r] rest IH]; [reflexivity|].
  cbn [session map expected_step]. rewrite session_call_empty. rewrite IH. reflexivity.
Qed.

(** ** the binary protocol encoder *)
Section tval_induction.
  Variable P : tval -> Prop.
  Hypothesis Hbool : P VBool. Hypothesis Hbyte : P VByte. Hypothesis Hi16 : P VI16.
  Hypothesis Hi32 : P VI32. Hypothesis Hi64 : P VI64. Hypothesis Hdbl : P VDouble.
  Hypothesis Hstr : forall n, P (VStr n). Hypothesis Hbin : forall n, P (VBin n).
  Hypothesis Hlist : forall vs, Forall P vs -> P (VList vs).
  Hypothesis Hmap : forall kvs, Forall (fun kv => P (fst kv) /\ P (snd kv)) kvs -> P (VMap kvs).
  Hypothesis Hstruct : forall fs, Forall P fs -> P (VStruct fs).

  Fixpoint tval_ind' (v : tval) : P v :=
    match v with
    | VBool => Hbool | VByte => Hbyte | VI16 => Hi16 | VI32 => Hi32 | VI64 => Hi64 | VDouble => Hdbl
    | VStr n => Hstr n | VBin n => Hbin n
    | VList vs => Hlist vs ((fix go (l : list tval) : Forall P l :=
                               match l with [] => Forall_nil P
                                          | x :: r => Forall_cons x (tval_ind' x) (go r) end) vs)
    | VMap kvs => Hmap kvs ((fix go (l : list (tval * tval)) : Forall (fun kv => P (fst kv) /\ P (snd kv)) l :=
                               match l with [] => Forall_nil _
                                          | (k, x) :: r => Forall_cons (k, x) (conj (tval_ind' k) (tval_ind' x)) (go r) end) kvs)
    | VStruct fs => Hstruct fs ((fix go (l : list tval) : Forall P l :=
                                   match l with [] => Forall_nil P
                                              | x :: r => Forall_cons x (tval_ind' x) (go r) end) fs)
    end.
End tval_induction.

Lemma enc_binary_size : forall v, ops_size (enc_binary v) = bin_size v.
Proof.
  induction v as [| | | | | |n|n|vs IH|kvs IH|fs IH] using tval_ind'; try reflexivity;
    try (cbn [enc_binary bin_size ops_size fold_right op_size]; lia).
  - cbn [enc_binary bin_size]. rewrite !ops_size_cons. cbn [op_size].
    induction IH as [|x r Hx Hr IHr]; [cbn; lia|].
    rewrite ops_size_app, Hx. lia.
  - cbn [enc_binary bin_size]. rewrite !ops_size_cons. cbn [op_size].
    induction IH as [|[k x] r [Hk Hx] Hr IHr]; [cbn; lia|].
    cbn [fst snd] in *. rewrite !ops_size_app, Hk, Hx. lia.
  - cbn [enc_binary bin_size].
    induction IH as [|x r Hx Hr IHr]; [reflexivity|].
    rewrite !ops_size_cons, ops_size_app, Hx. cbn [op_size]. lia.
Qed.

Lemma enc_binary_nonneg : forall v, tval_ok v -> ops_nonneg (enc_binary v).
Proof.
  unfold ops_nonneg.
  induction v as [| | | | | |n|n|vs IH|kvs IH|fs IH] using tval_ind'; intros Hok;
    try (cbn [tval_ok] in Hok; cbn [enc_binary]; repeat constructor; unfold op_nonneg; cbn [op_size]; lia).
  - cbn [enc_binary]. constructor; [unfold op_nonneg; cbn [op_size]; lia|].
    constructor; [unfold op_nonneg; cbn [op_size]; lia|].
    cbn [tval_ok] in Hok. induction IH as [|x r Hx Hr IHr]; [constructor|].
    destruct Hok as [Hox Hor]. apply Forall_app. split; [apply Hx; exact Hox|apply IHr; exact Hor].
  - cbn [enc_binary]. do 3 (constructor; [unfold op_nonneg; cbn [op_size]; lia|]).
    cbn [tval_ok] in Hok. induction IH as [|[k x] r [Hk Hx] Hr IHr]; [constructor|].
    destruct Hok as (Hok1 & Hok2 & Hor). cbn [fst snd] in *.
    apply Forall_app. split; [apply Hk; exact Hok1|].
    apply Forall_app. split; [apply Hx; exact Hok2|apply IHr; exact Hor].
  - cbn [enc_binary]. cbn [tval_ok] in Hok.
    induction IH as [|x r Hx Hr IHr]; [repeat constructor; unfold op_nonneg; cbn [op_size]; lia|].
    destruct Hok as [Hox Hor].
    do 2 (constructor; [unfold op_nonneg; cbn [op_size]; lia|]).
    apply Forall_app. split; [apply Hx; exact Hox|apply IHr; exact Hor].
Qed.

Lemma binary_msg_ok : forall h nl v, 5 <= h -> 0 <= nl -> tval_ok v -> msg_ok (binary_msg h nl v).
Proof.
  intros h nl v Hh Hn Hv. split; [exact Hh|].
  cbn [binary_msg body enc_binary_message app].
  do 4 (constructor; [unfold op_nonneg; cbn [op_size]; lia|]). apply enc_binary_nonneg. exact Hv.
Qed.

Lemma binary_msg_framed : forall h nl v,
  framed_size (binary_msg h nl v) = 4 + h + bin_message_size nl v.
Proof.
  intros h nl v. unfold framed_size, binary_msg, enc_binary_message, bin_message_size.
  cbn [hdr body]. rewrite ops_size_app, enc_binary_size.
  cbn [ops_size fold_right op_size]. lia.
Qed.

Lemma binary_request_exact : forall t h nl v r, 5 <= h -> 0 <= nl -> tval_ok v ->
  (out (call t (binary_msg h nl v) r) = ReqTooLarge /\ sent (call t (binary_msg h nl v) r) = None)
  <-> rejected (request_limit t) (4 + h + bin_message_size nl v).
Proof.
  intros t h nl v r Hh Hn Hv. rewrite <- binary_msg_framed.
  pose proof (call_request_exact t _ r (binary_msg_ok h nl v Hh Hn Hv)) as (Ho & Hs & _).
  rewrite <- Ho. split; [tauto|]. intros H. split; [exact H|]. apply Hs. apply Ho. exact H.
Qed.

(** ** constants *)
Lemma codes_agree :
  app_response_too_large_written = app_response_too_large_mapped
  /\ process_reply FTooLarge = RespTooLarge
  /\ request_limit TNats = nats_max /\ publish_limit PNats = nats_max.
Proof. repeat split. Qed.
