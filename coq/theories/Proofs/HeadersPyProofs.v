(** Python codec (lib/python/frugal/util/headers.py) agrees with the Go codec. *)
From Coq Require Import ZArith List Lia Bool.
From FV Require Import Base.Res Base.Bytes Base.GoSem Model.Headers Proofs.BytesProofs Proofs.HeadersProofs.
Import ListNotations.
Open Scope Z_scope.
Ltac Zify.zify_post_hook ::= Z.div_mod_to_equations.

Lemma py_write_marshal l : header_size l < 4294967296 -> py_write l = marshal l.
Proof.
  intros H. pose proof (header_size_nonneg l). unfold py_write, marshal.
  rewrite as_uint32_small by lia. reflexivity.
Qed.

Lemma py_slice_app_mid (pre mid post : bytes) lo hi :
  lo = zlen pre -> hi = zlen pre + zlen mid ->
  py_slice (pre ++ mid ++ post) lo hi = mid.
Proof.
  intros -> ->. unfold py_slice.
  pose proof (zlen_nonneg pre). pose proof (zlen_nonneg mid). pose proof (zlen_nonneg post).
  rewrite !zlen_app.
  rewrite (Z.max_l (zlen pre) 0) by lia.
  rewrite (Z.max_l (zlen pre + zlen mid) 0) by lia.
  rewrite (Z.min_l (zlen pre)) by lia.
  rewrite (Z.min_l (zlen pre + zlen mid)) by lia.
  replace (zlen pre <=? zlen pre + zlen mid) with true by (symmetry; apply Z.leb_le; lia).
  apply sub_app_mid.
Qed.

Lemma py_unpack_be32 n : 0 <= n < 4294967296 -> py_unpack_uint (be32 n) = Ok n.
Proof.
  intros H. unfold py_unpack_uint. rewrite be32_length. cbn [Z.ltb Z.compare].
  change (take 4 (be32 n)) with (be32 n). now rewrite un_be32_be32.
Qed.

Lemma py_read_pairs_marshal l : forall pre post acc fuel,
  zlen pre + header_size l + zlen post < 4294967296 ->
  (length l < fuel)%nat ->
  py_read_pairs fuel (pre ++ marshal_pairs l ++ post) (zlen pre) (zlen pre + header_size l) acc
  = Ok (rev acc ++ l).
Proof.
  induction l as [|[k v] l IH]; intros pre post acc fuel Hsz Hfuel.
  - cbn [header_size]. destruct fuel; cbn [py_read_pairs];
      (replace (zlen pre <? zlen pre + 0) with false by (symmetry; apply Z.ltb_ge; lia));
      now rewrite app_nil_r.
  - destruct fuel as [|fuel]; [simpl in Hfuel; lia|].
    pose proof (zlen_nonneg pre) as Hp. pose proof (zlen_nonneg post) as Hpo.
    pose proof (zlen_nonneg k) as Hk. pose proof (zlen_nonneg v) as Hv.
    pose proof (header_size_nonneg l) as Hl.
    cbn [header_size] in *. unfold pair_size in *. cbn [fst snd] in *.
    cbn [marshal_pairs]. unfold marshal_pair. cbn [fst snd].
    rewrite (as_uint32_small (zlen k)) by lia. rewrite (as_uint32_small (zlen v)) by lia.
    set (nk := be32 (zlen k)). set (nv := be32 (zlen v)).
    set (buff := pre ++ ((nk ++ k ++ nv ++ v) ++ marshal_pairs l) ++ post).
    set (end_ := zlen pre + (8 + zlen k + zlen v + header_size l)).
    cbn [py_read_pairs].
    replace (zlen pre <? end_) with true by (symmetry; apply Z.ltb_lt; unfold end_; lia).
    assert (E1 : py_slice buff (zlen pre) (zlen pre + 4) = nk).
    { unfold buff. rewrite <- !app_assoc. apply py_slice_app_mid; [reflexivity|].
      unfold nk; rewrite be32_length; reflexivity. }
    rewrite E1. unfold nk at 1. rewrite py_unpack_be32 by lia. cbn [bind].
    replace (end_ <? zlen pre + 4) with false by (symmetry; apply Z.ltb_ge; unfold end_; lia).
    replace (end_ <? zlen pre + 4 + zlen k) with false by (symmetry; apply Z.ltb_ge; unfold end_; lia).
    cbn [orb].
    assert (E2 : py_slice buff (zlen pre + 4) (zlen pre + 4 + zlen k) = k).
    { unfold buff.
      replace (pre ++ ((nk ++ k ++ nv ++ v) ++ marshal_pairs l) ++ post)
        with ((pre ++ nk) ++ k ++ (nv ++ v ++ marshal_pairs l ++ post))
        by (rewrite <- !app_assoc; reflexivity).
      apply py_slice_app_mid; rewrite zlen_app; unfold nk; rewrite be32_length; lia. }
    rewrite E2. replace (zlen k <? zlen k) with false by (symmetry; apply Z.ltb_irrefl).
    assert (E3 : py_slice buff (zlen pre + 4 + zlen k) (zlen pre + 4 + zlen k + 4) = nv).
    { unfold buff.
      replace (pre ++ ((nk ++ k ++ nv ++ v) ++ marshal_pairs l) ++ post)
        with ((pre ++ nk ++ k) ++ nv ++ (v ++ marshal_pairs l ++ post))
        by (rewrite <- !app_assoc; reflexivity).
      apply py_slice_app_mid; rewrite ?zlen_app; unfold nk, nv; rewrite ?be32_length; lia. }
    rewrite E3. unfold nv at 1. rewrite py_unpack_be32 by lia. cbn [bind].
    replace (end_ <? zlen pre + 4 + zlen k + 4) with false
      by (symmetry; apply Z.ltb_ge; unfold end_; lia).
    replace (end_ <? zlen pre + 4 + zlen k + 4 + zlen v) with false
      by (symmetry; apply Z.ltb_ge; unfold end_; lia).
    cbn [orb].
    assert (E4 : py_slice buff (zlen pre + 4 + zlen k + 4) (zlen pre + 4 + zlen k + 4 + zlen v) = v).
    { unfold buff.
      replace (pre ++ ((nk ++ k ++ nv ++ v) ++ marshal_pairs l) ++ post)
        with ((pre ++ nk ++ k ++ nv) ++ v ++ (marshal_pairs l ++ post))
        by (rewrite <- !app_assoc; reflexivity).
      apply py_slice_app_mid; rewrite ?zlen_app; unfold nk, nv; rewrite ?be32_length; lia. }
    rewrite E4. replace (zlen v <? zlen v) with false by (symmetry; apply Z.ltb_irrefl).
    unfold buff.
    replace (pre ++ ((nk ++ k ++ nv ++ v) ++ marshal_pairs l) ++ post)
      with ((pre ++ nk ++ k ++ nv ++ v) ++ marshal_pairs l ++ post)
      by (rewrite <- !app_assoc; reflexivity).
    assert (Epre : zlen (pre ++ nk ++ k ++ nv ++ v) = zlen pre + 4 + zlen k + 4 + zlen v).
    { rewrite !zlen_app. unfold nk, nv; rewrite !be32_length; lia. }
    rewrite <- Epre.
    replace end_ with (zlen (pre ++ nk ++ k ++ nv ++ v) + header_size l)
      by (rewrite Epre; unfold end_; lia).
    rewrite IH.
    + cbn [rev]. rewrite <- app_assoc. reflexivity.
    + rewrite Epre; lia.
    + simpl in Hfuel; lia.
Qed.

(** Python reads what Go writes (frame form) *)
Lemma py_decode_go_frame l payload :
  5 + header_size l + zlen payload < 2147483648 ->
  py_decode_from_frame (marshal l ++ payload) = Ok l.
Proof.
  intros Hsz. pose proof (header_size_nonneg l) as Hl. pose proof (zlen_nonneg payload) as Hp.
  unfold py_decode_from_frame.
  rewrite zlen_app, marshal_length.
  replace (5 + header_size l + zlen payload <? 5) with false by (symmetry; apply Z.ltb_ge; lia).
  unfold marshal. cbn [app]. cbn [Z.eqb negb].
  rewrite as_uint32_small by lia.
  set (sz := be32 (header_size l)).
  replace (0 :: (sz ++ marshal_pairs l) ++ payload) with (([0] ++ sz) ++ marshal_pairs l ++ payload)
    by (cbn [app]; rewrite <- app_assoc; reflexivity).
  assert (Eh : un_be32 (py_slice (([0] ++ sz) ++ marshal_pairs l ++ payload) 1 5) = header_size l).
  { replace (([0] ++ sz) ++ marshal_pairs l ++ payload) with ([0] ++ sz ++ (marshal_pairs l ++ payload))
      by (rewrite <- !app_assoc; reflexivity).
    rewrite py_slice_app_mid by reflexivity. unfold sz. apply un_be32_be32; lia. }
  rewrite Eh.
  replace 5 with (zlen ([0] ++ sz)) at 1 by reflexivity.
  replace (header_size l + 5) with (zlen ([0] ++ sz) + header_size l) by (change (zlen ([0] ++ sz)) with 5; lia).
  rewrite py_read_pairs_marshal; [reflexivity | change (zlen ([0] ++ sz)) with 5; lia |].
  unfold pairs_fuel. rewrite !app_length. pose proof (length_le_marshal_pairs l). lia.
Qed.

Lemma drop_app_len (a b : bytes) n : n = length a -> drop n (a ++ b) = b.
Proof. intros ->. apply drop_app_exact. Qed.

(** Python reads what Go writes (stream form) and leaves the payload *)
Lemma py_read_go_stream l payload :
  5 + header_size l + zlen payload < 2147483648 ->
  py_read (marshal l ++ payload) = Ok (l, payload).
Proof.
  intros Hsz. pose proof (header_size_nonneg l) as Hl. pose proof (zlen_nonneg payload) as Hp.
  unfold py_read, marshal. rewrite as_uint32_small by lia.
  set (sz := be32 (header_size l)).
  replace ((0 :: sz ++ marshal_pairs l) ++ payload) with ([] ++ [0] ++ (sz ++ marshal_pairs l ++ payload))
    by (cbn [app]; rewrite <- app_assoc; reflexivity).
  rewrite (py_slice_app_mid [] [0]) by reflexivity.
  cbn [Z.eqb negb]. cbn [app].
  replace (0 :: sz ++ marshal_pairs l ++ payload) with ([0] ++ sz ++ (marshal_pairs l ++ payload)) by reflexivity.
  rewrite (py_slice_app_mid [0] sz) by reflexivity.
  unfold sz at 1. rewrite py_unpack_be32 by lia. cbn [bind].
  replace ([0] ++ sz ++ marshal_pairs l ++ payload) with (([0] ++ sz) ++ marshal_pairs l ++ payload)
    by (rewrite <- app_assoc; reflexivity).
  rewrite (py_slice_app_mid ([0] ++ sz) (marshal_pairs l) payload)
    by (change (zlen ([0] ++ sz)) with 5; rewrite ?marshal_pairs_length; lia).
  pose proof (py_read_pairs_marshal l [] [] [] (pairs_fuel (marshal_pairs l))) as R.
  cbn [app] in R. rewrite app_nil_r in R. change (zlen (@nil Z)) with 0 in R. rewrite Z.add_0_l in R.
  rewrite R; [| lia | unfold pairs_fuel; pose proof (length_le_marshal_pairs l); lia].
  cbn [bind rev app]. f_equal. f_equal.
  transitivity (drop (length ([0] ++ sz ++ marshal_pairs l)) (([0] ++ sz ++ marshal_pairs l) ++ payload)).
  - f_equal.
    rewrite !app_length. pose proof (marshal_pairs_length l) as ML. unfold zlen in ML.
    change (length [0]) with 1%nat. change (length sz) with 4%nat. lia.
  - apply drop_app_exact.
Qed.
