(** C14 — what [process] writes for a request, read back by the independent reader [classify_reply]. *)
From Coq Require Import ZArith List Bool Lia.
From FV Require Import Base.Res Base.Bytes Model.Headers Model.ThriftBin Model.Processor.
From FV Require Import Proofs.BytesProofs Proofs.HeadersProofs Proofs.HeadersMapProofs Proofs.ThriftBinProofs
                       Proofs.ProcessorProofs.
Import ListNotations.
Open Scope Z_scope.

Ltac Zify.zify_post_hook ::= Z.div_mod_to_equations.

(** * Envelope round trip *)
Lemma read_message_begin_write name mt seq rest :
  0 <= mt < 256 -> zlen name < 2147483648 -> in_range 4 seq ->
  read_message_begin (write_message_begin name mt seq ++ rest) = Ok (name, mt, seq, rest).
Proof.
  intros Hmt Hn Hs. unfold read_message_begin, write_message_begin.
  rewrite <- !app_assoc.
  unfold read_int at 1. rewrite read_n_app by apply be_n_length. cbn [bind].
  rewrite un_be_be_n. change (256 ^ Z.of_nat 4) with 4294967296.
  assert (Hz : (version_1 + mt) mod 4294967296 = version_1 + mt)
    by (unfold version_1; apply Z.mod_small; lia).
  rewrite Hz.
  assert (Hsg : signed 4 (version_1 + mt) = version_1 + mt - 4294967296).
  { unfold signed. change (256 ^ Z.of_nat 4) with 4294967296. unfold version_1.
    destruct (2147549184 + mt <? 4294967296 / 2) eqn:E; [apply Z.ltb_lt in E; lia|reflexivity]. }
  rewrite Hsg.
  destruct (version_1 + mt - 4294967296 <? 0) eqn:E;
    [|apply Z.ltb_ge in E; unfold version_1 in E; lia].
  unfold two32.
  assert (Hu : (version_1 + mt - 4294967296) mod 4294967296 = version_1 + mt)
    by (unfold version_1; lia).
  rewrite Hu.
  assert (H16 : (version_1 + mt) mod 65536 = mt) by (unfold version_1; lia).
  assert (H8 : (version_1 + mt) mod 256 = mt) by (unfold version_1; lia).
  rewrite H16, H8.
  replace (version_1 + mt - mt =? version_1) with true by (symmetry; apply Z.eqb_eq; lia).
  cbn [negb].
  rewrite read_blob_be by exact Hn. cbn [bind].
  rewrite read_int_be by (try lia; exact Hs). cbn [bind]. reflexivity.
Qed.

(** * TApplicationException round trip *)
Lemma read_app_exception_write kind msg f :
  in_range 4 kind -> zlen (exc_text kind msg) < 2147483648 ->
  read_app_exception (S (S (S f))) (write_app_exception kind msg) [] 0 = Ok (exc_text kind msg, kind).
Proof.
  intros Hk Ht. unfold write_app_exception.
  assert (Tail : forall m g, read_app_exception (S (S g)) ([8] ++ be_n 2 2 ++ be_n 4 kind ++ [0]) m 0 = Ok (m, kind)).
  { intros m g. cbn [read_app_exception app].
    rewrite read_int_1 by lia. cbn [bind]. replace (8 =? 0) with false by reflexivity.
    rewrite read_int_be by (try lia; apply in_range_2; lia). cbn [bind].
    replace ((2 =? 1) && (8 =? 11)) with false by reflexivity.
    replace ((2 =? 2) && (8 =? 8)) with true by reflexivity.
    rewrite read_int_be by (try lia; exact Hk). cbn [bind].
    rewrite read_int_1 by lia. cbn [bind]. reflexivity. }
  destruct (exc_text kind msg) as [|c cs] eqn:E.
  - cbn [app]. apply (Tail [] (S f)).
  - set (text := c :: cs) in *.
    rewrite <- !app_assoc.
    cbn [read_app_exception app].
    rewrite read_int_1 by lia. cbn [bind]. replace (11 =? 0) with false by reflexivity.
    rewrite read_int_be by (try lia; apply in_range_2; lia). cbn [bind].
    replace ((1 =? 1) && (11 =? 11)) with true by reflexivity.
    rewrite read_blob_be by exact Ht. cbn [bind].
    apply (Tail text f).
Qed.

(** * Reading a whole reply *)
Lemma parse_reply_message hdrs name mt body :
  header_size hdrs < 2147483648 -> zlen name < 2147483648 -> 0 <= mt < 256 ->
  parse_reply (marshal hdrs ++ write_message_begin name mt 0 ++ body) = Ok (mkrep hdrs name mt body).
Proof.
  intros Hh Hn Hm. unfold parse_reply.
  rewrite stream_roundtrip by exact Hh. cbn [bind].
  rewrite read_message_begin_write by (try assumption; apply in_range_4; lia).
  cbn [bind]. reflexivity.
Qed.

Lemma classify_reply_reply hdrs name body opid :
  header_size hdrs < 2147483648 -> zlen name < 2147483648 ->
  Headers.lookup opid_header (to_map hdrs) = Some opid ->
  classify_reply (marshal hdrs ++ write_message_begin name mt_reply 0 ++ body) = Some (opid, None).
Proof.
  intros Hh Hn Ho. unfold classify_reply.
  rewrite parse_reply_message by (try assumption; unfold mt_reply; lia).
  unfold reply_opid. cbn [r_headers r_type]. rewrite Ho. reflexivity.
Qed.

Lemma write_app_exception_length kind msg : 8 <= zlen (write_app_exception kind msg).
Proof.
  unfold write_app_exception.
  set (pre := match exc_text kind msg with [] => [] | _ :: _ => _ end).
  rewrite zlen_app. pose proof (zlen_nonneg pre).
  assert (zlen ([8] ++ be_n 2 2 ++ be_n 4 kind ++ [0]) = 8).
  { unfold zlen. rewrite !app_length, !be_n_length. reflexivity. }
  lia.
Qed.

Lemma classify_reply_exception hdrs name kind msg opid :
  header_size hdrs < 2147483648 -> zlen name < 2147483648 ->
  in_range 4 kind -> zlen (exc_text kind msg) < 2147483648 ->
  Headers.lookup opid_header (to_map hdrs) = Some opid ->
  classify_reply (marshal hdrs ++ write_message_begin name mt_exception 0 ++ write_app_exception kind msg)
  = Some (opid, Some kind).
Proof.
  intros Hh Hn Hk Ht Ho. unfold classify_reply.
  rewrite parse_reply_message by (try assumption; unfold mt_exception; lia).
  unfold reply_opid. cbn [r_headers r_type r_body]. rewrite Ho.
  replace (mt_exception =? mt_reply) with false by reflexivity.
  replace (mt_exception =? mt_exception) with true by reflexivity.
  pose proof (write_app_exception_length kind msg) as Hl. unfold zlen in Hl.
  destruct (length (write_app_exception kind msg)) as [|[|[|n]]] eqn:El; try (cbn in Hl; lia).
  rewrite (read_app_exception_write kind msg (S n)) by assumption. reflexivity.
Qed.

(** * The response headers carry the request's op id *)
Lemma assign_all_same m hs : Processor.assign_all m hs = HeadersMapProofs.assign_all m hs.
Proof. reflexivity. Qed.

Lemma response_headers_nodup hm opid : NoDup (keys (response_headers hm opid)).
Proof.
  unfold response_headers. destruct (Headers.lookup cid_header hm) as [[|c cs]|]; cbn [keys map fst].
  - constructor; [intros []|constructor].
  - constructor; [|constructor; [intros []|constructor]].
    intros [E|[]]. discriminate E.
  - constructor; [intros []|constructor].
Qed.

Lemma response_headers_opid hm opid :
  Headers.lookup opid_header (response_headers hm opid) = Some opid.
Proof.
  unfold response_headers. destruct (Headers.lookup cid_header hm) as [[|c cs]|]; reflexivity.
Qed.

Lemma response_opid hm opid extra :
  Headers.lookup opid_header extra = None ->
  Headers.lookup opid_header (to_map (Processor.assign_all (response_headers hm opid) extra)) = Some opid.
Proof.
  intros He. rewrite assign_all_same.
  rewrite to_map_id by (apply assign_all_nodup, response_headers_nodup).
  rewrite lookup_assign_all by apply response_headers_nodup.
  rewrite He. apply response_headers_opid.
Qed.

Lemma response_opid0 hm opid :
  Headers.lookup opid_header (to_map (response_headers hm opid)) = Some opid.
Proof. apply (response_opid hm opid []). reflexivity. Qed.

(** * Sizes *)
Definition out_size (evs : list oev) : Z :=
  fold_right (fun e a => match e with OW b => zlen b + a | _ => a end) 0 evs.

Lemma out_size_nonneg evs : 0 <= out_size evs.
Proof.
  induction evs as [|e evs' IH]; [cbn; lia|].
  destruct e as [b| |]; cbn [out_size fold_right]; fold (out_size evs'); try lia.
  pose proof (zlen_nonneg b). lia.
Qed.

Lemma out_size_app a b : out_size (a ++ b) = out_size a + out_size b.
Proof.
  induction a as [|e a' IH]; [reflexivity|].
  destruct e as [x| |]; cbn [app out_size fold_right]; fold (out_size (a' ++ b)); fold (out_size a'); lia.
Qed.

Lemma write_message_begin_length name mt seq :
  zlen (write_message_begin name mt seq) = 12 + zlen name.
Proof.
  unfold write_message_begin, zlen. rewrite !app_length, !be_n_length. lia.
Qed.

Lemma message_size hdrs name mt body :
  out_size (message_events hdrs name mt body) = 17 + header_size hdrs + zlen name + zlen body.
Proof.
  unfold message_events. cbn [out_size fold_right].
  rewrite marshal_length, zlen_app, write_message_begin_length. lia.
Qed.

Lemma exc_text_le kind msg : zlen (exc_text kind msg) <= zlen (write_app_exception kind msg).
Proof.
  unfold write_app_exception. destruct (exc_text kind msg) as [|c cs] eqn:E.
  - change (zlen []) with 0. apply zlen_nonneg.
  - unfold zlen. rewrite !app_length. lia.
Qed.

(** * One complete message = one frame, classified by the independent reader *)
Definition one_frame (evs : list oev) (f : bytes) : Prop :=
  forall s, f_pending s = [] -> framed_run s evs = mkfs [] (f_sent s ++ [f]).

Lemma reply_one_frame rh name body opid :
  out_size (message_events rh name mt_reply body) < 2147483648 ->
  Headers.lookup opid_header (to_map rh) = Some opid ->
  exists f, one_frame (message_events rh name mt_reply body) f /\ classify_reply f = Some (opid, None) /\
            f = marshal rh ++ write_message_begin name mt_reply 0 ++ body.
Proof.
  intros Hs Ho. rewrite message_size in Hs.
  pose proof (header_size_nonneg rh). pose proof (zlen_nonneg name). pose proof (zlen_nonneg body).
  eexists. split; [|split; [|reflexivity]].
  - intros s Hp. apply framed_message. exact Hp.
  - apply classify_reply_reply; try assumption; lia.
Qed.

Lemma exception_one_frame rh name kind msg opid :
  out_size (exception_events rh name kind msg) < 2147483648 -> in_range 4 kind ->
  Headers.lookup opid_header (to_map rh) = Some opid ->
  exists f, one_frame (exception_events rh name kind msg) f /\ classify_reply f = Some (opid, Some kind).
Proof.
  intros Hs Hk Ho. unfold exception_events in *. rewrite message_size in Hs.
  pose proof (header_size_nonneg rh). pose proof (zlen_nonneg name).
  pose proof (exc_text_le kind msg). pose proof (zlen_nonneg (exc_text kind msg)).
  eexists. split.
  - intros s Hp. apply framed_message. exact Hp.
  - apply classify_reply_exception; try assumption; lia.
Qed.

(** * The property's table, for every request with decodable headers and envelope *)
Definition handler_ok (h : handler) : Prop :=
  forall name hdrs args,
    Headers.lookup opid_header (fst (h name hdrs args)) = None /\
    match snd (h name hdrs args) with HAppExc k _ => in_range 4 k | _ => True end.

Definition answered (evs : list oev) (opid : bytes) (a : answer) : Prop :=
  match a with
  | ANone => evs = []
  | AReply => exists f, one_frame evs f /\ classify_reply f = Some (opid, None)
  | AExc k => exists f, one_frame evs f /\ classify_reply f = Some (opid, Some k)
  end.

Lemma in_range_const k : -2147483648 <= k < 2147483648 -> in_range 4 k.
Proof. apply in_range_4. Qed.

Theorem process_exactly_one svc h etext frame opid a :
  handler_ok h ->
  expected_answer svc h frame = Some (opid, a) ->
  out_size (snd (process svc h true etext frame)) < 2147483648 ->
  fst (process svc h true etext frame) = false /\
  answered (snd (process svc h true etext frame)) opid a.
Proof.
  intros Hh He Hs. unfold expected_answer in He. unfold process in *.
  destruct (read_header frame) as [[hdrs r1]| | |]; try discriminate.
  destruct (Headers.lookup opid_header (to_map hdrs)) as [op|] eqn:Hop; [|discriminate].
  destruct (read_message_begin r1) as [[[[name mt] seq] r2]| | |]; try discriminate.
  inversion He; subst op; clear He. rename H1 into Ha.
  destruct (find_method svc name) as [md|].
  - cbn [fst snd] in *. split; [reflexivity|].
    destruct (md_read md r2) as [[args rest]| | |].
    + destruct (Hh name (remove_key opid_header (to_map hdrs)) args) as [Hx Hk].
      destruct (h name (remove_key opid_header (to_map hdrs)) args) as [extra o].
      cbn [fst snd] in *.
      pose proof (response_opid (to_map hdrs) opid extra Hx) as Hro.
      destruct o as [rb wok|kind msg|text].
      * destruct (md_oneway md); [subst a; reflexivity|].
        destruct wok; subst a.
        -- destruct (reply_one_frame _ _ _ _ Hs Hro) as (f & H1 & H2 & _). exists f. split; assumption.
        -- rewrite out_size_app in Hs. cbn [out_size fold_right] in Hs.
           fold (out_size (exception_events (Processor.assign_all (response_headers (to_map hdrs) opid) extra)
                                            name ex_internal_error etext)) in Hs.
           pose proof (zlen_nonneg (marshal (Processor.assign_all (response_headers (to_map hdrs) opid) extra))).
           pose proof (zlen_nonneg (write_message_begin name mt_reply 0 ++ rb)).
           destruct (exception_one_frame (Processor.assign_all (response_headers (to_map hdrs) opid) extra)
                       name ex_internal_error etext opid) as (f & H1 & H2);
             [lia|apply in_range_const; unfold ex_internal_error; lia|exact Hro|].
           exists f. split; [|exact H2].
           intros s Hp. rewrite framed_run_app. cbn [framed_run fold_left framed_ev].
           change (fold_left framed_ev ?l ?s0) with (framed_run s0 l).
           cbn [f_sent]. apply (H1 (mkfs [] (f_sent s))). reflexivity.
      * subst a.
        destruct (exception_one_frame _ _ _ _ opid Hs Hk Hro) as (f & H1 & H2). exists f. split; assumption.
      * subst a.
        destruct (exception_one_frame _ _ _ _ opid Hs) as (f & H1 & H2);
          [apply in_range_const; unfold ex_internal_error; lia|exact Hro|].
        exists f. split; assumption.
    + subst a.
      destruct (exception_one_frame _ _ _ _ opid Hs) as (f & H1 & H2);
        [apply in_range_const; unfold ex_protocol_error; lia|apply response_opid0|].
      exists f. split; assumption.
    + subst a.
      destruct (exception_one_frame _ _ _ _ opid Hs) as (f & H1 & H2);
        [apply in_range_const; unfold ex_protocol_error; lia|apply response_opid0|].
      exists f. split; assumption.
    + subst a.
      destruct (exception_one_frame _ _ _ _ opid Hs) as (f & H1 & H2);
        [apply in_range_const; unfold ex_protocol_error; lia|apply response_opid0|].
      exists f. split; assumption.
  - cbn [fst snd] in *. split; [reflexivity|]. subst a.
    destruct (exception_one_frame _ _ _ _ opid Hs) as (f & H1 & H2);
      [apply in_range_const; unfold ex_unknown_method; lia|apply response_opid0|].
    exists f. split; assumption.
Qed.

(** * Shape of what Process writes; the three servers and the shared-output path agree on it *)
Inductive shape : list oev -> bytes -> Prop :=
| shape_msg hdrs name mt body :
    shape (message_events hdrs name mt body) (marshal hdrs ++ write_message_begin name mt 0 ++ body)
| shape_retry a b hdrs name mt body :
    shape ([OW a; OW b] ++ OReset :: message_events hdrs name mt body)
          (marshal hdrs ++ write_message_begin name mt 0 ++ body).

Lemma process_shape svc h etext frame :
  snd (process svc h true etext frame) = [] \/ exists f, shape (snd (process svc h true etext frame)) f.
Proof.
  unfold process.
  destruct (read_header frame) as [[hdrs r1]| | |]; try (left; reflexivity).
  destruct (Headers.lookup opid_header (to_map hdrs)) as [op|]; [|left; reflexivity].
  destruct (read_message_begin r1) as [[[[name mt] seq] r2]| | |]; try (left; reflexivity).
  destruct (find_method svc name) as [md|]; cbn [snd].
  - destruct (md_read md r2) as [[args rest]| | |]; try (right; eexists; apply shape_msg).
    destruct (h name (remove_key opid_header (to_map hdrs)) args) as [extra o].
    destruct o as [rb wok|kind msg|text]; try (right; eexists; apply shape_msg).
    destruct (md_oneway md); [left; reflexivity|].
    destruct wok; right; eexists; [apply shape_msg|apply shape_retry].
  - right; eexists; apply shape_msg.
Qed.

Lemma shape_one_frame evs f : shape evs f -> one_frame evs f.
Proof.
  intros [hdrs name mt body|a b hdrs name mt body] s Hp.
  - apply framed_message. exact Hp.
  - rewrite framed_run_app. cbn [framed_run fold_left framed_ev].
    change (fold_left framed_ev ?l ?s0) with (framed_run s0 l).
    cbn [f_sent]. apply (framed_message (mkfs [] (f_sent s))). reflexivity.
Qed.

Lemma shape_mem evs f : shape evs f -> mem_run evs = f.
Proof.
  intros [hdrs name mt body|a b hdrs name mt body]; unfold mem_run; cbn [fold_left mem_ev app]; reflexivity.
Qed.

Lemma shape_nonempty evs f : shape evs f -> f <> [].
Proof. intros [hdrs name mt body|a b hdrs name mt body]; unfold marshal; discriminate. Qed.

Lemma shape_closed evs f : shape evs f -> closed evs /\ frames_of evs = [f].
Proof.
  intros H. pose proof (shape_one_frame _ _ H fs0 eq_refl) as E.
  unfold closed, frames_of. rewrite E. split; reflexivity.
Qed.

Lemma process_closed svc h etext frame : closed (snd (process svc h true etext frame)).
Proof.
  destruct (process_shape svc h etext frame) as [E|[f Hf]].
  - rewrite E. reflexivity.
  - apply (shape_closed _ _ Hf).
Qed.

Lemma process_error_no_output svc h r etext frame :
  fst (process svc h r etext frame) = true -> snd (process svc h r etext frame) = [].
Proof.
  unfold process.
  destruct (read_header frame) as [[hdrs r1]| | |]; try reflexivity.
  destruct (Headers.lookup opid_header (to_map hdrs)) as [op|]; [|reflexivity].
  destruct (read_message_begin r1) as [[[[name mt] seq] r2]| | |]; try reflexivity.
  destruct (find_method svc name) as [md|]; cbn [fst snd]; discriminate.
Qed.

(** the reply of a frame: what it yields on an output of its own *)
Definition own_frames (svc : list mdesc) (h : handler) (fe : bytes * bytes) : list bytes :=
  frames_of (snd (process svc h true (snd fe) (fst fe))).

(** All paths agree: the NATS message, the HTTP body and the frame on a framed output are the same bytes. *)
Lemma servers_agree svc h etext frame :
  match own_frames svc h (frame, etext) with
  | [] => nats_frame svc h etext frame = None /\
          (http_frame svc h etext frame = H500 \/ http_frame svc h etext frame = H200 [])
  | [f] => nats_frame svc h etext frame = Some f /\ http_frame svc h etext frame = H200 f
  | _ => False
  end.
Proof.
  unfold own_frames, nats_frame, http_frame. cbn [fst snd].
  pose proof (process_error_no_output svc h true etext frame) as Herr.
  destruct (process_shape svc h etext frame) as [E|[f Hf]].
  - destruct (process svc h true etext frame) as [err evs]. cbn [fst snd] in *. subst evs.
    cbn. destruct err; split; auto.
  - destruct (process svc h true etext frame) as [err evs]. cbn [fst snd] in *.
    destruct (shape_closed _ _ Hf) as [_ Hfr]. rewrite Hfr.
    rewrite (shape_mem _ _ Hf). pose proof (shape_nonempty _ _ Hf) as Hne.
    destruct err.
    + specialize (Herr eq_refl). subst evs. inversion Hf.
    + destruct f; [congruence|]. split; reflexivity.
Qed.

(** * FSimpleServer connection: the output is the concatenation of what each request yields on its own,
    for the requests up to (and including) the first one Process fails on. *)
Fixpoint served (svc : list mdesc) (h : handler) (frames : list (bytes * bytes)) : list (bytes * bytes) :=
  match frames with
  | [] => []
  | fe :: r => if fst (process svc h true (snd fe) (fst fe)) then [fe] else fe :: served svc h r
  end.

Lemma simple_dead svc h frames : forall s, c_alive s = false ->
  fold_left (simple_step svc h) frames s = s.
Proof.
  induction frames as [|fe r IH]; intros s Hs; [reflexivity|].
  cbn [fold_left]. unfold simple_step at 2. rewrite Hs. apply IH. exact Hs.
Qed.

Lemma simple_conn_from svc h frames : forall s,
  c_alive s = true -> f_pending (c_out s) = [] ->
  let r := fold_left (simple_step svc h) frames s in
  f_pending (c_out r) = [] /\
  f_sent (c_out r) = f_sent (c_out s) ++ flat_map (own_frames svc h) (served svc h frames).
Proof.
  induction frames as [|fe rest IH]; intros s Ha Hp; cbn zeta.
  - cbn. rewrite app_nil_r. split; [exact Hp|reflexivity].
  - cbn [fold_left served].
    pose proof (process_closed svc h (snd fe) (fst fe)) as Hc.
    pose proof (process_error_no_output svc h true (snd fe) (fst fe)) as Herr.
    assert (Eown : own_frames svc h fe = frames_of (snd (process svc h true (snd fe) (fst fe)))) by reflexivity.
    destruct (process svc h true (snd fe) (fst fe)) as [err evs] eqn:Epr. cbn [fst snd] in *.
    assert (Est : simple_step svc h s fe = mkcs (negb err) (framed_run (c_out s) evs))
      by (unfold simple_step; rewrite Ha, Epr; reflexivity).
    rewrite Est. rewrite (framed_run_closed _ _ Hp Hc).
    destruct err; cbn [negb].
    + rewrite simple_dead by reflexivity. cbn [c_out f_pending f_sent flat_map].
      rewrite app_nil_r. rewrite Eown. split; reflexivity.
    + destruct (IH (mkcs true (mkfs [] (f_sent (c_out s) ++ frames_of evs))) eq_refl eq_refl) as [I1 I2].
      split; [exact I1|].
      rewrite I2. cbn [c_out f_sent flat_map].
      rewrite Eown, app_assoc. reflexivity.
Qed.

Lemma simple_conn_isolated svc h frames :
  f_pending (c_out (simple_conn svc h frames)) = [] /\
  f_sent (c_out (simple_conn svc h frames)) = flat_map (own_frames svc h) (served svc h frames).
Proof. apply (simple_conn_from svc h frames cs0); reflexivity. Qed.

Lemma served_all svc h frames :
  Forall (fun fe => fst (process svc h true (snd fe) (fst fe)) = false) frames ->
  served svc h frames = frames.
Proof.
  induction 1 as [|fe r Hf _ IH]; [reflexivity|]. cbn [served]. rewrite Hf, IH. reflexivity.
Qed.

(** sections of concurrent writers are closed, so the no-interleaving lemma applies to them *)
Lemma sections_closed svc h frames : Forall closed (sections_of svc h frames).
Proof.
  unfold sections_of. apply Forall_forall. intros evs Hin.
  apply filter_In in Hin. destruct Hin as [Hin _].
  apply in_map_iff in Hin. destruct Hin as (fe & <- & _). apply process_closed.
Qed.

Lemma sections_frames svc h frames :
  flat_map frames_of (sections_of svc h frames) = flat_map (own_frames svc h) frames.
Proof.
  unfold sections_of. induction frames as [|fe r IH]; [reflexivity|].
  cbn [map filter flat_map]. unfold own_frames at 1.
  destruct (snd (process svc h true (snd fe) (fst fe))) as [|e evs]; cbn [flat_map].
  - exact IH.
  - rewrite IH. reflexivity.
Qed.

Lemma flat_map_concat {A B} (f : A -> list B) (ls : list (list A)) :
  flat_map f (concat ls) = flat_map (flat_map f) ls.
Proof.
  induction ls as [|l ls IH]; [reflexivity|]. cbn [concat flat_map]. rewrite flat_map_app, IH. reflexivity.
Qed.

(** N goroutines, each processing its own list of requests, one shared framed output: for every
    schedule the output consists of whole replies, each request's own reply, in some order. *)
Theorem concurrent_process_no_interleaving svc h (reqs : list (list (bytes * bytes))) sched s :
  wrun (winit (map (sections_of svc h) reqs)) sched = Some s -> all_done s = true ->
  f_pending (w_out s) = [] /\
  f_sent (w_out s) = flat_map frames_of (w_log s) /\
  Permutation.Permutation (f_sent (w_out s)) (flat_map (own_frames svc h) (concat reqs)).
Proof.
  intros Hr Hd.
  assert (Hc : Forall closed (concat (map (sections_of svc h) reqs))).
  { apply Forall_forall. intros evs Hin. apply in_concat in Hin. destruct Hin as (l & Hl & Hin).
    apply in_map_iff in Hl. destruct Hl as (fr & <- & _).
    pose proof (sections_closed svc h fr) as Hf. rewrite Forall_forall in Hf. apply Hf. exact Hin. }
  destruct (writers_no_interleaving _ _ _ Hc Hr Hd) as (H1 & H2 & _ & H4).
  repeat split; try assumption.
  eapply Permutation.Permutation_trans; [exact H4|].
  rewrite !flat_map_concat.
  assert (E : flat_map (flat_map frames_of) (map (sections_of svc h) reqs) =
              flat_map (flat_map (own_frames svc h)) reqs).
  { clear. induction reqs as [|r rs IH]; [reflexivity|].
    cbn [map flat_map]. rewrite sections_frames, IH. reflexivity. }
  rewrite E. apply Permutation.Permutation_refl.
Qed.

(** every output of Process, for any input at all, is at most one whole frame *)
Theorem process_at_most_one_frame svc h etext frame s :
  f_pending s = [] ->
  exists fs, framed_run s (snd (process svc h true etext frame)) = mkfs [] (f_sent s ++ fs) /\
             (length fs <= 1)%nat.
Proof.
  intros Hp. destruct (process_shape svc h etext frame) as [E|[f Hf]].
  - rewrite E. exists []. cbn. rewrite app_nil_r. destruct s; cbn in *; subst. split; [reflexivity|lia].
  - exists [f]. split; [apply (shape_one_frame _ _ Hf s Hp)|cbn; lia].
Qed.

(** F14 settled (after the repair): an unknown method is answered with UNKNOWN_METHOD whatever follows the
    envelope, decodable as a struct or not *)
Theorem unknown_method_always_answered svc h hdrs opid name mt seq junk :
  header_size hdrs < 2147483648 -> zlen name < 2147483648 -> 0 <= mt < 256 -> in_range 4 seq ->
  Headers.lookup opid_header (to_map hdrs) = Some opid ->
  find_method svc name = None ->
  expected_answer svc h (marshal hdrs ++ write_message_begin name mt seq ++ junk)
  = Some (opid, AExc ex_unknown_method).
Proof.
  intros Hh Hn Hm Hs Ho Hf. unfold expected_answer.
  rewrite stream_roundtrip by exact Hh. rewrite Ho.
  rewrite read_message_begin_write by assumption. rewrite Hf. reflexivity.
Qed.
