(** Lexical theorems about the generated grammar run by the pigeon interpreter: single-character
    matchers, repetition over them, and the Identifier rule (C10 stage 3). *)
From Coq Require Import ZArith List Bool Arith Lia String.
From FV Require Import Model.PegSyntax Model.Peg Model.PegWf Model.ParserStrings Model.ParserAst
     Model.ParserActions Model.Parser Proofs.PegProofs.
Import ListNotations.
Local Open Scope Z_scope.

Notation ev := (Peg.eval action val aerr VNil VBytes VList run_action rules).
Notation ev_loop := (Peg.eval_loop action val aerr VNil VBytes VList run_action rules).
Notation st_of := (@mkst aerr).
Definition ev_S := eval_S action val aerr VNil VBytes VList run_action rules.
Definition ev_loop_S := eval_loop_S action val aerr VNil VBytes VList run_action rules.

Definition ascii (c : Z) : Prop := 0 <= c < 128.
Definition ascii_next (l : bytes) : Prop := match l with [] => True | c :: _ => ascii c end.

Lemma decode_ascii : forall c t, ascii c -> decode_rune (c :: t) = (c, 1).
Proof.
  intros c t [H0 H1]. unfold decode_rune. destruct (Z.ltb_spec c 128) as [_|Hc]; [reflexivity | lia].
Qed.

Lemma skip_width_1 : forall (c : Z) t, skip_width 1 (c :: t) = t.
Proof. reflexivity. Qed.

Lemma advance_ascii : forall cr c t o (es : list (perr aerr)), ascii c -> ascii_next t ->
  advance aerr cr (st_of (c :: t) o es) = st_of t (o + 1) es.
Proof.
  intros cr c t o es Hc Ht. unfold advance. cbn [rest off errs]. rewrite (decode_ascii c t Hc). cbn [snd].
  rewrite skip_width_1.
  destruct t as [|c2 t2].
  - reflexivity.
  - cbn in Ht. rewrite (decode_ascii c2 t2 Ht).
    assert (Hne : (c2 =? rune_error) = false) by (apply Z.eqb_neq; unfold ascii, rune_error in *; lia).
    rewrite Hne. reflexivity.
Qed.

(** [e] matches exactly one ASCII character satisfying [p] (with at least [k] units of depth) *)
Definition matches_char (e : cexpr action) (p : Z -> bool) (k : nat) : Prop :=
  (forall f cr c t o es fr, (k <= f)%nat -> ascii c -> p c = true -> ascii_next t ->
     ev f e cr (st_of (c :: t) o es) fr = Done true (VBytes [c]) (st_of t (o + 1) es) fr)
  /\ (forall f cr c t o es fr, (k <= f)%nat -> ascii c -> p c = false ->
     ev f e cr (st_of (c :: t) o es) fr = Done false VNil (st_of (c :: t) o es) fr)
  /\ (forall f cr o es fr, (k <= f)%nat ->
        ev f e cr (st_of [] o es) fr = Done false VNil (st_of [] o es) fr).

Lemma takeZ_1 : forall c t, takeZ 1 (c :: t) = [c].
Proof. intros. cbn. destruct t; reflexivity. Qed.

Lemma ascii_not_error : forall c, ascii c -> (c =? rune_error) = false.
Proof. intros c Hc. apply Z.eqb_neq. unfold ascii, rune_error in *. lia. Qed.

Lemma class_matches : forall chars ranges,
  matches_char (CClass chars ranges false) (fun c => in_chars c chars || in_ranges c ranges) 1.
Proof.
  intros chars ranges. split; [|split].
  - intros f cr c t o es fr Hf Hc Hp Ht. destruct f as [|f]; [lia|]. rewrite ev_S. unfold match_class.
    cbn [rest]. rewrite (decode_ascii c t Hc), (ascii_not_error c Hc), Hp.
    rewrite (advance_ascii cr c t o es Hc Ht), takeZ_1. reflexivity.
  - intros f cr c t o es fr Hf Hc Hp. destruct f as [|f]; [lia|]. rewrite ev_S. unfold match_class.
    cbn [rest]. rewrite (decode_ascii c t Hc), (ascii_not_error c Hc), Hp. reflexivity.
  - intros f cr o es fr Hf. destruct f as [|f]; [lia|]. rewrite ev_S. reflexivity.
Qed.

Lemma lit1_matches : forall r, ascii r -> matches_char (CLit [r]) (fun c => c =? r) 1.
Proof.
  intros r Hr. split; [|split].
  - intros f cr c t o es fr Hf Hc Hp Ht. destruct f as [|f]; [lia|]. rewrite ev_S. cbn [lit_go].
    unfold cur_rune. cbn [rest]. rewrite (decode_ascii c t Hc). cbn [fst]. rewrite Hp.
    rewrite (advance_ascii cr c t o es Hc Ht). cbn [off rest]. replace (o + 1 - o) with 1 by lia.
    rewrite takeZ_1. reflexivity.
  - intros f cr c t o es fr Hf Hc Hp. destruct f as [|f]; [lia|]. rewrite ev_S. cbn [lit_go].
    unfold cur_rune. cbn [rest]. rewrite (decode_ascii c t Hc). cbn [fst]. rewrite Hp. reflexivity.
  - intros f cr o es fr Hf. destruct f as [|f]; [lia|]. rewrite ev_S. cbn [lit_go]. unfold cur_rune. cbn [rest].
    change (decode_rune []) with (rune_error, 0). cbn [fst].
    destruct (Z.eqb_spec rune_error r) as [He|Hne]; [unfold ascii, rune_error in *; lia | reflexivity].
Qed.

Lemma ref_matches : forall i body p k,
  nth_error rules i = Some body -> matches_char body p k -> matches_char (CRef i) p (S k).
Proof.
  intros i body p k Hb (Hm & Hn & He). split; [|split].
  - intros f cr c t o es fr Hf Hc Hp Ht. destruct f as [|f]; [lia|]. rewrite ev_S, Hb.
    rewrite (Hm f i c t o es [] ltac:(lia) Hc Hp Ht). reflexivity.
  - intros f cr c t o es fr Hf Hc Hp. destruct f as [|f]; [lia|]. rewrite ev_S, Hb.
    rewrite (Hn f i c t o es [] ltac:(lia) Hc Hp). reflexivity.
  - intros f cr o es fr Hf. destruct f as [|f]; [lia|]. rewrite ev_S, Hb.
    rewrite (He f i o es [] ltac:(lia)). reflexivity.
Qed.

Lemma choice_nil_matches : matches_char (CChoice []) (fun _ => false) 1.
Proof.
  split; [|split]; intros; try discriminate; (destruct f as [|f]; [lia|]); rewrite ev_S; reflexivity.
Qed.

Lemma choice_cons_matches : forall e es p q k k',
  matches_char e p k -> matches_char (CChoice es) q k' ->
  matches_char (CChoice (e :: es)) (fun c => p c || q c) (S (Nat.max k k')).
Proof.
  intros e es p q k k' (Hm & Hn & He) (Hm' & Hn' & He'). split; [|split].
  - intros f cr c t o es0 fr Hf Hc Hp Ht. destruct f as [|f]; [lia|]. rewrite ev_S. cbn [choice_go].
    destruct (p c) eqn:Hpc.
    + rewrite (Hm f cr c t o es0 [] ltac:(lia) Hc Hpc Ht). reflexivity.
    + rewrite (Hn f cr c t o es0 [] ltac:(lia) Hc Hpc). cbn [orb] in Hp.
      specialize (Hm' (S f) cr c t o es0 fr ltac:(lia) Hc Hp Ht). rewrite ev_S in Hm'. exact Hm'.
  - intros f cr c t o es0 fr Hf Hc Hp. destruct f as [|f]; [lia|]. rewrite ev_S. cbn [choice_go].
    apply orb_false_iff in Hp. destruct Hp as [Hpc Hqc].
    rewrite (Hn f cr c t o es0 [] ltac:(lia) Hc Hpc).
    specialize (Hn' (S f) cr c t o es0 fr ltac:(lia) Hc Hqc). rewrite ev_S in Hn'. exact Hn'.
  - intros f cr o es0 fr Hf. destruct f as [|f]; [lia|]. rewrite ev_S. cbn [choice_go].
    rewrite (He f cr o es0 [] ltac:(lia)).
    specialize (He' (S f) cr o es0 fr ltac:(lia)). rewrite ev_S in He'. exact He'.
Qed.

(** a rule whose body is a character class is known by what it accepts, not by how the class is
    spelled in the grammar (so [,;] and [;,] are the same to every lemma below) *)
Definition ascii_codes : list Z := map Z.of_nat (seq 0 128).

Lemma ascii_in_codes : forall c, ascii c -> In c ascii_codes.
Proof.
  intros c [H0 H1]. unfold ascii_codes. replace c with (Z.of_nat (Z.to_nat c)) by lia.
  apply in_map. apply in_seq. lia.
Qed.

Lemma matches_char_ext : forall e p q k,
  (forall c, ascii c -> p c = q c) -> matches_char e p k -> matches_char e q k.
Proof.
  intros e p q k Hpq (Hm & Hn & He). split; [|split].
  - intros f cr c t o es fr Hf Hc Hq Ht. apply Hm; try assumption. rewrite (Hpq c Hc). exact Hq.
  - intros f cr c t o es fr Hf Hc Hq. apply Hn; try assumption. rewrite (Hpq c Hc). exact Hq.
  - exact He.
Qed.

Definition class_rule (i : nat) (p : Z -> bool) : Prop :=
  exists chars ranges, nth_error rules i = Some (CClass chars ranges false)
    /\ forallb (fun c => Bool.eqb (in_chars c chars || in_ranges c ranges) (p c)) ascii_codes = true.

Lemma class_rule_matches : forall i p, class_rule i p -> matches_char (CRef i) p 2.
Proof.
  intros i p (chars & ranges & Hb & Hall).
  apply (ref_matches i _ _ 1 Hb).
  apply (matches_char_ext _ (fun c => in_chars c chars || in_ranges c ranges)); [|apply class_matches].
  intros c Hc. rewrite forallb_forall in Hall. specialize (Hall c (ascii_in_codes c Hc)).
  apply Bool.eqb_prop in Hall. exact Hall.
Qed.

(** what follows a run of [p]-characters: end of input, or an ASCII character not in [p] *)
Definition stops (p : Z -> bool) (t : bytes) : Prop :=
  match t with [] => True | c :: _ => ascii c /\ p c = false end.

Lemma stops_ascii_next : forall p t, stops p t -> ascii_next t.
Proof. intros p [|c t]; cbn; tauto. Qed.

Definition run_of (p : Z -> bool) (w : bytes) : Prop := Forall (fun c => ascii c /\ p c = true) w.

Lemma run_app_ascii_next : forall p w t, run_of p w -> ascii_next t -> ascii_next (w ++ t).
Proof. intros p [|c w] t Hw Ht; cbn; [exact Ht | inversion Hw; tauto]. Qed.

(** the repetition loop consumes a maximal run *)
Lemma loop_run : forall b p k, matches_char b p k ->
  forall w t f cr o es fr acc,
  run_of p w -> stops p t -> (k + List.length w + 1 <= f)%nat ->
  ev_loop f b cr (st_of (w ++ t) o es) fr acc =
  Done true (VList (rev acc ++ map (fun c => VBytes [c]) w)) (st_of t (o + Z.of_nat (List.length w)) es) fr.
Proof.
  intros b p k (Hm & Hn & He) w. induction w as [|c w IH]; intros t f cr o es fr acc Hw Ht Hf.
  - cbn [app List.length map]. destruct f as [|f]; [lia|]. rewrite ev_loop_S.
    replace (o + Z.of_nat 0) with o by lia. rewrite app_nil_r.
    destruct t as [|c t].
    + rewrite (He f cr o es [] ltac:(lia)). reflexivity.
    + destruct Ht as [Hc Hp]. rewrite (Hn f cr c t o es [] ltac:(lia) Hc Hp). reflexivity.
  - inversion Hw as [|c' w' [Hc Hp] Hw']; subst. cbn [List.length] in Hf.
    destruct f as [|f]; [lia|]. rewrite ev_loop_S. cbn [app].
    rewrite (Hm f cr c (w ++ t) o es [] ltac:(lia) Hc Hp
               (run_app_ascii_next p w t Hw' (stops_ascii_next p t Ht))).
    rewrite (IH t f cr (o + 1) es fr (VBytes [c] :: acc) Hw' Ht ltac:(lia)).
    cbn [rev map List.length]. rewrite <- app_assoc. cbn [app].
    replace (o + 1 + Z.of_nat (List.length w)) with (o + Z.of_nat (S (List.length w))) by lia.
    reflexivity.
Qed.

(** ** the Identifier rule: (Letter / '_')+ (Letter / Digit / [._])* *)
Definition p_letter (c : Z) : bool := in_chars c [] || in_ranges c [(65, 90); (97, 122)].
Definition p_digit (c : Z) : bool := in_chars c [] || in_ranges c [(48, 57)].
Definition p_start (c : Z) : bool := p_letter c || ((c =? 95) || false).
Definition p_cont (c : Z) : bool := p_letter c || (p_digit c || ((in_chars c [46; 95] || in_ranges c []) || false)).

Definition id_Identifier : nat := 45.
Definition id_Letter : nat := 47.
Definition id_Digit : nat := 48.

(** the shape of the three rules in the grammar regenerated from grammar.peg.go *)
Lemma identifier_rule_shape :
  rule_id "Identifier" = id_Identifier /\ rule_id "Letter" = id_Letter /\ rule_id "Digit" = id_Digit
  /\ nth_error rules id_Identifier =
     Some (CAct AIdentifier1
            (CSeq [CPlus (CChoice [CRef id_Letter; CLit [95]]);
                   CStar (CChoice [CRef id_Letter; CRef id_Digit; CClass [46; 95] [] false])]))
  /\ class_rule id_Letter p_letter
  /\ class_rule id_Digit p_digit.
Proof.
  split; [vm_compute; reflexivity|]. split; [vm_compute; reflexivity|]. split; [vm_compute; reflexivity|].
  split; [vm_compute; reflexivity|].
  split; (eexists; eexists; split; [vm_compute; reflexivity | vm_compute; reflexivity]).
Qed.

Lemma letter_matches : matches_char (CRef id_Letter) p_letter 2.
Proof. destruct identifier_rule_shape as (_ & _ & _ & _ & HL & _). exact (class_rule_matches _ _ HL). Qed.

Lemma digit_matches : matches_char (CRef id_Digit) p_digit 2.
Proof. destruct identifier_rule_shape as (_ & _ & _ & _ & _ & HD). exact (class_rule_matches _ _ HD). Qed.

Lemma start_matches : matches_char (CChoice [CRef id_Letter; CLit [95]]) p_start 3.
Proof.
  assert (H95 : ascii 95) by (unfold ascii; lia).
  pose proof (choice_cons_matches _ _ _ _ _ _ (lit1_matches 95 H95) choice_nil_matches) as H1.
  pose proof (choice_cons_matches _ _ _ _ _ _ letter_matches H1) as H2.
  exact H2.
Qed.

Lemma cont_matches :
  matches_char (CChoice [CRef id_Letter; CRef id_Digit; CClass [46; 95] [] false]) p_cont 4.
Proof.
  pose proof (choice_cons_matches _ _ _ _ _ _ (class_matches [46; 95] []) choice_nil_matches) as H1.
  pose proof (choice_cons_matches _ _ _ _ _ _ digit_matches H1) as H2.
  pose proof (choice_cons_matches _ _ _ _ _ _ letter_matches H2) as H3.
  exact H3.
Qed.

Lemma p_start_cont : forall c, p_start c = true -> p_cont c = true.
Proof.
  intros c H. unfold p_start, p_cont in *. destruct (p_letter c); [reflexivity|]. cbn [orb] in *.
  rewrite orb_false_r in H. apply Z.eqb_eq in H. subst c. reflexivity.
Qed.

(** splitting a run of continuation characters at the end of its maximal start-character prefix *)
Lemma split_run : forall t, run_of p_cont t ->
  exists x1 x2, t = x1 ++ x2 /\ run_of p_start x1 /\ run_of p_cont x2
                /\ match x2 with [] => True | c :: _ => p_start c = false end.
Proof.
  induction t as [|c t IH]; intros Hr.
  - exists [], []. repeat split; constructor.
  - inversion Hr as [|c' t' [Hc Hp] Ht]; subst.
    destruct (p_start c) eqn:Hs.
    + destruct (IH Ht) as (x1 & x2 & -> & H1 & H2 & H3).
      exists (c :: x1), x2. repeat split; try assumption. constructor; [split; assumption | assumption].
    + exists [], (c :: t). repeat split; try assumption. constructor.
Qed.

Lemma takeZ_app_exact : forall (x r : bytes), takeZ (Z.of_nat (List.length x)) (x ++ r) = x.
Proof.
  induction x as [|c x IH]; intros r.
  - cbn. destruct r; reflexivity.
  - cbn [List.length app takeZ]. destruct (Z.leb_spec (Z.of_nat (S (List.length x))) 0) as [Hle|_]; [lia|].
    replace (Z.of_nat (S (List.length x)) - 1) with (Z.of_nat (List.length x)) by lia.
    rewrite IH. reflexivity.
Qed.

(** Identifier round trip at the rule level: on input [x ++ follow], where [x] has the shape of an
    identifier and [follow] cannot continue one, the rule consumes exactly [x], yields [Identifier x],
    and records no error. *)
Lemma identifier_rule : forall c t follow f cr o es fr,
  ascii c -> p_start c = true -> run_of p_cont t -> stops p_cont follow ->
  (List.length t + 12 <= f)%nat ->
  ev f (CRef id_Identifier) cr (st_of ((c :: t) ++ follow) o es) fr =
  Done true (VIdent (c :: t)) (st_of follow (o + Z.of_nat (List.length (c :: t))) es) fr.
Proof.
  intros c t follow f cr o es fr Hc Hs Ht Hstop Hf.
  destruct identifier_rule_shape as (_ & _ & _ & HI & _ & _).
  destruct (split_run t Ht) as (x1 & x2 & -> & H1 & H2 & H3).
  destruct start_matches as (Sm & Sn & Se).
  assert (Hstop1 : stops p_start (x2 ++ follow)).
  { destruct x2 as [|c2 x2]; cbn [app].
    - destruct follow as [|d follow]; cbn; [exact I|]. destruct Hstop as [Hd Hp]. split; [exact Hd|].
      destruct (p_start d) eqn:Hsd; [|reflexivity]. rewrite (p_start_cont d Hsd) in Hp. discriminate.
    - inversion H2 as [|c' w' [Hc2 _] _]; subst. split; assumption. }
  rewrite app_length in Hf.
  (* peel: CRef, CAct, CSeq *)
  destruct f as [|f]; [lia|]. rewrite ev_S, HI.
  destruct f as [|f]; [lia|]. rewrite ev_S.
  destruct f as [|f]; [lia|]. rewrite ev_S. cbn [seq_go].
  (* the + loop *)
  destruct f as [|f]; [lia|]. rewrite (ev_S f (CPlus _)).
  cbn [app]. rewrite <- app_assoc.
  rewrite (Sm f id_Identifier c (x1 ++ x2 ++ follow) o es [] ltac:(lia) Hc Hs
             (run_app_ascii_next p_start x1 (x2 ++ follow) H1 (stops_ascii_next p_start _ Hstop1))).
  rewrite (loop_run _ _ _ start_matches x1 (x2 ++ follow) f id_Identifier (o + 1) es [] [VBytes [c]] H1 Hstop1 ltac:(lia)).
  (* the * loop *)
  rewrite (ev_S f (CStar _)).
  rewrite (loop_run _ _ _ cont_matches x2 follow f id_Identifier _ es [] [] H2 Hstop ltac:(lia)).
  (* the action *)
  unfold finish_action. cbn [rest off]. unfold run_action, run_action_opt.
  replace (o + 1 + Z.of_nat (List.length x1) + Z.of_nat (List.length x2) - o)
    with (Z.of_nat (List.length (c :: x1 ++ x2))) by (cbn [List.length]; rewrite app_length; lia).
  replace (c :: x1 ++ x2 ++ follow) with ((c :: x1 ++ x2) ++ follow) by (cbn [app]; rewrite <- app_assoc; reflexivity).
  rewrite takeZ_app_exact. cbn [ok].
  replace (o + 1 + Z.of_nat (List.length x1) + Z.of_nat (List.length x2))
    with (o + Z.of_nat (List.length (c :: x1 ++ x2))) by (cbn [List.length]; rewrite app_length; lia).
  reflexivity.
Qed.

(** ** integer constants: decimal rendering, strconv.ParseInt, and the IntConstant rule *)
Fixpoint render_nat_fuel (fuel : nat) (n : Z) (acc : bytes) : bytes :=
  match fuel with
  | O => acc
  | S f => if n <? 10 then (48 + n) :: acc else render_nat_fuel f (n / 10) ((48 + n mod 10) :: acc)
  end.
Fixpoint ndigits (fuel : nat) (n : Z) : Z :=
  match fuel with
  | O => 0
  | S f => if n <? 10 then 1 else 1 + ndigits f (n / 10)
  end.
(** 20 decimal digits cover every 64-bit magnitude *)
Definition render_nat (n : Z) : bytes := render_nat_fuel 20 n [].
Definition render_int (z : Z) : bytes := if z <? 0 then 45 :: render_nat (- z) else render_nat z.

Lemma digits_value_digit : forall d t v, 0 <= d <= 9 ->
  digits_value ((48 + d) :: t) v = digits_value t (v * 10 + d).
Proof.
  intros d t v Hd. cbn [digits_value].
  destruct (Z.leb_spec 48 (48 + d)); [|lia]. destruct (Z.leb_spec (48 + d) 57); [|lia].
  cbn [andb]. f_equal. lia.
Qed.

Lemma ndigits_nonneg : forall fuel n, 0 <= ndigits fuel n.
Proof. induction fuel as [|f IH]; intros n; cbn [ndigits]; [lia|]. destruct (n <? 10); [lia | specialize (IH (n / 10)); lia]. Qed.

Lemma render_nat_fuel_value : forall fuel n acc v,
  0 <= n < 10 ^ Z.of_nat fuel ->
  digits_value (render_nat_fuel fuel n acc) v = digits_value acc (v * 10 ^ ndigits fuel n + n).
Proof.
  induction fuel as [|f IH]; intros n acc v Hn.
  - cbn in Hn. assert (n = 0) by lia. subst. cbn. f_equal. lia.
  - cbn [render_nat_fuel ndigits]. destruct (Z.ltb_spec n 10) as [Hlt|Hge].
    + rewrite (digits_value_digit n acc v) by lia. f_equal; lia.
    + assert (Hq : 0 <= n / 10 < 10 ^ Z.of_nat f).
      { split; [apply Z.div_pos; lia|]. apply Z.div_lt_upper_bound; [lia|].
        replace (Z.of_nat (S f)) with (Z.of_nat f + 1) in Hn by lia.
        rewrite Z.pow_add_r in Hn by lia. lia. }
      rewrite (IH (n / 10) ((48 + n mod 10) :: acc) v Hq).
      rewrite (digits_value_digit (n mod 10) acc) by (pose proof (Z.mod_pos_bound n 10); lia).
      f_equal. pose proof (ndigits_nonneg f (n / 10)) as Hk.
      rewrite Z.pow_add_r by lia. pose proof (Z.div_mod n 10). lia.
Qed.

Lemma render_nat_fuel_head : forall fuel n acc, (1 <= fuel)%nat -> 0 <= n < 10 ^ Z.of_nat fuel ->
  exists d t, render_nat_fuel fuel n acc = d :: t /\ 48 <= d <= 57.
Proof.
  induction fuel as [|f IH]; intros n acc Hf Hn; [lia|].
  cbn [render_nat_fuel]. destruct (Z.ltb_spec n 10) as [Hlt|Hge].
  - exists (48 + n), acc. split; [reflexivity | lia].
  - assert (Hq : 0 <= n / 10 < 10 ^ Z.of_nat f).
    { split; [apply Z.div_pos; lia|]. apply Z.div_lt_upper_bound; [lia|].
      replace (Z.of_nat (S f)) with (Z.of_nat f + 1) in Hn by lia.
      rewrite Z.pow_add_r in Hn by lia. lia. }
    destruct f as [|f']; [cbn in Hq; assert (n / 10 = 0) by lia; assert (n < 10) by (apply Z.div_small_iff in H; lia); lia|].
    apply IH; [lia | exact Hq].
Qed.

Lemma parse_int64_nosign : forall d t, 48 <= d <= 57 ->
  parse_int64 (d :: t) =
  match digits_value (d :: t) 0 with
  | None => inr NumSyntax
  | Some v => if 9223372036854775807 <? v then inr NumRange else inl v
  end.
Proof.
  intros d t Hd.
  assert (Hc : d = 48 \/ d = 49 \/ d = 50 \/ d = 51 \/ d = 52 \/ d = 53 \/ d = 54 \/ d = 55 \/ d = 56 \/ d = 57) by lia.
  destruct Hc as [->|[->|[->|[->|[->|[->|[->|[->|[->| ->]]]]]]]]]; reflexivity.
Qed.

(** strconv.ParseInt(render z, 10, 64) = z for every 64-bit z *)
Lemma parse_int64_render : forall z, - 9223372036854775808 <= z <= 9223372036854775807 ->
  parse_int64 (render_int z) = inl z.
Proof.
  intros z Hz. unfold render_int, render_nat.
  assert (Hpow : 10 ^ Z.of_nat 20 = 100000000000000000000) by reflexivity.
  destruct (Z.ltb_spec z 0) as [Hneg|Hpos].
  - destruct (render_nat_fuel_head 20 (- z) [] ltac:(lia) ltac:(lia)) as (d & t & Hr & Hd).
    pose proof (render_nat_fuel_value 20 (- z) [] 0 ltac:(lia)) as Hv. rewrite Hr in *.
    unfold parse_int64. rewrite Hv. cbn [digits_value].
    replace (0 * 10 ^ ndigits 20 (- z) + - z) with (- z) by lia.
    destruct (Z.ltb_spec 9223372036854775808 (- z)); [lia|]. f_equal. lia.
  - destruct (render_nat_fuel_head 20 z [] ltac:(lia) ltac:(lia)) as (d & t & Hr & Hd).
    pose proof (render_nat_fuel_value 20 z [] 0 ltac:(lia)) as Hv. rewrite Hr in *.
    rewrite (parse_int64_nosign d t Hd), Hv. cbn [digits_value].
    replace (0 * 10 ^ ndigits 20 z + z) with z by lia.
    destruct (Z.ltb_spec 9223372036854775807 z); [lia|]. reflexivity.
Qed.

(** the IntConstant rule: [-+]? Digit+ with strconv.ParseInt as its action *)
Definition id_IntConstant : nat := 34.
Definition p_sign (c : Z) : bool := in_chars c [45; 43] || in_ranges c [].

Lemma int_rule_shape :
  rule_id "IntConstant" = id_IntConstant
  /\ nth_error rules id_IntConstant =
     Some (CAct AIntConstant1 (CSeq [COpt (CClass [45; 43] [] false); CPlus (CRef id_Digit)])).
Proof. vm_compute. split; reflexivity. Qed.

Lemma digit_not_sign : forall d, p_digit d = true -> p_sign d = false.
Proof.
  intros d H. unfold p_digit, p_sign in *. cbn [in_chars in_ranges] in *.
  rewrite orb_false_r in H. cbn [orb] in H. apply andb_true_iff in H. destruct H as [H1 H2].
  apply Z.leb_le in H1. apply Z.leb_le in H2.
  destruct (Z.eqb_spec 45 d); [lia|]. destruct (Z.eqb_spec 43 d); [lia|]. reflexivity.
Qed.

Lemma seq_go_cons : forall evf cr st0 e1 es st1 fr1 acc,
  seq_go action val aerr VNil VList evf cr st0 (e1 :: es) st1 fr1 acc =
  match evf e1 cr st1 fr1 with
  | Done true v st2 fr2 => seq_go action val aerr VNil VList evf cr st0 es st2 fr2 (v :: acc)
  | Done false _ st2 fr2 => Done false VNil (restore aerr st0 st2) fr2
  | other => other
  end.
Proof. reflexivity. Qed.

(** after the optional sign: digits, then the action on the whole text *)
Lemma int_rule_digits : forall pre d ds follow f o0 o es fr v0,
  ascii d -> p_digit d = true -> run_of p_digit ds -> stops p_digit follow ->
  (List.length ds + 8 <= f)%nat ->
  o = o0 + Z.of_nat (List.length pre) ->
  seq_go action val aerr VNil VList (ev f) id_IntConstant (st_of (pre ++ (d :: ds) ++ follow) o0 es)
         [CPlus (CRef id_Digit)] (st_of ((d :: ds) ++ follow) o es) fr [v0]
  = Done true (VList [v0; VList (map (fun c => VBytes [c]) (d :: ds))])
         (st_of follow (o0 + Z.of_nat (List.length (pre ++ d :: ds))) es) fr.
Proof.
  intros pre d ds follow f o0 o es fr v0 Hd Hp Hds Hstop Hf Ho.
  destruct digit_matches as (Dm & Dn & De).
  cbn [seq_go]. destruct f as [|f]; [lia|]. rewrite (ev_S f (CPlus _)). cbn [app].
  rewrite (Dm f id_IntConstant d (ds ++ follow) o es [] ltac:(lia) Hd Hp
             (run_app_ascii_next p_digit ds follow Hds (stops_ascii_next p_digit _ Hstop))).
  rewrite (loop_run _ _ _ digit_matches ds follow f id_IntConstant (o + 1) es fr [VBytes [d]] Hds Hstop ltac:(lia)).
  cbn [rev app map]. rewrite app_length. cbn [List.length].
  replace (o + 1 + Z.of_nat (List.length ds)) with (o0 + Z.of_nat (List.length pre + S (List.length ds))) by lia.
  reflexivity.
Qed.

Lemma int_rule : forall sign d ds follow f cr o es fr z,
  (sign = [] \/ sign = [45] \/ sign = [43]) ->
  ascii d -> p_digit d = true -> run_of p_digit ds -> stops p_digit follow ->
  (List.length ds + 12 <= f)%nat ->
  parse_int64 (sign ++ d :: ds) = inl z ->
  ev f (CRef id_IntConstant) cr (st_of (sign ++ (d :: ds) ++ follow) o es) fr =
  Done true (VInt z) (st_of follow (o + Z.of_nat (List.length (sign ++ d :: ds))) es) fr.
Proof.
  intros sign d ds follow f cr o es fr z Hsign Hd Hp Hds Hstop Hf Hz.
  destruct int_rule_shape as (_ & HI).
  destruct (class_matches [45; 43] []) as (Sm & Sn & Se). fold p_sign in Sm, Sn.
  destruct f as [|f]; [lia|]. rewrite ev_S, HI.
  destruct f as [|f]; [lia|]. rewrite ev_S.
  destruct f as [|f]; [lia|]. rewrite ev_S. rewrite seq_go_cons.
  destruct f as [|f]; [lia|]. rewrite (ev_S f (COpt _)).
  assert (Hfin : forall st1 fr1,
            st1 = st_of follow (o + Z.of_nat (List.length (sign ++ d :: ds))) es ->
            finish_action action val aerr run_action AIntConstant1 id_IntConstant
                          (st_of (sign ++ (d :: ds) ++ follow) o es) st1 fr1
            = Done true (VInt z) st1 fr1).
  { intros st1 fr1 ->. unfold finish_action. cbn [rest off]. unfold run_action, run_action_opt.
    replace (o + Z.of_nat (List.length (sign ++ d :: ds)) - o) with (Z.of_nat (List.length (sign ++ d :: ds))) by lia.
    replace (sign ++ (d :: ds) ++ follow) with ((sign ++ d :: ds) ++ follow) by (rewrite <- app_assoc; reflexivity).
    rewrite takeZ_app_exact, Hz. reflexivity. }
  destruct Hsign as [->|[->| ->]].
  - (* no sign: the optional class fails on a digit *)
    cbn [app]. rewrite (Sn f id_IntConstant d (ds ++ follow) o es [] ltac:(lia) Hd (digit_not_sign d Hp)).
    pose proof (int_rule_digits [] d ds follow (S f) o o es [] VNil Hd Hp Hds Hstop ltac:(lia) ltac:(cbn; lia)) as Hs.
    cbn [app] in Hs. rewrite Hs. cbv iota beta. rewrite (Hfin _ _ eq_refl). reflexivity.
  - cbn [app].
    rewrite (Sm f id_IntConstant 45 (d :: ds ++ follow) o es [] ltac:(lia) ltac:(unfold ascii; lia) eq_refl Hd).
    pose proof (int_rule_digits [45] d ds follow (S f) o (o + 1) es [] (VBytes [45]) Hd Hp Hds Hstop ltac:(lia) ltac:(cbn; lia)) as Hs.
    cbn [app] in Hs. rewrite Hs. cbv iota beta. rewrite (Hfin _ _ eq_refl). reflexivity.
  - cbn [app].
    rewrite (Sm f id_IntConstant 43 (d :: ds ++ follow) o es [] ltac:(lia) ltac:(unfold ascii; lia) eq_refl Hd).
    pose proof (int_rule_digits [43] d ds follow (S f) o (o + 1) es [] (VBytes [43]) Hd Hp Hds Hstop ltac:(lia) ltac:(cbn; lia)) as Hs.
    cbn [app] in Hs. rewrite Hs. cbv iota beta. rewrite (Hfin _ _ eq_refl). reflexivity.
Qed.

Lemma p_digit_digit : forall d, 0 <= d <= 9 -> ascii (48 + d) /\ p_digit (48 + d) = true.
Proof.
  intros d Hd. split; [unfold ascii; lia|]. unfold p_digit. cbn [in_chars in_ranges orb].
  destruct (Z.leb_spec 48 (48 + d)); [|lia]. destruct (Z.leb_spec (48 + d) 57); [|lia]. reflexivity.
Qed.

Lemma render_nat_fuel_run : forall fuel n acc, 0 <= n ->
  run_of p_digit acc -> run_of p_digit (render_nat_fuel fuel n acc)
  /\ (List.length (render_nat_fuel fuel n acc) <= fuel + List.length acc)%nat.
Proof.
  induction fuel as [|f IH]; intros n acc Hn Hacc; cbn [render_nat_fuel]; [split; [exact Hacc | lia]|].
  destruct (Z.ltb_spec n 10) as [Hlt|Hge].
  - split; [constructor; [apply p_digit_digit; lia | exact Hacc] | cbn [List.length]; lia].
  - assert (Hm : 0 <= n mod 10 <= 9) by (pose proof (Z.mod_pos_bound n 10); lia).
    destruct (IH (n / 10) ((48 + n mod 10) :: acc) ltac:(apply Z.div_pos; lia)
                 ltac:(constructor; [apply p_digit_digit; exact Hm | exact Hacc])) as [H1 H2].
    split; [exact H1 | cbn [List.length] in H2; lia].
Qed.

(** integer-constant round trip through the generated rule: the decimal spelling of any 64-bit z,
    followed by something that is not a digit, is consumed exactly and yields z *)
Lemma int_const_roundtrip : forall z follow f cr o es fr,
  - 9223372036854775808 <= z <= 9223372036854775807 ->
  stops p_digit follow -> (32 <= f)%nat ->
  ev f (CRef id_IntConstant) cr (st_of (render_int z ++ follow) o es) fr =
  Done true (VInt z) (st_of follow (o + Z.of_nat (List.length (render_int z))) es) fr.
Proof.
  intros z follow f cr o es fr Hz Hstop Hf.
  pose proof (parse_int64_render z Hz) as Hp.
  assert (Hpow : 10 ^ Z.of_nat 20 = 100000000000000000000) by reflexivity.
  unfold render_int, render_nat in *.
  destruct (Z.ltb_spec z 0) as [Hneg|Hpos].
  - destruct (render_nat_fuel_head 20 (- z) [] ltac:(lia) ltac:(lia)) as (d & t & Hr & Hd).
    destruct (render_nat_fuel_run 20 (- z) [] ltac:(lia) ltac:(constructor)) as [Hrun Hlen].
    rewrite Hr in *. inversion Hrun as [|d' t' [Hda Hdp] Ht]; subst.
    cbn [List.length] in Hlen.
    exact (int_rule [45] d t follow f cr o es fr z (or_intror (or_introl eq_refl)) Hda Hdp Ht Hstop ltac:(lia) Hp).
  - destruct (render_nat_fuel_head 20 z [] ltac:(lia) ltac:(lia)) as (d & t & Hr & Hd).
    destruct (render_nat_fuel_run 20 z [] ltac:(lia) ltac:(constructor)) as [Hrun Hlen].
    rewrite Hr in *. inversion Hrun as [|d' t' [Hda Hdp] Ht]; subst.
    cbn [List.length] in Hlen.
    exact (int_rule [] d t follow f cr o es fr z (or_introl eq_refl) Hda Hdp Ht Hstop ltac:(lia) Hp).
Qed.
