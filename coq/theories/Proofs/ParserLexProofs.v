(** Lexical theorems about the generated grammar run by the pigeon interpreter: single-character
    matchers, repetition over them, and the Identifier rule (C10 stage 3). *)
From Coq Require Import ZArith List Bool Arith Lia String.
From FV Require Import Model.PegSyntax Model.Peg Model.PegWf Model.ParserStrings Model.ParserAst
     Model.ParserActions Model.Parser Proofs.PegProofs.
Import ListNotations.
Local Open Scope Z_scope.

Notation ev := (Peg.eval action val aerr VNil VBytes VList run_action rules).
Notation ev_loop := (Peg.eval_loop action val aerr VNil VBytes VList run_action rules).
Notation st_of := (@mkst aerr).
Definition ev_S := eval_S action val aerr VNil VBytes VList run_action rules.
Definition ev_loop_S := eval_loop_S action val aerr VNil VBytes VList run_action rules.

Definition ascii (c : Z) : Prop := 0 <= c < 128.
Definition ascii_next (l : bytes) : Prop := match l with [] => True | c :: _ => ascii c end.

Lemma decode_ascii : forall c t, ascii c -> decode_rune (c :: t) = (c, 1).
Proof.
  intros c t [H0 H1]. unfold decode_rune. destruct (Z.ltb_spec c 128) as [_|Hc]; [reflexivity | lia].
Qed.

Lemma skip_width_1 : forall (c : Z) t, skip_width 1 (c :: t) = t.
Proof. reflexivity. Qed.

Lemma advance_ascii : forall cr c t o (es : list (perr aerr)), ascii c -> ascii_next t ->
  advance aerr cr (st_of (c :: t) o es) = st_of t (o + 1) es.
Proof.
  intros cr c t o es Hc Ht. unfold advance. cbn [rest off errs]. rewrite (decode_ascii c t Hc). cbn [snd].
  rewrite skip_width_1.
  destruct t as [|c2 t2].
  - reflexivity.
  - cbn in Ht. rewrite (decode_ascii c2 t2 Ht).
    assert (Hne : (c2 =? rune_error) = false) by (apply Z.eqb_neq; unfold ascii, rune_error in *; lia).
    rewrite Hne. reflexivity.
Qed.

(** [e] matches exactly one ASCII character satisfying [p] (with at least [k] units of depth) *)
Definition matches_char (e : cexpr action) (p : Z -> bool) (k : nat) : Prop :=
  (forall f cr c t o es fr, (k <= f)%nat -> ascii c -> p c = true -> ascii_next t ->
     ev f e cr (st_of (c :: t) o es) fr = Done true (VBytes [c]) (st_of t (o + 1) es) fr)
  /\ (forall f cr c t o es fr, (k <= f)%nat -> ascii c -> p c = false ->
     ev f e cr (st_of (c :: t) o es) fr = Done false VNil (st_of (c :: t) o es) fr)
  /\ (forall f cr o es fr, (k <= f)%nat ->
        ev f e cr (st_of [] o es) fr = Done false VNil (st_of [] o es) fr).

Lemma takeZ_1 : forall c t, takeZ 1 (c :: t) = [c].
Proof. intros. cbn. destruct t; reflexivity. Qed.

Lemma ascii_not_error : forall c, ascii c -> (c =? rune_error) = false.
Proof. intros c Hc. apply Z.eqb_neq. unfold ascii, rune_error in *. lia. Qed.

Lemma class_matches : forall chars ranges,
  matches_char (CClass chars ranges false) (fun c => in_chars c chars || in_ranges c ranges) 1.
Proof.
  intros chars ranges. split; [|split].
  - intros f cr c t o es fr Hf Hc Hp Ht. destruct f as [|f]; [lia|]. rewrite ev_S. unfold match_class.
    cbn [rest]. rewrite (decode_ascii c t Hc), (ascii_not_error c Hc), Hp.
    rewrite (advance_ascii cr c t o es Hc Ht), takeZ_1. reflexivity.
  - intros f cr c t o es fr Hf Hc Hp. destruct f as [|f]; [lia|]. rewrite ev_S. unfold match_class.
    cbn [rest]. rewrite (decode_ascii c t Hc), (ascii_not_error c Hc), Hp. reflexivity.
  - intros f cr o es fr Hf. destruct f as [|f]; [lia|]. rewrite ev_S. reflexivity.
Qed.

Lemma lit1_matches : forall r, ascii r -> matches_char (CLit [r]) (fun c => c =? r) 1.
Proof.
  intros r Hr. split; [|split].
  - intros f cr c t o es fr Hf Hc Hp Ht. destruct f as [|f]; [lia|]. rewrite ev_S. cbn [lit_go].
    unfold cur_rune. cbn [rest]. rewrite (decode_ascii c t Hc). cbn [fst]. rewrite Hp.
    rewrite (advance_ascii cr c t o es Hc Ht). cbn [off rest]. replace (o + 1 - o) with 1 by lia.
    rewrite takeZ_1. reflexivity.
  - intros f cr c t o es fr Hf Hc Hp. destruct f as [|f]; [lia|]. rewrite ev_S. cbn [lit_go].
    unfold cur_rune. cbn [rest]. rewrite (decode_ascii c t Hc). cbn [fst]. rewrite Hp. reflexivity.
  - intros f cr o es fr Hf. destruct f as [|f]; [lia|]. rewrite ev_S. cbn [lit_go]. unfold cur_rune. cbn [rest].
    change (decode_rune []) with (rune_error, 0). cbn [fst].
    destruct (Z.eqb_spec rune_error r) as [He|Hne]; [unfold ascii, rune_error in *; lia | reflexivity].
Qed.

Lemma ref_matches : forall i body p k,
  nth_error rules i = Some body -> matches_char body p k -> matches_char (CRef i) p (S k).
Proof.
  intros i body p k Hb (Hm & Hn & He). split; [|split].
  - intros f cr c t o es fr Hf Hc Hp Ht. destruct f as [|f]; [lia|]. rewrite ev_S, Hb.
    rewrite (Hm f i c t o es [] ltac:(lia) Hc Hp Ht). reflexivity.
  - intros f cr c t o es fr Hf Hc Hp. destruct f as [|f]; [lia|]. rewrite ev_S, Hb.
    rewrite (Hn f i c t o es [] ltac:(lia) Hc Hp). reflexivity.
  - intros f cr o es fr Hf. destruct f as [|f]; [lia|]. rewrite ev_S, Hb.
    rewrite (He f i o es [] ltac:(lia)). reflexivity.
Qed.

Lemma choice_nil_matches : matches_char (CChoice []) (fun _ => false) 1.
Proof.
  split; [|split]; intros; try discriminate; (destruct f as [|f]; [lia|]); rewrite ev_S; reflexivity.
Qed.

Lemma choice_cons_matches : forall e es p q k k',
  matches_char e p k -> matches_char (CChoice es) q k' ->
  matches_char (CChoice (e :: es)) (fun c => p c || q c) (S (Nat.max k k')).
Proof.
  intros e es p q k k' (Hm & Hn & He) (Hm' & Hn' & He'). split; [|split].
  - intros f cr c t o es0 fr Hf Hc Hp Ht. destruct f as [|f]; [lia|]. rewrite ev_S. cbn [choice_go].
    destruct (p c) eqn:Hpc.
    + rewrite (Hm f cr c t o es0 [] ltac:(lia) Hc Hpc Ht). reflexivity.
    + rewrite (Hn f cr c t o es0 [] ltac:(lia) Hc Hpc). cbn [orb] in Hp.
      specialize (Hm' (S f) cr c t o es0 fr ltac:(lia) Hc Hp Ht). rewrite ev_S in Hm'. exact Hm'.
  - intros f cr c t o es0 fr Hf Hc Hp. destruct f as [|f]; [lia|]. rewrite ev_S. cbn [choice_go].
    apply orb_false_iff in Hp. destruct Hp as [Hpc Hqc].
    rewrite (Hn f cr c t o es0 [] ltac:(lia) Hc Hpc).
    specialize (Hn' (S f) cr c t o es0 fr ltac:(lia) Hc Hqc). rewrite ev_S in Hn'. exact Hn'.
  - intros f cr o es0 fr Hf. destruct f as [|f]; [lia|]. rewrite ev_S. cbn [choice_go].
    rewrite (He f cr o es0 [] ltac:(lia)).
    specialize (He' (S f) cr o es0 fr ltac:(lia)). rewrite ev_S in He'. exact He'.
Qed.

(** what follows a run of [p]-characters: end of input, or an ASCII character not in [p] *)
Definition stops (p : Z -> bool) (t : bytes) : Prop :=
  match t with [] => True | c :: _ => ascii c /\ p c = false end.

Lemma stops_ascii_next : forall p t, stops p t -> ascii_next t.
Proof. intros p [|c t]; cbn; tauto. Qed.

Definition run_of (p : Z -> bool) (w : bytes) : Prop := Forall (fun c => ascii c /\ p c = true) w.

Lemma run_app_ascii_next : forall p w t, run_of p w -> ascii_next t -> ascii_next (w ++ t).
Proof. intros p [|c w] t Hw Ht; cbn; [exact Ht | inversion Hw; tauto]. Qed.

(** the repetition loop consumes a maximal run *)
Lemma loop_run : forall b p k, matches_char b p k ->
  forall w t f cr o es fr acc,
  run_of p w -> stops p t -> (k + List.length w + 1 <= f)%nat ->
  ev_loop f b cr (st_of (w ++ t) o es) fr acc =
  Done true (VList (rev acc ++ map (fun c => VBytes [c]) w)) (st_of t (o + Z.of_nat (List.length w)) es) fr.
Proof.
  intros b p k (Hm & Hn & He) w. induction w as [|c w IH]; intros t f cr o es fr acc Hw Ht Hf.
  - cbn [app List.length map]. destruct f as [|f]; [lia|]. rewrite ev_loop_S.
    replace (o + Z.of_nat 0) with o by lia. rewrite app_nil_r.
    destruct t as [|c t].
    + rewrite (He f cr o es [] ltac:(lia)). reflexivity.
    + destruct Ht as [Hc Hp]. rewrite (Hn f cr c t o es [] ltac:(lia) Hc Hp). reflexivity.
  - inversion Hw as [|c' w' [Hc Hp] Hw']; subst. cbn [List.length] in Hf.
    destruct f as [|f]; [lia|]. rewrite ev_loop_S. cbn [app].
    rewrite (Hm f cr c (w ++ t) o es [] ltac:(lia) Hc Hp
               (run_app_ascii_next p w t Hw' (stops_ascii_next p t Ht))).
    rewrite (IH t f cr (o + 1) es fr (VBytes [c] :: acc) Hw' Ht ltac:(lia)).
    cbn [rev map List.length]. rewrite <- app_assoc. cbn [app].
    replace (o + 1 + Z.of_nat (List.length w)) with (o + Z.of_nat (S (List.length w))) by lia.
    reflexivity.
Qed.

(** ** the Identifier rule: (Letter / '_')+ (Letter / Digit / [._])* *)
Definition p_letter (c : Z) : bool := in_chars c [] || in_ranges c [(65, 90); (97, 122)].
Definition p_digit (c : Z) : bool := in_chars c [] || in_ranges c [(48, 57)].
Definition p_start (c : Z) : bool := p_letter c || ((c =? 95) || false).
Definition p_cont (c : Z) : bool := p_letter c || (p_digit c || ((in_chars c [46; 95] || in_ranges c []) || false)).

Definition id_Identifier : nat := 45.
Definition id_Letter : nat := 47.
Definition id_Digit : nat := 48.

(** the shape of the three rules in the grammar regenerated from grammar.peg.go *)
Lemma identifier_rule_shape :
  rule_id "Identifier" = id_Identifier /\ rule_id "Letter" = id_Letter /\ rule_id "Digit" = id_Digit
  /\ nth_error rules id_Identifier =
     Some (CAct AIdentifier1
            (CSeq [CPlus (CChoice [CRef id_Letter; CLit [95]]);
                   CStar (CChoice [CRef id_Letter; CRef id_Digit; CClass [46; 95] [] false])]))
  /\ nth_error rules id_Letter = Some (CClass [] [(65, 90); (97, 122)] false)
  /\ nth_error rules id_Digit = Some (CClass [] [(48, 57)] false).
Proof. vm_compute. repeat split; reflexivity. Qed.

Lemma letter_matches : matches_char (CRef id_Letter) p_letter 2.
Proof.
  destruct identifier_rule_shape as (_ & _ & _ & _ & HL & _).
  exact (ref_matches id_Letter _ _ 1 HL (class_matches [] [(65, 90); (97, 122)])).
Qed.

Lemma digit_matches : matches_char (CRef id_Digit) p_digit 2.
Proof.
  destruct identifier_rule_shape as (_ & _ & _ & _ & _ & HD).
  exact (ref_matches id_Digit _ _ 1 HD (class_matches [] [(48, 57)])).
Qed.

Lemma start_matches : matches_char (CChoice [CRef id_Letter; CLit [95]]) p_start 3.
Proof.
  assert (H95 : ascii 95) by (unfold ascii; lia).
  pose proof (choice_cons_matches _ _ _ _ _ _ (lit1_matches 95 H95) choice_nil_matches) as H1.
  pose proof (choice_cons_matches _ _ _ _ _ _ letter_matches H1) as H2.
  exact H2.
Qed.

Lemma cont_matches :
  matches_char (CChoice [CRef id_Letter; CRef id_Digit; CClass [46; 95] [] false]) p_cont 4.
Proof.
  pose proof (choice_cons_matches _ _ _ _ _ _ (class_matches [46; 95] []) choice_nil_matches) as H1.
  pose proof (choice_cons_matches _ _ _ _ _ _ digit_matches H1) as H2.
  pose proof (choice_cons_matches _ _ _ _ _ _ letter_matches H2) as H3.
  exact H3.
Qed.

Lemma p_start_cont : forall c, p_start c = true -> p_cont c = true.
Proof.
  intros c H. unfold p_start, p_cont in *. destruct (p_letter c); [reflexivity|]. cbn [orb] in *.
  rewrite orb_false_r in H. apply Z.eqb_eq in H. subst c. reflexivity.
Qed.

(** splitting a run of continuation characters at the end of its maximal start-character prefix *)
Lemma split_run : forall t, run_of p_cont t ->
  exists x1 x2, t = x1 ++ x2 /\ run_of p_start x1 /\ run_of p_cont x2
                /\ match x2 with [] => True | c :: _ => p_start c = false end.
Proof.
  induction t as [|c t IH]; intros Hr.
  - exists [], []. repeat split; constructor.
  - inversion Hr as [|c' t' [Hc Hp] Ht]; subst.
    destruct (p_start c) eqn:Hs.
    + destruct (IH Ht) as (x1 & x2 & -> & H1 & H2 & H3).
      exists (c :: x1), x2. repeat split; try assumption. constructor; [split; assumption | assumption].
    + exists [], (c :: t). repeat split; try assumption. constructor.
Qed.

Lemma takeZ_app_exact : forall (x r : bytes), takeZ (Z.of_nat (List.length x)) (x ++ r) = x.
Proof.
  induction x as [|c x IH]; intros r.
  - cbn. destruct r; reflexivity.
  - cbn [List.length app takeZ]. destruct (Z.leb_spec (Z.of_nat (S (List.length x))) 0) as [Hle|_]; [lia|].
    replace (Z.of_nat (S (List.length x)) - 1) with (Z.of_nat (List.length x)) by lia.
    rewrite IH. reflexivity.
Qed.

(** Identifier round trip at the rule level: on input [x ++ follow], where [x] has the shape of an
    identifier and [follow] cannot continue one, the rule consumes exactly [x], yields [Identifier x],
    and records no error. *)
Lemma identifier_rule : forall c t follow f cr o es fr,
  ascii c -> p_start c = true -> run_of p_cont t -> stops p_cont follow ->
  (List.length t + 12 <= f)%nat ->
  ev f (CRef id_Identifier) cr (st_of ((c :: t) ++ follow) o es) fr =
  Done true (VIdent (c :: t)) (st_of follow (o + Z.of_nat (List.length (c :: t))) es) fr.
Proof.
  intros c t follow f cr o es fr Hc Hs Ht Hstop Hf.
  destruct identifier_rule_shape as (_ & _ & _ & HI & _ & _).
  destruct (split_run t Ht) as (x1 & x2 & -> & H1 & H2 & H3).
  destruct start_matches as (Sm & Sn & Se).
  assert (Hstop1 : stops p_start (x2 ++ follow)).
  { destruct x2 as [|c2 x2]; cbn [app].
    - destruct follow as [|d follow]; cbn; [exact I|]. destruct Hstop as [Hd Hp]. split; [exact Hd|].
      destruct (p_start d) eqn:Hsd; [|reflexivity]. rewrite (p_start_cont d Hsd) in Hp. discriminate.
    - inversion H2 as [|c' w' [Hc2 _] _]; subst. split; assumption. }
  rewrite app_length in Hf.
  (* peel: CRef, CAct, CSeq *)
  destruct f as [|f]; [lia|]. rewrite ev_S, HI.
  destruct f as [|f]; [lia|]. rewrite ev_S.
  destruct f as [|f]; [lia|]. rewrite ev_S. cbn [seq_go].
  (* the + loop *)
  destruct f as [|f]; [lia|]. rewrite (ev_S f (CPlus _)).
  cbn [app]. rewrite <- app_assoc.
  rewrite (Sm f id_Identifier c (x1 ++ x2 ++ follow) o es [] ltac:(lia) Hc Hs
             (run_app_ascii_next p_start x1 (x2 ++ follow) H1 (stops_ascii_next p_start _ Hstop1))).
  rewrite (loop_run _ _ _ start_matches x1 (x2 ++ follow) f id_Identifier (o + 1) es [] [VBytes [c]] H1 Hstop1 ltac:(lia)).
  (* the * loop *)
  rewrite (ev_S f (CStar _)).
  rewrite (loop_run _ _ _ cont_matches x2 follow f id_Identifier _ es [] [] H2 Hstop ltac:(lia)).
  (* the action *)
  unfold finish_action. cbn [rest off]. unfold run_action, run_action_opt.
  replace (o + 1 + Z.of_nat (List.length x1) + Z.of_nat (List.length x2) - o)
    with (Z.of_nat (List.length (c :: x1 ++ x2))) by (cbn [List.length]; rewrite app_length; lia).
  replace (c :: x1 ++ x2 ++ follow) with ((c :: x1 ++ x2) ++ follow) by (cbn [app]; rewrite <- app_assoc; reflexivity).
  rewrite takeZ_app_exact. cbn [ok].
  replace (o + 1 + Z.of_nat (List.length x1) + Z.of_nat (List.length x2))
    with (o + Z.of_nat (List.length (c :: x1 ++ x2))) by (cbn [List.length]; rewrite app_length; lia).
  reflexivity.
Qed.
