(** The numbers and names the hand-written models use are the package-level constants of lib/go AS THEY ARE NOW
    (Gen/Consts.v is regenerated from the source on every build by translator/consts.go): a change of
    a limit, a header name, an exception code or the default timeout in the code breaks one of these
    equalities, and with it the build of the property that depends on the model. *)
From Coq Require Import ZArith List.
From FV Require Gen.Consts.
From FV Require Model.Headers Model.Receivers Model.Context Model.Lifecycle Model.SizeLimit Model.GenCall Model.Processor.
Import ListNotations.
Open Scope Z_scope.

Lemma header_names_agree :
  Receivers.opid_header = Consts.go_opIDHeader /\ Context.cid_header = Consts.go_cidHeader
  /\ Context.timeout_header = Consts.go_timeoutHeader /\ Lifecycle.opid_key = Consts.go_opIDHeader
  /\ GenCall.cid_hdr = Consts.go_cidHeader /\ Processor.opid_header = Consts.go_opIDHeader
  /\ Processor.cid_header = Consts.go_cidHeader.
Proof. repeat split; reflexivity. Qed.

Lemma default_timeout_agrees :
  Context.default_timeout_ms * Context.ns_per_ms = Consts.go_defaultTimeout.
Proof. reflexivity. Qed.

Lemma frame_limits_agree :
  Lifecycle.max_frame = Consts.go_defaultMaxLength /\ SizeLimit.nats_max = Consts.go_natsMaxMessageSize.
Proof. split; reflexivity. Qed.

Lemma exception_codes_agree :
  SizeLimit.transport_request_too_large = Consts.go_TRANSPORT_EXCEPTION_REQUEST_TOO_LARGE
  /\ SizeLimit.transport_response_too_large = Consts.go_TRANSPORT_EXCEPTION_RESPONSE_TOO_LARGE
  /\ SizeLimit.app_response_too_large_written = Consts.go_APPLICATION_EXCEPTION_RESPONSE_TOO_LARGE
  /\ SizeLimit.app_response_too_large_mapped = Consts.go_APPLICATION_EXCEPTION_RESPONSE_TOO_LARGE
  /\ GenCall.AE_RESPONSE_TOO_LARGE = Consts.go_APPLICATION_EXCEPTION_RESPONSE_TOO_LARGE
  /\ GenCall.TE_RESPONSE_TOO_LARGE = Consts.go_TRANSPORT_EXCEPTION_RESPONSE_TOO_LARGE.
Proof. repeat split; reflexivity. Qed.

(** the protocol version byte written in front of every header block *)
Lemma protocol_version_agrees : forall m, hd 255 (Headers.marshal m) = Consts.go_protocolV0.
Proof. intros m. reflexivity. Qed.
