(** C05: the Thrift layer of a server (Model/ThriftLayer.v) is graceful on every byte string.
    - every read of the generic generated reader [pdec] ends in a value or an error -- never a Go
      panic -- and never runs out of fuel once fuel >= 2 * measure + 2, where the measure of a reader
      state strictly decreases with every primitive read (binary: bytes left; compact: twice the
      bytes left plus one for a pending bool of a field header);
    - the same for thrift.Skip over both protocols ([skip], [cskip]);
    - [pdec false] is [wdec] / [cdec]; the FProtocol guards only turn values into errors. *)
From Coq Require Import ZArith List Bool Lia.
From FV Require Import Base.Res Base.Bytes Base.GoSem Model.Headers Model.Receivers
     Model.ThriftBin Model.ThriftCompact Model.GenCall Model.ThriftLayer
     Proofs.ThriftBinProofs Proofs.ThriftBinGoProofs Proofs.ThriftCompactProofs Proofs.ReceiversProofs.
Import ListNotations.
Open Scope Z_scope.

(** * "a value with a smaller state, or an error" *)
Definition good {A St : Type} (mu : St -> nat) (m0 : nat) (r : res (A * St)) : Prop :=
  match r with Ok (_, s) => (mu s < m0)%nat | Err _ => True | _ => False end.
Definition goodle {A St : Type} (mu : St -> nat) (m0 : nat) (r : res (A * St)) : Prop :=
  match r with Ok (_, s) => (mu s <= m0)%nat | Err _ => True | _ => False end.
Definition goods {St : Type} (mu : St -> nat) (m0 : nat) (r : res St) : Prop :=
  match r with Ok s => (mu s < m0)%nat | Err _ => True | _ => False end.
Definition goodsle {St : Type} (mu : St -> nat) (m0 : nat) (r : res St) : Prop :=
  match r with Ok s => (mu s <= m0)%nat | Err _ => True | _ => False end.

Lemma good_weaken {A St} (mu : St -> nat) m0 m1 (r : res (A * St)) : good mu m0 r -> (m0 <= m1)%nat -> good mu m1 r.
Proof. destruct r as [[a s]| | |]; cbn; auto; lia. Qed.
Lemma good_le {A St} (mu : St -> nat) m0 m1 (r : res (A * St)) : good mu m0 r -> (m0 <= S m1)%nat -> goodle mu m1 r.
Proof. destruct r as [[a s]| | |]; cbn; auto; lia. Qed.
Lemma goods_weaken {St} (mu : St -> nat) m0 m1 (r : res St) : goods mu m0 r -> (m0 <= m1)%nat -> goods mu m1 r.
Proof. destruct r as [s| | |]; cbn; auto; lia. Qed.

(** binds: the continuation is only looked at on a smaller state *)
Lemma good_bind {A B St} (mu : St -> nat) m0 (r : res (A * St)) (k : A * St -> res (B * St)) :
  good mu m0 r -> (forall a s, (mu s < m0)%nat -> goodle mu (mu s) (k (a, s))) -> good mu m0 (bind r k).
Proof.
  destruct r as [[a s]| | |]; cbn; auto. intros Hlt Hk. specialize (Hk a s Hlt).
  destruct (k (a, s)) as [[b s']| | |]; cbn in *; auto; lia.
Qed.
Lemma goodle_bind {A B St} (mu : St -> nat) m0 (r : res (A * St)) (k : A * St -> res (B * St)) :
  goodle mu m0 r -> (forall a s, (mu s <= m0)%nat -> goodle mu (mu s) (k (a, s))) -> goodle mu m0 (bind r k).
Proof.
  destruct r as [[a s]| | |]; cbn; auto. intros Hlt Hk. specialize (Hk a s Hlt).
  destruct (k (a, s)) as [[b s']| | |]; cbn in *; auto; lia.
Qed.
Lemma goods_bind {A St} (mu : St -> nat) m0 (r : res (A * St)) (k : A * St -> res St) :
  good mu m0 r -> (forall a s, (mu s < m0)%nat -> goodsle mu (mu s) (k (a, s))) -> goods mu m0 (bind r k).
Proof.
  destruct r as [[a s]| | |]; cbn; auto. intros Hlt Hk. specialize (Hk a s Hlt).
  destruct (k (a, s)) as [s'| | |]; cbn in *; auto; lia.
Qed.
Lemma good_ret {A B St} (mu : St -> nat) m0 (r : res (A * St)) (f : A -> B) :
  good mu m0 r -> good mu m0 (bind r (fun p => Ok (f (fst p), snd p))).
Proof. destruct r as [[a s]| | |]; cbn; auto. Qed.

(** * Binary primitives: the measure is the number of bytes left *)
Definition bmu (b : bytes) : nat := length b.

Lemma read_n_good n b : (1 <= n)%nat -> good bmu (bmu b) (read_n n b).
Proof.
  intros Hn. unfold read_n. destruct (Nat.leb n (length b)) eqn:E; [|exact I].
  apply Nat.leb_le in E. cbn. unfold bmu. rewrite skipn_length. lia.
Qed.
Lemma read_n_goodle n b : goodle bmu (bmu b) (read_n n b).
Proof.
  unfold read_n. destruct (Nat.leb n (length b)) eqn:E; [|exact I].
  cbn. unfold bmu. rewrite skipn_length. lia.
Qed.
Lemma read_int_good n b : (1 <= n)%nat -> good bmu (bmu b) (read_int n b).
Proof.
  intros Hn. unfold read_int. pose proof (read_n_good n b Hn) as H.
  destruct (read_n n b) as [[x r]| | |]; cbn in *; auto.
Qed.
Lemma read_size_good b : good bmu (bmu b) (read_size b).
Proof.
  unfold read_size. pose proof (read_int_good 4 b ltac:(lia)) as H.
  destruct (read_int 4 b) as [[z r]| | |]; cbn in *; auto. destruct (z <? 0); cbn; auto.
Qed.
Lemma read_blob_good b : good bmu (bmu b) (read_blob b).
Proof.
  unfold read_blob. pose proof (read_size_good b) as H.
  destruct (read_size b) as [[n r]| | |]; cbn in *; auto.
  destruct (n <=? zlen r); cbn; auto. unfold bmu in *. rewrite skipn_length. lia.
Qed.

(** * thrift.Skip over TBinaryProtocol *)
Lemma skip_good_all fuel :
  (forall depth wt b, (2 * bmu b + 2 <= fuel)%nat -> goods bmu (bmu b) (skip fuel depth wt b)) /\
  (forall depth b, (2 * bmu b + 1 <= fuel)%nat -> goods bmu (bmu b) (skip_fields fuel depth b)) /\
  (forall depth et n b, (2 * bmu b + 3 <= fuel)%nat -> goodsle bmu (bmu b) (skip_seq fuel depth et n b)) /\
  (forall depth kt vt n b, (2 * bmu b + 3 <= fuel)%nat -> goodsle bmu (bmu b) (skip_pairs fuel depth kt vt n b)).
Proof.
  induction fuel as [|f [IH1 [IH2 [IH3 IH4]]]].
  - repeat split; intros; lia.
  - repeat split; intros.
    + cbn [skip]. destruct (depth <=? 0); [exact I|].
      assert (Hrn : forall k, (1 <= k)%nat -> goods bmu (bmu b) (do (_, r) <- read_n k b; Ok r)).
      { intros k Hk. pose proof (read_n_good k b Hk) as Hg.
        destruct (read_n k b) as [[x r]| | |]; cbn in *; auto. }
      repeat match goal with
             | |- goods _ _ (if ?c then _ else _) => destruct c
             end; try exact I; try (apply Hrn; lia).
      * pose proof (read_blob_good b) as Hg. destruct (read_blob b) as [[x r]| | |]; cbn in *; auto.
      * apply IH2. lia.
      * pose proof (read_int_good 1 b ltac:(lia)) as H1.
        destruct (read_int 1 b) as [[kt r1]| | |]; cbn in *; auto.
        pose proof (read_int_good 1 r1 ltac:(lia)) as H2.
        destruct (read_int 1 r1) as [[vt r2]| | |]; cbn in *; auto.
        pose proof (read_size_good r2) as H3.
        destruct (read_size r2) as [[n r3]| | |]; cbn in *; auto.
        pose proof (IH4 (depth - 1) kt vt n r3 ltac:(lia)) as H4.
        destruct (skip_pairs f (depth - 1) kt vt n r3); cbn in *; auto; lia.
      * pose proof (read_int_good 1 b ltac:(lia)) as H1.
        destruct (read_int 1 b) as [[et r1]| | |]; cbn in *; auto.
        pose proof (read_size_good r1) as H3.
        destruct (read_size r1) as [[n r2]| | |]; cbn in *; auto.
        pose proof (IH3 (depth - 1) et n r2 ltac:(lia)) as H4.
        destruct (skip_seq f (depth - 1) et n r2); cbn in *; auto; lia.
    + cbn [skip_fields].
      pose proof (read_int_good 1 b ltac:(lia)) as H1.
      destruct (read_int 1 b) as [[wt r1]| | |]; cbn in *; auto.
      destruct (wt =? 0); [cbn; lia|].
      pose proof (read_int_good 2 r1 ltac:(lia)) as H2.
      destruct (read_int 2 r1) as [[id r2]| | |]; cbn in *; auto.
      pose proof (IH1 depth wt r2 ltac:(lia)) as H3.
      destruct (skip f depth wt r2) as [r3| | |]; cbn in *; auto.
      pose proof (IH2 depth r3 ltac:(lia)) as H4.
      destruct (skip_fields f depth r3); cbn in *; auto; lia.
    + cbn [skip_seq]. destruct (n <=? 0); [cbn; lia|].
      pose proof (IH1 depth et b ltac:(lia)) as H1.
      destruct (skip f depth et b) as [r| | |]; cbn in *; auto.
      pose proof (IH3 depth et (n - 1) r ltac:(lia)) as H2.
      destruct (skip_seq f depth et (n - 1) r); cbn in *; auto; lia.
    + cbn [skip_pairs]. destruct (n <=? 0); [cbn; lia|].
      pose proof (IH1 depth kt b ltac:(lia)) as H1.
      destruct (skip f depth kt b) as [r1| | |]; cbn in *; auto.
      pose proof (IH1 depth vt r1 ltac:(lia)) as H2.
      destruct (skip f depth vt r1) as [r2| | |]; cbn in *; auto.
      pose proof (IH4 depth kt vt (n - 1) r2 ltac:(lia)) as H3.
      destruct (skip_pairs f depth kt vt (n - 1) r2); cbn in *; auto; lia.
Qed.

Lemma skip_default_good fuel wt b : (2 * bmu b + 2 <= fuel)%nat -> goods bmu (bmu b) (skip_default fuel wt b).
Proof. apply (proj1 (skip_good_all fuel)). Qed.

(** * Compact primitives: twice the bytes left, plus one while a field header's bool is pending *)
Definition cmu (st : cst) : nat := (2 * length (snd st) + match fst st with Some _ => 1 | None => 0 end)%nat.

(** "advances": the pending bool is untouched and at least one byte is consumed *)
Definition cadv {A} (st : cst) (r : res (A * cst)) : Prop :=
  match r with Ok (_, s) => fst s = fst st /\ (length (snd s) < length (snd st))%nat | Err _ => True | _ => False end.
Definition cadvle {A} (st : cst) (r : res (A * cst)) : Prop :=
  match r with Ok (_, s) => fst s = fst st /\ (length (snd s) <= length (snd st))%nat | Err _ => True | _ => False end.

Lemma cadv_good {A} st (r : res (A * cst)) : cadv st r -> good cmu (cmu st) r.
Proof. destruct r as [[a s]| | |]; cbn; auto. unfold cmu. intros [-> H]. lia. Qed.
Lemma cadv_le {A} st (r : res (A * cst)) : cadv st r -> cadvle st r.
Proof. destruct r as [[a s]| | |]; cbn; auto. intros [-> H]. split; auto; lia. Qed.
Lemma cadv_bind {A B} st (r : res (A * cst)) (k : A * cst -> res (B * cst)) :
  cadv st r -> (forall a s, cadvle s (k (a, s))) -> cadv st (bind r k).
Proof.
  destruct r as [[a s]| | |]; cbn; auto. intros [Hp Hl] Hk. specialize (Hk a s).
  destruct (k (a, s)) as [[b s']| | |]; cbn in *; auto. destruct Hk as [-> Hk]. split; auto; lia.
Qed.
Lemma cadvle_ok {A} (a : A) st : cadvle st (Ok (a, st)).
Proof. cbn. split; auto. Qed.

Lemma c_byte_adv st : cadv st (c_byte st).
Proof. unfold c_byte. destruct st as [p [|x r]]; cbn; auto. Qed.
Lemma read_varint_go_len b : forall shift acc,
  match read_varint_go b shift acc with Ok (_, r) => (length r < length b)%nat | Err _ => True | _ => False end.
Proof.
  induction b as [|x r IH]; intros shift acc; cbn [read_varint_go]; [exact I|].
  destruct (x <? 128); [cbn; lia|]. specialize (IH (shift + 7) (acc + Z.shiftl (x mod 128) shift)).
  destruct (read_varint_go r _ _) as [[u r']| | |]; cbn in *; auto; lia.
Qed.
Lemma c_varint64_adv st : cadv st (c_varint64 st).
Proof.
  unfold c_varint64, read_varint. pose proof (read_varint_go_len (snd st) 0 0) as H.
  destruct (read_varint_go (snd st) 0 0) as [[u r]| | |]; cbn in *; auto.
Qed.
Ltac adv_map L :=
  let H := fresh "H" in
  pose proof L as H;
  match type of H with cadv _ ?r => destruct r as [[? ?]| | |]; cbn in H |- *; auto end.
Lemma c_varint32_adv st : cadv st (c_varint32 st).
Proof. unfold c_varint32. adv_map (c_varint64_adv st). Qed.
Lemma c_i32_adv st : cadv st (c_i32 st).
Proof. unfold c_i32. adv_map (c_varint32_adv st). Qed.
Lemma c_i16_adv st : cadv st (c_i16 st).
Proof. unfold c_i16. adv_map (c_i32_adv st). Qed.
Lemma c_i8_adv st : cadv st (c_i8 st).
Proof. unfold c_i8. adv_map (c_byte_adv st). Qed.
Lemma c_i64_adv st : cadv st (c_i64 st).
Proof. unfold c_i64. adv_map (c_varint64_adv st). Qed.
Lemma c_read_n_adv {A} n st (f : bytes -> A) : (1 <= n)%nat ->
  cadv st (do (x, r) <- read_n n (snd st); Ok (f x, (fst st, r))).
Proof.
  intros Hn. pose proof (read_n_good n (snd st) Hn) as H. unfold bmu in H.
  destruct (read_n n (snd st)) as [[x r]| | |]; cbn in *; auto.
Qed.
Lemma c_double_adv st : cadv st (c_double st).
Proof. unfold c_double. apply (c_read_n_adv 8 st (fun x => un_be (rev x))). lia. Qed.
Lemma c_uuid_adv st : cadv st (c_uuid st).
Proof. unfold c_uuid. apply (c_read_n_adv 16 st (fun x => x)). lia. Qed.
Lemma c_size_adv st : cadv st (c_size st).
Proof.
  unfold c_size. pose proof (c_varint32_adv st) as H.
  destruct (c_varint32 st) as [[n s]| | |]; cbn in *; auto. destruct (n <? 0); cbn; auto.
Qed.
Lemma c_blob_adv st : cadv st (c_blob st).
Proof.
  unfold c_blob. pose proof (c_size_adv st) as H.
  destruct (c_size st) as [[n s]| | |]; cbn in *; auto.
  destruct (n <=? zlen (snd s)); cbn; auto. rewrite skipn_length. destruct H as [-> H]. split; auto; lia.
Qed.
Lemma c_list_hdr_adv st : cadv st (c_list_hdr st).
Proof.
  unfold c_list_hdr. apply cadv_bind; [apply c_byte_adv|]. intros h s1. cbv zeta.
  destruct (h / 16 mod 16 =? 15).
  - pose proof (c_varint32_adv s1) as H. destruct (c_varint32 s1) as [[size s2]| | |]; cbn in *; auto.
    destruct (size <? 0); [exact I|]. destruct (ttype_of_ctype (h mod 16)); cbn; auto.
    destruct H as [-> H]. split; auto; lia.
  - cbn [bind]. destruct (h / 16 mod 16 <? 0); [exact I|]. destruct (ttype_of_ctype (h mod 16)); cbn; auto.
Qed.
Lemma c_map_hdr_adv st : cadv st (c_map_hdr st).
Proof.
  unfold c_map_hdr. apply cadv_bind; [apply c_size_adv|]. intros size s1.
  destruct (size =? 0); [apply cadvle_ok|].
  pose proof (c_byte_adv s1) as H. destruct (c_byte s1) as [[kv s2]| | |]; cbn in *; auto.
  destruct H as [-> H]. split; auto; lia.
Qed.

Lemma c_bool_good st : good cmu (cmu st) (c_bool st).
Proof.
  unfold c_bool. destruct st as [[v|] b]; cbn [fst snd].
  - cbn. unfold cmu. cbn. lia.
  - pose proof (c_byte_adv (None, b)) as H. apply cadv_good.
    destruct (c_byte (None, b)) as [[x s]| | |]; cbn in *; auto.
Qed.
Lemma c_field_hdr_good last st : good cmu (cmu st) (c_field_hdr last st).
Proof.
  unfold c_field_hdr. pose proof (c_byte_adv st) as H.
  destruct (c_byte st) as [[t s1]| | |]; cbn [bind] in *; auto. cbv zeta.
  destruct (t mod 16 =? 0). { apply (cadv_good st (Ok ((0, 0), s1))). exact H. }
  assert (Hid : cadvle s1 (if t / 16 mod 16 =? 0 then c_i16 s1 else Ok (signed 2 ((last + t / 16 mod 16) mod 65536), s1))).
  { destruct (t / 16 mod 16 =? 0); [apply cadv_le, c_i16_adv|apply cadvle_ok]. }
  destruct (if t / 16 mod 16 =? 0 then c_i16 s1 else _) as [[id s2]| | |]; cbn [bind] in *; auto.
  destruct (ttype_of_ctype (t mod 16)); [|exact I].
  cbn. unfold cmu. cbn [fst snd]. destruct H as [Hp H]. destruct Hid as [Hp2 Hid].
  destruct ((t mod 16 =? 1) || (t mod 16 =? 2)); [lia|]. rewrite Hp2, Hp. lia.
Qed.
Lemma cdec_int_good s st : good cmu (cmu st) (cdec_int s st).
Proof.
  apply cadv_good. destruct s; cbn [cdec_int]; try apply c_i32_adv.
  destruct nbytes as [|[|[|[|[|[|[|[|[|?]]]]]]]]]; first [apply c_i8_adv|apply c_i16_adv|apply c_i32_adv|apply c_i64_adv].
Qed.

(** * thrift.Skip over TCompactProtocol *)
Lemma cskip_good_all fuel :
  (forall depth wt st, (2 * cmu st + 2 <= fuel)%nat -> goods cmu (cmu st) (cskip fuel depth wt st)) /\
  (forall depth last st, (2 * cmu st + 1 <= fuel)%nat -> goods cmu (cmu st) (cskip_fields fuel depth last st)) /\
  (forall depth et n st, (2 * cmu st + 3 <= fuel)%nat -> goodsle cmu (cmu st) (cskip_seq fuel depth et n st)) /\
  (forall depth kt vt n st, (2 * cmu st + 3 <= fuel)%nat -> goodsle cmu (cmu st) (cskip_pairs fuel depth kt vt n st)).
Proof.
  induction fuel as [|f [IH1 [IH2 [IH3 IH4]]]].
  - repeat split; intros; lia.
  - repeat split; intros.
    + cbn [cskip]. destruct (depth <=? 0); [exact I|].
      assert (Hp : forall A (r : res (A * cst)), good cmu (cmu st) r -> goods cmu (cmu st) (do (_, s) <- r; Ok s)).
      { intros A r Hg. destruct r as [[x s]| | |]; cbn in *; auto. }
      repeat match goal with
             | |- goods _ _ (if ?c then _ else _) => destruct c
             end; try exact I;
        try (apply Hp; first [apply c_bool_good | apply cadv_good;
               first [apply c_i8_adv|apply c_i16_adv|apply c_i32_adv|apply c_i64_adv|apply c_double_adv
                     |apply c_blob_adv|apply c_uuid_adv]]).
      * apply IH2. lia.
      * pose proof (cadv_good _ _ (c_map_hdr_adv st)) as H1.
        destruct (c_map_hdr st) as [[[[kt vt] n] s]| | |]; cbn in *; auto.
        pose proof (IH4 (depth - 1) kt vt n s ltac:(lia)) as H4.
        destruct (cskip_pairs f (depth - 1) kt vt n s); cbn in *; auto; lia.
      * pose proof (cadv_good _ _ (c_list_hdr_adv st)) as H1.
        destruct (c_list_hdr st) as [[[et n] s]| | |]; cbn in *; auto.
        pose proof (IH3 (depth - 1) et n s ltac:(lia)) as H4.
        destruct (cskip_seq f (depth - 1) et n s); cbn in *; auto; lia.
    + cbn [cskip_fields].
      pose proof (c_field_hdr_good last st) as H1.
      destruct (c_field_hdr last st) as [[[wt id] s1]| | |]; cbn in *; auto.
      destruct (wt =? 0); [cbn; lia|].
      pose proof (IH1 depth wt s1 ltac:(lia)) as H3.
      destruct (cskip f depth wt s1) as [s2| | |]; cbn in *; auto.
      pose proof (IH2 depth id s2 ltac:(lia)) as H4.
      destruct (cskip_fields f depth id s2); cbn in *; auto; lia.
    + cbn [cskip_seq]. destruct (n <=? 0); [cbn; lia|].
      pose proof (IH1 depth et st ltac:(lia)) as H1.
      destruct (cskip f depth et st) as [r| | |]; cbn in *; auto.
      pose proof (IH3 depth et (n - 1) r ltac:(lia)) as H2.
      destruct (cskip_seq f depth et (n - 1) r); cbn in *; auto; lia.
    + cbn [cskip_pairs]. destruct (n <=? 0); [cbn; lia|].
      pose proof (IH1 depth kt st ltac:(lia)) as H1.
      destruct (cskip f depth kt st) as [r1| | |]; cbn in *; auto.
      pose proof (IH1 depth vt r1 ltac:(lia)) as H2.
      destruct (cskip f depth vt r1) as [r2| | |]; cbn in *; auto.
      pose proof (IH4 depth kt vt (n - 1) r2 ltac:(lia)) as H3.
      destruct (cskip_pairs f depth kt vt (n - 1) r2); cbn in *; auto; lia.
Qed.

Lemma cskip_default_good fuel wt st : (2 * cmu st + 2 <= fuel)%nat -> goods cmu (cmu st) (cskip_default fuel wt st).
Proof. apply (proj1 (cskip_good_all fuel)). Qed.

(** * The generated reader, once for both protocols *)
Lemma shape_int_width e t n : shape_of e t = SInt n -> (1 <= n)%nat.
Proof.
  unfold shape_of. destruct (resolve e t); try discriminate; try (intros H; inversion H; lia).
  destruct (lookup e n0) as [[| |]|]; discriminate.
Qed.

(** unfolding equations of the mutual fixpoint *)
Lemma pdec_S P g f d e t st :
  pdec P g (S f) d e t st =
    match shape_of e t with
    | SBool => do (x, s) <- p_bool P st; Ok (VBool x, s)
    | SInt n => do (z, s) <- p_int P (SInt n) st; Ok (VInt z, s)
    | SEnum => do (z, s) <- p_int P SEnum st; Ok (VInt z, s)
    | SDouble => do (x, s) <- p_double P st; Ok (VDouble x, s)
    | SString | SBinary => do (x, s) <- p_blob P st; Ok (VBytes x, s)
    | SList et =>
      do (n, s1) <- p_list_hdr P st;
      if size_refused P g n s1 then Err ETooLarge else
      do (l, s2) <- pdec_seq P g f d e et n s1; Ok (VList l, s2)
    | SSet et =>
      do (n, s1) <- p_list_hdr P st;
      if size_refused P g n s1 then Err ETooLarge else
      do (l, s2) <- pdec_seq P g f d e et n s1; Ok (VSet l, s2)
    | SMap kt vt =>
      do (n, s1) <- p_map_hdr P st;
      if size_refused P g n s1 then Err ETooLarge else
      do (l, s2) <- pdec_pairs P g f d e kt vt n s1; Ok (VMap l, s2)
    | SStruct _ decls =>
      if depth_refused g d then Err EOther else
      do (l, s) <- pdec_fields P g f (d + 1) e decls 0 st; Ok (VRec l, s)
    | SBad => Err EOther
    end.
Proof. reflexivity. Qed.
Lemma pdec_seq_S P g f d e et n st :
  pdec_seq P g (S f) d e et n st =
    if n <=? 0 then Ok ([], st) else
    do (x, s1) <- pdec P g f d e et st; do (l, s2) <- pdec_seq P g f d e et (n - 1) s1; Ok (x :: l, s2).
Proof. reflexivity. Qed.
Lemma pdec_pairs_S P g f d e kt vt n st :
  pdec_pairs P g (S f) d e kt vt n st =
    if n <=? 0 then Ok ([], st) else
    do (k, s1) <- pdec P g f d e kt st; do (x, s2) <- pdec P g f d e vt s1;
    do (l, s3) <- pdec_pairs P g f d e kt vt (n - 1) s2; Ok ((k, x) :: l, s3).
Proof. reflexivity. Qed.
Lemma pdec_fields_S P g f d e decls last st :
  pdec_fields P g (S f) d e decls last st =
    do (h, s1) <- p_field_hdr P last st;
    let '(wt, id) := h in
    if wt =? 0 then Ok ([], s1) else
    match ftyp_of decls id with
    | Some ft =>
      do (x, s2) <- pdec P g f d e ft s1; do (l, s3) <- pdec_fields P g f d e decls id s2; Ok ((id, x) :: l, s3)
    | None =>
      do s2 <- p_skip P f wt s1; pdec_fields P g f d e decls id s2
    end.
Proof. reflexivity. Qed.

Section GenericReader.
Variable P : prim.
Variable mu : pst P -> nat.
Hypothesis H_bool : forall st, good mu (mu st) (p_bool P st).
Hypothesis H_int : forall n st, (1 <= n)%nat -> good mu (mu st) (p_int P (SInt n) st).
Hypothesis H_enum : forall st, good mu (mu st) (p_int P SEnum st).
Hypothesis H_double : forall st, good mu (mu st) (p_double P st).
Hypothesis H_blob : forall st, good mu (mu st) (p_blob P st).
Hypothesis H_list : forall st, good mu (mu st) (p_list_hdr P st).
Hypothesis H_map : forall st, good mu (mu st) (p_map_hdr P st).
Hypothesis H_field : forall last st, good mu (mu st) (p_field_hdr P last st).
Hypothesis H_skip : forall f wt st, (2 * mu st + 2 <= f)%nat -> goods mu (mu st) (p_skip P f wt st).

Lemma good_wrap {A B} m0 (r : res (A * pst P)) (f : A -> B) :
  good mu m0 r -> good mu m0 (do (x, s) <- r; Ok (f x, s)).
Proof. destruct r as [[a s]| | |]; cbn; auto. Qed.

Lemma pdec_good_all g e fuel :
  (forall d t st, (2 * mu st + 2 <= fuel)%nat -> good mu (mu st) (pdec P g fuel d e t st)) /\
  (forall d et n st, (2 * mu st + 3 <= fuel)%nat -> goodle mu (mu st) (pdec_seq P g fuel d e et n st)) /\
  (forall d kt vt n st, (2 * mu st + 3 <= fuel)%nat -> goodle mu (mu st) (pdec_pairs P g fuel d e kt vt n st)) /\
  (forall d decls last st, (2 * mu st + 1 <= fuel)%nat -> good mu (mu st) (pdec_fields P g fuel d e decls last st)).
Proof.
  induction fuel as [|f [IH1 [IH2 [IH3 IH4]]]].
  - repeat split; intros; lia.
  - repeat split; intros.
    + rewrite pdec_S. destruct (shape_of e t) eqn:Esh; try exact I.
      * apply (good_wrap _ _ VBool), H_bool.
      * apply (good_wrap _ _ VInt), H_int. eapply shape_int_width; eauto.
      * apply (good_wrap _ _ VInt), H_enum.
      * apply (good_wrap _ _ VDouble), H_double.
      * apply (good_wrap _ _ VBytes), H_blob.
      * apply (good_wrap _ _ VBytes), H_blob.
      * pose proof (H_list st) as Hh. destruct (p_list_hdr P st) as [[n s1]| | |]; cbn [bind] in *; auto.
        destruct (size_refused P g n s1); [exact I|].
        pose proof (IH2 d t0 n s1 ltac:(cbn in Hh; lia)) as Hs.
        destruct (pdec_seq P g f d e t0 n s1) as [[l s2]| | |]; cbn in *; auto; lia.
      * pose proof (H_list st) as Hh. destruct (p_list_hdr P st) as [[n s1]| | |]; cbn [bind] in *; auto.
        destruct (size_refused P g n s1); [exact I|].
        pose proof (IH2 d t0 n s1 ltac:(cbn in Hh; lia)) as Hs.
        destruct (pdec_seq P g f d e t0 n s1) as [[l s2]| | |]; cbn in *; auto; lia.
      * pose proof (H_map st) as Hh. destruct (p_map_hdr P st) as [[n s1]| | |]; cbn [bind] in *; auto.
        destruct (size_refused P g n s1); [exact I|].
        pose proof (IH3 d k v n s1 ltac:(cbn in Hh; lia)) as Hs.
        destruct (pdec_pairs P g f d e k v n s1) as [[l s2]| | |]; cbn in *; auto; lia.
      * destruct (depth_refused g d); [exact I|].
        pose proof (IH4 (d + 1) fs 0 st ltac:(lia)) as Hs.
        destruct (pdec_fields P g f (d + 1) e fs 0 st) as [[l s2]| | |]; cbn in *; auto.
    + rewrite pdec_seq_S. destruct (n <=? 0); [cbn; lia|].
      pose proof (IH1 d et st ltac:(lia)) as H1.
      destruct (pdec P g f d e et st) as [[x s1]| | |]; cbn [bind] in *; auto.
      pose proof (IH2 d et (n - 1) s1 ltac:(cbn in H1; lia)) as H2.
      destruct (pdec_seq P g f d e et (n - 1) s1) as [[l s2]| | |]; cbn in *; auto; lia.
    + rewrite pdec_pairs_S. destruct (n <=? 0); [cbn; lia|].
      pose proof (IH1 d kt st ltac:(lia)) as H1.
      destruct (pdec P g f d e kt st) as [[k s1]| | |]; cbn [bind] in *; auto.
      pose proof (IH1 d vt s1 ltac:(cbn in H1; lia)) as H2.
      destruct (pdec P g f d e vt s1) as [[x s2]| | |]; cbn [bind] in *; auto.
      pose proof (IH3 d kt vt (n - 1) s2 ltac:(cbn in H1, H2; lia)) as H3.
      destruct (pdec_pairs P g f d e kt vt (n - 1) s2) as [[l s3]| | |]; cbn in *; auto; lia.
    + rewrite pdec_fields_S.
      pose proof (H_field last st) as H1.
      destruct (p_field_hdr P last st) as [[[wt id] s1]| | |]; cbn [bind] in *; auto.
      destruct (wt =? 0); [exact H1|].
      destruct (ftyp_of decls id) as [ft|].
      * pose proof (IH1 d ft s1 ltac:(cbn in H1; lia)) as H2.
        destruct (pdec P g f d e ft s1) as [[x s2]| | |]; cbn [bind] in *; auto.
        pose proof (IH4 d decls id s2 ltac:(cbn in H1, H2; lia)) as H3.
        destruct (pdec_fields P g f d e decls id s2) as [[l s3]| | |]; cbn in *; auto; lia.
      * pose proof (H_skip f wt s1 ltac:(cbn in H1; lia)) as H2.
        destruct (p_skip P f wt s1) as [s2| | |]; cbn [bind] in *; auto.
        pose proof (IH4 d decls id s2 ltac:(cbn in H1, H2; lia)) as H3.
        destruct (pdec_fields P g f d e decls id s2) as [[l s3]| | |]; cbn in *; auto; lia.
Qed.
End GenericReader.

(** * With the FProtocol guards off, the generic reader is Model/ThriftBin.v's and Model/ThriftCompact.v's *)
Lemma pdec_bin_is_wdec e fuel :
  (forall d t b, pdec bin_prim false fuel d e t b = wdec fuel e t b) /\
  (forall d et n b, pdec_seq bin_prim false fuel d e et n b = wdec_seq fuel e et n b) /\
  (forall d kt vt n b, pdec_pairs bin_prim false fuel d e kt vt n b = wdec_pairs fuel e kt vt n b) /\
  (forall d decls last b, pdec_fields bin_prim false fuel d e decls last b = wdec_fields fuel e decls b).
Proof.
  induction fuel as [|f [IH1 [IH2 [IH3 IH4]]]].
  - repeat split; intros; reflexivity.
  - repeat split; intros.
    + rewrite pdec_S. cbn [wdec]. unfold size_refused, depth_refused. cbn [andb].
      destruct (shape_of e t) as [|nb| | | | | | | | |]; cbn [bin_prim p_bool p_int p_double p_blob p_list_hdr p_map_hdr]; try reflexivity.
      * destruct (read_n 1 b) as [[x r]| | |]; reflexivity.
      * destruct (read_n 8 b) as [[x r]| | |]; reflexivity.
      * destruct (read_int 1 b) as [[x r1]| | |]; try reflexivity. cbn [bind].
        destruct (read_size r1) as [[n r2]| | |]; try reflexivity. cbn [bind]. rewrite IH2. reflexivity.
      * destruct (read_int 1 b) as [[x r1]| | |]; try reflexivity. cbn [bind].
        destruct (read_size r1) as [[n r2]| | |]; try reflexivity. cbn [bind]. rewrite IH2. reflexivity.
      * destruct (read_int 1 b) as [[x r1]| | |]; try reflexivity. cbn [bind].
        destruct (read_int 1 r1) as [[y r2]| | |]; try reflexivity. cbn [bind].
        destruct (read_size r2) as [[n r3]| | |]; try reflexivity. cbn [bind]. rewrite IH3. reflexivity.
      * rewrite IH4. reflexivity.
    + rewrite pdec_seq_S. cbn [wdec_seq]. destruct (n <=? 0); [reflexivity|].
      rewrite IH1. destruct (wdec f e et b) as [[x r1]| | |]; try reflexivity. cbn [bind]. rewrite IH2. reflexivity.
    + rewrite pdec_pairs_S. cbn [wdec_pairs]. destruct (n <=? 0); [reflexivity|].
      rewrite IH1. destruct (wdec f e kt b) as [[x r1]| | |]; try reflexivity. cbn [bind].
      rewrite IH1. destruct (wdec f e vt r1) as [[y r2]| | |]; try reflexivity. cbn [bind]. rewrite IH3. reflexivity.
    + rewrite pdec_fields_S. cbn [wdec_fields]. cbn [bin_prim p_field_hdr p_skip].
      destruct (read_int 1 b) as [[wt r1]| | |]; try reflexivity. cbn [bind].
      destruct (wt =? 0) eqn:Ewt; [cbn [bind]; rewrite Z.eqb_refl; reflexivity|].
      destruct (read_int 2 r1) as [[id r2]| | |]; try reflexivity. cbn [bind]. rewrite Ewt.
      destruct (ftyp_of decls id).
      * rewrite IH1. destruct (wdec f e t r2) as [[x r3]| | |]; try reflexivity. cbn [bind]. rewrite IH4. reflexivity.
      * destruct (skip_default f wt r2) as [r3| | |]; try reflexivity. cbn [bind]. apply IH4.
Qed.

Lemma pdec_compact_is_cdec e fuel :
  (forall d t st, pdec compact_prim false fuel d e t st = cdec fuel e t st) /\
  (forall d et n st, pdec_seq compact_prim false fuel d e et n st = cdec_seq fuel e et n st) /\
  (forall d kt vt n st, pdec_pairs compact_prim false fuel d e kt vt n st = cdec_pairs fuel e kt vt n st) /\
  (forall d decls last st, pdec_fields compact_prim false fuel d e decls last st = cdec_fields fuel e decls last st).
Proof.
  induction fuel as [|f [IH1 [IH2 [IH3 IH4]]]].
  - repeat split; intros; reflexivity.
  - repeat split; intros.
    + rewrite pdec_S. cbn [cdec]. unfold size_refused, depth_refused. cbn [andb].
      destruct (shape_of e t); cbn [compact_prim p_bool p_int p_double p_blob p_list_hdr p_map_hdr]; try reflexivity.
      * destruct (c_list_hdr st) as [[h s1]| | |]; try reflexivity. cbn [bind]. rewrite IH2. reflexivity.
      * destruct (c_list_hdr st) as [[h s1]| | |]; try reflexivity. cbn [bind]. rewrite IH2. reflexivity.
      * destruct (c_map_hdr st) as [[h s1]| | |]; try reflexivity. cbn [bind]. rewrite IH3. reflexivity.
      * rewrite IH4. reflexivity.
    + rewrite pdec_seq_S. cbn [cdec_seq]. destruct (n <=? 0); [reflexivity|].
      rewrite IH1. destruct (cdec f e et st) as [[x r1]| | |]; try reflexivity. cbn [bind]. rewrite IH2. reflexivity.
    + rewrite pdec_pairs_S. cbn [cdec_pairs]. destruct (n <=? 0); [reflexivity|].
      rewrite IH1. destruct (cdec f e kt st) as [[x r1]| | |]; try reflexivity. cbn [bind].
      rewrite IH1. destruct (cdec f e vt r1) as [[y r2]| | |]; try reflexivity. cbn [bind]. rewrite IH3. reflexivity.
    + rewrite pdec_fields_S. cbn [cdec_fields]. cbn [compact_prim p_field_hdr p_skip].
      destruct (c_field_hdr last st) as [[[wt id] s1]| | |]; try reflexivity. cbn [bind].
      destruct (wt =? 0); [reflexivity|].
      destruct (ftyp_of decls id).
      * rewrite IH1. destruct (cdec f e t s1) as [[x r3]| | |]; try reflexivity. cbn [bind]. rewrite IH4. reflexivity.
      * destruct (cskip_default f wt s1) as [r3| | |]; try reflexivity. cbn [bind]. apply IH4.
Qed.

Theorem pread_bin_is_gread fuel e t b : pread bin_prim false fuel e t b = gread fuel e t b.
Proof. unfold pread, gread. cbn [bin_prim p_init p_rest]. rewrite (proj1 (pdec_bin_is_wdec e fuel)). reflexivity. Qed.
Theorem pread_compact_is_gcread fuel e t b : pread compact_prim false fuel e t b = gcread fuel e t b.
Proof.
  unfold pread, gcread. cbn [compact_prim p_init p_rest]. rewrite (proj1 (pdec_compact_is_cdec e fuel)).
  destruct (cdec fuel e t (None, b)) as [[w s]| | |]; reflexivity.
Qed.

(** * The two instances *)
Lemma bin_field_good (last : Z) b : good bmu (bmu b) (p_field_hdr bin_prim last b).
Proof.
  cbn [bin_prim p_field_hdr]. pose proof (read_int_good 1 b ltac:(lia)) as H1.
  destruct (read_int 1 b) as [[wt r1]| | |]; cbn [bind] in *; auto.
  destruct (wt =? 0); [exact H1|].
  pose proof (read_int_good 2 r1 ltac:(lia)) as H2.
  destruct (read_int 2 r1) as [[id r2]| | |]; cbn in *; auto. lia.
Qed.

Lemma bin_pdec_good g e fuel d t (b : pst bin_prim) :
  (2 * bmu b + 2 <= fuel)%nat -> good bmu (bmu b) (pdec bin_prim g fuel d e t b).
Proof.
  refine (proj1 (pdec_good_all bin_prim bmu _ _ _ _ _ _ _ _ _ g e fuel) d t b); clear; cbn [bin_prim pst p_bool p_int p_double p_blob p_list_hdr p_map_hdr p_skip].
  - intros st. pose proof (read_n_good 1 st ltac:(lia)) as H. destruct (read_n 1 st) as [[x r]| | |]; cbn in *; auto.
  - intros n st Hn. apply read_int_good, Hn.
  - intros st. apply read_int_good. lia.
  - intros st. pose proof (read_n_good 8 st ltac:(lia)) as H. destruct (read_n 8 st) as [[x r]| | |]; cbn in *; auto.
  - apply read_blob_good.
  - intros st. pose proof (read_int_good 1 st ltac:(lia)) as H1.
    destruct (read_int 1 st) as [[x r1]| | |]; cbn [bind] in *; auto.
    eapply good_weaken; [apply read_size_good|cbn in H1; lia].
  - intros st. pose proof (read_int_good 1 st ltac:(lia)) as H1.
    destruct (read_int 1 st) as [[x r1]| | |]; cbn [bind] in *; auto.
    pose proof (read_int_good 1 r1 ltac:(lia)) as H2.
    destruct (read_int 1 r1) as [[y r2]| | |]; cbn [bind] in *; auto.
    eapply good_weaken; [apply read_size_good|cbn in H1, H2; lia].
  - apply bin_field_good.
  - intros f wt st Hf. apply skip_default_good, Hf.
Qed.

Lemma compact_pdec_good g e fuel d t (st : pst compact_prim) :
  (2 * cmu st + 2 <= fuel)%nat -> good cmu (cmu st) (pdec compact_prim g fuel d e t st).
Proof.
  refine (proj1 (pdec_good_all compact_prim cmu _ _ _ _ _ _ _ _ _ g e fuel) d t st); clear; cbn [compact_prim pst p_bool p_int p_double p_blob p_list_hdr p_map_hdr p_field_hdr p_skip].
  - apply c_bool_good.
  - intros n st _. apply cdec_int_good.
  - intros st. apply cdec_int_good.
  - intros st. apply cadv_good, c_double_adv.
  - intros st. apply cadv_good, c_blob_adv.
  - intros st. apply cadv_good. adv_map (c_list_hdr_adv st).
  - intros st. apply cadv_good. adv_map (c_map_hdr_adv st).
  - apply c_field_hdr_good.
  - intros f wt st Hf. apply cskip_default_good, Hf.
Qed.

(** * from_wire / to_wire *)
Lemma graceful_bind' {A B} (r : res A) (f : A -> res B) :
  graceful r -> (forall a, graceful (f a)) -> graceful (bind r f).
Proof. destruct r; cbn; auto. Qed.

Lemma graceful_from_wire e : forall w t, graceful (from_wire e t w).
Proof.
  induction w using val_ind'; intro t; try exact I.
  - rewrite from_wire_list_eq. apply graceful_bind'; [|intros; exact I].
    generalize (elem_ty (shape_of e t)) as et. intro et.
    induction H as [|x r Hx _ IH]; cbn [fw_seq]; [exact I|].
    apply graceful_bind'; [apply Hx|intros a]. apply graceful_bind'; [apply IH|intros; exact I].
  - rewrite from_wire_set_eq. apply graceful_bind'; [|intros; exact I].
    generalize (elem_ty (shape_of e t)) as et. intro et.
    induction H as [|x r Hx _ IH]; cbn [fw_seq]; [exact I|].
    apply graceful_bind'; [apply Hx|intros a]. apply graceful_bind'; [apply IH|intros; exact I].
  - rewrite from_wire_map_eq. apply graceful_bind'; [|intros; exact I].
    generalize (key_ty (shape_of e t)) as kt. generalize (mval_ty (shape_of e t)) as vt. intros vt kt.
    induction H as [|[k0 x] r [Hk Hx] _ IH]; cbn [fw_pairs]; [exact I|]. cbn [fst snd] in *.
    apply graceful_bind'; [apply Hk|intros a]. apply graceful_bind'; [apply Hx|intros b].
    apply graceful_bind'; [apply IH|intros; exact I].
  - rewrite from_wire_rec_eq. destruct (shape_of e t); try exact I.
    apply graceful_bind'.
    + generalize (new_struct e fs) as st.
      induction H as [|[i x] r Hx _ IH]; intro st; cbn [fw_fields]; [exact I|]. cbn [snd] in Hx.
      destruct (find_field fs i); [|apply IH].
      apply graceful_bind'; [apply Hx|intros g; apply IH].
    + intros st. destruct (negb (required_seen fs (map fst l))); [exact I|].
      destruct (is_union k && negb (count_set e fs st =? 1)); exact I.
Qed.

(** never out of fuel (there is none) *)
Definition nof {A} (r : res A) : Prop := match r with OutOfFuel => False | _ => True end.
Lemma nof_bind {A B} (r : res A) (f : A -> res B) : nof r -> (forall a, nof (f a)) -> nof (bind r f).
Proof. destruct r; cbn; auto. Qed.

Lemma nof_nil_wire e t : nof (nil_wire e t).
Proof.
  unfold nil_wire. destruct (shape_of e t); try exact I. destruct fs; [destruct (is_union k)|]; exact I.
Qed.

Lemma nof_to_wire e : forall v t, nof (to_wire e t v).
Proof.
  induction v using val_ind'; intro t.
  - cbn [to_wire]. destruct (shape_of e t); exact I.
  - cbn [to_wire]. destruct (shape_of e t); exact I.
  - cbn [to_wire]. destruct (shape_of e t); exact I.
  - cbn [to_wire]. destruct (shape_of e t); exact I.
  - rewrite to_wire_list_eq. destruct (shape_of e t); try exact I.
    apply nof_bind; [|intros; exact I].
    induction H as [|x r Hx _ IH]; cbn [tw_seq]; [exact I|].
    apply nof_bind; [apply Hx|intros a]. apply nof_bind; [apply IH|intros; exact I].
  - rewrite to_wire_set_eq. destruct (shape_of e t); try exact I.
    apply nof_bind; [|intros; exact I].
    induction H as [|x r Hx _ IH]; cbn [tw_seq]; [exact I|].
    apply nof_bind; [apply Hx|intros a]. apply nof_bind; [apply IH|intros; exact I].
  - rewrite to_wire_map_eq. destruct (shape_of e t); try exact I.
    apply nof_bind; [|intros; exact I].
    induction H as [|[k0 x] r [Hk Hx] _ IH]; cbn [tw_pairs]; [exact I|]. cbn [fst snd] in *.
    apply nof_bind; [apply Hk|intros a]. apply nof_bind; [apply Hx|intros b].
    apply nof_bind; [apply IH|intros; exact I].
  - rewrite to_wire_struct_eq. destruct (shape_of e t); try exact I.
    destruct (is_union k && negb (count_set e fs l =? 1)); [exact I|].
    apply nof_bind; [|intros; exact I].
    revert fs. induction H as [|ov r Hov _ IH]; intros [|f fs]; cbn [tw_fields]; try exact I.
    destruct (is_optional f && negb (isset e f ov)); [apply IH|].
    apply nof_bind.
    + destruct ov as [x|]; [apply Hov|apply nof_nil_wire].
    + intros w. apply nof_bind; [apply IH|intros; exact I].
  - exact I.
Qed.

Lemma nof_gwrite e t v : nof (gwrite e t v).
Proof. unfold gwrite. apply nof_bind; [apply nof_to_wire|intros; exact I]. Qed.
Lemma nof_gcwrite e t v : nof (gcwrite e t v).
Proof. unfold gcwrite. apply nof_bind; [apply nof_to_wire|intros; exact I]. Qed.

(** * The generated Read on a fresh protocol *)
Lemma good_graceful {A St} (mu : St -> nat) m0 (r : res (A * St)) : good mu m0 r -> graceful r.
Proof. destruct r as [[a s]| | |]; cbn; auto. Qed.

Lemma pread_bin_graceful g fuel e t b : (2 * length b + 2 <= fuel)%nat -> graceful (pread bin_prim g fuel e t b).
Proof.
  intros Hf. unfold pread. apply graceful_bind'.
  - eapply good_graceful. apply bin_pdec_good. exact Hf.
  - intros [w s]. apply graceful_bind'; [apply graceful_from_wire|intros; exact I].
Qed.
Lemma pread_compact_graceful g fuel e t b : (4 * length b + 2 <= fuel)%nat -> graceful (pread compact_prim g fuel e t b).
Proof.
  intros Hf. unfold pread. apply graceful_bind'.
  - eapply good_graceful. apply compact_pdec_good. cbn [compact_prim p_init]. unfold cmu. cbn [fst snd]. lia.
  - intros [w s]. apply graceful_bind'; [apply graceful_from_wire|intros; exact I].
Qed.

(** * Message headers *)
Definition msg_ok (b : bytes) (r : res (bytes * Z * Z * bytes)) : Prop :=
  match r with Ok (_, _, _, rest) => (length rest <= length b)%nat | Err _ => True | _ => False end.

Lemma msg_begin_dec_ok b : msg_ok b (msg_begin_dec b).
Proof.
  unfold msg_begin_dec. pose proof (read_int_good 4 b ltac:(lia)) as H1. unfold bmu in *.
  destruct (read_int 4 b) as [[size r1]| | |]; cbn [bind] in *; auto. cbn in H1.
  destruct (size <? 0).
  - destruct (negb _); [exact I|].
    pose proof (read_blob_good r1) as H2. destruct (read_blob r1) as [[nm r2]| | |]; cbn [bind] in *; auto.
    pose proof (read_int_good 4 r2 ltac:(lia)) as H3. destruct (read_int 4 r2) as [[seq r3]| | |]; cbn in *; auto.
    unfold bmu in *. lia.
  - destruct (zlen r1 <? size); [exact I|].
    pose proof (read_int_good 1 (skipn (Z.to_nat size) r1) ltac:(lia)) as H2.
    destruct (read_int 1 (skipn (Z.to_nat size) r1)) as [[t r2]| | |]; cbn [bind] in *; auto.
    pose proof (read_int_good 4 r2 ltac:(lia)) as H3. destruct (read_int 4 r2) as [[seq r3]| | |]; cbn in *; auto.
    unfold bmu in *. rewrite skipn_length in H2. lia.
Qed.

Lemma cmsg_begin_dec_ok b : msg_ok b (cmsg_begin_dec b).
Proof.
  unfold cmsg_begin_dec. pose proof (c_byte_adv (None, b)) as H1.
  destruct (c_byte (None, b)) as [[pid s1]| | |]; cbn [bind] in *; auto.
  destruct (negb (pid =? 130)); [exact I|].
  pose proof (c_byte_adv s1) as H2. destruct (c_byte s1) as [[vt s2]| | |]; cbn [bind] in *; auto.
  destruct (negb (vt mod 32 =? 1)); [exact I|].
  pose proof (c_varint32_adv s2) as H3. destruct (c_varint32 s2) as [[seq s3]| | |]; cbn [bind] in *; auto.
  pose proof (c_blob_adv s3) as H4. destruct (c_blob s3) as [[nm s4]| | |]; cbn in *; auto.
  lia.
Qed.

(** * The layer *)
Lemma plookup_in nm pm m : plookup nm pm = Some m -> In m (map snd pm).
Proof.
  induction pm as [|[k' m'] r IH]; cbn [plookup]; [discriminate|].
  destruct (plookup nm r) as [m''|].
  - intros H. inversion H; subst. right. apply IH. reflexivity.
  - destruct (ThriftBin.bytes_eqb nm k'); [|discriminate]. intros H. inversion H; subst. left. reflexivity.
Qed.

Section Layer.
Variable cd : codec.
Hypothesis Hmsg : forall b, msg_ok b (cd_msg_dec cd b).
Hypothesis Hread : forall fuel e t b, (layer_fuel (length b) <= fuel)%nat -> graceful (cd_read cd fuel e t b).
Hypothesis Hskip : forall fuel b, (layer_fuel (length b) <= fuel)%nat -> graceful (cd_skip_struct cd fuel b).
Hypothesis Hwrite : forall e t v, nof (cd_write cd e t v).

Lemma respond_nof e rh m o : nof (respond_c cd e rh m o).
Proof.
  unfold respond_c. destruct o; try exact I.
  - destruct (m_oneway m); [exact I|]. apply nof_bind; [apply Hwrite|intros; exact I].
  - destruct (if m_oneway m then None else find_throw e n (m_throws m)); [|exact I].
    apply nof_bind; [apply Hwrite|intros; exact I].
Qed.

(** the response headers only travel into the reply *)
Lemma respond_rh e rh m o :
  (do _ <- respond_c cd e rh m o; Ok tt) = (do _ <- respond_c cd e [] m o; Ok tt).
Proof.
  unfold respond_c. destruct o; try reflexivity.
  - destruct (m_oneway m); [reflexivity|]. destruct (cd_write cd e _ _); reflexivity.
  - destruct (if m_oneway m then None else find_throw e n (m_throws m)); [|reflexivity].
    destruct (cd_write cd e _ _); reflexivity.
Qed.
Lemma method_process_rh fuel e h rh m input :
  (do _ <- method_process_c cd fuel e h rh m input; Ok tt) = (do _ <- method_process_c cd fuel e h [] m input; Ok tt).
Proof.
  unfold method_process_c. destruct (cd_read cd fuel e (TRef (m_args m)) input) as [[a r]| | |]; try reflexivity.
  pose proof (respond_rh e rh m (h (m_wire m) (slots_of a))) as H.
  destruct (respond_c cd e rh m _), (respond_c cd e [] m _); cbn in *; congruence.
Qed.

(** Model/GenCall.v's server (the function C03's judge replays against the real generated
    processors) IS the receiver's request processing with this layer plugged in *)
Theorem thrift_layer_is_server_process fuel e pm h payload :
  process_request (thrift_layer_of cd fuel e pm h) payload = (do _ <- server_process_c cd fuel e pm h payload; Ok tt).
Proof.
  unfold process_request, server_process_c, thrift_layer_of.
  destruct (read_request_header payload) as [[[hs opid] r1]| | |]; try reflexivity. cbn [bind].
  destruct (cd_msg_dec cd r1) as [[[[nm ty] seq] r2]| | |]; try reflexivity. cbn [bind].
  destruct (plookup nm pm) as [m|].
  - symmetry. apply method_process_rh.
  - destruct (cd_skip_struct cd fuel r2); reflexivity.
Qed.

Theorem thrift_layer_graceful fuel e pm h b :
  handler_writable cd e pm h -> (layer_fuel (length b) <= fuel)%nat ->
  graceful (thrift_layer_of cd fuel e pm h b).
Proof.
  intros Hh Hf. unfold thrift_layer_of. pose proof (Hmsg b) as Hm.
  destruct (cd_msg_dec cd b) as [[[[nm ty] seq] r2]| | |]; cbn [bind] in *; auto. cbn in Hm.
  assert (Hf2 : (layer_fuel (length r2) <= fuel)%nat) by (unfold layer_fuel in *; lia).
  destruct (plookup nm pm) as [m|] eqn:Epl.
  - unfold method_process_c. pose proof (Hread fuel e (TRef (m_args m)) r2 Hf2) as Hr.
    destruct (cd_read cd fuel e (TRef (m_args m)) r2) as [[a r]| | |]; cbn in Hr; try contradiction; [|exact I].
    pose proof (respond_nof e [] m (h (m_wire m) (slots_of a))) as Hn.
    pose proof (Hh m (slots_of a)) as Hp. specialize (fun p => Hp p (plookup_in _ _ _ Epl)).
    destruct (respond_c cd e [] m (h (m_wire m) (slots_of a))) as [o|err|p|]; cbn in *; auto.
    apply (Hp p). reflexivity.
  - pose proof (Hskip fuel r2 Hf2) as Hs. destruct (cd_skip_struct cd fuel r2); cbn in *; auto.
Qed.
End Layer.

Lemma skip_struct_bin_graceful fuel b : (layer_fuel (length b) <= fuel)%nat -> graceful (skip_default fuel 12 b).
Proof.
  intros Hf. pose proof (skip_default_good fuel 12 b) as H. unfold bmu, layer_fuel in *.
  specialize (H ltac:(lia)). destruct (skip_default fuel 12 b); cbn in *; auto.
Qed.
Lemma skip_struct_compact_graceful fuel b : (layer_fuel (length b) <= fuel)%nat ->
  graceful (do s <- cskip_default fuel 12 (None, b); Ok (snd s)).
Proof.
  intros Hf. pose proof (cskip_default_good fuel 12 (None, b)) as H. unfold cmu, layer_fuel in *. cbn [fst snd] in H.
  specialize (H ltac:(lia)). destruct (cskip_default fuel 12 (None, b)); cbn in *; auto.
Qed.

(** the code as it is (the generated Read goes through FProtocol) ... *)
Theorem thrift_layer_graceful_fbin fuel e pm h b :
  handler_writable fbin_codec e pm h -> (layer_fuel (length b) <= fuel)%nat ->
  graceful (thrift_layer_of fbin_codec fuel e pm h b).
Proof.
  apply thrift_layer_graceful.
  - apply msg_begin_dec_ok.
  - intros f e' t b' Hf. cbn. apply pread_bin_graceful. unfold layer_fuel in Hf. lia.
  - intros f b' Hf. cbn. apply skip_struct_bin_graceful, Hf.
  - intros e' t v. cbn. apply nof_gwrite.
Qed.
Theorem thrift_layer_graceful_fcompact fuel e pm h b :
  handler_writable fcompact_codec e pm h -> (layer_fuel (length b) <= fuel)%nat ->
  graceful (thrift_layer_of fcompact_codec fuel e pm h b).
Proof.
  apply thrift_layer_graceful.
  - apply cmsg_begin_dec_ok.
  - intros f e' t b' Hf. cbn. apply pread_compact_graceful. unfold layer_fuel in Hf. lia.
  - intros f b' Hf. cbn. apply skip_struct_compact_graceful, Hf.
  - intros e' t v. cbn. apply nof_gcwrite.
Qed.
(** ... and the bare TProtocol readers of Model/ThriftBin.v / Model/ThriftCompact.v (C02, C03) *)
Theorem thrift_layer_graceful_bin fuel e pm h b :
  handler_writable bin_codec e pm h -> (layer_fuel (length b) <= fuel)%nat ->
  graceful (thrift_layer_of bin_codec fuel e pm h b).
Proof.
  apply thrift_layer_graceful.
  - apply msg_begin_dec_ok.
  - intros f e' t b' Hf. cbn. rewrite <- pread_bin_is_gread. apply pread_bin_graceful. unfold layer_fuel in Hf. lia.
  - intros f b' Hf. cbn. apply skip_struct_bin_graceful, Hf.
  - intros e' t v. cbn. apply nof_gwrite.
Qed.
Theorem thrift_layer_graceful_compact fuel e pm h b :
  handler_writable compact_codec e pm h -> (layer_fuel (length b) <= fuel)%nat ->
  graceful (thrift_layer_of compact_codec fuel e pm h b).
Proof.
  apply thrift_layer_graceful.
  - apply cmsg_begin_dec_ok.
  - intros f e' t b' Hf. cbn. rewrite <- pread_compact_is_gcread. apply pread_compact_graceful. unfold layer_fuel in Hf. lia.
  - intros f b' Hf. cbn. apply skip_struct_compact_graceful, Hf.
  - intros e' t v. cbn. apply nof_gcwrite.
Qed.

(** the generated Read alone: the binary analogue of c02_compact_read_never_panics, with the fuel bound *)
Theorem binary_read_graceful fuel e t b : (2 * length b + 2 <= fuel)%nat -> graceful (gread fuel e t b).
Proof. intros Hf. rewrite <- pread_bin_is_gread. apply pread_bin_graceful, Hf. Qed.
Theorem compact_read_graceful fuel e t b : (4 * length b + 2 <= fuel)%nat -> graceful (gcread fuel e t b).
Proof. intros Hf. rewrite <- pread_compact_is_gcread. apply pread_compact_graceful, Hf. Qed.

(** * The layer as a function of the bytes alone, and the processor FSimpleServer is handed *)
Lemma thrift_layer_total_fbin e pm h : handler_writable fbin_codec e pm h ->
  forall b, graceful (thrift_layer fbin_codec e pm h b).
Proof. intros Hh b. apply thrift_layer_graceful_fbin; [exact Hh|apply Nat.le_refl]. Qed.
Lemma thrift_layer_total_fcompact e pm h : handler_writable fcompact_codec e pm h ->
  forall b, graceful (thrift_layer fcompact_codec e pm h b).
Proof. intros Hh b. apply thrift_layer_graceful_fcompact; [exact Hh|apply Nat.le_refl]. Qed.

Lemma wf_msgb_sound f : wf_msgb f = true -> wf_msg f.
Proof.
  unfold wf_msgb. rewrite andb_true_iff, forallb_forall. intros [Hb Hl]. split.
  - apply Forall_forall. intros x Hx. specialize (Hb x Hx). unfold byte_ok. lia.
  - lia.
Qed.

Lemma gen_process_graceful cd e pm h :
  (forall b, graceful (thrift_layer cd e pm h b)) ->
  forall f, graceful (on_bytes (gen_process cd e pm h) f).
Proof.
  intros Ht f. unfold on_bytes. destruct (wf_msgb f) eqn:E; [|exact I].
  unfold gen_process. apply graceful_bind'; [|intros; exact I].
  apply process_request_graceful; [exact Ht|apply wf_msgb_sound, E].
Qed.

(** * The FProtocol guards only turn values into errors *)
Lemma pdec_guard_mono P e fuel :
  (forall d d' t st x, pdec P true fuel d e t st = Ok x -> pdec P false fuel d' e t st = Ok x) /\
  (forall d d' et n st x, pdec_seq P true fuel d e et n st = Ok x -> pdec_seq P false fuel d' e et n st = Ok x) /\
  (forall d d' kt vt n st x, pdec_pairs P true fuel d e kt vt n st = Ok x -> pdec_pairs P false fuel d' e kt vt n st = Ok x) /\
  (forall d d' decls last st x, pdec_fields P true fuel d e decls last st = Ok x -> pdec_fields P false fuel d' e decls last st = Ok x).
Proof.
  induction fuel as [|f [IH1 [IH2 [IH3 IH4]]]].
  - repeat split; intros until x; cbn; try discriminate; destruct (n <=? 0); auto; discriminate.
  - repeat split; intros until x.
    + rewrite !pdec_S. unfold size_refused, depth_refused. cbn [andb].
      destruct (shape_of e t); auto.
      * destruct (p_list_hdr P st) as [[n s1]| | |]; cbn [bind]; auto.
        destruct (p_rem P s1 <? n); [discriminate|].
        destruct (pdec_seq P true f d e t0 n s1) as [y| | |] eqn:E; cbn [bind]; try discriminate.
        rewrite (IH2 _ d' _ _ _ _ E). auto.
      * destruct (p_list_hdr P st) as [[n s1]| | |]; cbn [bind]; auto.
        destruct (p_rem P s1 <? n); [discriminate|].
        destruct (pdec_seq P true f d e t0 n s1) as [y| | |] eqn:E; cbn [bind]; try discriminate.
        rewrite (IH2 _ d' _ _ _ _ E). auto.
      * destruct (p_map_hdr P st) as [[n s1]| | |]; cbn [bind]; auto.
        destruct (p_rem P s1 <? n); [discriminate|].
        destruct (pdec_pairs P true f d e k v n s1) as [y| | |] eqn:E; cbn [bind]; try discriminate.
        rewrite (IH3 _ d' _ _ _ _ _ E). auto.
      * destruct (max_read_depth <=? d); [discriminate|].
        destruct (pdec_fields P true f (d + 1) e fs 0 st) as [y| | |] eqn:E; cbn [bind]; try discriminate.
        rewrite (IH4 _ (d' + 1) _ _ _ _ E). auto.
    + rewrite !pdec_seq_S. destruct (n <=? 0); auto.
      destruct (pdec P true f d e et st) as [[y s1]| | |] eqn:E1; cbn [bind]; try discriminate.
      rewrite (IH1 _ d' _ _ _ E1). cbn [bind].
      destruct (pdec_seq P true f d e et (n - 1) s1) as [z| | |] eqn:E2; cbn [bind]; try discriminate.
      rewrite (IH2 _ d' _ _ _ _ E2). auto.
    + rewrite !pdec_pairs_S. destruct (n <=? 0); auto.
      destruct (pdec P true f d e kt st) as [[y s1]| | |] eqn:E1; cbn [bind]; try discriminate.
      rewrite (IH1 _ d' _ _ _ E1). cbn [bind].
      destruct (pdec P true f d e vt s1) as [[y2 s2]| | |] eqn:E2; cbn [bind]; try discriminate.
      rewrite (IH1 _ d' _ _ _ E2). cbn [bind].
      destruct (pdec_pairs P true f d e kt vt (n - 1) s2) as [z| | |] eqn:E3; cbn [bind]; try discriminate.
      rewrite (IH3 _ d' _ _ _ _ _ E3). auto.
    + rewrite !pdec_fields_S.
      destruct (p_field_hdr P last st) as [[[wt id] s1]| | |]; cbn [bind]; auto.
      destruct (wt =? 0); auto.
      destruct (ftyp_of decls id).
      * destruct (pdec P true f d e t s1) as [[y s2]| | |] eqn:E1; cbn [bind]; try discriminate.
        rewrite (IH1 _ d' _ _ _ E1). cbn [bind].
        destruct (pdec_fields P true f d e decls id s2) as [z| | |] eqn:E2; cbn [bind]; try discriminate.
        rewrite (IH4 _ d' _ _ _ _ E2). auto.
      * destruct (p_skip P f wt s1) as [s2| | |]; cbn [bind]; try discriminate. apply IH4.
Qed.

(** whatever the generated Read accepts through FProtocol, the bare TBinaryProtocol /
    TCompactProtocol readers of C02 / C03 accept with the same value *)
Theorem guarded_read_refines_bin fuel e t b x : pread bin_prim true fuel e t b = Ok x -> gread fuel e t b = Ok x.
Proof.
  rewrite <- pread_bin_is_gread. unfold pread.
  destruct (pdec bin_prim true fuel 0 e t (p_init bin_prim b)) as [[w s]| | |] eqn:E; cbn [bind]; try discriminate.
  rewrite (proj1 (pdec_guard_mono bin_prim e fuel) _ 0 _ _ _ E). auto.
Qed.
Theorem guarded_read_refines_compact fuel e t b x : pread compact_prim true fuel e t b = Ok x -> gcread fuel e t b = Ok x.
Proof.
  rewrite <- pread_compact_is_gcread. unfold pread.
  destruct (pdec compact_prim true fuel 0 e t (p_init compact_prim b)) as [[w s]| | |] eqn:E; cbn [bind]; try discriminate.
  rewrite (proj1 (pdec_guard_mono compact_prim e fuel) _ 0 _ _ _ E). auto.
Qed.

(** * Statements as Props/C05.v quotes them *)
Lemma thrift_layer_graceful_bare fuel e pm h b :
  (layer_fuel (length b) <= fuel)%nat ->
  (handler_writable bin_codec e pm h -> graceful (thrift_layer_of bin_codec fuel e pm h b)) /\
  (handler_writable compact_codec e pm h -> graceful (thrift_layer_of compact_codec fuel e pm h b)).
Proof.
  intros Hf. split; intros Hh.
  - apply thrift_layer_graceful_bin; assumption.
  - apply thrift_layer_graceful_compact; assumption.
Qed.

Lemma generated_read_graceful fuel e t b :
  ((2 * length b + 2 <= fuel)%nat -> graceful (gread fuel e t b)) /\
  ((4 * length b + 2 <= fuel)%nat -> graceful (gcread fuel e t b)).
Proof. split; [apply binary_read_graceful|apply compact_read_graceful]. Qed.

Lemma skip_graceful_both fuel depth wt b p :
  ((2 * length b + 2 <= fuel)%nat -> graceful (skip fuel depth wt b)) /\
  ((4 * length b + 4 <= fuel)%nat -> graceful (cskip fuel depth wt (p, b))).
Proof.
  split; intros Hf.
  - pose proof (proj1 (skip_good_all fuel) depth wt b Hf) as H. destruct (skip fuel depth wt b); cbn in *; auto.
  - assert (Hc : (2 * cmu (p, b) + 2 <= fuel)%nat) by (unfold cmu; cbn [fst snd]; destruct p; lia).
    pose proof (proj1 (cskip_good_all fuel) depth wt (p, b) Hc) as H. destruct (cskip fuel depth wt (p, b)); cbn in *; auto.
Qed.

Lemma guards_only_reject fuel e t b x :
  (pread bin_prim true fuel e t b = Ok x -> gread fuel e t b = Ok x) /\
  (pread compact_prim true fuel e t b = Ok x -> gcread fuel e t b = Ok x).
Proof. split; [apply guarded_read_refines_bin|apply guarded_read_refines_compact]. Qed.
(** * The size guard refuses only what the bare binary reader fails on: every element takes a byte *)
Lemma wdec_consumes fuel e t b v r :
  (2 * length b + 2 <= fuel)%nat -> wdec fuel e t b = Ok (v, r) -> (length r < length b)%nat.
Proof.
  intros Hf H. pose proof (bin_pdec_good false e fuel 0 t b Hf) as Hg.
  rewrite (proj1 (pdec_bin_is_wdec e fuel)) in Hg. rewrite H in Hg. exact Hg.
Qed.

Lemma wdec_seq_needs_bytes e et fuel : forall n b l r,
  (2 * length b + 3 <= fuel)%nat -> wdec_seq fuel e et n b = Ok (l, r) ->
  Z.max 0 n <= Z.of_nat (length b) - Z.of_nat (length r).
Proof.
  induction fuel as [|f IH]; intros n b l r Hf H; [lia|].
  cbn [wdec_seq] in H. destruct (n <=? 0) eqn:En.
  - inversion H; subst. apply Z.leb_le in En. lia.
  - apply Z.leb_gt in En.
    destruct (wdec f e et b) as [[x r1]| | |] eqn:E1; cbn [bind] in H; try discriminate.
    pose proof (wdec_consumes f e et b x r1 ltac:(lia) E1) as Hc.
    destruct (wdec_seq f e et (n - 1) r1) as [[l' r2]| | |] eqn:E2; cbn [bind] in H; try discriminate.
    inversion H; subst. pose proof (IH (n - 1) r1 l' r ltac:(lia) E2). lia.
Qed.

Lemma wdec_pairs_needs_bytes e kt vt fuel : forall n b l r,
  (2 * length b + 3 <= fuel)%nat -> wdec_pairs fuel e kt vt n b = Ok (l, r) ->
  2 * Z.max 0 n <= Z.of_nat (length b) - Z.of_nat (length r).
Proof.
  induction fuel as [|f IH]; intros n b l r Hf H; [lia|].
  cbn [wdec_pairs] in H. destruct (n <=? 0) eqn:En.
  - inversion H; subst. apply Z.leb_le in En. lia.
  - apply Z.leb_gt in En.
    destruct (wdec f e kt b) as [[k r1]| | |] eqn:E1; cbn [bind] in H; try discriminate.
    pose proof (wdec_consumes f e kt b k r1 ltac:(lia) E1) as Hc1.
    destruct (wdec f e vt r1) as [[x r2]| | |] eqn:E2; cbn [bind] in H; try discriminate.
    pose proof (wdec_consumes f e vt r1 x r2 ltac:(lia) E2) as Hc2.
    destruct (wdec_pairs f e kt vt (n - 1) r2) as [[l' r3]| | |] eqn:E3; cbn [bind] in H; try discriminate.
    inversion H; subst. pose proof (IH (n - 1) r2 l' r ltac:(lia) E3). lia.
Qed.

(** a list / set / map announcing more elements than bytes remain is never read successfully by the
    bare TBinaryProtocol reader either: FProtocol's refusal changes the moment of the error (before
    the allocation instead of after), not the outcome *)
Theorem size_guard_changes_no_outcome_bin e fuel n b :
  (2 * length b + 3 <= fuel)%nat -> zlen b < n ->
  (forall et, is_ok (wdec_seq fuel e et n b) = false) /\
  (forall kt vt, is_ok (wdec_pairs fuel e kt vt n b) = false).
Proof.
  intros Hf Hn. unfold zlen in Hn. split; intros.
  - destruct (wdec_seq fuel e et n b) as [[l r]| | |] eqn:E; try reflexivity.
    pose proof (wdec_seq_needs_bytes e et fuel n b l r Hf E). lia.
  - destruct (wdec_pairs fuel e kt vt n b) as [[l r]| | |] eqn:E; try reflexivity.
    pose proof (wdec_pairs_needs_bytes e kt vt fuel n b l r Hf E). lia.
Qed.
