(** Lemmas about Model/NatsServer.v (C20). stdlib only. *)
From Coq Require Import ZArith List Bool Arith Lia Permutation.
From FV Require Import Model.NatsServer.
Import ListNotations.

(* ------------------------------------------------------------------ list helpers *)
Lemma length_upd {A} (l : list A) i x : length (upd l i x) = length l.
Proof. revert i; induction l as [|h t IH]; intros [|i]; cbn; auto. Qed.

Lemma wsum_upd {A} (f : A -> nat) (l : list A) i a b :
  nth_error l i = Some a -> wsum f (upd l i b) + f a = wsum f l + f b.
Proof.
  revert i; induction l as [|h t IH]; intros [|i] Hn; cbn in *; try discriminate.
  - injection Hn as ->. lia.
  - specialize (IH _ Hn). lia.
Qed.

Lemma wsum_app {A} (f : A -> nat) l1 l2 : wsum f (l1 ++ l2) = wsum f l1 + wsum f l2.
Proof. induction l1; cbn; lia. Qed.

Lemma nth_error_upd_same {A} (l : list A) i x a :
  nth_error l i = Some a -> nth_error (upd l i x) i = Some x.
Proof. revert i; induction l as [|h t IH]; intros [|i] Hn; cbn in *; try discriminate; eauto. Qed.

Lemma nth_error_upd_other {A} (l : list A) i k x : i <> k -> nth_error (upd l i x) k = nth_error l k.
Proof.
  revert i k; induction l as [|h t IH]; intros [|i] [|k] Hne; cbn; auto; try congruence.
Qed.

Lemma find_idx_some {A} (p : A -> bool) l i :
  find_idx p l = Some i -> exists a, nth_error l i = Some a /\ p a = true.
Proof.
  revert i; induction l as [|h t IH]; intros i Hf; cbn in *; try discriminate.
  destruct (p h) eqn:Hp.
  - injection Hf as <-. exists h. auto.
  - destruct (find_idx p t) as [k|]; cbn in Hf; try discriminate.
    injection Hf as <-. destruct (IH _ eq_refl) as [a [Ha Hpa]]. exists a. auto.
Qed.

Lemma find_idx_none {A} (p : A -> bool) l : find_idx p l = None -> forallb (fun a => negb (p a)) l = true.
Proof.
  induction l as [|h t IH]; cbn; auto. destruct (p h); try discriminate.
  destruct (find_idx p t); cbn; try discriminate. auto.
Qed.

(* ------------------------------------------------------------------ termination measure *)
Lemma wsum_setbar_le l :
  wsum sub_weight (map (fun sb => if registered sb then sub_setbar sb else sb) l) <= wsum sub_weight l + length l.
Proof.
  induction l as [|sb t IH]; cbn [map wsum length]; auto.
  assert (sub_weight (if registered sb then sub_setbar sb else sb) <= sub_weight sb + 1) as Hle.
  { destruct (registered sb) eqn:Hr; unfold sub_weight; cbn; rewrite ?Hr; destruct (bar sb); lia. }
  lia.
Qed.

Ltac dmatch :=
  repeat match goal with
  | H : context[match ?x with _ => _ end] |- _ => destruct x eqn:?; try discriminate
  end.

Ltac inv_some :=
  repeat match goal with
  | H : Some _ = Some _ |- _ => injection H as H; subst
  end.

Ltac rw_goal := repeat match goal with H : _ = _ |- _ => progress (rewrite H) end.
Ltac rw_in HW := repeat match goal with H : _ = _ |- _ =>
  lazymatch H with HW => fail | _ => progress (rewrite H in HW) end end.

(* weight bookkeeping after a step that replaced subscription i / worker j *)
Ltac use_upd :=
  repeat match goal with
  | |- context[wsum sub_weight (upd ?l ?i ?b)] =>
    match goal with H : nth_error l i = Some _ |- _ =>
      let HW := fresh "HW" in
      pose proof (wsum_upd sub_weight _ _ _ b H) as HW;
      let X := fresh "X" in let Y := fresh "Y" in
      set (X := wsum sub_weight (upd l i b)) in *; set (Y := wsum sub_weight l) in *;
      unfold sub_weight in HW; cbn in HW; rewrite ?app_length in HW; cbn in HW; rw_in HW; cbn in HW;
      clearbody X Y
    end
  | |- context[wsum worker_weight (upd ?l ?i ?b)] =>
    match goal with H : nth_error l i = Some _ |- _ =>
      let HV := fresh "HV" in
      pose proof (wsum_upd worker_weight _ _ _ b H) as HV;
      let X := fresh "X" in let Y := fresh "Y" in
      set (X := wsum worker_weight (upd l i b)) in *; set (Y := wsum worker_weight l) in *;
      unfold worker_weight in HV; cbn in HV; clearbody X Y
    end
  end.
Ltac fin := unfold measure; cbn; rewrite ?length_upd, ?app_length, ?map_length; use_upd; rw_goal; cbn; try lia.

Ltac boolh :=
  repeat match goal with
  | H : _ && _ = true |- _ => apply andb_true_iff in H; destruct H
  | H : negb _ = true |- _ => apply negb_true_iff in H
  | H : negb _ = false |- _ => apply negb_false_iff in H
  end.
Ltac idxh :=
  repeat match goal with
  | H : find_idx _ _ = Some _ |- _ =>
    let a := fresh "a" in let Ha := fresh "Ha" in let Hp := fresh "Hp" in
    destruct (find_idx_some _ _ _ H) as [a [Ha Hp]]; clear H
  end;
  repeat match goal with
  | H1 : nth_error ?l ?i = Some ?a, H2 : nth_error ?l ?i = Some ?b |- _ =>
    rewrite H1 in H2; injection H2 as H2; subst
  end.

Lemma measure_decreases s e s' :
  internal e = true -> step s e = Some s' -> measure s' < measure s.
Proof.
  intros Hi Hs. unfold step in Hs. destruct (crashed s) eqn:Hcr; try discriminate.
  destruct e; cbn in Hi; try discriminate; clear Hi;
  unfold step_arrive, step_pop, step_drop, step_enq, step_take, step_start, step_done, step_exit,
         step_drainsub, step_brokerunsub, step_checkdrained, step_barrier in Hs;
  dmatch; inv_some; idxh; boolh;
  try match goal with a : wst |- _ => destruct a; try discriminate end;
  try (pose proof (wsum_setbar_le (subs s)));
  fin.
Qed.

(** every run made of internal events only is at most [measure s] long *)
Lemma internal_run_bounded evs : forall s s',
  forallb internal evs = true -> run s evs = Some s' -> length evs + measure s' <= measure s.
Proof.
  induction evs as [|e r IH]; intros s s' Hi Hr; cbn [run forallb length] in *.
  - injection Hr as <-. lia.
  - apply andb_true_iff in Hi as [Hie Hir]. destruct (step s e) as [s1|] eqn:Hs; try discriminate.
    pose proof (measure_decreases _ _ _ Hie Hs). specialize (IH _ _ Hir Hr). lia.
Qed.

(* ------------------------------------------------------------------ conservation *)
(** Weighted count of the requests at each place; taking [f] = indicator of one request turns
    the equations below into "each request is in exactly one place". *)
Definition optw (f : msg -> nat) (o : option msg) : nat := match o with Some m => f m | None => 0 end.
Definition subw (f : msg -> nat) (sb : sub) : nat := wsum f (pre sb) + wsum f (post sb) + optw f (inh sb).
Definition wrkw (f : msg -> nat) (w : wst) : nat := match w with WHave m | WProc m => f m | _ => 0 end.
Definition procw (f : msg -> nat) (w : wst) : nat := match w with WProc m => f m | _ => 0 end.

Definition Cons (s : st) : Prop :=
  (forall f, wsum f (published (g s)) = wsum f (wire s) + wsum f (dropped (g s)) + wsum f (accepted (g s)))
  /\ (forall f, wsum f (accepted (g s)) =
        wsum f (lost (g s)) + wsum (subw f) (subs s) + wsum f (noreply (g s)) + wsum f (workc s)
        + wsum (wrkw f) (workers s) + wsum f (finished (g s)))
  /\ (forall f, wsum f (startedl (g s)) = wsum (procw f) (workers s) + wsum f (finished (g s)))
  /\ replied (g s) = map mid (filter has_out (finished (g s))).

Lemma wsum_map_same {A} (f : A -> nat) (h : A -> A) l :
  (forall a, f (h a) = f a) -> wsum f (map h l) = wsum f l.
Proof. intros Hh. induction l; cbn; auto. Qed.

Ltac use_upd_gen :=
  repeat match goal with
  | |- context[wsum ?F (upd ?l ?i ?b)] =>
    match goal with H : nth_error l i = Some _ |- _ =>
      let HW := fresh "HW" in
      pose proof (wsum_upd F _ _ _ b H) as HW;
      let X := fresh "X" in let Y := fresh "Y" in
      set (X := wsum F (upd l i b)) in *; set (Y := wsum F l) in *;
      cbn in HW; unfold subw, wrkw, procw, optw in HW; cbn in HW; rewrite ?wsum_app in HW; cbn in HW;
      rw_in HW; cbn in HW; clearbody X Y
    end
  end.

Lemma wsum_repeat0 {A} (f : A -> nat) a n : f a = 0 -> wsum f (repeat a n) = 0.
Proof. intros H. induction n; cbn; auto. rewrite H, IHn. auto. Qed.

Lemma Cons_init n w q : Cons (init n w q).
Proof.
  unfold Cons, init; cbn. split; [|split; [|split]]; try reflexivity; intros f;
  rewrite ?wsum_repeat0 by reflexivity; reflexivity.
Qed.

Lemma Cons_step s e s' : Cons s -> step s e = Some s' -> Cons s'.
Proof.
  intros (C1 & C2 & C3 & C4) Hs. unfold step in Hs. destruct (crashed s) eqn:Hcr; try discriminate.
  destruct e;
  unfold step_arrive, step_pop, step_drop, step_enq, step_take, step_start, step_done, step_exit,
         step_drainsub, step_brokerunsub, step_checkdrained, step_barrier in Hs;
  dmatch; inv_some; idxh; boolh;
  try match goal with a : wst |- _ => destruct a; try discriminate end;
  unfold Cons; cbn;
  (split; [|split; [|split]]);
  try (intros f; specialize (C1 f); specialize (C2 f); specialize (C3 f));
  rewrite ?wsum_app; cbn;
  try (rewrite (wsum_map_same (subw f)) by (intros sb; destruct (registered sb); reflexivity));
  use_upd_gen; rw_goal; cbn; rewrite ?wsum_app; cbn; try lia; auto.
  rewrite filter_app, map_app; cbn. destruct (has_out m); cbn; rewrite ?app_nil_r; reflexivity.
Qed.

(* ------------------------------------------------------------------ phase invariant *)
Definition srank (p : sphase) : nat :=
  match p with SRunning => 0 | SGotQuit => 1 | SFlushed => 2 | SBarrierSet => 3 | SBarrierDone => 4
             | SDoneSent => 5 | SClosed => 6 | SReturned => 7 end.

Definition stop_ok (p : sphase) (t : tphase) : Prop :=
  match p with
  | SRunning => t = TNotCalled \/ t = TSending
  | SGotQuit | SFlushed | SBarrierSet | SBarrierDone => t = TSentQuit \/ t = TWaitDone
  | SDoneSent | SClosed | SReturned => t = TReturned
  end.

Definition sub_inv (r : nat) (sb : sub) : Prop :=
  post sb = []
  /\ (broker sb = false -> draining sb = true)
  /\ (bar sb = true -> broker sb = false)
  /\ (registered sb = false -> draining sb = true /\ broker sb = false /\ pre sb = [] /\ inh sb = None)
  /\ (r = 0 -> draining sb = false)
  /\ (2 <= r -> draining sb = true /\ broker sb = false)
  /\ (r < 3 -> bar sb = false)
  /\ (3 <= r -> bar sb = false -> pre sb = [] /\ inh sb = None).

Definition barw (sb : sub) : nat := if bar sb then 1 else 0.

Definition Inv (n w q : nat) (s : st) : Prop :=
  let r := srank (serve s) in
  stop_ok (serve s) (stop s)
  /\ Forall (sub_inv r) (subs s)
  /\ refs s = wsum barw (subs s)
  /\ (r < 3 -> fired s = false)
  /\ (3 <= r -> (fired s = true <-> refs s = 0))
  /\ (4 <= r -> fired s = true)
  /\ (closed s = true <-> 6 <= r)
  /\ (closed s = false -> Forall (fun x => is_exited x = false) (workers s))
  /\ (existsb is_exited (workers s) = true -> workc s = [])
  /\ (r = 7 -> forallb is_exited (workers s) = true)
  /\ crashed s = false
  /\ lost (g s) = []
  /\ length (subs s) = n /\ length (workers s) = w /\ qlen s = q.

Lemma Forall_upd {A} (P : A -> Prop) l i b : Forall P l -> P b -> Forall P (upd l i b).
Proof.
  intros HF Hb. revert i. induction HF as [|a t Ha Ht IH]; intros [|i]; cbn; constructor; auto.
Qed.

Lemma Forall_nth_error {A} (P : A -> Prop) l i a : Forall P l -> nth_error l i = Some a -> P a.
Proof.
  intros HF. revert i. induction HF as [|x t Hx Ht IH]; intros [|i] Hn; cbn in *; try discriminate.
  - injection Hn as <-. auto.
  - eauto.
Qed.

Lemma Forall_repeat {A} (P : A -> Prop) a n : P a -> Forall P (repeat a n).
Proof. intros H. induction n; cbn; constructor; auto. Qed.

Lemma existsb_Forall_false {A} (p : A -> bool) l : Forall (fun x => p x = false) l -> existsb p l = false.
Proof. induction 1 as [|a t Ha Ht IH]; cbn; auto. rewrite Ha, IH. auto. Qed.

Lemma existsb_upd {A} (p : A -> bool) l i b :
  existsb p (upd l i b) = true -> p b = false -> existsb p l = true.
Proof.
  revert i. induction l as [|a t IH]; intros [|i] He Hb; cbn in *; try discriminate.
  - rewrite Hb in He. cbn in He. rewrite He. apply orb_true_r.
  - apply orb_true_iff in He as [He|He]; [rewrite He; auto|]. rewrite (IH _ He Hb). apply orb_true_r.
Qed.

Lemma forallb_nth_error {A} (p : A -> bool) l i a : forallb p l = true -> nth_error l i = Some a -> p a = true.
Proof.
  revert i. induction l as [|x t IH]; intros [|i] Hf Hn; cbn in *; try discriminate;
  apply andb_true_iff in Hf as [Hx Ht].
  - injection Hn as <-. auto.
  - eauto.
Qed.

Lemma wsum_zero_nth {A} (f : A -> nat) l i a : wsum f l = 0 -> nth_error l i = Some a -> f a = 0.
Proof.
  revert i. induction l as [|x t IH]; intros [|i] Hw Hn; cbn in *; try discriminate.
  - injection Hn as <-. lia.
  - apply (IH i); auto. lia.
Qed.

Lemma wsum_pos_ex {A} (f : A -> nat) l : wsum f l <> 0 -> exists i a, nth_error l i = Some a /\ f a <> 0.
Proof.
  induction l as [|x t IH]; cbn; intros Hw; try lia.
  destruct (f x) eqn:Hx.
  - destruct IH as (i & a & Hn & Ha); try lia. exists (S i), a. auto.
  - exists 0, x. cbn. split; auto. lia.
Qed.

Lemma wsum_ge_nth {A} (f : A -> nat) l i a : nth_error l i = Some a -> f a <= wsum f l.
Proof.
  revert i. induction l as [|x t IH]; intros [|i] Hn; cbn in *; try discriminate.
  - injection Hn as <-. lia.
  - specialize (IH _ Hn). lia.
Qed.

Lemma sub_inv_change r r' sb :
  sub_inv r sb ->
  (r' = 0 -> draining sb = false) ->
  (2 <= r' -> draining sb = true /\ broker sb = false) ->
  (r' < 3 -> bar sb = false) ->
  (3 <= r' -> bar sb = false -> pre sb = [] /\ inh sb = None) ->
  sub_inv r' sb.
Proof. unfold sub_inv. intuition. Qed.

Lemma Inv_init n w q : Inv n w q (init n w q).
Proof.
  unfold Inv, init; cbn.
  split; [left; reflexivity|].
  split; [apply Forall_repeat; unfold sub_inv, sub0; cbn; intuition; try discriminate; try lia|].
  split; [rewrite wsum_repeat0; auto|].
  split; [auto|]. split; [intros; lia|]. split; [intros; lia|].
  split; [split; intros; [discriminate|lia]|].
  split; [intros _; apply Forall_repeat; reflexivity|].
  split; [intros He; rewrite existsb_Forall_false in He; [discriminate|apply Forall_repeat; reflexivity]|].
  split; [intros; discriminate|]. split; [reflexivity|]. split; [reflexivity|].
  split; [apply repeat_length|]. split; [apply repeat_length|reflexivity].
Qed.

Ltac splits := repeat match goal with |- _ /\ _ => split end.
Ltac getsub I2 :=
  match goal with H : nth_error (subs ?s) ?i = Some ?sb |- _ =>
    let Hsb := fresh "Hsb" in pose proof (Forall_nth_error _ _ _ _ I2 H) as Hsb end.
Ltac subinv :=
  unfold sub_inv in *; cbn in *;
  match goal with
  | H : context[srank ?p] |- _ =>
    let r := fresh "r" in
    set (r := srank p) in *; clearbody r;
    destruct (Nat.eq_dec r 0); destruct (le_lt_dec 2 r); destruct (le_lt_dec 3 r); try lia
  | _ => idtac
  end;
  intuition (try congruence; try lia; try discriminate).

Lemma barw_upd_same l i (a b : sub) : nth_error l i = Some a -> bar b = bar a ->
  wsum barw (upd l i b) = wsum barw l.
Proof.
  intros Hn Hb. pose proof (wsum_upd barw _ _ _ b Hn) as HW.
  assert (barw b = barw a) as Hba by (unfold barw; rewrite Hb; auto). lia.
Qed.

Lemma barw_upd_clear l i (a b : sub) : nth_error l i = Some a -> bar a = true -> bar b = false ->
  wsum barw (upd l i b) = pred (wsum barw l).
Proof.
  intros Hn Ha Hb. pose proof (wsum_upd barw _ _ _ b Hn) as HW.
  assert (barw b = 0) as Hb0 by (unfold barw; rewrite Hb; auto).
  assert (barw a = 1) as Ha1 by (unfold barw; rewrite Ha; auto). lia.
Qed.

Definition hbar (sb : sub) : sub := if registered sb then sub_setbar sb else sb.

Lemma bar_lemmas l : Forall (sub_inv 2) l ->
  wsum barw l = 0
  /\ Forall (sub_inv 3) (map hbar l)
  /\ count_registered l = wsum barw (map hbar l)
  /\ (count_registered l = 0 -> Forall (sub_inv 3) l).
Proof.
  unfold count_registered. induction 1 as [|sb t Hsb Ht (IH1 & IH2 & IH3 & IH4)]; cbn.
  - repeat split; auto.
  - destruct Hsb as (P1 & P2 & P3 & P4 & P5 & P6 & P7 & P8).
    assert (2 <= 2) as H22 by lia. assert (2 < 3) as H23 by lia.
    specialize (P6 H22). specialize (P7 H23). destruct P6 as [Pd Pb]. clear P5 P8 H22 H23.
    unfold barw at 1. rewrite P7. cbn. split; [auto|]. split; [|split].
    + constructor; auto. unfold hbar. destruct (registered sb) eqn:Hr.
      * unfold sub_inv; cbn; intuition (try congruence; try lia).
      * unfold sub_inv; cbn; intuition (try congruence; try lia).
    + unfold hbar at 1. destruct (registered sb) eqn:Hr; cbn.
      * unfold barw at 1; cbn. rewrite IH3. reflexivity.
      * unfold barw at 1. rewrite P7. cbn. auto.
    + destruct (registered sb) eqn:Hr; cbn; intros H0; try discriminate.
      constructor; auto. unfold sub_inv; cbn; intuition (try congruence; try lia).
Qed.

Lemma forallb_Forall {A} (p : A -> bool) l : forallb p l = true -> Forall (fun x => p x = true) l.
Proof. induction l; cbn; intros H; constructor; apply andb_true_iff in H as [H1 H2]; auto. Qed.

Lemma Forall_and {A} (P Q : A -> Prop) l : Forall P l -> Forall Q l -> Forall (fun x => P x /\ Q x) l.
Proof. induction 1; intros HQ; inversion HQ; subst; constructor; auto. Qed.

Ltac fwd := repeat match goal with
  | H : ?P -> _ |- _ =>
    match type of P with Prop => let HP := fresh in assert (HP : P) by lia; specialize (H HP); clear HP end
  end.
Ltac chg I2 :=
  eapply Forall_impl; [|exact I2]; intros sb Hsb; cbn in Hsb; unfold sub_inv in Hsb;
  decompose [and] Hsb; clear Hsb; fwd; unfold sub_inv; splits; auto; try (intros; lia);
  try (intros; intuition congruence).

Ltac common I2 :=
  dmatch; inv_some; idxh; boolh; unfold Inv; cbn; splits; auto; rewrite ?length_upd; auto;
  try getsub I2;
  try (apply Forall_upd; auto; subinv; fail);
  try (erewrite barw_upd_same; eauto; fail).

Lemma Inv_step n w q s e s' : Inv n w q s -> step s e = Some s' -> Inv n w q s'.
Proof.
  intros (I1 & I2 & I3 & I4 & I5 & I6 & I7 & I8 & I9 & I10 & I11 & I12 & L1 & L2 & L3) Hs.
  unfold step in Hs. rewrite I11 in Hs.
  destruct e.
  - (* publish *) common I2.
  - (* arrive *) unfold step_arrive in Hs. common I2.
  - (* pop *) unfold step_pop in Hs. common I2.
    all: try (exfalso; subinv; fail).
    all: try (intros; exfalso; subinv; fail).
    all: try (erewrite barw_upd_clear; eauto; congruence).
    + split; intros; auto. apply Nat.eqb_eq; auto.
    + intros Hr. split; intros Hf.
      * apply I5 in Hf; auto. rewrite Hf. reflexivity.
      * apply Nat.eqb_neq in Heqb0. contradiction.
  - (* drop *) unfold step_drop in Hs. common I2.
  - (* enq *) unfold step_enq in Hs. common I2.
    all: try (rw_goal; auto; fail).
    + (* send on closed channel: impossible *)
      exfalso. assert (6 <= srank (serve s)) as Hr by (apply I7; auto).
      assert (refs s = 0) as Hz by (apply I5; [lia|apply I6; lia]).
      rewrite I3 in Hz. pose proof (wsum_zero_nth _ _ _ _ Hz Heqo) as Hb. unfold barw in Hb.
      destruct (bar s0) eqn:Hbar; try discriminate.
      unfold sub_inv in Hsb. destruct Hsb as (_ & _ & _ & _ & _ & _ & _ & Hq).
      destruct Hq as [_ Hq]; auto; try lia. congruence.
    + intros He. rewrite existsb_Forall_false in He; auto. discriminate.
    + intros Hc. apply Forall_upd; auto.
    + intros He. apply existsb_upd in He; auto.
    + intros Hr. specialize (I10 Hr). pose proof (forallb_nth_error _ _ _ _ I10 Ha). destruct a; discriminate.
  - (* take *) unfold step_take in Hs. common I2.
    + intros Hc. apply Forall_upd; auto.
    + intros He. apply existsb_upd in He; auto. apply I9 in He. congruence.
    + intros Hr. specialize (I10 Hr). pose proof (forallb_nth_error _ _ _ _ I10 Heqo). discriminate.
  - (* start *) unfold step_start in Hs. common I2.
    + intros Hc. apply Forall_upd; auto.
    + intros He. apply existsb_upd in He; auto.
    + intros Hr. specialize (I10 Hr). pose proof (forallb_nth_error _ _ _ _ I10 Heqo). discriminate.
  - (* done *) unfold step_done in Hs. common I2.
    + intros Hc. apply Forall_upd; auto.
    + intros He. apply existsb_upd in He; auto.
    + intros Hr. specialize (I10 Hr). pose proof (forallb_nth_error _ _ _ _ I10 Heqo). discriminate.
  - (* exit *) unfold step_exit in Hs. common I2.
    all: try (rw_goal; auto; fail).
    + intros Hc. congruence.
    + intros Hr. specialize (I10 Hr). pose proof (forallb_nth_error _ _ _ _ I10 Heqo). discriminate.
  - (* stopcall *) common I2. destruct (serve s); cbn in *; intuition congruence.
  - (* recvquit *) common I2; try lia; try (intros; lia); try (split; intros; [congruence|lia]).
    + chg I2.
    + split; intros Hx; [apply I7 in Hx; cbn in Hx; lia|lia].
  - (* stopclose *) common I2. destruct (serve s); cbn in *; intuition congruence.
  - (* drainsub *) unfold step_drainsub in Hs. common I2.
    all: try (rw_goal; cbn; auto; fail).
    all: try (rewrite Heqs0 in *; cbn in *; auto; fail).
    rewrite Heqs0 in *. cbn in *. apply Forall_upd; auto.
    unfold sub_inv in Hsb; decompose [and] Hsb; clear Hsb; fwd; unfold sub_inv; cbn; splits; auto; try (intros; lia);
    try (intros; intuition congruence).
  - (* brokerunsub *) unfold step_brokerunsub in Hs. common I2.
  - (* checkdrained *) unfold step_checkdrained in Hs. common I2.
    apply Forall_upd; auto. apply Nat.eqb_eq in H0. unfold pmsgs in H0.
    assert (pre s0 = []) by (destruct (pre s0); cbn in H0; auto; lia).
    assert (inh s0 = None) by (destruct (inh s0); auto; lia).
    subinv.
  - (* flush *) common I2; try lia; try (intros; lia); try (split; intros; [congruence|lia]).
    + pose proof (Forall_and _ _ _ I2 (forallb_Forall _ _ Heqb)) as HF.
      eapply Forall_impl; [|exact HF]. intros sb [Hsb Hu]. cbn in Hsb. boolh.
      unfold sub_inv in Hsb; decompose [and] Hsb; clear Hsb; fwd; unfold sub_inv; splits; auto; try (intros; lia);
      try (intros; intuition congruence).
    + split; intros Hx; [apply I7 in Hx; cbn in Hx; lia|lia].
  - (* barrier *) unfold step_barrier in Hs. destruct (serve s) eqn:Heqs0; try discriminate. cbn in I2.
    destruct (bar_lemmas _ I2) as (B1 & B2 & B3 & B4). fold hbar in Hs.
    common I2; try lia; try (intros; lia); try (rewrite map_length; auto).
    all: try (split; intros Hx; [apply I7 in Hx; cbn in Hx; lia|lia]).
    all: try (exact B2); try (exact B3); try (apply B4; apply Nat.eqb_eq; auto; fail).
    all: try (intros _; split; auto; fail).
    all: intros _; rewrite I4 by (cbn; lia); apply Nat.eqb_neq in Heqb; split; intros; try discriminate; contradiction.
  - (* barrierwait *) common I2; try lia; try (intros; lia).
    + chg I2.
    + intros _. try rewrite Heqb. apply I5. cbn; lia.
    + split; intros Hx; [apply I7 in Hx; cbn in Hx; lia|lia].
  - (* senddone *) common I2; try lia; try (intros; lia).
    + chg I2.
    + intros _. try rewrite Heqb. apply I5. cbn; lia.
    + split; intros Hx; [apply I7 in Hx; cbn in Hx; lia|lia].
  - (* close *) common I2; try lia; try (intros; lia); try (intros; discriminate).
    + chg I2.
    + intros _. try rewrite Heqb. apply I5. cbn; lia.
    + intros _. try rewrite Heqb. apply I6. cbn; lia.
  - (* wait *) common I2; try lia; try (intros; lia).
    + chg I2.
    + intros _. try rewrite Heqb. apply I5. cbn; lia.
    + intros _. try rewrite Heqb. apply I6. cbn; lia.
    + split; intros; [lia|apply I7; cbn; lia].
Qed.

(* ------------------------------------------------------------------ deadlock freedom *)
Lemma forallb_false_ex {A} (p : A -> bool) l : forallb p l = false -> exists j a, nth_error l j = Some a /\ p a = false.
Proof.
  induction l as [|x t IH]; cbn; intros H; try discriminate.
  destruct (p x) eqn:Hx.
  - destruct (IH H) as (j & a & Hn & Ha). exists (S j), a. auto.
  - exists 0, x. auto.
Qed.

Lemma busy_worker_step s :
  crashed s = false -> workers s <> [] -> Forall (fun x => is_exited x = false) (workers s) ->
  find_idx is_idle (workers s) = None ->
  exists e, internal e = true /\ step s e <> None.
Proof.
  intros Hc Hne HF Hi. destruct (workers s) as [|w0 t] eqn:Hw; try congruence.
  inversion HF; subst. cbn in Hi. destruct w0; cbn in *; try discriminate.
  - exists (EStart 0). split; auto. unfold step, step_start. rewrite Hc, Hw. cbn. discriminate.
  - exists (EDone 0). split; auto. unfold step, step_done. rewrite Hc, Hw. cbn. discriminate.
Qed.

Lemma enabled_exists n w q s :
  Inv n w q s -> 1 <= w -> stop s <> TNotCalled -> serve s <> SReturned ->
  exists e, internal e = true /\ step s e <> None.
Proof.
  intros (I1 & I2 & I3 & I4 & I5 & I6 & I7 & I8 & I9 & I10 & I11 & I12 & L1 & L2 & L3) Hw Hstop Hserve.
  assert (workers s <> []) as Hwne by (intros E; rewrite E in L2; cbn in L2; lia).
  destruct (serve s) eqn:Hsv; cbn in *; try congruence.
  - (* running *) destruct I1 as [E|E]; try congruence.
    exists ERecvQuit. split; auto. unfold step. rewrite I11, Hsv, E. discriminate.
  - (* got quit *)
    destruct (find_idx (fun sb => negb (draining sb)) (subs s)) as [i|] eqn:F.
    + exists EDrainSub. split; auto. unfold step, step_drainsub. rewrite I11, Hsv, F.
      destruct (find_idx_some _ _ _ F) as [a [Ha _]]. rewrite Ha. discriminate.
    + pose proof (find_idx_none _ _ F) as FD.
      destruct (find_idx broker (subs s)) as [i|] eqn:FB.
      * destruct (find_idx_some _ _ _ FB) as [a [Ha Hb]].
        pose proof (forallb_nth_error _ _ _ _ FD Ha) as Hd. cbn in Hd. apply negb_true_iff in Hd. apply negb_false_iff in Hd.
        exists (EBrokerUnsub i). split; auto. unfold step, step_brokerunsub. rewrite I11, Ha, Hd, Hb. discriminate.
      * pose proof (find_idx_none _ _ FB) as FN.
        exists EFlush. split; auto. unfold step. rewrite I11, Hsv.
        assert (all_unsubbed (subs s) = true) as ->; try discriminate.
        unfold all_unsubbed. apply forallb_forall. intros x Hx.
        rewrite forallb_forall in FD, FN. specialize (FD x Hx). specialize (FN x Hx). cbn in FD.
        apply negb_true_iff in FD. apply negb_false_iff in FD. rewrite FD, FN. reflexivity.
  - (* flushed *) exists EBarrier. split; auto. unfold step, step_barrier. rewrite I11, Hsv.
    destruct (count_registered (subs s) =? 0); discriminate.
  - (* barrier set *)
    destruct (fired s) eqn:Hf.
    + exists EBarrierWait. split; auto. unfold step. rewrite I11, Hsv, Hf. discriminate.
    + assert (refs s <> 0) as Hr.
      { intros E. assert (3 <= 3) as H33 by lia. apply (I5 H33) in E. congruence. }
      rewrite I3 in Hr. destruct (wsum_pos_ex _ _ Hr) as (i & sb & Hn & Hb).
      unfold barw in Hb. destruct (bar sb) eqn:Hbar; try congruence.
      assert (closed s = false) as Hcl.
      { destruct (closed s) eqn:E; auto. assert (6 <= 3) by (apply I7; auto). lia. }
      destruct (inh sb) as [m|] eqn:Hinh.
      * destruct (has_reply m) eqn:Hrep.
        2:{ exists (EDrop i). split; auto. unfold step, step_drop. rewrite I11, Hn, Hinh, Hrep. discriminate. }
        destruct (length (workc s) <? qlen s) eqn:Hlt.
        { exists (EEnq i). split; auto. unfold step, step_enq. rewrite I11, Hn, Hinh, Hrep, Hcl, Hlt. discriminate. }
        destruct (find_idx is_idle (workers s)) as [j|] eqn:Fi.
        2:{ apply busy_worker_step; auto. }
        destruct (qlen s =? 0) eqn:Hq0.
        { exists (EEnq i). split; auto. unfold step, step_enq. rewrite I11, Hn, Hinh, Hrep, Hcl, Hlt, Hq0, Fi. discriminate. }
        destruct (workc s) as [|m' rest] eqn:Hwc.
        { apply Nat.ltb_ge in Hlt. cbn in Hlt. apply Nat.eqb_neq in Hq0. lia. }
        destruct (find_idx_some _ _ _ Fi) as [a [Ha Hia]]. destruct a; try discriminate.
        exists (ETake j). split; auto. unfold step, step_take. rewrite I11, Ha, Hwc. discriminate.
      * exists (EPop i). split; auto. unfold step, step_pop. rewrite I11, Hn, Hinh.
        destruct (pre sb); [rewrite Hbar; discriminate|destruct (registered sb); discriminate].
  - (* barrier done *) destruct I1 as [E|E].
    + exists EStopClose. split; auto. unfold step. rewrite I11, E. discriminate.
    + exists ESendDone. split; auto. unfold step. rewrite I11, Hsv, E. discriminate.
  - (* done sent *) exists ECloseWorkC. split; auto. unfold step. rewrite I11, Hsv. discriminate.
  - (* closed *)
    destruct (forallb is_exited (workers s)) eqn:Hall.
    + exists EWait. split; auto. unfold step. rewrite I11, Hsv, Hall. discriminate.
    + destruct (forallb_false_ex _ _ Hall) as (j & a & Hn & Ha).
      assert (closed s = true) as Hcl by (apply I7; lia).
      destruct a; try discriminate.
      * destruct (workc s) as [|m' rest] eqn:Hwc.
        -- exists (EExit j). split; auto. unfold step, step_exit. rewrite I11, Hn, Hwc, Hcl. discriminate.
        -- exists (ETake j). split; auto. unfold step, step_take. rewrite I11, Hn, Hwc. discriminate.
      * exists (EStart j). split; auto. unfold step, step_start. rewrite I11, Hn. discriminate.
      * exists (EDone j). split; auto. unfold step, step_done. rewrite I11, Hn. discriminate.
Qed.

(* ------------------------------------------------------------------ reachability *)
Definition reachable (n w q : nat) (s : st) : Prop := exists evs, run (init n w q) evs = Some s.

Lemma run_preserves n w q evs : forall s s',
  Inv n w q s -> Cons s -> run s evs = Some s' -> Inv n w q s' /\ Cons s'.
Proof.
  induction evs as [|e r IH]; intros s s' HI HC Hr; cbn in Hr.
  - injection Hr as <-. auto.
  - destruct (step s e) as [s1|] eqn:Hs; try discriminate.
    apply (IH s1); auto. eapply Inv_step; eauto. eapply Cons_step; eauto.
Qed.

Lemma reachable_inv n w q s : reachable n w q s -> Inv n w q s /\ Cons s.
Proof. intros [evs Hr]. eapply run_preserves; eauto. apply Inv_init. apply Cons_init. Qed.

Lemma run_app evs1 : forall evs2 s s1 s2, run s evs1 = Some s1 -> run s1 evs2 = Some s2 -> run s (evs1 ++ evs2) = Some s2.
Proof.
  induction evs1 as [|e r IH]; intros evs2 s s1 s2 H1 H2; cbn in *.
  - injection H1 as <-. auto.
  - destruct (step s e); try discriminate. eauto.
Qed.

Lemma reachable_run n w q s evs s' : reachable n w q s -> run s evs = Some s' -> reachable n w q s'.
Proof. intros [e0 H0] Hr. exists (e0 ++ evs). eapply run_app; eauto. Qed.

(* ------------------------------------------------------------------ progress *)
Lemma stop_called_stable s e s' : stop s <> TNotCalled -> step s e = Some s' -> stop s' <> TNotCalled.
Proof.
  intros Hn Hs. unfold step in Hs. destruct (crashed s); try discriminate.
  destruct e;
  unfold step_arrive, step_pop, step_drop, step_enq, step_take, step_start, step_done, step_exit,
         step_drainsub, step_brokerunsub, step_checkdrained, step_barrier in Hs;
  dmatch; inv_some; cbn; try congruence.
Qed.

Lemma stop_called_run evs : forall s s', stop s <> TNotCalled -> run s evs = Some s' -> stop s' <> TNotCalled.
Proof.
  induction evs as [|e r IH]; intros s s' Hn Hr; cbn in Hr.
  - injection Hr as <-. auto.
  - destruct (step s e) as [s1|] eqn:Hs; try discriminate. apply (IH s1); auto. eapply stop_called_stable; eauto.
Qed.

Lemma returned_both n w q s : Inv n w q s -> serve s = SReturned -> stop s = TReturned.
Proof. intros (I1 & _) Hs. rewrite Hs in I1. exact I1. Qed.

(** no deadlock: once Stop has been called, some step of the system itself is enabled until both
    Stop and Serve have returned *)
Lemma progress_enabled n w q s :
  reachable n w q s -> 1 <= w -> stop s <> TNotCalled ->
  (serve s = SReturned /\ stop s = TReturned) \/ exists e, internal e = true /\ step s e <> None.
Proof.
  intros Hr Hw Hst. destruct (reachable_inv _ _ _ _ Hr) as [HI HC].
  destruct (serve s) eqn:Hsv; try (right; eapply enabled_exists; eauto; congruence).
  left. split; auto. eapply returned_both; eauto.
Qed.

(** every schedule: a run of system steps that cannot be extended has Stop and Serve returned *)
Lemma maximal_runs_return n w q s evs s' :
  reachable n w q s -> 1 <= w -> stop s <> TNotCalled ->
  run s evs = Some s' ->
  (forall e, internal e = true -> step s' e = None) ->
  serve s' = SReturned /\ stop s' = TReturned.
Proof.
  intros Hr Hw Hst Hrun Hmax.
  assert (reachable n w q s') as Hr' by (eapply reachable_run; eauto).
  assert (stop s' <> TNotCalled) as Hst' by (eapply stop_called_run; eauto).
  destruct (progress_enabled _ _ _ _ Hr' Hw Hst') as [H|[e [Hi He]]]; auto.
  rewrite (Hmax e Hi) in He. congruence.
Qed.

(** and such a run exists, of length at most [measure s] *)
Lemma can_return n w q : 1 <= w -> forall k s,
  measure s <= k -> reachable n w q s -> stop s <> TNotCalled ->
  exists evs s', forallb internal evs = true /\ run s evs = Some s'
                 /\ serve s' = SReturned /\ stop s' = TReturned /\ length evs <= measure s.
Proof.
  intros Hw. induction k as [|k IH]; intros s Hk Hr Hst.
  - destruct (progress_enabled _ _ _ _ Hr Hw Hst) as [[H1 H2]|[e [Hi He]]].
    + exists [], s. cbn. repeat split; auto. lia.
    + destruct (step s e) as [s1|] eqn:Hs; try congruence.
      pose proof (measure_decreases _ _ _ Hi Hs). lia.
  - destruct (progress_enabled _ _ _ _ Hr Hw Hst) as [[H1 H2]|[e [Hi He]]].
    + exists [], s. cbn. repeat split; auto. lia.
    + destruct (step s e) as [s1|] eqn:Hs; try congruence.
      pose proof (measure_decreases _ _ _ Hi Hs) as Hm.
      destruct (IH s1) as (evs & s' & Hall & Hrun & Hsv & Hsp & Hlen); try lia.
      * apply (reachable_run n w q s [e] s1); auto. cbn. rewrite Hs. reflexivity.
      * eapply stop_called_stable; eauto.
      * exists (e :: evs), s'. cbn [forallb run length]. rewrite Hi, Hs. repeat split; auto. lia.
Qed.

(* ------------------------------------------------------------------ multisets as weighted sums *)
Lemma msg_eq_dec : forall a b : msg, {a = b} + {a <> b}.
Proof. decide equality; try apply bool_dec; try apply Nat.eq_dec; apply Z.eq_dec. Qed.

Lemma count_occ_wsum l x : count_occ msg_eq_dec l x = wsum (fun y => if msg_eq_dec y x then 1 else 0) l.
Proof. induction l as [|a t IH]; cbn; auto. destruct (msg_eq_dec a x); rewrite IH; auto. Qed.

Lemma perm_of_wsum (l1 l2 : list msg) : (forall f, wsum f l1 = wsum f l2) -> Permutation l1 l2.
Proof.
  intros H. apply (Permutation_count_occ msg_eq_dec). intros x. rewrite !count_occ_wsum. apply H.
Qed.

Lemma wsum_perm {A} (f : A -> nat) l1 l2 : Permutation l1 l2 -> wsum f l1 = wsum f l2.
Proof. induction 1; cbn; lia. Qed.

Definition opt_list (o : option msg) : list msg := match o with Some m => [m] | None => [] end.
Definition sub_msgs (sb : sub) : list msg := pre sb ++ post sb ++ opt_list (inh sb).
Definition worker_msgs (x : wst) : list msg := match x with WHave m | WProc m => [m] | _ => [] end.

Lemma wsum_flat_map {A} (f : msg -> nat) (h : A -> list msg) l :
  wsum f (flat_map h l) = wsum (fun a => wsum f (h a)) l.
Proof. induction l; cbn; auto. rewrite wsum_app, IHl. auto. Qed.

Lemma wsum_ext {A} (f h : A -> nat) l : (forall a, f a = h a) -> wsum f l = wsum h l.
Proof. intros E. induction l; cbn; auto. Qed.

Lemma subw_msgs f l : wsum (subw f) l = wsum f (flat_map sub_msgs l).
Proof.
  rewrite wsum_flat_map. apply wsum_ext. intros sb. unfold subw, sub_msgs.
  rewrite !wsum_app. destruct (inh sb); cbn; lia.
Qed.

Lemma wrkw_msgs f l : wsum (wrkw f) l = wsum f (flat_map worker_msgs l).
Proof. rewrite wsum_flat_map. apply wsum_ext. intros x. destruct x; cbn; lia. Qed.

(** conservation, in list form: each published request is on the wire, dropped by the broker or
    accepted; each accepted request is in exactly one place *)
Lemma conservation_perm n w q s : reachable n w q s ->
  Permutation (published (g s)) (wire s ++ dropped (g s) ++ accepted (g s))
  /\ Permutation (accepted (g s))
       (flat_map sub_msgs (subs s) ++ noreply (g s) ++ workc s ++ flat_map worker_msgs (workers s)
        ++ finished (g s))
  /\ lost (g s) = []
  /\ replied (g s) = map mid (filter has_out (finished (g s))).
Proof.
  intros Hr. destruct (reachable_inv _ _ _ _ Hr) as [HI (C1 & C2 & C3 & C4)].
  destruct HI as (_ & _ & _ & _ & _ & _ & _ & _ & _ & _ & _ & I12 & _).
  split; [|split; [|split]]; auto.
  - apply perm_of_wsum. intros f. rewrite !wsum_app. rewrite C1. lia.
  - apply perm_of_wsum. intros f. rewrite !wsum_app. rewrite C2, I12, subw_msgs, wrkw_msgs. cbn. lia.
Qed.

(* ------------------------------------------------------------------ safety *)
Lemma wsum_zero_Forall {A} (f : A -> nat) l : wsum f l = 0 -> Forall (fun a => f a = 0) l.
Proof. induction l; cbn; intros H; constructor; try apply IHl; lia. Qed.

Definition quiet (sb : sub) : Prop := pre sb = [] /\ post sb = [] /\ inh sb = None /\ broker sb = false.

Lemma fired_quiet n w q s : Inv n w q s -> 3 <= srank (serve s) -> fired s = true -> Forall quiet (subs s).
Proof.
  intros (I1 & I2 & I3 & I4 & I5 & I6 & _) Hr Hf.
  apply (I5 Hr) in Hf. rewrite I3 in Hf. apply wsum_zero_Forall in Hf.
  pose proof (Forall_and _ _ _ I2 Hf) as HF. eapply Forall_impl; [|exact HF].
  intros sb [Hsb Hb]. unfold barw in Hb. destruct (bar sb) eqn:E; try discriminate.
  unfold sub_inv in Hsb. decompose [and] Hsb. unfold quiet. fwd. intuition.
Qed.

(** close(workC) is reached only when no handler is running or can run again; the send on the
    closed channel (a panic) and the loss of a pending request never happen *)
Lemma no_send_on_closed n w q s : reachable n w q s ->
  crashed s = false /\ lost (g s) = [] /\ (closed s = true -> Forall quiet (subs s)).
Proof.
  intros Hr. destruct (reachable_inv _ _ _ _ Hr) as [HI _]. pose proof HI as HI'.
  destruct HI as (I1 & I2 & I3 & I4 & I5 & I6 & I7 & I8 & I9 & I10 & I11 & I12 & _).
  split; [|split]; auto. intros Hc. apply I7 in Hc. eapply fired_quiet; eauto; try lia. apply I6. lia.
Qed.

(* ------------------------------------------------------------------ the final state *)
Lemma wsum_all_zero {A} (f : A -> nat) l : Forall (fun a => f a = 0) l -> wsum f l = 0.
Proof. induction 1; cbn; lia. Qed.

(** when Serve has returned: every accepted request was either discarded for lack of a reply
    subject or processed to the end (exactly once: the lists are equal as multisets), the
    replies published are exactly those of the processed requests that produced output,
    everything started was finished, nothing is left anywhere *)
Lemma returned_all_done n w q s : reachable n w q s -> 1 <= w -> serve s = SReturned ->
  stop s = TReturned
  /\ Permutation (accepted (g s)) (noreply (g s) ++ finished (g s))
  /\ Permutation (startedl (g s)) (finished (g s))
  /\ replied (g s) = map mid (filter has_out (finished (g s)))
  /\ workc s = [] /\ Forall quiet (subs s) /\ Forall (fun x => x = WExited) (workers s).
Proof.
  intros Hr Hw Hsv. destruct (reachable_inv _ _ _ _ Hr) as [HI (C1 & C2 & C3 & C4)]. pose proof HI as HI'.
  destruct HI as (I1 & I2 & I3 & I4 & I5 & I6 & I7 & I8 & I9 & I10 & I11 & I12 & L1 & L2 & L3).
  rewrite Hsv in *. cbn in *.
  assert (forallb is_exited (workers s) = true) as Hex by auto.
  assert (Forall (fun x => x = WExited) (workers s)) as HexF.
  { apply Forall_forall. intros x Hx. rewrite forallb_forall in Hex. specialize (Hex x Hx). destruct x; try discriminate; auto. }
  assert (workc s = []) as Hwc.
  { apply I9. destruct (workers s) as [|x t]; cbn in *; try lia. apply andb_true_iff in Hex as [Hx _]. rewrite Hx. auto. }
  assert (Forall quiet (subs s)) as Hq.
  { eapply fired_quiet; eauto; rewrite ?Hsv; cbn; try lia; try (apply I6; lia). }
  assert (forall f, wsum (subw f) (subs s) = 0) as Hs0.
  { intros f. apply wsum_all_zero. eapply Forall_impl; [|exact Hq]. intros sb (Q1 & Q2 & Q3 & _).
    unfold subw. rewrite Q1, Q2, Q3. reflexivity. }
  assert (forall f, wsum (wrkw f) (workers s) = 0) as Hw0.
  { intros f. apply wsum_all_zero. eapply Forall_impl; [|exact HexF]. intros x ->. reflexivity. }
  assert (forall f, wsum (procw f) (workers s) = 0) as Hp0.
  { intros f. apply wsum_all_zero. eapply Forall_impl; [|exact HexF]. intros x ->. reflexivity. }
  split; [exact I1|]. split; [|split; [|split; [|split; [|split]]]]; auto.
  - apply perm_of_wsum. intros f. rewrite wsum_app, C2, I12, Hs0, Hw0, Hwc. cbn. lia.
  - apply perm_of_wsum. intros f. rewrite C3, Hp0. lia.
Qed.

(* ------------------------------------------------------------------ before / after Stop *)
(** a request that reaches the broker before Stop is called is accepted *)
Lemma before_stop_accepted n w q s m rest : reachable n w q s ->
  stop s = TNotCalled -> wire s = m :: rest -> msub m < n ->
  exists s', step s EArrive = Some s' /\ accepted (g s') = accepted (g s) ++ [m] /\ wire s' = rest.
Proof.
  intros Hr Hst Hwire Hlt. destruct (reachable_inv _ _ _ _ Hr) as [HI _].
  destruct HI as (I1 & I2 & I3 & I4 & I5 & I6 & I7 & I8 & I9 & I10 & I11 & I12 & L1 & L2 & L3).
  assert (serve s = SRunning) as Hsv.
  { destruct (serve s); cbn in I1; auto; intuition congruence. }
  rewrite Hsv in *. cbn in *.
  destruct (nth_error (subs s) (msub m)) as [sb|] eqn:Hn.
  2:{ apply nth_error_None in Hn. lia. }
  pose proof (Forall_nth_error _ _ _ _ I2 Hn) as Hsb. unfold sub_inv in Hsb. decompose [and] Hsb. fwd.
  assert (broker sb = true) as Hb by (destruct (broker sb); auto; intuition congruence).
  unfold step, step_arrive. rewrite I11, Hwire, Hn, Hb.
  destruct (bar sb); try discriminate. eexists. split; [reflexivity|]. cbn. auto.
Qed.

Lemma srank_mono s e s' : step s e = Some s' -> srank (serve s) <= srank (serve s').
Proof.
  intros Hs. unfold step in Hs. destruct (crashed s); try discriminate.
  destruct e;
  unfold step_arrive, step_pop, step_drop, step_enq, step_take, step_start, step_done, step_exit,
         step_drainsub, step_brokerunsub, step_checkdrained, step_barrier in Hs;
  dmatch; inv_some; cbn; try rewrite Heqs0; cbn; try lia.
Qed.

Lemma flushed_accepts_nothing n w q s e s' :
  Inv n w q s -> 2 <= srank (serve s) -> step s e = Some s' -> accepted (g s') = accepted (g s).
Proof.
  intros (I1 & I2 & _) Hr Hs. unfold step in Hs. destruct (crashed s); try discriminate.
  destruct e;
  unfold step_arrive, step_pop, step_drop, step_enq, step_take, step_start, step_done, step_exit,
         step_drainsub, step_brokerunsub, step_checkdrained, step_barrier in Hs;
  dmatch; inv_some; cbn; auto.
  all: exfalso; pose proof (Forall_nth_error _ _ _ _ I2 Heqo) as Hsb; unfold sub_inv in Hsb; decompose [and] Hsb; fwd;
    intuition congruence.
Qed.

(** once Serve's Flush has returned - in particular once Stop has returned - nothing is accepted any more *)
Lemma none_after_stop n w q evs : forall s s', reachable n w q s ->
  stop s = TReturned -> run s evs = Some s' -> accepted (g s') = accepted (g s) /\ stop s' = TReturned.
Proof.
  induction evs as [|e r IH]; intros s s' Hr Hst Hrun; cbn in Hrun.
  - injection Hrun as <-. auto.
  - destruct (step s e) as [s1|] eqn:Hs; try discriminate.
    destruct (reachable_inv _ _ _ _ Hr) as [HI _].
    assert (5 <= srank (serve s)) as H5.
    { destruct HI as (I1 & _). destruct (serve s); cbn in *; try lia; intuition congruence. }
    assert (reachable n w q s1) as Hr1 by (apply (reachable_run n w q s [e] s1); auto; cbn; rewrite Hs; auto).
    assert (stop s1 = TReturned) as Hst1.
    { pose proof (srank_mono _ _ _ Hs). destruct (reachable_inv _ _ _ _ Hr1) as [(J1 & _) _].
      destruct (serve s1); cbn in *; try lia; auto. }
    destruct (IH s1 s' Hr1 Hst1 Hrun) as [Ha Hb]. split; auto.
    rewrite Ha. eapply flushed_accepts_nothing; eauto. lia.
Qed.

(** only accepted requests are ever started *)
Lemma wsum_le {A} (f h : A -> nat) l : (forall a, f a <= h a) -> wsum f l <= wsum h l.
Proof. intros E. induction l; cbn; auto. specialize (E a). lia. Qed.

Lemma started_incl_accepted n w q s m : reachable n w q s -> In m (startedl (g s)) -> In m (accepted (g s)).
Proof.
  intros Hr Hin. destruct (reachable_inv _ _ _ _ Hr) as [_ (C1 & C2 & C3 & C4)].
  apply (count_occ_In msg_eq_dec). apply (count_occ_In msg_eq_dec) in Hin.
  rewrite count_occ_wsum in *. rewrite C3 in Hin. rewrite C2.
  pose proof (wsum_le (procw (fun y => if msg_eq_dec y m then 1 else 0)) (wrkw (fun y => if msg_eq_dec y m then 1 else 0)) (workers s)) as Hle.
  assert (forall a, procw (fun y => if msg_eq_dec y m then 1 else 0) a <= wrkw (fun y => if msg_eq_dec y m then 1 else 0) a) as Hpt
    by (intros a; destruct a; cbn; lia).
  specialize (Hle Hpt). lia.
Qed.

(** distinct request ids => no id is answered twice *)
Lemma NoDup_map_filter {A B} (f : A -> B) p l : NoDup (map f l) -> NoDup (map f (filter p l)).
Proof.
  induction l as [|a t IH]; cbn; intros H; auto. inversion H; subst.
  destruct (p a); cbn; auto. constructor; auto. intros Hin. apply H2.
  apply in_map_iff in Hin as (x & Hx & Hf). apply filter_In in Hf as [Hf _]. apply in_map_iff. eauto.
Qed.

Lemma NoDup_app_r {A} (l1 l2 : list A) : NoDup (l1 ++ l2) -> NoDup l2.
Proof. induction l1; cbn; auto. intros H. inversion H; auto. Qed.

Lemma replies_unique n w q s : reachable n w q s ->
  NoDup (map mid (published (g s))) -> NoDup (replied (g s)).
Proof.
  intros Hr Hnd. destruct (conservation_perm _ _ _ _ Hr) as (P1 & P2 & _ & P4).
  rewrite P4. apply NoDup_map_filter.
  assert (NoDup (map mid (accepted (g s)))) as Ha.
  { eapply Permutation_NoDup in Hnd; [|apply Permutation_map; exact P1].
    rewrite !map_app in Hnd. apply NoDup_app_r in Hnd. apply NoDup_app_r in Hnd. auto. }
  eapply Permutation_NoDup in Ha; [|apply Permutation_map; exact P2].
  rewrite !map_app in Ha. do 4 apply NoDup_app_r in Ha. auto.
Qed.

(* ------------------------------------------------------------------ reply subjects *)
Definition wr (m : msg) : Prop := has_reply m = true.
Definition Tg (s : st) : Prop :=
  Forall (fun m => has_reply m = false) (noreply (g s))
  /\ Forall wr (workc s)
  /\ Forall (fun x => Forall wr (worker_msgs x)) (workers s)
  /\ Forall wr (startedl (g s))
  /\ Forall wr (finished (g s)).

Lemma Tg_init n w q : Tg (init n w q).
Proof.
  unfold Tg, init; cbn. repeat split; auto. apply Forall_repeat. cbn. auto.
Qed.

Lemma Tg_step s e s' : Tg s -> step s e = Some s' -> Tg s'.
Proof.
  intros (T1 & T2 & T3 & T4 & T5) Hs. unfold step in Hs. destruct (crashed s); try discriminate.
  destruct e;
  unfold step_arrive, step_pop, step_drop, step_enq, step_take, step_start, step_done, step_exit,
         step_drainsub, step_brokerunsub, step_checkdrained, step_barrier in Hs;
  dmatch; inv_some; idxh; boolh; unfold Tg; cbn; splits; auto;
  try (apply Forall_app; split; auto);
  try (apply Forall_upd; auto; cbn; auto);
  try match goal with H : nth_error (workers _) _ = Some _ |- _ =>
        pose proof (Forall_nth_error _ _ _ _ T3 H) as Hwm; cbn in Hwm; try (inversion Hwm; subst; clear Hwm) end;
  try (inversion T2; subst; auto; fail);
  try (repeat constructor; unfold wr; auto; fail).
  all: try (rewrite Heql in T2; inversion T2; subst; auto; repeat constructor; auto).
  all: try (rewrite Heql; constructor).
Qed.

Lemma run_Tg evs : forall s s', Tg s -> run s evs = Some s' -> Tg s'.
Proof.
  induction evs as [|e r IH]; intros s s' HT Hr; cbn in Hr.
  - injection Hr as <-. auto.
  - destruct (step s e) as [s1|] eqn:Hs; try discriminate. apply (IH s1); auto. eapply Tg_step; eauto.
Qed.

Lemma reachable_Tg n w q s : reachable n w q s -> Tg s.
Proof. intros [evs Hr]. eapply run_Tg; eauto. apply Tg_init. Qed.

Lemma perm_filter {A} (p : A -> bool) l1 l2 : Permutation l1 l2 -> Permutation (filter p l1) (filter p l2).
Proof.
  induction 1; cbn; auto.
  - destruct (p x); auto.
  - destruct (p x), (p y); auto. constructor.
  - eapply Permutation_trans; eauto.
Qed.

Lemma filter_all {A} (p : A -> bool) l : Forall (fun a => p a = true) l -> filter p l = l.
Proof. induction 1 as [|a t Ha Ht IH]; cbn; auto. rewrite Ha, IH. auto. Qed.

Lemma filter_none {A} (p : A -> bool) l : Forall (fun a => p a = false) l -> filter p l = [].
Proof. induction 1 as [|a t Ha Ht IH]; cbn; auto. rewrite Ha. auto. Qed.

(** when Serve has returned: the accepted requests that carry a reply subject are exactly the
    processed ones (as multisets: each exactly once); those without were discarded *)
Lemma returned_by_reply n w q s : reachable n w q s -> 1 <= w -> serve s = SReturned ->
  Permutation (filter has_reply (accepted (g s))) (finished (g s))
  /\ Permutation (filter (fun m => negb (has_reply m)) (accepted (g s))) (noreply (g s)).
Proof.
  intros Hr Hw Hsv. destruct (returned_all_done _ _ _ _ Hr Hw Hsv) as (_ & P & _).
  destruct (reachable_Tg _ _ _ _ Hr) as (T1 & _ & _ & _ & T5).
  split.
  - eapply Permutation_trans; [apply perm_filter; exact P|]. rewrite filter_app.
    rewrite (filter_none has_reply), (filter_all has_reply); auto.
  - eapply Permutation_trans; [apply perm_filter; exact P|]. rewrite filter_app.
    rewrite (filter_all (fun m => negb (has_reply m)) (noreply (g s))), (filter_none (fun m => negb (has_reply m)) (finished (g s))).
    + rewrite app_nil_r. auto.
    + eapply Forall_impl; [|exact T5]. intros a Ha. unfold wr in Ha. rewrite Ha. auto.
    + eapply Forall_impl; [|exact T1]. intros a Ha. rewrite Ha. auto.
Qed.
