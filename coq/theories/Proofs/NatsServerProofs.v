(** Lemmas about Model/NatsServer.v (C20). stdlib only. *)
From Coq Require Import ZArith List Bool Arith Lia Permutation.
From FV Require Import Model.NatsServer.
Import ListNotations.

(* ------------------------------------------------------------------ list helpers *)
Lemma length_upd {A} (l : list A) i x : length (upd l i x) = length l.
Proof. revert i; induction l as [|h t IH]; intros [|i]; cbn; auto. Qed.

Lemma wsum_upd {A} (f : A -> nat) (l : list A) i a b :
  nth_error l i = Some a -> wsum f (upd l i b) + f a = wsum f l + f b.
Proof.
  revert i; induction l as [|h t IH]; intros [|i] Hn; cbn in *; try discriminate.
  - injection Hn as ->. lia.
  - specialize (IH _ Hn). lia.
Qed.

Lemma wsum_app {A} (f : A -> nat) l1 l2 : wsum f (l1 ++ l2) = wsum f l1 + wsum f l2.
Proof. induction l1; cbn; lia. Qed.

Lemma nth_error_upd_same {A} (l : list A) i x a :
  nth_error l i = Some a -> nth_error (upd l i x) i = Some x.
Proof. revert i; induction l as [|h t IH]; intros [|i] Hn; cbn in *; try discriminate; eauto. Qed.

Lemma nth_error_upd_other {A} (l : list A) i k x : i <> k -> nth_error (upd l i x) k = nth_error l k.
Proof.
  revert i k; induction l as [|h t IH]; intros [|i] [|k] Hne; cbn; auto; try congruence.
Qed.

Lemma find_idx_some {A} (p : A -> bool) l i :
  find_idx p l = Some i -> exists a, nth_error l i = Some a /\ p a = true.
Proof.
  revert i; induction l as [|h t IH]; intros i Hf; cbn in *; try discriminate.
  destruct (p h) eqn:Hp.
  - injection Hf as <-. exists h. auto.
  - destruct (find_idx p t) as [k|]; cbn in Hf; try discriminate.
    injection Hf as <-. destruct (IH _ eq_refl) as [a [Ha Hpa]]. exists a. auto.
Qed.

Lemma find_idx_none {A} (p : A -> bool) l : find_idx p l = None -> forallb (fun a => negb (p a)) l = true.
Proof.
  induction l as [|h t IH]; cbn; auto. destruct (p h); try discriminate.
  destruct (find_idx p t); cbn; try discriminate. auto.
Qed.

(* ------------------------------------------------------------------ termination measure *)
Lemma wsum_setbar_le l :
  wsum sub_weight (map (fun sb => if registered sb then sub_setbar sb else sb) l) <= wsum sub_weight l + length l.
Proof.
  induction l as [|sb t IH]; cbn [map wsum length]; auto.
  assert (sub_weight (if registered sb then sub_setbar sb else sb) <= sub_weight sb + 1) as Hle.
  { destruct (registered sb) eqn:Hr; unfold sub_weight; cbn; rewrite ?Hr; destruct (bar sb); lia. }
  lia.
Qed.

Ltac dmatch :=
  repeat match goal with
  | H : context[match ?x with _ => _ end] |- _ => destruct x eqn:?; try discriminate
  end.

Ltac inv_some :=
  repeat match goal with
  | H : Some _ = Some _ |- _ => injection H as H; subst
  end.

Ltac rw_goal := repeat match goal with H : _ = _ |- _ => progress (rewrite H) end.
Ltac rw_in HW := repeat match goal with H : _ = _ |- _ =>
  lazymatch H with HW => fail | _ => progress (rewrite H in HW) end end.

(* weight bookkeeping after a step that replaced subscription i / worker j *)
Ltac use_upd :=
  repeat match goal with
  | |- context[wsum sub_weight (upd ?l ?i ?b)] =>
    match goal with H : nth_error l i = Some _ |- _ =>
      let HW := fresh "HW" in
      pose proof (wsum_upd sub_weight _ _ _ b H) as HW;
      let X := fresh "X" in let Y := fresh "Y" in
      set (X := wsum sub_weight (upd l i b)) in *; set (Y := wsum sub_weight l) in *;
      unfold sub_weight in HW; cbn in HW; rewrite ?app_length in HW; cbn in HW; rw_in HW; cbn in HW;
      clearbody X Y
    end
  | |- context[wsum worker_weight (upd ?l ?i ?b)] =>
    match goal with H : nth_error l i = Some _ |- _ =>
      let HV := fresh "HV" in
      pose proof (wsum_upd worker_weight _ _ _ b H) as HV;
      let X := fresh "X" in let Y := fresh "Y" in
      set (X := wsum worker_weight (upd l i b)) in *; set (Y := wsum worker_weight l) in *;
      unfold worker_weight in HV; cbn in HV; clearbody X Y
    end
  end.
Ltac fin := unfold measure; cbn; rewrite ?length_upd, ?app_length, ?map_length; use_upd; rw_goal; cbn; try lia.

Ltac boolh :=
  repeat match goal with
  | H : _ && _ = true |- _ => apply andb_true_iff in H; destruct H
  | H : negb _ = true |- _ => apply negb_true_iff in H
  | H : negb _ = false |- _ => apply negb_false_iff in H
  end.
Ltac idxh :=
  repeat match goal with
  | H : find_idx _ _ = Some _ |- _ =>
    let a := fresh "a" in let Ha := fresh "Ha" in let Hp := fresh "Hp" in
    destruct (find_idx_some _ _ _ H) as [a [Ha Hp]]; clear H
  end;
  repeat match goal with
  | H1 : nth_error ?l ?i = Some ?a, H2 : nth_error ?l ?i = Some ?b |- _ =>
    rewrite H1 in H2; injection H2 as H2; subst
  end.

Lemma measure_decreases s e s' :
  internal e = true -> step s e = Some s' -> measure s' < measure s.
Proof.
  intros Hi Hs. unfold step in Hs. destruct (crashed s) eqn:Hcr; try discriminate.
  destruct e; cbn in Hi; try discriminate; clear Hi;
  unfold step_arrive, step_pop, step_drop, step_enq, step_take, step_start, step_done, step_exit,
         step_drainsub, step_brokerunsub, step_checkdrained, step_barrier in Hs;
  dmatch; inv_some; idxh; boolh;
  try match goal with a : wst |- _ => destruct a; try discriminate end;
  try (pose proof (wsum_setbar_le (subs s)));
  fin.
Qed.

(** every run made of internal events only is at most [measure s] long *)
Lemma internal_run_bounded evs : forall s s',
  forallb internal evs = true -> run s evs = Some s' -> length evs + measure s' <= measure s.
Proof.
  induction evs as [|e r IH]; intros s s' Hi Hr; cbn [run forallb length] in *.
  - injection Hr as <-. lia.
  - apply andb_true_iff in Hi as [Hie Hir]. destruct (step s e) as [s1|] eqn:Hs; try discriminate.
    pose proof (measure_decreases _ _ _ Hie Hs). specialize (IH _ _ Hir Hr). lia.
Qed.

(* ------------------------------------------------------------------ conservation *)
(** Weighted count of the requests at each place; taking [f] = indicator of one request turns
    the equations below into "each request is in exactly one place". *)
Definition optw (f : msg -> nat) (o : option msg) : nat := match o with Some m => f m | None => 0 end.
Definition subw (f : msg -> nat) (sb : sub) : nat := wsum f (pre sb) + wsum f (post sb) + optw f (inh sb).
Definition wrkw (f : msg -> nat) (w : wst) : nat := match w with WHave m | WProc m => f m | _ => 0 end.
Definition procw (f : msg -> nat) (w : wst) : nat := match w with WProc m => f m | _ => 0 end.

Definition Cons (s : st) : Prop :=
  (forall f, wsum f (published (g s)) = wsum f (wire s) + wsum f (dropped (g s)) + wsum f (accepted (g s)))
  /\ (forall f, wsum f (accepted (g s)) =
        wsum f (lost (g s)) + wsum (subw f) (subs s) + wsum f (noreply (g s)) + wsum f (workc s)
        + wsum (wrkw f) (workers s) + wsum f (finished (g s)))
  /\ (forall f, wsum f (startedl (g s)) = wsum (procw f) (workers s) + wsum f (finished (g s)))
  /\ replied (g s) = map mid (filter has_out (finished (g s))).

Lemma wsum_map_same {A} (f : A -> nat) (h : A -> A) l :
  (forall a, f (h a) = f a) -> wsum f (map h l) = wsum f l.
Proof. intros Hh. induction l; cbn; auto. Qed.

Ltac use_upd_gen :=
  repeat match goal with
  | |- context[wsum ?F (upd ?l ?i ?b)] =>
    match goal with H : nth_error l i = Some _ |- _ =>
      let HW := fresh "HW" in
      pose proof (wsum_upd F _ _ _ b H) as HW;
      let X := fresh "X" in let Y := fresh "Y" in
      set (X := wsum F (upd l i b)) in *; set (Y := wsum F l) in *;
      cbn in HW; unfold subw, wrkw, procw, optw in HW; cbn in HW; rewrite ?wsum_app in HW; cbn in HW;
      rw_in HW; cbn in HW; clearbody X Y
    end
  end.

Lemma wsum_repeat0 {A} (f : A -> nat) a n : f a = 0 -> wsum f (repeat a n) = 0.
Proof. intros H. induction n; cbn; auto. rewrite H, IHn. auto. Qed.

Lemma Cons_init n w q : Cons (init n w q).
Proof.
  unfold Cons, init; cbn. split; [|split; [|split]]; try reflexivity; intros f;
  rewrite ?wsum_repeat0 by reflexivity; reflexivity.
Qed.

Lemma Cons_step s e s' : Cons s -> step s e = Some s' -> Cons s'.
Proof.
  intros (C1 & C2 & C3 & C4) Hs. unfold step in Hs. destruct (crashed s) eqn:Hcr; try discriminate.
  destruct e;
  unfold step_arrive, step_pop, step_drop, step_enq, step_take, step_start, step_done, step_exit,
         step_drainsub, step_brokerunsub, step_checkdrained, step_barrier in Hs;
  dmatch; inv_some; idxh; boolh;
  try match goal with a : wst |- _ => destruct a; try discriminate end;
  unfold Cons; cbn;
  (split; [|split; [|split]]);
  try (intros f; specialize (C1 f); specialize (C2 f); specialize (C3 f));
  rewrite ?wsum_app; cbn;
  try (rewrite (wsum_map_same (subw f)) by (intros sb; destruct (registered sb); reflexivity));
  use_upd_gen; rw_goal; cbn; rewrite ?wsum_app; cbn; try lia; auto.
  rewrite filter_app, map_app; cbn. destruct (has_out m); cbn; rewrite ?app_nil_r; reflexivity.
Qed.
