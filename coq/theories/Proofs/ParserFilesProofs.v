(** Proofs about Model/ParserFiles.v: the ok / error view of ParseFrugal the C10 judge replays IS the
    validation model of C11 (Model/CompilerValidate.v) with the diagnostic text forgotten, so every
    fact proved there about what validation accepts holds of what [validate] / [parse_program]
    accept; no fuel result and no panic on file systems whose names the grammar can produce; and
    instance programs for the checks the repository's repairs added. *)
From Coq Require Import ZArith List Bool String Lia.
From FV Require Import Base.Res Model.Peg Model.ParserStrings Model.ParserAst Model.ParserActions Model.Parser
     Model.ParserFiles Proofs.ParserProofs.
From FV Require Import Model.CompilerValidate Proofs.CompilerTotalProofs Proofs.CompilerValidateProofs.
From FV Require Model.CompilerTotal.
Import ListNotations.
Open Scope Z_scope.

(** * [validate] is [cvalidate] *)
Lemma validate_ok_iff f incs :
  ParserFiles.validate f incs = VOk <-> cvalidate (validate_fuel f incs) f incs = ROk.
Proof. unfold ParserFiles.validate. destruct (cvalidate _ f incs); cbn [vres_of]; split; intro H; congruence. Qed.

Lemma validate_err_iff f incs :
  ParserFiles.validate f incs = VErr <-> exists m, cvalidate (validate_fuel f incs) f incs = RErr m.
Proof.
  unfold ParserFiles.validate. destruct (cvalidate _ f incs) as [|m| |]; cbn [vres_of]; split; intro H;
    try discriminate; try (destruct H; discriminate); eauto.
Qed.

Lemma validate_panic_iff f incs :
  ParserFiles.validate f incs = VPanic <-> cvalidate (validate_fuel f incs) f incs = RPanic.
Proof. unfold ParserFiles.validate. destruct (cvalidate _ f incs); cbn [vres_of]; split; intro H; congruence. Qed.

Lemma validate_fuel_iff f incs :
  ParserFiles.validate f incs = VFuel <-> cvalidate (validate_fuel f incs) f incs = RFuel.
Proof. unfold ParserFiles.validate. destruct (cvalidate _ f incs); cbn [vres_of]; split; intro H; congruence. Qed.

Lemma validate_agrees f incs :
  (ParserFiles.validate f incs = VOk <-> cvalidate (validate_fuel f incs) f incs = ROk)
  /\ (ParserFiles.validate f incs = VErr <-> exists m, cvalidate (validate_fuel f incs) f incs = RErr m)
  /\ (ParserFiles.validate f incs = VPanic <-> cvalidate (validate_fuel f incs) f incs = RPanic)
  /\ (ParserFiles.validate f incs = VFuel <-> cvalidate (validate_fuel f incs) f incs = RFuel).
Proof.
  split; [apply validate_ok_iff|]. split; [apply validate_err_iff|].
  split; [apply validate_panic_iff|apply validate_fuel_iff].
Qed.

(** on the trees the grammar can produce, over validated includes: accepted or rejected, nothing else *)
Lemma validate_total f incs :
  file_names_ok f -> incs_wellvalidated incs ->
  ParserFiles.validate f incs = VOk \/ ParserFiles.validate f incs = VErr.
Proof.
  intros H1 H2. pose proof (cvalidate_total (validate_fuel f incs) f incs H1 H2 (le_n _)) as G.
  unfold ParserFiles.validate. destruct (cvalidate _ f incs); cbn [vres_of vgraceful] in *; auto; contradiction.
Qed.

(** everything C11 proves of an accepted file holds of a file [validate] accepts *)
Lemma validate_ok_facts f incs :
  ParserFiles.validate f incs = VOk -> validated_facts (validate_fuel f incs) f incs.
Proof.
  intro H. apply validate_ok_iff in H.
  exact (cvalidate_facts _ f incs (validate_fuel_typedefs f incs) H).
Qed.

(** the checks the repairs added to Frugal.validate, as facts about what [validate] accepts *)
Lemma validate_ok_consequences f incs :
  ParserFiles.validate f incs = VOk ->
  (forall s, In s (fr_services f) -> extends_ok f incs s)
  /\ (forall s m a, In s (fr_services f) -> In m (sv_methods s) -> In a (m_throws m) ->
         is_exception (validate_fuel f incs) f incs (reduce f incs) (f_type a) = Some true)
  /\ (forall s, In s (fr_structs f ++ fr_unions f ++ fr_exceptions f) ->
         NoDup (map f_id (s_fields s)) /\ NoDup (map f_name (s_fields s)))
  /\ (forall t, In t (map td_type (fr_typedefs f) ++ file_uses f
                      ++ flat_map (fun s => map o_type (sc_ops s)) (fr_scopes f)) ->
         valid_ty (reduce f incs) t = true)
  /\ CompilerTotal.validate_typedefs (reduce f incs) = true.
Proof.
  intro H. pose proof (validate_ok_facts f incs H) as F.
  split; [exact (vf_extends _ _ _ F)|]. split; [exact (vf_throws _ _ _ F)|].
  split; [exact (vf_field_ids _ _ _ F)|]. split; [|exact (vf_typedefs _ _ _ F)].
  intros t Hin. apply in_app_or in Hin as [Hin|Hin].
  - apply in_map_iff in Hin as (td & <- & Htd). exact (vf_typedef_targets _ _ _ F td Htd).
  - apply in_app_or in Hin as [Hin|Hin]; [exact (vf_uses _ _ _ F t Hin)|].
    apply in_flat_map in Hin as (sc & Hsc & Hin). apply in_map_iff in Hin as (o & <- & Ho).
    exact (vf_ops _ _ _ F sc o Hsc Ho).
Qed.

(** * [parse_program] is [cparse_program] on the parsed file system *)
Lemma parsed_fs_paths fs : forall pfs, parsed_fs fs = Some pfs -> map fst pfs = map fst fs.
Proof.
  induction fs as [|[p c] t IH]; cbn [parsed_fs]; intros pfs H.
  - inversion H. reflexivity.
  - destruct (parsed_entry c) as [e|]; [|discriminate]. destruct (parsed_fs t) as [t'|]; [|discriminate].
    inversion H; subst. cbn [map fst]. f_equal. apply IH. reflexivity.
Qed.

Lemma parsed_fs_entries fs : forall pfs, parsed_fs fs = Some pfs ->
  forall p f, In (p, FParsed f) pfs -> exists c, In (p, c) fs /\ parse_idl c = Parser.POk f.
Proof.
  induction fs as [|[q c] t IH]; cbn [parsed_fs]; intros pfs H p f Hin.
  - inversion H; subst. destruct Hin.
  - destruct (parsed_entry c) as [e|] eqn:E; [|discriminate]. destruct (parsed_fs t) as [t'|]; [|discriminate].
    inversion H; subst. destruct Hin as [Hin|Hin].
    + inversion Hin; subst. exists c. split; [left; reflexivity|].
      unfold parsed_entry in E. destruct (parse_idl c); try discriminate; inversion E; reflexivity.
    + destruct (IH t' eq_refl p f Hin) as (c' & Hc & Hp). exists c'. split; [right; exact Hc|exact Hp].
Qed.

(** the PEG interpreter gives a verdict on every text of the file system *)
Definition texts_decided (fs : fsys) : Prop := forall p c, In (p, c) fs -> parse_idl c <> PWeird.

Lemma parsed_fs_some fs : texts_decided fs -> exists pfs, parsed_fs fs = Some pfs.
Proof.
  induction fs as [|[p c] t IH]; intro H; cbn [parsed_fs]; [eauto|].
  destruct IH as [t' E']. { intros q d Hin. apply (H q d). right. exact Hin. }
  rewrite E'. unfold parsed_entry.
  pose proof (H p c (or_introl eq_refl)) as Hw.
  assert (parse_idl c <> PNoFuel) as Hf.
  { unfold parse_idl. pose proof (parser_never_out_of_fuel c) as Hf.
    destruct (parse_text c) as [r|]; [|congruence]. intro Hc.
    destruct r as [v|es]; cbn [classify] in Hc; [destruct v|]; discriminate. }
  destruct (parse_idl c); eauto; contradiction.
Qed.

Lemma parse_program_agrees fs root pfs :
  parsed_fs fs = Some pfs ->
  (forall t, parse_program fs root = FOk t <-> cparse_program pfs root = CompilerValidate.POk t)
  /\ (parse_program fs root = FErr <-> exists m, cparse_program pfs root = CompilerValidate.PErr m)
  /\ (parse_program fs root = FPanic <-> cparse_program pfs root = PPanic)
  /\ (parse_program fs root = FFuel <-> cparse_program pfs root = CompilerValidate.PFuel).
Proof.
  intro E. unfold parse_program, parse_program_checked. rewrite E.
  destruct (cparse_program pfs root) as [t0|m| |]; cbn [fres_of]; repeat split; intros; try congruence;
    try discriminate; try (match goal with H : exists _, _ |- _ => destruct H; discriminate end); eauto.
Qed.

(** every file the grammar parses has grammatical names: the hypothesis of C11's totality theorems,
    on the file system of texts *)
Definition texts_names_ok (fs : fsys) : Prop :=
  forall p c f, In (p, c) fs -> parse_idl c = Parser.POk f -> file_names_ok f.

Lemma parsed_fs_names_ok fs pfs : parsed_fs fs = Some pfs -> texts_names_ok fs -> fs_names_ok pfs.
Proof.
  intros E H p f Hin. destruct (parsed_fs_entries fs pfs E p f Hin) as (c & Hc & Hp). exact (H p c f Hc Hp).
Qed.

(** ParseFrugal on such a file system: a tree or an error, never a panic, never out of fuel; and an
    accepted tree is validated all the way down *)
Lemma parse_program_total fs root :
  texts_decided fs -> texts_names_ok fs ->
  ((exists t, parse_program fs root = FOk t) \/ parse_program fs root = FErr)
  /\ forall t, parse_program fs root = FOk t -> CompilerTotalProofs.wellvalidated (reduce_tree t).
Proof.
  intros Hd Hn. destruct (parsed_fs_some fs Hd) as [pfs E].
  pose proof (parsed_fs_names_ok fs pfs E Hn) as Hok.
  destruct (cparse_total_res pfs root Hok) as [G W].
  unfold parse_program, parse_program_checked. rewrite E. split.
  - destruct (cparse_program pfs root) as [t0|m| |]; cbn [fres_of pres_res graceful] in *; eauto; contradiction.
  - intros t Ht. apply W. destruct (cparse_program pfs root); cbn [fres_of] in Ht; congruence.
Qed.

(** the decidable form of the hypotheses: what the judge checks on every program it replays *)
Lemma nonempty_true b : nonempty b = true -> b <> [].
Proof. destruct b; [discriminate|intros _ H; discriminate]. Qed.

Lemma file_names_okb_sound f : file_names_okb f = true -> file_names_ok f.
Proof.
  unfold file_names_okb. intro H. apply andb_true_iff in H as [H Htd]. apply andb_true_iff in H as [Hsv Hsc].
  rewrite forallb_forall in Hsv, Hsc. split; [|split; [|exact Htd]].
  - intros s Hs. specialize (Hsv s Hs). apply andb_true_iff in Hsv as [H1 H2]. rewrite forallb_forall in H2.
    split; [apply nonempty_true; exact H1|intros m Hm; apply nonempty_true; exact (H2 m Hm)].
  - intros s Hs. specialize (Hsc s Hs). apply andb_true_iff in Hsc as [H1 H2]. rewrite forallb_forall in H2.
    split; [apply nonempty_true; exact H1|intros o Ho; apply nonempty_true; exact (H2 o Ho)].
Qed.

Lemma pfs_names_okb_sound pfs : pfs_names_okb pfs = true -> fs_names_ok pfs.
Proof.
  unfold pfs_names_okb. rewrite forallb_forall. intros H p f Hin.
  apply file_names_okb_sound. exact (H (p, FParsed f) Hin).
Qed.

Lemma parse_program_checked_spec fs root :
  parse_program fs root = match parse_program_checked fs root with Some (_, r) => fres_of r | None => FFuel end.
Proof. reflexivity. Qed.

(** a program on which the check says yes: a tree or an error, and an accepted tree is validated
    all the way down *)
Lemma parse_program_checked_total fs root r :
  parse_program_checked fs root = Some (true, r) ->
  parse_program fs root = fres_of r
  /\ ((exists t, parse_program fs root = FOk t) \/ parse_program fs root = FErr)
  /\ forall t, parse_program fs root = FOk t -> CompilerTotalProofs.wellvalidated (reduce_tree t).
Proof.
  unfold parse_program, parse_program_checked. destruct (parsed_fs fs) as [pfs|]; [|discriminate].
  intro H. inversion H as [[Hn Hr]]. clear H.
  destruct (cparse_total_res pfs root (pfs_names_okb_sound pfs Hn)) as [G W].
  split; [reflexivity|]. split.
  - destruct (cparse_program pfs root) as [t0|m| |]; cbn [fres_of pres_res graceful] in *; eauto; contradiction.
  - intros t Ht. apply W. destruct (cparse_program pfs root); cbn [fres_of] in Ht; congruence.
Qed.

(** * Instance programs: the checks the repository's repairs added, through the PEG parser *)
Open Scope string_scope.

Definition pf_dangling_extends : bytes := cat [idl "service A extends Nope { void f() }"].
Definition pf_circular_extends : bytes := cat [idl "service A extends B {}"; idl "service B extends A {}"].
Definition pf_good_extends : bytes := cat [idl "service B {}"; idl "service A extends B {}"].
Definition pf_throws_struct : bytes := cat [idl "struct S {}"; idl "service A { void f() throws (1: S e) }"].
Definition pf_throws_exception : bytes := cat [idl "exception S {}"; idl "service A { void f() throws (1: S e) }"].
Definition pf_dup_field_name : bytes := cat [idl "struct S { 1: i32 a, 2: i32 a }"].
Definition pf_dup_arg_name : bytes := cat [idl "service A { void f(1: i32 a, 2: i32 a) }"].
Definition pf_dup_throws_id : bytes :=
  cat [idl "exception E {}"; idl "exception F {}"; idl "service A { void f() throws (1: E a, 1: F b) }"].
Definition pf_throws_two : bytes :=
  cat [idl "exception E {}"; idl "exception F {}"; idl "service A { void f() throws (1: E a, 2: F b) }"].
Definition pf_inc_extends_root : bytes := cat [idl "include ""base.frugal"""; idl "service A extends base.Nope {}"].
Definition pf_inc_extends_root_ok : bytes := cat [idl "include ""base.frugal"""; idl "service A extends base.Base {}"].
Definition pf_inc_extends_base : bytes := idl "service Base {}".
Definition base_frugal : path := [bytes_of_string "base.frugal"].

Lemma repaired_checks_rejected :
  is_ferr (parse_program [(main_frugal, pf_dangling_extends)] main_frugal) = true
  /\ is_ferr (parse_program [(main_frugal, pf_circular_extends)] main_frugal) = true
  /\ is_fok (parse_program [(main_frugal, pf_good_extends)] main_frugal) = true
  /\ is_ferr (parse_program [(main_frugal, pf_throws_struct)] main_frugal) = true
  /\ is_fok (parse_program [(main_frugal, pf_throws_exception)] main_frugal) = true
  /\ is_ferr (parse_program [(main_frugal, pf_dup_field_name)] main_frugal) = true
  /\ is_ferr (parse_program [(main_frugal, pf_dup_arg_name)] main_frugal) = true
  /\ is_ferr (parse_program [(main_frugal, pf_dup_throws_id)] main_frugal) = true
  /\ is_fok (parse_program [(main_frugal, pf_throws_two)] main_frugal) = true
  /\ is_ferr (parse_program [(main_frugal, pf_inc_extends_root); (base_frugal, pf_inc_extends_base)] main_frugal) = true
  /\ is_fok (parse_program [(main_frugal, pf_inc_extends_root_ok); (base_frugal, pf_inc_extends_base)] main_frugal) = true.
Proof. vm_compute. repeat split; reflexivity. Qed.

Close Scope string_scope.
