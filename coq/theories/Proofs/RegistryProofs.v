From Coq Require Import ZArith List Bool Arith Lia.
From FV Require Import Model.Registry.
Import ListNotations.
Open Scope Z_scope.

(** ** functional update *)
Lemma upd_same cs i c : upd cs i c i = c.
Proof. unfold upd. now rewrite Nat.eqb_refl. Qed.
Lemma upd_other cs i c j : j <> i -> upd cs i c j = cs j.
Proof. intros H. unfold upd. apply Nat.eqb_neq in H. now rewrite H. Qed.

(** ** registry as an association list *)
Lemma reg_lookup_remove_same r k : reg_lookup (reg_remove r k) k = None.
Proof.
  induction r as [|[k' j] r IH]; simpl; [reflexivity|].
  destruct (k' =? k) eqn:E; [exact IH|]. simpl. now rewrite E.
Qed.
Lemma reg_lookup_remove_other r k k2 : k2 <> k -> reg_lookup (reg_remove r k) k2 = reg_lookup r k2.
Proof.
  intros H. induction r as [|[k' j] r IH]; simpl; [reflexivity|].
  destruct (k' =? k) eqn:E.
  - apply Z.eqb_eq in E. subst k'. replace (k =? k2) with false by (symmetry; apply Z.eqb_neq; congruence). exact IH.
  - simpl. now rewrite IH.
Qed.
Lemma reg_remove_in r k k2 j : In (k2, j) (reg_remove r k) -> In (k2, j) r /\ k2 <> k.
Proof.
  induction r as [|[k' j'] r IH]; simpl; [tauto|].
  destruct (k' =? k) eqn:E; simpl.
  - intros H. destruct (IH H). auto.
  - intros [H|H].
    + injection H as -> ->. apply Z.eqb_neq in E. auto.
    + destruct (IH H). auto.
Qed.
Lemma reg_lookup_in r k j : reg_lookup r k = Some j -> In (k, j) r.
Proof.
  induction r as [|[k' j'] r IH]; simpl; [discriminate|].
  destruct (k' =? k) eqn:E.
  - intros [= ->]. apply Z.eqb_eq in E. subst. now left.
  - intros H. right. now apply IH.
Qed.
Lemma reg_lookup_none_not_in r k : reg_lookup r k = None -> forall j, ~ In (k, j) r.
Proof.
  induction r as [|[k' j'] r IH]; simpl; intros H j; [tauto|].
  destruct (k' =? k) eqn:E; [discriminate|]. intros [X|X].
  - injection X as -> ->. rewrite Z.eqb_refl in E. discriminate.
  - eapply IH; eassumption.
Qed.

(** ** the invariant *)
Definition in_flight (p : cphase) : Prop :=
  match p with CParked | CSelect | CTook _ _ => True | _ => False end.

Record inv (s : st) : Prop := {
  (* a registry entry names an existing caller with that op id, which is in flight *)
  i_reg : forall k j, In (k, j) (reg s) ->
            (j < ncallers s)%nat /\ c_op (callers s j) = k /\ in_flight (c_phase (callers s j));
  (* frames waiting in a caller's channel carry that caller's op id; capacity 1 *)
  i_chan : forall j f, In f (c_chan (callers s j)) -> f_op f = c_op (callers s j);
  i_cap : forall j, (length (c_chan (callers s j)) <= 1)%nat;
  (* the frame the reader is about to hand over goes to the caller registered for its op id *)
  i_rd : forall j f, rd s = RLooked j f -> f_op f = c_op (callers s j);
  (* a response taken or returned carries the caller's op id *)
  i_took : forall j t f, c_phase (callers s j) = CTook t (Some f) -> f_op f = c_op (callers s j);
  i_done : forall j f, c_phase (callers s j) = CDone (OOk f) -> f_op f = c_op (callers s j)
}.

Lemma inv_init ops dl dk n : inv (initd ops dl dk n).
Proof. split; cbn; intros; try contradiction; try discriminate; auto. Qed.

Ltac case_upd j i :=
  destruct (Nat.eq_dec j i) as [->|?]; [rewrite ?upd_same in * | rewrite ?upd_other in * by assumption].

(* a step that rewrites only caller i, keeping its op id and channel *)
Lemma inv_touch s i c' r :
  inv s ->
  c_op c' = c_op (callers s i) -> c_chan c' = c_chan (callers s i) ->
  (in_flight (c_phase (callers s i)) -> in_flight (c_phase c')) ->
  (forall t f, c_phase c' = CTook t (Some f) -> c_phase (callers s i) = CTook t (Some f)) ->
  (forall f, c_phase c' = CDone (OOk f) -> c_phase (callers s i) = CDone (OOk f)) ->
  r = rd s ->
  inv {| callers := upd (callers s) i c'; ncallers := ncallers s; reg := reg s; rd := r |}.
Proof.
  intros [Hreg Hchan Hcap Hrd Htook Hdone] Eop Ech Hfl Htk Hdn ->. split; cbn.
  - intros k j Hin. destruct (Hreg k j Hin) as (A & B & C). case_upd j i; auto. rewrite Eop. auto.
  - intros j f Hf. case_upd j i; [rewrite Ech in Hf; rewrite Eop; eauto | eauto].
  - intros j. case_upd j i; [rewrite Ech|]; auto.
  - intros j f Hr. case_upd j i; [rewrite Eop|]; eauto.
  - intros j t f Hp. case_upd j i; [rewrite Eop; eauto | eauto].
  - intros j f Hp. case_upd j i; [rewrite Eop; eauto | eauto].
Qed.

(* the lookup half of dispatch *)
Lemma lookup_inv s f s' : inv s -> lookup_step s f = Some s' -> inv s'.
Proof.
  intros Hinv H. pose proof Hinv as [Hreg Hchan Hcap Hrd Htook Hdone]. unfold lookup_step in H.
  destruct (rd s) eqn:Er; [|discriminate].
  destruct (reg_lookup (reg s) (f_op f)) as [j0|] eqn:El; injection H as <-; [|exact Hinv].
  split; cbn; auto.
  intros j f' X. injection X as -> ->.
  destruct (Hreg _ _ (reg_lookup_in _ _ _ El)) as (_ & B & _). now symmetry.
Qed.

Ltac touch Ep := apply inv_touch; auto; cbn; rewrite ?Ep; cbn; try discriminate; try tauto; auto.

Lemma step_inv tk b s e s' : inv s -> step tk b s e = Some s' -> inv s'.
Proof.
  intros Hinv H. pose proof Hinv as [Hreg Hchan Hcap Hrd Htook Hdone].
  destruct e as [i|i|i|i|f| |i t|i|i|i|op]; cbn [step] in H.
  - (* ERegister *)
    destruct (Nat.ltb i (ncallers s)) eqn:Elt; [|discriminate]. cbn [negb] in H.
    apply Nat.ltb_lt in Elt.
    destruct (c_phase (callers s i)) eqn:Ep; try discriminate.
    assert (Hcons : forall r, (r = reg s \/ r = (c_op (callers s i), i) :: reg s) ->
              inv (with_reg (with_callers s (upd (callers s) i (set_phase (callers s i) CParked))) r)).
    { intros r Hr. split; cbn.
      + intros k j Hin.
        assert (Hin' : In (k, j) (reg s) \/ (k, j) = (c_op (callers s i), i)).
        { destruct Hr as [->| ->]; [left; exact Hin|].
          destruct Hin as [X|X]; [right; now symmetry | left; exact X]. }
        destruct Hin' as [X|X].
        * destruct (Hreg k j X) as (A & B & C). case_upd j i; cbn; auto.
        * injection X as -> ->. rewrite upd_same. cbn. auto.
      + intros j f Hf. case_upd j i; cbn in *; eauto.
      + intros j. case_upd j i; cbn; auto.
      + intros j f Hr'. case_upd j i; cbn; eauto.
      + intros j t f Hp. case_upd j i; cbn in *; [discriminate|eauto].
      + intros j f Hp. case_upd j i; cbn in *; [discriminate|eauto]. }
    destruct tk.
    + injection H as <-. apply Hcons. destruct (c_op (callers s i) <? 0); [auto|].
      destruct (reg_lookup (reg s) (c_op (callers s i))); auto.
    + destruct (c_data (callers s i)); [| injection H as <-; touch Ep |];
        (destruct (c_op (callers s i) <? 0); [injection H as <-; touch Ep|]);
        (destruct (reg_lookup (reg s) (c_op (callers s i))); injection H as <-; [touch Ep | apply Hcons; auto]).
  - (* ERelease *)
    destruct (Nat.ltb i (ncallers s)) eqn:Elt; [|discriminate]. cbn [negb] in H.
    destruct (c_phase (callers s i)) eqn:Ep; try discriminate.
    destruct tk; [injection H as <-; touch Ep|].
    destruct (c_data (callers s i)); injection H as <-; touch Ep.
  - (* ESendOk *)
    destruct (Nat.ltb i (ncallers s)) eqn:Elt; [|discriminate]. cbn [negb] in H.
    destruct (c_send (callers s i)) eqn:Es; try discriminate. injection H as <-.
    apply inv_touch; auto.
  - (* ESendFail *)
    destruct (Nat.ltb i (ncallers s)) eqn:Elt; [|discriminate]. cbn [negb] in H.
    destruct (c_send (callers s i)) eqn:Es; try discriminate. injection H as <-.
    apply inv_touch; auto.
  - (* EArrive *) eapply lookup_inv; eassumption.
  - (* EDeliver *)
    destruct (rd s) as [|j0 f0] eqn:Er; [discriminate|].
    pose proof (Hrd j0 f0 eq_refl) as Hf0.
    destruct (c_chan (callers s j0)) as [|x xs] eqn:Ec.
    + injection H as <-. split; cbn.
      * intros k j Hin. destruct (Hreg k j Hin) as (A & B & C). case_upd j j0; cbn; auto.
      * intros j f Hf. case_upd j j0; cbn in *; [destruct Hf as [<-|[]]; exact Hf0 | eauto].
      * intros j. case_upd j j0; cbn; auto.
      * intros j f X. discriminate.
      * intros j t f Hp. case_upd j j0; cbn in *; eauto.
      * intros j f Hp. case_upd j j0; cbn in *; eauto.
    + destruct b; [discriminate|]. injection H as <-. split; cbn; auto. intros j f X. discriminate.
  - (* ETake *)
    destruct (Nat.ltb i (ncallers s)) eqn:Elt; [|discriminate]. cbn [negb] in H.
    destruct (c_phase (callers s i)) eqn:Ep; try discriminate.
    destruct t; [| | |discriminate].
    + destruct (c_chan (callers s i)) as [|f0 rest] eqn:Ec; [discriminate|]. injection H as <-.
      assert (Hf0 : f_op f0 = c_op (callers s i)) by (apply Hchan; rewrite Ec; now left).
      split; cbn.
      * intros k j Hin. destruct (Hreg k j Hin) as (A & B & C). case_upd j i; cbn; auto.
      * intros j f Hf. case_upd j i; cbn in *; [contradiction|eauto].
      * intros j. case_upd j i; cbn; auto.
      * intros j f Hr. case_upd j i; cbn; eauto.
      * intros j t f Hp. case_upd j i; cbn in *; [injection Hp as _ <-; exact Hf0 | eauto].
      * intros j f Hp. case_upd j i; cbn in *; [discriminate|eauto].
    + destruct (match tk with KAdapter => c_deadline (callers s i) | KNats => true end); [|discriminate].
      injection H as <-. touch Ep.
    + destruct (c_send (callers s i)); try discriminate. injection H as <-. touch Ep.
  - (* EUnregister *)
    destruct (Nat.ltb i (ncallers s)) eqn:Elt; [|discriminate]. cbn [negb] in H.
    destruct (c_phase (callers s i)) as [| | |t got|] eqn:Ep; try discriminate.
    destruct (outcome_of tk t got) as [o|] eqn:Eo; [|discriminate]. injection H as <-.
    split; cbn.
    + intros k j Hin. apply reg_remove_in in Hin. destruct Hin as [Hin Hne].
      destruct (Hreg k j Hin) as (A & B & C). case_upd j i; cbn; auto; try congruence; exfalso; congruence.
    + intros j f Hf. case_upd j i; cbn in *; eauto.
    + intros j. case_upd j i; cbn; auto.
    + intros j f Hr. case_upd j i; cbn; eauto.
    + intros j t' f Hp. case_upd j i; cbn in *; [discriminate|eauto].
    + intros j f Hp. case_upd j i; cbn in *; [|eauto].
      injection Hp as ->. eapply (Htook i t f). rewrite Ep. f_equal.
      destruct t, got as [g|]; cbn in Eo; try discriminate;
        destruct tk; try destruct (is_na g); congruence.
  - (* ENotOpen *)
    destruct (Nat.ltb i (ncallers s)) eqn:Elt; [|discriminate]. cbn [negb] in H.
    destruct tk; [discriminate|].
    destruct (c_phase (callers s i)) eqn:Ep; try discriminate. injection H as <-. touch Ep.
  - (* EPublishFail *)
    destruct (Nat.ltb i (ncallers s)) eqn:Elt; [|discriminate]. cbn [negb] in H.
    destruct tk; [discriminate|].
    destruct (c_phase (callers s i)) eqn:Ep; try discriminate.
    destruct (c_data (callers s i)); try discriminate. injection H as <-. touch Ep.
  - (* EArrive503 *)
    destruct tk; [discriminate|]. eapply lookup_inv; eassumption.
Qed.

Lemma run_inv tk b evs : forall s s', inv s -> run tk b s evs = Some s' -> inv s'.
Proof.
  induction evs as [|e evs IH]; intros s s' Hi H; cbn [run] in H.
  - injection H as <-. exact Hi.
  - destruct (step tk b s e) as [s1|] eqn:E; [|discriminate]. eapply IH; [|exact H]. eapply step_inv; eassumption.
Qed.

(** ** facts that hold of every step *)
Ltac split_step H :=
  repeat match type of H with
         | (if ?c then _ else _) = _ => destruct c eqn:?; try discriminate
         | match ?x with _ => _ end = _ => destruct x eqn:?; try discriminate
         end.

Ltac upd_cases k :=
  repeat match goal with
         | |- context [upd _ ?i _ k] =>
           destruct (Nat.eq_dec k i) as [->|?]; [rewrite upd_same | rewrite upd_other by assumption]
         end.

Lemma step_keeps_shape tk b s e s' : step tk b s e = Some s' ->
  ncallers s' = ncallers s /\ (forall j, c_op (callers s' j) = c_op (callers s j))
  /\ (forall j, c_deadline (callers s' j) = c_deadline (callers s j))
  /\ (forall j, c_data (callers s' j) = c_data (callers s j)).
Proof.
  intros H. destruct e as [i|i|i|i|f| |i t|i|i|i|op]; cbn [step] in H; unfold lookup_step in H; split_step H;
    injection H as <-; cbn; (split; [reflexivity|]); (split; [|split]); intros k;
    try reflexivity; upd_cases k; reflexivity.
Qed.

Lemma step_done_stable tk b s e s' i o :
  step tk b s e = Some s' -> c_phase (callers s i) = CDone o -> c_phase (callers s' i) = CDone o.
Proof.
  intros H Hp. destruct e as [i0|i0|i0|i0|f| |i0 t|i0|i0|i0|op]; cbn [step] in H; unfold lookup_step in H; split_step H;
    injection H as <-; cbn; try exact Hp;
    upd_cases i; cbn; try exact Hp; congruence.
Qed.

Lemma run_done_stable tk b evs : forall s s' i o,
  run tk b s evs = Some s' -> c_phase (callers s i) = CDone o -> c_phase (callers s' i) = CDone o.
Proof.
  induction evs as [|e evs IH]; intros s s' i o H Hp; cbn [run] in H.
  - injection H as <-. exact Hp.
  - destruct (step tk b s e) as [s1|] eqn:E; [|discriminate]. eapply IH; [exact H|]. eapply step_done_stable; eassumption.
Qed.

Lemma run_keeps_shape tk b evs : forall s s', run tk b s evs = Some s' ->
  ncallers s' = ncallers s /\ (forall j, c_op (callers s' j) = c_op (callers s j))
  /\ (forall j, c_deadline (callers s' j) = c_deadline (callers s j))
  /\ (forall j, c_data (callers s' j) = c_data (callers s j)).
Proof.
  induction evs as [|e evs IH]; intros s s' H; cbn [run] in H.
  - injection H as <-. auto.
  - destruct (step tk b s e) as [s1|] eqn:E; [|discriminate].
    destruct (step_keeps_shape tk b s e s1 E) as (A & B & C & D). destruct (IH s1 s' H) as (A' & B' & C' & D').
    repeat split; intros; congruence.
Qed.

Lemma run_app tk b a : forall c s, run tk b s (a ++ c) = match run tk b s a with Some s1 => run tk b s1 c | None => None end.
Proof. induction a as [|e a IH]; intros c s; cbn [app run]; [reflexivity|]. destruct (step tk b s e); auto. Qed.

(** ** C01 *)
Definition distinct_ops (ops : nat -> Z) (n : nat) : Prop :=
  forall i j, (i < n)%nat -> (j < n)%nat -> ops i = ops j -> i = j.

Lemma own_response tk b ops dl dk n evs s i f :
  run tk b (initd ops dl dk n) evs = Some s -> c_phase (callers s i) = CDone (OOk f) -> f_op f = ops i.
Proof.
  intros H Hp. pose proof (run_inv tk b evs _ _ (inv_init ops dl dk n) H) as I.
  rewrite (i_done s I i f Hp). destruct (run_keeps_shape tk b evs _ _ H) as (_ & B & _). now rewrite B.
Qed.

Lemma registry_empties tk b ops dl dk n evs s :
  run tk b (initd ops dl dk n) evs = Some s ->
  (forall i, (i < n)%nat -> exists o, c_phase (callers s i) = CDone o) -> reg s = [].
Proof.
  intros H Hall. pose proof (run_inv tk b evs _ _ (inv_init ops dl dk n) H) as I.
  destruct (run_keeps_shape tk b evs _ _ H) as (A & _). cbn in A.
  destruct (reg s) as [|[k j] r] eqn:E; [reflexivity|]. exfalso.
  destruct (i_reg s I k j) as (Hj & _ & Hfl); [rewrite E; now left|].
  rewrite A in Hj. destruct (Hall j Hj) as [o Ho]. rewrite Ho in Hfl. exact Hfl.
Qed.

(** a finished request has no registry entry pointing at its channel - on every exit path, whatever
    the op ids (no distinctness needed) *)
Lemma done_no_entry tk b ops dl dk n evs s i o :
  run tk b (initd ops dl dk n) evs = Some s -> c_phase (callers s i) = CDone o ->
  forall k, ~ In (k, i) (reg s).
Proof.
  intros H Hp k Hin. pose proof (run_inv tk b evs _ _ (inv_init ops dl dk n) H) as I.
  destruct (i_reg s I k i Hin) as (_ & _ & Hfl). rewrite Hp in Hfl. exact Hfl.
Qed.

(** frames for op ids that are not registered (never issued, completed, timed out and gone) are inert *)
Lemma unregistered_arrival_inert tk b s f :
  rd s = RIdle -> reg_lookup (reg s) (f_op f) = None -> step tk b s (EArrive f) = Some s.
Proof. intros Hr Hl. cbn [step lookup_step]. unfold lookup_step. now rewrite Hr, Hl. Qed.

Lemma unregistered_503_inert b s op :
  rd s = RIdle -> reg_lookup (reg s) op = None -> step KNats b s (EArrive503 op) = Some s.
Proof. intros Hr Hl. cbn [step]. unfold lookup_step. cbn [f_op na_frame]. now rewrite Hr, Hl. Qed.

(** with pairwise distinct op ids, a caller in flight (with a well-formed op id) is registered under its
    own op id, and one that is not in flight (not started, or finished) - or whose op id is malformed
    (negative in the model) - is not registered *)
Definition reg_ok (ops : nat -> Z) (n : nat) (s : st) : Prop :=
  forall i, (i < n)%nat ->
    (in_flight (c_phase (callers s i)) -> 0 <= ops i -> reg_lookup (reg s) (ops i) = Some i)
    /\ (~ in_flight (c_phase (callers s i)) \/ ops i < 0 -> reg_lookup (reg s) (ops i) = None).

(* a step that rewrites only caller i0 without changing whether it is in flight, registry untouched *)
Lemma reg_ok_touch ops n s i0 c' r :
  reg_ok ops n s -> (in_flight (c_phase c') <-> in_flight (c_phase (callers s i0))) ->
  reg_ok ops n {| callers := upd (callers s) i0 c'; ncallers := ncallers s; reg := reg s; rd := r |}.
Proof.
  intros Hok Hiff i Hi. destruct (Hok i Hi) as [Ha Hb]. cbn.
  destruct (Nat.eq_dec i i0) as [->|Hne]; [rewrite upd_same | rewrite upd_other by assumption; split; assumption].
  split; [intros X; apply Ha; tauto | intros X; apply Hb; tauto].
Qed.

Ltac rtouch Ep := unfold with_rd, with_callers, with_reg; cbn [callers ncallers reg rd]; apply reg_ok_touch; [assumption | cbn; rewrite ?Ep; cbn; tauto].

Lemma step_reg_ok tk b ops n s e s' :
  distinct_ops ops n -> ncallers s = n -> (forall j, c_op (callers s j) = ops j) ->
  reg_ok ops n s -> step tk b s e = Some s' -> reg_ok ops n s'.
Proof.
  intros Hd Hn Hop Hok H.
  destruct e as [i0|i0|i0|i0|f| |i0 t|i0|i0|i0|op]; cbn [step] in H.
  - (* ERegister *)
    destruct (Nat.ltb i0 (ncallers s)) eqn:Elt; [|discriminate]. cbn [negb] in H.
    apply Nat.ltb_lt in Elt. rewrite Hn in Elt.
    destruct (c_phase (callers s i0)) eqn:Ep; try discriminate.
    destruct (Hok i0 Elt) as [_ Hb0]. rewrite Ep in Hb0. specialize (Hb0 (or_introl (fun x => x))).
    assert (Hcons : 0 <= ops i0 ->
              reg_ok ops n (with_reg (with_callers s (upd (callers s) i0 (set_phase (callers s i0) CParked)))
                                           ((c_op (callers s i0), i0) :: reg s))).
    { intros Hwf i Hi. destruct (Hok i Hi) as [Ha Hb]. cbn. rewrite Hop.
      destruct (Nat.eq_dec i i0) as [->|Hne].
      + rewrite upd_same. cbn. rewrite Z.eqb_refl. split; [reflexivity|intros [X|X]; [exfalso; apply X; exact I | lia]].
      + rewrite upd_other by assumption.
        replace (ops i0 =? ops i) with false; [split; assumption|].
        symmetry. apply Z.eqb_neq. intros E. apply Hne. symmetry. now apply Hd. }
    (* malformed op id on the adapter: in flight, nothing registered *)
    assert (Hbad : ops i0 < 0 ->
              reg_ok ops n (with_reg (with_callers s (upd (callers s) i0 (set_phase (callers s i0) CParked))) (reg s))).
    { intros Hneg i Hi. destruct (Hok i Hi) as [Ha Hb]. cbn.
      destruct (Nat.eq_dec i i0) as [->|Hne]; [rewrite upd_same | rewrite upd_other by assumption; split; assumption].
      cbn. split; [intros _ X; lia | intros _; exact Hb0]. }
    rewrite Hop in H. destruct (ops i0 <? 0) eqn:Eneg; [apply Z.ltb_lt in Eneg | apply Z.ltb_ge in Eneg].
    + destruct tk; [injection H as <-; exact (Hbad Eneg)|].
      destruct (c_data (callers s i0)); injection H as <-; rtouch Ep.
    + rewrite Hb0 in H. destruct tk.
      * injection H as <-. rewrite <- (Hop i0). exact (Hcons Eneg).
      * destruct (c_data (callers s i0)); injection H as <-; try (rewrite <- (Hop i0); exact (Hcons Eneg)); rtouch Ep.
  - (* ERelease *)
    destruct (Nat.ltb i0 (ncallers s)) eqn:Elt; [|discriminate]. cbn [negb] in H.
    destruct (c_phase (callers s i0)) eqn:Ep; try discriminate.
    destruct tk; [injection H as <-; rtouch Ep|].
    destruct (c_data (callers s i0)); injection H as <-; rtouch Ep.
  - (* ESendOk *)
    destruct (Nat.ltb i0 (ncallers s)) eqn:Elt; [|discriminate]. cbn [negb] in H.
    destruct (c_send (callers s i0)) eqn:Es; try discriminate. injection H as <-. rtouch Es.
  - (* ESendFail *)
    destruct (Nat.ltb i0 (ncallers s)) eqn:Elt; [|discriminate]. cbn [negb] in H.
    destruct (c_send (callers s i0)) eqn:Es; try discriminate. injection H as <-. rtouch Es.
  - (* EArrive *)
    unfold lookup_step in H. destruct (rd s); [|discriminate].
    destruct (reg_lookup (reg s) (f_op f)); injection H as <-; exact Hok.
  - (* EDeliver *)
    destruct (rd s) as [|j0 f0]; [discriminate|].
    destruct (c_chan (callers s j0)) eqn:Ec.
    + injection H as <-. rtouch Ec.
    + destruct b; [discriminate|]. injection H as <-. exact Hok.
  - (* ETake *)
    destruct (Nat.ltb i0 (ncallers s)) eqn:Elt; [|discriminate]. cbn [negb] in H.
    destruct (c_phase (callers s i0)) eqn:Ep; try discriminate.
    destruct t; [| | |discriminate].
    + destruct (c_chan (callers s i0)) eqn:Ec; [discriminate|]. injection H as <-. rtouch Ep.
    + destruct (match tk with KAdapter => c_deadline (callers s i0) | KNats => true end); [|discriminate].
      injection H as <-. rtouch Ep.
    + destruct (c_send (callers s i0)); try discriminate. injection H as <-. rtouch Ep.
  - (* EUnregister *)
    destruct (Nat.ltb i0 (ncallers s)) eqn:Elt; [|discriminate]. cbn [negb] in H.
    apply Nat.ltb_lt in Elt. rewrite Hn in Elt.
    destruct (c_phase (callers s i0)) as [| | |t got|] eqn:Ep; try discriminate.
    destruct (outcome_of tk t got) as [o|]; [|discriminate]. injection H as <-.
    intros i Hi. destruct (Hok i Hi) as [Ha Hb]. cbn. rewrite Hop.
    destruct (Nat.eq_dec i i0) as [->|Hne].
    + rewrite upd_same. cbn. rewrite reg_lookup_remove_same. split; [intros []|reflexivity].
    + rewrite upd_other by assumption. rewrite reg_lookup_remove_other; [split; assumption|].
      intros E. apply Hne. now apply Hd.
  - (* ENotOpen *)
    destruct (Nat.ltb i0 (ncallers s)) eqn:Elt; [|discriminate]. cbn [negb] in H.
    destruct tk; [discriminate|].
    destruct (c_phase (callers s i0)) eqn:Ep; try discriminate. injection H as <-. rtouch Ep.
  - (* EPublishFail *)
    destruct (Nat.ltb i0 (ncallers s)) eqn:Elt; [|discriminate]. cbn [negb] in H.
    destruct tk; [discriminate|].
    destruct (c_phase (callers s i0)) eqn:Ep; try discriminate.
    destruct (c_data (callers s i0)); try discriminate. injection H as <-. rtouch Ep.
  - (* EArrive503 *)
    destruct tk; [discriminate|]. unfold lookup_step in H. destruct (rd s); [|discriminate].
    destruct (reg_lookup (reg s) (f_op (na_frame op))); injection H as <-; exact Hok.
Qed.

Lemma run_reg_ok tk b ops dl dk n evs s :
  distinct_ops ops n -> run tk b (initd ops dl dk n) evs = Some s -> reg_ok ops n s.
Proof.
  intros Hd.
  assert (G : forall evs s0 s, ncallers s0 = n -> (forall j, c_op (callers s0 j) = ops j) -> reg_ok ops n s0 ->
              run tk b s0 evs = Some s -> reg_ok ops n s).
  { clear evs s. induction evs as [|e evs IH]; intros s0 s Hn Hop Hok H; cbn [run] in H.
    - injection H as <-. exact Hok.
    - destruct (step tk b s0 e) as [s1|] eqn:E; [|discriminate].
      destruct (step_keeps_shape tk b s0 e s1 E) as (A & B & _).
      apply (IH s1 s); [congruence | intros j; rewrite B; apply Hop | eapply step_reg_ok; eassumption | exact H]. }
  intros H. apply (G evs (initd ops dl dk n) s); auto.
  intros i Hi. cbn. split; [intros []|reflexivity].
Qed.

(** NATS, ANY op ids (two concurrent requests may share an FContext): Register's error is returned, so a
    request that is in flight always owns the registration of its op id - nobody else can overwrite
    or delete it (the adapter transport ignores Register's error and has no such guarantee) *)
Definition owns (s : st) : Prop :=
  forall i, (i < ncallers s)%nat -> in_flight (c_phase (callers s i)) -> reg_lookup (reg s) (c_op (callers s i)) = Some i.

Lemma owns_touch s i0 c' r :
  owns s -> c_op c' = c_op (callers s i0) -> (in_flight (c_phase c') -> in_flight (c_phase (callers s i0))) ->
  owns {| callers := upd (callers s) i0 c'; ncallers := ncallers s; reg := reg s; rd := r |}.
Proof.
  intros Ho Eop Hfl i Hi. cbn in *.
  destruct (Nat.eq_dec i i0) as [->|Hne]; [rewrite upd_same | rewrite upd_other by assumption; auto].
  intros X. rewrite Eop. auto.
Qed.

Ltac otouch Ep := unfold with_rd, with_callers, with_reg; cbn [callers ncallers reg rd]; apply owns_touch;
  [assumption | reflexivity | cbn; rewrite ?Ep; cbn; tauto].

Lemma step_owns b s e s' : inv s -> owns s -> step KNats b s e = Some s' -> owns s'.
Proof.
  intros Hinv Ho H.
  destruct e as [i0|i0|i0|i0|f| |i0 t|i0|i0|i0|op]; cbn [step] in H.
  - destruct (Nat.ltb i0 (ncallers s)) eqn:Elt; [|discriminate]. cbn [negb] in H.
    destruct (c_phase (callers s i0)) eqn:Ep; try discriminate.
    destruct (c_data (callers s i0)); [| injection H as <-; otouch Ep |];
      (destruct (c_op (callers s i0) <? 0); [injection H as <-; otouch Ep|]);
      (destruct (reg_lookup (reg s) (c_op (callers s i0))) eqn:El; injection H as <-; [otouch Ep|]);
      (intros i Hi; cbn in *; destruct (Nat.eq_dec i i0) as [->|Hne];
       [rewrite upd_same; cbn; now rewrite Z.eqb_refl |
        rewrite upd_other by assumption; intros X;
        destruct (c_op (callers s i0) =? c_op (callers s i)) eqn:E; [|auto];
        apply Z.eqb_eq in E; rewrite E in El; rewrite (Ho i Hi X) in El; discriminate]).
  - destruct (Nat.ltb i0 (ncallers s)) eqn:Elt; [|discriminate]. cbn [negb] in H.
    destruct (c_phase (callers s i0)) eqn:Ep; try discriminate.
    destruct (c_data (callers s i0)); injection H as <-; otouch Ep.
  - destruct (Nat.ltb i0 (ncallers s)) eqn:Elt; [|discriminate]. cbn [negb] in H.
    destruct (c_send (callers s i0)) eqn:Es; try discriminate. injection H as <-. otouch Es.
  - destruct (Nat.ltb i0 (ncallers s)) eqn:Elt; [|discriminate]. cbn [negb] in H.
    destruct (c_send (callers s i0)) eqn:Es; try discriminate. injection H as <-. otouch Es.
  - unfold lookup_step in H. destruct (rd s); [|discriminate].
    destruct (reg_lookup (reg s) (f_op f)); injection H as <-; exact Ho.
  - destruct (rd s) as [|j0 f0]; [discriminate|].
    destruct (c_chan (callers s j0)) eqn:Ec.
    + injection H as <-. otouch Ec.
    + destruct b; [discriminate|]. injection H as <-. exact Ho.
  - destruct (Nat.ltb i0 (ncallers s)) eqn:Elt; [|discriminate]. cbn [negb] in H.
    destruct (c_phase (callers s i0)) eqn:Ep; try discriminate.
    destruct t; [| | |discriminate].
    + destruct (c_chan (callers s i0)) eqn:Ec; [discriminate|]. injection H as <-. otouch Ep.
    + injection H as <-. otouch Ep.
    + destruct (c_send (callers s i0)); try discriminate. injection H as <-. otouch Ep.
  - destruct (Nat.ltb i0 (ncallers s)) eqn:Elt; [|discriminate]. cbn [negb] in H.
    apply Nat.ltb_lt in Elt.
    destruct (c_phase (callers s i0)) as [| | |t got|] eqn:Ep; try discriminate.
    destruct (outcome_of KNats t got) as [o|]; [|discriminate]. injection H as <-.
    intros i Hi. cbn in *.
    destruct (Nat.eq_dec i i0) as [->|Hne]; [rewrite upd_same; cbn; intros [] | rewrite upd_other by assumption].
    intros X. rewrite reg_lookup_remove_other; [auto|].
    intros E. apply Hne. pose proof (Ho i Hi X) as A. rewrite E in A.
    assert (B : reg_lookup (reg s) (c_op (callers s i0)) = Some i0) by (apply Ho; [exact Elt | rewrite Ep; exact I]).
    congruence.
  - destruct (Nat.ltb i0 (ncallers s)) eqn:Elt; [|discriminate]. cbn [negb] in H.
    destruct (c_phase (callers s i0)) eqn:Ep; try discriminate. injection H as <-. otouch Ep.
  - destruct (Nat.ltb i0 (ncallers s)) eqn:Elt; [|discriminate]. cbn [negb] in H.
    destruct (c_phase (callers s i0)) eqn:Ep; try discriminate.
    destruct (c_data (callers s i0)); try discriminate. injection H as <-. otouch Ep.
  - unfold lookup_step in H. destruct (rd s); [|discriminate].
    destruct (reg_lookup (reg s) (f_op (na_frame op))); injection H as <-; exact Ho.
Qed.

Lemma run_owns b evs : forall s s', inv s -> owns s -> run KNats b s evs = Some s' -> owns s'.
Proof.
  induction evs as [|e evs IH]; intros s s' Hi Ho H; cbn [run] in H.
  - injection H as <-. exact Ho.
  - destruct (step KNats b s e) as [s1|] eqn:E; [|discriminate].
    eapply IH; [eapply step_inv; eassumption | eapply step_owns; eassumption | exact H].
Qed.

Lemma nats_in_flight_owns b ops dl dk n evs s i :
  run KNats b (initd ops dl dk n) evs = Some s -> (i < n)%nat ->
  in_flight (c_phase (callers s i)) -> reg_lookup (reg s) (ops i) = Some i.
Proof.
  intros H Hi Hfl. destruct (run_keeps_shape _ _ _ _ _ H) as (A & B & _). cbn in A, B.
  rewrite <- B. apply (run_owns b evs _ s (inv_init ops dl dk n)); [|exact H|congruence|exact Hfl].
  intros j _ []. 
Qed.

(** NATS: a Request whose Register fails returns that error and touches nothing else *)
Lemma nats_register_error_inert b s i j :
  (i < ncallers s)%nat -> c_phase (callers s i) = CNew -> c_data (callers s i) <> DEmpty ->
  reg_lookup (reg s) (c_op (callers s i)) = Some j ->
  exists s', step KNats b s (ERegister i) = Some s' /\ c_phase (callers s' i) = CDone ORegErr
    /\ reg s' = reg s /\ rd s' = rd s /\ (forall k, k <> i -> callers s' k = callers s k).
Proof.
  intros Hi Hp Hd Hl. cbn [step]. apply Nat.ltb_lt in Hi. rewrite Hi. cbn [negb]. rewrite Hp, Hl.
  destruct (c_data (callers s i)); try congruence; destruct (c_op (callers s i) <? 0);
    (eexists; split; [reflexivity|]; cbn; rewrite upd_same; repeat split; auto; intros k Hk; now rewrite upd_other).
Qed.

(** a request whose FContext carries a malformed op id (negative in the model) registers nothing: on
    NATS it returns Register's error at once, on the adapter (which ignores that error) it goes on
    without a registration; either way registry, reader and all other requests are untouched *)
Lemma malformed_opid_registers_nothing tk b s i :
  (i < ncallers s)%nat -> c_phase (callers s i) = CNew -> c_op (callers s i) < 0 ->
  (tk = KNats -> c_data (callers s i) <> DEmpty) ->
  exists s', step tk b s (ERegister i) = Some s'
    /\ c_phase (callers s' i) = match tk with KNats => CDone ORegErr | KAdapter => CParked end
    /\ reg s' = reg s /\ rd s' = rd s /\ (forall k, k <> i -> callers s' k = callers s k).
Proof.
  intros Hi Hp Hneg Hd. cbn [step]. apply Nat.ltb_lt in Hi. rewrite Hi. cbn [negb]. rewrite Hp.
  apply Z.ltb_lt in Hneg. rewrite Hneg. destruct tk.
  - eexists; split; [reflexivity|]; cbn; rewrite upd_same; repeat split; auto; intros k Hk; now rewrite upd_other.
  - specialize (Hd eq_refl). destruct (c_data (callers s i)); try congruence;
      (eexists; split; [reflexivity|]; cbn; rewrite upd_same; repeat split; auto; intros k Hk; now rewrite upd_other).
Qed.

(** ** C06: the reader always has an enabled step (repaired dispatch) *)
Lemma reader_never_blocks tk s :
  match rd s with
  | RLooked _ _ => exists s', step tk false s EDeliver = Some s'
  | RIdle => forall f, exists s', step tk false s (EArrive f) = Some s'
  end.
Proof.
  destruct (rd s) as [|j f] eqn:Er.
  - intros f. cbn [step]. unfold lookup_step. rewrite Er. destruct (reg_lookup (reg s) (f_op f)); eauto.
  - cbn [step]. rewrite Er. destruct (c_chan (callers s j)); eauto.
Qed.

Lemma reader_accepts_503 s op : rd s = RIdle -> exists s', step KNats false s (EArrive503 op) = Some s'.
Proof. intros Er. cbn [step]. unfold lookup_step. rewrite Er. destruct (reg_lookup (reg s) (f_op (na_frame op))); eauto. Qed.

(** a request waiting with an empty channel gets its response, whatever state any other caller is in *)
Lemma fresh_response_delivered tk s i f :
  rd s = RIdle -> (i < ncallers s)%nat ->
  c_phase (callers s i) = CSelect -> c_chan (callers s i) = [] ->
  reg_lookup (reg s) (f_op f) = Some i ->
  exists s', run tk false s [EArrive f; EDeliver; ETake i TResult] = Some s'
             /\ c_phase (callers s' i) = CTook TResult (Some f).
Proof.
  intros Hr Hi Hp Hc Hl. cbn [run step]. unfold lookup_step. rewrite Hr, Hl. cbn [rd with_rd callers].
  rewrite Hc. cbn [callers with_rd with_callers ncallers].
  apply Nat.ltb_lt in Hi. rewrite Hi. cbn [negb]. rewrite upd_same. cbn [c_phase set_chan].
  rewrite Hp. cbn [c_chan set_chan]. eexists. split; [reflexivity|].
  cbn. rewrite upd_same. reflexivity.
Qed.

(** NATS: a 503 for the op id of a waiting request reaches it, and it reports SERVICE_NOT_AVAILABLE *)
Lemma fresh_503_delivered s i op :
  rd s = RIdle -> (i < ncallers s)%nat ->
  c_phase (callers s i) = CSelect -> c_chan (callers s i) = [] ->
  reg_lookup (reg s) op = Some i ->
  exists s', run KNats false s [EArrive503 op; EDeliver; ETake i TResult; EUnregister i] = Some s'
             /\ c_phase (callers s' i) = CDone ONotAvail.
Proof.
  intros Hr Hi Hp Hc Hl.
  destruct (fresh_response_delivered KNats s i (na_frame op) Hr Hi Hp Hc Hl) as (s1 & R & P).
  change [EArrive503 op; EDeliver; ETake i TResult; EUnregister i]
    with ([EArrive503 op; EDeliver; ETake i TResult] ++ [EUnregister i]).
  rewrite run_app.
  replace (run KNats false s [EArrive503 op; EDeliver; ETake i TResult]) with (Some s1) by (rewrite <- R; reflexivity).
  destruct (run_keeps_shape _ _ _ _ _ R) as (A & _).
  cbn [run step]. rewrite A. apply Nat.ltb_lt in Hi. rewrite Hi. cbn [negb]. rewrite P. cbn.
  eexists. split; [reflexivity|]. cbn. now rewrite upd_same.
Qed.

(** a frame is dropped only when its target already holds a frame with the same op id *)
Lemma drop_is_harmless s j f x xs :
  inv s -> rd s = RLooked j f -> c_chan (callers s j) = x :: xs -> f_op x = f_op f.
Proof.
  intros I Hr Hc. rewrite (i_rd s I j f Hr). apply (i_chan s I). rewrite Hc. now left.
Qed.

(** pinned tree (blocking dispatch): the reader can be wedged for good *)
Definition past_select (p : cphase) : Prop := match p with CTook _ _ | CDone _ => True | _ => False end.
Definition wedged (s : st) : Prop :=
  exists j f x xs, rd s = RLooked j f /\ c_chan (callers s j) = x :: xs /\ past_select (c_phase (callers s j)).

Lemma wedged_reader_disabled tk s : wedged s ->
  step tk true s EDeliver = None /\ (forall f, step tk true s (EArrive f) = None)
  /\ (forall op, step tk true s (EArrive503 op) = None).
Proof.
  intros (j & f & x & xs & Hr & Hc & _). split; [|split; [intros f'|intros op]]; cbn [step]; unfold lookup_step;
    rewrite ?Hr; [now rewrite Hc | reflexivity | destruct tk; reflexivity].
Qed.

Lemma wedged_stable tk s e s' : wedged s -> step tk true s e = Some s' -> wedged s'.
Proof.
  intros W H. pose proof W as (j & f & x & xs & Hr & Hc & Hp).
  assert (T : forall i c' g, 
             (past_select (c_phase (callers s i)) -> c_chan c' = c_chan (callers s i) /\ past_select (c_phase c')) ->
             wedged {| callers := upd (callers s) i c'; ncallers := ncallers s; reg := g; rd := rd s |}).
  { intros i c' g Hk. destruct (Nat.eq_dec j i) as [->|Hne].
    - destruct (Hk Hp) as [A B]. exists i, f, x, xs. cbn. rewrite upd_same. rewrite A. auto.
    - exists j, f, x, xs. cbn. rewrite upd_other by assumption. auto. }
  destruct e as [i|i|i|i|f'| |i t|i|i|i|op]; cbn [step] in H; unfold lookup_step in H;
    try (rewrite Hr in H; try rewrite Hc in H; try destruct tk; discriminate);
    split_step H; injection H as <-; unfold with_rd, with_callers, with_reg; cbn [callers ncallers reg rd];
    apply T; cbn;
    repeat match goal with E : c_phase (callers s i) = _ |- _ => rewrite E; clear E end; cbn; try tauto; auto.
Qed.

Lemma wedged_forever tk evs : forall s s', wedged s -> run tk true s evs = Some s' ->
  wedged s' /\ ~ In EDeliver evs /\ (forall f, ~ In (EArrive f) evs) /\ (forall op, ~ In (EArrive503 op) evs).
Proof.
  induction evs as [|e evs IH]; intros s s' W H; cbn [run] in H.
  - injection H as <-. repeat split; auto.
  - destruct (step tk true s e) as [s1|] eqn:E; [|discriminate].
    destruct (wedged_reader_disabled tk s W) as (D & A & A5).
    destruct (IH s1 s' (wedged_stable tk s e s1 W E) H) as (W' & ND & NA & NA5).
    repeat split; auto.
    + intros [X|X]; [subst e; congruence | contradiction].
    + intros f [X|X]; [subst e; rewrite A in E; discriminate | eapply NA; eassumption].
    + intros op [X|X]; [subst e; rewrite A5 in E; discriminate | eapply NA5; eassumption].
Qed.

(** ** C13 *)
Lemma timeout_branch_enabled tk b s i :
  (i < ncallers s)%nat -> c_phase (callers s i) = CSelect -> (tk = KNats \/ c_deadline (callers s i) = true) ->
  exists s', step tk b s (ETake i TTimeout) = Some s' /\ c_phase (callers s' i) = CTook TTimeout None
             /\ reg s' = reg s /\ rd s' = rd s /\ (forall j, j <> i -> callers s' j = callers s j).
Proof.
  intros Hi Hp Hd. cbn [step]. apply Nat.ltb_lt in Hi. rewrite Hi. cbn [negb]. rewrite Hp.
  replace (match tk with KAdapter => c_deadline (callers s i) | KNats => true end) with true
    by (destruct Hd as [->|Hd]; [reflexivity | destruct tk; auto]).
  eexists. split; [reflexivity|]. cbn. rewrite upd_same. repeat split; auto.
  intros j Hj. now rewrite upd_other.
Qed.

Lemma unregister_outcome b s i t got :
  (i < ncallers s)%nat -> c_phase (callers s i) = CTook t got -> (t = TResult -> got <> None) -> t <> TTooLarge ->
  exists s' o, step KAdapter b s (EUnregister i) = Some s' /\ c_phase (callers s' i) = CDone o
    /\ (o = OTimedOut <-> t = TTimeout) /\ (o = OSendErr <-> t = TSendErr)
    /\ (forall f, o = OOk f <-> (t = TResult /\ got = Some f)).
Proof.
  intros Hi Hp Hg Hl. cbn [step]. apply Nat.ltb_lt in Hi. rewrite Hi. cbn [negb]. rewrite Hp.
  destruct t, got as [f0|]; cbn [outcome_of]; try (exfalso; now apply Hg); try (exfalso; now apply Hl);
    (eexists; eexists; split; [reflexivity|]; cbn; rewrite upd_same; cbn;
     split; [reflexivity|]; repeat split; try discriminate; try congruence; try tauto;
     try (intros [X Y]; congruence); try (intros [X _]; discriminate)).
Qed.

(** NATS: the deferred Unregister always runs (it is installed right after Register succeeded) and the
    reported outcome is determined by how the request left: too large / publish error / timeout /
    a frame, which is SERVICE_NOT_AVAILABLE exactly when it is the empty frame *)
Lemma unregister_outcome_nats b s i t got :
  (i < ncallers s)%nat -> c_phase (callers s i) = CTook t got -> (t = TResult -> got <> None) ->
  exists s' o, step KNats b s (EUnregister i) = Some s' /\ c_phase (callers s' i) = CDone o
    /\ reg s' = reg_remove (reg s) (c_op (callers s i))
    /\ (o = OTimedOut <-> t = TTimeout) /\ (o = OSendErr <-> t = TSendErr) /\ (o = OTooLarge <-> t = TTooLarge)
    /\ (o = ONotAvail <-> (t = TResult /\ exists f, got = Some f /\ is_na f = true))
    /\ (forall f, o = OOk f <-> (t = TResult /\ got = Some f /\ is_na f = false)).
Proof.
  intros Hi Hp Hg. cbn [step]. apply Nat.ltb_lt in Hi. rewrite Hi. cbn [negb]. rewrite Hp.
  destruct t, got as [f0|]; cbn [outcome_of]; try (exfalso; now apply Hg);
    try destruct (is_na f0) eqn:En;
    (eexists; eexists; split; [reflexivity|]; cbn; rewrite upd_same; cbn;
     split; [reflexivity|]; split; [reflexivity|]; repeat split; try discriminate; try congruence; try tauto;
     try (intros (X & g & Y & Z); congruence); try (intros (X & Y & Z); congruence);
     try (intros (X & g & Y & Z); discriminate); try (intros (X & Y); discriminate);
     try (eexists; split; [reflexivity|assumption])).
Qed.

Lemma done_not_registered tk b ops dl dk n evs s i o :
  distinct_ops ops n -> run tk b (initd ops dl dk n) evs = Some s -> (i < n)%nat ->
  c_phase (callers s i) = CDone o -> reg_lookup (reg s) (ops i) = None.
Proof.
  intros Hd H Hi Hp. destruct (run_reg_ok tk b ops dl dk n evs s Hd H i Hi) as [_ Hb].
  apply Hb. left. rewrite Hp. intros [].
Qed.

(** ** frames for requests that already left their select change nobody's outcome *)
Definition sim (s1 s2 : st) : Prop :=
  ncallers s1 = ncallers s2 /\ reg s1 = reg s2 /\ rd s1 = rd s2 /\
  forall j, c_op (callers s1 j) = c_op (callers s2 j)
            /\ c_phase (callers s1 j) = c_phase (callers s2 j)
            /\ c_send (callers s1 j) = c_send (callers s2 j)
            /\ c_deadline (callers s1 j) = c_deadline (callers s2 j)
            /\ c_data (callers s1 j) = c_data (callers s2 j)
            /\ (~ past_select (c_phase (callers s1 j)) -> c_chan (callers s1 j) = c_chan (callers s2 j)).

Lemma sim_refl s : sim s s.
Proof. repeat split; auto. Qed.

Lemma sim_lookup s1 s2 f s1' :
  sim s1 s2 -> lookup_step s1 f = Some s1' -> exists s2', lookup_step s2 f = Some s2' /\ sim s1' s2'.
Proof.
  intros (Hn & Hr & Hd & Hc) H. unfold lookup_step in *.
  rewrite <- Hd, <- Hr. destruct (rd s1) eqn:Er; [|discriminate].
  destruct (reg_lookup (reg s1) (f_op f)); injection H as <-; eexists; (split; [reflexivity|]).
  + split; [exact Hn|]. split; [exact Hr|]. split; [reflexivity|]. exact Hc.
  + split; [exact Hn|]. split; [exact Hr|]. split; [congruence|]. exact Hc.
Qed.

Lemma sim_step tk s1 s2 e s1' :
  sim s1 s2 -> step tk false s1 e = Some s1' -> exists s2', step tk false s2 e = Some s2' /\ sim s1' s2'.
Proof.
  intros (Hn & Hr & Hd & Hc) H.
  (* pointwise comparison after updating caller i on both sides *)
  assert (Upd : forall i c1 c2 r g1 g2, g1 = g2 ->
            c_op c1 = c_op c2 -> c_phase c1 = c_phase c2 -> c_send c1 = c_send c2 -> c_deadline c1 = c_deadline c2 ->
            c_data c1 = c_data c2 ->
            (~ past_select (c_phase c1) -> c_chan c1 = c_chan c2) ->
            sim {| callers := upd (callers s1) i c1; ncallers := ncallers s1; reg := g1; rd := r |}
                {| callers := upd (callers s2) i c2; ncallers := ncallers s2; reg := g2; rd := r |}).
  { intros i c1 c2 r g1 g2 Eg A1 A2 A3 A4 A6 A5. split; [exact Hn|]. split; [exact Eg|]. split; [reflexivity|]. cbn.
    intros j. destruct (Nat.eq_dec j i) as [->|?]; [rewrite !upd_same; auto 7 | rewrite !upd_other by assumption; apply Hc]. }
  Ltac fin Upd Hr Hd E1 E5 Ep :=
    eexists; split; [reflexivity|]; unfold with_reg, with_callers, with_rd; cbn [callers ncallers reg rd];
    rewrite <- ?Hr, <- ?E1, <- ?Hd; apply Upd; cbn; auto; try congruence;
    try (intros _; apply E5; rewrite ?Ep; cbn; auto); try (intros X; exfalso; apply X; exact I).
  destruct e as [i|i|i|i|f| |i t|i|i|i|op]; cbn [step] in *.
  - rewrite <- Hn. destruct (Nat.ltb i (ncallers s1)); [|discriminate]. cbn [negb] in *.
    destruct (Hc i) as (E1 & E2 & E3 & E4 & E6 & E5). rewrite <- E2.
    destruct (c_phase (callers s1 i)) eqn:Ep; try discriminate.
    rewrite <- E6, <- Hr, <- E1.
    destruct tk; [injection H as <-; fin Upd Hr Hd E1 E5 Ep|].
    destruct (c_data (callers s1 i)) eqn:Edk; [| injection H as <-; fin Upd Hr Hd E1 E5 Ep |];
      (destruct (c_op (callers s1 i) <? 0); [injection H as <-; fin Upd Hr Hd E1 E5 Ep|]);
      (destruct (reg_lookup (reg s1) (c_op (callers s1 i))); injection H as <-; fin Upd Hr Hd E1 E5 Ep).
  - rewrite <- Hn. destruct (Nat.ltb i (ncallers s1)); [|discriminate]. cbn [negb] in *.
    destruct (Hc i) as (E1 & E2 & E3 & E4 & E6 & E5). rewrite <- E2.
    destruct (c_phase (callers s1 i)) eqn:Ep; try discriminate.
    rewrite <- E6.
    destruct tk; [injection H as <-; fin Upd Hr Hd E1 E5 Ep|].
    destruct (c_data (callers s1 i)) eqn:Edk; injection H as <-; fin Upd Hr Hd E1 E5 Ep.
  - rewrite <- Hn. destruct (Nat.ltb i (ncallers s1)); [|discriminate]. cbn [negb] in *.
    destruct (Hc i) as (E1 & E2 & E3 & E4 & E6 & E5). rewrite <- E3.
    destruct (c_send (callers s1 i)) eqn:Esd; try discriminate. injection H as <-.
    fin Upd Hr Hd E1 E5 Esd.
  - rewrite <- Hn. destruct (Nat.ltb i (ncallers s1)); [|discriminate]. cbn [negb] in *.
    destruct (Hc i) as (E1 & E2 & E3 & E4 & E6 & E5). rewrite <- E3.
    destruct (c_send (callers s1 i)) eqn:Esd; try discriminate. injection H as <-.
    fin Upd Hr Hd E1 E5 Esd.
  - eapply sim_lookup; [|exact H]. repeat split; auto; apply Hc.
  - rewrite <- Hd. destruct (rd s1) as [|j0 f0]; [discriminate|].
    destruct (Hc j0) as (E1 & E2 & E3 & E4 & E6 & E5).
    destruct (c_chan (callers s1 j0)) as [|x1 r1] eqn:C1; injection H as <-;
      destruct (c_chan (callers s2 j0)) as [|x2 r2] eqn:C2; eexists; (split; [reflexivity|]).
    + unfold with_reg, with_callers, with_rd. cbn [callers ncallers reg rd]. apply Upd; cbn; auto; try congruence.
    + (* s1 delivers, s2 drops: possible only when the target is past its select *)
      split; [exact Hn|]. split; [exact Hr|]. split; [reflexivity|]. cbn. intros j.
      destruct (Nat.eq_dec j j0) as [->|?]; [rewrite upd_same | rewrite upd_other by assumption; apply Hc].
      cbn. repeat split; auto. intros X. exfalso. specialize (E5 X). congruence.
    + split; [exact Hn|]. split; [exact Hr|]. split; [reflexivity|]. cbn. intros j.
      destruct (Nat.eq_dec j j0) as [->|?]; [rewrite upd_same | rewrite upd_other by assumption; apply Hc].
      cbn. repeat split; auto. intros X. exfalso. specialize (E5 X). congruence.
    + split; [exact Hn|]. split; [exact Hr|]. split; [reflexivity|]. exact Hc.
  - rewrite <- Hn. destruct (Nat.ltb i (ncallers s1)); [|discriminate]. cbn [negb] in *.
    destruct (Hc i) as (E1 & E2 & E3 & E4 & E6 & E5). rewrite <- E2.
    destruct (c_phase (callers s1 i)) eqn:Ep; try discriminate.
    assert (Ech : c_chan (callers s1 i) = c_chan (callers s2 i)) by (apply E5; rewrite ?Ep; cbn; auto).
    destruct t; [| | |discriminate].
    + rewrite <- Ech. destruct (c_chan (callers s1 i)) as [|f0 r0]; [discriminate|]. injection H as <-.
      fin Upd Hr Hd E1 E5 Ep.
    + rewrite <- E4. destruct (match tk with KAdapter => c_deadline (callers s1 i) | KNats => true end) eqn:Edl; [|discriminate].
      injection H as <-. fin Upd Hr Hd E1 E5 Ep.
    + rewrite <- E3. destruct (c_send (callers s1 i)) eqn:Esd; try discriminate. injection H as <-.
      fin Upd Hr Hd E1 E5 Ep.
  - rewrite <- Hn. destruct (Nat.ltb i (ncallers s1)); [|discriminate]. cbn [negb] in *.
    destruct (Hc i) as (E1 & E2 & E3 & E4 & E6 & E5). rewrite <- E2.
    destruct (c_phase (callers s1 i)) as [| | |t got|] eqn:Ep; try discriminate.
    destruct (outcome_of tk t got) as [o|]; [|discriminate]. injection H as <-.
    fin Upd Hr Hd E1 E5 Ep.
  - rewrite <- Hn. destruct (Nat.ltb i (ncallers s1)); [|discriminate]. cbn [negb] in *.
    destruct (Hc i) as (E1 & E2 & E3 & E4 & E6 & E5). rewrite <- E2.
    destruct tk; [discriminate|].
    destruct (c_phase (callers s1 i)) eqn:Ep; try discriminate. injection H as <-.
    fin Upd Hr Hd E1 E5 Ep.
  - rewrite <- Hn. destruct (Nat.ltb i (ncallers s1)); [|discriminate]. cbn [negb] in *.
    destruct (Hc i) as (E1 & E2 & E3 & E4 & E6 & E5). rewrite <- E2, <- E6.
    destruct tk; [discriminate|].
    destruct (c_phase (callers s1 i)) eqn:Ep; try discriminate.
    destruct (c_data (callers s1 i)) eqn:Edk; try discriminate. injection H as <-.
    fin Upd Hr Hd E1 E5 Ep.
  - destruct tk; [discriminate|]. eapply sim_lookup; [|exact H]. repeat split; auto; apply Hc.
Qed.

Lemma sim_run tk evs : forall s1 s2 s1', sim s1 s2 -> run tk false s1 evs = Some s1' ->
  exists s2', run tk false s2 evs = Some s2' /\ sim s1' s2'.
Proof.
  induction evs as [|e evs IH]; intros s1 s2 s1' S H; cbn [run] in *.
  - injection H as <-. eauto.
  - destruct (step tk false s1 e) as [t1|] eqn:E; [|discriminate].
    destruct (sim_step tk s1 s2 e t1 S E) as (t2 & E2 & S2). rewrite E2. eauto.
Qed.

(** a frame (duplicate, late) whose target has already left its select: after lookup and hand-over the
    state differs from the one before only in that target's channel, which nobody reads any more *)
Lemma late_frame_inert tk s f j :
  rd s = RIdle -> reg_lookup (reg s) (f_op f) = Some j -> past_select (c_phase (callers s j)) ->
  exists s', run tk false s [EArrive f; EDeliver] = Some s' /\ sim s' s.
Proof.
  intros Hr Hl Hp. cbn [run step]. unfold lookup_step. rewrite Hr, Hl. cbn [rd with_rd callers].
  destruct (c_chan (callers s j)) as [|x xs] eqn:Ec; eexists; (split; [reflexivity|]).
  - split; [reflexivity|]. split; [reflexivity|]. split; [cbn; now rewrite Hr|]. cbn. intros k.
    destruct (Nat.eq_dec k j) as [->|?]; [rewrite upd_same | rewrite upd_other by assumption; repeat split; auto].
    cbn. repeat split; auto. intros X. contradiction.
  - split; [reflexivity|]. split; [reflexivity|]. split; [cbn; now rewrite Hr|]. cbn. intros k. repeat split; auto.
Qed.

(** ... hence every continuation reaches the same outcomes, with or without that frame *)
Lemma late_frame_changes_no_outcome tk s f j evs t :
  rd s = RIdle -> reg_lookup (reg s) (f_op f) = Some j -> past_select (c_phase (callers s j)) ->
  run tk false s (EArrive f :: EDeliver :: evs) = Some t ->
  exists t', run tk false s evs = Some t' /\ forall i, c_phase (callers t i) = c_phase (callers t' i).
Proof.
  intros Hr Hl Hp H.
  destruct (late_frame_inert tk s f j Hr Hl Hp) as (s' & R & S).
  change (EArrive f :: EDeliver :: evs) with ([EArrive f; EDeliver] ++ evs) in H.
  rewrite run_app, R in H.
  destruct (sim_run tk evs s' s t S H) as (t' & R' & S').
  exists t'. split; [exact R'|]. intros i. destruct S' as (_ & _ & _ & Hc). apply Hc.
Qed.

(** NATS: the same for a late / duplicate status 503 message *)
Lemma late_503_changes_no_outcome s op j evs t :
  rd s = RIdle -> reg_lookup (reg s) op = Some j -> past_select (c_phase (callers s j)) ->
  run KNats false s (EArrive503 op :: EDeliver :: evs) = Some t ->
  exists t', run KNats false s evs = Some t' /\ forall i, c_phase (callers t i) = c_phase (callers t' i).
Proof.
  intros Hr Hl Hp H. apply (late_frame_changes_no_outcome KNats s (na_frame op) j evs t Hr Hl Hp). exact H.
Qed.

(** ** provenance: no frame is invented - whatever sits in a channel, in the reader's hand or in a
    request's result reached dispatch earlier in the run *)
Lemma is_na_eq f : is_na f = true -> f = na_frame (f_op f).
Proof. destruct f as [o t]. unfold is_na, na_frame. cbn. intros H. apply Z.eqb_eq in H. now subst. Qed.

Record prov (tk : kind) (P : frame -> Prop) (s : st) : Prop := {
  p_chan : forall j f, In f (c_chan (callers s j)) -> P f;
  p_rd : forall j f, rd s = RLooked j f -> P f;
  p_took : forall j t f, c_phase (callers s j) = CTook t (Some f) -> P f;
  p_done : forall j f, c_phase (callers s j) = CDone (OOk f) -> P f /\ (tk = KNats -> is_na f = false);
  p_na : forall j, c_phase (callers s j) = CDone ONotAvail ->
           tk = KNats /\ exists f, P f /\ is_na f = true /\ f_op f = c_op (callers s j)
}.

Lemma prov_init tk P ops dl dk n : prov tk P (initd ops dl dk n).
Proof. split; cbn; intros; try contradiction; discriminate. Qed.

Lemma prov_lookup tk P s f s' : prov tk P s -> P f -> lookup_step s f = Some s' -> prov tk P s'.
Proof.
  intros [A B C D E] Pf H. unfold lookup_step in H. destruct (rd s) eqn:Er; [|discriminate].
  destruct (reg_lookup (reg s) (f_op f)); injection H as <-; split; cbn; auto.
  - intros j f' X. injection X as _ ->. exact Pf.
  - intros j f' X. rewrite Er in X. discriminate.
Qed.

(* a step that rewrites only caller i, keeping op id and channel and inventing no result *)
Lemma prov_touch tk P s i c' r :
  prov tk P s -> c_op c' = c_op (callers s i) -> c_chan c' = c_chan (callers s i) ->
  (forall t f, c_phase c' = CTook t (Some f) -> c_phase (callers s i) = CTook t (Some f)) ->
  (forall f, c_phase c' = CDone (OOk f) -> c_phase (callers s i) = CDone (OOk f)) ->
  (c_phase c' = CDone ONotAvail -> c_phase (callers s i) = CDone ONotAvail) ->
  r = rd s ->
  forall g, prov tk P {| callers := upd (callers s) i c'; ncallers := ncallers s; reg := g; rd := r |}.
Proof.
  intros [A B C D E] Eop Ech Htk Hdn Hna -> g. split; cbn.
  - intros j f Hf. case_upd j i; [rewrite Ech in Hf|]; eauto.
  - eauto.
  - intros j t f Hp. case_upd j i; eauto.
  - intros j f Hp. case_upd j i; eauto.
  - intros j Hp. case_upd j i; [rewrite Eop|]; eauto.
Qed.

Ltac ptouch Ep := unfold with_rd, with_callers, with_reg; cbn [callers ncallers reg rd]; apply prov_touch; auto;
  cbn; rewrite ?Ep; cbn; try discriminate; auto.

Lemma step_prov tk P b s e s' :
  inv s -> prov tk P s -> (forall f, In f (arrivals [e]) -> P f) -> step tk b s e = Some s' -> prov tk P s'.
Proof.
  intros Hinv Hpr Harr H. pose proof Hpr as [A B C D E].
  destruct e as [i|i|i|i|f| |i t|i|i|i|op]; cbn [step] in H.
  - destruct (Nat.ltb i (ncallers s)) eqn:Elt; [|discriminate]. cbn [negb] in H.
    destruct (c_phase (callers s i)) eqn:Ep; try discriminate.
    destruct tk; [injection H as <-; ptouch Ep|].
    destruct (c_data (callers s i)); [| injection H as <-; ptouch Ep |];
      (destruct (c_op (callers s i) <? 0); [injection H as <-; ptouch Ep|]);
      (destruct (reg_lookup (reg s) (c_op (callers s i))); injection H as <-; ptouch Ep).
  - destruct (Nat.ltb i (ncallers s)) eqn:Elt; [|discriminate]. cbn [negb] in H.
    destruct (c_phase (callers s i)) eqn:Ep; try discriminate.
    destruct tk; [injection H as <-; ptouch Ep|].
    destruct (c_data (callers s i)); injection H as <-; ptouch Ep.
  - destruct (Nat.ltb i (ncallers s)) eqn:Elt; [|discriminate]. cbn [negb] in H.
    destruct (c_send (callers s i)) eqn:Es; try discriminate. injection H as <-. ptouch Es.
  - destruct (Nat.ltb i (ncallers s)) eqn:Elt; [|discriminate]. cbn [negb] in H.
    destruct (c_send (callers s i)) eqn:Es; try discriminate. injection H as <-. ptouch Es.
  - eapply prov_lookup; [exact Hpr | apply Harr; cbn; auto | exact H].
  - destruct (rd s) as [|j0 f0] eqn:Er; [discriminate|].
    pose proof (B j0 f0 eq_refl) as Pf0.
    destruct (c_chan (callers s j0)) as [|x xs] eqn:Ec.
    + injection H as <-. split; cbn.
      * intros j f Hf. case_upd j j0; cbn in *; [destruct Hf as [<-|[]]; exact Pf0 | eauto].
      * intros j f X. discriminate.
      * intros j t f Hp. case_upd j j0; cbn in *; eauto.
      * intros j f Hp. case_upd j j0; cbn in *; eauto.
      * intros j Hp. case_upd j j0; cbn in *; eauto.
    + destruct b; [discriminate|]. injection H as <-. split; cbn; auto. intros j f X. discriminate.
  - destruct (Nat.ltb i (ncallers s)) eqn:Elt; [|discriminate]. cbn [negb] in H.
    destruct (c_phase (callers s i)) eqn:Ep; try discriminate.
    destruct t; [| | |discriminate].
    + destruct (c_chan (callers s i)) as [|f0 rest] eqn:Ec; [discriminate|]. injection H as <-.
      assert (Pf0 : P f0) by (apply (A i); rewrite Ec; now left).
      split; cbn.
      * intros j f Hf. case_upd j i; cbn in *; [contradiction|eauto].
      * eauto.
      * intros j t f Hp. case_upd j i; cbn in *; [injection Hp as _ <-; exact Pf0 | eauto].
      * intros j f Hp. case_upd j i; cbn in *; [discriminate|eauto].
      * intros j Hp. case_upd j i; cbn in *; [discriminate|eauto].
    + destruct (match tk with KAdapter => c_deadline (callers s i) | KNats => true end); [|discriminate].
      injection H as <-. ptouch Ep.
    + destruct (c_send (callers s i)); try discriminate. injection H as <-. ptouch Ep.
  - destruct (Nat.ltb i (ncallers s)) eqn:Elt; [|discriminate]. cbn [negb] in H.
    destruct (c_phase (callers s i)) as [| | |t got|] eqn:Ep; try discriminate.
    destruct (outcome_of tk t got) as [o|] eqn:Eo; [|discriminate]. injection H as <-.
    split; cbn.
    + intros j f Hf. case_upd j i; cbn in *; eauto.
    + eauto.
    + intros j t' f Hp. case_upd j i; cbn in *; [discriminate|eauto].
    + intros j f Hp. case_upd j i; cbn in *; [|eauto]. injection Hp as ->.
      destruct t, got as [g|]; cbn in Eo; try discriminate.
      destruct tk; [injection Eo as ->; split; [eapply C; exact Ep | discriminate]|].
      destruct (is_na g) eqn:En; [discriminate|]. injection Eo as ->. split; [eapply C; exact Ep | auto].
    + intros j Hp. case_upd j i; cbn in *; [|eauto]. injection Hp as ->.
      destruct t, got as [g|]; cbn in Eo; try discriminate.
      destruct tk; [discriminate|]. destruct (is_na g) eqn:En; [|discriminate].
      split; [reflexivity|]. exists g. split; [eapply C; exact Ep|]. split; [exact En|].
      eapply (i_took s Hinv); exact Ep.
  - destruct (Nat.ltb i (ncallers s)) eqn:Elt; [|discriminate]. cbn [negb] in H.
    destruct tk; [discriminate|].
    destruct (c_phase (callers s i)) eqn:Ep; try discriminate. injection H as <-. ptouch Ep.
  - destruct (Nat.ltb i (ncallers s)) eqn:Elt; [|discriminate]. cbn [negb] in H.
    destruct tk; [discriminate|].
    destruct (c_phase (callers s i)) eqn:Ep; try discriminate.
    destruct (c_data (callers s i)); try discriminate. injection H as <-. ptouch Ep.
  - destruct tk; [discriminate|]. eapply prov_lookup; [exact Hpr | apply Harr; cbn; auto | exact H].
Qed.

Lemma arrivals_cons e evs f : In f (arrivals (e :: evs)) <-> In f (arrivals [e]) \/ In f (arrivals evs).
Proof. destruct e; cbn; tauto. Qed.

Lemma run_prov tk P b evs : forall s s', inv s -> prov tk P s -> (forall f, In f (arrivals evs) -> P f) ->
  run tk b s evs = Some s' -> prov tk P s'.
Proof.
  induction evs as [|e evs IH]; intros s s' Hi Hp Ha H; cbn [run] in H.
  - injection H as <-. exact Hp.
  - destruct (step tk b s e) as [s1|] eqn:E; [|discriminate].
    apply (IH s1 s'); [eapply step_inv; eassumption | | | exact H].
    + eapply step_prov; try eassumption. intros f Hf. apply Ha. apply arrivals_cons. now left.
    + intros f Hf. apply Ha. apply arrivals_cons. now right.
Qed.

(** a request completes successfully only with a frame that arrived, carries its op id and - on NATS -
    is not the empty "service not available" frame *)
Lemma own_response_arrived tk b ops dl dk n evs s i f :
  run tk b (initd ops dl dk n) evs = Some s -> c_phase (callers s i) = CDone (OOk f) ->
  f_op f = ops i /\ In f (arrivals evs) /\ (tk = KNats -> is_na f = false).
Proof.
  intros H Hp. split; [eapply own_response; eassumption|].
  pose proof (run_prov tk (fun f => In f (arrivals evs)) b evs _ _ (inv_init ops dl dk n) (prov_init _ _ ops dl dk n) (fun f X => X) H) as Pr.
  exact (p_done _ _ _ Pr i f Hp).
Qed.

(** NATS: a request reports SERVICE_NOT_AVAILABLE only if a status 503 message for ITS op id arrived *)
Lemma not_avail_only_own_503 b ops dl dk n evs s i :
  run KNats b (initd ops dl dk n) evs = Some s -> c_phase (callers s i) = CDone ONotAvail ->
  In (na_frame (ops i)) (arrivals evs).
Proof.
  intros H Hp.
  pose proof (run_prov KNats (fun f => In f (arrivals evs)) b evs _ _ (inv_init ops dl dk n) (prov_init _ _ ops dl dk n) (fun f X => X) H) as Pr.
  destruct (p_na _ _ _ Pr i Hp) as (_ & f & Hin & Hna & Hop).
  destruct (run_keeps_shape _ _ _ _ _ H) as (_ & B & _). rewrite B in Hop. cbn in Hop.
  rewrite (is_na_eq f Hna), Hop in Hin. exact Hin.
Qed.

(** the adapter transport never reports it *)
Lemma adapter_never_not_avail b ops dl dk n evs s i :
  run KAdapter b (initd ops dl dk n) evs = Some s -> c_phase (callers s i) <> CDone ONotAvail.
Proof.
  intros H Hp.
  pose proof (run_prov KAdapter (fun _ => True) b evs _ _ (inv_init ops dl dk n) (prov_init _ _ ops dl dk n) (fun f X => I) H) as Pr.
  destruct (p_na _ _ _ Pr i Hp) as (X & _). discriminate.
Qed.

(** NATS: a status 503 for one op id reaches at most the request registered under it: lookup and
    hand-over change nothing but that request's channel *)
Lemma nats_503_local s op j s' :
  rd s = RIdle -> reg_lookup (reg s) op = Some j -> run KNats false s [EArrive503 op; EDeliver] = Some s' ->
  reg s' = reg s /\ rd s' = RIdle /\ ncallers s' = ncallers s /\
  (forall k, k <> j -> callers s' k = callers s k) /\
  c_phase (callers s' j) = c_phase (callers s j) /\
  (c_chan (callers s' j) = c_chan (callers s j) \/ c_chan (callers s' j) = [na_frame op]).
Proof.
  intros Hr Hl H. cbn [run step] in H. unfold lookup_step in H. cbn [f_op na_frame] in H. rewrite Hr, Hl in H.
  cbn [rd with_rd callers] in H. destruct (c_chan (callers s j)) eqn:Ec; injection H as <-; cbn; repeat split; auto;
    try (intros k Hk; now rewrite upd_other); rewrite ?upd_same; cbn; auto.
Qed.
