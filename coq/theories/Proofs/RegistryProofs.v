From Coq Require Import ZArith List Bool Arith Lia.
From FV Require Import Model.Registry.
Import ListNotations.
Open Scope Z_scope.

(** ** functional update *)
Lemma upd_same cs i c : upd cs i c i = c.
Proof. unfold upd. now rewrite Nat.eqb_refl. Qed.
Lemma upd_other cs i c j : j <> i -> upd cs i c j = cs j.
Proof. intros H. unfold upd. apply Nat.eqb_neq in H. now rewrite H. Qed.

(** ** registry as an association list *)
Lemma reg_lookup_remove_same r k : reg_lookup (reg_remove r k) k = None.
Proof.
  induction r as [|[k' j] r IH]; simpl; [reflexivity|].
  destruct (k' =? k) eqn:E; [exact IH|]. simpl. now rewrite E.
Qed.
Lemma reg_lookup_remove_other r k k2 : k2 <> k -> reg_lookup (reg_remove r k) k2 = reg_lookup r k2.
Proof.
  intros H. induction r as [|[k' j] r IH]; simpl; [reflexivity|].
  destruct (k' =? k) eqn:E.
  - apply Z.eqb_eq in E. subst k'. replace (k =? k2) with false by (symmetry; apply Z.eqb_neq; congruence). exact IH.
  - simpl. now rewrite IH.
Qed.
Lemma reg_remove_in r k k2 j : In (k2, j) (reg_remove r k) -> In (k2, j) r /\ k2 <> k.
Proof.
  induction r as [|[k' j'] r IH]; simpl; [tauto|].
  destruct (k' =? k) eqn:E; simpl.
  - intros H. destruct (IH H). auto.
  - intros [H|H].
    + injection H as -> ->. apply Z.eqb_neq in E. auto.
    + destruct (IH H). auto.
Qed.
Lemma reg_lookup_in r k j : reg_lookup r k = Some j -> In (k, j) r.
Proof.
  induction r as [|[k' j'] r IH]; simpl; [discriminate|].
  destruct (k' =? k) eqn:E.
  - intros [= ->]. apply Z.eqb_eq in E. subst. now left.
  - intros H. right. now apply IH.
Qed.
Lemma reg_lookup_none_not_in r k : reg_lookup r k = None -> forall j, ~ In (k, j) r.
Proof.
  induction r as [|[k' j'] r IH]; simpl; intros H j; [tauto|].
  destruct (k' =? k) eqn:E; [discriminate|]. intros [X|X].
  - injection X as -> ->. rewrite Z.eqb_refl in E. discriminate.
  - eapply IH; eassumption.
Qed.

(** ** the invariant *)
Definition in_flight (p : cphase) : Prop :=
  match p with CParked | CSelect | CTook _ _ => True | _ => False end.

Record inv (s : st) : Prop := {
  (* a registry entry names an existing caller with that op id, which is in flight *)
  i_reg : forall k j, In (k, j) (reg s) ->
            (j < ncallers s)%nat /\ c_op (callers s j) = k /\ in_flight (c_phase (callers s j));
  (* frames waiting in a caller's channel carry that caller's op id; capacity 1 *)
  i_chan : forall j f, In f (c_chan (callers s j)) -> f_op f = c_op (callers s j);
  i_cap : forall j, (length (c_chan (callers s j)) <= 1)%nat;
  (* the frame the reader is about to hand over goes to the caller registered for its op id *)
  i_rd : forall j f, rd s = RLooked j f -> f_op f = c_op (callers s j);
  (* a response taken or returned carries the caller's op id *)
  i_took : forall j t f, c_phase (callers s j) = CTook t (Some f) -> f_op f = c_op (callers s j);
  i_done : forall j f, c_phase (callers s j) = CDone (OOk f) -> f_op f = c_op (callers s j)
}.

Lemma inv_init ops dl n : inv (init ops dl n).
Proof. split; cbn; intros; try contradiction; try discriminate; auto. Qed.

Ltac case_upd j i :=
  destruct (Nat.eq_dec j i) as [->|?]; [rewrite ?upd_same in * | rewrite ?upd_other in * by assumption].

(* a step that rewrites only caller i, keeping its op id and channel *)
Lemma inv_touch s i c' r :
  inv s ->
  c_op c' = c_op (callers s i) -> c_chan c' = c_chan (callers s i) ->
  (in_flight (c_phase (callers s i)) -> in_flight (c_phase c')) ->
  (forall t f, c_phase c' = CTook t (Some f) -> c_phase (callers s i) = CTook t (Some f)) ->
  (forall f, c_phase c' = CDone (OOk f) -> c_phase (callers s i) = CDone (OOk f)) ->
  r = rd s ->
  inv {| callers := upd (callers s) i c'; ncallers := ncallers s; reg := reg s; rd := r |}.
Proof.
  intros [Hreg Hchan Hcap Hrd Htook Hdone] Eop Ech Hfl Htk Hdn ->. split; cbn.
  - intros k j Hin. destruct (Hreg k j Hin) as (A & B & C). case_upd j i; auto. rewrite Eop. auto.
  - intros j f Hf. case_upd j i; [rewrite Ech in Hf; rewrite Eop; eauto | eauto].
  - intros j. case_upd j i; [rewrite Ech|]; auto.
  - intros j f Hr. case_upd j i; [rewrite Eop|]; eauto.
  - intros j t f Hp. case_upd j i; [rewrite Eop; eauto | eauto].
  - intros j f Hp. case_upd j i; [rewrite Eop; eauto | eauto].
Qed.

Lemma step_inv b s e s' : inv s -> step b s e = Some s' -> inv s'.
Proof.
  intros Hinv H. pose proof Hinv as [Hreg Hchan Hcap Hrd Htook Hdone].
  destruct e as [i|i|i|i|f| |i t|i]; cbn [step] in H.
  - (* ERegister *)
    destruct (Nat.ltb i (ncallers s)) eqn:Elt; [|discriminate]. cbn [negb] in H.
    apply Nat.ltb_lt in Elt.
    destruct (c_phase (callers s i)) eqn:Ep; try discriminate. injection H as <-.
    split; cbn.
    + intros k j Hin.
      assert (Hin' : In (k, j) (reg s) \/ (k, j) = (c_op (callers s i), i)).
      { destruct (reg_lookup (reg s) (c_op (callers s i))); [left; exact Hin|].
        destruct Hin as [X|X]; [right; now symmetry | left; exact X]. }
      destruct Hin' as [X|X].
      * destruct (Hreg k j X) as (A & B & C). case_upd j i; cbn; auto.
      * injection X as -> ->. rewrite upd_same. cbn. auto.
    + intros j f Hf. case_upd j i; cbn in *; eauto.
    + intros j. case_upd j i; cbn; auto.
    + intros j f Hr. case_upd j i; cbn; eauto.
    + intros j t f Hp. case_upd j i; cbn in *; [discriminate|eauto].
    + intros j f Hp. case_upd j i; cbn in *; [discriminate|eauto].
  - (* ERelease *)
    destruct (Nat.ltb i (ncallers s)) eqn:Elt; [|discriminate]. cbn [negb] in H.
    destruct (c_phase (callers s i)) eqn:Ep; try discriminate. injection H as <-.
    apply inv_touch; auto; cbn; try discriminate; auto.
  - (* ESendOk *)
    destruct (Nat.ltb i (ncallers s)) eqn:Elt; [|discriminate]. cbn [negb] in H.
    destruct (c_send (callers s i)) eqn:Es; try discriminate. injection H as <-.
    apply inv_touch; auto.
  - (* ESendFail *)
    destruct (Nat.ltb i (ncallers s)) eqn:Elt; [|discriminate]. cbn [negb] in H.
    destruct (c_send (callers s i)) eqn:Es; try discriminate. injection H as <-.
    apply inv_touch; auto.
  - (* EArrive *)
    destruct (rd s) eqn:Er; [|discriminate].
    destruct (reg_lookup (reg s) (f_op f)) as [j0|] eqn:El; injection H as <-; [|exact Hinv].
    split; cbn; auto.
    intros j f' X. injection X as -> ->.
    destruct (Hreg _ _ (reg_lookup_in _ _ _ El)) as (_ & B & _). now symmetry.
  - (* EDeliver *)
    destruct (rd s) as [|j0 f0] eqn:Er; [discriminate|].
    pose proof (Hrd j0 f0 eq_refl) as Hf0.
    destruct (c_chan (callers s j0)) as [|x xs] eqn:Ec.
    + injection H as <-. split; cbn.
      * intros k j Hin. destruct (Hreg k j Hin) as (A & B & C). case_upd j j0; cbn; auto.
      * intros j f Hf. case_upd j j0; cbn in *; [destruct Hf as [<-|[]]; exact Hf0 | eauto].
      * intros j. case_upd j j0; cbn; auto.
      * intros j f X. discriminate.
      * intros j t f Hp. case_upd j j0; cbn in *; eauto.
      * intros j f Hp. case_upd j j0; cbn in *; eauto.
    + destruct b; [discriminate|]. injection H as <-. split; cbn; auto. intros j f X. discriminate.
  - (* ETake *)
    destruct (Nat.ltb i (ncallers s)) eqn:Elt; [|discriminate]. cbn [negb] in H.
    destruct (c_phase (callers s i)) eqn:Ep; try discriminate.
    destruct t.
    + destruct (c_chan (callers s i)) as [|f0 rest] eqn:Ec; [discriminate|]. injection H as <-.
      assert (Hf0 : f_op f0 = c_op (callers s i)) by (apply Hchan; rewrite Ec; now left).
      split; cbn.
      * intros k j Hin. destruct (Hreg k j Hin) as (A & B & C). case_upd j i; cbn; auto.
      * intros j f Hf. case_upd j i; cbn in *; [contradiction|eauto].
      * intros j. case_upd j i; cbn; auto.
      * intros j f Hr. case_upd j i; cbn; eauto.
      * intros j t f Hp. case_upd j i; cbn in *; [injection Hp as _ <-; exact Hf0 | eauto].
      * intros j f Hp. case_upd j i; cbn in *; [discriminate|eauto].
    + destruct (c_deadline (callers s i)); [|discriminate]. injection H as <-.
      apply inv_touch; auto; cbn; try discriminate; auto.
    + destruct (c_send (callers s i)); try discriminate. injection H as <-.
      apply inv_touch; auto; cbn; try discriminate; auto.
  - (* EUnregister *)
    destruct (Nat.ltb i (ncallers s)) eqn:Elt; [|discriminate]. cbn [negb] in H.
    destruct (c_phase (callers s i)) as [| | |t got|] eqn:Ep; try discriminate.
    destruct (outcome_of t got) as [o|] eqn:Eo; [|discriminate]. injection H as <-.
    split; cbn.
    + intros k j Hin. apply reg_remove_in in Hin. destruct Hin as [Hin Hne].
      destruct (Hreg k j Hin) as (A & B & C). case_upd j i; cbn; auto; try congruence; exfalso; congruence.
    + intros j f Hf. case_upd j i; cbn in *; eauto.
    + intros j. case_upd j i; cbn; auto.
    + intros j f Hr. case_upd j i; cbn; eauto.
    + intros j t' f Hp. case_upd j i; cbn in *; [discriminate|eauto].
    + intros j f Hp. case_upd j i; cbn in *; [|eauto].
      injection Hp as ->. destruct t, got; cbn in Eo; try discriminate; injection Eo as <-.
      eapply Htook; exact Ep.
Qed.

Lemma run_inv b evs : forall s s', inv s -> run b s evs = Some s' -> inv s'.
Proof.
  induction evs as [|e evs IH]; intros s s' Hi H; cbn [run] in H.
  - injection H as <-. exact Hi.
  - destruct (step b s e) as [s1|] eqn:E; [|discriminate]. eapply IH; [|exact H]. eapply step_inv; eassumption.
Qed.

(** ** facts that hold of every step *)
Ltac split_step H :=
  repeat match type of H with
         | (if ?c then _ else _) = _ => destruct c eqn:?; try discriminate
         | match ?x with _ => _ end = _ => destruct x eqn:?; try discriminate
         end.

Lemma step_keeps_shape b s e s' : step b s e = Some s' ->
  ncallers s' = ncallers s /\ (forall j, c_op (callers s' j) = c_op (callers s j))
  /\ (forall j, c_deadline (callers s' j) = c_deadline (callers s j)).
Proof.
  intros H. destruct e as [i|i|i|i|f| |i t|i]; cbn [step] in H; split_step H;
    injection H as <-; cbn; (split; [reflexivity|]); split; intros k;
    try reflexivity;
    try (match goal with
         | |- context [upd _ ?i _ k] =>
           destruct (Nat.eq_dec k i) as [->|?]; [rewrite upd_same | rewrite upd_other by assumption]; reflexivity
         end).
Qed.

Lemma step_done_stable b s e s' i o :
  step b s e = Some s' -> c_phase (callers s i) = CDone o -> c_phase (callers s' i) = CDone o.
Proof.
  intros H Hp. destruct e as [i0|i0|i0|i0|f| |i0 t|i0]; cbn [step] in H; split_step H;
    injection H as <-; cbn; try exact Hp;
    try (match goal with
         | |- context [upd _ ?k _ i] =>
           destruct (Nat.eq_dec i k) as [->|?]; [rewrite upd_same | rewrite upd_other by assumption];
           cbn; try exact Hp; congruence
         end).
Qed.

Lemma run_done_stable b evs : forall s s' i o,
  run b s evs = Some s' -> c_phase (callers s i) = CDone o -> c_phase (callers s' i) = CDone o.
Proof.
  induction evs as [|e evs IH]; intros s s' i o H Hp; cbn [run] in H.
  - injection H as <-. exact Hp.
  - destruct (step b s e) as [s1|] eqn:E; [|discriminate]. eapply IH; [exact H|]. eapply step_done_stable; eassumption.
Qed.

Lemma run_keeps_shape b evs : forall s s', run b s evs = Some s' ->
  ncallers s' = ncallers s /\ (forall j, c_op (callers s' j) = c_op (callers s j))
  /\ (forall j, c_deadline (callers s' j) = c_deadline (callers s j)).
Proof.
  induction evs as [|e evs IH]; intros s s' H; cbn [run] in H.
  - injection H as <-. auto.
  - destruct (step b s e) as [s1|] eqn:E; [|discriminate].
    destruct (step_keeps_shape b s e s1 E) as (A & B & C). destruct (IH s1 s' H) as (A' & B' & C').
    repeat split; intros; congruence.
Qed.

(** ** C01 *)
Definition distinct_ops (ops : nat -> Z) (n : nat) : Prop :=
  forall i j, (i < n)%nat -> (j < n)%nat -> ops i = ops j -> i = j.

Lemma own_response b ops dl n evs s i f :
  run b (init ops dl n) evs = Some s -> c_phase (callers s i) = CDone (OOk f) -> f_op f = ops i.
Proof.
  intros H Hp. pose proof (run_inv b evs _ _ (inv_init ops dl n) H) as I.
  rewrite (i_done s I i f Hp). destruct (run_keeps_shape b evs _ _ H) as (_ & B & _). now rewrite B.
Qed.

Lemma registry_empties b ops dl n evs s :
  run b (init ops dl n) evs = Some s ->
  (forall i, (i < n)%nat -> exists o, c_phase (callers s i) = CDone o) -> reg s = [].
Proof.
  intros H Hall. pose proof (run_inv b evs _ _ (inv_init ops dl n) H) as I.
  destruct (run_keeps_shape b evs _ _ H) as (A & _). cbn in A.
  destruct (reg s) as [|[k j] r] eqn:E; [reflexivity|]. exfalso.
  destruct (i_reg s I k j) as (Hj & _ & Hfl); [rewrite E; now left|].
  rewrite A in Hj. destruct (Hall j Hj) as [o Ho]. rewrite Ho in Hfl. exact Hfl.
Qed.

(** frames for op ids that are not registered (never issued, completed, timed out and gone) are inert *)
Lemma unregistered_arrival_inert b s f :
  rd s = RIdle -> reg_lookup (reg s) (f_op f) = None -> step b s (EArrive f) = Some s.
Proof. intros Hr Hl. cbn [step]. now rewrite Hr, Hl. Qed.

(** with pairwise distinct op ids, a caller in flight is registered under its own op id, and one
    that is not in flight (not started, or finished) is not registered *)
Definition reg_ok (ops : nat -> Z) (n : nat) (s : st) : Prop :=
  forall i, (i < n)%nat ->
    (in_flight (c_phase (callers s i)) -> reg_lookup (reg s) (ops i) = Some i)
    /\ (~ in_flight (c_phase (callers s i)) -> reg_lookup (reg s) (ops i) = None).

Lemma step_reg_ok b ops n s e s' :
  distinct_ops ops n -> ncallers s = n -> (forall j, c_op (callers s j) = ops j) ->
  reg_ok ops n s -> step b s e = Some s' -> reg_ok ops n s'.
Proof.
  intros Hd Hn Hop Hok H i Hi. destruct (Hok i Hi) as [Ha Hb].
  destruct e as [i0|i0|i0|i0|f| |i0 t|i0]; cbn [step] in H.
  - (* ERegister *)
    destruct (Nat.ltb i0 (ncallers s)) eqn:Elt; [|discriminate]. cbn [negb] in H.
    apply Nat.ltb_lt in Elt. rewrite Hn in Elt.
    destruct (c_phase (callers s i0)) eqn:Ep; try discriminate. injection H as <-. cbn.
    destruct (Hok i0 Elt) as [_ Hb0]. rewrite Ep in Hb0. rewrite Hop, (Hb0 (fun x => x)).
    destruct (Nat.eq_dec i i0) as [->|Hne].
    + rewrite upd_same. cbn. rewrite Z.eqb_refl. split; [reflexivity|intros X; exfalso; apply X; exact I].
    + rewrite upd_other by assumption. cbn.
      replace (ops i0 =? ops i) with false; [split; assumption|].
      symmetry. apply Z.eqb_neq. intros E. apply Hne. symmetry. now apply Hd.
  - (* ERelease *)
    destruct (Nat.ltb i0 (ncallers s)) eqn:Elt; [|discriminate]. cbn [negb] in H.
    destruct (c_phase (callers s i0)) eqn:Ep; try discriminate. injection H as <-. cbn.
    destruct (Nat.eq_dec i i0) as [->|Hne]; [rewrite upd_same | rewrite upd_other by assumption; split; assumption].
    cbn. rewrite Ep in Ha. split; [intros _; apply Ha; exact I | intros X; exfalso; apply X; exact I].
  - (* ESendOk *)
    destruct (Nat.ltb i0 (ncallers s)) eqn:Elt; [|discriminate]. cbn [negb] in H.
    destruct (c_send (callers s i0)) eqn:Es; try discriminate. injection H as <-. cbn.
    destruct (Nat.eq_dec i i0) as [->|Hne]; [rewrite upd_same | rewrite upd_other by assumption]; cbn; split; assumption.
  - (* ESendFail *)
    destruct (Nat.ltb i0 (ncallers s)) eqn:Elt; [|discriminate]. cbn [negb] in H.
    destruct (c_send (callers s i0)) eqn:Es; try discriminate. injection H as <-. cbn.
    destruct (Nat.eq_dec i i0) as [->|Hne]; [rewrite upd_same | rewrite upd_other by assumption]; cbn; split; assumption.
  - (* EArrive *)
    destruct (rd s); [|discriminate]. destruct (reg_lookup (reg s) (f_op f)); injection H as <-; cbn; split; assumption.
  - (* EDeliver *)
    destruct (rd s) as [|j0 f0]; [discriminate|].
    destruct (c_chan (callers s j0)) eqn:Ec.
    + injection H as <-. cbn.
      destruct (Nat.eq_dec i j0) as [->|Hne]; [rewrite upd_same | rewrite upd_other by assumption]; cbn; split; assumption.
    + destruct b; [discriminate|]. injection H as <-. cbn. split; assumption.
  - (* ETake *)
    destruct (Nat.ltb i0 (ncallers s)) eqn:Elt; [|discriminate]. cbn [negb] in H.
    destruct (c_phase (callers s i0)) eqn:Ep; try discriminate.
    assert (Goal : forall c', c_phase c' = CTook t (match t with TResult => hd_error (c_chan (callers s i0)) | _ => None end) \/ True ->
              in_flight (c_phase c') ->
              (in_flight (c_phase (upd (callers s) i0 c' i)) -> reg_lookup (reg s) (ops i) = Some i)
              /\ (~ in_flight (c_phase (upd (callers s) i0 c' i)) -> reg_lookup (reg s) (ops i) = None)).
    { intros c' _ Hfl. destruct (Nat.eq_dec i i0) as [->|Hne]; [rewrite upd_same | rewrite upd_other by assumption; split; assumption].
      rewrite Ep in Ha. split; [intros _; apply Ha; exact I | intros X; contradiction]. }
    destruct t.
    + destruct (c_chan (callers s i0)) eqn:Ec; [discriminate|]. injection H as <-. cbn. apply Goal; cbn; auto.
    + destruct (c_deadline (callers s i0)); [|discriminate]. injection H as <-. cbn. apply Goal; cbn; auto.
    + destruct (c_send (callers s i0)); try discriminate. injection H as <-. cbn. apply Goal; cbn; auto.
  - (* EUnregister *)
    destruct (Nat.ltb i0 (ncallers s)) eqn:Elt; [|discriminate]. cbn [negb] in H.
    apply Nat.ltb_lt in Elt. rewrite Hn in Elt.
    destruct (c_phase (callers s i0)) as [| | |t got|] eqn:Ep; try discriminate.
    destruct (outcome_of t got) as [o|]; [|discriminate]. injection H as <-. cbn. rewrite Hop.
    destruct (Nat.eq_dec i i0) as [->|Hne].
    + rewrite upd_same. cbn. rewrite reg_lookup_remove_same. split; [intros []|reflexivity].
    + rewrite upd_other by assumption. rewrite reg_lookup_remove_other; [split; assumption|].
      intros E. apply Hne. now apply Hd.
Qed.

Lemma run_reg_ok b ops dl n evs s :
  distinct_ops ops n -> run b (init ops dl n) evs = Some s -> reg_ok ops n s.
Proof.
  intros Hd.
  assert (G : forall evs s0 s, ncallers s0 = n -> (forall j, c_op (callers s0 j) = ops j) -> reg_ok ops n s0 ->
              run b s0 evs = Some s -> reg_ok ops n s).
  { clear evs s. induction evs as [|e evs IH]; intros s0 s Hn Hop Hok H; cbn [run] in H.
    - injection H as <-. exact Hok.
    - destruct (step b s0 e) as [s1|] eqn:E; [|discriminate].
      destruct (step_keeps_shape b s0 e s1 E) as (A & B & _).
      apply (IH s1 s); [congruence | intros j; rewrite B; apply Hop | eapply step_reg_ok; eassumption | exact H]. }
  intros H. apply (G evs (init ops dl n) s); auto.
  intros i Hi. cbn. split; [intros []|reflexivity].
Qed.

(** ** C06: the reader always has an enabled step (repaired dispatch) *)
Lemma reader_never_blocks s :
  match rd s with
  | RLooked _ _ => exists s', step false s EDeliver = Some s'
  | RIdle => forall f, exists s', step false s (EArrive f) = Some s'
  end.
Proof.
  destruct (rd s) as [|j f] eqn:Er.
  - intros f. cbn [step]. rewrite Er. destruct (reg_lookup (reg s) (f_op f)); eauto.
  - cbn [step]. rewrite Er. destruct (c_chan (callers s j)); eauto.
Qed.

(** a request waiting with an empty channel gets its response, whatever state any other caller is in *)
Lemma fresh_response_delivered s i f :
  rd s = RIdle -> (i < ncallers s)%nat ->
  c_phase (callers s i) = CSelect -> c_chan (callers s i) = [] ->
  reg_lookup (reg s) (f_op f) = Some i ->
  exists s', run false s [EArrive f; EDeliver; ETake i TResult] = Some s'
             /\ c_phase (callers s' i) = CTook TResult (Some f).
Proof.
  intros Hr Hi Hp Hc Hl. cbn [run step]. rewrite Hr, Hl. cbn [rd with_rd callers].
  rewrite Hc. cbn [callers with_rd with_callers ncallers].
  apply Nat.ltb_lt in Hi. rewrite Hi. cbn [negb]. rewrite upd_same. cbn [c_phase set_chan].
  rewrite Hp. cbn [c_chan set_chan]. eexists. split; [reflexivity|].
  cbn. rewrite upd_same. reflexivity.
Qed.

(** a frame is dropped only when its target already holds a frame with the same op id *)
Lemma drop_is_harmless s j f x xs :
  inv s -> rd s = RLooked j f -> c_chan (callers s j) = x :: xs -> f_op x = f_op f.
Proof.
  intros I Hr Hc. rewrite (i_rd s I j f Hr). apply (i_chan s I). rewrite Hc. now left.
Qed.

(** pinned tree (blocking dispatch): the reader can be wedged for good *)
Definition past_select (p : cphase) : Prop := match p with CTook _ _ | CDone _ => True | _ => False end.
Definition wedged (s : st) : Prop :=
  exists j f x xs, rd s = RLooked j f /\ c_chan (callers s j) = x :: xs /\ past_select (c_phase (callers s j)).

Lemma wedged_reader_disabled s : wedged s ->
  step true s EDeliver = None /\ forall f, step true s (EArrive f) = None.
Proof.
  intros (j & f & x & xs & Hr & Hc & _). split; [|intros f']; cbn [step]; rewrite Hr; [now rewrite Hc | reflexivity].
Qed.

Lemma wedged_stable s e s' : wedged s -> step true s e = Some s' -> wedged s'.
Proof.
  intros (j & f & x & xs & Hr & Hc & Hp) H.
  destruct e as [i|i|i|i|f'| |i t|i]; cbn [step] in H.
  - destruct (Nat.ltb i (ncallers s)); [|discriminate]. cbn [negb] in H.
    destruct (c_phase (callers s i)) eqn:Ep; try discriminate. injection H as <-.
    exists j, f, x, xs. cbn. destruct (Nat.eq_dec j i) as [->|?]; [rewrite Ep in Hp; contradiction|].
    rewrite upd_other by assumption. auto.
  - destruct (Nat.ltb i (ncallers s)); [|discriminate]. cbn [negb] in H.
    destruct (c_phase (callers s i)) eqn:Ep; try discriminate. injection H as <-.
    exists j, f, x, xs. cbn. destruct (Nat.eq_dec j i) as [->|?]; [rewrite Ep in Hp; contradiction|].
    rewrite upd_other by assumption. auto.
  - destruct (Nat.ltb i (ncallers s)); [|discriminate]. cbn [negb] in H.
    destruct (c_send (callers s i)); try discriminate. injection H as <-.
    exists j, f, x, xs. cbn. destruct (Nat.eq_dec j i) as [->|?]; [rewrite upd_same | rewrite upd_other by assumption]; cbn; auto.
  - destruct (Nat.ltb i (ncallers s)); [|discriminate]. cbn [negb] in H.
    destruct (c_send (callers s i)); try discriminate. injection H as <-.
    exists j, f, x, xs. cbn. destruct (Nat.eq_dec j i) as [->|?]; [rewrite upd_same | rewrite upd_other by assumption]; cbn; auto.
  - rewrite Hr in H. discriminate.
  - rewrite Hr, Hc in H. discriminate.
  - destruct (Nat.ltb i (ncallers s)); [|discriminate]. cbn [negb] in H.
    destruct (c_phase (callers s i)) eqn:Ep; try discriminate.
    assert (Hne : j <> i) by (intros ->; rewrite Ep in Hp; contradiction).
    destruct t.
    + destruct (c_chan (callers s i)); [discriminate|]. injection H as <-.
      exists j, f, x, xs. cbn. rewrite upd_other by assumption. auto.
    + destruct (c_deadline (callers s i)); [|discriminate]. injection H as <-.
      exists j, f, x, xs. cbn. rewrite upd_other by assumption. auto.
    + destruct (c_send (callers s i)); try discriminate. injection H as <-.
      exists j, f, x, xs. cbn. rewrite upd_other by assumption. auto.
  - destruct (Nat.ltb i (ncallers s)); [|discriminate]. cbn [negb] in H.
    destruct (c_phase (callers s i)) as [| | |t got|] eqn:Ep; try discriminate.
    destruct (outcome_of t got); [|discriminate]. injection H as <-.
    exists j, f, x, xs. cbn. destruct (Nat.eq_dec j i) as [->|?]; [rewrite upd_same | rewrite upd_other by assumption]; cbn; auto.
Qed.

Lemma wedged_forever evs : forall s s', wedged s -> run true s evs = Some s' ->
  wedged s' /\ ~ In EDeliver evs /\ (forall f, ~ In (EArrive f) evs).
Proof.
  induction evs as [|e evs IH]; intros s s' W H; cbn [run] in H.
  - injection H as <-. repeat split; auto.
  - destruct (step true s e) as [s1|] eqn:E; [|discriminate].
    destruct (wedged_reader_disabled s W) as [D A].
    destruct (IH s1 s' (wedged_stable s e s1 W E) H) as (W' & ND & NA).
    repeat split; auto.
    + intros [X|X]; [subst e; congruence | contradiction].
    + intros f [X|X]; [subst e; rewrite A in E; discriminate | eapply NA; eassumption].
Qed.

(** ** C13 *)
Lemma timeout_branch_enabled b s i :
  (i < ncallers s)%nat -> c_phase (callers s i) = CSelect -> c_deadline (callers s i) = true ->
  exists s', step b s (ETake i TTimeout) = Some s' /\ c_phase (callers s' i) = CTook TTimeout None
             /\ reg s' = reg s /\ rd s' = rd s /\ (forall j, j <> i -> callers s' j = callers s j).
Proof.
  intros Hi Hp Hd. cbn [step]. apply Nat.ltb_lt in Hi. rewrite Hi. cbn [negb]. rewrite Hp, Hd.
  eexists. split; [reflexivity|]. cbn. rewrite upd_same. repeat split; auto.
  intros j Hj. now rewrite upd_other.
Qed.

Lemma unregister_outcome b s i t got :
  (i < ncallers s)%nat -> c_phase (callers s i) = CTook t got -> (t = TResult -> got <> None) ->
  exists s' o, step b s (EUnregister i) = Some s' /\ c_phase (callers s' i) = CDone o
    /\ (o = OTimedOut <-> t = TTimeout) /\ (o = OSendErr <-> t = TSendErr)
    /\ (forall f, o = OOk f <-> (t = TResult /\ got = Some f)).
Proof.
  intros Hi Hp Hg. cbn [step]. apply Nat.ltb_lt in Hi. rewrite Hi. cbn [negb]. rewrite Hp.
  destruct t, got as [f0|]; cbn [outcome_of]; try (exfalso; now apply Hg);
    (eexists; eexists; split; [reflexivity|]; cbn; rewrite upd_same; cbn;
     split; [reflexivity|]; repeat split; try discriminate; try congruence; try tauto;
     try (intros [X Y]; congruence); try (intros [X _]; discriminate)).
Qed.

Lemma done_not_registered b ops dl n evs s i o :
  distinct_ops ops n -> run b (init ops dl n) evs = Some s -> (i < n)%nat ->
  c_phase (callers s i) = CDone o -> reg_lookup (reg s) (ops i) = None.
Proof.
  intros Hd H Hi Hp. destruct (run_reg_ok b ops dl n evs s Hd H i Hi) as [_ Hb].
  apply Hb. rewrite Hp. intros [].
Qed.

(** ** frames for requests that already left their select change nobody's outcome *)
Definition sim (s1 s2 : st) : Prop :=
  ncallers s1 = ncallers s2 /\ reg s1 = reg s2 /\ rd s1 = rd s2 /\
  forall j, c_op (callers s1 j) = c_op (callers s2 j)
            /\ c_phase (callers s1 j) = c_phase (callers s2 j)
            /\ c_send (callers s1 j) = c_send (callers s2 j)
            /\ c_deadline (callers s1 j) = c_deadline (callers s2 j)
            /\ (~ past_select (c_phase (callers s1 j)) -> c_chan (callers s1 j) = c_chan (callers s2 j)).

Lemma sim_refl s : sim s s.
Proof. repeat split; auto. Qed.

Lemma sim_step s1 s2 e s1' :
  sim s1 s2 -> step false s1 e = Some s1' -> exists s2', step false s2 e = Some s2' /\ sim s1' s2'.
Proof.
  intros (Hn & Hr & Hd & Hc) H.
  (* pointwise comparison after updating caller i on both sides *)
  assert (Upd : forall i c1 c2 r g1 g2, g1 = g2 ->
            c_op c1 = c_op c2 -> c_phase c1 = c_phase c2 -> c_send c1 = c_send c2 -> c_deadline c1 = c_deadline c2 ->
            (~ past_select (c_phase c1) -> c_chan c1 = c_chan c2) ->
            sim {| callers := upd (callers s1) i c1; ncallers := ncallers s1; reg := g1; rd := r |}
                {| callers := upd (callers s2) i c2; ncallers := ncallers s2; reg := g2; rd := r |}).
  { intros i c1 c2 r g1 g2 Eg A1 A2 A3 A4 A5. split; [exact Hn|]. split; [exact Eg|]. split; [reflexivity|]. cbn.
    intros j. destruct (Nat.eq_dec j i) as [->|?]; [rewrite !upd_same; auto | rewrite !upd_other by assumption; apply Hc]. }
  destruct e as [i|i|i|i|f| |i t|i]; cbn [step] in *.
  - rewrite <- Hn. destruct (Nat.ltb i (ncallers s1)); [|discriminate]. cbn [negb] in *.
    destruct (Hc i) as (E1 & E2 & E3 & E4 & E5). rewrite <- E2.
    destruct (c_phase (callers s1 i)) eqn:Ep; try discriminate. injection H as <-.
    eexists. split; [reflexivity|]. unfold with_reg, with_callers, with_rd. cbn [callers ncallers reg rd].
    rewrite <- ?Hr, <- ?E1, <- ?Hd. apply Upd; cbn; auto; try congruence; try (intros _; apply E5; rewrite ?Ep; cbn; auto).
  - rewrite <- Hn. destruct (Nat.ltb i (ncallers s1)); [|discriminate]. cbn [negb] in *.
    destruct (Hc i) as (E1 & E2 & E3 & E4 & E5). rewrite <- E2.
    destruct (c_phase (callers s1 i)) eqn:Ep; try discriminate. injection H as <-.
    eexists. split; [reflexivity|]. unfold with_reg, with_callers, with_rd. cbn [callers ncallers reg rd].
    rewrite <- ?Hd. apply Upd; cbn; auto; try congruence; try (intros _; apply E5; rewrite ?Ep; cbn; auto).
  - rewrite <- Hn. destruct (Nat.ltb i (ncallers s1)); [|discriminate]. cbn [negb] in *.
    destruct (Hc i) as (E1 & E2 & E3 & E4 & E5). rewrite <- E3.
    destruct (c_send (callers s1 i)) eqn:Esd; try discriminate. injection H as <-.
    eexists. split; [reflexivity|]. unfold with_reg, with_callers, with_rd. cbn [callers ncallers reg rd].
    rewrite <- ?Hd. apply Upd; cbn; auto; try congruence.
  - rewrite <- Hn. destruct (Nat.ltb i (ncallers s1)); [|discriminate]. cbn [negb] in *.
    destruct (Hc i) as (E1 & E2 & E3 & E4 & E5). rewrite <- E3.
    destruct (c_send (callers s1 i)) eqn:Esd; try discriminate. injection H as <-.
    eexists. split; [reflexivity|]. unfold with_reg, with_callers, with_rd. cbn [callers ncallers reg rd].
    rewrite <- ?Hd. apply Upd; cbn; auto; try congruence.
  - rewrite <- Hd, <- Hr. destruct (rd s1) eqn:Er; [|discriminate].
    destruct (reg_lookup (reg s1) (f_op f)); injection H as <-; eexists; (split; [reflexivity|]).
    + split; [exact Hn|]. split; [exact Hr|]. split; [reflexivity|]. exact Hc.
    + split; [exact Hn|]. split; [exact Hr|]. split; [congruence|]. exact Hc.
  - rewrite <- Hd. destruct (rd s1) as [|j0 f0]; [discriminate|].
    destruct (Hc j0) as (E1 & E2 & E3 & E4 & E5).
    destruct (c_chan (callers s1 j0)) as [|x1 r1] eqn:C1; injection H as <-;
      destruct (c_chan (callers s2 j0)) as [|x2 r2] eqn:C2; eexists; (split; [reflexivity|]).
    + unfold with_reg, with_callers, with_rd. cbn [callers ncallers reg rd]. apply Upd; cbn; auto; try congruence.
    + (* s1 delivers, s2 drops: possible only when the target is past its select *)
      split; [exact Hn|]. split; [exact Hr|]. split; [reflexivity|]. cbn. intros j.
      destruct (Nat.eq_dec j j0) as [->|?]; [rewrite upd_same | rewrite upd_other by assumption; apply Hc].
      cbn. repeat split; auto. intros X. exfalso. specialize (E5 X). congruence.
    + split; [exact Hn|]. split; [exact Hr|]. split; [reflexivity|]. cbn. intros j.
      destruct (Nat.eq_dec j j0) as [->|?]; [rewrite upd_same | rewrite upd_other by assumption; apply Hc].
      cbn. repeat split; auto. intros X. exfalso. specialize (E5 X). congruence.
    + split; [exact Hn|]. split; [exact Hr|]. split; [reflexivity|]. exact Hc.
  - rewrite <- Hn. destruct (Nat.ltb i (ncallers s1)); [|discriminate]. cbn [negb] in *.
    destruct (Hc i) as (E1 & E2 & E3 & E4 & E5). rewrite <- E2.
    destruct (c_phase (callers s1 i)) eqn:Ep; try discriminate.
    assert (Ech : c_chan (callers s1 i) = c_chan (callers s2 i)) by (apply E5; rewrite ?Ep; cbn; auto).
    destruct t.
    + rewrite <- Ech. destruct (c_chan (callers s1 i)) as [|f0 r0]; [discriminate|]. injection H as <-.
      eexists. split; [reflexivity|]. unfold with_reg, with_callers, with_rd. cbn [callers ncallers reg rd].
    rewrite <- ?Hd. apply Upd; cbn; auto; try congruence.
    + rewrite <- E4. destruct (c_deadline (callers s1 i)) eqn:Edl; [|discriminate]. injection H as <-.
      eexists. split; [reflexivity|]. unfold with_reg, with_callers, with_rd. cbn [callers ncallers reg rd].
    rewrite <- ?Hd. apply Upd; cbn; auto; try congruence; try (intros X; exfalso; apply X; exact I).
    + rewrite <- E3. destruct (c_send (callers s1 i)) eqn:Esd; try discriminate. injection H as <-.
      eexists. split; [reflexivity|]. unfold with_reg, with_callers, with_rd. cbn [callers ncallers reg rd].
    rewrite <- ?Hd. apply Upd; cbn; auto; try congruence; try (intros X; exfalso; apply X; exact I).
  - rewrite <- Hn. destruct (Nat.ltb i (ncallers s1)); [|discriminate]. cbn [negb] in *.
    destruct (Hc i) as (E1 & E2 & E3 & E4 & E5). rewrite <- E2.
    destruct (c_phase (callers s1 i)) as [| | |t got|] eqn:Ep; try discriminate.
    destruct (outcome_of t got) as [o|]; [|discriminate]. injection H as <-.
    eexists. split; [reflexivity|]. unfold with_reg, with_callers, with_rd. cbn [callers ncallers reg rd].
    rewrite <- ?Hr, <- ?E1, <- ?Hd. apply Upd; cbn; auto; try congruence; try (intros X; exfalso; apply X; exact I).
Qed.

Lemma sim_run evs : forall s1 s2 s1', sim s1 s2 -> run false s1 evs = Some s1' ->
  exists s2', run false s2 evs = Some s2' /\ sim s1' s2'.
Proof.
  induction evs as [|e evs IH]; intros s1 s2 s1' S H; cbn [run] in *.
  - injection H as <-. eauto.
  - destruct (step false s1 e) as [t1|] eqn:E; [|discriminate].
    destruct (sim_step s1 s2 e t1 S E) as (t2 & E2 & S2). rewrite E2. eauto.
Qed.

(** a frame (duplicate, late) whose target has already left its select: after lookup and hand-over the
    state differs from the one before only in that target's channel, which nobody reads any more *)
Lemma late_frame_inert s f j :
  rd s = RIdle -> reg_lookup (reg s) (f_op f) = Some j -> past_select (c_phase (callers s j)) ->
  exists s', run false s [EArrive f; EDeliver] = Some s' /\ sim s' s.
Proof.
  intros Hr Hl Hp. cbn [run step]. rewrite Hr, Hl. cbn [rd with_rd callers].
  destruct (c_chan (callers s j)) as [|x xs] eqn:Ec; eexists; (split; [reflexivity|]).
  - split; [reflexivity|]. split; [reflexivity|]. split; [cbn; now rewrite Hr|]. cbn. intros k.
    destruct (Nat.eq_dec k j) as [->|?]; [rewrite upd_same | rewrite upd_other by assumption; repeat split; auto].
    cbn. repeat split; auto. intros X. contradiction.
  - split; [reflexivity|]. split; [reflexivity|]. split; [cbn; now rewrite Hr|]. cbn. intros k. repeat split; auto.
Qed.

(** ... hence every continuation reaches the same outcomes, with or without that frame *)
Lemma late_frame_changes_no_outcome s f j evs t :
  rd s = RIdle -> reg_lookup (reg s) (f_op f) = Some j -> past_select (c_phase (callers s j)) ->
  run false s (EArrive f :: EDeliver :: evs) = Some t ->
  exists t', run false s evs = Some t' /\ forall i, c_phase (callers t i) = c_phase (callers t' i).
Proof.
  intros Hr Hl Hp H.
  destruct (late_frame_inert s f j Hr Hl Hp) as (s' & R & S).
  change (EArrive f :: EDeliver :: evs) with ([EArrive f; EDeliver] ++ evs) in H.
  assert (Happ : forall a b s0, run false s0 (a ++ b) = match run false s0 a with Some s1 => run false s1 b | None => None end).
  { induction a as [|e a IH]; intros b0 s0; cbn [app run]; [reflexivity|]. destruct (step false s0 e); auto. }
  rewrite Happ, R in H.
  destruct (sim_run evs s' s t S H) as (t' & R' & S').
  exists t'. split; [exact R'|]. intros i. destruct S' as (_ & _ & _ & Hc). apply Hc.
Qed.
