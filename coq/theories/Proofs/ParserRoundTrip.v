(** Round trip through the whole model (Grammar rule down to characters and back up through the
    actions) for the declaration kind "typedef of a base type", in every blank / line-break style:
    C10 stage 5, [c10_roundtrip_partial]. *)
From Coq Require Import ZArith List Bool Arith Lia String.
From FV Require Import Model.PegSyntax Model.Peg Model.PegWf Model.ParserStrings Model.ParserAst
     Model.ParserActions Model.Parser Proofs.PegProofs Proofs.ParserProofs Proofs.ParserLexProofs
     Proofs.ParserEvals.
Import ListNotations.
Local Open Scope Z_scope.

(** ** the rules this derivation goes through, as they are in the regenerated grammar *)
Definition lit_typedef : list Z := [116; 121; 112; 101; 100; 101; 102].
Definition base_lits : list (list Z) :=
  [[98; 111; 111; 108]; [98; 121; 116; 101]; [105; 49; 54]; [105; 51; 50]; [105; 54; 52];
   [100; 111; 117; 98; 108; 101]; [115; 116; 114; 105; 110; 103]; [98; 105; 110; 97; 114; 121]].
Definition doc_opt : cexpr action := CLabel "docstr" (COpt (CSeq [CRef 50; CRef 55])).
(** the word boundary after a keyword, ![A-Za-z0-9._] (repairs of C10-F8a..e) *)
Definition kw_guard : cexpr action := CNot (CClass [46; 95] [(65, 90); (97, 122); (48, 57)] false).

Lemma shapes :
  nth_error rules 0 = Some (CAct AGrammar1 (CSeq [CRef 55; CLabel "statements" (CStar (CSeq [CRef 2; CRef 55]));
                                                  CChoice [CRef 61; CRef 1]]))
  /\ nth_error rules 2 = Some (CAct AStatement1 (CSeq [doc_opt; CLabel "statement" (CRef 3)]))
  /\ nth_error rules 3 = Some (CChoice [CRef 4; CRef 5; CRef 6; CRef 7; CRef 9; CRef 10; CRef 11; CRef 12; CRef 17; CRef 38])
  /\ nth_error rules 9 = Some (CAct ATypeDef1 (CSeq [CLit lit_typedef; CRef 56; CLabel "typ" (CRef 22); CRef 56;
                                                     CLabel "name" (CRef 45); CRef 56;
                                                     CLabel "annotations" (COpt (CRef 31)); CRef 60]))
  /\ nth_error rules 22 = Some (CAct AFieldType1 (CLabel "typ" (CChoice [CRef 23; CRef 25; CRef 45])))
  /\ nth_error rules 23 = Some (CAct ABaseType1 (CSeq [CLabel "name" (CRef 24); CRef 56;
                                                       CLabel "annotations" (COpt (CRef 31))]))
  /\ nth_error rules 24 = Some (CAct ABaseTypeName1 (CSeq [CChoice (map CLit base_lits); kw_guard]))
  /\ nth_error rules 50 = Some (CAct ADocString1 (CSeq [CLit [47; 42; 42; 64];
                                                        CStar (CSeq [CNot (CLit [42; 47]); CRef 49]); CLit [42; 47]]))
  /\ nth_error rules 51 = Some (CChoice [CRef 52; CRef 54])
  /\ nth_error rules 52 = Some (CSeq [CNot (CRef 50); CLit [47; 42];
                                      CStar (CSeq [CNot (CLit [42; 47]); CRef 49]); CLit [42; 47]])
  /\ nth_error rules 53 = Some (CSeq [CNot (CRef 50); CLit [47; 42];
                                      CStar (CSeq [CNot (CChoice [CLit [42; 47]; CRef 59]); CRef 49]); CLit [42; 47]])
  /\ nth_error rules 54 = Some (CChoice [CSeq [CLit [47; 47]; CStar (CSeq [CNot (CRef 59); CRef 49])];
                                         CSeq [CLit [35]; CStar (CSeq [CNot (CRef 59); CRef 49])]])
  /\ nth_error rules 55 = Some (CStar (CChoice [CRef 58; CRef 59; CRef 51]))
  /\ nth_error rules 56 = Some (CStar (CChoice [CRef 58; CRef 53]))
  /\ class_rule 58 (fun c => in_chars c [32; 9; 13] || in_ranges c [])
  /\ nth_error rules 59 = Some (CLit [10])
  /\ nth_error rules 60 = Some (CChoice [CSeq [CRef 55; CLit [59]]; CSeq [CRef 56; COpt (CRef 54); CRef 59];
                                         CSeq [CRef 55; CRef 61]])
  /\ nth_error rules 61 = Some (CNot CAny).
Proof.
  repeat (split; [vm_compute; reflexivity|]).
  split; [eexists; eexists; split; [vm_compute; reflexivity | vm_compute; reflexivity]|].
  repeat (split; [vm_compute; reflexivity|]). vm_compute; reflexivity.
Qed.

(** rules that begin with a keyword literal (action, literal, rest of the sequence) *)
Definition keyword_rule (i : nat) (c : Z) (l : list Z) : Prop :=
  exists a more, nth_error rules i = Some (CAct a (CSeq (CLit (c :: l) :: more))) /\ Forall ascii (c :: l).

Lemma keyword_rules :
  keyword_rule 4 105 [110; 99; 108; 117; 100; 101] /\ keyword_rule 5 110 [97; 109; 101; 115; 112; 97; 99; 101]
  /\ keyword_rule 6 99 [111; 110; 115; 116] /\ keyword_rule 7 101 [110; 117; 109]
  /\ keyword_rule 9 116 [121; 112; 101; 100; 101; 102]
  /\ keyword_rule 10 115 [116; 114; 117; 99; 116] /\ keyword_rule 11 101 [120; 99; 101; 112; 116; 105; 111; 110]
  /\ keyword_rule 12 117 [110; 105; 111; 110] /\ keyword_rule 17 115 [101; 114; 118; 105; 99; 101]
  /\ keyword_rule 31 40 []
  /\ exists more, nth_error rules 38 = Some (CAct AScope1 (CSeq (doc_opt :: CLit [115; 99; 111; 112; 101] :: more))).
Proof.
  repeat split; try (eexists; eexists; split; [vm_compute; reflexivity | repeat constructor; unfold ascii; lia]).
  eexists. vm_compute. reflexivity.
Qed.

(** ** states whose first character cannot start a blank, a comment or a line break *)
Definition p_blank (c : Z) : bool := in_chars c [32; 9; 13] || in_ranges c [].
Definition p_wsnl (c : Z) : bool := p_blank c || (c =? 10).

(** head of the remaining input: end of input, or an ASCII character different from all of [cs] *)
Definition head_not (cs : list Z) (s : bytes) : Prop :=
  match s with [] => True | d :: _ => ascii d /\ Forall (fun c => d <> c) cs end.

Lemma head_not_sub : forall cs cs' s, incl cs' cs -> head_not cs s -> head_not cs' s.
Proof.
  intros cs cs' [|d s] Hi H; [exact I|]. destruct H as [Hd Hf]. split; [exact Hd|].
  rewrite Forall_forall in *. intros c Hc. apply Hf. apply Hi. exact Hc.
Qed.

Lemma head_not_ascii_next : forall cs s, head_not cs s -> ascii_next s.
Proof. intros cs [|d s] H; [exact I | exact (proj1 H)]. Qed.

(** a literal whose first character is excluded fails in place *)
Lemma lit_fails : forall c l cr s o es fr,
  Forall ascii (c :: l) -> head_not [c] s ->
  evals (CLit (c :: l)) cr (st_of s o es) fr (Done false VNil (st_of s o es) fr).
Proof.
  intros c l cr s o es fr Hl Hs.
  assert (Hok : lit_ascii_ok (c :: l) s).
  { destruct s as [|d s]; [exact I|]. destruct Hs as [Hd Hf]. inversion Hf; subst. split; [exact Hd | intros; congruence]. }
  pose proof (E_lit_at (c :: l) cr s o es fr Hok Hl) as H.
  assert (Hp : has_prefix (c :: l) s = false).
  { destruct s as [|d s]; [reflexivity|]. destruct Hs as [_ Hf]. inversion Hf; subst. cbn [has_prefix].
    destruct (Z.eqb_spec c d); [congruence | reflexivity]. }
  rewrite Hp in H. exact H.
Qed.

Lemma keyword_rule_fails : forall i c l cr s o es fr,
  keyword_rule i c l -> head_not [c] s ->
  evals (CRef i) cr (st_of s o es) fr (Done false VNil (st_of s o es) fr).
Proof.
  intros i c l cr s o es fr (a & more & Hb & Hl) Hs.
  eapply E_ref; [exact Hb|]. apply E_act_fail. apply E_seq.
  exact (S_fail i _ _ _ _ _ _ _ _ _ (lit_fails c l i s o es [] Hl Hs)).
Qed.

(** DocString (rule 50) fails unless the input starts with '/' *)
Lemma docstring_fails : forall cr s o es fr,
  head_not [47] s -> evals (CRef 50) cr (st_of s o es) fr (Done false VNil (st_of s o es) fr).
Proof.
  intros cr s o es fr Hs. destruct shapes as (_ & _ & _ & _ & _ & _ & _ & H50 & _).
  eapply E_ref; [exact H50|]. apply E_act_fail. apply E_seq.
  refine (S_fail 50 _ _ _ _ _ _ _ _ _ (lit_fails 47 [42; 42; 64] 50 s o es [] _ Hs)).
  repeat constructor; unfold ascii; lia.
Qed.

Lemma doc_opt_nil : forall cr s o es fr,
  head_not [47] s ->
  evals doc_opt cr (st_of s o es) fr (Done true VNil (st_of s o es) (("docstr"%string, VNil) :: fr)).
Proof.
  intros cr s o es fr Hs. unfold doc_opt. apply E_label_ok with (fr1 := []).
  eapply E_opt. apply E_seq. exact (S_fail cr _ _ _ _ _ _ _ _ _ (docstring_fails cr s o es [] Hs)).
Qed.

(** MultiLineCommentNoLineTerminator (53), MultiLineComment (52), SingleLineComment (54), Comment (51) *)
Lemma not_docstring : forall cr s o es fr,
  head_not [47] s -> evals (CNot (CRef 50)) cr (st_of s o es) fr (Done true VNil (st_of s o es) fr).
Proof. intros cr s o es fr Hs. exact (E_not _ _ _ _ _ _ _ _ (docstring_fails cr s o es [] Hs)). Qed.

Lemma slash_star_fails : forall cr s o es fr,
  head_not [47] s -> evals (CLit [47; 42]) cr (st_of s o es) fr (Done false VNil (st_of s o es) fr).
Proof. intros. apply lit_fails; [repeat constructor; unfold ascii; lia | assumption]. Qed.

Lemma mlcnlt_fails : forall cr s o es fr,
  head_not [47] s -> evals (CRef 53) cr (st_of s o es) fr (Done false VNil (st_of s o es) fr).
Proof.
  intros cr s o es fr Hs. destruct shapes as (_ & _ & _ & _ & _ & _ & _ & _ & _ & _ & H53 & _).
  eapply E_ref; [exact H53|]. apply E_seq.
  eapply S_ok; [exact (not_docstring 53 s o es [] Hs)|].
  exact (S_fail 53 _ _ _ _ _ _ _ _ _ (slash_star_fails 53 s o es [] Hs)).
Qed.

Lemma comment_fails : forall cr s o es fr,
  head_not [47; 35] s -> evals (CRef 51) cr (st_of s o es) fr (Done false VNil (st_of s o es) fr).
Proof.
  intros cr s o es fr Hs.
  assert (H47 : head_not [47] s) by (apply (head_not_sub [47; 35]); [intros x [<-|[]]; cbn; auto | exact Hs]).
  assert (H35 : head_not [35] s) by (apply (head_not_sub [47; 35]); [intros x [<-|[]]; cbn; auto | exact Hs]).
  destruct shapes as (_ & _ & _ & _ & _ & _ & _ & _ & H51 & H52 & _ & H54 & _).
  eapply E_ref; [exact H51|]. apply E_choice.
  eapply C_next.
  - (* MultiLineComment *)
    eapply E_ref; [exact H52|]. apply E_seq.
    eapply S_ok; [exact (not_docstring 52 s o es [] H47)|].
    exact (S_fail 52 _ _ _ _ _ _ _ _ _ (slash_star_fails 52 s o es [] H47)).
  - eapply C_next; [|apply C_nil].
    (* SingleLineComment *)
    eapply E_ref; [exact H54|]. apply E_choice.
    eapply C_next.
    + apply E_seq. refine (S_fail 54 _ _ _ _ _ _ _ _ _ (lit_fails 47 [47] 54 s o es [] _ H47)).
      repeat constructor; unfold ascii; lia.
    + eapply C_next; [|apply C_nil].
      apply E_seq. refine (S_fail 54 _ _ _ _ _ _ _ _ _ (lit_fails 35 [] 54 s o es [] _ H35)).
      repeat constructor; unfold ascii; lia.
Qed.

Lemma single_line_comment_fails : forall cr s o es fr,
  head_not [47; 35] s -> evals (CRef 54) cr (st_of s o es) fr (Done false VNil (st_of s o es) fr).
Proof.
  intros cr s o es fr Hs.
  assert (H47 : head_not [47] s) by (apply (head_not_sub [47; 35]); [intros x [<-|[]]; cbn; auto | exact Hs]).
  assert (H35 : head_not [35] s) by (apply (head_not_sub [47; 35]); [intros x [<-|[]]; cbn; auto | exact Hs]).
  destruct shapes as (_ & _ & _ & _ & _ & _ & _ & _ & _ & _ & _ & H54 & _).
  eapply E_ref; [exact H54|]. apply E_choice.
  eapply C_next.
  - apply E_seq. refine (S_fail 54 _ _ _ _ _ _ _ _ _ (lit_fails 47 [47] 54 s o es [] _ H47)).
    repeat constructor; unfold ascii; lia.
  - eapply C_next; [|apply C_nil].
    apply E_seq. refine (S_fail 54 _ _ _ _ _ _ _ _ _ (lit_fails 35 [] 54 s o es [] _ H35)).
    repeat constructor; unfold ascii; lia.
Qed.

(** ** blanks and line breaks: the rules _ (56) and __ (55) *)
Lemma whitespace_matches : matches_char (CRef 58) p_blank 2.
Proof.
  destruct shapes as (_ & _ & _ & _ & _ & _ & _ & _ & _ & _ & _ & _ & _ & _ & H58 & _).
  exact (class_rule_matches 58 _ H58).
Qed.

Lemma not_blank : forall d cs, Forall (fun c => d <> c) cs -> incl [32; 9; 13] cs -> p_blank d = false.
Proof.
  intros d cs Hf Hi. rewrite Forall_forall in Hf. unfold p_blank. cbn [in_chars in_ranges].
  assert (d <> 32) by (apply Hf, Hi; cbn; auto). assert (d <> 9) by (apply Hf, Hi; cbn; auto).
  assert (d <> 13) by (apply Hf, Hi; cbn; auto).
  destruct (Z.eqb_spec 32 d); [lia|]. destruct (Z.eqb_spec 9 d); [lia|]. destruct (Z.eqb_spec 13 d); [lia|]. reflexivity.
Qed.

Lemma whitespace_fails : forall cr s o es fr,
  head_not [32; 9; 13] s -> evals (CRef 58) cr (st_of s o es) fr (Done false VNil (st_of s o es) fr).
Proof.
  intros cr s o es fr Hs. destruct whitespace_matches as (_ & Wn & We).
  destruct s as [|d s].
  - apply (E_of_bound 2). intros f Hf. exact (We f cr o es fr Hf).
  - destruct Hs as [Hd Hf]. apply (E_of_bound 2). intros f Hfu.
    exact (Wn f cr d s o es fr Hfu Hd (not_blank d _ Hf (incl_refl _))).
Qed.

Lemma eol_fails : forall cr s o es fr,
  head_not [10] s -> evals (CRef 59) cr (st_of s o es) fr (Done false VNil (st_of s o es) fr).
Proof.
  intros cr s o es fr Hs. destruct shapes as (_ & _ & _ & _ & _ & _ & _ & _ & _ & _ & _ & _ & _ & _ & _ & H59 & _).
  eapply E_ref; [exact H59|]. apply lit_fails; [repeat constructor; unfold ascii; lia | exact Hs].
Qed.

Lemma eol_ok : forall cr s o es fr,
  ascii_next s -> evals (CRef 59) cr (st_of (10 :: s) o es) fr (Done true (VBytes [10]) (st_of s (o + 1) es) fr).
Proof.
  intros cr s o es fr Hs. destruct shapes as (_ & _ & _ & _ & _ & _ & _ & _ & _ & _ & _ & _ & _ & _ & _ & H59 & _).
  eapply E_ref; [exact H59|].
  assert (Hok : lit_ascii_ok [10] (10 :: s)) by (split; [unfold ascii; lia | intros _; exact Hs]).
  pose proof (E_lit_at [10] 59 (10 :: s) o es [] Hok ltac:(repeat constructor; unfold ascii; lia)) as H.
  cbn [has_prefix List.length skipn] in H. rewrite Z.eqb_refl in H. cbn [andb] in H.
  rewrite takeZ_1 in H. exact H.
Qed.

Definition bytes_vals (g : bytes) : list val := map (fun c => VBytes [c]) g.

Lemma gap_inline_loop : forall g s o es fr acc,
  run_of p_blank g -> head_not [32; 9; 13; 47] s ->
  loops (CChoice [CRef 58; CRef 53]) 56 (st_of (g ++ s) o es) fr acc
        (Done true (VList (rev acc ++ bytes_vals g)) (st_of s (o + Z.of_nat (List.length g)) es) fr).
Proof.
  induction g as [|c g IH]; intros s o es fr acc Hg Hs.
  - cbn [app List.length bytes_vals map]. replace (o + Z.of_nat 0) with o by lia. rewrite app_nil_r.
    eapply L_stop. apply E_choice.
    eapply C_next; [apply whitespace_fails; eapply head_not_sub; [|exact Hs]; intros x Hx; cbn in Hx |- *; tauto|].
    eapply C_next; [apply mlcnlt_fails; eapply head_not_sub; [|exact Hs]; intros x Hx; cbn in Hx |- *; tauto|].
    apply C_nil.
  - inversion Hg as [|c' g' [Hc Hp] Hg']; subst. cbn [app].
    destruct whitespace_matches as (Wm & _ & _).
    eapply L_step.
    + apply E_choice. eapply C_ok. apply (E_of_bound 2). intros f Hf.
      exact (Wm f 56%nat c (g ++ s) o es [] Hf Hc Hp
                (run_app_ascii_next p_blank g s Hg' (head_not_ascii_next _ s Hs))).
    + specialize (IH s (o + 1) es fr (VBytes [c] :: acc) Hg' Hs).
      cbn [rev] in IH. rewrite <- app_assoc in IH. cbn [app] in IH.
      cbn [List.length bytes_vals map].
      replace (o + Z.of_nat (S (List.length g))) with (o + 1 + Z.of_nat (List.length g)) by lia.
      exact IH.
Qed.

Lemma gap_inline : forall g s cr o es fr,
  run_of p_blank g -> head_not [32; 9; 13; 47] s ->
  evals (CRef 56) cr (st_of (g ++ s) o es) fr
        (Done true (VList (bytes_vals g)) (st_of s (o + Z.of_nat (List.length g)) es) fr).
Proof.
  intros g s cr o es fr Hg Hs. destruct shapes as (_ & _ & _ & _ & _ & _ & _ & _ & _ & _ & _ & _ & _ & H56 & _).
  eapply E_ref; [exact H56|]. apply E_star. exact (gap_inline_loop g s o es [] [] Hg Hs).
Qed.

Lemma gap_free_loop : forall g s o es fr acc,
  run_of p_wsnl g -> head_not [32; 9; 13; 10; 47; 35] s ->
  loops (CChoice [CRef 58; CRef 59; CRef 51]) 55 (st_of (g ++ s) o es) fr acc
        (Done true (VList (rev acc ++ bytes_vals g)) (st_of s (o + Z.of_nat (List.length g)) es) fr).
Proof.
  induction g as [|c g IH]; intros s o es fr acc Hg Hs.
  - cbn [app List.length bytes_vals map]. replace (o + Z.of_nat 0) with o by lia. rewrite app_nil_r.
    eapply L_stop. apply E_choice.
    eapply C_next; [apply whitespace_fails; eapply head_not_sub; [|exact Hs]; intros x Hx; cbn in Hx |- *; tauto|].
    eapply C_next; [apply eol_fails; eapply head_not_sub; [|exact Hs]; intros x Hx; cbn in Hx |- *; tauto|].
    eapply C_next; [apply comment_fails; eapply head_not_sub; [|exact Hs]; intros x Hx; cbn in Hx |- *; tauto|].
    apply C_nil.
  - inversion Hg as [|c' g' [Hc Hp] Hg']; subst. cbn [app].
    assert (Hn : ascii_next (g ++ s)).
    { destruct g as [|c2 g2]; [exact (head_not_ascii_next _ s Hs)|]. inversion Hg' as [|? ? [Hc2 _] _]; subst. exact Hc2. }
    assert (Hstep : evals (CChoice [CRef 58; CRef 59; CRef 51]) 55 (st_of (c :: g ++ s) o es) []
                          (Done true (VBytes [c]) (st_of (g ++ s) (o + 1) es) [])).
    { apply E_choice. destruct (p_blank c) eqn:Hb.
      - destruct whitespace_matches as (Wm & _ & _).
        eapply C_ok. apply (E_of_bound 2). intros f Hf. exact (Wm f 55%nat c (g ++ s) o es [] Hf Hc Hb Hn).
      - unfold p_wsnl in Hp. rewrite Hb in Hp. cbn [orb] in Hp. apply Z.eqb_eq in Hp. subst c.
        destruct whitespace_matches as (_ & Wn & _).
        eapply C_next; [apply (E_of_bound 2); intros f Hf; exact (Wn f 55%nat 10 (g ++ s) o es [] Hf Hc Hb)|].
        eapply C_ok. exact (eol_ok 55 (g ++ s) o es [] Hn). }
    eapply L_step; [exact Hstep|].
    specialize (IH s (o + 1) es fr (VBytes [c] :: acc) Hg' Hs).
    cbn [rev] in IH. rewrite <- app_assoc in IH. cbn [app] in IH.
    cbn [List.length bytes_vals map].
    replace (o + Z.of_nat (S (List.length g))) with (o + 1 + Z.of_nat (List.length g)) by lia.
    exact IH.
Qed.

Lemma gap_free : forall g s cr o es fr,
  run_of p_wsnl g -> head_not [32; 9; 13; 10; 47; 35] s ->
  evals (CRef 55) cr (st_of (g ++ s) o es) fr
        (Done true (VList (bytes_vals g)) (st_of s (o + Z.of_nat (List.length g)) es) fr).
Proof.
  intros g s cr o es fr Hg Hs. destruct shapes as (_ & _ & _ & _ & _ & _ & _ & _ & _ & _ & _ & _ & H55 & _).
  eapply E_ref; [exact H55|]. apply E_star. exact (gap_free_loop g s o es [] [] Hg Hs).
Qed.

(** ** a choice among literals picks the first one that is a prefix of the input *)
Lemma choice_lits : forall lits cr s o es fr,
  Forall (fun l => lit_ascii_ok l s /\ Forall ascii l) lits ->
  choices cr fr (map CLit lits) (st_of s o es)
          (match find (fun l => has_prefix l s) lits with
           | Some l => Done true (VBytes (takeZ (Z.of_nat (List.length l)) s))
                            (st_of (skipn (List.length l) s) (o + Z.of_nat (List.length l)) es) fr
           | None => Done false VNil (st_of s o es) fr
           end).
Proof.
  induction lits as [|l lits IH]; intros cr s o es fr Hall; cbn [map find].
  - apply C_nil.
  - inversion Hall as [|l' lits' [Hok Hl] Hrest]; subst.
    pose proof (E_lit_at l cr s o es [] Hok Hl) as H.
    destruct (has_prefix l s).
    + eapply C_ok. exact H.
    + eapply C_next; [exact H | apply IH; exact Hrest].
Qed.

Ltac lit_ok H :=
  lazymatch goal with
  | |- _ /\ _ => split; [unfold ascii; lia | lit_ok H]
  | |- _ = _ -> _ => let E := fresh in intros E; first [discriminate E | lit_ok H]
  | |- True => exact I
  | |- ascii _ => unfold ascii; lia
  | |- ascii_next _ => first [exact H | cbn [ascii_next]; unfold ascii; lia]
  | |- _ => idtac
  end.

Definition is_base (b : bytes) : Prop := In b base_lits.

(** ** the word boundary: the guard succeeds (consuming nothing) exactly when no identifier character follows *)
Lemma idpart_cont : forall c, (in_chars c [46; 95] || in_ranges c [(65, 90); (97, 122); (48, 57)]) = p_cont c.
Proof.
  intros c. unfold p_cont, p_letter, p_digit. cbn [in_chars in_ranges orb].
  destruct (46 =? c), (95 =? c), ((65 <=? c) && (c <=? 90)), ((97 <=? c) && (c <=? 122)), ((48 <=? c) && (c <=? 57));
    reflexivity.
Qed.

Lemma idpart_matches : matches_char (CClass [46; 95] [(65, 90); (97, 122); (48, 57)] false) p_cont 1.
Proof.
  apply (matches_char_ext _ (fun c => in_chars c [46; 95] || in_ranges c [(65, 90); (97, 122); (48, 57)]));
    [intros c _; apply idpart_cont | apply class_matches].
Qed.

Lemma kw_guard_ok : forall cr s o es fr,
  stops p_cont s -> evals kw_guard cr (st_of s o es) fr (Done true VNil (st_of s o es) fr).
Proof.
  intros cr s o es fr Hs. destruct idpart_matches as (_ & Mn & Me). unfold kw_guard.
  destruct s as [|d s].
  - refine (E_not _ cr _ fr false VNil (st_of [] o es) [] _). apply (E_of_bound 1). intros f Hf. exact (Me f cr o es [] Hf).
  - destruct Hs as [Hd Hp]. refine (E_not _ cr _ fr false VNil (st_of (d :: s) o es) [] _). apply (E_of_bound 1). intros f Hf.
    exact (Mn f cr d s o es [] Hf Hd Hp).
Qed.

Lemma kw_guard_fails : forall cr d s o es fr,
  ascii d -> p_cont d = true -> ascii_next s ->
  evals kw_guard cr (st_of (d :: s) o es) fr (Done false VNil (st_of (d :: s) o es) fr).
Proof.
  intros cr d s o es fr Hd Hp Hs. destruct idpart_matches as (Mm & _ & _). unfold kw_guard.
  refine (E_not _ cr _ fr true (VBytes [d]) (st_of s (o + 1) es) [] _). apply (E_of_bound 1). intros f Hf.
  exact (Mm f cr d s o es [] Hf Hd Hp Hs).
Qed.

(** a non-empty run of blanks, a line break, or a character that is none of a few, ends a word *)
Lemma blanks_stop : forall g s, run_of p_blank g -> g <> [] -> stops p_cont (g ++ s).
Proof.
  intros [|d g] s Hg Hne; [congruence|]. inversion Hg as [|? ? [Hd Hp] _]; subst. cbn [app stops].
  split; [exact Hd|]. unfold p_blank in Hp. cbn [in_chars in_ranges] in Hp.
  destruct (Z.eqb_spec 32 d); [subst; reflexivity|]. destruct (Z.eqb_spec 9 d); [subst; reflexivity|].
  destruct (Z.eqb_spec 13 d); [subst; reflexivity|]. discriminate.
Qed.

(** BaseTypeName (24): the keyword itself, as a Go string *)
Lemma base_type_name : forall base s cr o es fr,
  is_base base -> stops p_cont s ->
  evals (CRef 24) cr (st_of (base ++ s) o es) fr
        (Done true (VStr base) (st_of s (o + Z.of_nat (List.length base)) es) fr).
Proof.
  intros base s cr o es fr Hb Hst. pose proof (stops_ascii_next p_cont s Hst) as Hs.
  destruct shapes as (_ & _ & _ & _ & _ & _ & H24 & _).
  eapply E_ref; [exact H24|].
  assert (Hall : Forall (fun l => lit_ascii_ok l (base ++ s) /\ Forall ascii l) base_lits).
  { unfold is_base, base_lits in Hb. cbn [In] in Hb.
    destruct Hb as [<-|[<-|[<-|[<-|[<-|[<-|[<-|[<-|[]]]]]]]]];
      repeat (constructor; [split; [cbn [lit_ascii_ok app]; lit_ok Hs | repeat constructor; unfold ascii; lia]|]);
      constructor. }
  pose proof (choice_lits base_lits 24 (base ++ s) o es [] Hall) as Hc.
  assert (Hfind : find (fun l => has_prefix l (base ++ s)) base_lits = Some base).
  { unfold is_base, base_lits in Hb. cbn [In] in Hb.
    destruct Hb as [<-|[<-|[<-|[<-|[<-|[<-|[<-|[<-|[]]]]]]]]]; reflexivity. }
  rewrite Hfind in Hc.
  assert (Hskip : skipn (List.length base) (base ++ s) = s).
  { clear. induction base as [|c b IH]; [reflexivity | exact IH]. }
  rewrite Hskip in Hc.
  eapply E_act_ok.
  { apply E_seq. eapply S_ok; [apply E_choice; exact Hc|].
    eapply S_ok; [exact (kw_guard_ok 24 s _ es [] Hst)|]. apply S_nil. }
  unfold finish_action. cbn [rest off]. unfold run_action, run_action_opt.
  replace (o + Z.of_nat (List.length base) - o) with (Z.of_nat (List.length base)) by lia.
  rewrite takeZ_app_exact. cbn [ok]. reflexivity.
Qed.

(** ** BaseType (23) and FieldType (22) on a base-type keyword *)
Lemma anns_opt_nil : forall cr s o es fr,
  head_not [40] s ->
  evals (CLabel "annotations" (COpt (CRef 31))) cr (st_of s o es) fr
        (Done true VNil (st_of s o es) (("annotations"%string, VNil) :: fr)).
Proof.
  intros cr s o es fr Hs. destruct keyword_rules as (_ & _ & _ & _ & _ & _ & _ & _ & _ & K31 & _).
  apply E_label_ok with (fr1 := []). eapply E_opt. exact (keyword_rule_fails 31 40 [] cr s o es [] K31 Hs).
Qed.

Lemma base_type : forall base g s cr o es fr,
  is_base base -> run_of p_blank g -> head_not [32; 9; 13; 47; 40] s -> stops p_cont (g ++ s) ->
  evals (CRef 23) cr (st_of (base ++ g ++ s) o es) fr
        (Done true (VType (PType base None None []))
              (st_of s (o + Z.of_nat (List.length base) + Z.of_nat (List.length g)) es) fr).
Proof.
  intros base g s cr o es fr Hb Hg Hs Hst. destruct shapes as (_ & _ & _ & _ & _ & H23 & _).
  assert (Hs4 : head_not [32; 9; 13; 47] s) by (eapply head_not_sub; [|exact Hs]; intros x Hx; cbn in Hx |- *; tauto).
  assert (Hs1 : head_not [40] s) by (eapply head_not_sub; [|exact Hs]; intros x Hx; cbn in Hx |- *; tauto).
  assert (Hn : ascii_next (g ++ s)) by exact (run_app_ascii_next p_blank g s Hg (head_not_ascii_next _ s Hs)).
  eapply E_ref; [exact H23|]. eapply E_act_ok.
  - apply E_seq.
    eapply S_ok; [apply E_label_ok with (fr1 := []); exact (base_type_name base (g ++ s) 23 o es [] Hb Hst)|].
    eapply S_ok; [exact (gap_inline g s 23 _ es _ Hg Hs4)|].
    eapply S_ok; [exact (anns_opt_nil 23 s _ es _ Hs1)|].
    apply S_nil.
  - reflexivity.
Qed.

Lemma field_type_base : forall base g s cr o es fr,
  is_base base -> run_of p_blank g -> head_not [32; 9; 13; 47; 40] s -> stops p_cont (g ++ s) ->
  evals (CRef 22) cr (st_of (base ++ g ++ s) o es) fr
        (Done true (VType (PType base None None []))
              (st_of s (o + Z.of_nat (List.length base) + Z.of_nat (List.length g)) es) fr).
Proof.
  intros base g s cr o es fr Hb Hg Hs Hst. destruct shapes as (_ & _ & _ & _ & H22 & _).
  eapply E_ref; [exact H22|]. eapply E_act_ok.
  - apply E_label_ok with (fr1 := []). apply E_choice. eapply C_ok.
    exact (base_type base g s 22 o es [] Hb Hg Hs Hst).
  - reflexivity.
Qed.

(** ** character facts *)
Lemma p_blank_vals : forall d, p_blank d = true -> d = 32 \/ d = 9 \/ d = 13.
Proof.
  intros d H. unfold p_blank in H. cbn [in_chars in_ranges] in H.
  destruct (Z.eqb_spec 32 d); [lia|]. destruct (Z.eqb_spec 9 d); [lia|]. destruct (Z.eqb_spec 13 d); [lia|].
  discriminate.
Qed.

Lemma p_start_range : forall c, p_start c = true -> 65 <= c <= 90 \/ 97 <= c <= 122 \/ c = 95.
Proof.
  intros c H. unfold p_start, p_letter in H. cbn [in_chars in_ranges orb] in H.
  destruct (Z.leb_spec 65 c); destruct (Z.leb_spec c 90); destruct (Z.leb_spec 97 c); destruct (Z.leb_spec c 122);
    cbn [andb orb] in H; try lia; destruct (Z.eqb_spec c 95); try lia; discriminate.
Qed.

Lemma head_not_concrete : forall d s cs, ascii d -> Forall (fun c => d <> c) cs -> head_not cs (d :: s).
Proof. intros. split; assumption. Qed.

Lemma start_head_not : forall c s, ascii c -> p_start c = true -> head_not [32; 9; 13; 47; 40] (c :: s).
Proof.
  intros c s Hc Hp. apply p_start_range in Hp. split; [exact Hc|]. repeat constructor; lia.
Qed.

Lemma base_head_not : forall base s, is_base base -> head_not [32; 9; 13; 47] (base ++ s).
Proof.
  intros base s Hb. unfold is_base, base_lits in Hb. cbn [In] in Hb.
  destruct Hb as [<-|[<-|[<-|[<-|[<-|[<-|[<-|[<-|[]]]]]]]]]; cbn [app];
    (split; [unfold ascii; lia | repeat constructor; lia]).
Qed.

Lemma blank_then_nl_stops : forall g x, run_of p_blank g -> stops p_cont (g ++ 10 :: x).
Proof.
  intros g x Hg. destruct g as [|d g]; cbn [app stops].
  - split; [unfold ascii; lia | reflexivity].
  - inversion Hg as [|? ? [Hd Hp] _]; subst. split; [exact Hd|].
    destruct (p_blank_vals d Hp) as [->|[->| ->]]; reflexivity.
Qed.

Lemma nl_head_not : forall x cs, Forall (fun c => 10 <> c) cs -> head_not cs (10 :: x).
Proof. intros. split; [unfold ascii; lia | assumption]. Qed.

(** what may follow a declaration: end of input or the start of the next one (not a blank, a line
    break, a comment or a ';') *)
Definition decl_follow (more : bytes) : Prop := head_not [32; 9; 13; 10; 47; 35; 59] more.

(** ** EOS (60) on a line break *)
Lemma eos_newline : forall w more cr o es fr,
  run_of p_wsnl w -> decl_follow more ->
  evals (CRef 60) cr (st_of (10 :: w ++ more) o es) fr
        (Done true (VList [VList []; VNil; VBytes [10]]) (st_of (w ++ more) (o + 0 + 1) es) fr).
Proof.
  intros w more cr o es fr Hw Hm. destruct shapes as (_ & _ & _ & _ & _ & _ & _ & _ & _ & _ & _ & _ & _ & _ & _ & _ & H60 & _).
  assert (Hm6 : head_not [32; 9; 13; 10; 47; 35] more) by (eapply head_not_sub; [|exact Hm]; intros x Hx; cbn in Hx |- *; tauto).
  assert (Hm59 : head_not [59] more) by (eapply head_not_sub; [|exact Hm]; intros x Hx; cbn in Hx |- *; tauto).
  assert (Hnw : ascii_next (w ++ more)).
  { destruct w as [|c2 w2]; [exact (head_not_ascii_next _ more Hm)|]. inversion Hw as [|? ? [Hc2 _] _]; subst. exact Hc2. }
  assert (Hw10 : run_of p_wsnl (10 :: w)) by (constructor; [split; [unfold ascii; lia | reflexivity] | exact Hw]).
  eapply E_ref; [exact H60|]. apply E_choice.
  eapply C_next.
  - (* __ ';' : the blanks and line breaks are consumed, then ';' is missing, and the position is restored *)
    apply E_seq.
    eapply S_ok; [exact (gap_free (10 :: w) more 60 o es [] Hw10 Hm6)|].
    refine (S_fail 60 _ _ _ _ _ _ _ _ _ (lit_fails 59 [] 60 more _ es _ _ Hm59)).
    repeat constructor; unfold ascii; lia.
  - eapply C_ok.
    apply E_seq.
    eapply S_ok; [exact (gap_inline [] (10 :: w ++ more) 60 o es [] ltac:(constructor)
                           (nl_head_not _ [32; 9; 13; 47] ltac:(repeat constructor; lia)))|].
    eapply S_ok; [eapply E_opt; exact (single_line_comment_fails 60 (10 :: w ++ more) _ es []
                                          (nl_head_not _ [47; 35] ltac:(repeat constructor; lia)))|].
    eapply S_ok; [exact (eol_ok 60 (w ++ more) _ es _ Hnw)|].
    apply S_nil.
Qed.

(** ** TypeDef (9):  typedef g1 base g2 name g3 '\n'  *)
Definition render_typedef (g1 base g2 name g3 : bytes) : bytes :=
  lit_typedef ++ g1 ++ base ++ g2 ++ name ++ g3 ++ [10].

Lemma typedef_rule : forall g1 base g2 c t g3 w more cr o es fr,
  run_of p_blank g1 -> is_base base -> run_of p_blank g2 -> g2 <> [] ->
  ascii c -> p_start c = true -> run_of p_cont t -> run_of p_blank g3 ->
  run_of p_wsnl w -> decl_follow more ->
  exists o', evals (CRef 9) cr
        (st_of (lit_typedef ++ g1 ++ base ++ g2 ++ (c :: t) ++ g3 ++ 10 :: w ++ more) o es) fr
        (Done true (VTypeDef (mktypedef None (c :: t) (PType base None None []) []))
              (st_of (w ++ more) o' es) fr).
Proof.
  intros g1 base g2 c t g3 w more cr o es fr Hg1 Hb Hg2 Hg2n Hc Hp Ht Hg3 Hw Hm.
  destruct shapes as (_ & _ & _ & H9 & _).
  eexists. eapply E_ref; [exact H9|]. eapply E_act_ok.
  - apply E_seq.
    (* "typedef" *)
    eapply S_ok.
    { pose proof (E_lit_at lit_typedef 9 (lit_typedef ++ g1 ++ base ++ g2 ++ (c :: t) ++ g3 ++ 10 :: w ++ more) o es []) as H.
      unfold lit_typedef in H at 2 3 4 5. cbn [app has_prefix skipn List.length lit_typedef] in H.
      repeat rewrite Z.eqb_refl in H. cbn [andb] in H.
      apply H.
      - cbn [lit_ascii_ok lit_typedef app].
        assert (Hn : ascii_next (g1 ++ base ++ g2 ++ (c :: t) ++ g3 ++ 10 :: w ++ more))
          by exact (run_app_ascii_next p_blank g1 _ Hg1 (head_not_ascii_next _ _ (base_head_not base _ Hb))).
        lit_ok Hn.
      - unfold lit_typedef. repeat constructor; unfold ascii; lia. }
    (* _ *)
    eapply S_ok; [exact (gap_inline g1 _ 9 _ es _ Hg1 (base_head_not base _ Hb))|].
    (* typ:FieldType *)
    eapply S_ok; [apply E_label_ok with (fr1 := []);
                  exact (field_type_base base g2 ((c :: t) ++ g3 ++ 10 :: w ++ more) 9 _ es [] Hb Hg2
                           (start_head_not c _ Hc Hp) (blanks_stop g2 _ Hg2 Hg2n))|].
    (* _ (nothing left to skip) *)
    eapply S_ok.
    { refine (gap_inline [] ((c :: t) ++ g3 ++ 10 :: w ++ more) 9 _ es _ ltac:(constructor) _).
      eapply head_not_sub; [|exact (start_head_not c (t ++ g3 ++ 10 :: w ++ more) Hc Hp)].
      intros x Hx; cbn in Hx |- *; tauto. }
    (* name:Identifier *)
    eapply S_ok.
    { apply E_label_ok with (fr1 := []). apply (E_of_bound (List.length t + 12)). intros f Hf.
      exact (identifier_rule c t (g3 ++ 10 :: w ++ more) f 9 _ es [] Hc Hp Ht
               (blank_then_nl_stops g3 (w ++ more) Hg3) Hf). }
    (* _ *)
    eapply S_ok; [exact (gap_inline g3 (10 :: w ++ more) 9 _ es _ Hg3 (nl_head_not _ [32; 9; 13; 47] ltac:(repeat constructor; lia)))|].
    (* annotations? *)
    eapply S_ok; [exact (anns_opt_nil 9 (10 :: w ++ more) _ es _ (nl_head_not _ [40] ltac:(repeat constructor; lia)))|].
    (* EOS *)
    eapply S_ok; [exact (eos_newline w more 9 _ es _ Hw Hm)|].
    apply S_nil.
  - reflexivity.
Qed.

(** ** FrugalStatement (3) and Statement (2) on a typedef *)
Record td_spec := mk_td { td_g1 : bytes; td_base : bytes; td_g2 : bytes; td_c : Z; td_t : bytes;
                          td_g3 : bytes; td_w : bytes }.
Definition td_ok (d : td_spec) : Prop :=
  run_of p_blank (td_g1 d) /\ is_base (td_base d) /\ run_of p_blank (td_g2 d) /\ td_g2 d <> []
  /\ ascii (td_c d) /\ p_start (td_c d) = true /\ run_of p_cont (td_t d) /\ run_of p_blank (td_g3 d)
  /\ run_of p_wsnl (td_w d).
Definition render_one (d : td_spec) (more : bytes) : bytes :=
  lit_typedef ++ td_g1 d ++ td_base d ++ td_g2 d ++ (td_c d :: td_t d) ++ td_g3 d ++ 10 :: td_w d ++ more.
Fixpoint render_all (ds : list td_spec) : bytes :=
  match ds with [] => [] | d :: r => render_one d (render_all r) end.
Definition typedef_of (d : td_spec) : typedef :=
  mktypedef None (td_c d :: td_t d) (PType (td_base d) None None []) [].
Definition stmt_val (d : td_spec) : val :=
  VList [VWrapper None (VTypeDef (typedef_of d)); VList (bytes_vals (td_w d))].

Lemma render_all_follow : forall ds, decl_follow (render_all ds).
Proof.
  intros [|d r]; [exact I|]. unfold decl_follow. cbn [render_all]. unfold render_one, lit_typedef. cbn [app].
  split; [unfold ascii; lia | repeat constructor; lia].
Qed.

Lemma t_head_not : forall s cs, Forall (fun c => 116 <> c) cs -> head_not cs (116 :: s).
Proof. intros. split; [unfold ascii; lia | assumption]. Qed.

Lemma statement_typedef : forall d more cr o es fr,
  td_ok d -> decl_follow more ->
  exists o', evals (CRef 2) cr (st_of (render_one d more) o es) fr
                   (Done true (VWrapper None (VTypeDef (typedef_of d))) (st_of (td_w d ++ more) o' es) fr).
Proof.
  intros d more cr o es fr (Hg1 & Hb & Hg2 & Hg2n & Hc & Hp & Ht & Hg3 & Hw) Hm.
  destruct shapes as (_ & H2 & H3 & _).
  destruct keyword_rules as (K4 & K5 & K6 & K7 & _).
  destruct (typedef_rule (td_g1 d) (td_base d) (td_g2 d) (td_c d) (td_t d) (td_g3 d) (td_w d) more 3 o es []
                         Hg1 Hb Hg2 Hg2n Hc Hp Ht Hg3 Hw Hm) as [o' Htd].
  exists o'. unfold render_one in *.
  assert (Hk : forall c, 116 <> c ->
     head_not [c] (lit_typedef ++ td_g1 d ++ td_base d ++ td_g2 d ++ (td_c d :: td_t d) ++ td_g3 d ++ 10 :: td_w d ++ more)).
  { intros c Hne. unfold lit_typedef. cbn [app]. apply t_head_not. repeat constructor; exact Hne. }
  eapply E_ref; [exact H2|]. eapply E_act_ok.
  - apply E_seq.
    eapply S_ok; [exact (doc_opt_nil 2 _ o es [] (Hk 47 ltac:(lia)))|].
    eapply S_ok.
    { apply E_label_ok with (fr1 := []). eapply E_ref; [exact H3|]. apply E_choice.
      eapply C_next; [exact (keyword_rule_fails 4 _ _ 3 _ o es [] K4 (Hk 105 ltac:(lia)))|].
      eapply C_next; [exact (keyword_rule_fails 5 _ _ 3 _ o es [] K5 (Hk 110 ltac:(lia)))|].
      eapply C_next; [exact (keyword_rule_fails 6 _ _ 3 _ o es [] K6 (Hk 99 ltac:(lia)))|].
      eapply C_next; [exact (keyword_rule_fails 7 _ _ 3 _ o es [] K7 (Hk 101 ltac:(lia)))|].
      eapply C_ok. exact Htd. }
    apply S_nil.
  - reflexivity.
Qed.

(** at the end of the input no statement starts *)
Lemma statement_fails_eof : forall cr o es fr,
  evals (CRef 2) cr (st_of [] o es) fr (Done false VNil (st_of [] o es) fr).
Proof.
  intros cr o es fr. destruct shapes as (_ & H2 & H3 & _).
  destruct keyword_rules as (K4 & K5 & K6 & K7 & K9 & K10 & K11 & K12 & K17 & _ & (more38 & K38)).
  assert (Hscope : evals (CRef 38) 3 (st_of [] o es) [] (Done false VNil (st_of [] o es) [])).
  { (* Scope: its own optional doc comment, then the keyword *)
    eapply E_ref; [exact K38|]. apply E_act_fail. apply E_seq.
    eapply S_ok; [exact (doc_opt_nil 38 [] o es [] I)|].
    refine (S_fail 38 _ _ _ _ _ _ _ _ _ (lit_fails 115 [99; 111; 112; 101] 38 [] o es _ _ I)).
    repeat constructor; unfold ascii; lia. }
  assert (Hfs : evals (CLabel "statement" (CRef 3)) 2 (st_of [] o es) [("docstr"%string, VNil)]
                      (Done false VNil (st_of [] o es) [("docstr"%string, VNil)])).
  { apply E_label_fail with (fr1 := []). eapply E_ref; [exact H3|]. apply E_choice.
    eapply C_next; [exact (keyword_rule_fails 4 _ _ 3 [] o es [] K4 I)|].
    eapply C_next; [exact (keyword_rule_fails 5 _ _ 3 [] o es [] K5 I)|].
    eapply C_next; [exact (keyword_rule_fails 6 _ _ 3 [] o es [] K6 I)|].
    eapply C_next; [exact (keyword_rule_fails 7 _ _ 3 [] o es [] K7 I)|].
    eapply C_next; [exact (keyword_rule_fails 9 _ _ 3 [] o es [] K9 I)|].
    eapply C_next; [exact (keyword_rule_fails 10 _ _ 3 [] o es [] K10 I)|].
    eapply C_next; [exact (keyword_rule_fails 11 _ _ 3 [] o es [] K11 I)|].
    eapply C_next; [exact (keyword_rule_fails 12 _ _ 3 [] o es [] K12 I)|].
    eapply C_next; [exact (keyword_rule_fails 17 _ _ 3 [] o es [] K17 I)|].
    eapply C_next; [exact Hscope | apply C_nil]. }
  eapply E_ref; [exact H2|]. apply E_act_fail. apply E_seq.
  eapply S_ok; [exact (doc_opt_nil 2 [] o es [] I)|].
  exact (S_fail 2 _ _ _ _ _ _ _ _ _ Hfs).
Qed.

(** ** the statement loop of the Grammar rule *)
Lemma statements_loop : forall ds o es fr acc,
  Forall td_ok ds ->
  exists o', loops (CSeq [CRef 2; CRef 55]) 0 (st_of (render_all ds) o es) fr acc
                   (Done true (VList (rev acc ++ map stmt_val ds)) (st_of [] o' es) fr).
Proof.
  induction ds as [|d r IH]; intros o es fr acc Hall.
  - exists o. cbn [render_all map]. rewrite app_nil_r.
    eapply L_stop. apply E_seq.
    exact (S_fail 0 _ _ _ _ _ _ _ _ _ (statement_fails_eof 0 o es [])).
  - inversion Hall as [|d' r' Hd Hr]; subst.
    destruct (statement_typedef d (render_all r) 0 o es [] Hd (render_all_follow r)) as [o1 Hst].
    assert (Hw : run_of p_wsnl (td_w d)) by (destruct Hd as (_ & _ & _ & _ & _ & _ & _ & _ & Hw); exact Hw).
    assert (Hf6 : head_not [32; 9; 13; 10; 47; 35] (render_all r)).
    { eapply head_not_sub; [|exact (render_all_follow r)]. intros x Hx; cbn in Hx |- *; tauto. }
    destruct (IH (o1 + Z.of_nat (List.length (td_w d))) es fr (stmt_val d :: acc) Hr) as [o' Hloop].
    exists o'. cbn [render_all].
    eapply L_step.
    + apply E_seq.
      eapply S_ok; [exact Hst|].
      eapply S_ok; [exact (gap_free (td_w d) (render_all r) 0 o1 es [] Hw Hf6)|].
      apply S_nil.
    + cbn [rev map] in Hloop |- *. rewrite <- app_assoc in Hloop. exact Hloop.
Qed.

(** ** the Grammar action on a list of typedef statements *)
Definition with_typedefs (f : frugal) (tds : list typedef) : frugal :=
  mkfrugal (fr_includes f) (fr_namespaces f) tds (fr_constants f) (fr_enums f) (fr_structs f)
           (fr_exceptions f) (fr_unions f) (fr_services f) (fr_scopes f).

Lemma add_statements_typedefs : forall ds f,
  add_statements (map stmt_val ds) f = Some (inl (with_typedefs f (fr_typedefs f ++ map typedef_of ds))).
Proof.
  induction ds as [|d r IH]; intros f.
  - cbn [map add_statements]. rewrite app_nil_r. destruct f; reflexivity.
  - cbn [map]. unfold stmt_val at 1. cbn [add_statements first_of as_list idx nth_error obind].
    rewrite IH. unfold with_typedefs. cbn [fr_includes fr_namespaces fr_typedefs fr_constants fr_enums fr_structs
                                           fr_exceptions fr_unions fr_services fr_scopes].
    rewrite <- app_assoc. reflexivity.
Qed.

Definition typedefs_only (tds : list typedef) : frugal := mkfrugal [] [] tds [] [] [] [] [] [] [].

Lemma initial_state_ascii : forall input, ascii_next input -> initial_state aerr input = st_of input 0 [].
Proof.
  intros [|c s] H; [reflexivity|]. unfold initial_state. rewrite (decode_ascii c s H).
  rewrite (ascii_not_error c H). reflexivity.
Qed.

(** the whole Grammar rule on leading blanks followed by typedef statements *)
Lemma grammar_typedefs : forall w0 ds,
  run_of p_wsnl w0 -> Forall td_ok ds ->
  exists body o', nth_error rules 0 = Some body
    /\ evals body 0 (st_of (w0 ++ render_all ds) 0 []) []
             (Done true (VFrugal (typedefs_only (map typedef_of ds))) (st_of [] o' [])
                   [("statements"%string, VList (map stmt_val ds))]).
Proof.
  intros w0 ds Hw0 Hall. destruct shapes as (H0 & _ & _ & _ & _ & _ & _ & _ & _ & _ & _ & _ & _ & _ & _ & _ & _ & H61).
  assert (Hf6 : head_not [32; 9; 13; 10; 47; 35] (render_all ds)).
  { eapply head_not_sub; [|exact (render_all_follow ds)]. intros x Hx; cbn in Hx |- *; tauto. }
  destruct (statements_loop ds (0 + Z.of_nat (List.length w0)) [] [] [] Hall) as [o' Hloop].
  eexists. exists o'. split; [exact H0|].
  eapply E_act_ok.
  - apply E_seq.
    eapply S_ok; [exact (gap_free w0 (render_all ds) 0 0 [] [] Hw0 Hf6)|].
    eapply S_ok; [apply E_label_ok with (fr1 := []); apply E_star; exact Hloop|].
    eapply S_ok.
    { apply E_choice. eapply C_ok. eapply E_ref; [exact H61|].
      eapply (E_not CAny 61 _ [] false). apply E_any. reflexivity. }
    apply S_nil.
  - unfold finish_action, run_action, run_action_opt. cbn [fget find fst snd String.eqb Ascii.eqb Bool.eqb].
    cbn [app rev to_iface_slice obind]. rewrite add_statements_typedefs. reflexivity.
Qed.

(** ** parse (render m) = m for models made of typedefs of base types *)
Theorem roundtrip_typedefs : forall w0 ds,
  run_of p_wsnl w0 -> Forall td_ok ds ->
  parse_idl (w0 ++ render_all ds) = POk (typedefs_only (map typedef_of ds)).
Proof.
  intros w0 ds Hw0 Hall.
  destruct (grammar_typedefs w0 ds Hw0 Hall) as (body & o' & Hbody & [n Hev]).
  set (input := w0 ++ render_all ds) in *.
  assert (Hinit : initial_state aerr input = st_of input 0 []).
  { apply initial_state_ascii. unfold input.
    apply (run_app_ascii_next p_wsnl w0 _ Hw0). exact (head_not_ascii_next _ _ (render_all_follow ds)). }
  (* with n units of depth the parse succeeds with the expected tree *)
  assert (Hn : parse_with n input = PResult (inl (VFrugal (typedefs_only (map typedef_of ds))))).
  { unfold parse_with, p_parse, Peg.parse. rewrite Hbody, Hinit.
    change (Peg.eval action val aerr VNil VBytes VList run_action rules n body 0 (st_of input 0 []) [])
      with (ev n body 0%nat (st_of input 0 []) []).
    rewrite (Hev n (le_n n)). reflexivity. }
  (* the budget used by [parse_idl] is also sufficient, hence gives the same answer *)
  pose proof (parser_never_out_of_fuel input) as Hne. unfold parse_text in Hne.
  assert (Hnn : parse_with n input <> PFuel) by (rewrite Hn; discriminate).
  assert (Heq : parse_with (fuel_for input) input = parse_with n input).
  { exact (parse_fuel_irrelevant action val aerr VNil VBytes VList run_action rules (fuel_for input) n input Hne Hnn). }
  unfold parse_idl, parse_text. rewrite Heq, Hn. reflexivity.
Qed.
