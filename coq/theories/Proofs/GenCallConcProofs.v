(** Lemmas for the composition Model/GenCallConc.v (registry model x call model). *)
From Coq Require Import ZArith List Bool Lia Arith.
From FV Require Import Base.Res Base.Bytes Base.GoSem Model.Headers Model.Receivers Model.ThriftBin
     Model.GenCall Model.Registry Model.GenCallConc
     Proofs.BytesProofs Proofs.HeadersProofs Proofs.ThriftBinProofs Proofs.ThriftBinGoProofs Proofs.GenCallProofs Proofs.RegistryProofs.
Import ListNotations.
Open Scope Z_scope.

Lemma all_below_spec p : forall n, all_below n p = true -> forall j, (j < n)%nat -> p j = true.
Proof.
  induction n as [|k IH]; intros H j Hj; [lia|].
  cbn [all_below] in H. apply andb_prop in H. destruct H as [Hk Hr].
  destruct (Nat.eq_dec j k) as [->|Hne]; [exact Hk|]. apply IH; [exact Hr|lia].
Qed.

Lemma frame_eqb_eq a b : frame_eqb a b = true -> a = b.
Proof.
  unfold frame_eqb. intros H. apply andb_prop in H. destruct H as [H1 H2].
  apply Z.eqb_eq in H1. apply Z.eqb_eq in H2. destruct a, b. cbn in *. subst. reflexivity.
Qed.

Section Conc.
Variables (cd : codec) (fuel : nat) (e : env) (pm : list (bytes * method)) (calls : nat -> ccall).

Local Notation call_op := (call_op calls).
Local Notation alone := (alone cd fuel e pm calls).
Local Notation server_reply := (server_reply cd fuel e pm calls).
Local Notation reply_frame := (reply_frame cd fuel e pm calls).
Local Notation frame_content := (frame_content cd fuel e pm calls).

Lemma is_reply_frame_spec f : forall n,
  is_reply_frame cd fuel e pm calls n f = true -> exists j, (j < n)%nat /\ reply_frame j = Some f.
Proof.
  induction n as [|k IH]; cbn [is_reply_frame]; [discriminate|].
  destruct (reply_frame k) as [g|] eqn:Eg.
  - intros H. apply orb_prop in H. destruct H as [H|H].
    + apply frame_eqb_eq in H. subst g. exists k. split; [lia|exact Eg].
    + destruct (IH H) as (j & Hj & Hr). exists j. split; [lia|exact Hr].
  - intros H. destruct (IH H) as (j & Hj & Hr). exists j. split; [lia|exact Hr].
Qed.

(** a reply frame carries the index of its call, its content is that call's reply, and Execute read
    its op id from that reply *)
Lemma reply_frame_inv j f :
  reply_frame j = Some f ->
  exists r, server_reply j = Some r /\ execute_frame (frame_of r) = Ok (f_op f) /\ frame_content f = Some r.
Proof.
  unfold GenCallConc.reply_frame. destruct (server_reply j) as [r|] eqn:Er; [|discriminate].
  destruct (execute_frame (frame_of r)) as [op| | |] eqn:Ex; try discriminate.
  intros H. injection H as <-. exists r. split; [reflexivity|]. split; [exact Ex|].
  unfold GenCallConc.frame_content. cbn [f_tag f_op].
  destruct (Z.of_nat j <? 0) eqn:E; [apply Z.ltb_lt in E; lia|].
  rewrite Nat2Z.id. exact Er.
Qed.

(** delivered alone: Execute reads exactly the caller's op id *)
Lemma delivered_alone_op j r op :
  delivered_aloneb cd fuel e pm calls j = true -> server_reply j = Some r ->
  execute_frame (frame_of r) = Ok op -> op = call_op j /\ 0 <= op.
Proof.
  unfold delivered_aloneb, GenCallConc.call_op. intros Hd Hr Hx. rewrite Hr in Hd.
  unfold reply_reaches_caller in Hd. rewrite Hx in Hd.
  destruct (parse_uint64 (lookup_default opid_header (cc_hdrs (calls j)))) as [mine|] eqn:Ep; [|discriminate].
  apply Z.eqb_eq in Hd. subst mine. split; [reflexivity|].
  unfold parse_uint64 in Ep. destruct (lookup_default opid_header (cc_hdrs (calls j))) as [|c s]; [discriminate|].
  destruct (parse_digits (c :: s) 0) as [v|] eqn:Epd; [|discriminate].
  destruct (v <? 18446744073709551616); [|discriminate]. injection Ep as <-.
  assert (Hnn : forall s acc v, 0 <= acc -> parse_digits s acc = Some v -> 0 <= v).
  { clear. induction s as [|c s IH]; intros acc v Ha H; cbn [parse_digits] in H.
    - injection H as <-. exact Ha.
    - destruct ((48 <=? c) && (c <=? 57)) eqn:E; [|discriminate].
      apply andb_prop in E. destruct E as [E1 E2]. apply Z.leb_le in E1. apply Z.leb_le in E2.
      apply (IH (acc * 10 + (c - 48)) v); [lia|exact H]. }
  apply (Hnn (c :: s) 0 v); [lia|exact Epd].
Qed.

(** the call made alone, spelled out: the server's reply for it is what it decodes *)
Lemma alone_of_server_reply i r :
  m_oneway (cc_m (calls i)) = false ->
  server_reply i = Some r ->
  reply_reaches_caller true (cc_hdrs (calls i)) r = true ->
  exists log, alone i = Ok (process_reply_c cd fuel e (cc_m (calls i)) r, log, Some r).
Proof.
  unfold GenCallConc.server_reply, GenCallConc.alone, rpc_call_c. intros Hw Hr Hreach.
  destruct (client_prepare_c cd e (cc_m (calls i)) (cc_hdrs (calls i)) (cc_args (calls i))) as [req| | |]; try discriminate.
  destruct (unframe (frame_of req)) as [payload| | |]; try discriminate. cbn [bind].
  destruct (server_process_c cd fuel e pm (cc_h (calls i)) payload) as [[out log]| | |]; try discriminate.
  subst out. cbn [bind]. rewrite Hw. rewrite Hreach. exists log. reflexivity.
Qed.

(** * Independence: in every interleaving a caller that Request hands a frame decodes the reply to
      its own call, i.e. gets the outcome of the same call made alone *)
Theorem concurrent_calls_independent tk b dl n evs s i f :
  distinct_ops call_op n ->
  all_below n (delivered_aloneb cd fuel e pm calls) = true ->
  run tk b (init call_op dl n) evs = Some s ->
  net_okb cd fuel e pm calls tk n evs = true ->
  (i < n)%nat -> m_oneway (cc_m (calls i)) = false ->
  c_phase (callers s i) = CDone (OOk f) ->
  exists c, conc_outcome cd fuel e pm calls i (OOk f) = Some c /\ alone_outcome cd fuel e pm calls i = Some c.
Proof.
  intros Hdist Hdel Hrun Hnet Hi Hw Hdone.
  destruct (own_response_arrived tk b call_op dl (fun _ => DNormal) n evs s i f Hrun Hdone) as (Hop & Hin & Hna).
  unfold net_okb in Hnet. rewrite forallb_forall in Hnet. specialize (Hnet f Hin).
  unfold arrival_okb in Hnet.
  assert (Hrf : is_reply_frame cd fuel e pm calls n f = true).
  { apply orb_prop in Hnet. destruct Hnet as [H|H]; [exact H|].
    destruct tk; [discriminate|]. rewrite (Hna eq_refl) in H. discriminate. }
  destruct (is_reply_frame_spec f n Hrf) as (j & Hj & Hfr).
  destruct (reply_frame_inv j f Hfr) as (r & Hsr & Hex & Hfc).
  pose proof (all_below_spec _ n Hdel j Hj) as Hdj.
  destruct (delivered_alone_op j r (f_op f) Hdj Hsr Hex) as [Hopj _].
  assert (Hji : j = i).
  { apply Hdist; [exact Hj|exact Hi|]. rewrite <- Hopj. exact Hop. }
  subst j.
  assert (Hreach : reply_reaches_caller true (cc_hdrs (calls i)) r = true).
  { unfold delivered_aloneb in Hdj. rewrite Hsr in Hdj. exact Hdj. }
  destruct (alone_of_server_reply i r Hw Hsr Hreach) as (log & Hal).
  exists (process_reply_c cd fuel e (cc_m (calls i)) r). split.
  - unfold conc_outcome. rewrite Hfc. reflexivity.
  - unfold alone_outcome. rewrite Hal. reflexivity.
Qed.

(** ... and nobody else's: the frame Request returned is the reply to call [i] itself *)
Theorem concurrent_calls_own_reply tk b dl n evs s i f :
  distinct_ops call_op n ->
  all_below n (delivered_aloneb cd fuel e pm calls) = true ->
  run tk b (init call_op dl n) evs = Some s ->
  net_okb cd fuel e pm calls tk n evs = true ->
  (i < n)%nat ->
  c_phase (callers s i) = CDone (OOk f) ->
  reply_frame i = Some f.
Proof.
  intros Hdist Hdel Hrun Hnet Hi Hdone.
  destruct (own_response_arrived tk b call_op dl (fun _ => DNormal) n evs s i f Hrun Hdone) as (Hop & Hin & Hna).
  unfold net_okb in Hnet. rewrite forallb_forall in Hnet. specialize (Hnet f Hin).
  unfold arrival_okb in Hnet.
  assert (Hrf : is_reply_frame cd fuel e pm calls n f = true).
  { apply orb_prop in Hnet. destruct Hnet as [H|H]; [exact H|].
    destruct tk; [discriminate|]. rewrite (Hna eq_refl) in H. discriminate. }
  destruct (is_reply_frame_spec f n Hrf) as (j & Hj & Hfr).
  destruct (reply_frame_inv j f Hfr) as (r & Hsr & Hex & Hfc).
  pose proof (all_below_spec _ n Hdel j Hj) as Hdj.
  destruct (delivered_alone_op j r (f_op f) Hdj Hsr Hex) as [Hopj _].
  assert (Hji : j = i).
  { apply Hdist; [exact Hj|exact Hi|]. rewrite <- Hopj. exact Hop. }
  subst j. exact Hfr.
Qed.

(** read back from the result of the call made alone *)
Lemma alone_inv i c log r :
  m_oneway (cc_m (calls i)) = false ->
  alone i = Ok (c, log, Some r) -> c <> CTimeout ->
  server_reply i = Some r /\ reply_reaches_caller true (cc_hdrs (calls i)) r = true.
Proof.
  unfold GenCallConc.server_reply, GenCallConc.alone, rpc_call_c. intros Hw Hal Hc.
  destruct (client_prepare_c cd e (cc_m (calls i)) (cc_hdrs (calls i)) (cc_args (calls i))) as [req| | |]; try discriminate.
  destruct (unframe (frame_of req)) as [payload| | |]; try discriminate. cbn [bind] in Hal.
  destruct (server_process_c cd fuel e pm (cc_h (calls i)) payload) as [[out log']| | |]; try discriminate.
  cbn [bind] in Hal. rewrite Hw in Hal.
  destruct out as [reply|]; [|discriminate].
  destruct (reply_reaches_caller true (cc_hdrs (calls i)) reply) eqn:Er.
  + injection Hal as _ _ <-. split; reflexivity || exact Er.
  + injection Hal as <- _ _. contradiction.
Qed.

End Conc.

(** a bound that serves finitely many calls *)
Lemma uniform_fuel (P : nat -> nat -> Prop) : forall n,
  (forall j, (j < n)%nat -> exists f0, forall fuel, (f0 <= fuel)%nat -> P j fuel) ->
  exists f0, forall fuel, (f0 <= fuel)%nat -> forall j, (j < n)%nat -> P j fuel.
Proof.
  induction n as [|k IH]; intros H.
  - exists 0%nat. intros fuel _ j Hj. lia.
  - destruct IH as (f1 & H1); [intros j Hj; apply H; lia|].
    destruct (H k) as (f2 & H2); [lia|].
    exists (f1 + f2)%nat. intros fuel Hf j Hj.
    destruct (Nat.eq_dec j k) as [->|Hne]; [apply H2; lia|apply H1; lia].
Qed.

Lemma all_below_intro p : forall n, (forall j, (j < n)%nat -> p j = true) -> all_below n p = true.
Proof.
  induction n as [|k IH]; intros H; [reflexivity|]. cbn [all_below].
  rewrite (H k) by lia. apply IH. intros j Hj. apply H. lia.
Qed.

Lemma map_outcome_not_timeout e m o : map_outcome e m o <> CTimeout.
Proof.
  destruct o as [ov|n v t|k t|t]; cbn [map_outcome]; try discriminate.
  - destruct (find_throw e n (m_throws m)); discriminate.
  - destruct (k =? AE_RESPONSE_TOO_LARGE); discriminate.
Qed.

(** * N well-formed concurrent calls with pairwise distinct op ids: in every interleaving every caller
      that gets a frame gets [map_outcome] of its own handler outcome *)
Theorem concurrent_calls_faithful cd (cd_ok : codec_ok cd) e pm calls n :
  distinct_ops (call_op calls) n ->
  (forall j, (j < n)%nat ->
     let c := calls j in
     exists opid,
       plookup (m_wire (cc_m c)) pm = Some (cc_m c) /\
       m_oneway (cc_m c) = false /\
       header_size (cc_hdrs c) < 2147483648 /\ Headers.lookup opid_header (cc_hdrs c) = Some opid /\
       header_size (response_headers (to_map (cc_hdrs c)) opid) < 2147483648 /\
       zlen (m_wire (cc_m c)) < 2147483648 /\
       gwf e (TRef (m_args (cc_m c))) (VStruct (cc_args c)) /\
       outcome_ok e (cc_m c) (cc_h c (m_wire (cc_m c)) (cc_args c)) /\
       (exists k, parse_uint64 opid = Some k) /\
       (forall reply, respond_c cd e (response_headers (to_map (cc_hdrs c)) opid) (cc_m c)
                                (cc_h c (m_wire (cc_m c)) (cc_args c)) = Ok (Some reply) ->
                      zlen reply < 2147483648)) ->
  exists fuel0, forall fuel, (fuel0 <= fuel)%nat ->
    forall tk b dl evs s i f,
      run tk b (init (call_op calls) dl n) evs = Some s ->
      net_okb cd fuel e pm calls tk n evs = true ->
      (i < n)%nat -> c_phase (callers s i) = CDone (OOk f) ->
      conc_outcome cd fuel e pm calls i (OOk f) =
      Some (map_outcome e (cc_m (calls i)) (cc_h (calls i) (m_wire (cc_m (calls i))) (cc_args (calls i)))).
Proof.
  intros Hdist Hwf.
  destruct (uniform_fuel
              (fun j fuel => exists reply,
                   alone cd fuel e pm calls j =
                   Ok (map_outcome e (cc_m (calls j)) (cc_h (calls j) (m_wire (cc_m (calls j))) (cc_args (calls j))),
                       [(m_wire (cc_m (calls j)), cc_args (calls j))], Some reply)) n) as (fuel0 & Hall).
  { intros j Hj. destruct (Hwf j Hj) as (opid & Hpm & Hw & Hs & Ho & Hrh & Hn & Hg & Hok & Hp & Hsz).
    unfold alone.
    apply (call_faithful cd cd_ok e pm (cc_h (calls j)) true (cc_m (calls j)) (cc_hdrs (calls j)) opid (cc_args (calls j)));
      try assumption.
    intros _. split; assumption. }
  exists fuel0. intros fuel Hf tk b dl evs s i f Hrun Hnet Hi Hdone.
  assert (Hw : forall j, (j < n)%nat -> m_oneway (cc_m (calls j)) = false).
  { intros j Hj. destruct (Hwf j Hj) as (opid & _ & Hw & _). exact Hw. }
  assert (Hdel : all_below n (delivered_aloneb cd fuel e pm calls) = true).
  { apply all_below_intro. intros j Hj. destruct (Hall fuel Hf j Hj) as (reply & Hal).
    destruct (alone_inv cd fuel e pm calls j _ _ reply (Hw j Hj) Hal (map_outcome_not_timeout _ _ _)) as [Hsr Hreach].
    unfold delivered_aloneb. rewrite Hsr. exact Hreach. }
  destruct (concurrent_calls_independent cd fuel e pm calls tk b dl n evs s i f Hdist Hdel Hrun Hnet Hi (Hw i Hi) Hdone)
    as (c & Hc & Hal).
  rewrite Hc. destruct (Hall fuel Hf i Hi) as (reply & Hal').
  unfold alone_outcome in Hal. rewrite Hal' in Hal. injection Hal as <-. reflexivity.
Qed.
