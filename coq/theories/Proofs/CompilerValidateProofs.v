(** Proofs about Model/CompilerValidate.v (C11: validation pass and include resolution):
    totality with explicit fuel bounds, and the facts the generators rely on after validation. *)
From Coq Require Import String ZArith List Bool Lia.
From FV Require Import Base.Res Model.ParserStrings Model.ParserAst Model.Parser Model.ParserFsys
     Model.CompilerValidate Proofs.CompilerTotalProofs.
From FV Require Model.CompilerTotal.
Import ListNotations.
Open Scope Z_scope.

(** * Basics *)
Lemma beqb_eq a : forall b, beqb a b = true -> a = b.
Proof.
  induction a as [|x a IH]; intros [|y b] H; cbn [beqb] in H; try discriminate; [reflexivity|].
  apply andb_true_iff in H. destruct H as [Hx Hr]. apply Z.eqb_eq in Hx. subst y. f_equal. exact (IH b Hr).
Qed.
Lemma beqb_refl a : beqb a a = true.
Proof. induction a as [|x a IH]; cbn [beqb]; [reflexivity|]. rewrite Z.eqb_refl, IH. reflexivity. Qed.
Lemma existsb_beqb_false x l : existsb (beqb x) l = false -> ~ In x l.
Proof.
  intros H Hin. assert (existsb (beqb x) l = true) as E; [|congruence].
  apply existsb_exists. exists x. split; [assumption|apply beqb_refl].
Qed.
Lemma existsb_beqb_true x l : existsb (beqb x) l = true -> In x l.
Proof.
  intros H. apply existsb_exists in H as (y & Hy & E). apply beqb_eq in E. subst y. assumption.
Qed.

Definition vgraceful (r : vr) : Prop := match r with ROk | RErr _ => True | _ => False end.
Lemma vgraceful_res r : vgraceful r <-> graceful (vr_res r).
Proof. destruct r; cbn; tauto. Qed.

Lemma rand_ok a b : rand a b = ROk -> a = ROk /\ b tt = ROk.
Proof. destruct a; cbn; intros H; try discriminate. auto. Qed.
Lemma rall_ok {X} (p : X -> vr) l : rall p l = ROk -> forall x, In x l -> p x = ROk.
Proof.
  induction l as [|y l IH]; cbn [rall]; intros H x Hin; [destruct Hin|].
  apply rand_ok in H as [H1 H2]. destruct Hin as [->|Hin]; auto.
Qed.
Lemma rand_graceful a b : vgraceful a -> (a = ROk -> vgraceful (b tt)) -> vgraceful (rand a b).
Proof. destruct a; cbn; auto. Qed.
Lemma rall_graceful {X} (p : X -> vr) l : (forall x, In x l -> vgraceful (p x)) -> vgraceful (rall p l).
Proof.
  induction l as [|y l IH]; intros H; cbn [rall]; [exact I|].
  apply rand_graceful; [apply H; left; reflexivity|]. intros _. apply IH. intros x Hx. apply H. right. exact Hx.
Qed.

(** * The name loops *)
Lemma check_names_graceful dup conf l : forall seen,
  (forall n, In n l -> n <> []) -> vgraceful (check_names dup conf seen l).
Proof.
  induction l as [|n l IH]; intros seen H; cbn [check_names]; [exact I|].
  unfold name_step. destruct n as [|c n]; [exfalso; apply (H []); [left; reflexivity|reflexivity]|].
  cbn [lc_first]. destruct (assoc_b _ seen); [exact I|]. apply IH. intros m Hm. apply H. right. exact Hm.
Qed.

Definition service_names_ok (s : service) : Prop :=
  sv_name s <> [] /\ forall m, In m (sv_methods s) -> m_name m <> [].
Definition scope_names_ok (s : scope) : Prop :=
  sc_name s <> [] /\ forall o, In o (sc_ops s) -> o_name o <> [].

Lemma check_services_graceful l : forall seen,
  (forall s, In s l -> service_names_ok s) -> vgraceful (check_services seen l).
Proof.
  induction l as [|s l IH]; intros seen H; cbn [check_services]; [exact I|].
  destruct (H s (or_introl eq_refl)) as [Hn Hm].
  unfold name_step. destruct (sv_name s) as [|c n]; [congruence|]. cbn [lc_first].
  destruct (assoc_b _ seen); [exact I|].
  apply rand_graceful.
  - apply check_names_graceful. intros n0 Hin. apply in_map_iff in Hin as (m & <- & Hin). auto.
  - intros _. apply IH. intros s' Hs'. apply H. right. exact Hs'.
Qed.
Lemma check_scopes_graceful l : forall seen,
  (forall s, In s l -> scope_names_ok s) -> vgraceful (check_scopes seen l).
Proof.
  induction l as [|s l IH]; intros seen H; cbn [check_scopes]; [exact I|].
  destruct (H s (or_introl eq_refl)) as [Hn Hm].
  unfold name_step. destruct (sc_name s) as [|c n]; [congruence|]. cbn [lc_first].
  destruct (assoc_b _ seen); [exact I|].
  apply rand_graceful.
  - apply check_names_graceful. intros n0 Hin. apply in_map_iff in Hin as (m & <- & Hin). auto.
  - intros _. apply IH. intros s' Hs'. apply H. right. exact Hs'.
Qed.

Lemma check_namespaces_graceful l : vgraceful (check_namespaces l).
Proof. unfold check_namespaces. apply rall_graceful. intros n _. destruct (_ && _); exact I. Qed.
Lemma check_includes_graceful l : forall seen, vgraceful (check_includes seen l).
Proof. induction l as [|i l IH]; intros seen; cbn [check_includes]; [exact I|]. destruct (existsb _ seen); [exact I|apply IH]. Qed.

Lemma check_identifier_graceful f incs name : vgraceful (check_identifier f incs name).
Proof.
  unfold check_identifier.
  destruct (split_on 46 name []) as [|a [|b [|c [|d l]]]]; try exact I.
  - destruct (has_constant f name); exact I.
  - destruct (has_enum_value f a b); [exact I|].
    destruct (if beqb a [] then Some f else option_map ft_frugal (inc_get incs a)) as [fr|]; [|exact I].
    destruct (has_constant fr b); exact I.
  - destruct (option_map ft_frugal (inc_get incs a)) as [fr|]; [|exact I].
    destruct (has_enum_value fr b c); exact I.
Qed.
Lemma check_constant_graceful f incs rf c : vgraceful (check_constant f incs rf c).
Proof.
  unfold check_constant. destruct (negb _); [exact I|].
  destruct (c_value c); try exact I. apply check_identifier_graceful.
Qed.

(** * The marking loop of validateTypedefs *)

Definition okset (rf : CompilerTotal.frugal) (r : list bytes) : Prop :=
  NoDup r /\ incl r (map fst (CompilerTotal.typedefs rf)).

Lemma mark_step_ext rf r n :
  okset rf r -> exists pre, CompilerTotal.mark_step rf r n = pre ++ r /\ okset rf (CompilerTotal.mark_step rf r n).
Proof.
  intros [Hnd Hincl]. unfold CompilerTotal.mark_step.
  destruct (CompilerTotal.mem n r) eqn:M; [exists []; split; [reflexivity|split; assumption]|].
  destruct (CompilerTotal.lookup_last n (CompilerTotal.typedefs rf)) as [target|] eqn:L; [|exists []; split; [reflexivity|split; assumption]].
  destruct (CompilerTotal.typedefs_resolved rf r target); [|exists []; split; [reflexivity|split; assumption]].
  exists [n]. split; [reflexivity|]. split.
  - constructor; [|assumption]. intros Hin. apply mem_In in Hin. congruence.
  - intros x [<-|Hx]; [|auto]. apply lookup_last_In in L. apply in_map_iff. exists (n, target). auto.
Qed.
Lemma mark_fold_ext rf names : forall r,
  okset rf r -> exists pre, fold_left (CompilerTotal.mark_step rf) names r = pre ++ r
                            /\ okset rf (fold_left (CompilerTotal.mark_step rf) names r).
Proof.
  induction names as [|n names IH]; intros r H; cbn [fold_left]; [exists []; auto|].
  destruct (mark_step_ext rf r n H) as (p1 & E1 & H1).
  destruct (IH _ H1) as (p2 & E2 & H2).
  exists (p2 ++ p1). split; [|assumption]. rewrite E2, E1, app_assoc. reflexivity.
Qed.
Lemma mark_round_ext rf r :
  okset rf r -> exists pre, CompilerTotal.mark_round rf r = pre ++ r /\ okset rf (CompilerTotal.mark_round rf r).
Proof. unfold CompilerTotal.mark_round. apply mark_fold_ext. Qed.

Lemma iter_fixpoint {A} (g : A -> A) a : g a = a -> forall m, CompilerTotal.iter m g a = a.
Proof. intros H m. induction m as [|m IH]; cbn [CompilerTotal.iter]; [reflexivity|]. rewrite H. exact IH. Qed.

Lemma okset_length rf r : okset rf r -> (length r <= length (CompilerTotal.typedefs rf))%nat.
Proof. intros [Hnd Hincl]. pose proof (NoDup_incl_length Hnd Hincl) as H. rewrite map_length in H. exact H. Qed.

(** with fuel above the number of typedefs not yet marked, the loop [for progress] ends, and it
    ends with what [m] more passes give, for every [m] at least that number *)
Lemma mark_loop_iter rf : forall fuel r m,
  okset rf r ->
  (length (CompilerTotal.typedefs rf) - length r < fuel)%nat ->
  (length (CompilerTotal.typedefs rf) - length r <= m)%nat ->
  mark_loop fuel rf r = Some (CompilerTotal.iter m (CompilerTotal.mark_round rf) r).
Proof.
  induction fuel as [|fuel IH]; intros r m Hok Hf Hm; [lia|].
  cbn [mark_loop].
  destruct (mark_round_ext rf r Hok) as (pre & E & Hok').
  destruct (Nat.eqb_spec (length (CompilerTotal.mark_round rf r)) (length r)) as [Hl|Hl].
  - assert (pre = []) as ->.
    { rewrite E, app_length in Hl. destruct pre; [reflexivity|cbn in Hl; lia]. }
    cbn [app] in E. rewrite (iter_fixpoint _ _ E). rewrite E. reflexivity.
  - pose proof (okset_length _ _ Hok') as Hb.
    assert (length r < length (CompilerTotal.mark_round rf r))%nat as Hgrow.
    { rewrite E, app_length in *. destruct pre; cbn in *; lia. }
    unfold bytes, CompilerTotal.str in *.
    destruct m as [|m]; [lia|]. cbn [CompilerTotal.iter]. apply IH; [assumption|lia|lia].
Qed.

Lemma mark_loop_total rf fuel :
  (S (length (CompilerTotal.typedefs rf)) <= fuel)%nat -> mark_loop fuel rf [] = Some (CompilerTotal.mark_all rf).
Proof.
  intros H. unfold CompilerTotal.mark_all. apply mark_loop_iter.
  - split; [constructor|intros x []].
  - cbn [length]. lia.
  - cbn [length]. lia.
Qed.

Lemma reduce_typedefs_length f incs : length (CompilerTotal.typedefs (reduce f incs)) = length (fr_typedefs f).
Proof. unfold reduce, reduce_with. cbn [CompilerTotal.typedefs]. apply map_length. Qed.

Lemma check_typedefs_graceful fuel f rf :
  (S (length (CompilerTotal.typedefs rf)) <= fuel)%nat -> vgraceful (check_typedefs fuel f rf).
Proof.
  intros H. unfold check_typedefs. apply rand_graceful.
  - apply rall_graceful. intros td _. destruct (valid_ty rf (td_type td)); exact I.
  - intros _. rewrite (mark_loop_total rf fuel H). apply rall_graceful. intros td _. destruct (CompilerTotal.mem _ _); exact I.
Qed.

(** what a successful check_typedefs establishes: the hypotheses of C11's typedef theorems *)
Lemma check_typedefs_sound fuel f incs :
  (S (length (fr_typedefs f)) <= fuel)%nat ->
  check_typedefs fuel f (reduce f incs) = ROk ->
  CompilerTotal.validate_typedefs (reduce f incs) = true.
Proof.
  intros Hf H. unfold check_typedefs in H. apply rand_ok in H as [H1 H2].
  rewrite mark_loop_total in H2 by (rewrite reduce_typedefs_length; exact Hf).
  unfold CompilerTotal.validate_typedefs. apply andb_true_iff. split.
  - apply forallb_forall. intros d Hd. unfold reduce, reduce_with in Hd. cbn [CompilerTotal.typedefs] in Hd.
    apply in_map_iff in Hd as (td & <- & Hin). cbn [snd].
    pose proof (rall_ok _ _ H1 td Hin) as Hv. cbn beta in Hv.
    unfold valid_ty in Hv. destruct (CompilerTotal.is_valid_type (reduce f incs) (ty_of (td_type td))); [reflexivity|discriminate].
  - apply forallb_forall. intros d Hd. unfold reduce, reduce_with in Hd. cbn [CompilerTotal.typedefs] in Hd.
    apply in_map_iff in Hd as (td & <- & Hin). cbn [fst].
    pose proof (rall_ok _ _ H2 td Hin) as Hv. cbn beta in Hv.
    destruct (CompilerTotal.mem (td_name td) (CompilerTotal.mark_all (reduce f incs))); [reflexivity|discriminate].
Qed.

(** * Struct-likes and scopes *)
Lemma check_fields_graceful rf sname fs : forall ids names, vgraceful (check_fields rf sname fs ids names).
Proof.
  induction fs as [|x fs IH]; intros ids names; cbn [check_fields]; [exact I|].
  destruct (negb _); [exact I|]. destruct (existsb _ ids); [exact I|]. destruct (existsb _ names); [exact I|]. apply IH.
Qed.
Lemma check_scope_graceful rf s : vgraceful (check_scope rf s).
Proof.
  unfold check_scope. apply rand_graceful.
  - destruct (first_dup_var [] (p_vars (sc_prefix s))); exact I.
  - intros _. apply rall_graceful. intros o _. destruct (valid_ty rf (o_type o)); exact I.
Qed.

(** a scope that passes names each prefix variable once *)
Lemma first_dup_var_none vars : forall seen,
  first_dup_var seen vars = None -> NoDup vars /\ forall v, In v vars -> ~ In v seen.
Proof.
  induction vars as [|v t IH]; intros seen H; cbn [first_dup_var] in H.
  - split; [constructor|intros v []].
  - destruct (existsb (beqb v) seen) eqn:E; [discriminate|].
    destruct (IH (v :: seen) H) as [ND Hnot]. split.
    + constructor; [|exact ND]. intros Hin. apply (Hnot v Hin). left. reflexivity.
    + intros x [<-|Hin].
      * intros Hs. assert (existsb (beqb v) seen = true) as X; [|congruence].
        apply existsb_exists. exists v. split; [exact Hs|]. apply beqb_refl.
      * intros Hs. apply (Hnot x Hin). right. exact Hs.
Qed.
Lemma check_scope_prefix_vars_distinct rf s : check_scope rf s = ROk -> NoDup (p_vars (sc_prefix s)).
Proof.
  unfold check_scope. intros H. apply rand_ok in H as [H _].
  destruct (first_dup_var [] (p_vars (sc_prefix s))) eqn:E; [discriminate|].
  apply (first_dup_var_none _ [] E).
Qed.

(** * Services *)
Lemma find_service_In l n s : find_service l n = Some s -> In s l.
Proof.
  induction l as [|x l IH]; cbn [find_service]; [discriminate|].
  destruct (beqb n (sv_name x)); [intros [= <-]; left; reflexivity|]. intros H. right. auto.
Qed.
Lemma find_service_name l n s : find_service l n = Some s -> sv_name s = n.
Proof.
  induction l as [|x l IH]; cbn [find_service]; [discriminate|].
  destruct (beqb n (sv_name x)) eqn:E; [intros [= <-]; symmetry; apply beqb_eq; exact E|]. exact IH.
Qed.

(** the walk of validateServiceExtends ends within (number of services - services visited) + 1
    iterations: the visited names are pairwise distinct names of services of the file *)
Lemma extends_walk_graceful f incs start : forall fuel cur visited,
  NoDup visited -> incl visited (map sv_name (fr_services f)) -> In cur (fr_services f) ->
  (length (fr_services f) - length visited < fuel)%nat ->
  vgraceful (extends_walk fuel f incs start cur visited).
Proof.
  induction fuel as [|fuel IH]; intros cur visited Hnd Hincl Hcur Hf; [lia|].
  cbn [extends_walk].
  destruct (beqb (sv_extends cur) []); [exact I|].
  destruct (existsb (beqb (sv_name cur)) visited) eqn:V; [exact I|].
  destruct (negb (beqb (extends_include (sv_extends cur)) [])).
  - destruct (inc_get incs _) as [sub|]; [|exact I]. destruct (find_service _ _); exact I.
  - destruct (find_service (fr_services f) _) as [next|] eqn:F; [|exact I].
    assert (NoDup (sv_name cur :: visited)) as Hnd' by (constructor; [apply existsb_beqb_false; exact V|exact Hnd]).
    assert (incl (sv_name cur :: visited) (map sv_name (fr_services f))) as Hincl'.
    { intros x [<-|Hx]; [apply in_map; exact Hcur|auto]. }
    pose proof (NoDup_incl_length Hnd' Hincl') as Hlen. rewrite map_length in Hlen. cbn [length] in Hlen.
    apply IH; [assumption|assumption|eapply find_service_In; exact F|cbn [length]; lia].
Qed.

Lemma extends_walk_mono f incs start : forall fuel cur visited r,
  extends_walk fuel f incs start cur visited = r -> r <> RFuel ->
  forall fuel', (fuel <= fuel')%nat -> extends_walk fuel' f incs start cur visited = r.
Proof.
  induction fuel as [|fuel IH]; intros cur visited r H Hr fuel' Hle; [cbn in H; congruence|].
  destruct fuel' as [|fuel']; [lia|]. cbn [extends_walk] in *.
  destruct (beqb (sv_extends cur) []); [exact H|].
  destruct (existsb _ visited); [exact H|].
  destruct (negb _); [exact H|].
  destruct (find_service (fr_services f) _); [|exact H].
  eapply IH; [exact H|exact Hr|lia].
Qed.

Lemma check_dups_graceful wh fs : forall ids names, vgraceful (check_dups wh fs ids names).
Proof.
  induction fs as [|x fs IH]; intros ids names; cbn [check_dups]; [exact I|].
  destruct (existsb _ ids); [exact I|]. destruct (existsb _ names); [exact I|]. apply IH.
Qed.
Lemma check_method_rules_graceful sname m : vgraceful (check_method_rules sname m).
Proof.
  unfold check_method_rules. apply rand_graceful.
  - destruct (m_oneway m); [|exact I]. destruct (m_throws m); [|exact I]. destruct (m_return m); exact I.
  - intros _. apply rand_graceful; [apply check_dups_graceful|intros _; apply check_dups_graceful].
Qed.

Lemma ty_of_nonnil t : ty_of t <> CompilerTotal.TNil.
Proof. destruct t; cbn; discriminate. Qed.

(** what has to be known about the reduced file for UnderlyingType to return within [fuel] *)
Definition resolves_all (fuel : nat) (rf : CompilerTotal.frugal) : Prop :=
  forall t, t <> CompilerTotal.TNil -> exists u, CompilerTotal.underlying fuel rf t = CompilerTotal.COk u.

Lemma is_exception_some fuel f incs rf t :
  resolves_all fuel rf -> exists b, is_exception fuel f incs rf t = Some b.
Proof.
  intros H. unfold is_exception. destruct (H (ty_of t) (ty_of_nonnil t)) as [u Hu]. rewrite Hu.
  pose proof (underlying_ok_nonnil _ _ _ _ Hu) as Hnn. destruct u as [|name k v]; [congruence|].
  destruct (if beqb (include_part name) [] then Some f else option_map ft_frugal (inc_get incs (include_part name)));
    eauto.
Qed.

Lemma check_method_types_graceful fuel f incs rf sname m :
  resolves_all fuel rf -> vgraceful (check_method_types fuel f incs rf sname m).
Proof.
  intros H. unfold check_method_types. apply rand_graceful.
  - destruct (m_return m) as [t|]; [|exact I]. destruct (valid_ty rf t); exact I.
  - intros _. apply rand_graceful.
    + apply rall_graceful. intros a _. destruct (valid_ty rf (f_type a)); exact I.
    + intros _. apply rall_graceful. intros a _. destruct (negb _); [exact I|].
      destruct (is_exception_some fuel f incs rf (f_type a) H) as [b ->]. destruct b; exact I.
Qed.

Lemma check_service_graceful fuel f incs rf s :
  resolves_all fuel rf -> In s (fr_services f) -> (S (length (fr_services f)) <= fuel)%nat ->
  vgraceful (check_service fuel f incs rf s).
Proof.
  intros H Hin Hf. unfold check_service. apply rand_graceful.
  - apply rall_graceful. intros m _. apply check_method_types_graceful. exact H.
  - intros _. apply rand_graceful.
    + apply extends_walk_graceful; [constructor|intros x []|exact Hin|cbn [length]; lia].
    + intros _. apply rall_graceful. intros m _. apply check_method_rules_graceful.
Qed.

(** * validate is total *)
(** names the grammar guarantees (Identifier is not empty and does not start with a dot) *)
Definition file_names_ok (f : frugal) : Prop :=
  (forall s, In s (fr_services f) -> service_names_ok s)
  /\ (forall s, In s (fr_scopes f) -> scope_names_ok s)
  /\ forallb (fun td => CompilerTotal.name_ok (type_name (td_type td))) (fr_typedefs f) = true.

Lemma reduce_names_ok f incs :
  forallb (fun td => CompilerTotal.name_ok (type_name (td_type td))) (fr_typedefs f) = true ->
  forallb (fun d => CompilerTotal.top_name_ok (snd d)) (CompilerTotal.typedefs (reduce f incs)) = true.
Proof.
  intros H. unfold reduce, reduce_with. cbn [CompilerTotal.typedefs]. rewrite forallb_forall in *.
  intros d Hd. apply in_map_iff in Hd as (td & <- & Hin). cbn [snd]. specialize (H td Hin).
  destruct (td_type td). cbn in *. exact H.
Qed.

Lemma weight_reduce f incs : CompilerTotal.weight (reduce f incs) = S (length (fr_typedefs f) + sum_weights (reduce_incs incs)).
Proof. rewrite weight_eq. rewrite reduce_typedefs_length. unfold reduce, reduce_with. cbn [CompilerTotal.incs]. reflexivity. Qed.

(** the includes have been validated (parseFrugal validates a file after its includes) *)
Definition incs_wellvalidated (incs : list (bytes * ftree)) : Prop :=
  forall k sub, In (k, sub) incs -> wellvalidated (reduce_tree sub).

Lemma reduce_incs_In incs n g : In (n, g) (reduce_incs incs) -> exists sub, In (n, sub) incs /\ g = reduce_tree sub.
Proof. unfold reduce_incs. intros H. apply in_map_iff in H as ([k sub] & [= <- <-] & Hin). eauto. Qed.

Lemma wellvalidated_typedefs_nonnil g : wellvalidated g -> forall k t, In (k, t) (CompilerTotal.typedefs g) -> t <> CompilerTotal.TNil.
Proof.
  intros H k t Hin. inversion H as [g' Hv _ _]; subst.
  destruct (validate_types_parts g Hv) as (H1 & _ & _). rewrite forallb_forall in H1.
  apply (valid_nonnil g). exact (H1 _ Hin).
Qed.

(** after validateTypedefs succeeded, UnderlyingType returns on every type within the weight *)
Lemma typedefs_ok_resolves f incs :
  incs_wellvalidated incs ->
  forallb (fun td => CompilerTotal.name_ok (type_name (td_type td))) (fr_typedefs f) = true ->
  CompilerTotal.validate_typedefs (reduce f incs) = true ->
  resolves_all (CompilerTotal.weight (reduce f incs)) (reduce f incs).
Proof.
  intros Hincs Hnames Hv t Hnn.
  unfold CompilerTotal.validate_typedefs in Hv. apply andb_true_iff in Hv as [Hv1 Hv2].
  apply underlying_terminates_file; auto.
  - intros n g Hin t' Hnn'. unfold reduce, reduce_with in Hin. cbn [CompilerTotal.incs] in Hin.
    apply reduce_incs_In in Hin as (sub & Hin & ->). apply underlying_terminates; [eapply Hincs; exact Hin|exact Hnn'].
  - intros n g Hin k t' Hin'. unfold reduce, reduce_with in Hin. cbn [CompilerTotal.incs] in Hin.
    apply reduce_incs_In in Hin as (sub & Hin & ->). eapply wellvalidated_typedefs_nonnil; [eapply Hincs; exact Hin|exact Hin'].
  - apply reduce_names_ok. exact Hnames.
Qed.

Lemma resolves_all_mono fuel fuel' rf : resolves_all fuel rf -> (fuel <= fuel')%nat -> resolves_all fuel' rf.
Proof. intros H Hle t Hnn. destruct (H t Hnn) as [u Hu]. exists u. eapply underlying_mono; eauto. Qed.

Theorem cvalidate_total fuel f incs :
  file_names_ok f -> incs_wellvalidated incs ->
  (validate_fuel f incs <= fuel)%nat ->
  vgraceful (cvalidate fuel f incs).
Proof.
  intros (Hsv & Hsc & Htd) Hincs Hfuel. unfold validate_fuel in Hfuel.
  pose proof (weight_reduce f incs) as Hw.
  unfold cvalidate.
  apply rand_graceful; [apply check_services_graceful; exact Hsv|intros _].
  apply rand_graceful; [apply check_scopes_graceful; exact Hsc|intros _].
  apply rand_graceful; [apply check_namespaces_graceful|intros _].
  apply rand_graceful; [apply check_includes_graceful|intros _].
  apply rand_graceful; [apply rall_graceful; intros c _; apply check_constant_graceful|intros _].
  apply rand_graceful; [apply check_typedefs_graceful; rewrite reduce_typedefs_length; lia|intros Htds].
  apply check_typedefs_sound in Htds; [|lia].
  apply rand_graceful; [apply rall_graceful; intros s _; apply check_fields_graceful|intros _].
  apply rand_graceful; [apply rall_graceful; intros s _; apply check_fields_graceful|intros _].
  apply rand_graceful; [apply rall_graceful; intros s _; apply check_fields_graceful|intros _].
  apply rand_graceful.
  - apply rall_graceful. intros s Hs. apply check_service_graceful; [|exact Hs|lia].
    eapply resolves_all_mono; [apply typedefs_ok_resolves; eassumption|lia].
  - intros _. apply rall_graceful. intros s _. apply check_scope_graceful.
Qed.

(** * What a successful validation guarantees *)
Lemma check_fields_valid rf sname fs : forall ids names,
  check_fields rf sname fs ids names = ROk -> forall x, In x fs -> valid_ty rf (f_type x) = true.
Proof.
  induction fs as [|y fs IH]; intros ids names H x Hin; [destruct Hin|].
  cbn [check_fields] in H. destruct (valid_ty rf (f_type y)) eqn:V; cbn [negb] in H; [|discriminate].
  destruct (existsb _ ids); [discriminate|]. destruct (existsb _ names); [discriminate|].
  destruct Hin as [<-|Hin]; [exact V|]. eapply IH; eauto.
Qed.

(** duplicate-free ids and names, as validateStructLike / Service.validate leave them *)
Lemma check_fields_nodup rf sname fs : forall ids names,
  check_fields rf sname fs ids names = ROk ->
  NoDup (map f_id fs) /\ NoDup (map f_name fs)
  /\ (forall x, In x fs -> ~ In (f_id x) ids /\ ~ In (f_name x) names).
Proof.
  induction fs as [|y fs IH]; intros ids names H.
  { cbn [map]. split; [constructor|]. split; [constructor|]. intros x []. }
  cbn [check_fields] in H. destruct (negb _); [discriminate|].
  destruct (existsb (Z.eqb (f_id y)) ids) eqn:E1; [discriminate|].
  destruct (existsb (beqb (f_name y)) names) eqn:E2; [discriminate|].
  destruct (IH _ _ H) as (N1 & N2 & N3).
  assert (~ In (f_id y) ids) as Hid.
  { intros Hin. assert (existsb (Z.eqb (f_id y)) ids = true) as C; [|congruence].
    apply existsb_exists. exists (f_id y). split; [assumption|apply Z.eqb_refl]. }
  pose proof (existsb_beqb_false _ _ E2) as Hnm.
  split; [|split].
  - cbn [map]. constructor; [|exact N1]. intros Hin. apply in_map_iff in Hin as (x & Ex & Hx).
    destruct (N3 x Hx) as [C _]. apply C. left. symmetry. exact Ex.
  - cbn [map]. constructor; [|exact N2]. intros Hin. apply in_map_iff in Hin as (x & Ex & Hx).
    destruct (N3 x Hx) as [_ C]. apply C. left. symmetry. exact Ex.
  - intros x [<-|Hx]; [split; assumption|].
    destruct (N3 x Hx) as [C1 C2]. split; intros Hin; [apply C1|apply C2]; right; exact Hin.
Qed.

Lemma check_method_types_parts fuel f incs rf sname m :
  check_method_types fuel f incs rf sname m = ROk ->
  (forall t, m_return m = Some t -> valid_ty rf t = true)
  /\ (forall a, In a (m_args m) -> valid_ty rf (f_type a) = true)
  /\ (forall a, In a (m_throws m) -> valid_ty rf (f_type a) = true
                                   /\ is_exception fuel f incs rf (f_type a) = Some true).
Proof.
  unfold check_method_types. intros H. apply rand_ok in H as [H1 H]. apply rand_ok in H as [H2 H3].
  split; [|split].
  - intros t Et. rewrite Et in H1. destruct (valid_ty rf t); [reflexivity|discriminate].
  - intros a Ha. pose proof (rall_ok _ _ H2 a Ha) as Hv. cbn beta in Hv. destruct (valid_ty rf (f_type a)); [reflexivity|discriminate].
  - intros a Ha. pose proof (rall_ok _ _ H3 a Ha) as Hv. cbn beta in Hv.
    destruct (valid_ty rf (f_type a)); cbn [negb] in Hv; [|discriminate]. split; [reflexivity|].
    destruct (is_exception fuel f incs rf (f_type a)) as [[|]|]; [reflexivity|discriminate|discriminate].
Qed.

(** the chain of extended services of a validated file: it ends (so it is acyclic) and every
    link resolves, in the file or in the include it names *)
Inductive extends_ok (f : frugal) (incs : list (bytes * ftree)) : service -> Prop :=
| ExtNone s : sv_extends s = [] -> extends_ok f incs s
| ExtInclude s sub base :
    extends_include (sv_extends s) <> [] ->
    inc_get incs (extends_include (sv_extends s)) = Some sub ->
    find_service (fr_services (ft_frugal sub)) (extends_service (sv_extends s)) = Some base ->
    extends_ok f incs s
| ExtLocal s next :
    sv_extends s <> [] -> extends_include (sv_extends s) = [] ->
    find_service (fr_services f) (extends_service (sv_extends s)) = Some next ->
    extends_ok f incs next -> extends_ok f incs s.

Lemma beqb_nil_false a : beqb a [] = false -> a <> [].
Proof. intros H ->. cbn in H. discriminate. Qed.
Lemma beqb_nil_true a : beqb a [] = true -> a = [].
Proof. apply beqb_eq. Qed.

Lemma extends_walk_sound f incs start : forall fuel cur visited,
  extends_walk fuel f incs start cur visited = ROk -> extends_ok f incs cur.
Proof.
  induction fuel as [|fuel IH]; intros cur visited H; [discriminate|].
  cbn [extends_walk] in H.
  destruct (beqb (sv_extends cur) []) eqn:E; [apply ExtNone, beqb_nil_true, E|].
  destruct (existsb _ visited); [discriminate|].
  destruct (beqb (extends_include (sv_extends cur)) []) eqn:I; cbn [negb] in H.
  - destruct (find_service (fr_services f) _) as [next|] eqn:F; [|discriminate].
    eapply ExtLocal; [apply beqb_nil_false, E|apply beqb_nil_true, I|exact F|eapply IH; exact H].
  - destruct (inc_get incs _) as [sub|] eqn:G; [|discriminate].
    destruct (find_service _ _) as [base|] eqn:F; [|discriminate].
    eapply ExtInclude; [apply beqb_nil_false, I|exact G|exact F].
Qed.

Record validated_facts (fuel : nat) (f : frugal) (incs : list (bytes * ftree)) : Prop := {
  vf_typedefs : CompilerTotal.validate_typedefs (reduce f incs) = true;
  vf_typedef_targets : forall td, In td (fr_typedefs f) -> valid_ty (reduce f incs) (td_type td) = true;
  vf_uses : forall t, In t (file_uses f) -> valid_ty (reduce f incs) t = true;
  vf_ops : forall s o, In s (fr_scopes f) -> In o (sc_ops s) -> valid_ty (reduce f incs) (o_type o) = true;
  vf_prefix_vars : forall s, In s (fr_scopes f) -> NoDup (p_vars (sc_prefix s));
  vf_extends : forall s, In s (fr_services f) -> extends_ok f incs s;
  vf_throws : forall s m a, In s (fr_services f) -> In m (sv_methods s) -> In a (m_throws m) ->
                            is_exception fuel f incs (reduce f incs) (f_type a) = Some true;
  vf_oneway : forall s m, In s (fr_services f) -> In m (sv_methods s) -> m_oneway m = true ->
                          m_return m = None /\ m_throws m = [];
  vf_field_ids : forall s, In s (fr_structs f ++ fr_unions f ++ fr_exceptions f) ->
                           NoDup (map f_id (s_fields s)) /\ NoDup (map f_name (s_fields s));
  vf_const_refs : forall c name, In c (fr_constants f) -> c_value c = CIdent name ->
                                 check_identifier f incs name = ROk
}.

Lemma in_flat_map_intro {A B} (g : A -> list B) l a b : In a l -> In b (g a) -> In b (flat_map g l).
Proof. intros H1 H2. apply in_flat_map. eauto. Qed.

Theorem cvalidate_facts fuel f incs :
  (S (length (fr_typedefs f)) <= fuel)%nat ->
  cvalidate fuel f incs = ROk -> validated_facts fuel f incs.
Proof.
  intros Hfuel H. unfold cvalidate in H.
  apply rand_ok in H as [_ H]. apply rand_ok in H as [_ H]. apply rand_ok in H as [_ H].
  apply rand_ok in H as [_ H]. apply rand_ok in H as [Hc H]. apply rand_ok in H as [Htd H].
  apply rand_ok in H as [Hs H]. apply rand_ok in H as [Hu H]. apply rand_ok in H as [Hx H].
  apply rand_ok in H as [Hsv Hsc].
  pose proof (check_typedefs_sound fuel f incs Hfuel Htd) as Hvt.
  assert (forall s, In s (fr_structs f ++ fr_unions f ++ fr_exceptions f) ->
                    check_struct (reduce f incs) s = ROk) as Hall.
  { intros s Hin. apply in_app_or in Hin as [Hin|Hin]; [exact (rall_ok _ _ Hs s Hin)|].
    apply in_app_or in Hin as [Hin|Hin]; [exact (rall_ok _ _ Hu s Hin)|exact (rall_ok _ _ Hx s Hin)]. }
  constructor.
  - exact Hvt.
  - intros td Hin. unfold check_typedefs in Htd. apply rand_ok in Htd as [H1 _].
    pose proof (rall_ok _ _ H1 td Hin) as Hv. cbn beta in Hv.
    destruct (valid_ty (reduce f incs) (td_type td)); [reflexivity|discriminate].
  - intros t Hin. unfold file_uses in Hin.
    apply in_app_or in Hin as [Hin|Hin].
    { apply in_map_iff in Hin as (c & <- & Hin). pose proof (rall_ok _ _ Hc c Hin) as Hv.
      unfold check_constant in Hv. destruct (valid_ty (reduce f incs) (c_type c)); [reflexivity|discriminate]. }
    assert (forall l, (forall s, In s l -> check_struct (reduce f incs) s = ROk) ->
                      In t (flat_map (fun s => map f_type (s_fields s)) l) -> valid_ty (reduce f incs) t = true) as Hst.
    { intros l Hl Hin'. apply in_flat_map in Hin' as (s & Hs' & Hin'). apply in_map_iff in Hin' as (x & <- & Hx').
      eapply check_fields_valid; [exact (Hl s Hs')|exact Hx']. }
    apply in_app_or in Hin as [Hin|Hin]; [apply (Hst _ (rall_ok _ _ Hs) Hin)|].
    apply in_app_or in Hin as [Hin|Hin]; [apply (Hst _ (rall_ok _ _ Hu) Hin)|].
    apply in_app_or in Hin as [Hin|Hin]; [apply (Hst _ (rall_ok _ _ Hx) Hin)|].
    apply in_flat_map in Hin as (s & Hs' & Hin). apply in_flat_map in Hin as (m & Hm & Hin).
    pose proof (rall_ok _ _ Hsv s Hs') as Hcs. unfold check_service in Hcs. apply rand_ok in Hcs as [Hmt _].
    destruct (check_method_types_parts _ _ _ _ _ _ (rall_ok _ _ Hmt m Hm)) as (R1 & R2 & R3).
    unfold method_types in Hin. apply in_app_or in Hin as [Hin|Hin].
    + destruct (m_return m) as [rt|]; [|destruct Hin]. destruct Hin as [<-|[]]. apply R1. reflexivity.
    + apply in_app_or in Hin as [Hin|Hin]; apply in_map_iff in Hin as (a & <- & Ha); [apply R2; exact Ha|apply R3; exact Ha].
  - intros s o Hs' Ho.
    pose proof (rall_ok _ _ Hsc s Hs') as Hcs. unfold check_scope in Hcs. apply rand_ok in Hcs as [_ Hcs].
    pose proof (rall_ok _ _ Hcs o Ho) as Hv. cbn beta in Hv.
    destruct (valid_ty (reduce f incs) (o_type o)); [reflexivity|discriminate].
  - intros s Hs'. exact (check_scope_prefix_vars_distinct _ s (rall_ok _ _ Hsc s Hs')).
  - intros s Hin. pose proof (rall_ok _ _ Hsv s Hin) as Hcs. unfold check_service in Hcs.
    apply rand_ok in Hcs as [_ Hcs]. apply rand_ok in Hcs as [Hw _]. eapply extends_walk_sound; exact Hw.
  - intros s m a Hs' Hm Ha. pose proof (rall_ok _ _ Hsv s Hs') as Hcs. unfold check_service in Hcs.
    apply rand_ok in Hcs as [Hmt _].
    destruct (check_method_types_parts _ _ _ _ _ _ (rall_ok _ _ Hmt m Hm)) as (_ & _ & R3). apply R3. exact Ha.
  - intros s m Hs' Hm Ho. pose proof (rall_ok _ _ Hsv s Hs') as Hcs. unfold check_service in Hcs.
    apply rand_ok in Hcs as [_ Hcs]. apply rand_ok in Hcs as [_ Hr].
    pose proof (rall_ok _ _ Hr m Hm) as Hmr. unfold check_method_rules in Hmr. apply rand_ok in Hmr as [Hmr _].
    rewrite Ho in Hmr. destruct (m_throws m); [|discriminate]. destruct (m_return m); [discriminate|]. auto.
  - intros s Hin. pose proof (Hall s Hin) as Hcs. unfold check_struct in Hcs.
    destruct (check_fields_nodup _ _ _ _ _ Hcs) as (N1 & N2 & _). auto.
  - intros c name Hin Ev. pose proof (rall_ok _ _ Hc c Hin) as Hv. unfold check_constant in Hv.
    destruct (negb _); [discriminate|]. rewrite Ev in Hv. exact Hv.
Qed.

(** a validated file over validated includes is [wellvalidated] in the sense of C11's typedef
    theorems: UnderlyingType terminates on it within its weight *)
Theorem cvalidate_wellvalidated fuel f incs :
  (S (length (fr_typedefs f)) <= fuel)%nat ->
  forallb (fun td => CompilerTotal.name_ok (type_name (td_type td))) (fr_typedefs f) = true ->
  incs_wellvalidated incs ->
  cvalidate fuel f incs = ROk -> wellvalidated (reduce f incs).
Proof.
  intros Hfuel Hnames Hincs H. destruct (cvalidate_facts fuel f incs Hfuel H) as [Hvt _ Huses _ _ _ _ _ _].
  constructor.
  - unfold CompilerTotal.validate_types. rewrite Hvt. cbn [andb].
    apply forallb_forall. intros t Hin. unfold reduce, reduce_with in Hin. cbn [CompilerTotal.uses] in Hin.
    apply in_map_iff in Hin as (pt & <- & Hin). apply Huses. exact Hin.
  - apply reduce_names_ok. exact Hnames.
  - intros n g Hin. unfold reduce, reduce_with in Hin. cbn [CompilerTotal.incs] in Hin.
    apply reduce_incs_In in Hin as (sub & Hin & ->). eapply Hincs. exact Hin.
Qed.

(** * parseFrugal is total *)
Lemma reduce_tree_eq name f incs : reduce_tree (FTree name f incs) = reduce f incs.
Proof.
  cbn [reduce_tree]. unfold reduce. f_equal. unfold reduce_incs.
  induction incs as [|[k sub] incs IH]; [reflexivity|]. cbn [map fst snd]. f_equal. exact IH.
Qed.
Lemma reduce_with_scopes f sc incs : reduce (with_scopes f sc) incs = reduce f incs.
Proof. reflexivity. Qed.

Lemma inc_put_In acc key t k sub :
  In (k, sub) (inc_put acc key t) -> (k, sub) = (key, t) \/ In (k, sub) acc.
Proof.
  induction acc as [|[k' t'] acc IH]; cbn [inc_put]; [intros [H|[]]; left; symmetry; exact H|].
  destruct (beqb k' key).
  - intros [H|H]; [left; symmetry; exact H|right; right; exact H].
  - intros [H|H]; [right; left; exact H|]. destruct (IH H) as [E|E]; [left; exact E|right; right; exact E].
Qed.

(** the result of parsing: a tree that is validated all the way down, or an error *)
Definition pres_good (r : pres) : Prop :=
  match r with POk t => wellvalidated (reduce_tree t) | PErr _ => True | _ => False end.

Lemma includes_loop_good rec dir l : forall acc,
  (forall q, pres_good (rec q)) -> incs_wellvalidated acc ->
  match includes_loop rec dir l acc with
  | inl e => pres_good e /\ (forall t, e <> POk t)
  | inr incs => incs_wellvalidated incs
  end.
Proof.
  induction l as [|i l IH]; intros acc Hrec Hacc; cbn [includes_loop]; [exact Hacc|].
  destruct (negb _); [split; [exact I|discriminate]|].
  pose proof (Hrec (clean (dir ++ split_on 47 (i_value i) []))) as Hq.
  destruct (rec _) as [sub|m| |]; cbn [pres_good] in Hq; try contradiction.
  - apply IH; [exact Hrec|]. intros k s Hin. apply inc_put_In in Hin as [[= -> ->]|Hin]; [exact Hq|eapply Hacc; exact Hin].
  - split; [exact I|discriminate].
Qed.

Lemma path_eqb_eq a : forall b, path_eqb a b = true -> a = b.
Proof.
  induction a as [|x a IH]; intros [|y b] H; cbn [path_eqb] in H; try discriminate; [reflexivity|].
  apply andb_true_iff in H as [H1 H2]. apply beqb_eq in H1. subst y. f_equal. exact (IH b H2).
Qed.
Lemma pfs_get_In fs p e : pfs_get fs p = Some e -> In (p, e) fs.
Proof.
  induction fs as [|[q e'] fs IH]; cbn [pfs_get]; [discriminate|].
  destruct (path_eqb q p) eqn:E; [intros [= <-]; apply path_eqb_eq in E; subst q; left; reflexivity|].
  intros H. right. exact (IH H).
Qed.

(** the names parseFrugal can have on its visited list: stems of files of the file system *)
Definition stems (fs : pfs) : list bytes :=
  map (fun pe => match file_stem (fst pe) with Some n => n | None => [] end) fs.

Definition fs_names_ok (fs : pfs) : Prop := forall p f, In (p, FParsed f) fs -> file_names_ok f.

Lemma NoDup_snoc {A} (l : list A) x : NoDup l -> ~ In x l -> NoDup (l ++ [x]).
Proof.
  induction l as [|y l IH]; intros Hnd Hx; cbn [app]; [constructor; [intros []|constructor]|].
  inversion Hnd as [|y' l' Hy Hl]; subst. constructor.
  - intros Hin. apply in_app_or in Hin as [Hin|[<-|[]]]; [exact (Hy Hin)|apply Hx; left; reflexivity].
  - apply IH; [exact Hl|]. intros Hin. apply Hx. right. exact Hin.
Qed.

Lemma validate_fuel_typedefs f incs : (S (length (fr_typedefs f)) <= validate_fuel f incs)%nat.
Proof. unfold validate_fuel. rewrite weight_reduce. lia. Qed.

Theorem cparse_good fs : fs_names_ok fs -> forall fuel p visited,
  NoDup visited -> incl visited (stems fs) ->
  (length fs - length visited < fuel)%nat ->
  pres_good (cparse fuel fs p visited).
Proof.
  intros Hfs. induction fuel as [|fuel IH]; intros p visited Hnd Hincl Hf; [lia|].
  cbn [cparse].
  destruct (pfs_get fs p) as [e|] eqn:G; [|exact I].
  destruct (file_stem p) as [name|] eqn:S; [|exact I].
  destruct (existsb (beqb name) visited) eqn:V; [exact I|].
  destruct e as [f|msg]; [|exact I].
  apply pfs_get_In in G.
  assert (NoDup (visited ++ [name])) as Hnd' by (apply NoDup_snoc; [exact Hnd|apply existsb_beqb_false; exact V]).
  assert (incl (visited ++ [name]) (stems fs)) as Hincl'.
  { intros x Hx. apply in_app_or in Hx as [Hx|[<-|[]]]; [auto|].
    unfold stems. apply in_map_iff. exists (p, FParsed f). cbn [fst]. rewrite S. auto. }
  pose proof (NoDup_incl_length Hnd' Hincl') as Hlen. unfold stems in Hlen. rewrite map_length, app_length in Hlen.
  cbn [length] in Hlen.
  pose proof (includes_loop_good (fun q => cparse fuel fs q (visited ++ [name])) (removelast p) (fr_includes f) []) as HL.
  destruct (includes_loop _ _ _ _) as [e|incs].
  - apply HL; [|intros k sub []]. intros q. apply IH; [exact Hnd'|exact Hincl'|rewrite app_length; cbn [length]; lia].
  - assert (incs_wellvalidated incs) as Hincs.
    { apply HL; [|intros k sub []]. intros q. apply IH; [exact Hnd'|exact Hincl'|rewrite app_length; cbn [length]; lia]. }
    pose proof (cvalidate_total (validate_fuel f incs) f incs (Hfs _ _ G) Hincs (le_n _)) as Hg.
    destruct (cvalidate (validate_fuel f incs) f incs) eqn:Ev; cbn [vgraceful] in Hg; try contradiction; [|exact I].
    cbn [pres_good]. rewrite reduce_tree_eq, reduce_with_scopes.
    destruct (Hfs _ _ G) as (_ & _ & Hn).
    eapply cvalidate_wellvalidated; [apply validate_fuel_typedefs|exact Hn|exact Hincs|exact Ev].
Qed.

(** from the root: fuel above the number of files is enough; the result is a diagnostic or a
    tree every file of which passed validation (so UnderlyingType terminates on it) *)
Corollary cparse_program_good fs root : fs_names_ok fs -> pres_good (cparse_program fs root).
Proof.
  intros H. unfold cparse_program. apply cparse_good; [exact H|constructor|intros x []|cbn [length]; lia].
Qed.

(** * Witnesses: what the code did not guarantee before the repairs, and what it still does not *)
Definition ty0 (n : string) : ptype := PType (T n) None None [].
Definition fld (id : Z) (n : string) (t : ptype) : field := mkfield None id (T n) 0 t None [].
Definition meth (n : string) (throws : list field) : method := mkmethod None (T n) false None [] throws [].
Definition file0 : frugal := empty_frugal.
Definition with_services (l : list service) : frugal := mkfrugal [] [] [] [] [] [] [] [] l [].

(** service A extends Nope { void f() } *)
Definition w_dangling : service := mkservice None (T "A") (T "Nope") [meth "f" []] [].
(** service A extends B {}  service B extends A {} *)
Definition w_cyc_a : service := mkservice None (T "A") (T "B") [] [].
Definition w_cyc_b : service := mkservice None (T "B") (T "A") [] [].

Lemma w_cycle_not_ok : forall s, extends_ok (with_services [w_cyc_a; w_cyc_b]) [] s ->
  s <> w_cyc_a /\ s <> w_cyc_b.
Proof.
  induction 1 as [s He|s sub base Hi Hg _|s next Hne Hi Hf Hnext IH].
  - split; intros ->; discriminate He.
  - cbn in Hg. discriminate.
  - split; intros ->; vm_compute in Hf; injection Hf as <-; destruct IH as [I1 I2]; [apply I2|apply I1]; reflexivity.
Qed.

Lemma extends_pinned_refuted :
  (cvalidate_pinned 10 (with_services [w_dangling]) [] = ROk
   /\ ~ extends_ok (with_services [w_dangling]) [] w_dangling
   /\ exists m, cvalidate 10 (with_services [w_dangling]) [] = RErr m)
  /\ (cvalidate_pinned 10 (with_services [w_cyc_a; w_cyc_b]) [] = ROk
      /\ ~ extends_ok (with_services [w_cyc_a; w_cyc_b]) [] w_cyc_a
      /\ exists m, cvalidate 10 (with_services [w_cyc_a; w_cyc_b]) [] = RErr m).
Proof.
  split; (split; [vm_compute; reflexivity|split]).
  - intros H. inversion H as [s He|s sub base Hi Hg _|s next Hne Hi Hf Hnext]; subst.
    + discriminate He.
    + cbn in Hg. discriminate.
    + vm_compute in Hf. discriminate.
  - eexists. vm_compute. reflexivity.
  - intros H. apply w_cycle_not_ok in H. destruct H as [H _]. congruence.
  - eexists. vm_compute. reflexivity.
Qed.

(** struct S { 1: i32 a }  service A { void f() throws (1: S s) } *)
Definition w_throws : frugal :=
  mkfrugal [] [] [] [] [] [mkstruct None (T "S") [fld 1 "a" (ty0 "i32")] 0 []] [] []
           [mkservice None (T "A") [] [meth "f" [fld 1 "s" (ty0 "S")]] []] [].
Lemma throws_pinned_refuted :
  cvalidate_pinned 10 w_throws [] = ROk
  /\ is_exception 10 w_throws [] (reduce w_throws []) (ty0 "S") = Some false
  /\ exists m, cvalidate 10 w_throws [] = RErr m.
Proof. split; [vm_compute; reflexivity|split; [vm_compute; reflexivity|eexists; vm_compute; reflexivity]]. Qed.

(** struct S { 1: i32 a, 2: i32 a } *)
Definition w_dupname : frugal :=
  mkfrugal [] [] [] [] [] [mkstruct None (T "S") [fld 1 "a" (ty0 "i32"); fld 2 "a" (ty0 "i32")] 0 []] [] [] [] [].
Lemma dup_names_pinned_refuted :
  cvalidate_pinned 10 w_dupname [] = ROk
  /\ (forall s, In s (fr_structs w_dupname) -> ~ NoDup (map f_name (s_fields s)))
  /\ exists m, cvalidate 10 w_dupname [] = RErr m.
Proof.
  split; [vm_compute; reflexivity|split; [|eexists; vm_compute; reflexivity]].
  intros s [<-|[]] H. cbn in H. inversion H as [|x l Hx _]; subst. apply Hx. left. reflexivity.
Qed.

(** the shape of a constant value against a base or container type (what the generators
    type-assert); custom types are not judged here *)
Fixpoint shape_fits (t : ptype) (v : cvalue) {struct v} : bool :=
  match v with
  | CIdent _ => true
  | _ =>
    match t with
    | PType n k e _ =>
      if beqb n s_string || beqb n s_binary then match v with CStr _ => true | _ => false end
      else if beqb n s_bool then match v with CBool _ | CInt _ => true | _ => false end
      else if beqb n s_double then match v with CDouble _ | CInt _ => true | _ => false end
      else if existsb (beqb n) base_types then match v with CInt _ => true | _ => false end
      else if beqb n s_list || beqb n s_set then
        match v, e with
        | CList l, Some et => forallb (shape_fits et) l
        | _, _ => false
        end
      else if beqb n s_map then
        match v, k, e with
        | CMap l, Some kt, Some et => forallb (fun kv => shape_fits kt (fst kv) && shape_fits et (snd kv)) l
        | _, _, _ => false
        end
      else true
    end
  end.

(** const list<i32> x = 5   const i32 y = "hello"   const list<i32> z = [nope] *)
Definition w_consts : frugal :=
  mkfrugal [] [] []
    [mkconst None (T "x") (PType s_list None (Some (ty0 "i32")) []) (CInt 5) [];
     mkconst None (T "y") (ty0 "i32") (CStr (T "hello")) [];
     mkconst None (T "z") (PType s_list None (Some (ty0 "i32")) []) (CList [CIdent (T "nope")]) []]
    [] [] [] [] [] [].
Lemma constants_fit_refuted :
  cvalidate 10 w_consts [] = ROk
  /\ forallb (fun c => shape_fits (c_type c) (c_value c)) (firstn 2 (fr_constants w_consts)) = false
  /\ check_identifier w_consts [] (T "nope") <> ROk.
Proof. split; [vm_compute; reflexivity|split; [vm_compute; reflexivity|vm_compute; discriminate]]. Qed.

(** x.frugal: include "sub/x.frugal"     sub/x.frugal: (empty) -- no cycle, rejected as one *)
Definition w_same_name : pfs :=
  [([T "x.frugal"], FParsed (mkfrugal [mkinclude (T "x") (T "sub/x.frugal") []] [] [] [] [] [] [] [] [] []));
   ([T "sub"; T "x.frugal"], FParsed empty_frugal)].
Lemma include_same_name_refuted :
  pfs_get w_same_name [T "sub"; T "x.frugal"] = Some (FParsed empty_frugal)
  /\ cparse_program w_same_name [T "sub"; T "x.frugal"] = POk (FTree (T "x") empty_frugal [])
  /\ cparse_program w_same_name [T "x.frugal"] = PErr (T "Include sub/x.frugal: Circular include: [x x]").
Proof. repeat split; vm_compute; reflexivity. Qed.

(** the hypotheses of totality are needed: an empty service name panics LowercaseFirstLetter; a
    typedef target that starts with a dot (typedef .A A) passes the circularity check, which
    looks names up as written, and sends UnderlyingType, which strips the prefix, round in
    circles.  The grammar produces neither. *)
Definition w_empty_name : frugal := with_services [mkservice None [] [] [] []].
Definition w_dot_typedef : frugal :=
  mkfrugal [] [] [mktypedef None (T "A") (ty0 ".A") []] [] [] [] [] []
           [mkservice None (T "S") [] [meth "f" [fld 1 "e" (ty0 "A")]] []] [].
Lemma names_needed_refuted :
  (forall fuel, cvalidate fuel w_empty_name [] = RPanic)
  /\ cvalidate (validate_fuel w_dot_typedef []) w_dot_typedef [] = RFuel
  /\ cvalidate 500 w_dot_typedef [] = RFuel.
Proof. split; [intros fuel; reflexivity|split; vm_compute; reflexivity]. Qed.

(** non-vacuity: a two-file program with an extends chain through an include, a typedef'd
    exception and a typedef chain is accepted, and every fact holds of it *)
Definition ex_inc : frugal :=
  mkfrugal [] [] [mktypedef None (T "ErrT") (ty0 "Err") []] [] []
           [] [mkstruct None (T "Err") [fld 1 "m" (ty0 "string")] 1 []] []
           [mkservice None (T "Base") [] [meth "ping" []] []] [].
Definition ex_root : frugal :=
  mkfrugal [mkinclude (T "inc") (T "inc.frugal") []] []
           [mktypedef None (T "L") (PType s_list None (Some (ty0 "inc.ErrT")) []) [];
            mktypedef None (T "E2") (ty0 "inc.ErrT") []] [] [] [] [] []
           [mkservice None (T "Mid") (T "inc.Base") [] [];
            mkservice None (T "Top") (T "Mid") [meth "f" [fld 1 "a" (ty0 "E2"); fld 2 "b" (ty0 "inc.Err")]] []] [].
Definition ex_fs : pfs := [([T "root.frugal"], FParsed ex_root); ([T "inc.frugal"], FParsed ex_inc)].
Lemma example_accepted :
  match cparse_program ex_fs [T "root.frugal"] with
  | POk (FTree name f incs) => name = T "root" /\ length incs = 1%nat
                               /\ cvalidate (validate_fuel f incs) f incs = ROk
  | _ => False
  end.
Proof. vm_compute. repeat split. Qed.
Lemma example_names_ok : fs_names_ok ex_fs.
Proof.
  intros p f [[= <- <-]|[[= <- <-]|[]]]; (split; [|split]); try (vm_compute; reflexivity);
    intros s Hs; cbn in Hs;
    repeat (destruct Hs as [<-|Hs]; [split; [discriminate|intros m Hm; cbn in Hm; repeat (destruct Hm as [<-|Hm]; [discriminate|]); destruct Hm]|]);
    destruct Hs.
Qed.

(** * isValidType, declaratively *)
Fixpoint resolves (rf : CompilerTotal.frugal) (t : CompilerTotal.ty) : Prop :=
  match t with
  | CompilerTotal.TNil => False
  | CompilerTotal.Ty n k v =>
    In n CompilerTotal.base_types
    \/ (In n [CompilerTotal.s_list; CompilerTotal.s_set] /\ resolves rf v)
    \/ (n = CompilerTotal.s_map /\ resolves rf k /\ resolves rf v)
    \/ exists g, CompilerTotal.scope_of rf n = Some g
                 /\ In (CompilerTotal.param_name n)
                       (CompilerTotal.structs g ++ CompilerTotal.unions g ++ CompilerTotal.exceptions g
                        ++ CompilerTotal.enums g ++ map fst (CompilerTotal.typedefs g))
  end.

Lemma is_valid_type_resolves rf t : CompilerTotal.is_valid_type rf t = true -> resolves rf t.
Proof.
  induction t as [|n k IHk v IHv]; cbn [CompilerTotal.is_valid_type resolves]; [discriminate|].
  destruct (CompilerTotal.is_primitive n) eqn:P; [intros _; left; apply mem_In; exact P|].
  destruct (CompilerTotal.is_container n) eqn:C.
  - destruct (CompilerTotal.str_eqb n CompilerTotal.s_map) eqn:M.
    + intros H. apply andb_true_iff in H as [H1 H2]. right. right. left. apply str_eqb_eq in M. auto.
    + intros H. right. left. split; [|auto].
      apply mem_In in C. destruct C as [<-|[<-|[<-|[]]]]; [left; reflexivity|right; left; reflexivity|].
      rewrite str_eqb_refl in M. discriminate.
  - destruct (CompilerTotal.scope_of rf n) as [g|]; [|discriminate].
    intros H. right. right. right. exists g. split; [reflexivity|].
    repeat (apply orb_true_iff in H as [H|H]); apply mem_In in H;
      repeat (apply in_or_app; first [left; exact H | right]). exact H.
Qed.

Lemma validated_types_resolve fuel f incs :
  (S (length (fr_typedefs f)) <= fuel)%nat -> cvalidate fuel f incs = ROk ->
  forall t, In t (map td_type (fr_typedefs f) ++ file_uses f
                  ++ flat_map (fun s => map o_type (sc_ops s)) (fr_scopes f)) ->
            resolves (reduce f incs) (ty_of t).
Proof.
  intros Hf H t Hin. destruct (cvalidate_facts fuel f incs Hf H) as [_ Htd Hu Ho _ _ _ _ _].
  apply is_valid_type_resolves. fold (valid_ty (reduce f incs) t).
  apply in_app_or in Hin as [Hin|Hin]; [apply in_map_iff in Hin as (td & <- & Hin); auto|].
  apply in_app_or in Hin as [Hin|Hin]; [auto|].
  apply in_flat_map in Hin as (s & Hs & Hin). apply in_map_iff in Hin as (o & <- & Hoo). eauto.
Qed.

(** every typedef chain of an accepted program ends: UnderlyingType returns within the weight *)
Lemma accepted_typedefs_terminate fs root t :
  fs_names_ok fs -> cparse_program fs root = POk t ->
  forall ty, ty <> CompilerTotal.TNil ->
  exists u, CompilerTotal.underlying (CompilerTotal.weight (reduce_tree t)) (reduce_tree t) ty = CompilerTotal.COk u.
Proof.
  intros Hfs H. pose proof (cparse_program_good fs root Hfs) as Hg. rewrite H in Hg. cbn [pres_good] in Hg.
  apply underlying_terminates. exact Hg.
Qed.

(** * The statements of Props/C11.v *)
Lemma cvalidate_total_res fuel f incs :
  file_names_ok f -> incs_wellvalidated incs -> (validate_fuel f incs <= fuel)%nat ->
  graceful (vr_res (cvalidate fuel f incs)).
Proof. intros H1 H2 H3. apply vgraceful_res. exact (cvalidate_total fuel f incs H1 H2 H3). Qed.

Lemma extends_walk_bound f incs start :
  In start (fr_services f) -> forall fuel, (S (length (fr_services f)) <= fuel)%nat ->
  graceful (vr_res (extends_walk fuel f incs start start [])).
Proof.
  intros Hin fuel Hf. apply vgraceful_res.
  apply extends_walk_graceful; [constructor|intros x []|exact Hin|cbn [length]; lia].
Qed.

Lemma cparse_total_res fs root :
  fs_names_ok fs ->
  graceful (pres_res (cparse_program fs root))
  /\ forall t, cparse_program fs root = POk t -> wellvalidated (reduce_tree t).
Proof.
  intros H. pose proof (cparse_program_good fs root H) as G.
  split; [destruct (cparse_program fs root); cbn in *; auto|].
  intros t E. rewrite E in G. exact G.
Qed.

Lemma cparse_fuel_bound fs : fs_names_ok fs -> forall fuel p visited,
  NoDup visited -> incl visited (stems fs) -> (length fs - length visited < fuel)%nat ->
  graceful (pres_res (cparse fuel fs p visited)).
Proof.
  intros H fuel p visited H1 H2 H3. pose proof (cparse_good fs H fuel p visited H1 H2 H3) as G.
  destruct (cparse fuel fs p visited); cbn in *; auto.
Qed.

Lemma validated_extends fuel f incs :
  (S (length (fr_typedefs f)) <= fuel)%nat -> cvalidate fuel f incs = ROk ->
  forall s, In s (fr_services f) -> extends_ok f incs s.
Proof. intros Hf H. exact (vf_extends _ _ _ (cvalidate_facts fuel f incs Hf H)). Qed.

Lemma validated_throws fuel f incs :
  (S (length (fr_typedefs f)) <= fuel)%nat -> cvalidate fuel f incs = ROk ->
  forall s m a, In s (fr_services f) -> In m (sv_methods s) -> In a (m_throws m) ->
  is_exception fuel f incs (reduce f incs) (f_type a) = Some true.
Proof. intros Hf H. exact (vf_throws _ _ _ (cvalidate_facts fuel f incs Hf H)). Qed.

Lemma validated_prefix_vars fuel f incs :
  (S (length (fr_typedefs f)) <= fuel)%nat -> cvalidate fuel f incs = ROk ->
  forall s, In s (fr_scopes f) -> NoDup (p_vars (sc_prefix s)).
Proof. intros Hf H. exact (vf_prefix_vars _ _ _ (cvalidate_facts fuel f incs Hf H)). Qed.

Lemma validated_members fuel f incs :
  (S (length (fr_typedefs f)) <= fuel)%nat -> cvalidate fuel f incs = ROk ->
  (forall s, In s (fr_structs f ++ fr_unions f ++ fr_exceptions f) ->
             NoDup (map f_id (s_fields s)) /\ NoDup (map f_name (s_fields s)))
  /\ (forall s m, In s (fr_services f) -> In m (sv_methods s) -> m_oneway m = true ->
                  m_return m = None /\ m_throws m = [])
  /\ (forall c name, In c (fr_constants f) -> c_value c = CIdent name -> check_identifier f incs name = ROk).
Proof.
  intros Hf H. destruct (cvalidate_facts fuel f incs Hf H) as [_ _ _ _ _ _ Ho Hi Hc]. auto.
Qed.

Lemma validation_nonvacuous :
  fs_names_ok ex_fs
  /\ match cparse_program ex_fs [T "root.frugal"] with
     | POk (FTree name f incs) => name = T "root" /\ length incs = 1%nat
                                  /\ cvalidate (validate_fuel f incs) f incs = ROk
     | _ => False
     end.
Proof. split; [exact example_names_ok|exact example_accepted]. Qed.
