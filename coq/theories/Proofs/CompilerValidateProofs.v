(** Proofs about Model/CompilerValidate.v (C11: validation pass and include resolution):
    totality with explicit fuel bounds, and the facts the generators rely on after validation. *)
From Coq Require Import String ZArith List Bool Lia.
From FV Require Import Base.Res Model.ParserStrings Model.ParserAst Model.Parser Model.ParserFsys
     Model.CompilerValidate Proofs.CompilerTotalProofs.
From FV Require Model.CompilerTotal.
Import ListNotations.
Open Scope Z_scope.

(** * Basics *)
Lemma beqb_eq a : forall b, beqb a b = true -> a = b.
Proof.
  induction a as [|x a IH]; intros [|y b] H; cbn [beqb] in H; try discriminate; [reflexivity|].
  apply andb_true_iff in H. destruct H as [Hx Hr]. apply Z.eqb_eq in Hx. subst y. f_equal. exact (IH b Hr).
Qed.
Lemma beqb_refl a : beqb a a = true.
Proof. induction a as [|x a IH]; cbn [beqb]; [reflexivity|]. rewrite Z.eqb_refl, IH. reflexivity. Qed.
Lemma existsb_beqb_false x l : existsb (beqb x) l = false -> ~ In x l.
Proof.
  intros H Hin. assert (existsb (beqb x) l = true) as E; [|congruence].
  apply existsb_exists. exists x. split; [assumption|apply beqb_refl].
Qed.
Lemma existsb_beqb_true x l : existsb (beqb x) l = true -> In x l.
Proof.
  intros H. apply existsb_exists in H as (y & Hy & E). apply beqb_eq in E. subst y. assumption.
Qed.

Definition vgraceful (r : vr) : Prop := match r with ROk | RErr _ => True | _ => False end.
Lemma vgraceful_res r : vgraceful r <-> graceful (vr_res r).
Proof. destruct r; cbn; tauto. Qed.

Lemma rand_ok a b : rand a b = ROk -> a = ROk /\ b tt = ROk.
Proof. destruct a; cbn; intros H; try discriminate. auto. Qed.
Lemma rall_ok {X} (p : X -> vr) l : rall p l = ROk -> forall x, In x l -> p x = ROk.
Proof.
  induction l as [|y l IH]; cbn [rall]; intros H x Hin; [destruct Hin|].
  apply rand_ok in H as [H1 H2]. destruct Hin as [->|Hin]; auto.
Qed.
Lemma rand_graceful a b : vgraceful a -> (a = ROk -> vgraceful (b tt)) -> vgraceful (rand a b).
Proof. destruct a; cbn; auto. Qed.
Lemma rall_graceful {X} (p : X -> vr) l : (forall x, In x l -> vgraceful (p x)) -> vgraceful (rall p l).
Proof.
  induction l as [|y l IH]; intros H; cbn [rall]; [exact I|].
  apply rand_graceful; [apply H; left; reflexivity|]. intros _. apply IH. intros x Hx. apply H. right. exact Hx.
Qed.

(** * The name loops *)
Lemma check_names_graceful dup conf l : forall seen,
  (forall n, In n l -> n <> []) -> vgraceful (check_names dup conf seen l).
Proof.
  induction l as [|n l IH]; intros seen H; cbn [check_names]; [exact I|].
  unfold name_step. destruct n as [|c n]; [exfalso; apply (H []); [left; reflexivity|reflexivity]|].
  cbn [lc_first]. destruct (assoc_b _ seen); [exact I|]. apply IH. intros m Hm. apply H. right. exact Hm.
Qed.

Definition service_names_ok (s : service) : Prop :=
  sv_name s <> [] /\ forall m, In m (sv_methods s) -> m_name m <> [].
Definition scope_names_ok (s : scope) : Prop :=
  sc_name s <> [] /\ forall o, In o (sc_ops s) -> o_name o <> [].

Lemma check_services_graceful l : forall seen,
  (forall s, In s l -> service_names_ok s) -> vgraceful (check_services seen l).
Proof.
  induction l as [|s l IH]; intros seen H; cbn [check_services]; [exact I|].
  destruct (H s (or_introl eq_refl)) as [Hn Hm].
  unfold name_step. destruct (sv_name s) as [|c n]; [congruence|]. cbn [lc_first].
  destruct (assoc_b _ seen); [exact I|].
  apply rand_graceful.
  - apply check_names_graceful. intros n0 Hin. apply in_map_iff in Hin as (m & <- & Hin). auto.
  - intros _. apply IH. intros s' Hs'. apply H. right. exact Hs'.
Qed.
Lemma check_scopes_graceful l : forall seen,
  (forall s, In s l -> scope_names_ok s) -> vgraceful (check_scopes seen l).
Proof.
  induction l as [|s l IH]; intros seen H; cbn [check_scopes]; [exact I|].
  destruct (H s (or_introl eq_refl)) as [Hn Hm].
  unfold name_step. destruct (sc_name s) as [|c n]; [congruence|]. cbn [lc_first].
  destruct (assoc_b _ seen); [exact I|].
  apply rand_graceful.
  - apply check_names_graceful. intros n0 Hin. apply in_map_iff in Hin as (m & <- & Hin). auto.
  - intros _. apply IH. intros s' Hs'. apply H. right. exact Hs'.
Qed.

Lemma check_namespaces_graceful l : vgraceful (check_namespaces l).
Proof. unfold check_namespaces. apply rall_graceful. intros n _. destruct (_ && _); exact I. Qed.
Lemma check_includes_graceful l : forall seen, vgraceful (check_includes seen l).
Proof. induction l as [|i l IH]; intros seen; cbn [check_includes]; [exact I|]. destruct (existsb _ seen); [exact I|apply IH]. Qed.

Lemma check_identifier_graceful f incs name : vgraceful (check_identifier f incs name).
Proof. unfold check_identifier. destruct (find_identifier f incs name); exact I. Qed.
Lemma check_constant_graceful f incs rf c : vgraceful (check_constant f incs rf c).
Proof.
  unfold check_constant. destruct (negb _); [exact I|].
  destruct (c_value c); try exact I. apply check_identifier_graceful.
Qed.

(** * The marking loop of validateTypedefs *)

Definition okset (rf : CompilerTotal.frugal) (r : list bytes) : Prop :=
  NoDup r /\ incl r (map fst (CompilerTotal.typedefs rf)).

Lemma mark_step_ext rf r n :
  okset rf r -> exists pre, CompilerTotal.mark_step rf r n = pre ++ r /\ okset rf (CompilerTotal.mark_step rf r n).
Proof.
  intros [Hnd Hincl]. unfold CompilerTotal.mark_step.
  destruct (CompilerTotal.mem n r) eqn:M; [exists []; split; [reflexivity|split; assumption]|].
  destruct (CompilerTotal.lookup_last n (CompilerTotal.typedefs rf)) as [target|] eqn:L; [|exists []; split; [reflexivity|split; assumption]].
  destruct (CompilerTotal.typedefs_resolved rf r target); [|exists []; split; [reflexivity|split; assumption]].
  exists [n]. split; [reflexivity|]. split.
  - constructor; [|assumption]. intros Hin. apply mem_In in Hin. congruence.
  - intros x [<-|Hx]; [|auto]. apply lookup_last_In in L. apply in_map_iff. exists (n, target). auto.
Qed.
Lemma mark_fold_ext rf names : forall r,
  okset rf r -> exists pre, fold_left (CompilerTotal.mark_step rf) names r = pre ++ r
                            /\ okset rf (fold_left (CompilerTotal.mark_step rf) names r).
Proof.
  induction names as [|n names IH]; intros r H; cbn [fold_left]; [exists []; auto|].
  destruct (mark_step_ext rf r n H) as (p1 & E1 & H1).
  destruct (IH _ H1) as (p2 & E2 & H2).
  exists (p2 ++ p1). split; [|assumption]. rewrite E2, E1, app_assoc. reflexivity.
Qed.
Lemma mark_round_ext rf r :
  okset rf r -> exists pre, CompilerTotal.mark_round rf r = pre ++ r /\ okset rf (CompilerTotal.mark_round rf r).
Proof. unfold CompilerTotal.mark_round. apply mark_fold_ext. Qed.

Lemma iter_fixpoint {A} (g : A -> A) a : g a = a -> forall m, CompilerTotal.iter m g a = a.
Proof. intros H m. induction m as [|m IH]; cbn [CompilerTotal.iter]; [reflexivity|]. rewrite H. exact IH. Qed.

Lemma okset_length rf r : okset rf r -> (length r <= length (CompilerTotal.typedefs rf))%nat.
Proof. intros [Hnd Hincl]. pose proof (NoDup_incl_length Hnd Hincl) as H. rewrite map_length in H. exact H. Qed.

(** with fuel above the number of typedefs not yet marked, the loop [for progress] ends, and it
    ends with what [m] more passes give, for every [m] at least that number *)
Lemma mark_loop_iter rf : forall fuel r m,
  okset rf r ->
  (length (CompilerTotal.typedefs rf) - length r < fuel)%nat ->
  (length (CompilerTotal.typedefs rf) - length r <= m)%nat ->
  mark_loop fuel rf r = Some (CompilerTotal.iter m (CompilerTotal.mark_round rf) r).
Proof.
  induction fuel as [|fuel IH]; intros r m Hok Hf Hm; [lia|].
  cbn [mark_loop].
  destruct (mark_round_ext rf r Hok) as (pre & E & Hok').
  destruct (Nat.eqb_spec (length (CompilerTotal.mark_round rf r)) (length r)) as [Hl|Hl].
  - assert (pre = []) as ->.
    { rewrite E, app_length in Hl. destruct pre; [reflexivity|cbn in Hl; lia]. }
    cbn [app] in E. rewrite (iter_fixpoint _ _ E). rewrite E. reflexivity.
  - pose proof (okset_length _ _ Hok') as Hb.
    assert (length r < length (CompilerTotal.mark_round rf r))%nat as Hgrow.
    { rewrite E, app_length in *. destruct pre; cbn in *; lia. }
    unfold bytes, CompilerTotal.str in *.
    destruct m as [|m]; [lia|]. cbn [CompilerTotal.iter]. apply IH; [assumption|lia|lia].
Qed.

Lemma mark_loop_total rf fuel :
  (S (length (CompilerTotal.typedefs rf)) <= fuel)%nat -> mark_loop fuel rf [] = Some (CompilerTotal.mark_all rf).
Proof.
  intros H. unfold CompilerTotal.mark_all. apply mark_loop_iter.
  - split; [constructor|intros x []].
  - cbn [length]. lia.
  - cbn [length]. lia.
Qed.

Lemma reduce_typedefs_length f incs : length (CompilerTotal.typedefs (reduce f incs)) = length (fr_typedefs f).
Proof. unfold reduce, reduce_with. cbn [CompilerTotal.typedefs]. apply map_length. Qed.

Lemma check_typedefs_graceful fuel f rf :
  (S (length (CompilerTotal.typedefs rf)) <= fuel)%nat -> vgraceful (check_typedefs fuel f rf).
Proof.
  intros H. unfold check_typedefs. apply rand_graceful.
  - apply rall_graceful. intros td _. destruct (valid_ty rf (td_type td)); exact I.
  - intros _. rewrite (mark_loop_total rf fuel H). apply rall_graceful. intros td _. destruct (CompilerTotal.mem _ _); exact I.
Qed.

(** what a successful check_typedefs establishes: the hypotheses of C11's typedef theorems *)
Lemma check_typedefs_sound fuel f incs :
  (S (length (fr_typedefs f)) <= fuel)%nat ->
  check_typedefs fuel f (reduce f incs) = ROk ->
  CompilerTotal.validate_typedefs (reduce f incs) = true.
Proof.
  intros Hf H. unfold check_typedefs in H. apply rand_ok in H as [H1 H2].
  rewrite mark_loop_total in H2 by (rewrite reduce_typedefs_length; exact Hf).
  unfold CompilerTotal.validate_typedefs. apply andb_true_iff. split.
  - apply forallb_forall. intros d Hd. unfold reduce, reduce_with in Hd. cbn [CompilerTotal.typedefs] in Hd.
    apply in_map_iff in Hd as (td & <- & Hin). cbn [snd].
    pose proof (rall_ok _ _ H1 td Hin) as Hv. cbn beta in Hv.
    unfold valid_ty in Hv. destruct (CompilerTotal.is_valid_type (reduce f incs) (ty_of (td_type td))); [reflexivity|discriminate].
  - apply forallb_forall. intros d Hd. unfold reduce, reduce_with in Hd. cbn [CompilerTotal.typedefs] in Hd.
    apply in_map_iff in Hd as (td & <- & Hin). cbn [fst].
    pose proof (rall_ok _ _ H2 td Hin) as Hv. cbn beta in Hv.
    destruct (CompilerTotal.mem (td_name td) (CompilerTotal.mark_all (reduce f incs))); [reflexivity|discriminate].
Qed.

(** * Struct-likes and scopes *)
Lemma check_fields_graceful rf sname fs : forall ids names, vgraceful (check_fields rf sname fs ids names).
Proof.
  induction fs as [|x fs IH]; intros ids names; cbn [check_fields]; [exact I|].
  destruct (negb _); [exact I|]. destruct (existsb _ ids); [exact I|]. destruct (existsb _ names); [exact I|]. apply IH.
Qed.
Lemma check_scope_graceful rf s : vgraceful (check_scope rf s).
Proof.
  unfold check_scope. apply rand_graceful.
  - destruct (first_dup_var [] (p_vars (sc_prefix s))); exact I.
  - intros _. apply rall_graceful. intros o _. destruct (valid_ty rf (o_type o)); exact I.
Qed.

(** a scope that passes names each prefix variable once *)
Lemma first_dup_var_none vars : forall seen,
  first_dup_var seen vars = None -> NoDup vars /\ forall v, In v vars -> ~ In v seen.
Proof.
  induction vars as [|v t IH]; intros seen H; cbn [first_dup_var] in H.
  - split; [constructor|intros v []].
  - destruct (existsb (beqb v) seen) eqn:E; [discriminate|].
    destruct (IH (v :: seen) H) as [ND Hnot]. split.
    + constructor; [|exact ND]. intros Hin. apply (Hnot v Hin). left. reflexivity.
    + intros x [<-|Hin].
      * intros Hs. assert (existsb (beqb v) seen = true) as X; [|congruence].
        apply existsb_exists. exists v. split; [exact Hs|]. apply beqb_refl.
      * intros Hs. apply (Hnot x Hin). right. exact Hs.
Qed.
Lemma check_scope_prefix_vars_distinct rf s : check_scope rf s = ROk -> NoDup (p_vars (sc_prefix s)).
Proof.
  unfold check_scope. intros H. apply rand_ok in H as [H _].
  destruct (first_dup_var [] (p_vars (sc_prefix s))) eqn:E; [discriminate|].
  apply (first_dup_var_none _ [] E).
Qed.

(** * Services *)
Lemma find_service_In l n s : find_service l n = Some s -> In s l.
Proof.
  induction l as [|x l IH]; cbn [find_service]; [discriminate|].
  destruct (beqb n (sv_name x)); [intros [= <-]; left; reflexivity|]. intros H. right. auto.
Qed.
Lemma find_service_name l n s : find_service l n = Some s -> sv_name s = n.
Proof.
  induction l as [|x l IH]; cbn [find_service]; [discriminate|].
  destruct (beqb n (sv_name x)) eqn:E; [intros [= <-]; symmetry; apply beqb_eq; exact E|]. exact IH.
Qed.

(** the walk of validateServiceExtends ends within (number of services - services visited) + 1
    iterations: the visited names are pairwise distinct names of services of the file *)
Lemma extends_walk_graceful f incs start : forall fuel cur visited,
  NoDup visited -> incl visited (map sv_name (fr_services f)) -> In cur (fr_services f) ->
  (length (fr_services f) - length visited < fuel)%nat ->
  vgraceful (extends_walk fuel f incs start cur visited).
Proof.
  induction fuel as [|fuel IH]; intros cur visited Hnd Hincl Hcur Hf; [lia|].
  cbn [extends_walk].
  destruct (beqb (sv_extends cur) []); [exact I|].
  destruct (existsb (beqb (sv_name cur)) visited) eqn:V; [exact I|].
  destruct (negb (beqb (extends_include (sv_extends cur)) [])).
  - destruct (inc_get incs _) as [sub|]; [|exact I]. destruct (find_service _ _); exact I.
  - destruct (find_service (fr_services f) _) as [next|] eqn:F; [|exact I].
    assert (NoDup (sv_name cur :: visited)) as Hnd' by (constructor; [apply existsb_beqb_false; exact V|exact Hnd]).
    assert (incl (sv_name cur :: visited) (map sv_name (fr_services f))) as Hincl'.
    { intros x [<-|Hx]; [apply in_map; exact Hcur|auto]. }
    pose proof (NoDup_incl_length Hnd' Hincl') as Hlen. rewrite map_length in Hlen. cbn [length] in Hlen.
    apply IH; [assumption|assumption|eapply find_service_In; exact F|cbn [length]; lia].
Qed.

Lemma extends_walk_mono f incs start : forall fuel cur visited r,
  extends_walk fuel f incs start cur visited = r -> r <> RFuel ->
  forall fuel', (fuel <= fuel')%nat -> extends_walk fuel' f incs start cur visited = r.
Proof.
  induction fuel as [|fuel IH]; intros cur visited r H Hr fuel' Hle; [cbn in H; congruence|].
  destruct fuel' as [|fuel']; [lia|]. cbn [extends_walk] in *.
  destruct (beqb (sv_extends cur) []); [exact H|].
  destruct (existsb _ visited); [exact H|].
  destruct (negb _); [exact H|].
  destruct (find_service (fr_services f) _); [|exact H].
  eapply IH; [exact H|exact Hr|lia].
Qed.

Lemma check_dups_graceful wh fs : forall ids names, vgraceful (check_dups wh fs ids names).
Proof.
  induction fs as [|x fs IH]; intros ids names; cbn [check_dups]; [exact I|].
  destruct (existsb _ ids); [exact I|]. destruct (existsb _ names); [exact I|]. apply IH.
Qed.
Lemma check_method_rules_graceful sname m : vgraceful (check_method_rules sname m).
Proof.
  unfold check_method_rules. apply rand_graceful.
  - destruct (m_oneway m); [|exact I]. destruct (m_throws m); [|exact I]. destruct (m_return m); exact I.
  - intros _. apply rand_graceful; [apply check_dups_graceful|intros _; apply check_dups_graceful].
Qed.

Lemma ty_of_nonnil t : ty_of t <> CompilerTotal.TNil.
Proof. destruct t; cbn; discriminate. Qed.

(** what has to be known about the reduced file for UnderlyingType to return within [fuel] *)
Definition resolves_all (fuel : nat) (rf : CompilerTotal.frugal) : Prop :=
  forall t, t <> CompilerTotal.TNil -> exists u, CompilerTotal.underlying fuel rf t = CompilerTotal.COk u.

Lemma is_exception_some fuel f incs rf t :
  resolves_all fuel rf -> exists b, is_exception fuel f incs rf t = Some b.
Proof.
  intros H. unfold is_exception. destruct (H (ty_of t) (ty_of_nonnil t)) as [u Hu]. rewrite Hu.
  pose proof (underlying_ok_nonnil _ _ _ _ Hu) as Hnn. destruct u as [|name k v]; [congruence|].
  destruct (if beqb (include_part name) [] then Some f else option_map ft_frugal (inc_get incs (include_part name)));
    eauto.
Qed.

Lemma check_method_types_graceful fuel f incs rf sname m :
  resolves_all fuel rf -> vgraceful (check_method_types fuel f incs rf sname m).
Proof.
  intros H. unfold check_method_types. apply rand_graceful.
  - destruct (m_return m) as [t|]; [|exact I]. destruct (valid_ty rf t); exact I.
  - intros _. apply rand_graceful.
    + apply rall_graceful. intros a _. destruct (valid_ty rf (f_type a)); exact I.
    + intros _. apply rall_graceful. intros a _. destruct (negb _); [exact I|].
      destruct (is_exception_some fuel f incs rf (f_type a) H) as [b ->]. destruct b; exact I.
Qed.

Lemma check_service_graceful fuel f incs rf s :
  resolves_all fuel rf -> In s (fr_services f) -> (S (length (fr_services f)) <= fuel)%nat ->
  vgraceful (check_service fuel f incs rf s).
Proof.
  intros H Hin Hf. unfold check_service. apply rand_graceful.
  - apply rall_graceful. intros m _. apply check_method_types_graceful. exact H.
  - intros _. apply rand_graceful.
    + apply extends_walk_graceful; [constructor|intros x []|exact Hin|cbn [length]; lia].
    + intros _. apply rall_graceful. intros m _. apply check_method_rules_graceful.
Qed.

(** * validate is total *)
(** names the grammar guarantees (Identifier is not empty and does not start with a dot) *)
Definition file_names_ok (f : frugal) : Prop :=
  (forall s, In s (fr_services f) -> service_names_ok s)
  /\ (forall s, In s (fr_scopes f) -> scope_names_ok s)
  /\ forallb (fun td => CompilerTotal.name_ok (type_name (td_type td))) (fr_typedefs f) = true.

Lemma reduce_names_ok f incs :
  forallb (fun td => CompilerTotal.name_ok (type_name (td_type td))) (fr_typedefs f) = true ->
  forallb (fun d => CompilerTotal.top_name_ok (snd d)) (CompilerTotal.typedefs (reduce f incs)) = true.
Proof.
  intros H. unfold reduce, reduce_with. cbn [CompilerTotal.typedefs]. rewrite forallb_forall in *.
  intros d Hd. apply in_map_iff in Hd as (td & <- & Hin). cbn [snd]. specialize (H td Hin).
  destruct (td_type td). cbn in *. exact H.
Qed.

Lemma weight_reduce f incs : CompilerTotal.weight (reduce f incs) = S (length (fr_typedefs f) + sum_weights (reduce_incs incs)).
Proof. rewrite weight_eq. rewrite reduce_typedefs_length. unfold reduce, reduce_with. cbn [CompilerTotal.incs]. reflexivity. Qed.

(** the includes have been validated (parseFrugal validates a file after its includes) *)
Definition incs_wellvalidated (incs : list (bytes * ftree)) : Prop :=
  forall k sub, In (k, sub) incs -> wellvalidated (reduce_tree sub).

Lemma reduce_incs_In incs n g : In (n, g) (reduce_incs incs) -> exists sub, In (n, sub) incs /\ g = reduce_tree sub.
Proof. unfold reduce_incs. intros H. apply in_map_iff in H as ([k sub] & [= <- <-] & Hin). eauto. Qed.

Lemma wellvalidated_typedefs_nonnil g : wellvalidated g -> forall k t, In (k, t) (CompilerTotal.typedefs g) -> t <> CompilerTotal.TNil.
Proof.
  intros H k t Hin. inversion H as [g' Hv _ _]; subst.
  destruct (validate_types_parts g Hv) as (H1 & _ & _). rewrite forallb_forall in H1.
  apply (valid_nonnil g). exact (H1 _ Hin).
Qed.

(** after validateTypedefs succeeded, UnderlyingType returns on every type within the weight *)
Lemma typedefs_ok_resolves f incs :
  incs_wellvalidated incs ->
  forallb (fun td => CompilerTotal.name_ok (type_name (td_type td))) (fr_typedefs f) = true ->
  CompilerTotal.validate_typedefs (reduce f incs) = true ->
  resolves_all (CompilerTotal.weight (reduce f incs)) (reduce f incs).
Proof.
  intros Hincs Hnames Hv t Hnn.
  unfold CompilerTotal.validate_typedefs in Hv. apply andb_true_iff in Hv as [Hv1 Hv2].
  apply underlying_terminates_file; auto.
  - intros n g Hin t' Hnn'. unfold reduce, reduce_with in Hin. cbn [CompilerTotal.incs] in Hin.
    apply reduce_incs_In in Hin as (sub & Hin & ->). apply underlying_terminates; [eapply Hincs; exact Hin|exact Hnn'].
  - intros n g Hin k t' Hin'. unfold reduce, reduce_with in Hin. cbn [CompilerTotal.incs] in Hin.
    apply reduce_incs_In in Hin as (sub & Hin & ->). eapply wellvalidated_typedefs_nonnil; [eapply Hincs; exact Hin|exact Hin'].
  - apply reduce_names_ok. exact Hnames.
Qed.

Lemma resolves_all_mono fuel fuel' rf : resolves_all fuel rf -> (fuel <= fuel')%nat -> resolves_all fuel' rf.
Proof. intros H Hle t Hnn. destruct (H t Hnn) as [u Hu]. exists u. eapply underlying_mono; eauto. Qed.

Theorem cvalidate_decls_total fuel f incs :
  file_names_ok f -> incs_wellvalidated incs ->
  (validate_fuel f incs <= fuel)%nat ->
  vgraceful (cvalidate_decls fuel f incs).
Proof.
  intros (Hsv & Hsc & Htd) Hincs Hfuel. unfold validate_fuel in Hfuel.
  pose proof (weight_reduce f incs) as Hw.
  unfold cvalidate_decls.
  apply rand_graceful; [apply check_services_graceful; exact Hsv|intros _].
  apply rand_graceful; [apply check_scopes_graceful; exact Hsc|intros _].
  apply rand_graceful; [apply check_namespaces_graceful|intros _].
  apply rand_graceful; [apply check_includes_graceful|intros _].
  apply rand_graceful; [apply rall_graceful; intros c _; apply check_constant_graceful|intros _].
  apply rand_graceful; [apply check_typedefs_graceful; rewrite reduce_typedefs_length; lia|intros Htds].
  apply check_typedefs_sound in Htds; [|lia].
  apply rand_graceful; [apply rall_graceful; intros s _; apply check_fields_graceful|intros _].
  apply rand_graceful; [apply rall_graceful; intros s _; apply check_fields_graceful|intros _].
  apply rand_graceful; [apply rall_graceful; intros s _; apply check_fields_graceful|intros _].
  apply rand_graceful.
  - apply rall_graceful. intros s Hs. apply check_service_graceful; [|exact Hs|lia].
    eapply resolves_all_mono; [apply typedefs_ok_resolves; eassumption|lia].
  - intros _. apply rall_graceful. intros s _. apply check_scope_graceful.
Qed.

(** * What a successful validation guarantees *)
Lemma check_fields_valid rf sname fs : forall ids names,
  check_fields rf sname fs ids names = ROk -> forall x, In x fs -> valid_ty rf (f_type x) = true.
Proof.
  induction fs as [|y fs IH]; intros ids names H x Hin; [destruct Hin|].
  cbn [check_fields] in H. destruct (valid_ty rf (f_type y)) eqn:V; cbn [negb] in H; [|discriminate].
  destruct (existsb _ ids); [discriminate|]. destruct (existsb _ names); [discriminate|].
  destruct Hin as [<-|Hin]; [exact V|]. eapply IH; eauto.
Qed.

(** duplicate-free ids and names, as validateStructLike / Service.validate leave them *)
Lemma check_fields_nodup rf sname fs : forall ids names,
  check_fields rf sname fs ids names = ROk ->
  NoDup (map f_id fs) /\ NoDup (map f_name fs)
  /\ (forall x, In x fs -> ~ In (f_id x) ids /\ ~ In (f_name x) names).
Proof.
  induction fs as [|y fs IH]; intros ids names H.
  { cbn [map]. split; [constructor|]. split; [constructor|]. intros x []. }
  cbn [check_fields] in H. destruct (negb _); [discriminate|].
  destruct (existsb (Z.eqb (f_id y)) ids) eqn:E1; [discriminate|].
  destruct (existsb (beqb (f_name y)) names) eqn:E2; [discriminate|].
  destruct (IH _ _ H) as (N1 & N2 & N3).
  assert (~ In (f_id y) ids) as Hid.
  { intros Hin. assert (existsb (Z.eqb (f_id y)) ids = true) as C; [|congruence].
    apply existsb_exists. exists (f_id y). split; [assumption|apply Z.eqb_refl]. }
  pose proof (existsb_beqb_false _ _ E2) as Hnm.
  split; [|split].
  - cbn [map]. constructor; [|exact N1]. intros Hin. apply in_map_iff in Hin as (x & Ex & Hx).
    destruct (N3 x Hx) as [C _]. apply C. left. symmetry. exact Ex.
  - cbn [map]. constructor; [|exact N2]. intros Hin. apply in_map_iff in Hin as (x & Ex & Hx).
    destruct (N3 x Hx) as [_ C]. apply C. left. symmetry. exact Ex.
  - intros x [<-|Hx]; [split; assumption|].
    destruct (N3 x Hx) as [C1 C2]. split; intros Hin; [apply C1|apply C2]; right; exact Hin.
Qed.

Lemma check_method_types_parts fuel f incs rf sname m :
  check_method_types fuel f incs rf sname m = ROk ->
  (forall t, m_return m = Some t -> valid_ty rf t = true)
  /\ (forall a, In a (m_args m) -> valid_ty rf (f_type a) = true)
  /\ (forall a, In a (m_throws m) -> valid_ty rf (f_type a) = true
                                   /\ is_exception fuel f incs rf (f_type a) = Some true).
Proof.
  unfold check_method_types. intros H. apply rand_ok in H as [H1 H]. apply rand_ok in H as [H2 H3].
  split; [|split].
  - intros t Et. rewrite Et in H1. destruct (valid_ty rf t); [reflexivity|discriminate].
  - intros a Ha. pose proof (rall_ok _ _ H2 a Ha) as Hv. cbn beta in Hv. destruct (valid_ty rf (f_type a)); [reflexivity|discriminate].
  - intros a Ha. pose proof (rall_ok _ _ H3 a Ha) as Hv. cbn beta in Hv.
    destruct (valid_ty rf (f_type a)); cbn [negb] in Hv; [|discriminate]. split; [reflexivity|].
    destruct (is_exception fuel f incs rf (f_type a)) as [[|]|]; [reflexivity|discriminate|discriminate].
Qed.

(** the chain of extended services of a validated file: it ends (so it is acyclic) and every
    link resolves, in the file or in the include it names *)
Inductive extends_ok (f : frugal) (incs : list (bytes * ftree)) : service -> Prop :=
| ExtNone s : sv_extends s = [] -> extends_ok f incs s
| ExtInclude s sub base :
    extends_include (sv_extends s) <> [] ->
    inc_get incs (extends_include (sv_extends s)) = Some sub ->
    find_service (fr_services (ft_frugal sub)) (extends_service (sv_extends s)) = Some base ->
    extends_ok f incs s
| ExtLocal s next :
    sv_extends s <> [] -> extends_include (sv_extends s) = [] ->
    find_service (fr_services f) (extends_service (sv_extends s)) = Some next ->
    extends_ok f incs next -> extends_ok f incs s.

Lemma beqb_nil_false a : beqb a [] = false -> a <> [].
Proof. intros H ->. cbn in H. discriminate. Qed.
Lemma beqb_nil_true a : beqb a [] = true -> a = [].
Proof. apply beqb_eq. Qed.

Lemma extends_walk_sound f incs start : forall fuel cur visited,
  extends_walk fuel f incs start cur visited = ROk -> extends_ok f incs cur.
Proof.
  induction fuel as [|fuel IH]; intros cur visited H; [discriminate|].
  cbn [extends_walk] in H.
  destruct (beqb (sv_extends cur) []) eqn:E; [apply ExtNone, beqb_nil_true, E|].
  destruct (existsb _ visited); [discriminate|].
  destruct (beqb (extends_include (sv_extends cur)) []) eqn:I; cbn [negb] in H.
  - destruct (find_service (fr_services f) _) as [next|] eqn:F; [|discriminate].
    eapply ExtLocal; [apply beqb_nil_false, E|apply beqb_nil_true, I|exact F|eapply IH; exact H].
  - destruct (inc_get incs _) as [sub|] eqn:G; [|discriminate].
    destruct (find_service _ _) as [base|] eqn:F; [|discriminate].
    eapply ExtInclude; [apply beqb_nil_false, I|exact G|exact F].
Qed.

Record validated_facts (fuel : nat) (f : frugal) (incs : list (bytes * ftree)) : Prop := {
  vf_typedefs : CompilerTotal.validate_typedefs (reduce f incs) = true;
  vf_typedef_targets : forall td, In td (fr_typedefs f) -> valid_ty (reduce f incs) (td_type td) = true;
  vf_uses : forall t, In t (file_uses f) -> valid_ty (reduce f incs) t = true;
  vf_ops : forall s o, In s (fr_scopes f) -> In o (sc_ops s) -> valid_ty (reduce f incs) (o_type o) = true;
  vf_prefix_vars : forall s, In s (fr_scopes f) -> NoDup (p_vars (sc_prefix s));
  vf_extends : forall s, In s (fr_services f) -> extends_ok f incs s;
  vf_throws : forall s m a, In s (fr_services f) -> In m (sv_methods s) -> In a (m_throws m) ->
                            is_exception fuel f incs (reduce f incs) (f_type a) = Some true;
  vf_oneway : forall s m, In s (fr_services f) -> In m (sv_methods s) -> m_oneway m = true ->
                          m_return m = None /\ m_throws m = [];
  vf_field_ids : forall s, In s (fr_structs f ++ fr_unions f ++ fr_exceptions f) ->
                           NoDup (map f_id (s_fields s)) /\ NoDup (map f_name (s_fields s));
  vf_const_refs : forall c name, In c (fr_constants f) -> c_value c = CIdent name ->
                                 check_identifier f incs name = ROk
}.

Lemma in_flat_map_intro {A B} (g : A -> list B) l a b : In a l -> In b (g a) -> In b (flat_map g l).
Proof. intros H1 H2. apply in_flat_map. eauto. Qed.

Theorem cvalidate_decls_facts fuel f incs :
  (S (length (fr_typedefs f)) <= fuel)%nat ->
  cvalidate_decls fuel f incs = ROk -> validated_facts fuel f incs.
Proof.
  intros Hfuel H. unfold cvalidate_decls in H.
  apply rand_ok in H as [_ H]. apply rand_ok in H as [_ H]. apply rand_ok in H as [_ H].
  apply rand_ok in H as [_ H]. apply rand_ok in H as [Hc H]. apply rand_ok in H as [Htd H].
  apply rand_ok in H as [Hs H]. apply rand_ok in H as [Hu H]. apply rand_ok in H as [Hx H].
  apply rand_ok in H as [Hsv Hsc].
  pose proof (check_typedefs_sound fuel f incs Hfuel Htd) as Hvt.
  assert (forall s, In s (fr_structs f ++ fr_unions f ++ fr_exceptions f) ->
                    check_struct (reduce f incs) s = ROk) as Hall.
  { intros s Hin. apply in_app_or in Hin as [Hin|Hin]; [exact (rall_ok _ _ Hs s Hin)|].
    apply in_app_or in Hin as [Hin|Hin]; [exact (rall_ok _ _ Hu s Hin)|exact (rall_ok _ _ Hx s Hin)]. }
  constructor.
  - exact Hvt.
  - intros td Hin. unfold check_typedefs in Htd. apply rand_ok in Htd as [H1 _].
    pose proof (rall_ok _ _ H1 td Hin) as Hv. cbn beta in Hv.
    destruct (valid_ty (reduce f incs) (td_type td)); [reflexivity|discriminate].
  - intros t Hin. unfold file_uses in Hin.
    apply in_app_or in Hin as [Hin|Hin].
    { apply in_map_iff in Hin as (c & <- & Hin). pose proof (rall_ok _ _ Hc c Hin) as Hv.
      unfold check_constant in Hv. destruct (valid_ty (reduce f incs) (c_type c)); [reflexivity|discriminate]. }
    assert (forall l, (forall s, In s l -> check_struct (reduce f incs) s = ROk) ->
                      In t (flat_map (fun s => map f_type (s_fields s)) l) -> valid_ty (reduce f incs) t = true) as Hst.
    { intros l Hl Hin'. apply in_flat_map in Hin' as (s & Hs' & Hin'). apply in_map_iff in Hin' as (x & <- & Hx').
      eapply check_fields_valid; [exact (Hl s Hs')|exact Hx']. }
    apply in_app_or in Hin as [Hin|Hin]; [apply (Hst _ (rall_ok _ _ Hs) Hin)|].
    apply in_app_or in Hin as [Hin|Hin]; [apply (Hst _ (rall_ok _ _ Hu) Hin)|].
    apply in_app_or in Hin as [Hin|Hin]; [apply (Hst _ (rall_ok _ _ Hx) Hin)|].
    apply in_flat_map in Hin as (s & Hs' & Hin). apply in_flat_map in Hin as (m & Hm & Hin).
    pose proof (rall_ok _ _ Hsv s Hs') as Hcs. unfold check_service in Hcs. apply rand_ok in Hcs as [Hmt _].
    destruct (check_method_types_parts _ _ _ _ _ _ (rall_ok _ _ Hmt m Hm)) as (R1 & R2 & R3).
    unfold method_types in Hin. apply in_app_or in Hin as [Hin|Hin].
    + destruct (m_return m) as [rt|]; [|destruct Hin]. destruct Hin as [<-|[]]. apply R1. reflexivity.
    + apply in_app_or in Hin as [Hin|Hin]; apply in_map_iff in Hin as (a & <- & Ha); [apply R2; exact Ha|apply R3; exact Ha].
  - intros s o Hs' Ho.
    pose proof (rall_ok _ _ Hsc s Hs') as Hcs. unfold check_scope in Hcs. apply rand_ok in Hcs as [_ Hcs].
    pose proof (rall_ok _ _ Hcs o Ho) as Hv. cbn beta in Hv.
    destruct (valid_ty (reduce f incs) (o_type o)); [reflexivity|discriminate].
  - intros s Hs'. exact (check_scope_prefix_vars_distinct _ s (rall_ok _ _ Hsc s Hs')).
  - intros s Hin. pose proof (rall_ok _ _ Hsv s Hin) as Hcs. unfold check_service in Hcs.
    apply rand_ok in Hcs as [_ Hcs]. apply rand_ok in Hcs as [Hw _]. eapply extends_walk_sound; exact Hw.
  - intros s m a Hs' Hm Ha. pose proof (rall_ok _ _ Hsv s Hs') as Hcs. unfold check_service in Hcs.
    apply rand_ok in Hcs as [Hmt _].
    destruct (check_method_types_parts _ _ _ _ _ _ (rall_ok _ _ Hmt m Hm)) as (_ & _ & R3). apply R3. exact Ha.
  - intros s m Hs' Hm Ho. pose proof (rall_ok _ _ Hsv s Hs') as Hcs. unfold check_service in Hcs.
    apply rand_ok in Hcs as [_ Hcs]. apply rand_ok in Hcs as [_ Hr].
    pose proof (rall_ok _ _ Hr m Hm) as Hmr. unfold check_method_rules in Hmr. apply rand_ok in Hmr as [Hmr _].
    rewrite Ho in Hmr. destruct (m_throws m); [|discriminate]. destruct (m_return m); [discriminate|]. auto.
  - intros s Hin. pose proof (Hall s Hin) as Hcs. unfold check_struct in Hcs.
    destruct (check_fields_nodup _ _ _ _ _ Hcs) as (N1 & N2 & _). auto.
  - intros c name Hin Ev. pose proof (rall_ok _ _ Hc c Hin) as Hv. unfold check_constant in Hv.
    destruct (negb _); [discriminate|]. rewrite Ev in Hv. exact Hv.
Qed.

(** a validated file over validated includes is [wellvalidated] in the sense of C11's typedef
    theorems: UnderlyingType terminates on it within its weight *)
Theorem cvalidate_decls_wellvalidated fuel f incs :
  (S (length (fr_typedefs f)) <= fuel)%nat ->
  forallb (fun td => CompilerTotal.name_ok (type_name (td_type td))) (fr_typedefs f) = true ->
  incs_wellvalidated incs ->
  cvalidate_decls fuel f incs = ROk -> wellvalidated (reduce f incs).
Proof.
  intros Hfuel Hnames Hincs H. destruct (cvalidate_decls_facts fuel f incs Hfuel H) as [Hvt _ Huses _ _ _ _ _ _].
  constructor.
  - unfold CompilerTotal.validate_types. rewrite Hvt. cbn [andb].
    apply forallb_forall. intros t Hin. unfold reduce, reduce_with in Hin. cbn [CompilerTotal.uses] in Hin.
    apply in_map_iff in Hin as (pt & <- & Hin). apply Huses. exact Hin.
  - apply reduce_names_ok. exact Hnames.
  - intros n g Hin. unfold reduce, reduce_with in Hin. cbn [CompilerTotal.incs] in Hin.
    apply reduce_incs_In in Hin as (sub & Hin & ->). eapply Hincs. exact Hin.
Qed.

(** * parseFrugal is total *)
Lemma reduce_tree_eq name f incs : reduce_tree (FTree name f incs) = reduce f incs.
Proof.
  cbn [reduce_tree]. unfold reduce. f_equal. unfold reduce_incs.
  induction incs as [|[k sub] incs IH]; [reflexivity|]. cbn [map fst snd]. f_equal. exact IH.
Qed.
Lemma reduce_with_scopes f sc incs : reduce (with_scopes f sc) incs = reduce f incs.
Proof. reflexivity. Qed.

(** * validateValues: the pass is total on validated declarations, and what it guarantees *)
Lemma beqb_str_eqb a : forall b, beqb a b = CompilerTotal.str_eqb a b.
Proof. intros b. reflexivity. Qed.
Lemma str_eqb_sym a : forall b, CompilerTotal.str_eqb a b = CompilerTotal.str_eqb b a.
Proof. induction a as [|x a IH]; intros [|y b]; cbn [CompilerTotal.str_eqb]; try reflexivity. rewrite IH, Z.eqb_sym. reflexivity. Qed.

Lemma inc_get_In incs k sub : inc_get incs k = Some sub -> exists k', In (k', sub) incs.
Proof.
  induction incs as [|[k' t] incs IH]; cbn [inc_get]; [discriminate|].
  destruct (beqb k' k); [intros [= <-]; exists k'; left; reflexivity|].
  intros H. destruct (IH H) as [k'' Hin]. exists k''. right. exact Hin.
Qed.

Lemma assoc_reduce_incs incs k :
  CompilerTotal.assoc k (reduce_incs incs) = option_map reduce_tree (inc_get incs k).
Proof.
  unfold reduce_incs. induction incs as [|[k' sub] incs IH]; [reflexivity|].
  cbn [map fst snd CompilerTotal.assoc inc_get]. change (beqb k' k) with (CompilerTotal.str_eqb k' k). rewrite (str_eqb_sym k' k).
  destruct (CompilerTotal.str_eqb k k'); [reflexivity|exact IH].
Qed.

Lemma lookup_last_map {A B} (key : A -> bytes) (h : A -> B) k l :
  CompilerTotal.lookup_last k (map (fun x => (key x, h x)) l)
  = option_map h (CompilerTotal.lookup_last k (map (fun x => (key x, x)) l)).
Proof.
  induction l as [|x l IH]; [reflexivity|]. cbn [map CompilerTotal.lookup_last]. rewrite IH.
  destruct (CompilerTotal.lookup_last k (map (fun x0 => (key x0, x0)) l)); [reflexivity|].
  cbn [option_map]. destruct (CompilerTotal.str_eqb k (key x)); reflexivity.
Qed.

Definition rscope (sc : vscope) : CompilerTotal.frugal := reduce (fst sc) (snd sc).
Lemma rscope_tree sub : rscope (scope_of_tree sub) = reduce_tree sub.
Proof. destruct sub as [name f incs]. unfold rscope. cbn [scope_of_tree fst snd]. symmetry. apply reduce_tree_eq. Qed.

Lemma find_typedef_reduce sc pn :
  CompilerTotal.lookup_last pn (CompilerTotal.typedefs (rscope sc))
  = option_map (fun td => ty_of (td_type td)) (find_typedef (fst sc) pn).
Proof.
  unfold rscope, reduce, reduce_with, find_typedef. cbn [CompilerTotal.typedefs].
  apply (lookup_last_map td_name (fun td => ty_of (td_type td))).
Qed.
Lemma find_typedef_In g pn td : find_typedef g pn = Some td -> In td (fr_typedefs g).
Proof.
  unfold find_typedef. intros H. apply lookup_last_In in H. apply in_map_iff in H as (x & [= _ <-] & Hin). exact Hin.
Qed.

(** a scope the value pass may read types in: validated, and within the fuel *)
Definition scope_ok (fuel : nat) (sc : vscope) : Prop :=
  wellvalidated (rscope sc) /\ (CompilerTotal.weight (rscope sc) <= fuel)%nat.

Lemma scope_ok_sub fuel sc k sub :
  scope_ok fuel sc -> inc_get (snd sc) k = Some sub -> scope_ok fuel (scope_of_tree sub).
Proof.
  intros [Hw Hf] Hg. destruct (inc_get_In _ _ _ Hg) as [k' Hin].
  assert (In (k', reduce_tree sub) (CompilerTotal.incs (rscope sc))) as Hin'.
  { unfold rscope, reduce, reduce_with. cbn [CompilerTotal.incs]. unfold reduce_incs.
    apply in_map_iff. exists (k', sub). split; [reflexivity|exact Hin]. }
  unfold scope_ok. rewrite rscope_tree. split.
  - inversion Hw as [g _ _ Hsub]; subst. eapply Hsub. exact Hin'.
  - pose proof (weight_in _ _ _ Hin') as Hle. rewrite (weight_eq (rscope sc)) in Hf. lia.
Qed.

Lemma declaring_file_ok fuel sc name d :
  scope_ok fuel sc -> declaring_file sc name = Some d -> scope_ok fuel d.
Proof.
  unfold declaring_file. intros Hok. destruct (CompilerTotal.is_nil _); [intros [= <-]; exact Hok|].
  destruct (inc_get (snd sc) _) as [sub|] eqn:G; [|discriminate]. intros [= <-]. eapply scope_ok_sub; eauto.
Qed.

(** underlyingScopedType follows the chain UnderlyingType follows: it ends whenever that does *)
Lemma uscoped_sim : forall fuel sc t u,
  CompilerTotal.underlying fuel (rscope sc) (ty_of t) = CompilerTotal.COk u ->
  exists r, uscoped fuel sc t = Some r.
Proof.
  induction fuel as [|fuel IH]; intros sc t u H; [discriminate|].
  destruct t as [name k v a]. cbn [ty_of CompilerTotal.underlying] in H. cbn [uscoped type_name].
  unfold declaring_file.
  destruct (CompilerTotal.is_nil (CompilerTotal.include_name name)) eqn:E; cbn [negb] in H.
  - rewrite find_typedef_reduce in H.
    destruct (find_typedef (fst sc) (CompilerTotal.param_name name)) as [td|]; [|eauto].
    cbn [option_map] in H. eapply IH. exact H.
  - unfold rscope at 1 in H. unfold reduce, reduce_with in H. cbn [CompilerTotal.incs] in H.
    rewrite assoc_reduce_incs in H.
    destruct (inc_get (snd sc) (CompilerTotal.include_name name)) as [sub|]; cbn [option_map] in *; [|eauto].
    rewrite <- rscope_tree, find_typedef_reduce in H.
    destruct (find_typedef (fst (scope_of_tree sub)) (CompilerTotal.param_name name)) as [td|]; [|eauto].
    cbn [option_map] in H.
    destruct (CompilerTotal.underlying fuel (rscope (scope_of_tree sub)) (ty_of (td_type td))) as [u'| | |] eqn:U;
      try discriminate.
    eapply IH. exact U.
Qed.

Lemma uscoped_total fuel sc t : scope_ok fuel sc -> exists r, uscoped fuel sc t = Some r.
Proof.
  intros [Hw Hf]. destruct (underlying_terminates _ Hw (ty_of t) (ty_of_nonnil t)) as [u Hu].
  eapply uscoped_sim. eapply underlying_mono; [exact Hu|exact Hf].
Qed.

Definition tvalid (sc : vscope) (t : ptype) : Prop := valid_ty (rscope sc) t = true.

Lemma wellvalidated_typedef_valid sc td :
  wellvalidated (rscope sc) -> In td (fr_typedefs (fst sc)) -> tvalid sc (td_type td).
Proof.
  intros Hw Hin. inversion Hw as [g Hv _ _]; subst. destruct (validate_types_parts _ Hv) as (H1 & _ & _).
  rewrite forallb_forall in H1. unfold tvalid, valid_ty.
  apply (H1 (td_name td, ty_of (td_type td))).
  unfold rscope, reduce, reduce_with. cbn [CompilerTotal.typedefs]. apply in_map_iff. exists td. auto.
Qed.
Lemma wellvalidated_use_valid sc t :
  wellvalidated (rscope sc) -> In t (file_uses (fst sc)) -> tvalid sc t.
Proof.
  intros Hw Hin. inversion Hw as [g Hv _ _]; subst. destruct (validate_types_parts _ Hv) as (_ & _ & H3).
  rewrite forallb_forall in H3. unfold tvalid, valid_ty. apply H3.
  unfold rscope, reduce, reduce_with. cbn [CompilerTotal.uses]. apply in_map. exact Hin.
Qed.

(** the result of underlyingScopedType is read in a validated scope and is a valid type there *)
Lemma uscoped_inv B : forall fuel sc t sc' t',
  uscoped fuel sc t = Some (sc', t') -> scope_ok B sc -> tvalid sc t -> scope_ok B sc' /\ tvalid sc' t'.
Proof.
  induction fuel as [|fuel IH]; intros sc t sc' t' H Hok Hv; [discriminate|].
  cbn [uscoped] in H.
  destruct (declaring_file sc (type_name t)) as [d|] eqn:D; [|injection H as <- <-; auto].
  destruct (find_typedef (fst d) _) as [td|] eqn:F; [|injection H as <- <-; auto].
  pose proof (declaring_file_ok _ _ _ _ Hok D) as Hd.
  exact (IH _ _ _ _ H Hd (wellvalidated_typedef_valid _ _ (proj1 Hd) (find_typedef_In _ _ _ F))).
Qed.

(** element types of a valid container are valid (and present) *)
Lemma tvalid_list sc n k v a :
  tvalid sc (PType n k v a) -> beqb n s_list || beqb n s_set = true -> exists et, v = Some et /\ tvalid sc et.
Proof.
  unfold tvalid, valid_ty. intros H Hn. cbn [ty_of] in H.
  assert (n = s_list \/ n = s_set) as [-> | ->]
      by (apply orb_true_iff in Hn as [Hn|Hn]; apply beqb_eq in Hn; auto);
    (destruct v as [et|]; [exists et; split; [reflexivity|exact H]|discriminate H]).
Qed.
Lemma tvalid_map sc n k v a :
  tvalid sc (PType n k v a) -> beqb n s_map = true ->
  exists kt et, k = Some kt /\ v = Some et /\ tvalid sc kt /\ tvalid sc et.
Proof.
  unfold tvalid, valid_ty. intros H Hn. apply beqb_eq in Hn. subst n. cbn [ty_of] in H.
  destruct k as [kt|]; [|discriminate H]. destruct v as [et|].
  - cbn in H. apply andb_true_iff in H as [H1 H2]. exists kt, et. auto.
  - cbn in H. rewrite andb_false_r in H. discriminate.
Qed.

Lemma find_struct_like_field fuel sc n d s fd :
  scope_ok fuel sc -> find_struct_like sc n = Some (d, s) -> In fd (s_fields s) ->
  scope_ok fuel d /\ tvalid d (f_type fd).
Proof.
  unfold find_struct_like. intros Hok H Hfd.
  destruct (declaring_file sc n) as [d'|] eqn:D; [|discriminate].
  destruct (find _ _) as [x|] eqn:F; [|discriminate]. injection H as <- <-.
  pose proof (declaring_file_ok _ _ _ _ Hok D) as Hd. split; [exact Hd|].
  apply find_some in F as [Hin _]. apply (wellvalidated_use_valid _ _ (proj1 Hd)).
  unfold file_uses. apply in_or_app. right.
  apply in_app_or in Hin as [Hin|Hin].
  - apply in_or_app. left. apply in_flat_map. exists x. split; [exact Hin|apply in_map; exact Hfd].
  - apply in_or_app. right. apply in_app_or in Hin as [Hin|Hin].
    + apply in_or_app. left. apply in_flat_map. exists x. split; [exact Hin|apply in_map; exact Hfd].
    + apply in_or_app. right. apply in_or_app. left. apply in_flat_map. exists x. split; [exact Hin|apply in_map; exact Hfd].
Qed.

(** induction over constant values (nested through lists and pairs) *)
Section CvalueInd.
  Variable P : cvalue -> Prop.
  Hypothesis Hstr : forall s, P (CStr s).
  Hypothesis Hbool : forall b, P (CBool b).
  Hypothesis Hint : forall z, P (CInt z).
  Hypothesis Hdouble : forall b, P (CDouble b).
  Hypothesis Hlist : forall l, Forall P l -> P (CList l).
  Hypothesis Hmap : forall l, Forall (fun kv => P (fst kv) /\ P (snd kv)) l -> P (CMap l).
  Hypothesis Hident : forall s, P (CIdent s).
  Hypothesis Hother : P COther.
  Fixpoint cvalue_rect' (v : cvalue) : P v :=
    match v with
    | CStr s => Hstr s
    | CBool b => Hbool b
    | CInt z => Hint z
    | CDouble b => Hdouble b
    | CList l => Hlist l ((fix go (l : list cvalue) : Forall P l :=
                             match l with [] => Forall_nil _ | x :: r => Forall_cons x (cvalue_rect' x) (go r) end) l)
    | CMap l => Hmap l ((fix go (l : list (cvalue * cvalue)) : Forall (fun kv => P (fst kv) /\ P (snd kv)) l :=
                           match l with
                           | [] => Forall_nil _
                           | (k, x) :: r => Forall_cons (k, x) (conj (cvalue_rect' k) (cvalue_rect' x)) (go r)
                           end) l)
    | CIdent s => Hident s
    | COther => Hother
    end.
End CvalueInd.

(** the constants an identifier can name have valid types in validated files *)
Definition home_ok (fuel : nat) (home : vscope) : Prop := scope_ok fuel home.

Lemma find_identifier_const_scope fuel home name decl c :
  scope_ok fuel home -> find_identifier (fst home) (snd home) name = inr (IConst decl c) -> scope_ok fuel decl.
Proof.
  intros Hok. unfold find_identifier.
  destruct (split_on 46 name []) as [|a [|b [|c0 [|d l]]]]; try discriminate.
  - destruct (find_constant _ _); [|discriminate]. intros [= <- _]. destruct home; exact Hok.
  - destruct (find_enum_value _ a b) as [[e v]|]; [discriminate|].
    destruct (beqb a []).
    + destruct (find_constant _ _); [|discriminate]. intros [= <- _]. destruct home; exact Hok.
    + destruct (inc_get (snd home) a) as [sub|] eqn:G; cbn [option_map]; [|discriminate].
      destruct (find_constant _ _); [|discriminate]. intros [= <- _]. eapply scope_ok_sub; eauto.
  - destruct (option_map ft_frugal _); [|discriminate]. destruct (find_enum_value _ _ _) as [[e v]|]; discriminate.
Qed.

Lemma ralls_eq {X} (p : X -> vr) l : ralls p l = rall p l.
Proof.
  induction l as [|x l IH]; [reflexivity|]. cbn [rall].
  change (ralls p (x :: l)) with (rand (p x) (fun _ => ralls p l)). rewrite IH. reflexivity.
Qed.
Lemma fields_named_graceful chk name fs :
  (forall fd, In fd fs -> vgraceful (chk fd)) -> vgraceful (fields_named chk name fs).
Proof.
  induction fs as [|fd fs IH]; intros H; [exact I|].
  change (fields_named chk name (fd :: fs)) with
      (if beqb (f_name fd) name then rand (chk fd) (fun _ => fields_named chk name fs) else fields_named chk name fs).
  assert (vgraceful (fields_named chk name fs)) as Hr by (apply IH; intros x Hx; apply H; right; exact Hx).
  destruct (beqb (f_name fd) name); [|exact Hr].
  apply rand_graceful; [apply H; left; reflexivity|intros _; exact Hr].
Qed.
Lemma fields_named_ok chk name fs :
  fields_named chk name fs = ROk -> forall fd, In fd fs -> f_name fd = name -> chk fd = ROk.
Proof.
  induction fs as [|fd fs IH]; intros H x Hx Hn; [destruct Hx|].
  change (fields_named chk name (fd :: fs)) with
      (if beqb (f_name fd) name then rand (chk fd) (fun _ => fields_named chk name fs) else fields_named chk name fs) in H.
  destruct Hx as [<-|Hx].
  - rewrite Hn, beqb_refl in H. apply rand_ok in H. apply H.
  - destruct (beqb (f_name fd) name); [apply rand_ok in H as [_ H]|]; exact (IH H x Hx Hn).
Qed.

Lemma check_value_graceful fuel home what : scope_ok fuel home ->
  forall v sc t, scope_ok fuel sc -> tvalid sc t -> vgraceful (check_value fuel home what sc t v).
Proof.
  intros Hhome. induction v as [s|b|z|b|l IHl|l IHl|name|] using cvalue_rect'; intros sc t Hok Hv;
    destruct (uscoped_total fuel sc t Hok) as [[sc' t'] U];
    destruct (uscoped_inv _ _ _ _ _ _ U Hok Hv) as [Hok' Hv'].
  - cbn [check_value]. rewrite U. destruct (_ || _); exact I.
  - cbn [check_value]. rewrite U. destruct (beqb _ _); exact I.
  - cbn [check_value]. rewrite U.
    repeat (match goal with |- vgraceful (if ?c then _ else _) => destruct c end; try exact I).
    destruct (find_enum sc' _); [|exact I]. destruct (existsb _ _); exact I.
  - cbn [check_value]. rewrite U. destruct (beqb _ _); exact I.
  - cbn [check_value]. rewrite U. destruct (_ || _) eqn:N; [|exact I].
    destruct t' as [n k v a]. cbn [type_name] in N. destruct (tvalid_list _ _ _ _ _ Hv' N) as (et & -> & Het).
    rewrite ralls_eq. apply rall_graceful. intros x Hx. cbn [elem_type].
    rewrite Forall_forall in IHl. apply IHl; assumption.
  - cbn [check_value]. rewrite U. rewrite Forall_forall in IHl. destruct (beqb (type_name t') s_map) eqn:N.
    + destruct t' as [n k v a]. cbn [type_name] in N. destruct (tvalid_map _ _ _ _ _ Hv' N) as (kt & et & -> & -> & Hkt & Het).
      rewrite ralls_eq. apply rall_graceful. intros kv Hkv. cbn [key_type elem_type].
      destruct (IHl kv Hkv) as [Hk Hx].
      apply rand_graceful; [apply Hk; assumption|intros _; apply Hx; assumption].
    + destruct (find_struct_like sc' (type_name t')) as [[d s]|] eqn:F; [|exact I].
      rewrite ralls_eq. apply rall_graceful. intros kv Hkv. destruct (IHl kv Hkv) as [_ Hx].
      assert (forall name, vgraceful (fields_named (fun fd => check_value fuel home what d (f_type fd) (snd kv)) name (s_fields s))) as Hf.
      { intros name. apply fields_named_graceful. intros fd Hfd.
        destruct (find_struct_like_field fuel sc' _ d s fd Hok' F Hfd) as [Hd Hfv]. apply Hx; assumption. }
      cbn zeta. destruct (fst kv); try exact I; apply Hf.
  - cbn [check_value]. rewrite U.
    destruct (find_identifier (fst home) (snd home) name) as [m|[decl c|e ev]] eqn:FI; [exact I| |].
    + pose proof (find_identifier_const_scope _ _ _ _ _ Hhome FI) as Hdecl.
      destruct (uscoped_total fuel decl (c_type c) Hdecl) as [[dsc dt] U2]. rewrite U2.
      destruct (_ || _); exact I.
    + destruct (find_enum sc' _); [|exact I]. destruct (_ && _); exact I.
  - cbn [check_value]. rewrite U. exact I.
Qed.

Lemma uses_constant f c : In c (fr_constants f) -> In (c_type c) (file_uses f).
Proof. intros H. unfold file_uses. apply in_or_app. left. apply in_map. exact H. Qed.
Lemma uses_struct_field f s fd :
  In s (fr_structs f ++ fr_unions f ++ fr_exceptions f) -> In fd (s_fields s) -> In (f_type fd) (file_uses f).
Proof.
  intros Hs Hfd. unfold file_uses. apply in_or_app. right.
  apply in_app_or in Hs as [Hs|Hs].
  - apply in_or_app. left. apply in_flat_map. exists s. split; [exact Hs|apply in_map; exact Hfd].
  - apply in_or_app. right. apply in_app_or in Hs as [Hs|Hs].
    + apply in_or_app. left. apply in_flat_map. exists s. split; [exact Hs|apply in_map; exact Hfd].
    + apply in_or_app. right. apply in_or_app. left. apply in_flat_map. exists s. split; [exact Hs|apply in_map; exact Hfd].
Qed.
Lemma uses_method_field f sv m fd :
  In sv (fr_services f) -> In m (sv_methods sv) -> In fd (m_args m ++ m_throws m) -> In (f_type fd) (file_uses f).
Proof.
  intros Hs Hm Hfd. unfold file_uses. apply in_or_app. right. apply in_or_app. right. apply in_or_app. right.
  apply in_or_app. right. apply in_flat_map. exists sv. split; [exact Hs|]. apply in_flat_map. exists m. split; [exact Hm|].
  unfold method_types. apply in_or_app. right. rewrite <- map_app. apply in_map. exact Hfd.
Qed.

Lemma check_defaults_graceful fuel home wh fs :
  scope_ok fuel home -> (forall fd, In fd fs -> tvalid home (f_type fd)) -> vgraceful (check_defaults fuel home wh fs).
Proof.
  intros Hh Hv. unfold check_defaults. apply rall_graceful. intros fd Hin.
  destruct (f_default fd); [|exact I]. apply check_value_graceful; auto.
Qed.

Lemma check_values_graceful fuel f incs :
  scope_ok fuel (f, incs) -> vgraceful (check_values fuel f incs).
Proof.
  intros Hh. pose proof (wellvalidated_use_valid (f, incs)) as Hu. cbn [fst] in Hu. specialize (fun t => Hu t (proj1 Hh)).
  unfold check_values. apply rand_graceful.
  - apply rall_graceful. intros c Hc. apply check_value_graceful; [exact Hh|exact Hh|]. apply Hu, uses_constant, Hc.
  - intros _. apply rand_graceful.
    + apply rall_graceful. intros s Hs. apply check_defaults_graceful; [exact Hh|].
      intros fd Hfd. eapply Hu, uses_struct_field; eauto.
    + intros _. apply rall_graceful. intros sv Hsv. apply rall_graceful. intros m Hm. apply rand_graceful.
      * apply check_defaults_graceful; [exact Hh|]. intros fd Hfd. eapply Hu, uses_method_field; eauto. apply in_or_app. left. exact Hfd.
      * intros _. apply check_defaults_graceful; [exact Hh|]. intros fd Hfd. eapply Hu, uses_method_field; eauto. apply in_or_app. right. exact Hfd.
Qed.

Lemma validate_fuel_typedefs f incs : (S (length (fr_typedefs f)) <= validate_fuel f incs)%nat.
Proof. unfold validate_fuel. rewrite weight_reduce. lia. Qed.

Lemma cvalidate_ok fuel f incs :
  cvalidate fuel f incs = ROk -> cvalidate_decls fuel f incs = ROk /\ check_values fuel f incs = ROk.
Proof. unfold cvalidate. apply rand_ok. Qed.

(** the file under validation once its declarations have been accepted *)
Lemma home_scope_ok fuel f incs :
  forallb (fun td => CompilerTotal.name_ok (type_name (td_type td))) (fr_typedefs f) = true ->
  incs_wellvalidated incs -> (validate_fuel f incs <= fuel)%nat ->
  cvalidate_decls fuel f incs = ROk -> scope_ok fuel (f, incs).
Proof.
  intros Hn Hincs Hfuel Hd. pose proof (validate_fuel_typedefs f incs) as Ht. split.
  - unfold rscope. cbn [fst snd]. apply (cvalidate_decls_wellvalidated fuel f incs); [lia|exact Hn|exact Hincs|exact Hd].
  - unfold rscope. cbn [fst snd]. unfold validate_fuel in Hfuel. lia.
Qed.

Theorem cvalidate_total fuel f incs :
  file_names_ok f -> incs_wellvalidated incs ->
  (validate_fuel f incs <= fuel)%nat ->
  vgraceful (cvalidate fuel f incs).
Proof.
  intros Hn Hincs Hfuel. unfold cvalidate. apply rand_graceful; [apply cvalidate_decls_total; assumption|].
  intros Hd. apply check_values_graceful. destruct Hn as (_ & _ & Hn). eapply home_scope_ok; eauto.
Qed.

Theorem cvalidate_facts fuel f incs :
  (S (length (fr_typedefs f)) <= fuel)%nat ->
  cvalidate fuel f incs = ROk -> validated_facts fuel f incs.
Proof. intros Hf H. apply cvalidate_decls_facts; [exact Hf|]. apply cvalidate_ok in H. apply H. Qed.

Theorem cvalidate_wellvalidated fuel f incs :
  (S (length (fr_typedefs f)) <= fuel)%nat ->
  forallb (fun td => CompilerTotal.name_ok (type_name (td_type td))) (fr_typedefs f) = true ->
  incs_wellvalidated incs ->
  cvalidate fuel f incs = ROk -> wellvalidated (reduce f incs).
Proof. intros Hf Hn Hi H. eapply cvalidate_decls_wellvalidated; eauto. apply cvalidate_ok in H. apply H. Qed.

(** * What validateValues guarantees: every value conforms to its declared type *)
(** underlyingScopedType as a relation (no fuel): follow typedefs, each target read in the file
    which declares the typedef, until a name that is not a typedef *)
Inductive scoped_underlying : vscope -> ptype -> vscope -> ptype -> Prop :=
| SU_unknown sc t : declaring_file sc (type_name t) = None -> scoped_underlying sc t sc t
| SU_end sc t d : declaring_file sc (type_name t) = Some d ->
                  find_typedef (fst d) (CompilerTotal.param_name (type_name t)) = None -> scoped_underlying sc t sc t
| SU_step sc t d td sc' t' :
    declaring_file sc (type_name t) = Some d ->
    find_typedef (fst d) (CompilerTotal.param_name (type_name t)) = Some td ->
    scoped_underlying d (td_type td) sc' t' -> scoped_underlying sc t sc' t'.

Lemma uscoped_su : forall fuel sc t sc' t', uscoped fuel sc t = Some (sc', t') -> scoped_underlying sc t sc' t'.
Proof.
  induction fuel as [|fuel IH]; intros sc t sc' t' H; [discriminate|]. cbn [uscoped] in H.
  destruct (declaring_file sc (type_name t)) as [d|] eqn:D; [|injection H as <- <-; apply SU_unknown; exact D].
  destruct (find_typedef (fst d) _) as [td|] eqn:F; [|injection H as <- <-; eapply SU_end; eauto].
  eapply SU_step; eauto.
Qed.

Definition fits (bits z : Z) : Prop := - 2 ^ (bits - 1) <= z < 2 ^ (bits - 1).
Lemma in_range_fits bits z : in_range bits z = true -> fits bits z.
Proof. unfold in_range, fits. intros H. apply andb_true_iff in H as [H1 H2]. apply Z.leb_le in H1. apply Z.ltb_lt in H2. auto. Qed.

(** an integer literal for a base type *)
Definition int_fits (n : bytes) (z : Z) : Prop :=
  ((n = s_i8 \/ n = s_byte) /\ fits 8 z) \/ (n = s_i16 /\ fits 16 z) \/ (n = s_i32 /\ fits 32 z)
  \/ n = s_i64 \/ n = s_double.

Definition key_name (k : cvalue) : option bytes :=
  match k with CStr n => Some n | CIdent n => Some n | _ => None end.

(** [conforms home sc t v]: the value [v], written in the file [home], conforms to the type [t]
    read in the scope [sc] *)
Inductive conforms (home : vscope) : vscope -> ptype -> cvalue -> Prop :=
| CF_string sc t sc' t' s :
    scoped_underlying sc t sc' t' -> type_name t' = s_string \/ type_name t' = s_binary ->
    conforms home sc t (CStr s)
| CF_bool sc t sc' t' b :
    scoped_underlying sc t sc' t' -> type_name t' = s_bool -> conforms home sc t (CBool b)
| CF_double sc t sc' t' b :
    scoped_underlying sc t sc' t' -> type_name t' = s_double -> conforms home sc t (CDouble b)
| CF_int sc t sc' t' z :
    scoped_underlying sc t sc' t' -> int_fits (type_name t') z -> conforms home sc t (CInt z)
| CF_enum_number sc t sc' t' z e :
    scoped_underlying sc t sc' t' -> find_enum sc' (type_name t') = Some e ->
    (exists x, In x (en_values e) /\ ev_value x = z) -> conforms home sc t (CInt z)
| CF_list sc t sc' t' l :
    scoped_underlying sc t sc' t' -> type_name t' = s_list \/ type_name t' = s_set ->
    Forall (fun x => exists et, elem_type t' = Some et /\ conforms home sc' et x) l ->
    conforms home sc t (CList l)
| CF_map sc t sc' t' l :
    scoped_underlying sc t sc' t' -> type_name t' = s_map ->
    Forall (fun kv => exists kt vt, key_type t' = Some kt /\ elem_type t' = Some vt
                                    /\ conforms home sc' kt (fst kv) /\ conforms home sc' vt (snd kv)) l ->
    conforms home sc t (CMap l)
| CF_struct sc t sc' t' d s l :
    scoped_underlying sc t sc' t' -> type_name t' <> s_map -> find_struct_like sc' (type_name t') = Some (d, s) ->
    Forall (fun kv => exists name, key_name (fst kv) = Some name
                                   /\ forall fd, In fd (s_fields s) -> f_name fd = name ->
                                                 conforms home d (f_type fd) (snd kv)) l ->
    conforms home sc t (CMap l)
| CF_constant sc t sc' t' name decl c dsc dt :
    scoped_underlying sc t sc' t' ->
    find_identifier (fst home) (snd home) name = inr (IConst decl c) ->
    scoped_underlying decl (c_type c) dsc dt ->
    value_kind sc' t' = value_kind dsc dt \/ (value_kind sc' t' = s_double /\ value_kind dsc dt = k_integer) ->
    conforms home sc t (CIdent name)
| CF_enum_value sc t sc' t' name e ev e' :
    scoped_underlying sc t sc' t' ->
    find_identifier (fst home) (snd home) name = inr (IEnum e ev) ->
    find_enum sc' (type_name t') = Some e' -> en_name e' = en_name e ->
    (exists x, In x (en_values e') /\ ev_name x = ev_name ev) ->
    conforms home sc t (CIdent name).

Lemma beqb_neq a b : beqb a b = false -> a <> b.
Proof. intros H E. subst b. rewrite beqb_refl in H. discriminate. Qed.

Lemma check_value_sound fuel home what :
  forall v sc t, check_value fuel home what sc t v = ROk -> conforms home sc t v.
Proof.
  induction v as [s|b|z|b|l IHl|l IHl|name|] using cvalue_rect'; intros sc t H; cbn [check_value] in H;
    destruct (uscoped fuel sc t) as [[sc' t']|] eqn:U; try discriminate; apply uscoped_su in U.
  - destruct (_ || _) eqn:N; [|discriminate]. eapply CF_string; [exact U|].
    apply orb_true_iff in N as [N|N]; apply beqb_eq in N; auto.
  - destruct (beqb _ _) eqn:N; [|discriminate]. apply beqb_eq in N. eapply CF_bool; eauto.
  - destruct (beqb (type_name t') s_i8 || beqb (type_name t') s_byte) eqn:N1.
    { destruct (in_range 8 z) eqn:R; [|discriminate]. eapply CF_int; [exact U|]. left. split; [|apply in_range_fits; exact R].
      apply orb_true_iff in N1 as [N|N]; apply beqb_eq in N; auto. }
    destruct (beqb (type_name t') s_i16) eqn:N2.
    { destruct (in_range 16 z) eqn:R; [|discriminate]. eapply CF_int; [exact U|]. right. left. apply beqb_eq in N2.
      split; [exact N2|apply in_range_fits; exact R]. }
    destruct (beqb (type_name t') s_i32) eqn:N3.
    { destruct (in_range 32 z) eqn:R; [|discriminate]. eapply CF_int; [exact U|]. right. right. left. apply beqb_eq in N3.
      split; [exact N3|apply in_range_fits; exact R]. }
    destruct (beqb (type_name t') s_i64 || beqb (type_name t') s_double) eqn:N4.
    { eapply CF_int; [exact U|]. right. right. right. apply orb_true_iff in N4 as [N|N]; apply beqb_eq in N; auto. }
    destruct (find_enum sc' (type_name t')) as [e|] eqn:E; [|discriminate].
    destruct (existsb _ (en_values e)) eqn:X; [|discriminate].
    apply existsb_exists in X as (x & Hx & Hz). apply Z.eqb_eq in Hz. eapply CF_enum_number; eauto.
  - destruct (beqb _ _) eqn:N; [|discriminate]. apply beqb_eq in N. eapply CF_double; eauto.
  - destruct (_ || _) eqn:N; [|discriminate]. rewrite ralls_eq in H.
    eapply CF_list; [exact U|apply orb_true_iff in N as [N|N]; apply beqb_eq in N; auto|].
    rewrite Forall_forall in *. intros x Hx. pose proof (rall_ok _ _ H x Hx) as Hc. cbn beta in Hc.
    destruct (elem_type t') as [et|]; [|discriminate]. exists et. split; [reflexivity|]. apply IHl; assumption.
  - rewrite Forall_forall in IHl. destruct (beqb (type_name t') s_map) eqn:N.
    + rewrite ralls_eq in H. apply beqb_eq in N. eapply CF_map; [exact U|exact N|].
      rewrite Forall_forall. intros kv Hkv. pose proof (rall_ok _ _ H kv Hkv) as Hc. cbn beta in Hc.
      destruct (key_type t') as [kt|]; [|discriminate]. apply rand_ok in Hc as [Hk Hc].
      destruct (elem_type t') as [vt|]; [|discriminate]. destruct (IHl kv Hkv) as [IHk IHx].
      exists kt, vt. repeat split; auto.
    + destruct (find_struct_like sc' (type_name t')) as [[d s]|] eqn:F; [|discriminate].
      rewrite ralls_eq in H. eapply CF_struct; [exact U|apply beqb_neq; exact N|exact F|].
      rewrite Forall_forall. intros kv Hkv. pose proof (rall_ok _ _ H kv Hkv) as Hc. cbn beta zeta in Hc.
      destruct (IHl kv Hkv) as [_ IHx].
      destruct (fst kv) as [kn| | | | | |kn|] eqn:K; try discriminate; exists kn; (split; [reflexivity|]);
        intros fd Hfd Hn; apply IHx; exact (fields_named_ok _ _ _ Hc fd Hfd Hn).
  - destruct (find_identifier (fst home) (snd home) name) as [m|[decl c|e ev]] eqn:FI; [discriminate| |].
    + destruct (uscoped fuel decl (c_type c)) as [[dsc dt]|] eqn:U2; [|discriminate]. apply uscoped_su in U2.
      destruct (_ || _) eqn:K; [|discriminate]. eapply CF_constant; eauto.
      apply orb_true_iff in K as [K|K]; [left; apply beqb_eq; exact K|].
      apply andb_true_iff in K as [K1 K2]. right. split; apply beqb_eq; assumption.
    + destruct (find_enum sc' (type_name t')) as [e'|] eqn:E; [|discriminate].
      destruct (_ && _) eqn:K; [|discriminate]. apply andb_true_iff in K as [K1 K2]. apply beqb_eq in K1.
      apply existsb_exists in K2 as (x & Hx & Hn). apply beqb_eq in Hn. eapply CF_enum_value; eauto.
Qed.

(** every constant and every default value of an accepted file conforms to its declared type *)
Definition values_conform (f : frugal) (incs : list (bytes * ftree)) : Prop :=
  let home : vscope := (f, incs) in
  (forall c, In c (fr_constants f) -> conforms home home (c_type c) (c_value c))
  /\ (forall s fd v, In s (fr_structs f ++ fr_unions f ++ fr_exceptions f) -> In fd (s_fields s) ->
                     f_default fd = Some v -> conforms home home (f_type fd) v)
  /\ (forall sv m fd v, In sv (fr_services f) -> In m (sv_methods sv) -> In fd (m_args m ++ m_throws m) ->
                        f_default fd = Some v -> conforms home home (f_type fd) v).

Lemma check_defaults_sound fuel home wh fs :
  check_defaults fuel home wh fs = ROk ->
  forall fd v, In fd fs -> f_default fd = Some v -> conforms home home (f_type fd) v.
Proof.
  intros H fd v Hin Hd. pose proof (rall_ok _ _ H fd Hin) as Hc. cbn beta in Hc. rewrite Hd in Hc.
  eapply check_value_sound. exact Hc.
Qed.

Theorem validated_constants_fit fuel f incs : cvalidate fuel f incs = ROk -> values_conform f incs.
Proof.
  intros H. apply cvalidate_ok in H as [_ H]. unfold check_values in H.
  apply rand_ok in H as [Hc H]. apply rand_ok in H as [Hs Hm]. repeat split.
  - intros c Hin. eapply check_value_sound. exact (rall_ok _ _ Hc c Hin).
  - intros s fd v Hin Hfd Hd. eapply check_defaults_sound; [exact (rall_ok _ _ Hs s Hin)|exact Hfd|exact Hd].
  - intros sv m fd v Hsv Hmm Hfd Hd. pose proof (rall_ok _ _ (rall_ok _ _ Hm sv Hsv) m Hmm) as Hmc. cbn beta zeta in Hmc.
    apply rand_ok in Hmc as [Ha Ht]. apply in_app_or in Hfd as [Hfd|Hfd];
      [eapply check_defaults_sound; [exact Ha|exact Hfd|exact Hd]|eapply check_defaults_sound; [exact Ht|exact Hfd|exact Hd]].
Qed.

Lemma inc_put_In acc key t k sub :
  In (k, sub) (inc_put acc key t) -> (k, sub) = (key, t) \/ In (k, sub) acc.
Proof.
  induction acc as [|[k' t'] acc IH]; cbn [inc_put]; [intros [H|[]]; left; symmetry; exact H|].
  destruct (beqb k' key).
  - intros [H|H]; [left; symmetry; exact H|right; right; exact H].
  - intros [H|H]; [right; left; exact H|]. destruct (IH H) as [E|E]; [left; exact E|right; right; exact E].
Qed.

(** the result of parsing: a tree that is validated all the way down, or an error *)
Definition pres_good (r : pres) : Prop :=
  match r with POk t => wellvalidated (reduce_tree t) | PErr _ => True | _ => False end.

Lemma includes_loop_good rec dir l : forall acc,
  (forall q, pres_good (rec q)) -> incs_wellvalidated acc ->
  match includes_loop rec dir l acc with
  | inl e => pres_good e /\ (forall t, e <> POk t)
  | inr incs => incs_wellvalidated incs
  end.
Proof.
  induction l as [|i l IH]; intros acc Hrec Hacc; cbn [includes_loop]; [exact Hacc|].
  destruct (negb _); [split; [exact I|discriminate]|].
  pose proof (Hrec (clean (dir ++ split_on 47 (i_value i) []))) as Hq.
  destruct (rec _) as [sub|m| |]; cbn [pres_good] in Hq; try contradiction.
  - apply IH; [exact Hrec|]. intros k s Hin. apply inc_put_In in Hin as [[= -> ->]|Hin]; [exact Hq|eapply Hacc; exact Hin].
  - split; [exact I|discriminate].
Qed.

Lemma path_eqb_eq a : forall b, path_eqb a b = true -> a = b.
Proof.
  induction a as [|x a IH]; intros [|y b] H; cbn [path_eqb] in H; try discriminate; [reflexivity|].
  apply andb_true_iff in H as [H1 H2]. apply beqb_eq in H1. subst y. f_equal. exact (IH b H2).
Qed.
Lemma pfs_get_In fs p e : pfs_get fs p = Some e -> In (p, e) fs.
Proof.
  induction fs as [|[q e'] fs IH]; cbn [pfs_get]; [discriminate|].
  destruct (path_eqb q p) eqn:E; [intros [= <-]; apply path_eqb_eq in E; subst q; left; reflexivity|].
  intros H. right. exact (IH H).
Qed.

(** the names parseFrugal can have on its visited list: stems of files of the file system *)
Definition stems (fs : pfs) : list bytes :=
  map (fun pe => match file_stem (fst pe) with Some n => n | None => [] end) fs.

Definition fs_names_ok (fs : pfs) : Prop := forall p f, In (p, FParsed f) fs -> file_names_ok f.

Lemma NoDup_snoc {A} (l : list A) x : NoDup l -> ~ In x l -> NoDup (l ++ [x]).
Proof.
  induction l as [|y l IH]; intros Hnd Hx; cbn [app]; [constructor; [intros []|constructor]|].
  inversion Hnd as [|y' l' Hy Hl]; subst. constructor.
  - intros Hin. apply in_app_or in Hin as [Hin|[<-|[]]]; [exact (Hy Hin)|apply Hx; left; reflexivity].
  - apply IH; [exact Hl|]. intros Hin. apply Hx. right. exact Hin.
Qed.

Lemma dup_name_none name c : dup_name name c = None -> ~ In name (map fst c).
Proof.
  induction c as [|[n q] c IH]; cbn [dup_name map fst]; [intros _ []|].
  destruct (beqb n name) eqn:E; [discriminate|]. intros H [Hx|Hx]; [|exact (IH H Hx)].
  subst n. rewrite beqb_refl in E. discriminate.
Qed.

Theorem cparse_good fs : fs_names_ok fs -> forall fuel p visited,
  NoDup (map fst visited) -> incl (map fst visited) (stems fs) ->
  (length fs - length visited < fuel)%nat ->
  pres_good (cparse fuel fs p visited).
Proof.
  intros Hfs. induction fuel as [|fuel IH]; intros p visited Hnd Hincl Hf; [lia|].
  cbn [cparse].
  destruct (pfs_get fs p) as [e|] eqn:G; [|exact I].
  destruct (file_stem p) as [name|] eqn:S; [|exact I].
  destruct (existsb (path_eqb p) (map snd visited)); [exact I|].
  destruct (dup_name name visited) eqn:V; [exact I|].
  destruct e as [f|msg]; [|exact I].
  apply pfs_get_In in G. apply dup_name_none in V.
  assert (NoDup (map fst (visited ++ [(name, p)]))) as Hnd' by (rewrite map_app; apply NoDup_snoc; assumption).
  assert (incl (map fst (visited ++ [(name, p)])) (stems fs)) as Hincl'.
  { rewrite map_app. intros x Hx. apply in_app_or in Hx as [Hx|[<-|[]]]; [auto|].
    unfold stems. apply in_map_iff. exists (p, FParsed f). cbn [fst]. rewrite S. auto. }
  pose proof (NoDup_incl_length Hnd' Hincl') as Hlen. unfold stems in Hlen. rewrite !map_length, app_length in Hlen.
  cbn [length] in Hlen.
  pose proof (includes_loop_good (fun q => cparse fuel fs q (visited ++ [(name, p)])) (removelast p) (fr_includes f) []) as HL.
  destruct (includes_loop _ _ _ _) as [e|incs].
  - apply HL; [|intros k sub []]. intros q. apply IH; [exact Hnd'|exact Hincl'|rewrite app_length; cbn [length]; lia].
  - assert (incs_wellvalidated incs) as Hincs.
    { apply HL; [|intros k sub []]. intros q. apply IH; [exact Hnd'|exact Hincl'|rewrite app_length; cbn [length]; lia]. }
    pose proof (cvalidate_total (validate_fuel f incs) f incs (Hfs _ _ G) Hincs (le_n _)) as Hg.
    destruct (cvalidate (validate_fuel f incs) f incs) eqn:Ev; cbn [vgraceful] in Hg; try contradiction; [|exact I].
    cbn [pres_good]. rewrite reduce_tree_eq, reduce_with_scopes.
    destruct (Hfs _ _ G) as (_ & _ & Hn).
    eapply cvalidate_wellvalidated; [apply validate_fuel_typedefs|exact Hn|exact Hincs|exact Ev].
Qed.

(** from the root: fuel above the number of files is enough; the result is a diagnostic or a
    tree every file of which passed validation (so UnderlyingType terminates on it) *)
Corollary cparse_program_good fs root : fs_names_ok fs -> pres_good (cparse_program fs root).
Proof.
  intros H. unfold cparse_program. apply cparse_good; [exact H|constructor|intros x []|cbn [length]; lia].
Qed.

(** * Witnesses: what the code did not guarantee before the repairs, and what it still does not *)
Definition ty0 (n : string) : ptype := PType (T n) None None [].
Definition fld (id : Z) (n : string) (t : ptype) : field := mkfield None id (T n) 0 t None [].
Definition meth (n : string) (throws : list field) : method := mkmethod None (T n) false None [] throws [].
Definition file0 : frugal := empty_frugal.
Definition with_services (l : list service) : frugal := mkfrugal [] [] [] [] [] [] [] [] l [].

(** service A extends Nope { void f() } *)
Definition w_dangling : service := mkservice None (T "A") (T "Nope") [meth "f" []] [].
(** service A extends B {}  service B extends A {} *)
Definition w_cyc_a : service := mkservice None (T "A") (T "B") [] [].
Definition w_cyc_b : service := mkservice None (T "B") (T "A") [] [].

Lemma w_cycle_not_ok : forall s, extends_ok (with_services [w_cyc_a; w_cyc_b]) [] s ->
  s <> w_cyc_a /\ s <> w_cyc_b.
Proof.
  induction 1 as [s He|s sub base Hi Hg _|s next Hne Hi Hf Hnext IH].
  - split; intros ->; discriminate He.
  - cbn in Hg. discriminate.
  - split; intros ->; vm_compute in Hf; injection Hf as <-; destruct IH as [I1 I2]; [apply I2|apply I1]; reflexivity.
Qed.

Lemma extends_pinned_refuted :
  (cvalidate_pinned 10 (with_services [w_dangling]) [] = ROk
   /\ ~ extends_ok (with_services [w_dangling]) [] w_dangling
   /\ exists m, cvalidate 10 (with_services [w_dangling]) [] = RErr m)
  /\ (cvalidate_pinned 10 (with_services [w_cyc_a; w_cyc_b]) [] = ROk
      /\ ~ extends_ok (with_services [w_cyc_a; w_cyc_b]) [] w_cyc_a
      /\ exists m, cvalidate 10 (with_services [w_cyc_a; w_cyc_b]) [] = RErr m).
Proof.
  split; (split; [vm_compute; reflexivity|split]).
  - intros H. inversion H as [s He|s sub base Hi Hg _|s next Hne Hi Hf Hnext]; subst.
    + discriminate He.
    + cbn in Hg. discriminate.
    + vm_compute in Hf. discriminate.
  - eexists. vm_compute. reflexivity.
  - intros H. apply w_cycle_not_ok in H. destruct H as [H _]. congruence.
  - eexists. vm_compute. reflexivity.
Qed.

(** struct S { 1: i32 a }  service A { void f() throws (1: S s) } *)
Definition w_throws : frugal :=
  mkfrugal [] [] [] [] [] [mkstruct None (T "S") [fld 1 "a" (ty0 "i32")] 0 []] [] []
           [mkservice None (T "A") [] [meth "f" [fld 1 "s" (ty0 "S")]] []] [].
Lemma throws_pinned_refuted :
  cvalidate_pinned 10 w_throws [] = ROk
  /\ is_exception 10 w_throws [] (reduce w_throws []) (ty0 "S") = Some false
  /\ exists m, cvalidate 10 w_throws [] = RErr m.
Proof. split; [vm_compute; reflexivity|split; [vm_compute; reflexivity|eexists; vm_compute; reflexivity]]. Qed.

(** struct S { 1: i32 a, 2: i32 a } *)
Definition w_dupname : frugal :=
  mkfrugal [] [] [] [] [] [mkstruct None (T "S") [fld 1 "a" (ty0 "i32"); fld 2 "a" (ty0 "i32")] 0 []] [] [] [] [].
Lemma dup_names_pinned_refuted :
  cvalidate_pinned 10 w_dupname [] = ROk
  /\ (forall s, In s (fr_structs w_dupname) -> ~ NoDup (map f_name (s_fields s)))
  /\ exists m, cvalidate 10 w_dupname [] = RErr m.
Proof.
  split; [vm_compute; reflexivity|split; [|eexists; vm_compute; reflexivity]].
  intros s [<-|[]] H. cbn in H. inversion H as [|x l Hx _]; subst. apply Hx. left. reflexivity.
Qed.

(** the shape of a constant value against a base or container type (what the generators
    type-assert); custom types are not judged here *)
Fixpoint shape_fits (t : ptype) (v : cvalue) {struct v} : bool :=
  match v with
  | CIdent _ => true
  | _ =>
    match t with
    | PType n k e _ =>
      if beqb n s_string || beqb n s_binary then match v with CStr _ => true | _ => false end
      else if beqb n s_bool then match v with CBool _ | CInt _ => true | _ => false end
      else if beqb n s_double then match v with CDouble _ | CInt _ => true | _ => false end
      else if existsb (beqb n) base_types then match v with CInt _ => true | _ => false end
      else if beqb n s_list || beqb n s_set then
        match v, e with
        | CList l, Some et => forallb (shape_fits et) l
        | _, _ => false
        end
      else if beqb n s_map then
        match v, k, e with
        | CMap l, Some kt, Some et => forallb (fun kv => shape_fits kt (fst kv) && shape_fits et (snd kv)) l
        | _, _, _ => false
        end
      else true
    end
  end.

(** const list<i32> x = 5   const i32 y = "hello"   const list<i32> z = [nope] *)
Definition w_consts : frugal :=
  mkfrugal [] [] []
    [mkconst None (T "x") (PType s_list None (Some (ty0 "i32")) []) (CInt 5) [];
     mkconst None (T "y") (ty0 "i32") (CStr (T "hello")) [];
     mkconst None (T "z") (PType s_list None (Some (ty0 "i32")) []) (CList [CIdent (T "nope")]) []]
    [] [] [] [] [] [].
(** before the repair of C11-K13 all three passed validation; now the first that does not conform
    is reported, and each of them alone is *)
Definition only_const (i : nat) : frugal :=
  mkfrugal [] [] [] (firstn 1 (skipn i (fr_constants w_consts))) [] [] [] [] [] [].
Lemma constants_fit_pinned_refuted :
  cvalidate_pinned 10 w_consts [] = ROk
  /\ forallb (fun c => shape_fits (c_type c) (c_value c)) (firstn 2 (fr_constants w_consts)) = false
  /\ check_identifier w_consts [] (T "nope") <> ROk
  /\ cvalidate 10 (only_const 0) [] = RErr (T "Invalid value for constant x: expected list<i32>, got integer 5")
  /\ cvalidate 10 (only_const 1) [] = RErr (T "Invalid value for constant y: expected i32, got a string")
  /\ cvalidate 10 (only_const 2) [] = RErr (T "Referenced constant nope not found")
  /\ cvalidate 10 w_consts [] = RErr (T "Invalid value for constant x: expected list<i32>, got integer 5").
Proof.
  split; [vm_compute; reflexivity|]. split; [vm_compute; reflexivity|]. split; [vm_compute; discriminate|].
  repeat split; vm_compute; reflexivity.
Qed.

(** non-vacuity of [validated_constants_fit]: a two-file program with values of every shape
    (typedef chains into the include, enums by number and by name, a struct literal with an
    identifier key and a key which names no field, references to constants, defaults of fields,
    arguments and exceptions) is accepted *)
Definition tyl (e : ptype) : ptype := PType s_list None (Some e) [].
Definition tym (k e : ptype) : ptype := PType s_map (Some k) (Some e) [].
Definition fldd (id : Z) (n : string) (t : ptype) (d : cvalue) : field := mkfield None id (T n) 0 t (Some d) [].
Definition kv (k : string) (v : cvalue) : cvalue * cvalue := (CStr (T k), v).
Definition vx_inc : frugal :=
  mkfrugal [] []
    [mktypedef None (T "Shorts") (tyl (ty0 "i16")) []; mktypedef None (T "FarT") (ty0 "FarS") []]
    [mkconst None (T "farInt") (ty0 "i32") (CInt 3) []]
    [mkenum None (T "Color") [mkev None (T "RED") 1 []; mkev None (T "GREEN") 2 []] []]
    [mkstruct None (T "FarS") [fld 1 "a" (ty0 "i32"); fldd 2 "c" (ty0 "Color") (CIdent (T "Color.RED"))] 0 []]
    [] [] [] [].
Definition vx_root : frugal :=
  mkfrugal [mkinclude (T "inc") (T "inc.frugal") []] []
    [mktypedef None (T "Id") (ty0 "i64") []; mktypedef None (T "S2") (ty0 "inc.FarT") []]
    [mkconst None (T "one") (ty0 "Id") (CInt 1) [];
     mkconst None (T "shorts") (ty0 "inc.Shorts") (CList [CInt (-32768); CInt 32767]) [];
     mkconst None (T "col") (ty0 "inc.Color") (CInt 2) [];
     mkconst None (T "col2") (ty0 "inc.Color") (CIdent (T "inc.Color.GREEN")) [];
     mkconst None (T "s") (ty0 "S2") (CMap [(CIdent (T "a"), CIdent (T "inc.farInt")); kv "c" (CInt 1);
                                           kv "nosuch" (CList [CIdent (T "nope")])]) [];
     mkconst None (T "m") (tym (ty0 "string") (tyl (ty0 "double"))) (CMap [kv "k" (CList [CInt 1; CIdent (T "one")])]) [];
     mkconst None (T "later") (ty0 "i32") (CIdent (T "one")) []]
    [] [mkstruct None (T "D") [fldd 1 "x" (ty0 "Id") (CIdent (T "one")); fldd 2 "far" (ty0 "inc.FarS") (CMap [kv "a" (CInt 7)])] 0 []]
    [mkstruct None (T "X") [fldd 1 "m" (ty0 "string") (CStr (T "boom"))] 1 []] []
    [mkservice None (T "Sv") [] [mkmethod None (T "f") false None [fldd 1 "a" (tyl (ty0 "bool")) (CList [CBool true])]
                                          [fldd 1 "e" (ty0 "X") (CMap [kv "m" (CStr (T "x"))])] []] []] [].
Definition vx_fs : pfs := [([T "root.frugal"], FParsed vx_root); ([T "inc.frugal"], FParsed vx_inc)].
Lemma values_example_accepted :
  match cparse_program vx_fs [T "root.frugal"] with
  | POk (FTree _ f incs) => cvalidate (validate_fuel f incs) f incs = ROk /\ length (fr_constants f) = 7%nat
  | _ => False
  end.
Proof. vm_compute. split; reflexivity. Qed.
Lemma values_example_conform :
  match cparse_program vx_fs [T "root.frugal"] with
  | POk (FTree _ f incs) => values_conform f incs
  | _ => False
  end.
Proof.
  pose proof values_example_accepted as H. destruct (cparse_program vx_fs [T "root.frugal"]) as [[n f incs]| | |]; try contradiction.
  destruct H as [H _]. eapply validated_constants_fit. exact H.
Qed.

(** x.frugal: include "sub/x.frugal"     sub/x.frugal: (empty) -- no cycle.  Before the repair of
    C11-K14 it was rejected as one; now the diagnostic says what is wrong with it *)
Definition w_same_name : pfs :=
  [([T "x.frugal"], FParsed (mkfrugal [mkinclude (T "x") (T "sub/x.frugal") []] [] [] [] [] [] [] [] [] []));
   ([T "sub"; T "x.frugal"], FParsed empty_frugal)].
Lemma include_same_name_pinned_refuted :
  pfs_get w_same_name [T "sub"; T "x.frugal"] = Some (FParsed empty_frugal)
  /\ cparse_program_pinned w_same_name [T "sub"; T "x.frugal"] = POk (FTree (T "x") empty_frugal [])
  /\ cparse_program_pinned w_same_name [T "x.frugal"] = PErr (T "Include sub/x.frugal: Circular include: [x x]").
Proof. repeat split; vm_compute; reflexivity. Qed.
Lemma include_same_name_diagnosed :
  cparse_program w_same_name [T "sub"; T "x.frugal"] = POk (FTree (T "x") empty_frugal [])
  /\ cparse_program w_same_name [T "x.frugal"]
     = PErr (T "Include sub/x.frugal: Duplicate file name x: sub/x.frugal is included by way of x.frugal (includes and generated code are named after the file name)").
Proof. split; vm_compute; reflexivity. Qed.

(** two different files of one name which are never on one chain of includes are accepted; a file
    reached twice (a diamond) is no cycle; a file which includes itself under another spelling of
    its path is one *)
Definition inc1 (v : string) : frugal := mkfrugal [mkinclude [] (T v) []] [] [] [] [] [] [] [] [] [].
Definition inc2 (v w : string) : frugal := mkfrugal [mkinclude (T v) (T v) []; mkinclude (T w) (T w) []] [] [] [] [] [] [] [] [] [].
Definition w_off_chain : pfs :=
  [([T "r.frugal"], FParsed (inc2 "c.frugal" "b.frugal"));
   ([T "a.frugal"], FParsed empty_frugal); ([T "c.frugal"], FParsed (inc1 "p/common.frugal")); ([T "b.frugal"], FParsed (inc1 "q/common.frugal"));
   ([T "p"; T "common.frugal"], FParsed empty_frugal); ([T "q"; T "common.frugal"], FParsed (inc1 "../a.frugal"))].
Definition w_self_spelled : pfs := [([T "s.frugal"], FParsed (inc1 "d/../s.frugal"))].
Lemma include_paths_examples :
  (exists t, cparse_program w_off_chain [T "r.frugal"] = POk t)
  /\ cparse_program w_self_spelled [T "s.frugal"] = PErr (T "Include d/../s.frugal: Circular include: [s s]").
Proof. split; [eexists; vm_compute; reflexivity|vm_compute; reflexivity]. Qed.

(** the two diagnostics of the include check, for every file system and every chain: a file whose
    cleaned path is on the chain is a circular include; a file whose path is not on the chain but
    whose name is, is a duplicate file name and never reported as circular *)
Definition circular_msg (visited : chain) (name : bytes) : bytes :=
  cat [T "Circular include: "; fmt_strings (map fst visited ++ [name])].
Definition duplicate_msg (name : bytes) (p q : path) : bytes :=
  cat [T "Duplicate file name "; name; T ": "; join_slash p; T " is included by way of "; join_slash q;
       T " (includes and generated code are named after the file name)"].
Lemma dup_name_some name c : In name (map fst c) -> exists q, dup_name name c = Some q /\ In (name, q) c.
Proof.
  induction c as [|[n q] c IH]; cbn [map fst dup_name]; [intros []|].
  destruct (beqb n name) eqn:E.
  - intros _. apply beqb_eq in E. subst n. exists q. split; [reflexivity|left; reflexivity].
  - intros [H|H]; [subst n; rewrite beqb_refl in E; discriminate|].
    destruct (IH H) as (q' & H1 & H2). exists q'. split; [exact H1|right; exact H2].
Qed.
Lemma include_check_by_path fuel fs p visited e name :
  pfs_get fs p = Some e -> file_stem p = Some name ->
  (In p (map snd visited) -> cparse (S fuel) fs p visited = PErr (circular_msg visited name))
  /\ (~ In p (map snd visited) -> In name (map fst visited) ->
      exists q, In (name, q) visited /\ cparse (S fuel) fs p visited = PErr (duplicate_msg name p q)).
Proof.
  intros G S. cbn [cparse]. rewrite G, S. split.
  - intros Hin. assert (existsb (path_eqb p) (map snd visited) = true) as ->; [|reflexivity].
    apply existsb_exists. exists p. split; [exact Hin|].
    clear. induction p as [|x p IH]; [reflexivity|]. cbn [path_eqb]. rewrite beqb_refl, IH. reflexivity.
  - intros Hnot Hname. assert (existsb (path_eqb p) (map snd visited) = false) as ->.
    { destruct (existsb _ _) eqn:E; [|reflexivity]. apply existsb_exists in E as (q & Hq & E).
      apply path_eqb_eq in E. subst q. contradiction. }
    destruct (dup_name_some _ _ Hname) as (q & -> & Hq). exists q. split; [exact Hq|reflexivity].
Qed.

(** the hypotheses of totality are needed: an empty service name panics LowercaseFirstLetter; a
    typedef target that starts with a dot (typedef .A A) passes the circularity check, which
    looks names up as written, and sends UnderlyingType, which strips the prefix, round in
    circles.  The grammar produces neither. *)
Definition w_empty_name : frugal := with_services [mkservice None [] [] [] []].
Definition w_dot_typedef : frugal :=
  mkfrugal [] [] [mktypedef None (T "A") (ty0 ".A") []] [] [] [] [] []
           [mkservice None (T "S") [] [meth "f" [fld 1 "e" (ty0 "A")]] []] [].
Lemma names_needed_refuted :
  (forall fuel, cvalidate fuel w_empty_name [] = RPanic)
  /\ cvalidate (validate_fuel w_dot_typedef []) w_dot_typedef [] = RFuel
  /\ cvalidate 500 w_dot_typedef [] = RFuel.
Proof. split; [intros fuel; reflexivity|split; vm_compute; reflexivity]. Qed.

(** non-vacuity: a two-file program with an extends chain through an include, a typedef'd
    exception and a typedef chain is accepted, and every fact holds of it *)
Definition ex_inc : frugal :=
  mkfrugal [] [] [mktypedef None (T "ErrT") (ty0 "Err") []] [] []
           [] [mkstruct None (T "Err") [fld 1 "m" (ty0 "string")] 1 []] []
           [mkservice None (T "Base") [] [meth "ping" []] []] [].
Definition ex_root : frugal :=
  mkfrugal [mkinclude (T "inc") (T "inc.frugal") []] []
           [mktypedef None (T "L") (PType s_list None (Some (ty0 "inc.ErrT")) []) [];
            mktypedef None (T "E2") (ty0 "inc.ErrT") []] [] [] [] [] []
           [mkservice None (T "Mid") (T "inc.Base") [] [];
            mkservice None (T "Top") (T "Mid") [meth "f" [fld 1 "a" (ty0 "E2"); fld 2 "b" (ty0 "inc.Err")]] []] [].
Definition ex_fs : pfs := [([T "root.frugal"], FParsed ex_root); ([T "inc.frugal"], FParsed ex_inc)].
Lemma example_accepted :
  match cparse_program ex_fs [T "root.frugal"] with
  | POk (FTree name f incs) => name = T "root" /\ length incs = 1%nat
                               /\ cvalidate (validate_fuel f incs) f incs = ROk
  | _ => False
  end.
Proof. vm_compute. repeat split. Qed.
Lemma example_names_ok : fs_names_ok ex_fs.
Proof.
  intros p f [[= <- <-]|[[= <- <-]|[]]]; (split; [|split]); try (vm_compute; reflexivity);
    intros s Hs; cbn in Hs;
    repeat (destruct Hs as [<-|Hs]; [split; [discriminate|intros m Hm; cbn in Hm; repeat (destruct Hm as [<-|Hm]; [discriminate|]); destruct Hm]|]);
    destruct Hs.
Qed.

(** * isValidType, declaratively *)
Fixpoint resolves (rf : CompilerTotal.frugal) (t : CompilerTotal.ty) : Prop :=
  match t with
  | CompilerTotal.TNil => False
  | CompilerTotal.Ty n k v =>
    In n CompilerTotal.base_types
    \/ (In n [CompilerTotal.s_list; CompilerTotal.s_set] /\ resolves rf v)
    \/ (n = CompilerTotal.s_map /\ resolves rf k /\ resolves rf v)
    \/ exists g, CompilerTotal.scope_of rf n = Some g
                 /\ In (CompilerTotal.param_name n)
                       (CompilerTotal.structs g ++ CompilerTotal.unions g ++ CompilerTotal.exceptions g
                        ++ CompilerTotal.enums g ++ map fst (CompilerTotal.typedefs g))
  end.

Lemma is_valid_type_resolves rf t : CompilerTotal.is_valid_type rf t = true -> resolves rf t.
Proof.
  induction t as [|n k IHk v IHv]; cbn [CompilerTotal.is_valid_type resolves]; [discriminate|].
  destruct (CompilerTotal.is_primitive n) eqn:P; [intros _; left; apply mem_In; exact P|].
  destruct (CompilerTotal.is_container n) eqn:C.
  - destruct (CompilerTotal.str_eqb n CompilerTotal.s_map) eqn:M.
    + intros H. apply andb_true_iff in H as [H1 H2]. right. right. left. apply str_eqb_eq in M. auto.
    + intros H. right. left. split; [|auto].
      apply mem_In in C. destruct C as [<-|[<-|[<-|[]]]]; [left; reflexivity|right; left; reflexivity|].
      rewrite str_eqb_refl in M. discriminate.
  - destruct (CompilerTotal.scope_of rf n) as [g|]; [|discriminate].
    intros H. right. right. right. exists g. split; [reflexivity|].
    repeat (apply orb_true_iff in H as [H|H]); apply mem_In in H;
      repeat (apply in_or_app; first [left; exact H | right]). exact H.
Qed.

Lemma validated_types_resolve fuel f incs :
  (S (length (fr_typedefs f)) <= fuel)%nat -> cvalidate fuel f incs = ROk ->
  forall t, In t (map td_type (fr_typedefs f) ++ file_uses f
                  ++ flat_map (fun s => map o_type (sc_ops s)) (fr_scopes f)) ->
            resolves (reduce f incs) (ty_of t).
Proof.
  intros Hf H t Hin. destruct (cvalidate_facts fuel f incs Hf H) as [_ Htd Hu Ho _ _ _ _ _].
  apply is_valid_type_resolves. fold (valid_ty (reduce f incs) t).
  apply in_app_or in Hin as [Hin|Hin]; [apply in_map_iff in Hin as (td & <- & Hin); auto|].
  apply in_app_or in Hin as [Hin|Hin]; [auto|].
  apply in_flat_map in Hin as (s & Hs & Hin). apply in_map_iff in Hin as (o & <- & Hoo). eauto.
Qed.

(** every typedef chain of an accepted program ends: UnderlyingType returns within the weight *)
Lemma accepted_typedefs_terminate fs root t :
  fs_names_ok fs -> cparse_program fs root = POk t ->
  forall ty, ty <> CompilerTotal.TNil ->
  exists u, CompilerTotal.underlying (CompilerTotal.weight (reduce_tree t)) (reduce_tree t) ty = CompilerTotal.COk u.
Proof.
  intros Hfs H. pose proof (cparse_program_good fs root Hfs) as Hg. rewrite H in Hg. cbn [pres_good] in Hg.
  apply underlying_terminates. exact Hg.
Qed.

(** * The statements of Props/C11.v *)
Lemma cvalidate_total_res fuel f incs :
  file_names_ok f -> incs_wellvalidated incs -> (validate_fuel f incs <= fuel)%nat ->
  graceful (vr_res (cvalidate fuel f incs)).
Proof. intros H1 H2 H3. apply vgraceful_res. exact (cvalidate_total fuel f incs H1 H2 H3). Qed.

Lemma extends_walk_bound f incs start :
  In start (fr_services f) -> forall fuel, (S (length (fr_services f)) <= fuel)%nat ->
  graceful (vr_res (extends_walk fuel f incs start start [])).
Proof.
  intros Hin fuel Hf. apply vgraceful_res.
  apply extends_walk_graceful; [constructor|intros x []|exact Hin|cbn [length]; lia].
Qed.

Lemma cparse_total_res fs root :
  fs_names_ok fs ->
  graceful (pres_res (cparse_program fs root))
  /\ forall t, cparse_program fs root = POk t -> wellvalidated (reduce_tree t).
Proof.
  intros H. pose proof (cparse_program_good fs root H) as G.
  split; [destruct (cparse_program fs root); cbn in *; auto|].
  intros t E. rewrite E in G. exact G.
Qed.

Lemma cparse_fuel_bound fs : fs_names_ok fs -> forall fuel p visited,
  NoDup (map fst visited) -> incl (map fst visited) (stems fs) -> (length fs - length visited < fuel)%nat ->
  graceful (pres_res (cparse fuel fs p visited)).
Proof.
  intros H fuel p visited H1 H2 H3. pose proof (cparse_good fs H fuel p visited H1 H2 H3) as G.
  destruct (cparse fuel fs p visited); cbn in *; auto.
Qed.

Lemma validated_extends fuel f incs :
  (S (length (fr_typedefs f)) <= fuel)%nat -> cvalidate fuel f incs = ROk ->
  forall s, In s (fr_services f) -> extends_ok f incs s.
Proof. intros Hf H. exact (vf_extends _ _ _ (cvalidate_facts fuel f incs Hf H)). Qed.

Lemma validated_throws fuel f incs :
  (S (length (fr_typedefs f)) <= fuel)%nat -> cvalidate fuel f incs = ROk ->
  forall s m a, In s (fr_services f) -> In m (sv_methods s) -> In a (m_throws m) ->
  is_exception fuel f incs (reduce f incs) (f_type a) = Some true.
Proof. intros Hf H. exact (vf_throws _ _ _ (cvalidate_facts fuel f incs Hf H)). Qed.

Lemma validated_prefix_vars fuel f incs :
  (S (length (fr_typedefs f)) <= fuel)%nat -> cvalidate fuel f incs = ROk ->
  forall s, In s (fr_scopes f) -> NoDup (p_vars (sc_prefix s)).
Proof. intros Hf H. exact (vf_prefix_vars _ _ _ (cvalidate_facts fuel f incs Hf H)). Qed.

Lemma validated_members fuel f incs :
  (S (length (fr_typedefs f)) <= fuel)%nat -> cvalidate fuel f incs = ROk ->
  (forall s, In s (fr_structs f ++ fr_unions f ++ fr_exceptions f) ->
             NoDup (map f_id (s_fields s)) /\ NoDup (map f_name (s_fields s)))
  /\ (forall s m, In s (fr_services f) -> In m (sv_methods s) -> m_oneway m = true ->
                  m_return m = None /\ m_throws m = [])
  /\ (forall c name, In c (fr_constants f) -> c_value c = CIdent name -> check_identifier f incs name = ROk).
Proof.
  intros Hf H. destruct (cvalidate_facts fuel f incs Hf H) as [_ _ _ _ _ _ Ho Hi Hc]. auto.
Qed.

Lemma validation_nonvacuous :
  fs_names_ok ex_fs
  /\ match cparse_program ex_fs [T "root.frugal"] with
     | POk (FTree name f incs) => name = T "root" /\ length incs = 1%nat
                                  /\ cvalidate (validate_fuel f incs) f incs = ROk
     | _ => False
     end.
Proof. split; [exact example_names_ok|exact example_accepted]. Qed.

Lemma value_pass_total_res fuel f incs :
  file_names_ok f -> incs_wellvalidated incs -> (validate_fuel f incs <= fuel)%nat ->
  cvalidate_decls fuel f incs = ROk ->
  graceful (vr_res (check_values fuel f incs)).
Proof.
  intros Hn Hi Hf Hd. apply vgraceful_res. apply check_values_graceful.
  destruct Hn as (_ & _ & Hn). eapply home_scope_ok; eauto.
Qed.

Lemma values_example_full :
  match cparse_program vx_fs [T "root.frugal"] with
  | POk (FTree _ f incs) => cvalidate (validate_fuel f incs) f incs = ROk /\ length (fr_constants f) = 7%nat
                            /\ values_conform f incs
  | _ => False
  end.
Proof.
  pose proof values_example_accepted as H1. pose proof values_example_conform as H2.
  destruct (cparse_program vx_fs [T "root.frugal"]) as [[n f incs]| | |]; try contradiction.
  destruct H1 as [A B]. auto.
Qed.

(** what validation still does not see: constants which refer to each other in a circle
    (const i32 a = b, const i32 b = a) conform -- a reference is judged by the declared type of
    the constant it names -- and are accepted; the generators write the references out as they
    are (Go: initialization cycle).  Finding C11-K15. *)
Definition w_const_cycle : frugal :=
  mkfrugal [] [] []
    [mkconst None (T "a") (ty0 "i32") (CIdent (T "b")) []; mkconst None (T "b") (ty0 "i32") (CIdent (T "a")) []]
    [] [] [] [] [] [].
Lemma constant_cycle_accepted_refuted :
  cvalidate 10 w_const_cycle [] = ROk
  /\ c_value (nth 0 (fr_constants w_const_cycle) (mkconst None [] (ty0 "i32") COther [])) = CIdent (T "b")
  /\ c_value (nth 1 (fr_constants w_const_cycle) (mkconst None [] (ty0 "i32") COther [])) = CIdent (T "a").
Proof. repeat split; vm_compute; reflexivity. Qed.
