(** Frames inside the lifecycle model (C15): whatever way a byte stream is cut into chunks, the
    read loop hands exactly the complete frames to the registry, in order, and is left holding
    an incomplete frame; where it stands in that frame decides how a read error is classified. *)
From Coq Require Import ZArith List Bool Lia Arith.
From FV Require Import Base.Res Base.Bytes Base.GoSem Model.Headers Model.Lifecycle Proofs.BytesProofs.
Import ListNotations.
Open Scope Z_scope.

Definition enc (f : bytes) : bytes := be32 (zlen f) ++ f.
Definition stream (fs : list bytes) : bytes := concat (map enc fs).
Definition frames_of (fs : list bytes) : list (Z * bool) := map (fun f => (zlen f, true)) fs.
Definition good (f : bytes) : Prop := zlen f <= max_frame /\ exec_ok f = true.

(** an unfinished frame: fewer than 4 bytes, or an acceptable size field and fewer bytes than it announces *)
Definition incomplete (r : bytes) : Prop :=
  zlen r < 4 \/ (un_be32 (take 4 r) <= max_frame /\ zlen r < 4 + un_be32 (take 4 r)).

Lemma stream_app a b : stream (a ++ b) = stream a ++ stream b.
Proof. unfold stream. now rewrite map_app, concat_app. Qed.

Lemma bytes_ok_app a b : bytes_ok (a ++ b) <-> bytes_ok a /\ bytes_ok b.
Proof. unfold bytes_ok. apply Forall_app. Qed.

Lemma split_frame buf size :
  bytes_ok buf -> 4 <= zlen buf -> size = un_be32 (take 4 buf) -> 4 + size <= zlen buf ->
  0 <= size /\
  buf = enc (sub buf 4 (4 + size)) ++ drop (Z.to_nat (4 + size)) buf /\ zlen (sub buf 4 (4 + size)) = size.
Proof.
  intros Hok H4 Hsz Hlen.
  assert (Hr : 0 <= size < 4294967296) by (subst size; apply un_be32_range, take_ok, Hok).
  assert (Hl : zlen (sub buf 4 (4 + size)) = size) by (rewrite sub_length; lia).
  split; [lia|]. split; [|exact Hl].
  unfold enc. rewrite Hl.
  assert (Ht : length (take 4 buf) = 4%nat) by (rewrite take_length; unfold zlen in H4; lia).
  rewrite Hsz at 1. rewrite be32_un_be32 by (auto using take_ok).
  unfold sub. replace (Z.to_nat (4 + size - 4)) with (Z.to_nat size) by lia.
  replace (Z.to_nat (4 + size)) with (4 + Z.to_nat size)%nat by lia.
  rewrite <- drop_drop. change (Z.to_nat 4) with 4%nat.
  rewrite <- app_assoc. rewrite (take_drop (Z.to_nat size) (drop 4 buf)). now rewrite take_drop.
Qed.

(** soundness of [drain]: when it stops for lack of bytes, what it consumed is the encoding of
    the frames it executed (all accepted), and what is left is an unfinished frame *)
Lemma drain_sound fuel : forall buf acc ex rest,
  bytes_ok buf -> (length buf < fuel)%nat ->
  drain fuel buf acc = (ex, rest, NeedMore) ->
  exists e, buf = stream e ++ rest /\ ex = rev acc ++ frames_of e /\ Forall good e /\ incomplete rest.
Proof.
  induction fuel as [|f IH]; intros buf acc ex rest Hok Hfuel H; [lia|].
  cbn [drain] in H.
  destruct (zlen buf <? 4) eqn:E4.
  { inversion H; subst. exists []. cbn. rewrite app_nil_r. repeat split; auto. left. now apply Z.ltb_lt. }
  apply Z.ltb_ge in E4.
  set (size := un_be32 (take 4 buf)) in *.
  destruct (max_frame <? size) eqn:Em; [discriminate|]. apply Z.ltb_ge in Em.
  destruct (zlen buf <? 4 + size) eqn:El.
  { inversion H; subst. exists []. cbn. rewrite app_nil_r. repeat split; auto. right. apply Z.ltb_lt in El. auto. }
  apply Z.ltb_ge in El.
  destruct (split_frame buf size Hok E4 eq_refl El) as (Hs0 & Hsplit & Hfl).
  destruct (exec_ok (sub buf 4 (4 + size))) eqn:Ex; [|discriminate].
  assert (Hok' : bytes_ok (drop (Z.to_nat (4 + size)) buf)) by (apply drop_ok, Hok).
  assert (Hf' : (length (drop (Z.to_nat (4 + size)) buf) < f)%nat).
  { rewrite drop_length. unfold zlen in *. lia. }
  destruct (IH _ _ _ _ Hok' Hf' H) as (e & He & Hex & Hg & Hinc).
  exists (sub buf 4 (4 + size) :: e). repeat split; auto.
  - cbn [stream map concat]. fold (stream e). rewrite <- app_assoc, <- He. exact Hsplit.
  - rewrite Hex. cbn [rev frames_of map]. rewrite Hfl, <- app_assoc. reflexivity.
  - constructor; auto. split; auto. lia.
Qed.

Lemma set_loop_same s g l : loops (set_loop s g l) g = l.
Proof. cbn [set_loop loops]. unfold upd. now rewrite Nat.eqb_refl. Qed.

(** feeding chunks one after the other to a read loop (the EFeed steps of the model) *)
Fixpoint feed_all (buf : bytes) (chunks : list bytes) (done : list (Z * bool)) : option (bytes * list (Z * bool)) :=
  match chunks with
  | [] => Some (buf, done)
  | b :: cs => match drain_buf (buf ++ b) with
               | (ex, rest, NeedMore) => feed_all rest cs (done ++ ex)
               | _ => None
               end
  end.

Lemma feed_all_sound : forall chunks buf done e0 buf' done',
  Forall bytes_ok chunks -> bytes_ok buf -> done = frames_of e0 -> Forall good e0 ->
  feed_all buf chunks done = Some (buf', done') ->
  exists e, stream e0 ++ buf ++ concat chunks = stream e ++ buf' /\ done' = frames_of e /\ Forall good e
            /\ (incomplete buf -> incomplete buf').
Proof.
  induction chunks as [|b cs IH]; intros buf done e0 buf' done' Hcs Hb Hd Hg H; cbn [feed_all concat] in *.
  - inversion H; subst. exists e0. rewrite app_nil_r. auto.
  - inversion Hcs; subst.
    destruct (drain_buf (buf ++ b)) as [[ex rest] r] eqn:Ed. destruct r; try discriminate.
    unfold drain_buf in Ed.
    assert (Hokb : bytes_ok (buf ++ b)) by (apply bytes_ok_app; auto).
    destruct (drain_sound _ _ _ _ _ Hokb (Nat.lt_succ_diag_r _) Ed) as (e & He & Hex & Hge & Hinc).
    assert (Hrest : bytes_ok rest).
    { rewrite He in Hokb. apply bytes_ok_app in Hokb. tauto. }
    destruct (IH rest (frames_of e0 ++ ex) (e0 ++ e) buf' done' H3 Hrest) as (e' & He' & Hd' & Hg' & Hi'); auto.
    + cbn in Hex. rewrite Hex. unfold frames_of. now rewrite map_app.
    + apply Forall_app; auto.
    + exists e'. repeat split; auto.
      rewrite <- He'. rewrite stream_app, <- !app_assoc. f_equal.
      rewrite (app_assoc buf b), He, <- app_assoc. reflexivity.
Qed.

(** from an empty buffer: for every chunking of every byte stream the loop consumed without error,
    the bytes are the executed frames' encodings, in order, followed by an unfinished frame *)
Lemma frames_any_chunking chunks buf' done' :
  Forall bytes_ok chunks ->
  feed_all [] chunks [] = Some (buf', done') ->
  exists e, concat chunks = stream e ++ buf' /\ done' = frames_of e /\ Forall good e /\ incomplete buf'.
Proof.
  intros Hc H.
  destruct (feed_all_sound chunks [] [] [] buf' done' Hc) as (e & He & Hd & Hg & Hi); auto.
  { constructor. }
  exists e. repeat split; auto. apply Hi. left. cbn. lia.
Qed.

(** the model's EFeed steps compute [feed_all]: same [drain_buf], chunk after chunk; nothing else
    in the state moves *)
Lemma feed_all_run pol g : forall chunks s buf done buf' done',
  loops s g = LReading buf ->
  feed_all buf chunks done = Some (buf', done') ->
  exists s', run Fixed pol s (map (EFeed g) chunks) = Some s'
    /\ loops s' g = LReading buf' /\ is_open s' = is_open s /\ gen s' = gen s /\ pub s' = pub s
    /\ (forall i, i <> g -> loops s' i = loops s i).
Proof.
  induction chunks as [|b cs IH]; intros s buf done buf' done' Hl H; cbn [feed_all map run] in *.
  - inversion H; subst. exists s. repeat split; auto.
  - destruct (drain_buf (buf ++ b)) as [[ex rest] r] eqn:Ed. destruct r; try discriminate.
    cbn [step]. rewrite Hl, Ed.
    destruct (IH (set_loop s g (LReading rest)) rest _ _ _ (set_loop_same _ _ _) H)
      as (s' & Hr & Hl' & Ho & Hg & Hp & Hothers).
    exists s'. repeat split; auto.
    intros i Hi. rewrite (Hothers i Hi). cbn [set_loop loops]. unfold upd.
    destruct (Nat.eqb i g) eqn:E; [apply Nat.eqb_eq in E; contradiction|reflexivity].
Qed.

(** how a read error is classified depends only on how much of the unfinished frame has arrived *)
Lemma classify_by_position n k : 0 <= n ->
  classify n k =
  match k with
  | EofTte => if n =? 0 then 0 else 6
  | EofRaw => if n =? 0 then 1 else if n <? 4 then 2 else 6
  | ErrRaw t => if n <? 4 then 1000 + 10 * t else 1000 + 10 * t + 1
  | ErrTte t => 1000 + 10 * t + 2
  | ClosedErr => 5
  end.
Proof.
  intros Hn. unfold classify. destruct k; auto.
  - destruct (4 <=? n) eqn:E; [apply Z.leb_le in E | apply Z.leb_gt in E].
    + destruct (n =? 0) eqn:E0; [apply Z.eqb_eq in E0; lia|].
      destruct (n <? 4) eqn:E4; [apply Z.ltb_lt in E4; lia | reflexivity].
    + destruct (n =? 0); auto. destruct (n <? 4) eqn:E4; [reflexivity | apply Z.ltb_ge in E4; lia].
  - destruct (4 <=? n) eqn:E; [apply Z.leb_le in E | apply Z.leb_gt in E].
    + destruct (n <? 4) eqn:E4; [apply Z.ltb_lt in E4; lia | reflexivity].
    + destruct (n <? 4) eqn:E4; [lia | apply Z.ltb_ge in E4; lia].
Qed.
