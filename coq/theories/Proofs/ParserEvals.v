(** Big-step reasoning rules for the parser model, derived from the fuelled interpreter:
    [evals e cr st fr R] says that every sufficiently large depth budget gives the answer [R].
    Used to derive, rule by rule, what the regenerated grammar does on rendered declarations. *)
From Coq Require Import ZArith List Bool Arith Lia String.
From FV Require Import Model.PegSyntax Model.Peg Model.PegWf Model.ParserStrings Model.ParserAst
     Model.ParserActions Model.Parser Proofs.PegProofs Proofs.ParserLexProofs.
Import ListNotations.
Local Open Scope Z_scope.

Notation outc := (outcome val aerr).
Notation pst := (pstate aerr).
Notation sgo := (seq_go action val aerr VNil VList).
Notation cgo := (choice_go action val aerr VNil).
Notation lgo := (lit_go val aerr VNil VBytes).
Notation fin := (finish_action action val aerr run_action).

Definition evals (e : cexpr action) (cr : nat) (st : pst) (fr : frame) (R : outc) : Prop :=
  exists n, forall f, (n <= f)%nat -> ev f e cr st fr = R.
Definition seqs (cr : nat) (st0 : pst) (es : list (cexpr action)) (st1 : pst) (fr1 : frame)
           (acc : list val) (R : outc) : Prop :=
  exists n, forall f, (n <= f)%nat -> sgo (ev f) cr st0 es st1 fr1 acc = R.
Definition choices (cr : nat) (fr : frame) (es : list (cexpr action)) (st1 : pst) (R : outc) : Prop :=
  exists n, forall f, (n <= f)%nat -> cgo (ev f) cr fr es st1 = R.
Definition loops (e1 : cexpr action) (cr : nat) (st : pst) (fr : frame) (acc : list val) (R : outc) : Prop :=
  exists n, forall f, (n <= f)%nat -> ev_loop f e1 cr st fr acc = R.

Ltac peel f Hf := destruct f as [|f]; [lia|]; rewrite ?ev_S, ?ev_loop_S.

Lemma E_act_ok : forall a e1 cr st fr v st1 fr1 R,
  evals e1 cr st fr (Done true v st1 fr1) -> fin a cr st st1 fr1 = R -> evals (CAct a e1) cr st fr R.
Proof.
  intros a e1 cr st fr v st1 fr1 R [n H] HR. exists (S n). intros f Hf. peel f Hf.
  rewrite H by lia. exact HR.
Qed.

Lemma E_act_fail : forall a e1 cr st fr v st1 fr1,
  evals e1 cr st fr (Done false v st1 fr1) -> evals (CAct a e1) cr st fr (Done false v st1 fr1).
Proof.
  intros a e1 cr st fr v st1 fr1 [n H]. exists (S n). intros f Hf. peel f Hf. rewrite H by lia. reflexivity.
Qed.

Lemma E_seq : forall es cr st fr R, seqs cr st es st fr [] R -> evals (CSeq es) cr st fr R.
Proof. intros es cr st fr R [n H]. exists (S n). intros f Hf. peel f Hf. apply H. lia. Qed.

Lemma S_nil : forall cr st0 st1 fr1 acc, seqs cr st0 [] st1 fr1 acc (Done true (VList (rev acc)) st1 fr1).
Proof. intros. exists 0%nat. intros f _. reflexivity. Qed.

Lemma S_ok : forall cr st0 e1 es st1 fr1 acc v st2 fr2 R,
  evals e1 cr st1 fr1 (Done true v st2 fr2) -> seqs cr st0 es st2 fr2 (v :: acc) R ->
  seqs cr st0 (e1 :: es) st1 fr1 acc R.
Proof.
  intros cr st0 e1 es st1 fr1 acc v st2 fr2 R [n H] [m G]. exists (Nat.max n m). intros f Hf.
  rewrite seq_go_cons. rewrite H by lia. apply G. lia.
Qed.

Lemma S_fail : forall cr st0 e1 es st1 fr1 acc v st2 fr2,
  evals e1 cr st1 fr1 (Done false v st2 fr2) ->
  seqs cr st0 (e1 :: es) st1 fr1 acc (Done false VNil (restore aerr st0 st2) fr2).
Proof.
  intros cr st0 e1 es st1 fr1 acc v st2 fr2 [n H]. exists n. intros f Hf.
  rewrite seq_go_cons. rewrite H by lia. reflexivity.
Qed.

Lemma choice_go_cons : forall evf cr fr e1 es st1,
  cgo evf cr fr (e1 :: es) st1 =
  match evf e1 cr st1 [] with
  | Done true v st2 _ => Done true v st2 fr
  | Done false _ st2 _ => cgo evf cr fr es st2
  | other => other
  end.
Proof. reflexivity. Qed.

Lemma E_choice : forall es cr st fr R, choices cr fr es st R -> evals (CChoice es) cr st fr R.
Proof. intros es cr st fr R [n H]. exists (S n). intros f Hf. peel f Hf. apply H. lia. Qed.

Lemma C_nil : forall cr fr st1, choices cr fr [] st1 (Done false VNil st1 fr).
Proof. intros. exists 0%nat. intros f _. reflexivity. Qed.

Lemma C_ok : forall cr fr e1 es st1 v st2 fr2,
  evals e1 cr st1 [] (Done true v st2 fr2) -> choices cr fr (e1 :: es) st1 (Done true v st2 fr).
Proof.
  intros cr fr e1 es st1 v st2 fr2 [n H]. exists n. intros f Hf. rewrite choice_go_cons, H by lia. reflexivity.
Qed.

Lemma C_next : forall cr fr e1 es st1 v st2 fr2 R,
  evals e1 cr st1 [] (Done false v st2 fr2) -> choices cr fr es st2 R -> choices cr fr (e1 :: es) st1 R.
Proof.
  intros cr fr e1 es st1 v st2 fr2 R [n H] [m G]. exists (Nat.max n m). intros f Hf.
  rewrite choice_go_cons, H by lia. apply G. lia.
Qed.

Lemma E_label_ok : forall l e1 cr st fr v st1 fr1,
  evals e1 cr st [] (Done true v st1 fr1) -> evals (CLabel l e1) cr st fr (Done true v st1 ((l, v) :: fr)).
Proof. intros l e1 cr st fr v st1 fr1 [n H]. exists (S n). intros f Hf. peel f Hf. rewrite H by lia. reflexivity. Qed.

Lemma E_label_fail : forall l e1 cr st fr v st1 fr1,
  evals e1 cr st [] (Done false v st1 fr1) -> evals (CLabel l e1) cr st fr (Done false v st1 fr).
Proof. intros l e1 cr st fr v st1 fr1 [n H]. exists (S n). intros f Hf. peel f Hf. rewrite H by lia. reflexivity. Qed.

Lemma E_opt : forall e1 cr st fr ok v st1 fr1,
  evals e1 cr st [] (Done ok v st1 fr1) -> evals (COpt e1) cr st fr (Done true v st1 fr).
Proof. intros e1 cr st fr ok v st1 fr1 [n H]. exists (S n). intros f Hf. peel f Hf. rewrite H by lia. reflexivity. Qed.

Lemma E_not : forall e1 cr st fr ok v st1 fr1,
  evals e1 cr st [] (Done ok v st1 fr1) -> evals (CNot e1) cr st fr (Done (negb ok) VNil (restore aerr st st1) fr).
Proof. intros e1 cr st fr ok v st1 fr1 [n H]. exists (S n). intros f Hf. peel f Hf. rewrite H by lia. reflexivity. Qed.

Lemma E_ref : forall i body cr st fr ok v st1 fr1,
  nth_error rules i = Some body -> evals body i st [] (Done ok v st1 fr1) ->
  evals (CRef i) cr st fr (Done ok v st1 fr).
Proof.
  intros i body cr st fr ok v st1 fr1 Hb [n H]. exists (S n). intros f Hf. peel f Hf.
  rewrite Hb, H by lia. reflexivity.
Qed.

Lemma E_star : forall e1 cr st fr R, loops e1 cr st fr [] R -> evals (CStar e1) cr st fr R.
Proof. intros e1 cr st fr R [n H]. exists (S n). intros f Hf. peel f Hf. apply H. lia. Qed.

Lemma L_stop : forall e1 cr st fr acc v st1 fr1,
  evals e1 cr st [] (Done false v st1 fr1) -> loops e1 cr st fr acc (Done true (VList (rev acc)) st1 fr).
Proof. intros e1 cr st fr acc v st1 fr1 [n H]. exists (S n). intros f Hf. peel f Hf. rewrite H by lia. reflexivity. Qed.

Lemma L_step : forall e1 cr st fr acc v st1 fr1 R,
  evals e1 cr st [] (Done true v st1 fr1) -> loops e1 cr st1 fr (v :: acc) R -> loops e1 cr st fr acc R.
Proof.
  intros e1 cr st fr acc v st1 fr1 R [n H] [m G]. exists (S (Nat.max n m)). intros f Hf. peel f Hf.
  rewrite H by lia. apply G. lia.
Qed.

Lemma E_lit : forall l cr st fr R, lgo cr st fr l st = R -> evals (CLit l) cr st fr R.
Proof. intros l cr st fr R H. exists 1%nat. intros f Hf. peel f Hf. exact H. Qed.

Lemma E_any : forall cr st fr R, match_any val aerr VNil VBytes cr st fr = R -> evals CAny cr st fr R.
Proof. intros cr st fr R H. exists 1%nat. intros f Hf. peel f Hf. exact H. Qed.

Lemma E_class : forall chars ranges inv cr st fr R,
  match_class val aerr VNil VBytes cr chars ranges inv st fr = R -> evals (CClass chars ranges inv) cr st fr R.
Proof. intros chars ranges inv cr st fr R H. exists 1%nat. intros f Hf. peel f Hf. exact H. Qed.

(** from the depth-explicit lemmas of ParserLexProofs *)
Lemma E_of_bound : forall k e cr st fr R,
  (forall f, (k <= f)%nat -> ev f e cr st fr = R) -> evals e cr st fr R.
Proof. intros k e cr st fr R H. exists k. exact H. Qed.

(** ** literals on ASCII input: the interpreter agrees with [has_prefix] *)
Fixpoint lit_ascii_ok (l : list Z) (s : bytes) : Prop :=
  match l, s with
  | [], _ => ascii_next s
  | _ :: _, [] => True
  | c :: l', d :: s' => ascii d /\ (d = c -> lit_ascii_ok l' s')
  end.

Lemma lit_go_ascii : forall cr (st0 : pst) fr l s o1 es,
  errs st0 = es -> lit_ascii_ok l s -> Forall ascii l ->
  lgo cr st0 fr l (st_of s o1 es) =
  if has_prefix l s
  then Done true (VBytes (takeZ (o1 + Z.of_nat (List.length l) - off st0) (rest st0)))
            (st_of (skipn (List.length l) s) (o1 + Z.of_nat (List.length l)) es) fr
  else Done false VNil (st_of (rest st0) (off st0) es) fr.
Proof.
  intros cr st0 fr l. induction l as [|c l IH]; intros s o1 es Hes Hok Hl.
  - cbn [lit_go has_prefix List.length skipn]. replace (o1 + Z.of_nat 0) with o1 by lia. cbn [off]. reflexivity.
  - inversion Hl as [|c' l' Hc Hl']; subst. cbn [lit_go has_prefix]. unfold cur_rune. cbn [rest].
    destruct s as [|d s].
    + change (decode_rune []) with (rune_error, 0). cbn [fst].
      destruct (Z.eqb_spec rune_error c) as [He|_]; [unfold ascii, rune_error in *; lia|].
      unfold restore. cbn [rest off errs]. reflexivity.
    + cbn [lit_ascii_ok] in Hok. destruct Hok as [Hd Hrest]. rewrite (decode_ascii d s Hd). cbn [fst].
      rewrite Z.eqb_sym. destruct (Z.eqb_spec c d) as [Heq|Hne].
      * subst d. specialize (Hrest eq_refl).
        assert (Hn : ascii_next s).
        { destruct l as [|c2 l2]; [exact Hrest|]. destruct s as [|d2 s2]; [exact I|]. cbn in Hrest. cbn. tauto. }
        rewrite (advance_ascii cr c s o1 (errs st0) Hd Hn). cbn [andb].
        rewrite (IH s (o1 + 1) (errs st0) eq_refl Hrest Hl'). cbn [List.length skipn].
        replace (o1 + 1 + Z.of_nat (List.length l)) with (o1 + Z.of_nat (S (List.length l))) by lia.
        reflexivity.
      * cbn [andb]. unfold restore. cbn [rest off errs]. reflexivity.
Qed.

(** a literal at the head of a rule body that does not match: the rule fails in place *)
Lemma E_lit_at : forall l cr s o es fr,
  lit_ascii_ok l s -> Forall ascii l ->
  evals (CLit l) cr (st_of s o es) fr
        (if has_prefix l s
         then Done true (VBytes (takeZ (Z.of_nat (List.length l)) s))
                   (st_of (skipn (List.length l) s) (o + Z.of_nat (List.length l)) es) fr
         else Done false VNil (st_of s o es) fr).
Proof.
  intros l cr s o es fr Hok Hl. apply E_lit.
  rewrite (lit_go_ascii cr (st_of s o es) fr l s o es eq_refl Hok Hl). cbn [off rest].
  replace (o + Z.of_nat (List.length l) - o) with (Z.of_nat (List.length l)) by lia. reflexivity.
Qed.
