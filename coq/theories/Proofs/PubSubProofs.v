(** Lemmas for C07 about Model/PubSub.v: the NATS and STOMP subscriber state machines. *)
From Coq Require Import ZArith List Lia Bool Permutation Arith.
From FV Require Import Base.Res Base.Bytes Base.GoSem Model.Headers Model.Receivers Model.PubSub
  Proofs.BytesProofs Proofs.HeadersProofs Proofs.HeadersMapProofs.
Import ListNotations.
Local Open Scope nat_scope.

Section Proofs.
  Variable P : Type.
  Variable dlv : bytes -> outcome P.
  Variable topic : bytes.

  Notation inv := (inv P).

  (** the invocations a list of in-flight messages will still produce *)
  Definition dec1 (m : msg) : list inv :=
    match dlv (m_body m) with Deliver h p => [mkInv (m_id m) h p] | _ => [] end.
  Definition dec (ms : list msg) : list inv := flat_map dec1 ms.

  Lemma dec_app a b : dec (a ++ b) = dec a ++ dec b.
  Proof. apply flat_map_app. Qed.
  Lemma dec_cons m r : dec (m :: r) = dec1 m ++ dec r.
  Proof. reflexivity. Qed.
  Lemma dec_nil : dec [] = [].
  Proof. reflexivity. Qed.
  Ltac decs := repeat (rewrite ?dec_app, ?dec_cons, ?dec_nil, ?app_nil_r, <- ?app_assoc); cbn [app].
  Ltac decs_in H := repeat (rewrite ?dec_app, ?dec_cons, ?dec_nil, ?app_nil_r, <- ?app_assoc in H); cbn [app] in H.

  (** ** owed *)
  Definition on_topic (t : bytes) : bool := Headers.bytes_eqb t topic.

  Lemma owed_app pubs : forall k more,
    owed dlv topic k (pubs ++ more) = owed dlv topic k pubs ++ owed dlv topic (k + length pubs) more.
  Proof.
    induction pubs as [|[t b] r IH]; intros k more.
    - cbn. now rewrite Nat.add_0_r.
    - cbn [app owed length]. rewrite IH. replace (S k + length r) with (k + S (length r)) by lia.
      destruct (Headers.bytes_eqb t topic); [destruct (dlv b)|]; reflexivity.
  Qed.

  Lemma owed_snoc pubs t b :
    owed dlv topic 0 (pubs ++ [(t, b)]) =
    owed dlv topic 0 pubs ++ (if on_topic t then dec1 (mkMsg (length pubs) t b) else []).
  Proof.
    rewrite owed_app. cbn. unfold on_topic, dec1. cbn.
    destruct (Headers.bytes_eqb t topic); [destruct (dlv b)|]; reflexivity.
  Qed.

  Lemma owed_ids pubs : forall k i, In i (owed dlv topic k pubs) -> k <= i_id i < k + length pubs.
  Proof.
    induction pubs as [|[t b] r IH]; intros k i Hin; [contradiction|].
    cbn [owed length] in *.
    assert (Hr : In i (owed dlv topic (S k) r) -> k <= i_id i < k + S (length r)).
    { intros H. apply IH in H. lia. }
    destruct (Headers.bytes_eqb t topic); [|auto].
    destruct (dlv b); auto. destruct Hin as [<- | Hin]; [cbn; lia|auto].
  Qed.

  Lemma owed_nodup pubs : forall k, NoDup (map i_id (owed dlv topic k pubs)).
  Proof.
    induction pubs as [|[t b] r IH]; intros k; [constructor|].
    cbn [owed]. destruct (Headers.bytes_eqb t topic); [|apply IH].
    destruct (dlv b); try apply IH. cbn [map i_id]. constructor; [|apply IH].
    intros Hin. apply in_map_iff in Hin. destruct Hin as [i [Hi Hin]]. apply owed_ids in Hin. lia.
  Qed.

  (** what being owed means: published at that position, on the topic, and decoding to exactly this *)
  Lemma owed_spec pubs : forall k i,
    In i (owed dlv topic k pubs) <->
    exists t b, nth_error pubs (i_id i - k) = Some (t, b) /\ k <= i_id i /\ t = topic /\
                dlv b = Deliver (i_hdrs i) (i_val i).
  Proof.
    induction pubs as [|[t b] r IH]; intros k i.
    - cbn. split; [contradiction|]. intros (t & b & H & _). destruct (i_id i - k); discriminate.
    - cbn [owed].
      assert (Hrest : In i (owed dlv topic (S k) r) <->
                      exists t0 b0, nth_error ((t, b) :: r) (i_id i - k) = Some (t0, b0) /\ S k <= i_id i /\
                                    t0 = topic /\ dlv b0 = Deliver (i_hdrs i) (i_val i)).
      { rewrite IH. split; intros (t0 & b0 & Hn & Hk & Ht & Hd); exists t0, b0; repeat split; auto.
        - replace (i_id i - k) with (S (i_id i - S k)) by lia. exact Hn.
        - replace (i_id i - k) with (S (i_id i - S k)) in Hn by lia. exact Hn. }
      destruct (Headers.bytes_eqb t topic) eqn:Et.
      + apply bytes_eqb_eq in Et.
        destruct (dlv b) as [h p| |] eqn:Ed.
        * split.
          -- intros [<- | Hin].
             ++ exists t, b. cbn. rewrite Nat.sub_diag. repeat split; auto.
             ++ apply Hrest in Hin. destruct Hin as (t0 & b0 & Hn & Hk & H). exists t0, b0. repeat split; try tauto. lia.
          -- intros (t0 & b0 & Hn & Hk & Ht & Hd).
             destruct (Nat.eq_dec (i_id i) k) as [E|E].
             ++ left. rewrite E, Nat.sub_diag in Hn. cbn in Hn. injection Hn as <- <-.
                rewrite Ed in Hd. injection Hd as -> ->. destruct i; cbn in *; subst; reflexivity.
             ++ right. apply Hrest. exists t0, b0. repeat split; auto. lia.
        * rewrite Hrest. split; intros (t0 & b0 & Hn & Hk & Ht & Hd); exists t0, b0; repeat split; auto; try lia.
          destruct (Nat.eq_dec (i_id i) k) as [E|E]; [|lia].
          rewrite E, Nat.sub_diag in Hn. cbn in Hn. injection Hn as <- <-. congruence.
        * rewrite Hrest. split; intros (t0 & b0 & Hn & Hk & Ht & Hd); exists t0, b0; repeat split; auto; try lia.
          destruct (Nat.eq_dec (i_id i) k) as [E|E]; [|lia].
          rewrite E, Nat.sub_diag in Hn. cbn in Hn. injection Hn as <- <-. congruence.
      + apply bytes_eqb_neq in Et.
        rewrite Hrest. split; intros (t0 & b0 & Hn & Hk & Ht & Hd); exists t0, b0; repeat split; auto; try lia.
        destruct (Nat.eq_dec (i_id i) k) as [E|E]; [|lia].
        rewrite E, Nat.sub_diag in Hn. cbn in Hn. injection Hn as <- <-. congruence.
  Qed.

  (** ** set_nth *)
  Lemma set_nth_length {A} (l : list A) : forall n x, length (set_nth n x l) = length l.
  Proof. induction l; intros [|n] x; cbn; auto. Qed.

  Lemma nth_error_set_nth_same {A} (l : list A) : forall n x y,
    nth_error l n = Some y -> nth_error (set_nth n x l) n = Some x.
  Proof. induction l; intros [|n] x y H; cbn in *; try discriminate; eauto. Qed.

  Lemma nth_error_set_nth_other {A} (l : list A) : forall n m x,
    n <> m -> nth_error (set_nth n x l) m = nth_error l m.
  Proof. induction l; intros [|n] [|m] x H; cbn; auto; try lia. Qed.

  Lemma flat_map_set_nth {A B} (f : A -> list B) (l : list A) : forall n x y,
    nth_error l n = Some y ->
    exists pre post, flat_map f l = pre ++ f y ++ post /\ flat_map f (set_nth n x l) = pre ++ f x ++ post.
  Proof.
    induction l as [|a l IH]; intros [|n] x y H; cbn in *; try discriminate.
    - injection H as ->. exists [], (flat_map f l). auto.
    - destruct (IH n x y H) as (pre & post & E1 & E2).
      exists (f a ++ pre), post. rewrite E1, E2, <- !app_assoc. auto.
  Qed.

  Lemma NoDup_app_l {A} (a b : list A) : NoDup (a ++ b) -> NoDup a.
  Proof.
    induction a as [|x a IH]; intros H; [constructor|]. cbn in H. inversion H; subst.
    constructor; [|auto]. intros Hin. apply H2. apply in_or_app. now left.
  Qed.

  Lemma Forall_set_nth {A} (Q : A -> Prop) (l : list A) : forall n x,
    Forall Q l -> Q x -> Forall Q (set_nth n x l).
  Proof.
    induction l; intros [|n] x Hl Hx; cbn; auto; inversion Hl; subst; constructor; auto.
  Qed.

  Ltac inapp := repeat match goal with
                       | H : context [In _ (_ ++ _)] |- _ => rewrite in_app_iff in H
                       | |- context [In _ (_ ++ _)] => rewrite in_app_iff
                       end.

  (** * NATS *)
  Definition took1 (w : wstate) : list msg := match w with WTook m => [m] | _ => [] end.
  Definition took (ws : list wstate) : list msg := flat_map took1 ws.
  Definition ocb (o : option msg) : list msg := match o with Some m => [m] | None => [] end.
  Definition nflight (s : nats P) : list msg := n_workc s ++ ocb (n_cb s) ++ n_pend s.
  Definition alive (w : wstate) : Prop := match w with WGone | WDead => False | _ => True end.
  Definition unsub_free (tr : list nev) : Prop := ~ In NUnsub tr.
  Definition crash_free (tr : list nev) : Prop := forall t b, In (NPub t b) tr -> dlv b <> Crash.

  Lemma nrun_app tr1 : forall s tr2,
    nrun dlv s (tr1 ++ tr2) = match nrun dlv s tr1 with Some s1 => nrun dlv s1 tr2 | None => None end.
  Proof.
    induction tr1 as [|e tr1 IH]; intros s tr2; [reflexivity|].
    cbn [app nrun]. destruct (nstep dlv s e); [apply IH|reflexivity].
  Qed.

  Lemma npubs_app tr1 tr2 : npubs (tr1 ++ tr2) = npubs tr1 ++ npubs tr2.
  Proof. induction tr1 as [|[] tr1 IH]; cbn; rewrite ?IH; reflexivity. Qed.

  Lemma unsub_free_snoc tr e : unsub_free (tr ++ [e]) <-> unsub_free tr /\ e <> NUnsub.
  Proof.
    unfold unsub_free. rewrite in_app_iff. cbn. split.
    - intros H. split; [tauto|]. intros ->. tauto.
    - intros [H1 H2] [H|[H|[]]]; [tauto|]. apply H2. now rewrite H.
  Qed.
  Lemma crash_free_snoc tr e : crash_free (tr ++ [e]) -> crash_free tr.
  Proof. intros H t b Hin. apply (H t b). apply in_or_app. now left. Qed.

  Record ninv (nw : nat) (tr : list nev) (s : nats P) : Prop := {
    ni_topic : n_topic s = topic;
    ni_next : n_next s = length (npubs tr);
    ni_nw : length (n_workers s) = nw;
    ni_perm : exists dropped,
        Permutation (n_log s ++ dec (took (n_workers s)) ++ dec (nflight s) ++ dropped)
                    (owed dlv topic 0 (npubs tr))
        /\ (unsub_free tr -> dropped = []);
    ni_order : unsub_free tr -> nw = 1 ->
        n_log s ++ dec (took (n_workers s)) ++ dec (nflight s) = owed dlv topic 0 (npubs tr);
    ni_sub : unsub_free tr -> n_sub s = true /\ n_quit s = false;
    ni_bodies : forall m, In m (took (n_workers s) ++ nflight s) -> exists t, In (NPub t (m_body m)) tr;
    ni_alive : unsub_free tr -> crash_free tr -> Forall alive (n_workers s)
  }.

  Lemma took_repeat_idle n : took (repeat WIdle n) = [].
  Proof. induction n; cbn; auto. Qed.

  Lemma ninv_init nw cap : ninv nw [] (ninit P topic nw cap).
  Proof.
    constructor; cbn; auto.
    - apply repeat_length.
    - exists []. rewrite took_repeat_idle. cbn. split; auto.
    - intros _ _. rewrite took_repeat_idle. reflexivity.
    - intros m. rewrite took_repeat_idle. cbn. contradiction.
    - intros _ _. apply Forall_forall. intros w Hw. apply repeat_spec in Hw. subst. exact I.
  Qed.

  Lemma single_worker (ws : list wstate) i w :
    length ws = 1 -> nth_error ws i = Some w -> ws = [w] /\ i = 0.
  Proof.
    destruct ws as [|a [|b r]]; cbn; intros Hl Hn; try discriminate.
    destruct i as [|i]; cbn in Hn; [injection Hn as ->; auto|]. destruct i; discriminate.
  Qed.

  Lemma perm_swap_mid {A} (l a x b r : list A) :
    Permutation (l ++ a ++ x ++ b ++ r) (l ++ x ++ a ++ b ++ r).
  Proof. apply Permutation_app_head. rewrite !app_assoc. do 2 apply Permutation_app_tail. apply Permutation_app_comm. Qed.

  Lemma perm_move3 {A} (a b x d : list A) : Permutation (a ++ b ++ x ++ d) (x ++ a ++ b ++ d).
  Proof.
    rewrite (app_assoc a b), (app_assoc a b d). apply Permutation_app_swap_app.
  Qed.

  (** a worker slot changes from [w] to [w']: how [took] changes *)
  Lemma took_set_nth ws i w w' :
    nth_error ws i = Some w ->
    exists pre post, took ws = pre ++ took1 w ++ post /\ took (set_nth i w' ws) = pre ++ took1 w' ++ post.
  Proof. intros H. apply (flat_map_set_nth took1 ws i w' w H). Qed.

  Lemma nstep_inv nw tr s e s' :
    ninv nw tr s -> nstep dlv s e = Some s' -> ninv nw (tr ++ [e]) s'.
  Proof.
    intros [Ht Hn Hw [dropped [Hperm Hdrop]] Hord Hsub Hbod Hal] Hstep.
    destruct e as [t b| | |i|i|i| |i]; cbn [nstep] in Hstep.
    - (* NPub *)
      injection Hstep as <-.
      set (m := mkMsg (n_next s) t b).
      assert (Hpubs : npubs (tr ++ [NPub t b]) = npubs tr ++ [(t, b)]) by (rewrite npubs_app; reflexivity).
      assert (Hm : m = mkMsg (length (npubs tr)) t b) by (unfold m; now rewrite Hn).
      constructor; cbn [n_topic n_next n_workers n_log n_sub n_quit]; auto.
      + rewrite Hpubs, app_length. cbn. lia.
      + rewrite Hpubs, owed_snoc, <- Hm. unfold on_topic. rewrite Ht.
        unfold nflight. cbn [n_workc n_cb n_pend].
        destruct (n_sub s) eqn:Es; cbn [andb].
        * destruct (Headers.bytes_eqb t topic) eqn:Et.
          -- exists dropped. split.
             ++ unfold nflight in Hperm.
                (* move [dec1 m] from before [dropped] to the end *)
                eapply Permutation_trans; [|apply Permutation_app_tail; exact Hperm].
                decs. do 5 apply Permutation_app_head. apply Permutation_app_comm.
             ++ intros Hu. apply unsub_free_snoc in Hu. tauto.
          -- exists dropped. rewrite app_nil_r. split; [exact Hperm|].
             intros Hu. apply unsub_free_snoc in Hu. tauto.
        * destruct (Headers.bytes_eqb t topic) eqn:Et.
          -- exists (dropped ++ dec1 m). split.
             ++ rewrite !app_assoc. apply Permutation_app_tail. rewrite <- !app_assoc. exact Hperm.
             ++ intros Hu. apply unsub_free_snoc in Hu. destruct (Hsub (proj1 Hu)). congruence.
          -- exists dropped. rewrite app_nil_r. split; [exact Hperm|].
             intros Hu. apply unsub_free_snoc in Hu. tauto.
      + intros Hu H1. apply unsub_free_snoc in Hu. destruct Hu as [Hu _].
        destruct (Hsub Hu) as [Es _]. rewrite Es. cbn [andb].
        rewrite Hpubs, owed_snoc, <- Hm, <- (Hord Hu H1). unfold on_topic. rewrite Ht.
        unfold nflight. cbn [n_workc n_cb n_pend].
        destruct (Headers.bytes_eqb t topic); rewrite ?app_nil_r; [|reflexivity].
        decs. reflexivity.
      + intros Hu. apply unsub_free_snoc in Hu. apply Hsub. tauto.
      + intros m0 Hin. unfold nflight in Hin. cbn [n_workc n_cb n_pend] in Hin.
        assert (Hcase : In m0 (took (n_workers s) ++ nflight s) \/ m0 = m).
        { unfold nflight. rewrite !in_app_iff in *.
          destruct (n_sub s && Headers.bytes_eqb t (n_topic s)); [|tauto].
          rewrite in_app_iff in Hin. cbn in Hin. intuition. }
        destruct Hcase as [H | ->].
        * destruct (Hbod m0 H) as [t0 H0]. exists t0. apply in_or_app. now left.
        * exists t. apply in_or_app. right. cbn. now left.
      + intros Hu Hc. apply unsub_free_snoc in Hu. apply Hal; [tauto|]. eapply crash_free_snoc; eauto.
    - (* NDispatch *)
      destruct (n_sub s) eqn:Es; [|discriminate]. destruct (n_cb s) eqn:Ec; [discriminate|].
      destruct (n_pend s) as [|m rest] eqn:Ep; [discriminate|]. injection Hstep as <-.
      assert (Hfl : nflight s = n_workc s ++ [m] ++ rest) by (unfold nflight; now rewrite Ec, Ep).
      assert (Hpubs : npubs (tr ++ [NDispatch]) = npubs tr) by (rewrite npubs_app; cbn; apply app_nil_r).
      constructor; cbn [n_topic n_next n_workers n_log n_sub n_quit]; rewrite ?Hpubs; auto.
      + exists dropped. unfold nflight at 1. cbn [n_workc n_cb n_pend ocb]. rewrite <- Hfl.
        split; [exact Hperm|]. intros Hu. apply unsub_free_snoc in Hu. tauto.
      + intros Hu H1. apply unsub_free_snoc in Hu. unfold nflight at 1. cbn [n_workc n_cb n_pend ocb].
        rewrite <- Hfl. apply Hord; tauto.
      + intros Hu. apply unsub_free_snoc in Hu. apply Hsub. tauto.
      + intros m0 Hin. unfold nflight at 1 in Hin. cbn [n_workc n_cb n_pend ocb] in Hin. rewrite <- Hfl in Hin.
        destruct (Hbod m0 Hin) as [t0 H0]. exists t0. apply in_or_app. now left.
      + intros Hu Hc. apply unsub_free_snoc in Hu. apply Hal; [tauto|]. eapply crash_free_snoc; eauto.
    - (* NEnqueue *)
      destruct (n_cb s) as [m|] eqn:Ec; [|discriminate].
      destruct (length (n_workc s) <? n_cap s); [|discriminate]. injection Hstep as <-.
      assert (Hfl : nflight s = (n_workc s ++ [m]) ++ [] ++ n_pend s).
      { unfold nflight. rewrite Ec. cbn. now rewrite <- app_assoc. }
      assert (Hpubs : npubs (tr ++ [NEnqueue]) = npubs tr) by (rewrite npubs_app; cbn; apply app_nil_r).
      constructor; cbn [n_topic n_next n_workers n_log n_sub n_quit]; rewrite ?Hpubs; auto.
      + exists dropped. unfold nflight at 1. cbn [n_workc n_cb n_pend ocb]. rewrite <- Hfl.
        split; [exact Hperm|]. intros Hu. apply unsub_free_snoc in Hu. tauto.
      + intros Hu H1. apply unsub_free_snoc in Hu. unfold nflight at 1. cbn [n_workc n_cb n_pend ocb].
        rewrite <- Hfl. apply Hord; tauto.
      + intros Hu. apply unsub_free_snoc in Hu. apply Hsub. tauto.
      + intros m0 Hin. unfold nflight at 1 in Hin. cbn [n_workc n_cb n_pend ocb] in Hin. rewrite <- Hfl in Hin.
        destruct (Hbod m0 Hin) as [t0 H0]. exists t0. apply in_or_app. now left.
      + intros Hu Hc. apply unsub_free_snoc in Hu. apply Hal; [tauto|]. eapply crash_free_snoc; eauto.
    - (* NTake *)
      destruct (nth_error (n_workers s) i) as [w|] eqn:Ei; [|discriminate].
      destruct w; try discriminate.
      destruct (n_workc s) as [|m rest] eqn:Ew; [discriminate|]. injection Hstep as <-.
      destruct (took_set_nth _ i WIdle (WTook m) Ei) as (pre & post & Et1 & Et2). cbn [took1] in Et1, Et2.
      assert (Hfl : nflight s = m :: rest ++ ocb (n_cb s) ++ n_pend s) by (unfold nflight; now rewrite Ew).
      assert (Hpubs : npubs (tr ++ [NTake i]) = npubs tr) by (rewrite npubs_app; cbn; apply app_nil_r).
      constructor; cbn [n_topic n_next n_workers n_log n_sub n_quit]; rewrite ?Hpubs; auto.
      + now rewrite set_nth_length.
      + exists dropped. unfold nflight at 1. cbn [n_workc n_cb n_pend]. rewrite Et2.
        split; [|intros Hu; apply unsub_free_snoc in Hu; tauto].
        rewrite Et1, Hfl in Hperm. eapply Permutation_trans; [|exact Hperm].
        decs. apply Permutation_app_head. apply Permutation_app_head. apply Permutation_app_swap_app.
      + intros Hu H1. apply unsub_free_snoc in Hu. destruct Hu as [Hu _].
        specialize (Hord Hu H1). rewrite H1 in Hw. destruct (single_worker _ _ _ Hw Ei) as [Ews ->].
        rewrite Ews in *. cbn [set_nth took flat_map took1 app] in *.
        unfold nflight at 1. cbn [n_workc n_cb n_pend]. rewrite <- Hord, Hfl.
        decs. reflexivity.
      + intros Hu. apply unsub_free_snoc in Hu. apply Hsub. tauto.
      + intros m0 Hin. assert (Hin' : In m0 (took (n_workers s) ++ nflight s)).
        { rewrite Et1, Hfl. rewrite Et2 in Hin. unfold nflight in Hin. cbn [n_workc n_cb n_pend] in Hin.
          rewrite !in_app_iff in *. cbn in *. rewrite !in_app_iff in *. intuition. }
        destruct (Hbod m0 Hin') as [t0 H0]. exists t0. apply in_or_app. now left.
      + intros Hu Hc. apply unsub_free_snoc in Hu. apply Forall_set_nth; [|exact I].
        apply Hal; [tauto|]. eapply crash_free_snoc; eauto.
    - (* NStart *)
      destruct (nth_error (n_workers s) i) as [w|] eqn:Ei; [|discriminate].
      destruct w as [|m|m| |]; try discriminate.
      assert (Hpubs : npubs (tr ++ [NStart i]) = npubs tr) by (rewrite npubs_app; cbn; apply app_nil_r).
      assert (Hbm : exists t0, In (NPub t0 (m_body m)) tr).
      { apply Hbod. apply in_or_app. left. destruct (took_set_nth _ i (WTook m) WIdle Ei) as (pre & post & E1 & _).
        rewrite E1. cbn. apply in_or_app. right. now left. }
      destruct (dlv (m_body m)) as [h p| |] eqn:Ed; injection Hstep as <-.
      + destruct (took_set_nth _ i (WTook m) (WBusy m) Ei) as (pre & post & Et1 & Et2). cbn [took1] in Et1, Et2.
        assert (Hd1 : dec1 m = [mkInv (m_id m) h p]) by (unfold dec1; now rewrite Ed).
        constructor; cbn [n_topic n_next n_workers n_log n_sub n_quit]; rewrite ?Hpubs; auto.
        * now rewrite set_nth_length.
        * exists dropped. split; [|intros Hu; apply unsub_free_snoc in Hu; tauto].
          rewrite Et2. unfold nflight at 1. cbn [n_workc n_cb n_pend]. fold (nflight s).
          rewrite Et1 in Hperm. eapply Permutation_trans; [|exact Hperm].
          rewrite <- Hd1. decs. apply Permutation_app_head. apply Permutation_app_swap_app.
        * intros Hu H1. apply unsub_free_snoc in Hu. destruct Hu as [Hu _].
          specialize (Hord Hu H1). rewrite H1 in Hw. destruct (single_worker _ _ _ Hw Ei) as [Ews ->].
          rewrite Ews in *. cbn [set_nth took flat_map took1 app] in *.
          unfold nflight at 1. cbn [n_workc n_cb n_pend]. fold (nflight s). rewrite <- Hord.
          decs. rewrite Hd1. decs. reflexivity.
        * intros Hu. apply unsub_free_snoc in Hu. apply Hsub. tauto.
        * intros m0 Hin. assert (Hin' : In m0 (took (n_workers s) ++ nflight s)).
          { rewrite Et1. rewrite Et2 in Hin. unfold nflight in *. cbn [n_workc n_cb n_pend] in Hin.
            rewrite !in_app_iff in *. cbn in *. intuition. }
          destruct (Hbod m0 Hin') as [t0 H0]. exists t0. apply in_or_app. now left.
        * intros Hu Hc. apply unsub_free_snoc in Hu. apply Forall_set_nth; [|exact I].
          apply Hal; [tauto|]. eapply crash_free_snoc; eauto.
      + destruct (took_set_nth _ i (WTook m) WIdle Ei) as (pre & post & Et1 & Et2). cbn [took1] in Et1, Et2.
        assert (Hd1 : dec1 m = []) by (unfold dec1; now rewrite Ed).
        unfold n_with_worker.
        constructor; cbn [n_topic n_next n_workers n_log n_sub n_quit]; rewrite ?Hpubs; auto.
        * now rewrite set_nth_length.
        * exists dropped. split; [|intros Hu; apply unsub_free_snoc in Hu; tauto].
          rewrite Et2. unfold nflight at 1. cbn [n_workc n_cb n_pend]. fold (nflight s).
          rewrite Et1 in Hperm. decs_in Hperm. rewrite Hd1 in Hperm. decs. exact Hperm.
        * intros Hu H1. apply unsub_free_snoc in Hu. destruct Hu as [Hu _].
          specialize (Hord Hu H1). rewrite H1 in Hw. destruct (single_worker _ _ _ Hw Ei) as [Ews ->].
          rewrite Ews in *. cbn [set_nth took flat_map took1 app] in *.
          unfold nflight at 1. cbn [n_workc n_cb n_pend]. fold (nflight s). rewrite <- Hord.
          decs. rewrite Hd1. reflexivity.
        * intros Hu. apply unsub_free_snoc in Hu. apply Hsub. tauto.
        * intros m0 Hin. assert (Hin' : In m0 (took (n_workers s) ++ nflight s)).
          { rewrite Et1. rewrite Et2 in Hin. unfold nflight in *. cbn [n_workc n_cb n_pend] in Hin.
            rewrite !in_app_iff in *. cbn in *. intuition. }
          destruct (Hbod m0 Hin') as [t0 H0]. exists t0. apply in_or_app. now left.
        * intros Hu Hc. apply unsub_free_snoc in Hu. apply Forall_set_nth; [|exact I].
          apply Hal; [tauto|]. eapply crash_free_snoc; eauto.
      + destruct (took_set_nth _ i (WTook m) WDead Ei) as (pre & post & Et1 & Et2). cbn [took1] in Et1, Et2.
        assert (Hd1 : dec1 m = []) by (unfold dec1; now rewrite Ed).
        unfold n_with_worker.
        constructor; cbn [n_topic n_next n_workers n_log n_sub n_quit]; rewrite ?Hpubs; auto.
        * now rewrite set_nth_length.
        * exists dropped. split; [|intros Hu; apply unsub_free_snoc in Hu; tauto].
          rewrite Et2. unfold nflight at 1. cbn [n_workc n_cb n_pend]. fold (nflight s).
          rewrite Et1 in Hperm. decs_in Hperm. rewrite Hd1 in Hperm. decs. exact Hperm.
        * intros Hu H1. apply unsub_free_snoc in Hu. destruct Hu as [Hu _].
          specialize (Hord Hu H1). rewrite H1 in Hw. destruct (single_worker _ _ _ Hw Ei) as [Ews ->].
          rewrite Ews in *. cbn [set_nth took flat_map took1 app] in *.
          unfold nflight at 1. cbn [n_workc n_cb n_pend]. fold (nflight s). rewrite <- Hord.
          decs. rewrite Hd1. reflexivity.
        * intros Hu. apply unsub_free_snoc in Hu. apply Hsub. tauto.
        * intros m0 Hin. assert (Hin' : In m0 (took (n_workers s) ++ nflight s)).
          { rewrite Et1. rewrite Et2 in Hin. unfold nflight in *. cbn [n_workc n_cb n_pend] in Hin.
            rewrite !in_app_iff in *. cbn in *. intuition. }
          destruct (Hbod m0 Hin') as [t0 H0]. exists t0. apply in_or_app. now left.
        * intros Hu Hc. exfalso. destruct Hbm as [t0 H0]. apply (Hc t0 (m_body m)); [|exact Ed].
          apply in_or_app. now left.
    - (* NDone *)
      destruct (nth_error (n_workers s) i) as [w|] eqn:Ei; [|discriminate].
      destruct w as [|m|m| |]; try discriminate. injection Hstep as <-.
      destruct (took_set_nth _ i (WBusy m) WIdle Ei) as (pre & post & Et1 & Et2). cbn [took1] in Et1, Et2.
      assert (Htk : took (set_nth i WIdle (n_workers s)) = took (n_workers s)) by congruence.
      assert (Hpubs : npubs (tr ++ [NDone i]) = npubs tr) by (rewrite npubs_app; cbn; apply app_nil_r).
      unfold n_with_worker.
      constructor; cbn [n_topic n_next n_workers n_log n_sub n_quit]; rewrite ?Hpubs, ?Htk; auto.
      + now rewrite set_nth_length.
      + exists dropped. split; [exact Hperm|intros Hu; apply unsub_free_snoc in Hu; tauto].
      + intros Hu H1. apply unsub_free_snoc in Hu. apply Hord; tauto.
      + intros Hu. apply unsub_free_snoc in Hu. apply Hsub. tauto.
      + intros m0 Hin. destruct (Hbod m0 Hin) as [t0 H0]. exists t0. apply in_or_app. now left.
      + intros Hu Hc. apply unsub_free_snoc in Hu. apply Forall_set_nth; [|exact I].
        apply Hal; [tauto|]. eapply crash_free_snoc; eauto.
    - (* NUnsub *)
      assert (Hnu : ~ unsub_free (tr ++ [NUnsub])).
      { intros Hu. apply unsub_free_snoc in Hu. tauto. }
      assert (Hpubs : npubs (tr ++ [NUnsub]) = npubs tr) by (rewrite npubs_app; cbn; apply app_nil_r).
      destruct (n_sub s) eqn:Es; injection Hstep as <-.
      + constructor; cbn [n_topic n_next n_workers n_log n_sub n_quit]; rewrite ?Hpubs; auto; try tauto.
        * exists (dec (n_pend s) ++ dropped). split; [|tauto].
          unfold nflight in *. cbn [n_workc n_cb n_pend]. decs_in Hperm. decs. exact Hperm.
        * intros m0 Hin. assert (Hin' : In m0 (took (n_workers s) ++ nflight s)).
          { unfold nflight in *. cbn [n_workc n_cb n_pend] in Hin. rewrite !in_app_iff in *. cbn in Hin. intuition. }
          destruct (Hbod m0 Hin') as [t0 H0]. exists t0. apply in_or_app. now left.
      + constructor; rewrite ?Hpubs; auto; try tauto.
        * exists dropped. split; [exact Hperm|tauto].
        * intros m0 Hin. destruct (Hbod m0 Hin) as [t0 H0]. exists t0. apply in_or_app. now left.
    - (* NQuit *)
      destruct (nth_error (n_workers s) i) as [w|] eqn:Ei; [|discriminate].
      destruct w; try discriminate. destruct (n_quit s) eqn:Eq; [|discriminate]. injection Hstep as <-.
      destruct (took_set_nth _ i WIdle WGone Ei) as (pre & post & Et1 & Et2). cbn [took1] in Et1, Et2.
      assert (Htk : took (set_nth i WGone (n_workers s)) = took (n_workers s)) by congruence.
      assert (Hpubs : npubs (tr ++ [NQuit i]) = npubs tr) by (rewrite npubs_app; cbn; apply app_nil_r).
      assert (Hnu : ~ unsub_free (tr ++ [NQuit i])).
      { intros Hu. apply unsub_free_snoc in Hu. destruct (Hsub (proj1 Hu)). congruence. }
      unfold n_with_worker.
      constructor; cbn [n_topic n_next n_workers n_log n_sub n_quit]; rewrite ?Hpubs, ?Htk; auto; try tauto.
      + now rewrite set_nth_length.
      + exists dropped. split; [exact Hperm|tauto].
      + intros m0 Hin. destruct (Hbod m0 Hin) as [t0 H0]. exists t0. apply in_or_app. now left.
  Qed.

  Lemma nrun_inv nw cap tr : forall s,
    nrun dlv (ninit P topic nw cap) tr = Some s -> ninv nw tr s.
  Proof.
    induction tr as [|e tr IH] using rev_ind; intros s Hrun.
    - cbn in Hrun. injection Hrun as <-. apply ninv_init.
    - rewrite nrun_app in Hrun. destruct (nrun dlv (ninit P topic nw cap) tr) as [s1|] eqn:E1; [|discriminate].
      cbn in Hrun. destruct (nstep dlv s1 e) as [s2|] eqn:E2; [|discriminate]. injection Hrun as <-.
      eapply nstep_inv; eauto.
  Qed.

  (** ** consequences *)
  Definition nquiescent (s : nats P) : Prop := forall e, n_internal e = true -> nstep dlv s e = None.

  Lemma nstep_cap s e s' : nstep dlv s e = Some s' -> n_cap s' = n_cap s.
  Proof.
    destruct e as [t b| | |i|i|i| |i]; cbn [nstep]; intros H.
    - now injection H as <-.
    - destruct (n_sub s), (n_cb s), (n_pend s); try discriminate. now injection H as <-.
    - destruct (n_cb s); [|discriminate]. destruct (_ <? _); [|discriminate]. now injection H as <-.
    - destruct (nth_error _ _) as [[]|]; try discriminate. destruct (n_workc s); [discriminate|]. now injection H as <-.
    - destruct (nth_error _ _) as [[]|]; try discriminate. destruct (dlv _); now injection H as <-.
    - destruct (nth_error _ _) as [[]|]; try discriminate. now injection H as <-.
    - destruct (n_sub s); now injection H as <-.
    - destruct (nth_error _ _) as [[]|]; try discriminate. destruct (n_quit s); [|discriminate]. now injection H as <-.
  Qed.

  Lemma nrun_cap tr : forall s s', nrun dlv s tr = Some s' -> n_cap s' = n_cap s.
  Proof.
    induction tr as [|e tr IH]; intros s s' H; cbn in H; [now injection H as <-|].
    destruct (nstep dlv s e) eqn:E; [|discriminate]. rewrite (IH _ _ H). eapply nstep_cap; eauto.
  Qed.

  Lemma took_nil ws : (forall i m, nth_error ws i <> Some (WTook m)) -> took ws = [].
  Proof.
    induction ws as [|w ws IH]; intros H; [reflexivity|].
    change (took (w :: ws)) with (took1 w ++ took ws).
    rewrite IH; [|intros i m; apply (H (S i) m)].
    destruct w; cbn; auto. exfalso. apply (H 0 m). reflexivity.
  Qed.

  Lemma nquiescent_empty nw tr s :
    ninv nw tr s -> unsub_free tr -> crash_free tr -> 0 < nw -> 0 < n_cap s -> nquiescent s ->
    took (n_workers s) = [] /\ nflight s = [].
  Proof.
    intros Hi Hu Hc Hnw Hcap Hq.
    destruct (ni_sub _ _ _ Hi Hu) as [Es Eq].
    pose proof (ni_alive _ _ _ Hi Hu Hc) as Hal. pose proof (ni_nw _ _ _ Hi) as Hl.
    assert (Hidle : forall i w, nth_error (n_workers s) i = Some w -> w = WIdle).
    { intros i w Hn. pose proof (proj1 (Forall_forall _ _) Hal w (nth_error_In _ _ Hn)) as Ha.
      destruct w; try contradiction; auto.
      - specialize (Hq (NStart i) eq_refl). cbn [nstep] in Hq. rewrite Hn in Hq. destruct (dlv (m_body m)); discriminate.
      - specialize (Hq (NDone i) eq_refl). cbn [nstep] in Hq. rewrite Hn in Hq. discriminate. }
    assert (H0 : nth_error (n_workers s) 0 = Some WIdle).
    { destruct (nth_error (n_workers s) 0) as [w|] eqn:E0.
      - f_equal. eapply Hidle; eauto.
      - apply nth_error_None in E0. lia. }
    split.
    - apply took_nil. intros i m Hn. apply Hidle in Hn. discriminate.
    - assert (Hw : n_workc s = []).
      { specialize (Hq (NTake 0) eq_refl). cbn [nstep] in Hq. rewrite H0 in Hq. destruct (n_workc s); [auto|discriminate]. }
      assert (Hcb : n_cb s = None).
      { specialize (Hq NEnqueue eq_refl). cbn [nstep] in Hq. destruct (n_cb s); [|auto]. rewrite Hw in Hq.
        destruct (n_cap s); [lia|]. cbn in Hq. discriminate. }
      assert (Hp : n_pend s = []).
      { specialize (Hq NDispatch eq_refl). cbn [nstep] in Hq. rewrite Es, Hcb in Hq. destruct (n_pend s); [auto|discriminate]. }
      unfold nflight. now rewrite Hw, Hcb, Hp.
  Qed.

  (** c07_single_worker_exact (NATS) *)
  Lemma nats_single_worker_exact cap tr s :
    0 < cap -> nrun dlv (ninit P topic 1 cap) tr = Some s -> unsub_free tr -> crash_free tr ->
    (exists rest, owed dlv topic 0 (npubs tr) = n_log s ++ rest) /\
    (nquiescent s -> n_log s = owed dlv topic 0 (npubs tr)).
  Proof.
    intros Hcap Hrun Hu Hc. pose proof (nrun_inv 1 cap tr s Hrun) as Hi.
    pose proof (ni_order _ _ _ Hi Hu eq_refl) as Ho. split.
    - eexists. symmetry. exact Ho.
    - intros Hq. destruct (nquiescent_empty 1 tr s Hi Hu Hc) as [Et Ef]; auto.
      { rewrite (nrun_cap _ _ _ Hrun). exact Hcap. }
      rewrite Et, Ef in Ho. cbn in Ho. now rewrite app_nil_r in Ho.
  Qed.

  (** c07_n_workers_multiset (NATS): at most once always; exactly once at quiescence *)
  Lemma nats_n_workers_multiset nw cap tr s :
    nrun dlv (ninit P topic nw cap) tr = Some s ->
    (exists rest, Permutation (n_log s ++ rest) (owed dlv topic 0 (npubs tr))) /\
    NoDup (map i_id (n_log s)) /\
    (0 < nw -> 0 < cap -> unsub_free tr -> crash_free tr -> nquiescent s ->
     Permutation (n_log s) (owed dlv topic 0 (npubs tr))).
  Proof.
    intros Hrun. pose proof (nrun_inv nw cap tr s Hrun) as Hi.
    destruct (ni_perm _ _ _ Hi) as [dropped [Hp Hd]].
    assert (Hsub : exists rest, Permutation (n_log s ++ rest) (owed dlv topic 0 (npubs tr))) by (eexists; exact Hp).
    split; [exact Hsub|]. split.
    - destruct Hsub as [rest Hr].
      pose proof (owed_nodup (npubs tr) 0) as Hn.
      apply (Permutation_map i_id) in Hr. apply Permutation_sym in Hr.
      pose proof (Permutation_NoDup Hr Hn) as Hn2. rewrite map_app in Hn2. now apply NoDup_app_l in Hn2.
    - intros Hnw Hcap Hu Hc Hq. destruct (nquiescent_empty nw tr s Hi Hu Hc) as [Et Ef]; auto.
      { rewrite (nrun_cap _ _ _ Hrun). exact Hcap. }
      rewrite Et, Ef, (Hd Hu) in Hp. cbn in Hp. now rewrite app_nil_r in Hp.
  Qed.

  (** c07_foreign_never_delivered / intact (NATS): every invocation is for a message published on the
      subscribed topic, and carries exactly what that message decodes to *)
  Lemma nats_invocations_are_published nw cap tr s i :
    nrun dlv (ninit P topic nw cap) tr = Some s -> In i (n_log s) ->
    exists b, nth_error (npubs tr) (i_id i) = Some (topic, b) /\ dlv b = Deliver (i_hdrs i) (i_val i).
  Proof.
    intros Hrun Hin. destruct (nats_n_workers_multiset nw cap tr s Hrun) as [[rest Hp] _].
    assert (Ho : In i (owed dlv topic 0 (npubs tr))).
    { eapply Permutation_in; [exact Hp|]. apply in_or_app. now left. }
    apply owed_spec in Ho. destruct Ho as (t & b & Hn & _ & -> & Hd). rewrite Nat.sub_0_r in Hn. eauto.
  Qed.

  (** c07_bad_message_isolated (NATS) *)
  Lemma nats_bad_message_isolated nw cap tr s :
    0 < nw -> 0 < cap -> nrun dlv (ninit P topic nw cap) tr = Some s -> unsub_free tr -> crash_free tr ->
    Forall alive (n_workers s) /\
    (nquiescent s -> forall k b h p, nth_error (npubs tr) k = Some (topic, b) -> dlv b = Deliver h p ->
                     In (mkInv k h p) (n_log s)).
  Proof.
    intros Hnw Hcap Hrun Hu Hc. pose proof (nrun_inv nw cap tr s Hrun) as Hi. split.
    - apply (ni_alive _ _ _ Hi Hu Hc).
    - intros Hq k b h p Hn Hd.
      destruct (nats_n_workers_multiset nw cap tr s Hrun) as (_ & _ & Hall).
      specialize (Hall Hnw Hcap Hu Hc Hq). eapply Permutation_in; [apply Permutation_sym; exact Hall|].
      apply owed_spec. exists topic, b. cbn. rewrite Nat.sub_0_r. repeat split; auto. lia.
  Qed.

  (** ** nothing starts after Unsubscribe *)
  Definition nbound (k : nat) (s : nats P) : Prop :=
    (forall m, In m (took (n_workers s) ++ nflight s) -> m_id m < k) /\
    (forall i, In i (n_log s) -> i_id i < k).

  Lemma nstep_bound k s e s' :
    nstep dlv s e = Some s' -> nbound k s ->
    (forall t b, e = NPub t b -> n_sub s = true -> n_next s < k) ->
    nbound k s' /\ (n_sub s = false -> n_sub s' = false).
  Proof.
    intros Hstep [Hm Hl] Hk.
    destruct e as [t b| | |i|i|i| |i]; cbn [nstep] in Hstep.
    - injection Hstep as <-. split; [|auto]. split; cbn [n_workers n_log]; [|exact Hl].
      intros m Hin. unfold nflight in Hin. cbn [n_workc n_cb n_pend] in Hin.
      destruct (n_sub s) eqn:Es; cbn [andb] in Hin.
      + destruct (Headers.bytes_eqb t (n_topic s)).
        * rewrite !in_app_iff in Hin. cbn in Hin.
          assert (Hc : In m (took (n_workers s) ++ nflight s) \/ m = mkMsg (n_next s) t b).
          { unfold nflight. rewrite !in_app_iff. intuition. }
          destruct Hc as [Hc | ->]; [auto|]. cbn. eapply Hk; eauto.
        * apply Hm. exact Hin.
      + apply Hm. exact Hin.
    - destruct (n_sub s) eqn:Es; [|discriminate]. destruct (n_cb s) eqn:Ec; [discriminate|].
      destruct (n_pend s) as [|m rest] eqn:Ep; [discriminate|]. injection Hstep as <-.
      split; [|intros; discriminate]. split; cbn [n_workers n_log]; [|exact Hl].
      intros m0 Hin. apply Hm. unfold nflight in *. rewrite Ec, Ep. cbn [n_workc n_cb n_pend ocb] in *.
      inapp. cbn in *. intuition.
    - destruct (n_cb s) as [m|] eqn:Ec; [|discriminate].
      destruct (length (n_workc s) <? n_cap s); [|discriminate]. injection Hstep as <-.
      split; [|auto]. split; cbn [n_workers n_log]; [|exact Hl].
      intros m0 Hin. apply Hm. unfold nflight in *. rewrite Ec. cbn [n_workc n_cb n_pend ocb] in *.
      inapp. cbn in *. inapp. cbn in *. intuition.
    - destruct (nth_error (n_workers s) i) as [w|] eqn:Ei; [|discriminate].
      destruct w; try discriminate.
      destruct (n_workc s) as [|m rest] eqn:Ew; [discriminate|]. injection Hstep as <-.
      destruct (took_set_nth _ i WIdle (WTook m) Ei) as (pre & post & Et1 & Et2). cbn [took1] in Et1, Et2.
      split; [|auto]. split; cbn [n_workers n_log]; [|exact Hl].
      intros m0 Hin. apply Hm. rewrite Et2 in Hin. rewrite Et1. unfold nflight in *. rewrite Ew.
      cbn [n_workc n_cb n_pend] in *. inapp. cbn in *. inapp. intuition.
    - destruct (nth_error (n_workers s) i) as [w|] eqn:Ei; [|discriminate].
      destruct w as [|m|m| |]; try discriminate.
      assert (Hmk : m_id m < k).
      { apply Hm. destruct (took_set_nth _ i (WTook m) WIdle Ei) as (pre & post & E1 & _). rewrite E1.
        rewrite !in_app_iff. cbn. intuition. }
      assert (Hrest : forall w', took1 w' = [] ->
                forall m0, In m0 (took (set_nth i w' (n_workers s)) ++ nflight s) -> m_id m0 < k).
      { intros w' Hw' m0 Hin. apply Hm.
        destruct (took_set_nth _ i (WTook m) w' Ei) as (pre & post & E1 & E2). rewrite E2, Hw' in Hin. rewrite E1.
        inapp. cbn in *. intuition. }
      destruct (dlv (m_body m)) as [h p| |]; injection Hstep as <-; (split; [|auto]).
      + split; cbn [n_workers n_log].
        * apply (Hrest (WBusy m)). reflexivity.
        * intros i0 Hin. apply in_app_iff in Hin. destruct Hin as [Hin|[<-|[]]]; [auto|exact Hmk].
      + split; cbn [n_workers n_log n_with_worker]; [apply (Hrest WIdle); reflexivity|exact Hl].
      + split; cbn [n_workers n_log n_with_worker]; [apply (Hrest WDead); reflexivity|exact Hl].
    - destruct (nth_error (n_workers s) i) as [w|] eqn:Ei; [|discriminate].
      destruct w as [|m|m| |]; try discriminate. injection Hstep as <-.
      destruct (took_set_nth _ i (WBusy m) WIdle Ei) as (pre & post & Et1 & Et2). cbn [took1] in Et1, Et2.
      split; [|auto]. split; cbn [n_workers n_log n_with_worker]; [|exact Hl].
      intros m0 Hin. apply Hm. rewrite Et2 in Hin. now rewrite Et1.
    - destruct (n_sub s) eqn:Es; injection Hstep as <-; [|split; [split|]; auto].
      split; [|auto]. split; cbn [n_workers n_log]; [|exact Hl].
      intros m0 Hin. apply Hm. unfold nflight in *. cbn [n_workc n_cb n_pend] in *.
      inapp. cbn in Hin. intuition.
    - destruct (nth_error (n_workers s) i) as [w|] eqn:Ei; [|discriminate].
      destruct w; try discriminate. destruct (n_quit s); [|discriminate]. injection Hstep as <-.
      destruct (took_set_nth _ i WIdle WGone Ei) as (pre & post & Et1 & Et2). cbn [took1] in Et1, Et2.
      split; [|auto]. split; cbn [n_workers n_log n_with_worker]; [|exact Hl].
      intros m0 Hin. apply Hm. rewrite Et2 in Hin. now rewrite Et1.
  Qed.

  Lemma nstep_next s e s' : nstep dlv s e = Some s' -> n_next s <= n_next s' /\ (forall t b, e = NPub t b -> n_next s' = S (n_next s)).
  Proof.
    destruct e as [t b| | |i|i|i| |i]; cbn [nstep]; intros H.
    - injection H as <-. cbn. split; [lia|auto].
    - destruct (n_sub s), (n_cb s), (n_pend s); try discriminate. injection H as <-. split; [cbn; lia|discriminate].
    - destruct (n_cb s); [|discriminate]. destruct (_ <? _); [|discriminate]. injection H as <-. split; [cbn; lia|discriminate].
    - destruct (nth_error _ _) as [[]|]; try discriminate. destruct (n_workc s); [discriminate|]. injection H as <-. split; [cbn; lia|discriminate].
    - destruct (nth_error _ _) as [[]|]; try discriminate. destruct (dlv _); injection H as <-; (split; [cbn; lia|discriminate]).
    - destruct (nth_error _ _) as [[]|]; try discriminate. injection H as <-. split; [cbn; lia|discriminate].
    - destruct (n_sub s); injection H as <-; (split; [cbn; lia|discriminate]).
    - destruct (nth_error _ _) as [[]|]; try discriminate. destruct (n_quit s); [|discriminate]. injection H as <-. split; [cbn; lia|discriminate].
  Qed.

  Lemma nbound_mono k k' s : k <= k' -> nbound k s -> nbound k' s.
  Proof. intros Hk [H1 H2]. split; intros x Hx; [apply H1 in Hx|apply H2 in Hx]; lia. Qed.

  (** every id in the machine is below the number of publishes so far *)
  Lemma nrun_bound_next nw cap tr : forall s,
    nrun dlv (ninit P topic nw cap) tr = Some s -> nbound (n_next s) s.
  Proof.
    induction tr as [|e tr IH] using rev_ind; intros s Hrun.
    - cbn in Hrun. injection Hrun as <-. split; cbn.
      + intros m. rewrite took_repeat_idle. cbn. contradiction.
      + contradiction.
    - rewrite nrun_app in Hrun. destruct (nrun dlv (ninit P topic nw cap) tr) as [s1|] eqn:E1; [|discriminate].
      cbn in Hrun. destruct (nstep dlv s1 e) as [s2|] eqn:E2; [|discriminate]. injection Hrun as <-.
      destruct (nstep_next _ _ _ E2) as [Hle Hpub].
      apply (nstep_bound (n_next s2) s1 e s2 E2).
      + eapply nbound_mono; [exact Hle|]. now apply IH.
      + intros t b -> _. rewrite (Hpub t b eq_refl). lia.
  Qed.

  Lemma nrun_bound_unsub k tr : forall s s',
    n_sub s = false -> nbound k s -> nrun dlv s tr = Some s' -> nbound k s'.
  Proof.
    induction tr as [|e tr IH]; intros s s' Hs Hb Hrun; cbn in Hrun; [now injection Hrun as <-|].
    destruct (nstep dlv s e) as [s1|] eqn:E; [|discriminate].
    destruct (nstep_bound k s e s1 E Hb) as [Hb1 Hs1]; [intros; congruence|].
    apply (IH s1 s'); [apply Hs1; exact Hs | exact Hb1 | exact Hrun].
  Qed.

  (** c07_nothing_starts_after_unsubscribe (NATS) *)
  Lemma nats_nothing_after_unsubscribe nw cap tr1 tr2 s1 s2 :
    nrun dlv (ninit P topic nw cap) tr1 = Some s1 ->
    nrun dlv s1 (NUnsub :: tr2) = Some s2 ->
    forall i, In i (n_log s2) -> i_id i < length (npubs tr1).
  Proof.
    intros H1 H2 i Hin. pose proof (nrun_bound_next nw cap tr1 s1 H1) as Hb.
    rewrite (ni_next _ _ _ (nrun_inv nw cap tr1 s1 H1)) in Hb.
    cbn [nrun] in H2. destruct (nstep dlv s1 NUnsub) as [s1'|] eqn:E; [|discriminate].
    destruct (nstep_bound _ _ _ _ E Hb) as [Hb1 _]; [discriminate|].
    assert (Hs : n_sub s1' = false).
    { cbn in E. destruct (n_sub s1) eqn:Es; injection E as <-; auto. }
    destruct (nrun_bound_unsub _ tr2 s1' s2 Hs Hb1 H2) as [_ Hl]. now apply Hl.
  Qed.

  (** * STOMP *)
  Definition smsg1 (x : sitem) : list msg := match x with SMsg m => [m] | SReceipt => [] end.
  Definition smsgs (l : list sitem) : list msg := flat_map smsg1 l.
  Definition sflight (s : stomp P) : list msg := s_c s ++ smsgs (s_in s).
  Definition sunsub_free (tr : list sev) : Prop := ~ In SUnsubCall tr.
  Definition scrash_free (tr : list sev) : Prop := forall t b, In (SPub t b) tr -> dlv b <> Crash.
  Definition squiescent (s : stomp P) : Prop := forall e, s_internal e = true -> sstep dlv s e = None.
  Definition loop_alive (l : lstate) : Prop := match l with LIdle | LBusy _ => True | _ => False end.

  Lemma srun_app tr1 : forall s tr2,
    srun dlv s (tr1 ++ tr2) = match srun dlv s tr1 with Some s1 => srun dlv s1 tr2 | None => None end.
  Proof.
    induction tr1 as [|e tr1 IH]; intros s tr2; [reflexivity|].
    cbn [app srun]. destruct (sstep dlv s e); [apply IH|reflexivity].
  Qed.
  Lemma spubs_app tr1 tr2 : spubs (tr1 ++ tr2) = spubs tr1 ++ spubs tr2.
  Proof. induction tr1 as [|[] tr1 IH]; cbn; rewrite ?IH; reflexivity. Qed.
  Lemma sunsub_free_snoc tr e : sunsub_free (tr ++ [e]) <-> sunsub_free tr /\ e <> SUnsubCall.
  Proof.
    unfold sunsub_free. rewrite in_app_iff. cbn. split.
    - intros H. split; [tauto|]. intros ->. tauto.
    - intros [H1 H2] [H|[H|[]]]; [tauto|]. apply H2. now rewrite H.
  Qed.
  Lemma scrash_free_snoc tr e : scrash_free (tr ++ [e]) -> scrash_free tr.
  Proof. intros H t b Hin. apply (H t b). apply in_or_app. now left. Qed.
  Lemma smsgs_app a b : smsgs (a ++ b) = smsgs a ++ smsgs b.
  Proof. apply flat_map_app. Qed.

  Record sinv (tr : list sev) (s : stomp P) : Prop := {
    si_topic : s_topic s = topic;
    si_next : s_next s = length (spubs tr);
    si_perm : exists dropped,
        Permutation (s_log s ++ dec (sflight s) ++ dropped) (owed dlv topic 0 (spubs tr))
        /\ (sunsub_free tr -> dropped = []);
    si_order : sunsub_free tr -> s_log s ++ dec (sflight s) = owed dlv topic 0 (spubs tr);
    si_state : sunsub_free tr ->
        s_bsub s = true /\ s_stop s = false /\ s_closed s = false /\ ~ In SReceipt (s_in s) /\
        match s_loop s with LIdle | LBusy _ | LDead => True | _ => False end;
    si_bodies : forall m, In m (sflight s) -> exists t, In (SPub t (m_body m)) tr;
    si_alive : sunsub_free tr -> scrash_free tr -> loop_alive (s_loop s)
  }.

  Lemma sinv_init cap : sinv [] (sinit P topic cap).
  Proof.
    constructor; cbn; auto.
    - exists []. cbn. auto.
    - intros m [].
  Qed.

  Ltac sfin Hu := let H := fresh in intros H; apply sunsub_free_snoc in H; tauto.

  Lemma sstep_inv tr s e s' : sinv tr s -> sstep dlv s e = Some s' -> sinv (tr ++ [e]) s'.
  Proof.
    intros [Ht Hn [dropped [Hperm Hdrop]] Hord Hst Hbod Hal] Hstep.
    assert (Hpubs0 : forall e0, (forall t b, e0 <> SPub t b) -> spubs (tr ++ [e0]) = spubs tr).
    { intros e0 H0. rewrite spubs_app. destruct e0; cbn; try apply app_nil_r. exfalso. eapply H0; eauto. }
    assert (Hbod' : forall e0 m, In m (sflight s) -> exists t, In (SPub t (m_body m)) (tr ++ [e0])).
    { intros e0 m Hin. destruct (Hbod m Hin) as [t0 H0]. exists t0. apply in_or_app. now left. }
    destruct e as [t b| | | | |err| |]; cbn [sstep] in Hstep.
    - (* SPub *)
      injection Hstep as <-.
      set (m := mkMsg (s_next s) t b).
      assert (Hpubs : spubs (tr ++ [SPub t b]) = spubs tr ++ [(t, b)]) by (rewrite spubs_app; reflexivity).
      assert (Hm : m = mkMsg (length (spubs tr)) t b) by (unfold m; now rewrite Hn).
      constructor; cbn [s_topic s_next s_log s_bsub s_stop s_closed s_in s_loop]; auto.
      + rewrite Hpubs, app_length. cbn. lia.
      + rewrite Hpubs, owed_snoc, <- Hm. unfold on_topic. rewrite Ht.
        unfold sflight. cbn [s_c s_in].
        destruct (s_bsub s) eqn:Es; cbn [andb].
        * destruct (Headers.bytes_eqb t topic) eqn:Et.
          -- exists dropped. split; [|intros Hu; apply sunsub_free_snoc in Hu; tauto].
             unfold sflight in Hperm.
             eapply Permutation_trans; [|apply Permutation_app_tail; exact Hperm].
             rewrite smsgs_app. cbn [smsgs flat_map smsg1 app]. decs.
             do 3 apply Permutation_app_head. apply Permutation_app_comm.
          -- exists dropped. rewrite app_nil_r. split; [exact Hperm|].
             intros Hu; apply sunsub_free_snoc in Hu; tauto.
        * destruct (Headers.bytes_eqb t topic) eqn:Et.
          -- exists (dropped ++ dec1 m). split.
             ++ rewrite !app_assoc. apply Permutation_app_tail. rewrite <- !app_assoc. exact Hperm.
             ++ intros Hu. apply sunsub_free_snoc in Hu. destruct (Hst (proj1 Hu)) as [E _]. congruence.
          -- exists dropped. rewrite app_nil_r. split; [exact Hperm|].
             intros Hu; apply sunsub_free_snoc in Hu; tauto.
      + intros Hu. apply sunsub_free_snoc in Hu. destruct Hu as [Hu _].
        destruct (Hst Hu) as [Es _]. rewrite Es. cbn [andb].
        rewrite Hpubs, owed_snoc, <- Hm, <- (Hord Hu). unfold on_topic. rewrite Ht.
        unfold sflight. cbn [s_c s_in].
        destruct (Headers.bytes_eqb t topic); rewrite ?app_nil_r; [|reflexivity].
        rewrite smsgs_app. cbn [smsgs flat_map smsg1 app]. decs. reflexivity.
      + intros Hu. apply sunsub_free_snoc in Hu. destruct Hu as [Hu _].
        destruct (Hst Hu) as (E1 & E2 & E3 & E4 & E5). repeat split; auto.
        destruct (s_bsub s && Headers.bytes_eqb t (s_topic s)); [|exact E4].
        intros Hin. apply in_app_iff in Hin. destruct Hin as [Hin|[Hin|[]]]; [tauto|discriminate].
      + intros m0 Hin. unfold sflight in Hin. cbn [s_c s_in] in Hin.
        assert (Hcase : In m0 (sflight s) \/ m0 = m).
        { unfold sflight. destruct (s_bsub s && Headers.bytes_eqb t (s_topic s)); [|tauto].
          rewrite smsgs_app in Hin. cbn in Hin. inapp. cbn in Hin. intuition. }
        destruct Hcase as [H | ->]; [now apply Hbod'|].
        exists t. apply in_or_app. right. cbn. now left.
      + intros Hu Hc. apply sunsub_free_snoc in Hu. apply Hal; [tauto|]. eapply scrash_free_snoc; eauto.
    - (* SFeed *)
      assert (Hpubs : spubs (tr ++ [SFeed]) = spubs tr) by (apply Hpubs0; discriminate).
      destruct (s_in s) as [|[m|] rest] eqn:Ei; [discriminate| |].
      + destruct (length (s_c s) <? s_cap s); [|discriminate]. injection Hstep as <-.
        assert (Hfl : sflight s = (s_c s ++ [m]) ++ smsgs rest).
        { unfold sflight. rewrite Ei. cbn. now rewrite <- app_assoc. }
        constructor; cbn [s_topic s_next s_log s_bsub s_stop s_closed s_in s_loop]; rewrite ?Hpubs; auto.
        * exists dropped. unfold sflight at 1. cbn [s_c s_in]. rewrite <- Hfl.
          split; [exact Hperm|]. intros Hu; apply sunsub_free_snoc in Hu; tauto.
        * intros Hu. apply sunsub_free_snoc in Hu. unfold sflight at 1. cbn [s_c s_in]. rewrite <- Hfl. apply Hord; tauto.
        * intros Hu. apply sunsub_free_snoc in Hu. destruct (Hst (proj1 Hu)) as (E1 & E2 & E3 & E4 & E5).
          repeat split; auto. intros Hin. apply E4. now right.
        * intros m0 Hin. unfold sflight at 1 in Hin. cbn [s_c s_in] in Hin. rewrite <- Hfl in Hin. now apply Hbod'.
        * intros Hu Hc. apply sunsub_free_snoc in Hu. apply Hal; [tauto|]. eapply scrash_free_snoc; eauto.
      + injection Hstep as <-.
        assert (Hnu : ~ sunsub_free (tr ++ [SFeed])).
        { intros Hu. apply sunsub_free_snoc in Hu. destruct (Hst (proj1 Hu)) as (_ & _ & _ & E4 & _). apply E4. now left. }
        assert (Hfl : sflight s = s_c s ++ smsgs rest) by (unfold sflight; now rewrite Ei).
        constructor; cbn [s_topic s_next s_log s_bsub s_stop s_closed s_in s_loop]; rewrite ?Hpubs; auto; try tauto.
        * exists dropped. unfold sflight at 1. cbn [s_c s_in]. rewrite <- Hfl. split; [exact Hperm|tauto].
        * intros m0 Hin. unfold sflight at 1 in Hin. cbn [s_c s_in] in Hin. rewrite <- Hfl in Hin. now apply Hbod'.
    - (* SRecv *)
      assert (Hpubs : spubs (tr ++ [SRecv]) = spubs tr) by (apply Hpubs0; discriminate).
      destruct (s_loop s) eqn:El; try discriminate.
      + (* LIdle *)
        destruct (s_c s) as [|m rest] eqn:Ec.
        * destruct (s_closed s) eqn:Ecl; [|discriminate]. injection Hstep as <-.
          assert (Hnu : ~ sunsub_free (tr ++ [SRecv])).
          { intros Hu. apply sunsub_free_snoc in Hu. destruct (Hst (proj1 Hu)) as (_ & _ & E3 & _). congruence. }
          assert (Hfl : sflight s = [] ++ smsgs (s_in s)) by (unfold sflight; now rewrite Ec).
          constructor; cbn [s_topic s_next s_log s_bsub s_stop s_closed s_in s_loop]; rewrite ?Hpubs; auto; try tauto.
          -- exists dropped. unfold sflight at 1. cbn [s_c s_in]. rewrite <- Hfl. split; [exact Hperm|tauto].
          -- intros m0 Hin. unfold sflight at 1 in Hin. cbn [s_c s_in] in Hin. rewrite <- Hfl in Hin. now apply Hbod'.
        * assert (Hfl : sflight s = m :: rest ++ smsgs (s_in s)) by (unfold sflight; now rewrite Ec).
          assert (Hbm : exists t0, In (SPub t0 (m_body m)) tr).
          { apply Hbod. rewrite Hfl. now left. }
          assert (Hbod2 : forall m0, In m0 (rest ++ smsgs (s_in s)) -> exists t, In (SPub t (m_body m0)) (tr ++ [SRecv])).
          { intros m0 Hin. apply Hbod'. rewrite Hfl. now right. }
          destruct (s_stop s) eqn:Estop.
          -- injection Hstep as <-.
             assert (Hnu : ~ sunsub_free (tr ++ [SRecv])).
             { intros Hu. apply sunsub_free_snoc in Hu. destruct (Hst (proj1 Hu)) as (_ & E2 & _). congruence. }
             constructor; cbn [s_topic s_next s_log s_bsub s_stop s_closed s_in s_loop]; rewrite ?Hpubs; auto; try tauto.
             exists (dec1 m ++ dropped). split; [|tauto].
             rewrite Hfl in Hperm. unfold sflight. cbn [s_c s_in]. decs_in Hperm. decs.
             eapply Permutation_trans; [|exact Hperm]. apply Permutation_app_head. apply perm_move3.
          -- destruct (dlv (m_body m)) as [h p| |] eqn:Ed; injection Hstep as <-.
             ++ assert (Hd1 : dec1 m = [mkInv (m_id m) h p]) by (unfold dec1; now rewrite Ed).
                constructor; cbn [s_topic s_next s_log s_bsub s_stop s_closed s_in s_loop]; rewrite ?Hpubs; auto.
                ** exists dropped. split; [|intros Hu; apply sunsub_free_snoc in Hu; tauto].
                   rewrite Hfl in Hperm. unfold sflight. cbn [s_c s_in]. decs_in Hperm. rewrite Hd1 in Hperm. decs. exact Hperm.
                ** intros Hu. apply sunsub_free_snoc in Hu. destruct Hu as [Hu _]. rewrite <- (Hord Hu), Hfl.
                   unfold sflight. cbn [s_c s_in]. decs. rewrite Hd1. reflexivity.
                ** intros Hu. apply sunsub_free_snoc in Hu. destruct (Hst (proj1 Hu)) as (E1 & E2 & E3 & E4 & E5). auto.
                ** intros Hu Hc. exact I.
             ++ assert (Hd1 : dec1 m = []) by (unfold dec1; now rewrite Ed).
                constructor; cbn [s_topic s_next s_log s_bsub s_stop s_closed s_in s_loop]; rewrite ?Hpubs; auto.
                ** exists dropped. split; [|intros Hu; apply sunsub_free_snoc in Hu; tauto].
                   rewrite Hfl in Hperm. unfold sflight. cbn [s_c s_in]. decs_in Hperm. rewrite Hd1 in Hperm. decs. exact Hperm.
                ** intros Hu. apply sunsub_free_snoc in Hu. destruct Hu as [Hu _]. rewrite <- (Hord Hu), Hfl.
                   unfold sflight. cbn [s_c s_in]. decs. rewrite Hd1. reflexivity.
                ** intros Hu. apply sunsub_free_snoc in Hu. destruct (Hst (proj1 Hu)) as (E1 & E2 & E3 & E4 & E5). auto.
                ** intros Hu Hc. exact I.
             ++ assert (Hd1 : dec1 m = []) by (unfold dec1; now rewrite Ed).
                constructor; cbn [s_topic s_next s_log s_bsub s_stop s_closed s_in s_loop]; rewrite ?Hpubs; auto.
                ** exists dropped. split; [|intros Hu; apply sunsub_free_snoc in Hu; tauto].
                   rewrite Hfl in Hperm. unfold sflight. cbn [s_c s_in]. decs_in Hperm. rewrite Hd1 in Hperm. decs. exact Hperm.
                ** intros Hu. apply sunsub_free_snoc in Hu. destruct Hu as [Hu _]. rewrite <- (Hord Hu), Hfl.
                   unfold sflight. cbn [s_c s_in]. decs. rewrite Hd1. reflexivity.
                ** intros Hu. apply sunsub_free_snoc in Hu. destruct (Hst (proj1 Hu)) as (E1 & E2 & E3 & E4 & E5). auto.
                ** intros Hu Hc. exfalso. destruct Hbm as [t0 H0]. apply (Hc t0 (m_body m)); [|exact Ed].
                   apply in_or_app. now left.
      + (* LDrain *)
        destruct (s_c s) as [|m rest] eqn:Ec; [discriminate|]. injection Hstep as <-.
        assert (Hnu : ~ sunsub_free (tr ++ [SRecv])).
        { intros Hu. apply sunsub_free_snoc in Hu. destruct (Hst (proj1 Hu)) as (_ & _ & _ & _ & E5). exact E5. }
        assert (Hfl : sflight s = m :: rest ++ smsgs (s_in s)) by (unfold sflight; now rewrite Ec).
        constructor; cbn [s_topic s_next s_log s_bsub s_stop s_closed s_in s_loop]; rewrite ?Hpubs; auto; try tauto.
        * exists (dec1 m ++ dropped). split; [|tauto].
          rewrite Hfl in Hperm. unfold sflight. cbn [s_c s_in]. decs_in Hperm. decs.
          eapply Permutation_trans; [|exact Hperm]. apply Permutation_app_head. apply perm_move3.
        * intros m0 Hin. apply Hbod'. rewrite Hfl. right. exact Hin.
    - (* SStop *)
      assert (Hpubs : spubs (tr ++ [SStop]) = spubs tr) by (apply Hpubs0; discriminate).
      destruct (s_loop s) eqn:El; try discriminate. destruct (s_stop s) eqn:Es; [|discriminate]. injection Hstep as <-.
      assert (Hnu : ~ sunsub_free (tr ++ [SStop])).
      { intros Hu. apply sunsub_free_snoc in Hu. destruct (Hst (proj1 Hu)) as (_ & E2 & _). congruence. }
      constructor; cbn [s_topic s_next s_log s_bsub s_stop s_closed s_in s_loop]; rewrite ?Hpubs; auto; try tauto.
      all: try (exists dropped; split; [exact Hperm|tauto]).
      all: try (intros m0 Hin; now apply Hbod').
    - (* SDrained *)
      assert (Hpubs : spubs (tr ++ [SDrained]) = spubs tr) by (apply Hpubs0; discriminate).
      destruct (s_loop s) eqn:El; try discriminate. destruct (s_c s) eqn:Ec; [|discriminate].
      destruct (s_closed s) eqn:Ecl; [|discriminate]. injection Hstep as <-.
      assert (Hnu : ~ sunsub_free (tr ++ [SDrained])).
      { intros Hu. apply sunsub_free_snoc in Hu. destruct (Hst (proj1 Hu)) as (_ & _ & E3 & _). congruence. }
      assert (Hfl : sflight s = [] ++ smsgs (s_in s)) by (unfold sflight; now rewrite Ec).
      constructor; cbn [s_topic s_next s_log s_bsub s_stop s_closed s_in s_loop]; rewrite ?Hpubs; auto; try tauto.
      + exists dropped. unfold sflight at 1. cbn [s_c s_in]. rewrite <- Hfl. split; [exact Hperm|tauto].
      + intros m0 Hin. unfold sflight at 1 in Hin. cbn [s_c s_in] in Hin. rewrite <- Hfl in Hin. now apply Hbod'.
    - (* SDone *)
      assert (Hpubs : spubs (tr ++ [SDone err]) = spubs tr) by (apply Hpubs0; discriminate).
      destruct (s_loop s) eqn:El; try discriminate. injection Hstep as <-.
      constructor; cbn [s_topic s_next s_log s_bsub s_stop s_closed s_in s_loop]; rewrite ?Hpubs; auto.
      all: try (exists dropped; split; [exact Hperm|intros Hu; apply sunsub_free_snoc in Hu; tauto]).
      all: try (intros Hu; apply sunsub_free_snoc in Hu; apply Hord; tauto).
      all: try (intros Hu; apply sunsub_free_snoc in Hu; destruct (Hst (proj1 Hu)) as (E1 & E2 & E3 & E4 & E5); auto; fail).
      all: try (intros m0 Hin; now apply Hbod').
      all: try (intros _ _; exact I).
    - (* SUnsubCall *)
      assert (Hpubs : spubs (tr ++ [SUnsubCall]) = spubs tr) by (apply Hpubs0; discriminate).
      destruct (s_unsub s); try discriminate. injection Hstep as <-.
      assert (Hnu : ~ sunsub_free (tr ++ [SUnsubCall])).
      { intros Hu. apply sunsub_free_snoc in Hu. tauto. }
      assert (Hfl : sflight s = s_c s ++ smsgs (s_in s ++ [SReceipt])).
      { unfold sflight. rewrite smsgs_app. cbn. now rewrite app_nil_r. }
      constructor; cbn [s_topic s_next s_log s_bsub s_stop s_closed s_in s_loop]; rewrite ?Hpubs; auto; try tauto.
      + exists dropped. unfold sflight at 1. cbn [s_c s_in]. rewrite <- Hfl. split; [exact Hperm|tauto].
      + intros m0 Hin. unfold sflight at 1 in Hin. cbn [s_c s_in] in Hin. rewrite <- Hfl in Hin. now apply Hbod'.
    - (* SUnsubRet *)
      assert (Hpubs : spubs (tr ++ [SUnsubRet]) = spubs tr) by (apply Hpubs0; discriminate).
      destruct (s_unsub s) eqn:Eu; try discriminate. destruct (s_closed s) eqn:Ecl; [|discriminate]. injection Hstep as <-.
      assert (Hnu : ~ sunsub_free (tr ++ [SUnsubRet])).
      { intros Hu. apply sunsub_free_snoc in Hu. destruct (Hst (proj1 Hu)) as (_ & _ & E3 & _). congruence. }
      constructor; cbn [s_topic s_next s_log s_bsub s_stop s_closed s_in s_loop]; rewrite ?Hpubs; auto; try tauto.
      all: try (exists dropped; split; [exact Hperm|tauto]).
      all: try (intros m0 Hin; now apply Hbod').
  Qed.

  Lemma srun_inv cap tr : forall s, srun dlv (sinit P topic cap) tr = Some s -> sinv tr s.
  Proof.
    induction tr as [|e tr IH] using rev_ind; intros s Hrun.
    - cbn in Hrun. injection Hrun as <-. apply sinv_init.
    - rewrite srun_app in Hrun. destruct (srun dlv (sinit P topic cap) tr) as [s1|] eqn:E1; [|discriminate].
      cbn in Hrun. destruct (sstep dlv s1 e) as [s2|] eqn:E2; [|discriminate]. injection Hrun as <-.
      eapply sstep_inv; eauto.
  Qed.

  Lemma squiescent_empty tr s :
    sinv tr s -> sunsub_free tr -> scrash_free tr -> 0 < s_cap s -> squiescent s -> sflight s = [].
  Proof.
    intros Hi Hu Hc Hcap Hq.
    destruct (si_state _ _ Hi Hu) as (Eb & Es & Ecl & Hnr & _).
    pose proof (si_alive _ _ Hi Hu Hc) as Hal.
    assert (Hl : s_loop s = LIdle).
    { destruct (s_loop s) eqn:El; try contradiction; auto.
      specialize (Hq (SDone false) eq_refl). cbn [sstep] in Hq. rewrite El in Hq. discriminate. }
    assert (Hcn : s_c s = []).
    { specialize (Hq SRecv eq_refl). cbn [sstep] in Hq. rewrite Hl, Es in Hq.
      destruct (s_c s) as [|m r]; [auto|]. destruct (dlv (m_body m)); discriminate. }
    assert (Hin : s_in s = []).
    { specialize (Hq SFeed eq_refl). cbn [sstep] in Hq. rewrite Hcn in Hq.
      destruct (s_in s) as [|[m|] r]; [auto| |].
      - destruct (s_cap s); [lia|]. cbn in Hq. discriminate.
      - exfalso. apply Hnr. now left. }
    unfold sflight. now rewrite Hcn, Hin.
  Qed.

  Lemma srun_cap tr : forall s s', srun dlv s tr = Some s' -> s_cap s' = s_cap s.
  Proof.
    induction tr as [|e tr IH]; intros s s' H; cbn in H; [now injection H as <-|].
    destruct (sstep dlv s e) as [s1|] eqn:E; [|discriminate]. rewrite (IH _ _ H).
    destruct e as [t b| | | | |err| |]; cbn [sstep] in E.
    - now injection E as <-.
    - destruct (s_in s) as [|[m|] r]; try discriminate; [destruct (_ <? _); [|discriminate]|]; now injection E as <-.
    - destruct (s_loop s); try discriminate.
      + destruct (s_c s).
        * destruct (s_closed s); [|discriminate]. now injection E as <-.
        * destruct (s_stop s); [now injection E as <-|]. destruct (dlv _); now injection E as <-.
      + destruct (s_c s); [discriminate|]. now injection E as <-.
    - destruct (s_loop s); try discriminate. destruct (s_stop s); [|discriminate]. now injection E as <-.
    - destruct (s_loop s); try discriminate. destruct (s_c s); [|discriminate]. destruct (s_closed s); [|discriminate]. now injection E as <-.
    - destruct (s_loop s); try discriminate. now injection E as <-.
    - destruct (s_unsub s); try discriminate. now injection E as <-.
    - destruct (s_unsub s); try discriminate. destruct (s_closed s); [|discriminate]. now injection E as <-.
  Qed.

  (** c07_single_worker_exact (STOMP) *)
  Lemma stomp_exact cap tr s :
    0 < cap -> srun dlv (sinit P topic cap) tr = Some s -> sunsub_free tr -> scrash_free tr ->
    (exists rest, owed dlv topic 0 (spubs tr) = s_log s ++ rest) /\
    (squiescent s -> s_log s = owed dlv topic 0 (spubs tr)).
  Proof.
    intros Hcap Hrun Hu Hc. pose proof (srun_inv cap tr s Hrun) as Hi.
    pose proof (si_order _ _ Hi Hu) as Ho. split.
    - eexists. symmetry. exact Ho.
    - intros Hq. rewrite (squiescent_empty tr s Hi Hu Hc) in Ho; auto.
      + cbn in Ho. now rewrite app_nil_r in Ho.
      + rewrite (srun_cap _ _ _ Hrun). exact Hcap.
  Qed.

  (** at most once, nothing invented, intact -- every history (STOMP) *)
  Lemma stomp_at_most_once cap tr s :
    srun dlv (sinit P topic cap) tr = Some s ->
    (exists rest, Permutation (s_log s ++ rest) (owed dlv topic 0 (spubs tr))) /\
    NoDup (map i_id (s_log s)) /\
    (forall i, In i (s_log s) ->
       exists b, nth_error (spubs tr) (i_id i) = Some (topic, b) /\ dlv b = Deliver (i_hdrs i) (i_val i)).
  Proof.
    intros Hrun. pose proof (srun_inv cap tr s Hrun) as Hi.
    destruct (si_perm _ _ Hi) as [dropped [Hp _]].
    assert (Hsub : exists rest, Permutation (s_log s ++ rest) (owed dlv topic 0 (spubs tr))) by (eexists; exact Hp).
    split; [exact Hsub|]. destruct Hsub as [rest Hr]. split.
    - pose proof (owed_nodup (spubs tr) 0) as Hn.
      pose proof (Permutation_map i_id Hr) as Hr2. apply Permutation_sym in Hr2.
      pose proof (Permutation_NoDup Hr2 Hn) as Hn2. rewrite map_app in Hn2. now apply NoDup_app_l in Hn2.
    - intros i Hin.
      assert (Ho : In i (owed dlv topic 0 (spubs tr))).
      { eapply Permutation_in; [exact Hr|]. apply in_or_app. now left. }
      apply owed_spec in Ho. destruct Ho as (t & b & Hn & _ & -> & Hd). rewrite Nat.sub_0_r in Hn. eauto.
  Qed.

  (** c07_bad_message_isolated (STOMP) *)
  Lemma stomp_bad_message_isolated cap tr s :
    0 < cap -> srun dlv (sinit P topic cap) tr = Some s -> sunsub_free tr -> scrash_free tr ->
    loop_alive (s_loop s) /\
    (squiescent s -> forall k b h p, nth_error (spubs tr) k = Some (topic, b) -> dlv b = Deliver h p ->
                     In (mkInv k h p) (s_log s)).
  Proof.
    intros Hcap Hrun Hu Hc. pose proof (srun_inv cap tr s Hrun) as Hi. split.
    - apply (si_alive _ _ Hi Hu Hc).
    - intros Hq k b h p Hn Hd. destruct (stomp_exact cap tr s Hcap Hrun Hu Hc) as [_ He].
      rewrite (He Hq). apply owed_spec. exists topic, b. cbn. rewrite Nat.sub_0_r. repeat split; auto. lia.
  Qed.

  (** c07_nothing_starts_after_unsubscribe (STOMP): once Unsubscribe has been called no invocation starts at all *)
  Lemma sstep_stopped s e s' :
    s_stop s = true -> sstep dlv s e = Some s' -> s_stop s' = true /\ s_log s' = s_log s.
  Proof.
    intros Hs E. destruct e as [t b| | | | |err| |]; cbn [sstep] in E.
    - injection E as <-. auto.
    - destruct (s_in s) as [|[m|] r]; try discriminate; [destruct (_ <? _); [|discriminate]|]; injection E as <-; auto.
    - destruct (s_loop s); try discriminate.
      + destruct (s_c s).
        * destruct (s_closed s); [|discriminate]. injection E as <-. auto.
        * rewrite Hs in E. injection E as <-. auto.
      + destruct (s_c s); [discriminate|]. injection E as <-. auto.
    - destruct (s_loop s); try discriminate. destruct (s_stop s); [|discriminate]. injection E as <-. auto.
    - destruct (s_loop s); try discriminate. destruct (s_c s); [|discriminate]. destruct (s_closed s); [|discriminate]. injection E as <-. auto.
    - destruct (s_loop s); try discriminate. injection E as <-. auto.
    - destruct (s_unsub s); try discriminate. injection E as <-. auto.
    - destruct (s_unsub s); try discriminate. destruct (s_closed s); [|discriminate]. injection E as <-. auto.
  Qed.

  Lemma stomp_nothing_after_unsubscribe tr2 : forall s1 s1' s2,
    sstep dlv s1 SUnsubCall = Some s1' -> srun dlv s1' tr2 = Some s2 -> s_log s2 = s_log s1.
  Proof.
    intros s1 s1' s2 E Hrun.
    assert (H1 : s_stop s1' = true /\ s_log s1' = s_log s1).
    { cbn in E. destruct (s_unsub s1); try discriminate. injection E as <-. auto. }
    destruct H1 as [Hs Hl]. rewrite <- Hl. clear E Hl. revert s1' Hs Hrun.
    induction tr2 as [|e tr IH]; intros s Hs Hrun; cbn in Hrun; [now injection Hrun as <-|].
    destruct (sstep dlv s e) as [s'|] eqn:E; [|discriminate].
    destruct (sstep_stopped s e s' Hs E) as [Hs' Hl']. rewrite <- Hl'. now apply IH.
  Qed.

  (** Unsubscribe can always complete (the repaired loop keeps draining): from any state in which
      Unsubscribe is waiting and the handler is not running, internal steps alone enable its return *)
  Fixpoint sdrive (fuel : nat) (s : stomp P) : list sev :=
    match fuel with
    | O => []
    | S f =>
      if s_closed s then [] else
      match sstep dlv s SFeed with
      | Some s1 => SFeed :: sdrive f s1
      | None =>
        match s_loop s with
        | LIdle => match sstep dlv s SStop with Some s1 => SStop :: sdrive f s1 | None => [] end
        | LDrain => match sstep dlv s SRecv with Some s1 => SRecv :: sdrive f s1 | None => [] end
        | _ => []
        end
      end
    end.

  Lemma stomp_unsubscribe_completes : forall fuel s,
    s_unsub s = UWaiting -> s_stop s = true -> In SReceipt (s_in s) -> 0 < s_cap s ->
    (s_loop s = LIdle \/ s_loop s = LDrain) ->
    2 * length (s_in s) + length (s_c s) + (match s_loop s with LIdle => 1 | _ => 0 end) + 1 <= fuel ->
    exists s', srun dlv s (sdrive fuel s) = Some s' /\ (s_closed s = false -> sstep dlv s' SUnsubRet <> None)
               /\ Forall (fun e => s_internal e = true) (sdrive fuel s).
  Proof.
    induction fuel as [|fuel IH]; intros s Hu Hs Hr Hcap Hl Hf; [lia|].
    cbn [sdrive]. destruct (s_closed s) eqn:Ecl.
    { exists s. cbn. repeat split; auto. discriminate. }
    destruct (s_in s) as [|x rest] eqn:Ei; [contradiction|].
    destruct (sstep dlv s SFeed) as [s1|] eqn:Ef.
    - pose proof Ef as Ef0. cbn [sstep] in Ef. rewrite Ei in Ef. destruct x as [m|].
      + destruct (length (s_c s) <? s_cap s) eqn:Elt; [|discriminate]. injection Ef as Ef. subst s1.
        destruct Hr as [Hr|Hr]; [discriminate|].
        destruct (IH (mkStomp (s_topic s) (s_cap s) (s_bsub s) (s_next s) rest (s_c s ++ [m]) (s_closed s)
                              (s_loop s) (s_stop s) (s_unsub s) (s_acks s) (s_log s))) as (s' & Hrun & Hret & Hint); try (cbn; auto; fail).
        { cbn. rewrite app_length. cbn in *. destruct (s_loop s); lia. }
        exists s'. cbn [srun]. rewrite Ef0. repeat split; auto.
      + injection Ef as Ef. subst s1.
        exists (mkStomp (s_topic s) (s_cap s) (s_bsub s) (s_next s) rest (s_c s) true
                        (s_loop s) (s_stop s) (s_unsub s) (s_acks s) (s_log s)).
        cbn [srun]. rewrite Ef0. destruct fuel; cbn [sdrive s_closed srun]; (repeat split; auto).
        * intros _. cbn. rewrite Hu. discriminate.
        * intros _. cbn. rewrite Hu. discriminate.
    - (* sub.C is full: the loop must make room *)
      cbn [sstep] in Ef. rewrite Ei in Ef. destruct x as [m|]; [|discriminate].
      destruct (length (s_c s) <? s_cap s) eqn:Elt; [discriminate|].
      apply Nat.ltb_ge in Elt.
      destruct (s_c s) as [|c0 crest] eqn:Ec; [cbn in Elt; lia|].
      destruct Hl as [Hl|Hl]; rewrite Hl.
      + (* LIdle: take the stop branch *)
        assert (Est : sstep dlv s SStop = Some (mkStomp (s_topic s) (s_cap s) (s_bsub s) (s_next s) (s_in s) (s_c s) (s_closed s)
                                                      LDrain (s_stop s) (s_unsub s) (s_acks s) (s_log s))).
        { cbn. now rewrite Hl, Hs. }
        rewrite Est.
        destruct (IH (mkStomp (s_topic s) (s_cap s) (s_bsub s) (s_next s) (s_in s) (s_c s) (s_closed s)
                              LDrain (s_stop s) (s_unsub s) (s_acks s) (s_log s))) as (s' & Hrun & Hret & Hint); try (cbn; auto; fail).
        { cbn. rewrite Ei. cbn. tauto. }
        { cbn. rewrite Ei, Ec. rewrite Hl in Hf. cbn in *. lia. }
        exists s'. cbn [srun]. rewrite Est. repeat split; auto.
      + (* LDrain: receive and discard one *)
        assert (Est : sstep dlv s SRecv = Some (mkStomp (s_topic s) (s_cap s) (s_bsub s) (s_next s) (s_in s) crest (s_closed s)
                                                      LDrain (s_stop s) (s_unsub s) (s_acks s) (s_log s))).
        { cbn. now rewrite Hl, Ec. }
        rewrite Est.
        destruct (IH (mkStomp (s_topic s) (s_cap s) (s_bsub s) (s_next s) (s_in s) crest (s_closed s)
                              LDrain (s_stop s) (s_unsub s) (s_acks s) (s_log s))) as (s' & Hrun & Hret & Hint); try (cbn; auto; fail).
        { cbn. rewrite Ei. cbn. tauto. }
        { cbn. rewrite Ei. rewrite Hl in Hf. cbn in *. lia. }
        exists s'. cbn [srun]. rewrite Est. repeat split; auto.
  Qed.
End Proofs.
