(** C09: what the server-side context holds after a request travelled, and what the caller's
    context holds after the reply travelled back — over the bytes of Model/Headers.v. *)
From Coq Require Import ZArith List Lia Bool.
From FV Require Import Base.Res Base.Bytes Model.Headers Model.Receivers Model.Context
  Proofs.BytesProofs Proofs.HeadersProofs Proofs.HeadersMapProofs Proofs.ContextProofs.
Import ListNotations.
Open Scope Z_scope.

Lemma bytes_eqb_sym a b : bytes_eqb a b = bytes_eqb b a.
Proof.
  destruct (bytes_eqb a b) eqn:E1, (bytes_eqb b a) eqn:E2; auto.
  - apply bytes_eqb_eq in E1. subst. now rewrite bytes_eqb_refl in E2.
  - apply bytes_eqb_eq in E2. subst. now rewrite bytes_eqb_refl in E1.
Qed.

Lemma lookup_remove_key k k0 m :
  lookup k (remove_key k0 m) = if bytes_eqb k k0 then None else lookup k m.
Proof.
  induction m as [|[k' v] m IH]; cbn [remove_key lookup].
  - now destruct (bytes_eqb k k0).
  - destruct (bytes_eqb k0 k') eqn:E0.
    + apply bytes_eqb_eq in E0. subst k'. rewrite IH.
      destruct (bytes_eqb k k0) eqn:E; [reflexivity|]. now destruct (lookup k m).
    + cbn [lookup]. rewrite IH. destruct (bytes_eqb k k0) eqn:E; [|reflexivity].
      apply bytes_eqb_eq in E. subst k. now rewrite E0.
Qed.

(** ReadResponseHeader's merge *)
Definition merge_resp (m hdrs : list hpair) : list hpair :=
  fold_left (fun m p => if bytes_eqb (fst p) opid_header then m else assign m (fst p) (snd p)) hdrs m.

Lemma merge_resp_nodup hdrs : forall m, NoDup (keys m) -> NoDup (keys (merge_resp m hdrs)).
Proof. intros m H. unfold merge_resp. now apply fold_assign_filtered_nodup. Qed.

Lemma lookup_merge_resp hdrs : forall m k, NoDup (keys m) ->
  lookup k (merge_resp m hdrs) =
    if bytes_eqb k opid_header then lookup k m
    else match lookup k hdrs with Some v => Some v | None => lookup k m end.
Proof.
  induction hdrs as [|[k' v'] hdrs IH]; intros m k ND.
  - cbn. now destruct (bytes_eqb k opid_header).
  - unfold merge_resp. cbn [fold_left fst snd]. fold (merge_resp (if bytes_eqb k' opid_header then m else assign m k' v') hdrs).
    destruct (bytes_eqb k' opid_header) eqn:E'.
    + rewrite IH by exact ND. cbn [lookup]. destruct (bytes_eqb k opid_header) eqn:E; [reflexivity|].
      destruct (lookup k hdrs); [reflexivity|].
      apply bytes_eqb_eq in E'. subst k'. now rewrite E.
    + rewrite IH by (now apply assign_nodup). cbn [lookup].
      rewrite lookup_assign by exact ND.
      destruct (bytes_eqb k opid_header) eqn:E.
      * apply bytes_eqb_eq in E. subst k. rewrite bytes_eqb_sym, E'. reflexivity.
      * destruct (lookup k hdrs); [reflexivity|]. now destruct (bytes_eqb k k').
Qed.

(** what ReadRequestHeader builds *)
Lemma recv_spec s p hdrs pe op s' :
  good s -> nth_error (protos s) p = Some pe ->
  lookup opid_header (to_map hdrs) = Some op ->
  step s (ORecv p hdrs) = Some s' ->
  exists c2, ctxs s' = ctxs s ++ [c2]
    /\ req_of s' c2 = assign (without_key opid_header (to_map hdrs)) opid_header
                             (format_uint ((next_op s + 1) mod two64))
    /\ resp_of s' c2 =
         (let cid := lookup_default cid_header
                       (assign (without_key opid_header (to_map hdrs)) opid_header
                               (format_uint ((next_op s + 1) mod two64))) in
          match cid with [] => assign [] opid_header op | _ => assign (assign [] opid_header op) cid_header cid end)
    /\ c_eph c2 = pe /\ c_own_eph c2 = false
    /\ (forall i ci, nth_error (ctxs s) i = Some ci ->
          req_of s' ci = req_of s ci /\ resp_of s' ci = resp_of s ci).
Proof.
  intros G Hp Hop H. cbn [step] in H. rewrite Hp, Hop in H. injection H as <-.
  eexists. split; [reflexivity|]. unfold req_of, resp_of, get.
  cbn -[assign format_uint without_key to_map lookup_default]. repeat split.
  - rewrite <- app_assoc. rewrite app_nth2 by lia. now rewrite Nat.sub_diag.
  - rewrite app_nth2 by (rewrite app_length; simpl; lia). rewrite app_length. simpl.
    now replace (length (heap s) + 1 - (length (heap s) + 1))%nat with 0%nat by lia.
  - rewrite <- app_assoc. rewrite app_nth1; [reflexivity|]. eapply req_addr_bound; eassumption.
  - rewrite <- app_assoc. rewrite app_nth1; [reflexivity|].
    destruct (g_sep s G) as [Hb _]. apply (Hb (SResp i)). cbn. now rewrite H.
Qed.

(** the handler sees every header the caller set (except the op id, which is renewed) *)
Lemma server_sees_headers s p hdrs pe op s' c2 k :
  good s -> nth_error (protos s) p = Some pe ->
  lookup opid_header (to_map hdrs) = Some op ->
  step s (ORecv p hdrs) = Some s' -> nth_error (ctxs s') (length (ctxs s)) = Some c2 ->
  k <> opid_header ->
  lookup k (req_of s' c2) = lookup k (to_map hdrs).
Proof.
  intros G Hp Hop H Hc Hk.
  destruct (recv_spec s p hdrs pe op s' G Hp Hop H) as (c & Ec & Er & _).
  rewrite Ec, nth_error_app2, Nat.sub_diag in Hc by lia. injection Hc as <-.
  rewrite Er, lookup_assign by (unfold without_key; apply remove_key_nodup, to_map_nodup).
  destruct (bytes_eqb k opid_header) eqn:E; [apply bytes_eqb_eq in E; congruence|].
  unfold without_key. now rewrite lookup_remove_key, E.
Qed.

Lemma wire_roundtrip m : header_size m < 2147483648 -> read_header (marshal m) = Ok (m, []).
Proof. intros H. rewrite <- (app_nil_r (marshal m)). now apply stream_roundtrip. Qed.

Lemma send_request_is_recv s i p c :
  good s -> ctx_at s i = Some c -> header_size (req_of s c) < 2147483648 ->
  send_request s i p = step s (ORecv p (req_of s c)).
Proof. intros G Hc Hs. unfold send_request. now rewrite Hc, wire_roundtrip. Qed.

Lemma lookup_default_eq k m m' : lookup k m = lookup k m' -> lookup_default k m = lookup_default k m'.
Proof. unfold lookup_default. now intros ->. Qed.

(** the request context travels with the call *)
Lemma request_travels s i p c pe op s' :
  good s -> ctx_at s i = Some c -> header_size (req_of s c) < 2147483648 ->
  nth_error (protos s) p = Some pe ->
  lookup opid_header (req_of s c) = Some op ->
  send_request s i p = Some s' ->
  exists c2, ctxs s' = ctxs s ++ [c2]
    /\ (forall k, k <> opid_header -> lookup k (req_of s' c2) = lookup k (req_of s c))
    /\ lookup opid_header (req_of s' c2) = Some (format_uint ((next_op s + 1) mod two64))
    /\ correlation_id s' c2 = correlation_id s c
    /\ timeout_of s' c2 = timeout_of s c
    /\ lookup opid_header (resp_of s' c2) = Some op
    /\ (correlation_id s c <> [] -> lookup cid_header (resp_of s' c2) = Some (correlation_id s c))
    /\ (forall k, k <> opid_header -> k <> cid_header -> lookup k (resp_of s' c2) = None)
    /\ req_of s' c = req_of s c /\ resp_of s' c = resp_of s c.
Proof.
  intros G Hc Hs Hp Hop H. rewrite (send_request_is_recv s i p c G Hc Hs) in H.
  assert (NDreq : NoDup (keys (req_of s c))) by (apply keys_ok_get, (g_keys s G)).
  assert (Etm : to_map (req_of s c) = req_of s c) by now apply to_map_id.
  assert (Hop' : lookup opid_header (to_map (req_of s c)) = Some op) by now rewrite Etm.
  destruct (recv_spec s p (req_of s c) pe op s' G Hp Hop' H) as (c2 & Ec & Er & Ep & _ & _ & Hold).
  rewrite Etm in Er, Ep.
  assert (NDw : NoDup (keys (without_key opid_header (req_of s c))))
    by (unfold without_key; now apply remove_key_nodup).
  assert (Lreq : forall k, k <> opid_header -> lookup k (req_of s' c2) = lookup k (req_of s c)).
  { intros k Hk. rewrite Er, lookup_assign by exact NDw.
    destruct (bytes_eqb k opid_header) eqn:E; [apply bytes_eqb_eq in E; congruence|].
    unfold without_key. now rewrite lookup_remove_key, E. }
  assert (Ecid : correlation_id s' c2 = correlation_id s c).
  { unfold correlation_id. apply lookup_default_eq, Lreq. discriminate. }
  exists c2. split; [exact Ec|]. split; [exact Lreq|]. split.
  { rewrite Er, lookup_assign by exact NDw. now rewrite bytes_eqb_refl. }
  split; [exact Ecid|]. split.
  { unfold timeout_of.
    rewrite (lookup_default_eq timeout_header (req_of s' c2) (req_of s c)) by (apply Lreq; discriminate).
    reflexivity. }
  assert (Ecid' : lookup_default cid_header
                    (assign (without_key opid_header (req_of s c)) opid_header
                            (format_uint ((next_op s + 1) mod two64))) = correlation_id s c).
  { rewrite <- Er. exact Ecid. }
  cbv zeta in Ep. rewrite Ecid' in Ep.
  unfold ctx_at in Hc. destruct (Hold i c Hc) as [Hr1 Hr2].
  destruct (correlation_id s c) as [|x cid] eqn:Ecc.
  - rewrite Ep. repeat split; auto.
    + intros X; congruence.
    + intros k Hk1 Hk2. cbn [assign lookup]. destruct (bytes_eqb k opid_header) eqn:E; [|reflexivity].
      apply bytes_eqb_eq in E. congruence.
  - rewrite Ep. repeat split; auto.
    + intros k Hk1 Hk2.
      assert (E1 : bytes_eqb k cid_header = false) by (now apply bytes_eqb_neq).
      assert (E2 : bytes_eqb k opid_header = false) by (now apply bytes_eqb_neq).
      change (bytes_eqb cid_header opid_header) with false. cbn [assign lookup].
      change (bytes_eqb cid_header opid_header) with false. cbn [lookup]. now rewrite E1, E2.
Qed.

Lemma missing_opid_rejected s i p c pe :
  good s -> ctx_at s i = Some c -> header_size (req_of s c) < 2147483648 ->
  nth_error (protos s) p = Some pe -> lookup opid_header (req_of s c) = None ->
  send_request s i p = Some s.
Proof.
  intros G Hc Hs Hp Hno. rewrite (send_request_is_recv s i p c G Hc Hs). cbn [step]. rewrite Hp.
  rewrite to_map_id by (apply keys_ok_get, (g_keys s G)). now rewrite Hno.
Qed.

(** ... and back: every response header the handler set is on the caller's context afterwards *)
Lemma response_travels s j i cj ci s' :
  good s -> ctx_at s j = Some cj -> ctx_at s i = Some ci ->
  header_size (resp_of s cj) < 2147483648 ->
  send_response s j i = Some s' ->
  (forall k, k <> opid_header ->
     lookup k (resp_of s' ci) = match lookup k (resp_of s cj) with
                                | Some v => Some v
                                | None => lookup k (resp_of s ci)
                                end)
  /\ lookup opid_header (resp_of s' ci) = lookup opid_header (resp_of s ci)
  /\ req_of s' ci = req_of s ci.
Proof.
  intros G Hj Hi Hs H. unfold send_response in H. rewrite Hj, wire_roundtrip in H by exact Hs.
  cbn [step] in H. rewrite Hi in H. injection H as <-.
  assert (NDj : NoDup (keys (resp_of s cj))) by (apply keys_ok_get, (g_keys s G)).
  assert (NDi : NoDup (keys (resp_of s ci))) by (apply keys_ok_get, (g_keys s G)).
  rewrite to_map_id by exact NDj.
  destruct (g_sep s G) as [Hb Hinj]. unfold ctx_at in Hi.
  assert (Bi : (c_resp ci < length (heap s))%nat) by (apply (Hb (SResp i)); cbn; now rewrite Hi).
  assert (L : forall k, lookup k (resp_of (put s (c_resp ci)
              (fold_left (fun m p => if bytes_eqb (fst p) opid_header then m else assign m (fst p) (snd p))
                         (resp_of s cj) (get s (c_resp ci)))) ci)
            = if bytes_eqb k opid_header then lookup k (resp_of s ci)
              else match lookup k (resp_of s cj) with Some v => Some v | None => lookup k (resp_of s ci) end).
  { intros k. unfold resp_of at 1. rewrite get_put_same by exact Bi.
    pose proof (lookup_merge_resp (resp_of s cj) (get s (c_resp ci)) k NDi) as X.
    unfold merge_resp in X. exact X. }
  repeat split.
  - intros k Hk. rewrite L.
    destruct (bytes_eqb k opid_header) eqn:E; [apply bytes_eqb_eq in E; congruence|reflexivity].
  - rewrite L. now rewrite bytes_eqb_refl.
  - unfold req_of. apply get_put_other. intros E.
    assert (S1 : slot_addr s (SResp i) = Some (c_resp ci)) by (cbn; now rewrite Hi).
    assert (S2 : slot_addr s (SReq i) = Some (c_resp ci)) by (cbn; rewrite Hi; cbn; congruence).
    pose proof (Hinj _ _ _ S1 S2). discriminate.
Qed.

(** the head of a formatted number is a digit when the accumulator's head is *)
Lemma fmt_aux_head_digit fuel : forall n acc,
  (match acc with c :: _ => 48 <= c <= 57 | [] => True end) ->
  match fmt_aux fuel n acc with c :: _ => 48 <= c <= 57 | [] => True end.
Proof.
  induction fuel as [|fuel IH]; intros n acc H; [exact H|].
  rewrite fmt_aux_S. assert (Hm : 0 <= n mod 10 < 10) by (apply Z.mod_pos_bound; lia).
  destruct (n <? 10); [lia|]. apply IH. lia.
Qed.

Lemma parse_format_nonneg ms : 0 <= ms < 9223372036854775808 -> parse_int (format_uint ms) = Some ms.
Proof.
  intros H. unfold parse_int, format_uint.
  pose proof (parse_digits_fmt 20 ms [] 0) as P. cbn [parse_digits] in P.
  assert (Hn : 0 <= ms < 10 ^ Z.of_nat 20) by (change (10 ^ Z.of_nat 20) with 100000000000000000000; lia).
  specialize (P Hn (or_introl eq_refl)).
  destruct (fmt_aux 20 ms []) as [|c r] eqn:E.
  - exfalso. pose proof (fmt_aux_S_length 19 ms []) as L. rewrite E in L. cbn [length] in L. lia.
  - (* the first character is a digit, neither '-' nor '+' *)
    assert (Hc : 48 <= c <= 57).
    { clear P. change 20%nat with (S 19) in E. rewrite fmt_aux_S in E.
      assert (Hm : 0 <= ms mod 10 < 10) by (apply Z.mod_pos_bound; lia).
      destruct (ms <? 10).
      - apply (f_equal (hd 0)) in E. cbn [hd] in E. rewrite <- E. lia.
      - pose proof (fmt_aux_head_digit 19 (ms / 10) [48 + ms mod 10]) as Hd. rewrite E in Hd.
        apply Hd. lia. }
    replace (c =? 45) with false by (symmetry; apply Z.eqb_neq; lia).
    replace (c =? 43) with false by (symmetry; apply Z.eqb_neq; lia).
    rewrite P. replace (ms <? 9223372036854775808) with true by (symmetry; apply Z.ltb_lt; lia).
    reflexivity.
Qed.

Lemma parse_format_int_nonneg ms : 0 <= ms < 9223372036854775808 -> parse_int (format_int ms) = Some ms.
Proof.
  intros H. unfold format_int. replace (ms <? 0) with false by (symmetry; apply Z.ltb_ge; lia).
  exact (parse_format_nonneg ms H).
Qed.
