(** Lemmas for C11 (Model/CompilerTotal.v). *)
From Coq Require Import ZArith List Bool Lia.
From FV Require Import Model.CompilerTotal.
Import ListNotations.
Open Scope Z_scope.

(** * Casing helpers *)

Lemma camel_word_nonempty c r : exists x, camel_word (c :: r) = COk x.
Proof.
  unfold camel_word. destruct (mem (upper (c :: r)) common_initialisms); eauto.
Qed.

Lemma camel_words_skip_total ws : exists x, camel_words true ws = COk x.
Proof.
  induction ws as [|w ws IH]; cbn [camel_words]; [eauto|].
  destruct w as [|c r]; cbn [andb is_nil]; [exact IH|].
  destruct (camel_word_nonempty c r) as [x Hx]. destruct IH as [y Hy].
  rewrite Hx, Hy. cbn. eauto.
Qed.

(** the repaired snakeToCamel never panics, whatever the string *)
Lemma snake_to_camel_total s : exists r, snake_to_camel s = COk r.
Proof.
  unfold snake_to_camel, snake_to_camel_gen. destruct s; [eauto|]. apply camel_words_skip_total.
Qed.

Lemma title_service_name_total name svc : exists r, title_service_name name svc = COk r.
Proof.
  unfold title_service_name, title_service_name_gen.
  destruct (is_nil name); [eauto|].
  destruct (str_eqb name (upper name)); [eauto|].
  match goal with |- context [snake_to_camel_gen true ?x] => destruct (snake_to_camel_total x) as [r Hr] end.
  unfold snake_to_camel in Hr. rewrite Hr. cbn. eauto.
Qed.

Lemma title_total name : exists r, title name = COk r.
Proof. apply title_service_name_total. Qed.

(** the helpers that index the first rune are total on non-empty strings, hence on identifiers *)
Lemma identifier_nonempty s : is_identifier s = true -> s <> [].
Proof. destruct s; [discriminate|congruence]. Qed.

Lemma to_file_name_total s : s <> [] -> exists r, to_file_name s = COk r.
Proof. destruct s; [congruence|]. cbn. eauto. Qed.
Lemma to_constant_name_total s : s <> [] -> exists r, to_constant_name s = COk r.
Proof.
  intros H. unfold to_constant_name. destruct (to_file_name_total s H) as [r Hr]. rewrite Hr. cbn. eauto.
Qed.
Lemma lowercase_first_letter_total s : s <> [] -> exists r, lowercase_first_letter s = COk r.
Proof. destruct s; [congruence|]. cbn. eauto. Qed.
Lemma lowercase_first_character_total s : exists r, lowercase_first_character s = COk r.
Proof. destruct s; cbn; eauto. Qed.

Lemma casing_total_on_identifiers s :
  is_identifier s = true ->
  (exists r, snake_to_camel s = COk r) /\ (exists r, title s = COk r)
  /\ (forall svc, exists r, title_service_name s svc = COk r)
  /\ (exists r, to_constant_name s = COk r) /\ (exists r, to_file_name s = COk r)
  /\ (exists r, lowercase_first_letter s = COk r) /\ (exists r, lowercase_first_character s = COk r).
Proof.
  intros H. pose proof (identifier_nonempty s H) as Hne.
  repeat split; auto using snake_to_camel_total, title_total, title_service_name_total,
    to_constant_name_total, to_file_name_total, lowercase_first_letter_total, lowercase_first_character_total.
Qed.

(** the code before the repair: a legal identifier that panics *)
Lemma underscore_panics_pinned :
  exists s, is_identifier s = true /\ snake_to_camel_pinned s = CPanic CPIndex
            /\ title_pinned s = CPanic CPIndex.
Proof. exists [95; 97]. vm_compute. repeat split. Qed.

(** * Basic facts about strings and lookups *)

Lemma str_eqb_eq a b : str_eqb a b = true <-> a = b.
Proof.
  revert b. induction a as [|x a IH]; destruct b as [|y b]; cbn; split; intros H; try congruence; try discriminate.
  - apply andb_true_iff in H as [H1 H2]. apply Z.eqb_eq in H1. apply IH in H2. congruence.
  - inversion H; subst. apply andb_true_iff. split; [apply Z.eqb_refl | apply IH; reflexivity].
Qed.
Lemma str_eqb_refl a : str_eqb a a = true.
Proof. apply str_eqb_eq. reflexivity. Qed.

Lemma mem_In s l : mem s l = true <-> In s l.
Proof.
  induction l as [|x l IH]; cbn; [split; [discriminate|tauto]|].
  rewrite orb_true_iff, IH, str_eqb_eq. split; intros [H|H]; auto.
Qed.

Lemma assoc_In {A} k (l : list (str * A)) a : assoc k l = Some a -> In (k, a) l.
Proof.
  induction l as [|[k' a'] l IH]; cbn; [discriminate|].
  destruct (str_eqb k k') eqn:E.
  - intros H. inversion H; subst. apply str_eqb_eq in E. subst. auto.
  - auto.
Qed.

Lemma lookup_last_In {A} k (l : list (str * A)) a : lookup_last k l = Some a -> In (k, a) l.
Proof.
  induction l as [|[k' a'] l IH]; cbn; [discriminate|].
  destruct (lookup_last k l) eqn:E.
  - intros H. inversion H; subst. auto.
  - destruct (str_eqb k k') eqn:E'; [|discriminate].
    intros H. inversion H; subst. apply str_eqb_eq in E'. subst. auto.
Qed.

Lemma lookup_last_some_of_In {A} k (l : list (str * A)) a :
  In (k, a) l -> exists b, lookup_last k l = Some b.
Proof.
  induction l as [|[k' a'] l IH]; cbn; [tauto|].
  intros [H|H].
  - inversion H; subst. destruct (lookup_last k l); eauto. rewrite str_eqb_refl. eauto.
  - destruct (IH H) as [b Hb]. rewrite Hb. eauto.
Qed.

(** * Type resolution: fuel *)

Lemma underlying_mono fuel : forall f t u,
  underlying fuel f t = COk u -> forall fuel', (fuel <= fuel')%nat -> underlying fuel' f t = COk u.
Proof.
  induction fuel as [|fuel IH]; intros f t u H fuel' Hle; [discriminate|].
  destruct fuel' as [|fuel']; [lia|].
  assert (Hle' : (fuel <= fuel')%nat) by lia.
  cbn [underlying] in *. destruct t as [|name k v]; [discriminate|].
  destruct (negb (is_nil (include_name name))).
  - destruct (assoc (include_name name) (incs f)) as [parsed|]; [|exact H].
    destruct (lookup_last (param_name name) (typedefs parsed)) as [target|]; [|exact H].
    destruct (underlying fuel parsed target) as [w| | |] eqn:E; cbn in H; try discriminate.
    rewrite (IH _ _ _ E _ Hle'). exact H.
  - destruct (lookup_last (param_name name) (typedefs f)) as [target|]; [|exact H].
    apply IH with (fuel' := fuel') in H; auto.
Qed.

Lemma qualify_nonnil inc t : t <> TNil -> qualify inc t <> TNil.
Proof.
  destruct t as [|n k v]; [congruence|]. intros _. cbn [qualify].
  destruct (is_primitive n); [discriminate|]. destruct (is_container n); [discriminate|].
  destruct (is_nil (include_name n)); discriminate.
Qed.

(** a successful resolution never yields the nil type *)
Lemma underlying_ok_nonnil fuel : forall f t u, underlying fuel f t = COk u -> u <> TNil.
Proof.
  induction fuel as [|fuel IH]; intros f t u H; [discriminate|].
  cbn [underlying] in H. destruct t as [|name k v]; [discriminate|].
  destruct (negb (is_nil (include_name name))).
  - destruct (assoc (include_name name) (incs f)) as [parsed|]; [|inversion H; congruence].
    destruct (lookup_last (param_name name) (typedefs parsed)) as [target|]; [|inversion H; congruence].
    destruct (underlying fuel parsed target) as [w| | |] eqn:E; cbn in H; try discriminate.
    inversion H; subst. apply qualify_nonnil. eapply IH; eauto.
  - destruct (lookup_last (param_name name) (typedefs f)) as [target|]; [|inversion H; congruence].
    eapply IH; eauto.
Qed.

(** * Validation implies that typedef chains end *)


Lemma before_dot_nil n : before_dot n = [] -> contains 46 n = true -> name_ok n = false.
Proof.
  destruct n as [|c r]; cbn; [discriminate|].
  destruct (c =? 46) eqn:E; [reflexivity|discriminate].
Qed.

Lemma local_param_name n : name_ok n = true -> is_nil (include_name n) = true -> param_name n = n.
Proof.
  unfold include_name, param_name. intros Hok H.
  destruct (contains 46 n) eqn:C; [|reflexivity].
  destruct (before_dot n) eqn:B; [|discriminate].
  rewrite (before_dot_nil n B C) in Hok. discriminate.
Qed.

(** a file that passed validation, all of whose includes passed validation (parseFrugal
    validates the includes first), and whose typedef targets are names the parser can produce *)
Inductive wellvalidated : frugal -> Prop :=
| WV f :
    validate_types f = true ->
    forallb (fun d => top_name_ok (snd d)) (typedefs f) = true ->
    (forall n g, In (n, g) (incs f) -> wellvalidated g) ->
    wellvalidated f.

Fixpoint sum_weights (l : list (str * frugal)) : nat :=
  match l with [] => O | p :: l' => (weight (snd p) + sum_weights l')%nat end.
Lemma weight_eq f : weight f = S (length (typedefs f) + sum_weights (incs f)).
Proof.
  destruct f as [tds ss us xs es uses is]. reflexivity.
Qed.
Lemma weight_in n g l : In (n, g) l -> (weight g <= sum_weights l)%nat.
Proof. induction l as [|p l IH]; cbn; [tauto|]. intros [H|H]; [subst; cbn; lia|]. specialize (IH H). lia. Qed.

Lemma valid_nonnil f t : is_valid_type f t = true -> t <> TNil.
Proof. destruct t; [discriminate|congruence]. Qed.

Section OneFile.
  Variable f : frugal.
  (** every include resolves every non-nil type within its own weight, and its typedef
      targets are not nil *)
  Hypothesis Hincs : forall n g, In (n, g) (incs f) ->
    forall t, t <> TNil -> exists u, underlying (weight g) g t = COk u.
  Hypothesis Hincs_nonnil : forall n g, In (n, g) (incs f) ->
    forall k t, In (k, t) (typedefs g) -> t <> TNil.
  Hypothesis Hvalid : forallb (fun d => is_valid_type f (snd d)) (typedefs f) = true.
  Hypothesis Hnames : forallb (fun d => top_name_ok (snd d)) (typedefs f) = true.

  Let B := S (sum_weights (incs f)).

  (** qualified names and names that are not typedefs of this file need at most B steps *)
  Lemma underlying_easy name k v :
    (is_nil (include_name name) = false \/ lookup_last (param_name name) (typedefs f) = None) ->
    exists u, underlying B f (Ty name k v) = COk u.
  Proof.
    intros H. unfold B. cbn [underlying].
    destruct (is_nil (include_name name)) eqn:E; cbn [negb].
    - destruct H as [H|H]; [discriminate|]. rewrite H. eauto.
    - destruct (assoc (include_name name) (incs f)) as [g|] eqn:A; [|eauto].
      destruct (lookup_last (param_name name) (typedefs g)) as [target|] eqn:L; [|eauto].
      apply assoc_In in A. apply lookup_last_In in L.
      destruct (Hincs _ _ A target (Hincs_nonnil _ _ A _ _ L)) as [u Hu].
      rewrite (underlying_mono _ _ _ _ Hu (sum_weights (incs f)) (weight_in _ _ _ A)). cbn. eauto.
  Qed.

  (** the invariant of the marking loop: every marked name resolves within
      [length resolved + B] steps *)
  Definition marked_ok (r : list str) : Prop :=
    NoDup r /\ incl r (map fst (typedefs f)) /\
    forall n, In n r -> forall name k v,
      is_nil (include_name name) = true -> param_name name = n ->
      exists u, underlying (length r + B) f (Ty name k v) = COk u.

  Lemma marked_ok_nil : marked_ok [].
  Proof. repeat split; [constructor | intros x [] | intros n []]. Qed.

  Lemma target_facts n target :
    lookup_last n (typedefs f) = Some target ->
    target <> TNil /\ top_name_ok target = true.
  Proof.
    intros L. apply lookup_last_In in L.
    rewrite forallb_forall in Hvalid, Hnames.
    split; [apply (valid_nonnil f); exact (Hvalid _ L) | exact (Hnames _ L)].
  Qed.

  Lemma mark_step_ok r n : marked_ok r -> marked_ok (mark_step f r n).
  Proof.
    intros (Hnd & Hincl & Hres). unfold mark_step.
    destruct (mem n r) eqn:M; [repeat split; assumption|].
    destruct (lookup_last n (typedefs f)) as [target|] eqn:L; [|repeat split; assumption].
    destruct (typedefs_resolved f r target) eqn:R; [|repeat split; assumption].
    assert (Hnotin : ~ In n r) by (intros Hin; apply mem_In in Hin; congruence).
    repeat split.
    - constructor; assumption.
    - intros x [Hx|Hx]; [subst x|auto].
      apply lookup_last_In in L. apply in_map_iff. exists (n, target). auto.
    - intros m Hm name k v Hinc Hpn. cbn [length].
      destruct Hm as [Hm|Hm].
      + (* the newly marked name: one step to its target, which is easy or marked *)
        subst m. replace (S (length r) + B)%nat with (S (length r + B)) by lia.
        cbn [underlying]. rewrite Hinc. cbn [negb]. rewrite Hpn, L.
        destruct (target_facts _ _ L) as [Hnn Hok].
        destruct target as [|tn tk tv]; [congruence|]. cbn [top_name_ok] in Hok.
        cbn [typedefs_resolved] in R. apply andb_true_iff in R as [R _]. apply andb_true_iff in R as [R _].
        destruct (is_nil (include_name tn)) eqn:E.
        * destruct (lookup_last tn (typedefs f)) as [t2|] eqn:L2.
          -- apply mem_In in R. apply (Hres tn R tn tk tv E). apply local_param_name; assumption.
          -- destruct (underlying_easy tn tk tv) as [u Hu].
             { right. rewrite (local_param_name tn Hok E). exact L2. }
             exists u. apply (underlying_mono _ _ _ _ Hu). lia.
        * destruct (underlying_easy tn tk tv) as [u Hu]; [left; exact E|].
          exists u. apply (underlying_mono _ _ _ _ Hu). lia.
      + destruct (Hres m Hm name k v Hinc Hpn) as [u Hu].
        exists u. apply (underlying_mono _ _ _ _ Hu). lia.
  Qed.

  Lemma mark_fold_ok names : forall r, marked_ok r -> marked_ok (fold_left (mark_step f) names r).
  Proof. induction names as [|n names IH]; intros r H; cbn; [assumption|]. apply IH, mark_step_ok, H. Qed.
  Lemma mark_iter_ok k : forall r, marked_ok r -> marked_ok (iter k (mark_round f) r).
  Proof. induction k as [|k IH]; intros r H; cbn; [assumption|]. apply IH. unfold mark_round. apply mark_fold_ok, H. Qed.
  Lemma mark_all_ok : marked_ok (mark_all f).
  Proof. unfold mark_all. apply mark_iter_ok, marked_ok_nil. Qed.

  Hypothesis Hmarked : forallb (fun d => mem (fst d) (mark_all f)) (typedefs f) = true.

  (** the termination bound for one file *)
  Lemma underlying_terminates_file t :
    t <> TNil -> exists u, underlying (weight f) f t = COk u.
  Proof.
    intros Hnn. destruct t as [|name k v]; [congruence|].
    rewrite weight_eq.
    destruct (is_nil (include_name name)) eqn:E.
    - destruct (lookup_last (param_name name) (typedefs f)) as [target|] eqn:L.
      + destruct mark_all_ok as (Hnd & Hincl & Hres).
        pose proof (lookup_last_In _ _ _ L) as Hin.
        rewrite forallb_forall in Hmarked. specialize (Hmarked _ Hin). cbn in Hmarked.
        apply mem_In in Hmarked.
        destruct (Hres _ Hmarked name k v E eq_refl) as [u Hu].
        exists u. apply (underlying_mono _ _ _ _ Hu).
        pose proof (NoDup_incl_length Hnd Hincl) as Hlen. rewrite map_length in Hlen.
        unfold B. lia.
      + destruct (underlying_easy name k v) as [u Hu]; [right; exact L|].
        exists u. apply (underlying_mono _ _ _ _ Hu). unfold B. lia.
    - destruct (underlying_easy name k v) as [u Hu]; [left; exact E|].
      exists u. apply (underlying_mono _ _ _ _ Hu). unfold B. lia.
  Qed.
End OneFile.

Lemma validate_types_parts f :
  validate_types f = true ->
  forallb (fun d => is_valid_type f (snd d)) (typedefs f) = true
  /\ forallb (fun d => mem (fst d) (mark_all f)) (typedefs f) = true
  /\ forallb (is_valid_type f) (uses f) = true.
Proof.
  unfold validate_types, validate_typedefs. intros H.
  apply andb_true_iff in H as [H1 H3]. apply andb_true_iff in H1 as [H1 H2]. auto.
Qed.

(** validation of a file and of everything it includes bounds every typedef chain: the fuel
    [weight f] (typedefs of the file and of its includes, plus the number of files) is enough *)
Theorem underlying_terminates f :
  wellvalidated f -> forall t, t <> TNil -> exists u, underlying (weight f) f t = COk u.
Proof.
  induction 1 as [f Hv Hn Hsub IH]. intros t Hnn.
  destruct (validate_types_parts f Hv) as (H1 & H2 & _).
  apply underlying_terminates_file; auto.
  intros n g Hin k t' Hin'.
  specialize (Hsub n g Hin). inversion Hsub as [g' Hv' _ _]; subst.
  destruct (validate_types_parts g Hv') as (H1' & _ & _).
  rewrite forallb_forall in H1'. apply (valid_nonnil g). exact (H1' _ Hin').
Qed.

Corollary underlying_t_total f t :
  wellvalidated f -> t <> TNil -> exists u, underlying_t f t = COk u /\ u <> TNil.
Proof.
  intros H Hnn. destruct (underlying_terminates f H t Hnn) as [u Hu].
  exists u. split; [|eapply underlying_ok_nonnil; eauto].
  unfold underlying_t. apply (underlying_mono _ _ _ _ Hu). lia.
Qed.


(** the executable check run by the judge on every observed tree implies [wellvalidated] *)
Lemma validated_b_sound d : forall f,
  validated_b d f = true -> names_ok_b d f = true -> wellvalidated f.
Proof.
  induction d as [|d IH]; intros f Hv Hn; [discriminate|].
  cbn [validated_b names_ok_b] in Hv, Hn.
  apply andb_true_iff in Hv as [Hv Hvi]. apply andb_true_iff in Hn as [Hn Hni].
  constructor; auto.
  intros n g Hin. rewrite forallb_forall in Hvi, Hni.
  apply IH; [exact (Hvi _ Hin) | exact (Hni _ Hin)].
Qed.

(** * The code before the repairs *)

Definition cyc_file : frugal :=
  Frugal [([65], Ty [66] TNil TNil); ([66], Ty [65] TNil TNil)] [[83]] [] [] [] [Ty [65] TNil TNil] [].

(** typedef B A; typedef A B passes the pinned validation and never resolves: whatever the
    fuel (the Go code recurses until the stack overflows) *)
Lemma cyclic_typedef_diverges_pinned :
  validate_typedefs_pinned cyc_file = true
  /\ forallb (is_valid_type cyc_file) (uses cyc_file) = true
  /\ forall fuel, underlying_pinned fuel cyc_file (Ty [65] TNil TNil) = CFuel.
Proof.
  split; [reflexivity|]. split; [reflexivity|].
  assert (H : forall fuel, underlying_pinned fuel cyc_file (Ty [65] TNil TNil) = CFuel
                           /\ underlying_pinned fuel cyc_file (Ty [66] TNil TNil) = CFuel).
  { induction fuel as [|fuel [IHa IHb]]; [split; reflexivity|].
    split; cbn [underlying_pinned]; [change (underlying_pinned fuel cyc_file (Ty [66] TNil TNil) = CFuel)
                                    | change (underlying_pinned fuel cyc_file (Ty [65] TNil TNil) = CFuel)]; assumption. }
  intros fuel. apply H.
Qed.
(** the repaired validation rejects it *)
Lemma cyclic_typedef_rejected : validate_types cyc_file = false.
Proof. reflexivity. Qed.

(** a typedef chain through an include, valid, on which the pinned resolution loops
    (root: include inc; typedef inc.U T   inc: typedef i32 T; typedef T U) while the repaired
    one answers i32 *)
Definition f15_inc : frugal :=
  Frugal [([84], Ty s_i32 TNil TNil); ([85], Ty [84] TNil TNil)] [] [] [] [] [] [].
Definition f15_root : frugal :=
  Frugal [([84], Ty [105;110;99;46;85] TNil TNil)] [[77]] [] [] [] [Ty [84] TNil TNil] [([105;110;99], f15_inc)].
Lemma include_scope_pinned_loops :
  validated_b 3 f15_root = true
  /\ (forall fuel, underlying_pinned fuel f15_root (Ty [84] TNil TNil) = CFuel)
  /\ underlying_t f15_root (Ty [84] TNil TNil) = COk (Ty s_i32 TNil TNil).
Proof.
  split; [reflexivity|]. split; [|reflexivity].
  assert (H : forall fuel, underlying_pinned fuel f15_root (Ty [84] TNil TNil) = CFuel
                           /\ underlying_pinned fuel f15_root (Ty [105;110;99;46;85] TNil TNil) = CFuel).
  { induction fuel as [|fuel [IHa IHb]]; [split; reflexivity|].
    split; cbn [underlying_pinned];
      [change (underlying_pinned fuel f15_root (Ty [105;110;99;46;85] TNil TNil) = CFuel)
      | change (underlying_pinned fuel f15_root (Ty [84] TNil TNil) = CFuel)]; assumption. }
  intros fuel. apply H.
Qed.

(** * What the repairs do not reach: names of an include's include *)

(** root includes inca and incb; inca includes another file under the same name incb.
    inca: typedef incb.X T (X a struct there); root's incb: typedef i32 X; root: field of type inca.T.
    Everything validates, the Go classification helper reaches its panic branch. *)
Definition far_incb_of_inca : frugal := Frugal [] [[88]] [] [] [] [] [].
Definition far_inca : frugal :=
  Frugal [([84], Ty [105;110;99;98;46;88] TNil TNil)] [] [] [] [] [] [([105;110;99;98], far_incb_of_inca)].
Definition far_incb_of_root : frugal := Frugal [([88], Ty s_i32 TNil TNil)] [] [] [] [] [] [].
Definition far_root : frugal :=
  Frugal [] [[82]] [] [] [] [Ty [105;110;99;97;46;84] TNil TNil]
         [([105;110;99;97], far_inca); ([105;110;99;98], far_incb_of_root)].
Definition far_t : ty := Ty [105;110;99;97;46;84] TNil TNil.

Lemma classification_panics_on_far_names :
  validated_b 3 far_root = true /\ names_ok_b 3 far_root = true
  /\ is_valid_type far_root far_t = true /\ parser_shaped far_t = true
  /\ go_enum_from_thrift_type far_root far_t = CPanic CPExplicit.
Proof. vm_compute. repeat split. Qed.

(** root includes only mid; mid includes far; mid: typedef far.S T; root: field of type mid.T:
    IsUnion dereferences the nil include *)
Definition nil_far : frugal := Frugal [] [[83]] [] [] [] [] [].
Definition nil_mid : frugal :=
  Frugal [([84], Ty [102;97;114;46;83] TNil TNil)] [] [] [] [] [] [([102;97;114], nil_far)].
Definition nil_root : frugal :=
  Frugal [] [[82]] [] [] [] [Ty [109;105;100;46;84] TNil TNil] [([109;105;100], nil_mid)].
Lemma is_union_panics_on_far_names :
  validated_b 3 nil_root = true /\ names_ok_b 3 nil_root = true
  /\ is_valid_type nil_root (Ty [109;105;100;46;84] TNil TNil) = true
  /\ is_union nil_root (Ty [109;105;100;46;84] TNil TNil) = CPanic CPNil.
Proof. vm_compute. repeat split. Qed.

(** * The -gen parameter *)

Lemma split_nonempty c s : exists w ws, split c s = w :: ws.
Proof.
  induction s as [|x s IH]; cbn [split]; [eauto|].
  destruct (x =? c); [eauto|]. destruct IH as (w & ws & H). rewrite H. eauto.
Qed.

Lemma split_contains c s : contains c s = true -> exists a b rest, split c s = a :: b :: rest.
Proof.
  unfold contains. induction s as [|x s IH]; cbn [existsb split]; [discriminate|].
  rewrite Z.eqb_sym. destruct (x =? c) eqn:E; cbn [orb].
  - intros _. destruct (split_nonempty c s) as (w & ws & H). rewrite H. eauto.
  - intros H. destruct (IH H) as (a & b & rest & Hs). rewrite Hs. eauto.
Qed.

Definition opts_valid (lang : str) (m : list (str * str)) : Prop :=
  Forall (fun p => validate_option lang (fst p) = true) m.

Lemma set_opt_valid lang k v m :
  validate_option lang k = true -> opts_valid lang m -> opts_valid lang (set_opt k v m).
Proof.
  intros Hk. induction 1 as [|[k' v'] m Hp Hm IH]; cbn [set_opt].
  - constructor; [exact Hk|constructor].
  - destruct (str_eqb k k'); constructor; auto.
Qed.

Lemma clean_options_total lang opts : forall m,
  opts_valid lang m ->
  (exists m', clean_options lang opts m = COk m' /\ opts_valid lang m')
  \/ clean_options lang opts m = CErr.
Proof.
  induction opts as [|o opts IH]; intros m Hm; cbn [clean_options]; [left; eauto|].
  destruct (split_nonempty 61 o) as (w & ws & Hs). rewrite Hs.
  change (nth_res 0 (w :: ws)) with (COk w). cbn [cbind].
  destruct (validate_option lang w) eqn:V; cbn [negb]; [|right; reflexivity].
  destruct ws as [|w1 ws']; cbn [length Nat.eqb].
  - apply IH. apply set_opt_valid; assumption.
  - change (nth_res 1 (w :: w1 :: ws')) with (COk w1). cbn [cbind]. apply IH. apply set_opt_valid; assumption.
Qed.

(** CleanGenParam never indexes out of range; what it accepts are options of the language *)
Lemma clean_gen_param_total gen :
  (exists lang m, clean_gen_param gen = COk (lang, m) /\ (m = [] \/ opts_valid lang m))
  \/ clean_gen_param gen = CErr.
Proof.
  unfold clean_gen_param. destruct (contains 58 gen) eqn:C; cbn [negb]; [|left; eauto].
  destruct (split_contains 58 gen C) as (a & b & rest & Hs). rewrite Hs.
  change (nth_res 0 (a :: b :: rest)) with (COk a). change (nth_res 1 (a :: b :: rest)) with (COk b). cbn [cbind].
  match goal with |- context [clean_options a ?arr []] =>
    destruct (clean_options_total a arr [] (Forall_nil _)) as [(m' & Hm & Hv)|He] end.
  - rewrite Hm. cbn [cbind]. left. eauto.
  - rewrite He. right. reflexivity.
Qed.

Lemma resolve_gen_total gen :
  (exists lang m, resolve_gen gen = COk (lang, m) /\ mem lang generator_langs = true
                  /\ (m = [] \/ opts_valid lang m))
  \/ resolve_gen gen = CErr.
Proof.
  unfold resolve_gen.
  destruct (clean_gen_param_total gen) as [(lang & m & H & Hv)|H]; rewrite H; cbn [cbind fst].
  - destruct (mem lang generator_langs) eqn:M; [left; eauto|right; reflexivity].
  - right. reflexivity.
Qed.

(** an option the language does not have is an error, wherever it stands *)
Lemma unknown_option_is_error lang pre o post :
  validate_option lang (match split 61 o with w :: _ => w | [] => [] end) = false ->
  forall m, opts_valid lang m ->
  clean_options lang (pre ++ o :: post) m = CErr
  \/ exists o', In o' pre /\ validate_option lang (match split 61 o' with w :: _ => w | [] => [] end) = false.
Proof.
  intros Hbad. induction pre as [|p pre IH]; intros m Hm; cbn [app clean_options].
  - left. destruct (split_nonempty 61 o) as (w & ws & Hs). rewrite Hs in *.
    change (nth_res 0 (w :: ws)) with (COk w). cbn [cbind]. rewrite Hbad. reflexivity.
  - destruct (split_nonempty 61 p) as (w & ws & Hs).
    assert (Hp : validate_option lang w = false ->
                 exists o', In o' (p :: pre) /\ validate_option lang (match split 61 o' with w :: _ => w | [] => [] end) = false).
    { intros V. exists p. split; [left; reflexivity|]. rewrite Hs. exact V. }
    rewrite Hs. change (nth_res 0 (w :: ws)) with (COk w). cbn [cbind].
    destruct (validate_option lang w) eqn:V; cbn [negb]; [|right; auto].
    destruct ws as [|w1 ws']; cbn [length Nat.eqb].
    + destruct (IH (set_opt w [] m) (set_opt_valid _ _ _ _ V Hm)) as [H|(o' & Ho & Hv)];
        [left; exact H | right; exists o'; split; [right; exact Ho | exact Hv]].
    + change (nth_res 1 (w :: w1 :: ws')) with (COk w1). cbn [cbind].
      destruct (IH (set_opt w w1 m) (set_opt_valid _ _ _ _ V Hm)) as [H|(o' & Ho & Hv)];
        [left; exact H | right; exists o'; split; [right; exact Ho | exact Hv]].
Qed.

(** * Classification helpers *)

Lemma is_enum_total f t : t <> TNil -> exists b, is_enum f t = COk b.
Proof. destruct t as [|n k v]; [congruence|]. intros _. unfold is_enum. cbn [ty_name cbind]. eauto. Qed.

(** IsStruct never panics on a validated program *)
Lemma is_struct_total f t : wellvalidated f -> t <> TNil -> exists b, is_struct f t = COk b.
Proof.
  intros Hw Hnn. unfold is_struct.
  destruct (underlying_t_total f t Hw Hnn) as (u & Hu & Hun). rewrite Hu. cbn [cbind].
  destruct u as [|n k v]; [congruence|].
  destruct (is_primitive n); [eauto|].
  destruct k; [destruct v|]; eauto.
  destruct (is_enum_total f (Ty n TNil TNil)) as [b Hb]; [discriminate|]. rewrite Hb. cbn [cbind]. eauto.
Qed.

(** getEnumFromThriftType on a validated program: never a nil dereference, never out of fuel;
    what is left is its own panic("not a valid thrift type") *)
Lemma go_enum_no_crash_but_explicit f t :
  wellvalidated f -> t <> TNil ->
  (exists z, go_enum_from_thrift_type f t = COk z) \/ go_enum_from_thrift_type f t = CPanic CPExplicit.
Proof.
  intros Hw Hnn. unfold go_enum_from_thrift_type.
  destruct (underlying_t_total f t Hw Hnn) as (u & Hu & Hun). rewrite Hu. cbn [cbind].
  destruct u as [|n k v]; [congruence|]. cbn [ty_name cbind].
  repeat match goal with |- context [if ?c then COk ?z else _] => destruct c; [left; eauto|] end.
  destruct (is_enum_total f (Ty n k v)) as [b Hb]; [discriminate|]. rewrite Hb. cbn [cbind].
  destruct b; [left; eauto|].
  destruct (is_struct_total f (Ty n k v) Hw) as [s Hs]; [discriminate|]. rewrite Hs. cbn [cbind].
  destruct s; [left; eauto|right; reflexivity].
Qed.

(** single file (no includes): the panic branch is unreachable for types the parser produces *)
Definition shaped_file (f : frugal) : Prop :=
  forall d, In d (typedefs f) -> parser_shaped (snd d) = true.

Lemma underlying_single_end fuel : forall f t u,
  incs f = [] -> underlying fuel f t = COk u ->
  (u = t \/ exists n, In (n, u) (typedefs f))
  /\ forall fuel', underlying (S fuel') f u = COk u.
Proof.
  induction fuel as [|fuel IH]; intros f t u Hi H; [discriminate|].
  cbn [underlying] in H. destruct t as [|name k v]; [discriminate|].
  destruct (is_nil (include_name name)) eqn:E; cbn [negb] in H.
  - destruct (lookup_last (param_name name) (typedefs f)) as [target|] eqn:L.
    + destruct (IH _ _ _ Hi H) as [[Ha|(n & Hb)] Hend]; split; auto.
      * subst u. right. exists (param_name name). apply lookup_last_In. exact L.
      * right. eauto.
    + inversion H; subst. split; [auto|]. intros fuel'. cbn [underlying]. rewrite E. cbn [negb]. rewrite L. reflexivity.
  - rewrite Hi in H. cbn [assoc] in H. inversion H; subst. split; [auto|].
    intros fuel'. cbn [underlying]. rewrite E, Hi. reflexivity.
Qed.

Lemma go_enum_total_single_file f t :
  wellvalidated f -> incs f = [] -> shaped_file f -> parser_shaped t = true -> t <> TNil ->
  exists z, go_enum_from_thrift_type f t = COk z.
Proof.
  intros Hw Hi Hsh Hst Hnn. unfold go_enum_from_thrift_type.
  destruct (underlying_t_total f t Hw Hnn) as (u & Hu & Hun). rewrite Hu. cbn [cbind].
  destruct (underlying_single_end _ _ _ _ Hi Hu) as [Horigin Hend].
  assert (Hus : parser_shaped u = true).
  { destruct Horigin as [->|(n & Hin)]; [assumption|]. exact (Hsh _ Hin). }
  destruct u as [|n k v]; [congruence|]. cbn [ty_name cbind].
  destruct (str_eqb n s_bool) eqn:E1; [eauto|].
  destruct (str_eqb n s_byte || str_eqb n s_i8) eqn:E2; [eauto|].
  destruct (str_eqb n s_i16) eqn:E3; [eauto|].
  destruct (str_eqb n s_i32) eqn:E4; [eauto|].
  destruct (str_eqb n s_i64) eqn:E5; [eauto|].
  destruct (str_eqb n s_double) eqn:E6; [eauto|].
  destruct (str_eqb n s_string || str_eqb n s_binary) eqn:E7; [eauto|].
  destruct (str_eqb n s_list) eqn:E8; [eauto|].
  destruct (str_eqb n s_set) eqn:E9; [eauto|].
  destruct (str_eqb n s_map) eqn:E10; [eauto|].
  apply orb_false_iff in E2 as [E2 E2']. apply orb_false_iff in E7 as [E7 E7'].
  assert (Hprim : is_primitive n = false).
  { unfold is_primitive, base_types. cbn [mem]. rewrite E1, E2, E2', E3, E4, E5, E6, E7, E7'. reflexivity. }
  assert (Hcont : is_container n = false).
  { unfold is_container, container_types. cbn [mem]. rewrite E8, E9, E10. reflexivity. }
  cbn [parser_shaped] in Hus. rewrite Hcont in Hus. apply andb_true_iff in Hus as [Hk Hv].
  destruct k; [|discriminate]. destruct v; [|discriminate].
  destruct (is_enum_total f (Ty n TNil TNil)) as [b Hb]; [discriminate|]. rewrite Hb. cbn [cbind].
  destruct b; [eauto|].
  unfold is_struct, underlying_t. rewrite (Hend (weight f)). cbn [cbind]. rewrite Hprim, Hb. cbn [cbind negb]. eauto.
Qed.
