(** Lemmas for C11 (Model/CompilerTotal.v). *)
From Coq Require Import ZArith List Bool Lia.
From FV Require Import Model.CompilerTotal.
Import ListNotations.
Open Scope Z_scope.

(** * Casing helpers *)

Lemma camel_word_nonempty c r : exists x, camel_word (c :: r) = COk x.
Proof.
  unfold camel_word. destruct (mem (upper (c :: r)) common_initialisms); eauto.
Qed.

Lemma camel_words_skip_total ws : exists x, camel_words true ws = COk x.
Proof.
  induction ws as [|w ws IH]; cbn [camel_words]; [eauto|].
  destruct w as [|c r]; cbn [andb is_nil]; [exact IH|].
  destruct (camel_word_nonempty c r) as [x Hx]. destruct IH as [y Hy].
  rewrite Hx, Hy. cbn. eauto.
Qed.

(** the repaired snakeToCamel never panics, whatever the string *)
Lemma snake_to_camel_total s : exists r, snake_to_camel s = COk r.
Proof.
  unfold snake_to_camel, snake_to_camel_gen. destruct s; [eauto|]. apply camel_words_skip_total.
Qed.

Lemma title_service_name_total name svc : exists r, title_service_name name svc = COk r.
Proof.
  unfold title_service_name, title_service_name_gen.
  destruct (is_nil name); [eauto|].
  destruct (str_eqb name (upper name)); [eauto|].
  match goal with |- context [snake_to_camel_gen true ?x] => destruct (snake_to_camel_total x) as [r Hr] end.
  unfold snake_to_camel in Hr. rewrite Hr. cbn. eauto.
Qed.

Lemma title_total name : exists r, title name = COk r.
Proof. apply title_service_name_total. Qed.

(** the helpers that index the first rune are total on non-empty strings, hence on identifiers *)
Lemma identifier_nonempty s : is_identifier s = true -> s <> [].
Proof. destruct s; [discriminate|congruence]. Qed.

Lemma to_file_name_total s : s <> [] -> exists r, to_file_name s = COk r.
Proof. destruct s; [congruence|]. cbn. eauto. Qed.
Lemma to_constant_name_total s : s <> [] -> exists r, to_constant_name s = COk r.
Proof.
  intros H. unfold to_constant_name. destruct (to_file_name_total s H) as [r Hr]. rewrite Hr. cbn. eauto.
Qed.
Lemma lowercase_first_letter_total s : s <> [] -> exists r, lowercase_first_letter s = COk r.
Proof. destruct s; [congruence|]. cbn. eauto. Qed.
Lemma lowercase_first_character_total s : exists r, lowercase_first_character s = COk r.
Proof. destruct s; cbn; eauto. Qed.

Lemma casing_total_on_identifiers s :
  is_identifier s = true ->
  (exists r, snake_to_camel s = COk r) /\ (exists r, title s = COk r)
  /\ (forall svc, exists r, title_service_name s svc = COk r)
  /\ (exists r, to_constant_name s = COk r) /\ (exists r, to_file_name s = COk r)
  /\ (exists r, lowercase_first_letter s = COk r) /\ (exists r, lowercase_first_character s = COk r).
Proof.
  intros H. pose proof (identifier_nonempty s H) as Hne.
  repeat split; auto using snake_to_camel_total, title_total, title_service_name_total,
    to_constant_name_total, to_file_name_total, lowercase_first_letter_total, lowercase_first_character_total.
Qed.

(** the code before the repair: a legal identifier that panics *)
Lemma underscore_panics_pinned :
  exists s, is_identifier s = true /\ snake_to_camel_pinned s = CPanic CPIndex
            /\ title_pinned s = CPanic CPIndex.
Proof. exists [95; 97]. vm_compute. repeat split. Qed.
