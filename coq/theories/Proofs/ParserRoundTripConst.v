(** Round trip through the whole parser model for const declarations whose value is an integer
    literal or a plain double-quoted string literal:  const type name = value.  ConstValue (30) with the
    failing alternatives in front of the one that matches (Literal, BoolConstant, DoubleConstant before
    IntConstant), the Literal rule and its action (strconv.Unquote), the Const rule.  C10 stage 5,
    continued. *)
From Coq Require Import ZArith List Bool Arith Lia String.
From FV Require Import Model.PegSyntax Model.Peg Model.PegWf Model.ParserStrings Model.ParserAst
     Model.ParserActions Model.Parser Proofs.PegProofs Proofs.ParserProofs Proofs.ParserLexProofs
     Proofs.ParserEvals Proofs.ParserRoundTrip Proofs.ParserRoundTripEnum Proofs.ParserRoundTripStruct.
Import ListNotations.
Local Open Scope Z_scope.

Definition lit_const : list Z := [99; 111; 110; 115; 116].
Definition lit_true : list Z := [116; 114; 117; 101].
Definition lit_false : list Z := [102; 97; 108; 115; 101].
Definition str_body (q : Z) : cexpr action := CStar (CChoice [CLit [92; 92]; CLit [92; q]; CClass [q] [] true]).

Lemma const_shapes :
  nth_error rules 6 = Some (CAct AConst1 (CSeq [CLit lit_const; CRef 56; CLabel "typ" (CRef 22); CRef 56;
                                                CLabel "name" (CRef 45); CRef 56; CLit [61]; CRef 56;
                                                CLabel "value" (CRef 30); CRef 56; anns_opt; CRef 60]))
  /\ nth_error rules 30 = Some (CChoice [CRef 44; CRef 33; CRef 35; CRef 34; CRef 37; CRef 36; CRef 45])
  /\ nth_error rules 33 = Some (CAct ABoolConstant1 (CSeq [CChoice [CLit lit_true; CLit lit_false]; kw_guard]))
  /\ nth_error rules 35 = Some (CAct ADoubleConstant1
                                  (CSeq [COpt (CClass [43; 45] [] false); CStar (CRef 48); CLit [46]; CStar (CRef 48);
                                         COpt (CSeq [CClass [39; 69; 101; 39] [] false; CRef 34])]))
  /\ nth_error rules 44 = Some (CAct ALiteral1 (CChoice [CSeq [CLit [34]; str_body 34; CLit [34]];
                                                         CSeq [CLit [39]; str_body 39; CLit [39]]])).
Proof. repeat (split; [vm_compute; reflexivity|]). vm_compute; reflexivity. Qed.

(** ** the alternatives of ConstValue that fail on an integer *)
Lemma literal_fails : forall cr s o es fr,
  head_not [34; 39] s -> evals (CRef 44) cr (st_of s o es) fr (Done false VNil (st_of s o es) fr).
Proof.
  intros cr s o es fr Hs. destruct const_shapes as (_ & _ & _ & _ & H44).
  assert (H34 : head_not [34] s) by sub_head Hs. assert (H39 : head_not [39] s) by sub_head Hs.
  eapply E_ref; [exact H44|]. apply E_act_fail. apply E_choice.
  eapply C_next; [apply E_seq; exact (S_fail 44 _ _ _ _ _ _ _ _ _ (lit_fails 34 [] 44 s o es [] ltac:(all_ascii) H34))|].
  eapply C_next; [apply E_seq; exact (S_fail 44 _ _ _ _ _ _ _ _ _ (lit_fails 39 [] 44 s o es [] ltac:(all_ascii) H39))|].
  apply C_nil.
Qed.

Lemma bool_constant_fails : forall cr s o es fr,
  head_not [116; 102] s -> evals (CRef 33) cr (st_of s o es) fr (Done false VNil (st_of s o es) fr).
Proof.
  intros cr s o es fr Hs. destruct const_shapes as (_ & _ & H33 & _).
  assert (H116 : head_not [116] s) by sub_head Hs. assert (H102 : head_not [102] s) by sub_head Hs.
  assert (Hch : evals (CChoice [CLit lit_true; CLit lit_false]) 33 (st_of s o es) [] (Done false VNil (st_of s o es) [])).
  { apply E_choice.
    eapply C_next; [exact (lit_fails 116 [114; 117; 101] 33 s o es [] ltac:(all_ascii) H116)|].
    eapply C_next; [exact (lit_fails 102 [97; 108; 115; 101] 33 s o es [] ltac:(all_ascii) H102)|].
    apply C_nil. }
  eapply E_ref; [exact H33|]. apply E_act_fail. apply E_seq. exact (S_fail 33 _ _ _ _ _ _ _ _ _ Hch).
Qed.

(** the decimal spelling of a 64-bit integer: an optional '-' and a non-empty run of digits *)
Lemma render_int_shape : forall z, int64 z ->
  exists sign d ds, render_int z = sign ++ d :: ds /\ (sign = [] \/ sign = [45])
                    /\ ascii d /\ p_digit d = true /\ run_of p_digit ds.
Proof.
  intros z Hz. unfold int64 in Hz.
  assert (Hpow : 10 ^ Z.of_nat 20 = 100000000000000000000) by reflexivity.
  unfold render_int, render_nat. destruct (Z.ltb_spec z 0) as [Hneg|Hpos].
  - destruct (render_nat_fuel_head 20 (- z) [] ltac:(lia) ltac:(lia)) as (d & t & Hr & Hd).
    destruct (render_nat_fuel_run 20 (- z) [] ltac:(lia) ltac:(constructor)) as [Hrun _].
    rewrite Hr in *. inversion Hrun as [|d' t' [Hda Hdp] Ht]; subst.
    exists [45], d, t. split; [reflexivity|]. split; [right; reflexivity|]. split; [exact Hda|]. split; [exact Hdp | exact Ht].
  - destruct (render_nat_fuel_head 20 z [] ltac:(lia) ltac:(lia)) as (d & t & Hr & Hd).
    destruct (render_nat_fuel_run 20 z [] ltac:(lia) ltac:(constructor)) as [Hrun _].
    rewrite Hr in *. inversion Hrun as [|d' t' [Hda Hdp] Ht]; subst.
    exists [], d, t. split; [reflexivity|]. split; [left; reflexivity|]. split; [exact Hda|]. split; [exact Hdp | exact Ht].
Qed.

Definition p_sign2 (c : Z) : bool := in_chars c [43; 45] || in_ranges c [].

Lemma digit_not_sign2 : forall d, p_digit d = true -> p_sign2 d = false.
Proof.
  intros d H. apply p_digit_range in H. unfold p_sign2. cbn [in_chars in_ranges].
  destruct (Z.eqb_spec 43 d); [lia|]. destruct (Z.eqb_spec 45 d); [lia|]. reflexivity.
Qed.

(** DoubleConstant (35) on an integer not followed by '.': sign and digits are consumed, the '.' is
    missing, the position is restored, and the action (strconv.ParseFloat) does not run *)
Lemma double_fails_on_int : forall z follow cr o es fr,
  int64 z -> stops p_digit follow -> head_not [46] follow ->
  evals (CRef 35) cr (st_of (render_int z ++ follow) o es) fr
        (Done false VNil (st_of (render_int z ++ follow) o es) fr).
Proof.
  intros z follow cr o es fr Hz Hstop H46. destruct const_shapes as (_ & _ & _ & H35 & _).
  destruct (render_int_shape z Hz) as (sign & d & ds & Hr & Hsign & Hd & Hdp & Hds). rewrite Hr.
  pose proof (class_matches [43; 45] []) as (Sm & Sn & _). fold p_sign2 in Sm, Sn.
  assert (Hrun : run_of p_digit (d :: ds)) by (constructor; [split; assumption | exact Hds]).
  assert (Hdn : ascii_next ((d :: ds) ++ follow)) by exact Hd.
  assert (Hloop : forall o1, evals (CStar (CRef 48)) 35 (st_of ((d :: ds) ++ follow) o1 es) []
                    (Done true (VList (map (fun c => VBytes [c]) (d :: ds)))
                          (st_of follow (o1 + Z.of_nat (List.length (d :: ds))) es) [])).
  { intros o1. apply E_star. exists (2 + List.length (d :: ds) + 1)%nat. intros f Hf.
    rewrite (loop_run (CRef 48) p_digit 2 digit_matches (d :: ds) follow f 35%nat o1 es [] [] Hrun Hstop Hf).
    reflexivity. }
  assert (Hdot : forall o1, evals (CLit [46]) 35 (st_of follow o1 es) [] (Done false VNil (st_of follow o1 es) []))
    by (intros o1; exact (lit_fails 46 [] 35 follow o1 es [] ltac:(all_ascii) H46)).
  eapply E_ref; [exact H35|]. apply E_act_fail. apply E_seq.
  destruct Hsign as [-> | ->]; cbn [app].
  - eapply S_ok.
    { eapply E_opt. apply (E_of_bound 1). intros f Hf.
      exact (Sn f 35%nat d (ds ++ follow) o es [] Hf Hd (digit_not_sign2 d Hdp)). }
    eapply S_ok; [exact (Hloop o)|].
    exact (S_fail 35 _ _ _ _ _ _ _ _ _ (Hdot _)).
  - eapply S_ok.
    { eapply E_opt. apply (E_of_bound 1). intros f Hf.
      exact (Sm f 35%nat 45 ((d :: ds) ++ follow) o es [] Hf ltac:(unfold ascii; lia) eq_refl Hdn). }
    eapply S_ok; [exact (Hloop (o + 1))|].
    exact (S_fail 35 _ _ _ _ _ _ _ _ _ (Hdot _)).
Qed.

Lemma render_int_head10 : forall z x, int64 z -> head_not [32; 9; 13; 47; 34; 39; 116; 102; 40] (render_int z ++ x).
Proof.
  intros z x Hz. destruct (render_int_first z x Hz) as (d & r & -> & Hd & Hk). split; [exact Hd|].
  destruct Hk as [-> | Hp]; [repeat constructor; lia|]. apply p_digit_range in Hp. repeat constructor; lia.
Qed.

(** ConstValue (30) on an integer *)
Lemma const_value_int : forall z follow cr o es fr,
  int64 z -> stops p_digit follow -> head_not [46] follow ->
  evals (CRef 30) cr (st_of (render_int z ++ follow) o es) fr
        (Done true (VInt z) (st_of follow (o + Z.of_nat (List.length (render_int z))) es) fr).
Proof.
  intros z follow cr o es fr Hz Hstop H46. destruct const_shapes as (_ & H30 & _).
  pose proof (render_int_head10 z follow Hz) as Hh.
  eapply E_ref; [exact H30|]. apply E_choice.
  eapply C_next; [apply literal_fails; sub_head Hh|].
  eapply C_next; [apply bool_constant_fails; sub_head Hh|].
  eapply C_next; [exact (double_fails_on_int z follow 30 o es [] Hz Hstop H46)|].
  eapply C_ok. apply (E_of_bound 32). intros f Hf.
  exact (int_const_roundtrip z follow f 30%nat o es [] Hz Hstop Hf).
Qed.

(** ** Literal (44) on a plain double-quoted string *)
(** characters of a plain string: ASCII, not the quote, not a backslash, not a line break *)
Definition p_strch (c : Z) : bool := negb (c =? 34) && negb (c =? 92) && negb (c =? 10).

Lemma p_strch_ne : forall c, p_strch c = true -> c <> 34 /\ c <> 92 /\ c <> 10.
Proof.
  intros c H. unfold p_strch in H. apply andb_true_iff in H. destruct H as [H H10]. apply andb_true_iff in H.
  destruct H as [H34 H92]. apply negb_true_iff in H34, H92, H10. apply Z.eqb_neq in H34, H92, H10. tauto.
Qed.

Lemma class_inv_ok : forall q c t cr o es fr, ascii c -> c <> q -> ascii_next t ->
  evals (CClass [q] [] true) cr (st_of (c :: t) o es) fr (Done true (VBytes [c]) (st_of t (o + 1) es) fr).
Proof.
  intros q c t cr o es fr Hc Hne Ht. apply E_class. unfold match_class. cbn [rest].
  rewrite (decode_ascii c t Hc), (ascii_not_error c Hc). cbn [in_chars in_ranges].
  destruct (Z.eqb_spec q c) as [He|_]; [congruence|]. cbn [orb].
  rewrite (advance_ascii cr c t o es Hc Ht), takeZ_1. reflexivity.
Qed.

Lemma class_inv_fail : forall q t cr o es fr, ascii q ->
  evals (CClass [q] [] true) cr (st_of (q :: t) o es) fr (Done false VNil (st_of (q :: t) o es) fr).
Proof.
  intros q t cr o es fr Hq. apply E_class. unfold match_class. cbn [rest].
  rewrite (decode_ascii q t Hq), (ascii_not_error q Hq). cbn [in_chars in_ranges]. rewrite Z.eqb_refl. reflexivity.
Qed.

Lemma str_loop : forall content t o es fr acc,
  run_of p_strch content -> ascii_next t ->
  loops (CChoice [CLit [92; 92]; CLit [92; 34]; CClass [34] [] true]) 44 (st_of (content ++ 34 :: t) o es) fr acc
        (Done true (VList (rev acc ++ bytes_vals content)) (st_of (34 :: t) (o + Z.of_nat (List.length content)) es) fr).
Proof.
  induction content as [|c content IH]; intros t o es fr acc Hrun Ht.
  - cbn [app List.length bytes_vals map]. replace (o + Z.of_nat 0) with o by lia. rewrite app_nil_r.
    eapply L_stop. apply E_choice.
    eapply C_next; [refine (lit_fails 92 [92] 44 (34 :: t) o es [] ltac:(all_ascii) _);
                    split; [unfold ascii; lia | repeat constructor; lia]|].
    eapply C_next; [refine (lit_fails 92 [34] 44 (34 :: t) o es [] ltac:(all_ascii) _);
                    split; [unfold ascii; lia | repeat constructor; lia]|].
    eapply C_next; [exact (class_inv_fail 34 t 44 o es [] ltac:(unfold ascii; lia))|].
    apply C_nil.
  - inversion Hrun as [|c' r' [Hc Hp] Hrun']; subst. destruct (p_strch_ne c Hp) as (H34 & H92 & _). cbn [app].
    assert (Hn : ascii_next (content ++ 34 :: t)).
    { destruct content as [|c2 r2]; cbn [app]; [unfold ascii_next, ascii; lia|].
      inversion Hrun' as [|? ? [Hc2 _] _]; subst. exact Hc2. }
    eapply L_step.
    + apply E_choice.
      eapply C_next; [refine (lit_fails 92 [92] 44 (c :: content ++ 34 :: t) o es [] ltac:(all_ascii) _);
                      split; [exact Hc | repeat constructor; congruence]|].
      eapply C_next; [refine (lit_fails 92 [34] 44 (c :: content ++ 34 :: t) o es [] ltac:(all_ascii) _);
                      split; [exact Hc | repeat constructor; congruence]|].
      eapply C_ok. exact (class_inv_ok 34 c (content ++ 34 :: t) 44 o es [] Hc H34 Hn).
    + specialize (IH t (o + 1) es fr (VBytes [c] :: acc) Hrun' Ht).
      cbn [rev] in IH. rewrite <- app_assoc in IH. cbn [app] in IH.
      cbn [List.length bytes_vals map].
      replace (o + Z.of_nat (S (List.length content))) with (o + 1 + Z.of_nat (List.length content)) by lia.
      exact IH.
Qed.

(** the Literal action (strconv.Unquote) on a plain string *)
Lemma index_byte_plain : forall content r i, Forall (fun c => c <> 34) content ->
  index_byte 34 (content ++ 34 :: r) i = Some (i + List.length content)%nat.
Proof.
  induction content as [|c content IH]; intros r i Hall; cbn [app index_byte List.length].
  - rewrite Z.eqb_refl. f_equal. lia.
  - inversion Hall as [|? ? Hc Hall']; subst. destruct (Z.eqb_spec c 34); [congruence|].
    rewrite (IH r (S i) Hall'). f_equal. lia.
Qed.

Lemma contains_byte_none : forall b content, Forall (fun c => c <> b) content -> contains_byte b content = false.
Proof.
  intros b content Hall. unfold contains_byte. induction Hall as [|c r Hc _ IH]; [reflexivity|].
  cbn [existsb]. rewrite IH. destruct (Z.eqb_spec b c); [congruence | reflexivity].
Qed.

Lemma valid_utf8_ascii : forall fuel s, Forall ascii s -> valid_utf8_fuel fuel s = true.
Proof.
  induction fuel as [|f IH]; intros s Hs; [reflexivity|]. destruct s as [|c t]; [reflexivity|].
  inversion Hs as [|? ? Hc Ht]; subst. cbn [valid_utf8_fuel]. rewrite (decode_ascii c t Hc).
  rewrite (ascii_not_error c Hc). cbn [andb]. rewrite skip_width_1. exact (IH t Ht).
Qed.

(** unquoteLiteral's normalisation leaves a plain string alone *)
Lemma norm_lit_plain : forall content,
  Forall (fun c => c <> 92) content -> Forall (fun c => c <> 34) content -> norm_lit content = content.
Proof.
  induction content as [|a r IH]; intros H92 H34; [reflexivity|].
  inversion H92 as [|? ? Ha92 Hr92]; inversion H34 as [|? ? Ha34 Hr34]; subst. cbn [norm_lit].
  destruct (Z.eqb_spec a 92); [congruence|]. destruct (Z.eqb_spec a 34); [congruence|]. rewrite (IH Hr92 Hr34). reflexivity.
Qed.

Lemma literal_value_quoted : forall q1 content q2,
  literal_value (q1 :: content ++ [q2]) = unquote ([34] ++ norm_lit content ++ [34]).
Proof.
  intros q1 content q2.
  assert (Hin : firstn (List.length (q1 :: content ++ [q2]) - 2) (skipn 1 (q1 :: content ++ [q2])) = content).
  { cbn [List.length skipn]. rewrite app_length. cbn [List.length].
    replace (S (List.length content + 1) - 2)%nat with (List.length content) by lia.
    rewrite firstn_app, Nat.sub_diag, firstn_all. cbn [firstn]. apply app_nil_r. }
  unfold literal_value. destruct content as [|c r]; cbn [app] in *; cbv beta iota zeta; rewrite Hin; reflexivity.
Qed.

Lemma literal_value_plain : forall content, run_of p_strch content ->
  literal_value (34 :: content ++ [34]) = Some content.
Proof.
  intros content Hrun.
  assert (H34 : Forall (fun c => c <> 34) content).
  { eapply Forall_impl; [|exact Hrun]. intros c [_ Hp]. exact (proj1 (p_strch_ne c Hp)). }
  assert (H92 : Forall (fun c => c <> 92) content).
  { eapply Forall_impl; [|exact Hrun]. intros c [_ Hp]. exact (proj1 (proj2 (p_strch_ne c Hp))). }
  assert (H10 : Forall (fun c => c <> 10) content).
  { eapply Forall_impl; [|exact Hrun]. intros c [_ Hp]. exact (proj2 (proj2 (p_strch_ne c Hp))). }
  assert (Hasc : Forall ascii content) by (eapply Forall_impl; [|exact Hrun]; intros c [Hc _]; exact Hc).
  rewrite literal_value_quoted, (norm_lit_plain content H92 H34). cbn [app].
  unfold unquote. rewrite (index_byte_plain content [] 0 H34). cbn [plus].
  rewrite firstn_app, Nat.sub_diag, firstn_all. cbn [firstn]. rewrite app_nil_r.
  rewrite (contains_byte_none 92 content H92), (contains_byte_none 10 content H10).
  unfold valid_utf8. rewrite (valid_utf8_ascii _ content Hasc). cbn [negb andb].
  replace (S (List.length content)) with (List.length (content ++ [34])) by (rewrite app_length; cbn; lia).
  rewrite skipn_all. reflexivity.
Qed.

Lemma literal_rule : forall content t cr o es fr,
  run_of p_strch content -> ascii_next t ->
  evals (CRef 44) cr (st_of (34 :: content ++ 34 :: t) o es) fr
        (Done true (VStr content) (st_of t (o + 1 + Z.of_nat (List.length content) + 1) es) fr).
Proof.
  intros content t cr o es fr Hrun Ht. destruct const_shapes as (_ & _ & _ & _ & H44).
  assert (Hn : ascii_next (content ++ 34 :: t)).
  { destruct content as [|c2 r2]; cbn [app]; [unfold ascii_next, ascii; lia|].
    inversion Hrun as [|? ? [Hc2 _] _]; subst. exact Hc2. }
  eapply E_ref; [exact H44|]. eapply E_act_ok.
  - apply E_choice. eapply C_ok. apply E_seq.
    eapply S_ok; [exact (char_lit_ok 34 44 (content ++ 34 :: t) o es [] ltac:(unfold ascii; lia) Hn)|].
    eapply S_ok; [apply E_star; exact (str_loop content t (o + 1) es [] [] Hrun Ht)|].
    eapply S_ok; [exact (char_lit_ok 34 44 t _ es [] ltac:(unfold ascii; lia) Ht)|].
    apply S_nil.
  - unfold finish_action. cbn [rest off]. unfold run_action, run_action_opt.
    replace (o + 1 + Z.of_nat (List.length content) + 1 - o) with (Z.of_nat (List.length (34 :: content ++ [34])))
      by (cbn [List.length]; rewrite app_length; cbn [List.length]; lia).
    change (34 :: content ++ 34 :: t) with ((34 :: content) ++ 34 :: t).
    replace ((34 :: content) ++ 34 :: t) with ((34 :: content ++ [34]) ++ t)
      by (cbn [app]; rewrite <- app_assoc; reflexivity).
    rewrite takeZ_app_exact, (literal_value_plain content Hrun). reflexivity.
Qed.

(** ConstValue (30) on a plain string literal *)
Lemma const_value_str : forall content t cr o es fr,
  run_of p_strch content -> ascii_next t ->
  evals (CRef 30) cr (st_of (34 :: content ++ 34 :: t) o es) fr
        (Done true (VStr content) (st_of t (o + 1 + Z.of_nat (List.length content) + 1) es) fr).
Proof.
  intros content t cr o es fr Hrun Ht. destruct const_shapes as (_ & H30 & _).
  eapply E_ref; [exact H30|]. apply E_choice. eapply C_ok. exact (literal_rule content t 30 o es [] Hrun Ht).
Qed.

(** ** Const (6):  const g1 type name g2 = g3 value g4 LF *)
Inductive cv_spec := CV_int (z : Z) | CV_str (content : bytes).
Definition render_cv (v : cv_spec) (more : bytes) : bytes :=
  match v with CV_int z => render_int z ++ more | CV_str c => 34 :: c ++ 34 :: more end.
Definition cv_ok (v : cv_spec) : Prop := match v with CV_int z => int64 z | CV_str c => run_of p_strch c end.
Definition cv_val (v : cv_spec) : val := match v with CV_int z => VInt z | CV_str c => VStr c end.
Definition cv_of (v : cv_spec) : cvalue := match v with CV_int z => CInt z | CV_str c => CStr c end.

Lemma cv_of_val : forall v, cvalue_of (cv_val v) = cv_of v.
Proof. intros [z|c]; reflexivity. Qed.

(** what follows a constant value here: blanks, then a line break *)
Lemma const_value_rule : forall v g x cr o es fr,
  cv_ok v -> run_of p_blank g ->
  exists o', evals (CRef 30) cr (st_of (render_cv v (g ++ 10 :: x)) o es) fr
                   (Done true (cv_val v) (st_of (g ++ 10 :: x) o' es) fr).
Proof.
  intros [z|c] g x cr o es fr Hv Hg; cbn [render_cv cv_ok cv_val] in *; eexists.
  - refine (const_value_int z (g ++ 10 :: x) cr o es fr Hv _ _).
    + apply blank_led_stops; [exact Hg | exact blank_not_digit | split; [unfold ascii; lia | reflexivity]].
    + destruct g as [|d g']; cbn [app]; [split; [unfold ascii; lia | repeat constructor; lia]|].
      inversion Hg as [|? ? [Hd Hp] _]; subst. split; [exact Hd|].
      destruct (p_blank_vals d Hp) as [->|[->| ->]]; repeat constructor; lia.
  - refine (const_value_str c (g ++ 10 :: x) cr o es fr Hv _).
    apply (run_app_ascii_next p_blank g _ Hg). cbn. unfold ascii; lia.
Qed.

Lemma render_cv_head : forall v more, cv_ok v -> head_not [32; 9; 13; 47] (render_cv v more).
Proof.
  intros [z|c] more Hv; cbn [render_cv cv_ok] in *; [exact (render_int_head z more Hv)|].
  split; [unfold ascii; lia | repeat constructor; lia].
Qed.

Record cn_spec := mk_cn { cn_g1 : bytes; cn_ty : ty_spec; cn_c : Z; cn_t : bytes; cn_g2 : bytes; cn_g3 : bytes;
                          cn_v : cv_spec; cn_g4 : bytes; cn_w : bytes }.
Definition cn_ok (d : cn_spec) : Prop :=
  run_of p_blank (cn_g1 d) /\ (ty_ok (cn_ty d) /\ ty_tight (cn_ty d)) /\ ascii (cn_c d) /\ p_start (cn_c d) = true /\ run_of p_cont (cn_t d)
  /\ run_of p_blank (cn_g2 d) /\ run_of p_blank (cn_g3 d) /\ cv_ok (cn_v d) /\ run_of p_blank (cn_g4 d)
  /\ run_of p_wsnl (cn_w d).
Definition render_cn (d : cn_spec) (more : bytes) : bytes :=
  lit_const ++ cn_g1 d
  ++ render_ty (cn_ty d) ((cn_c d :: cn_t d) ++ cn_g2 d ++ 61 :: cn_g3 d
                          ++ render_cv (cn_v d) (cn_g4 d ++ 10 :: cn_w d ++ more)).
Definition const_of (d : cn_spec) : constant :=
  mkconst None (cn_c d :: cn_t d) (ty_of (cn_ty d)) (cv_of (cn_v d)) [].

Lemma const_rule : forall d more cr o es fr,
  cn_ok d -> decl_follow more ->
  exists o', evals (CRef 6) cr (st_of (render_cn d more) o es) fr
                   (Done true (VConst (const_of d)) (st_of (cn_w d ++ more) o' es) fr).
Proof.
  intros [g1 ty c t g2 g3 v g4 w] more cr o es fr (Hg1 & [Hty Htight] & Hc & Hp & Ht & Hg2 & Hg3 & Hv & Hg4 & Hw) Hm.
  unfold render_cn, const_of. cbn [cn_g1 cn_ty cn_c cn_t cn_g2 cn_g3 cn_v cn_g4 cn_w] in *.
  destruct const_shapes as (H6 & _).
  set (tail := g4 ++ 10 :: w ++ more).
  set (valued := render_cv v tail).
  set (eqd := g2 ++ 61 :: g3 ++ valued).
  set (named := (c :: t) ++ eqd).
  set (typed := render_ty ty named).
  assert (Hnamed : head_not [32; 9; 13; 47; 40] named) by exact (start_head_not c _ Hc Hp).
  assert (Hvalued : head_not [32; 9; 13; 47] valued) by exact (render_cv_head v tail Hv).
  destruct (eq_facts (g3 ++ valued)) as (He61 & Hec & Heh).
  assert (Hstop : stops p_cont eqd).
  { unfold eqd. apply blank_led_stops; [exact Hg2 | exact blank_not_cont | split; assumption]. }
  destruct (field_type_rule ty Hty named 6%nat (o + Z.of_nat (List.length lit_const) + Z.of_nat (List.length g1)) es []
                            Hnamed (ty_tight_sep ty named Hty Htight)) as [o1 Htyr].
  destruct (const_value_rule v g4 (w ++ more) 6
              (o1 + Z.of_nat (@List.length Z []) + Z.of_nat (List.length (c :: t)) + Z.of_nat (List.length g2) + 1
               + Z.of_nat (List.length g3)) es [] Hv Hg4) as [o2 Hval].
  eexists. eapply E_ref; [exact H6|]. eapply E_act_ok.
  - apply E_seq.
    eapply S_ok; [refine (lit_here lit_const _ 6 o es [] ltac:(all_ascii) _);
                  exact (run_app_ascii_next p_blank g1 typed Hg1 (ty_ascii_next ty named Hty))|].
    eapply S_ok; [refine (gap_inline g1 typed 6 _ es _ Hg1 _); apply ty_head_not; [exact Hty | not_ty_start]|].
    eapply S_ok; [apply E_label_ok with (fr1 := []); exact Htyr|].
    eapply S_ok; [refine (gap_inline [] named 6 o1 es _ ltac:(constructor) _); sub_head Hnamed|].
    eapply S_ok; [apply E_label_ok with (fr1 := []); apply (E_of_bound (List.length t + 12)); intros f Hf;
                  exact (identifier_rule c t eqd f 6%nat _ es [] Hc Hp Ht Hstop Hf)|].
    eapply S_ok; [exact (gap_inline g2 (61 :: g3 ++ valued) 6 _ es _ Hg2 Heh)|].
    eapply S_ok; [refine (eq_lit_ok 6 (g3 ++ valued) _ es _ _);
                  exact (run_app_ascii_next p_blank g3 valued Hg3 (head_not_ascii_next _ _ Hvalued))|].
    eapply S_ok; [exact (gap_inline g3 valued 6 _ es _ Hg3 Hvalued)|].
    eapply S_ok; [apply E_label_ok with (fr1 := []); exact Hval|].
    eapply S_ok; [exact (gap_inline g4 (10 :: w ++ more) 6 o2 es _ Hg4 (nl_head_not _ [32; 9; 13; 47] ltac:(repeat constructor; lia)))|].
    eapply S_ok; [exact (anns_opt_nil 6 (10 :: w ++ more) _ es _ (nl_head_not _ [40] ltac:(repeat constructor; lia)))|].
    eapply S_ok; [exact (eos_newline w more 6 _ es _ Hw Hm)|].
    apply S_nil.
  - unfold finish_action, run_action, run_action_opt.
    cbn [fget find fst snd String.eqb Ascii.eqb Bool.eqb as_ident as_type to_anns obind].
    rewrite cv_of_val. reflexivity.
Qed.

(** ** Statement (2) on a const declaration *)
Lemma statement_const : forall d more cr o es fr,
  cn_ok d -> decl_follow more ->
  exists o', evals (CRef 2) cr (st_of (render_cn d more) o es) fr
                   (Done true (VWrapper None (VConst (const_of d))) (st_of (cn_w d ++ more) o' es) fr).
Proof.
  intros d more cr o es fr Hd Hm.
  destruct shapes as (_ & H2 & H3 & _).
  destruct keyword_rules as (K4 & K5 & _).
  destruct (const_rule d more 3 o es [] Hd Hm) as [o' Hcn].
  exists o'.
  assert (Hk : forall c, 99 <> c -> head_not [c] (render_cn d more)).
  { intros c Hne. unfold render_cn, lit_const. cbn [app]. split; [unfold ascii; lia | repeat constructor; exact Hne]. }
  eapply E_ref; [exact H2|]. eapply E_act_ok.
  - apply E_seq.
    eapply S_ok; [exact (doc_opt_nil 2 _ o es [] (Hk 47 ltac:(lia)))|].
    eapply S_ok.
    { apply E_label_ok with (fr1 := []). eapply E_ref; [exact H3|]. apply E_choice.
      eapply C_next; [exact (keyword_rule_fails 4 _ _ 3 _ o es [] K4 (Hk 105 ltac:(lia)))|].
      eapply C_next; [exact (keyword_rule_fails 5 _ _ 3 _ o es [] K5 (Hk 110 ltac:(lia)))|].
      eapply C_ok. exact Hcn. }
    apply S_nil.
  - reflexivity.
Qed.
