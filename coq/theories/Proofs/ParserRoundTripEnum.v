(** Round trip for enum declarations (every separator style, explicit and implicit values, blanks
    and line breaks anywhere the grammar allows them), composed with the enum-numbering theorem,
    and for files that mix enums and typedefs of base types: C10 stage 5, continued. *)
From Coq Require Import ZArith List Bool Arith Lia String.
From FV Require Import Model.PegSyntax Model.Peg Model.PegWf Model.ParserStrings Model.ParserAst
     Model.ParserActions Model.Parser Proofs.PegProofs Proofs.ParserProofs Proofs.ParserLexProofs
     Proofs.ParserEvals Proofs.ParserRoundTrip.
Import ListNotations.
Local Open Scope Z_scope.

Definition lit_enum : list Z := [101; 110; 117; 109].
Definition ev_doc_opt : cexpr action := CLabel "docstr" (COpt (CSeq [CRef 50; CRef 55])).

Lemma enum_shapes :
  nth_error rules 7 = Some (CAct AEnum1 (CSeq [CLit lit_enum; CRef 56; CLabel "name" (CRef 45); CRef 55;
                                               CLit [123]; CRef 55;
                                               CLabel "values" (CStar (CSeq [CRef 8; CRef 55]));
                                               CLit [125]; CRef 56; CLabel "annotations" (COpt (CRef 31));
                                               CRef 60]))
  /\ nth_error rules 8 = Some (CAct AEnumValue1 (CSeq [ev_doc_opt; CLabel "name" (CRef 45); CRef 56;
                                                       CLabel "value" (COpt (CSeq [CLit [61]; CRef 56; CRef 34]));
                                                       CRef 56; CLabel "annotations" (COpt (CRef 31));
                                                       COpt (CRef 46)]))
  /\ class_rule 46 (fun c => in_chars c [44; 59] || in_ranges c []).
Proof.
  split; [vm_compute; reflexivity|]. split; [vm_compute; reflexivity|].
  eexists; eexists; split; [vm_compute; reflexivity | vm_compute; reflexivity].
Qed.

(** ** more rules of the calculus *)
Lemma E_plus_fail : forall e1 cr st fr v st1 fr1,
  evals e1 cr st [] (Done false v st1 fr1) -> evals (CPlus e1) cr st fr (Done false VNil st1 fr).
Proof.
  intros e1 cr st fr v st1 fr1 [n H]. exists (S n). intros f Hf. peel f Hf. rewrite H by lia. reflexivity.
Qed.

(** Identifier (45) fails in place when the next character cannot start an identifier *)
Definition not_start (s : bytes) : Prop :=
  match s with [] => True | d :: _ => ascii d /\ p_start d = false end.

Lemma identifier_fails : forall cr s o es fr,
  not_start s -> evals (CRef 45) cr (st_of s o es) fr (Done false VNil (st_of s o es) fr).
Proof.
  intros cr s o es fr Hs. destruct identifier_rule_shape as (_ & _ & _ & HI & _ & _).
  destruct start_matches as (_ & Sn & Se).
  assert (Hc : evals (CChoice [CRef id_Letter; CLit [95]]) id_Identifier (st_of s o es) []
                     (Done false VNil (st_of s o es) [])).
  { apply (E_of_bound 3). intros f Hf. destruct s as [|d s].
    - exact (Se f id_Identifier o es [] Hf).
    - destruct Hs as [Hd Hp]. exact (Sn f id_Identifier d s o es [] Hf Hd Hp). }
  eapply E_ref; [exact HI|]. apply E_act_fail. apply E_seq.
  exact (S_fail id_Identifier _ _ _ _ _ _ _ _ _ (E_plus_fail _ _ _ [] _ _ _ Hc)).
Qed.

(** ListSeparator (46) *)
Definition p_sep (c : Z) : bool := in_chars c [44; 59] || in_ranges c [].
Lemma sep_matches : matches_char (CRef 46) p_sep 2.
Proof. destruct enum_shapes as (_ & _ & H46). exact (class_rule_matches 46 _ H46). Qed.

Lemma sep_opt_none : forall cr s o es fr,
  head_not [44; 59] s -> evals (COpt (CRef 46)) cr (st_of s o es) fr (Done true VNil (st_of s o es) fr).
Proof.
  intros cr s o es fr Hs. destruct sep_matches as (_ & Sn & Se). eapply E_opt.
  apply (E_of_bound 2). intros f Hf. destruct s as [|d s].
  - exact (Se f cr o es [] Hf).
  - destruct Hs as [Hd Hf2]. refine (Sn f cr d s o es [] Hf Hd _).
    unfold p_sep. cbn [in_chars in_ranges]. inversion Hf2 as [|? ? H44 Hr]; subst. inversion Hr as [|? ? H59 _]; subst.
    destruct (Z.eqb_spec 44 d); [lia|]. destruct (Z.eqb_spec 59 d); [lia|]. reflexivity.
Qed.

Lemma sep_opt_some : forall c cr s o es fr,
  (c = 44 \/ c = 59) -> ascii_next s ->
  evals (COpt (CRef 46)) cr (st_of (c :: s) o es) fr (Done true (VBytes [c]) (st_of s (o + 1) es) fr).
Proof.
  intros c cr s o es fr Hc Hs. destruct sep_matches as (Sm & _ & _). eapply E_opt.
  apply (E_of_bound 2). intros f Hf.
  refine (Sm f cr c s o es [] Hf _ _ Hs); destruct Hc as [-> | ->]; first [unfold ascii; lia | reflexivity].
Qed.

(** splitting a run of blanks and line breaks at the end of its leading blanks *)
Lemma split_wsnl : forall w, run_of p_wsnl w ->
  exists b w', w = b ++ w' /\ run_of p_blank b /\ run_of p_wsnl w'
               /\ match w' with [] => True | d :: _ => d = 10 end.
Proof.
  induction w as [|c w IH]; intros Hw.
  - exists [], []. repeat split; constructor.
  - inversion Hw as [|? ? [Hc Hp] Hw']; subst. destruct (p_blank c) eqn:Hb.
    + destruct (IH Hw') as (b & w' & -> & H1 & H2 & H3).
      exists (c :: b), w'. repeat split; try assumption. constructor; [split; assumption | assumption].
    + exists [], (c :: w). repeat split; try assumption; [constructor|].
      unfold p_wsnl in Hp. rewrite Hb in Hp. cbn [orb] in Hp. apply Z.eqb_eq in Hp. exact Hp.
Qed.

(** ** one enum value *)
(** the four spellings:  name W | name g sep W | name g1 = g z W | name g1 = g z g2 sep W  *)
Inductive ev_tail :=
| T_plain (W : bytes)
| T_sep (g : bytes) (sep : Z) (W : bytes)
| T_val (g1 g : bytes) (z : Z) (W : bytes)
| T_val_sep (g1 g : bytes) (z : Z) (g2 : bytes) (sep : Z) (W : bytes).
Record ev_spec := mk_ev { v_c : Z; v_t : bytes; v_tail : ev_tail }.

Definition tail_text (t : ev_tail) : bytes :=
  match t with
  | T_plain W => W
  | T_sep g sep W => g ++ sep :: W
  | T_val g1 g z W => g1 ++ 61 :: g ++ render_int z ++ W
  | T_val_sep g1 g z g2 sep W => g1 ++ 61 :: g ++ render_int z ++ g2 ++ sep :: W
  end.
Definition render_ev (v : ev_spec) (more : bytes) : bytes := (v_c v :: v_t v) ++ tail_text (v_tail v) ++ more.

Definition int64 (z : Z) : Prop := - 9223372036854775808 <= z <= 9223372036854775807.
Definition is_sep (c : Z) : Prop := c = 44 \/ c = 59.

(** [more]: what follows the value (the next value, or the closing brace) *)
Definition tail_ok (t : ev_tail) (more : bytes) : Prop :=
  match t with
  | T_plain W => run_of p_wsnl W /\ (W = [] -> stops p_cont more)
  | T_sep g sep W => run_of p_blank g /\ is_sep sep /\ run_of p_wsnl W
  | T_val g1 g z W => run_of p_blank g1 /\ run_of p_blank g /\ int64 z /\ run_of p_wsnl W
  | T_val_sep g1 g z g2 sep W =>
    run_of p_blank g1 /\ run_of p_blank g /\ int64 z /\ run_of p_blank g2 /\ is_sep sep /\ run_of p_wsnl W
  end.
Definition ev_ok (v : ev_spec) (more : bytes) : Prop :=
  ascii (v_c v) /\ p_start (v_c v) = true /\ run_of p_cont (v_t v) /\ tail_ok (v_tail v) more.

Definition declared (t : ev_tail) : option Z :=
  match t with T_plain _ | T_sep _ _ _ => None | T_val _ _ z _ | T_val_sep _ _ z _ _ _ => Some z end.
Definition ev_pair (v : ev_spec) : enum_value * bool :=
  (mkev None (v_c v :: v_t v) (match declared (v_tail v) with Some z => z | None => -1 end) [],
   match declared (v_tail v) with Some _ => true | None => false end).
Definition ev_val (v : ev_spec) : val := VList [VEnumValue (fst (ev_pair v)); VBool (snd (ev_pair v))].

(** ** facts about what may follow a value: the next value's name or the closing brace *)
Definition brace_or_name (more : bytes) : Prop :=
  exists d r, more = d :: r /\ ascii d /\ (d = 125 \/ p_start d = true).

Definition big : list Z := [32; 9; 13; 47; 35; 40; 61; 44; 59].

Lemma more_big : forall more, brace_or_name more -> head_not (10 :: big) more.
Proof.
  intros more (d & r & -> & Hd & Hk). split; [exact Hd|]. unfold big.
  destruct Hk as [-> | Hp]; [repeat constructor; lia|]. apply p_start_range in Hp. repeat constructor; lia.
Qed.

Lemma more_not_digit : forall more, brace_or_name more -> stops p_digit more.
Proof.
  intros more (d & r & -> & Hd & Hk). split; [exact Hd|]. unfold p_digit. cbn [in_chars in_ranges orb].
  destruct Hk as [-> | Hp]; [reflexivity|]. apply p_start_range in Hp.
  destruct (Z.leb_spec 48 d); destruct (Z.leb_spec d 57); cbn [andb]; try reflexivity; lia.
Qed.

(** a line-break-led (or empty) run followed by [more] *)
Definition nl_led (w : bytes) : Prop := match w with [] => True | d :: _ => d = 10 end.

Lemma nl_led_big : forall w more cs, nl_led w -> run_of p_wsnl w -> brace_or_name more -> incl cs big ->
  head_not cs (w ++ more).
Proof.
  intros w more cs Hl Hw Hm Hi. destruct w as [|d w]; cbn [app].
  - eapply head_not_sub; [|exact (more_big more Hm)]. intros x Hx. right. apply Hi. exact Hx.
  - cbn in Hl. subst d. split; [unfold ascii; lia|]. rewrite Forall_forall. intros x Hx. apply Hi in Hx.
    unfold big in Hx. cbn in Hx. intuition lia.
Qed.

Lemma nl_led_not_digit : forall w more, nl_led w -> brace_or_name more -> stops p_digit (w ++ more).
Proof.
  intros [|d w] more Hl Hm; cbn [app]; [exact (more_not_digit more Hm)|].
  cbn in Hl. subst d. split; [unfold ascii; lia | reflexivity].
Qed.

Lemma blank_led_stops : forall (p : Z -> bool) b x, run_of p_blank b ->
  (forall d, p_blank d = true -> p d = false) -> stops p x -> stops p (b ++ x).
Proof.
  intros p [|d b] x Hb Hp Hx; cbn [app]; [exact Hx|].
  inversion Hb as [|? ? [Hd Hpd] _]; subst. split; [exact Hd | exact (Hp d Hpd)].
Qed.

Lemma blank_not_cont : forall d, p_blank d = true -> p_cont d = false.
Proof. intros d H. destruct (p_blank_vals d H) as [->|[->| ->]]; reflexivity. Qed.
Lemma blank_not_digit : forall d, p_blank d = true -> p_digit d = false.
Proof. intros d H. destruct (p_blank_vals d H) as [->|[->| ->]]; reflexivity. Qed.

Lemma render_int_head : forall z x, int64 z -> head_not [32; 9; 13; 47] (render_int z ++ x).
Proof.
  intros z x Hz. unfold render_int, render_nat, int64 in *.
  assert (Hpow : 10 ^ Z.of_nat 20 = 100000000000000000000) by reflexivity.
  destruct (Z.ltb_spec z 0).
  - cbn [app]. split; [unfold ascii; lia | repeat constructor; lia].
  - destruct (render_nat_fuel_head 20 z [] ltac:(lia) ltac:(lia)) as (d & t & Hr & Hd). rewrite Hr. cbn [app].
    split; [unfold ascii; lia | repeat constructor; lia].
Qed.

Lemma eq_lit_ok : forall cr s o es fr, ascii_next s ->
  evals (CLit [61]) cr (st_of (61 :: s) o es) fr (Done true (VBytes [61]) (st_of s (o + 1) es) fr).
Proof.
  intros cr s o es fr Hs.
  assert (Hok : lit_ascii_ok [61] (61 :: s)) by (split; [unfold ascii; lia | intros _; exact Hs]).
  pose proof (E_lit_at [61] cr (61 :: s) o es fr Hok ltac:(repeat constructor; unfold ascii; lia)) as H.
  cbn [has_prefix List.length skipn] in H. rewrite Z.eqb_refl in H. cbn [andb] in H. rewrite takeZ_1 in H. exact H.
Qed.

(** the optional "= value" part when there is none *)
Lemma value_opt_none : forall cr s o es fr,
  head_not [61] s ->
  evals (CLabel "value" (COpt (CSeq [CLit [61]; CRef 56; CRef 34]))) cr (st_of s o es) fr
        (Done true VNil (st_of s o es) (("value"%string, VNil) :: fr)).
Proof.
  intros cr s o es fr Hs. apply E_label_ok with (fr1 := []). eapply E_opt. apply E_seq.
  refine (S_fail cr _ _ _ _ _ _ _ _ _ (lit_fails 61 [] cr s o es [] _ Hs)). repeat constructor; unfold ascii; lia.
Qed.

(** ... and when there is one:  = g z  followed by something that is not a digit *)
Lemma value_opt_some : forall g z x cr o es fr,
  run_of p_blank g -> int64 z -> stops p_digit x ->
  evals (CLabel "value" (COpt (CSeq [CLit [61]; CRef 56; CRef 34]))) cr
        (st_of (61 :: g ++ render_int z ++ x) o es) fr
        (Done true (VList [VBytes [61]; VList (bytes_vals g); VInt z])
              (st_of x (o + 1 + Z.of_nat (List.length g) + Z.of_nat (List.length (render_int z))) es)
              (("value"%string, VList [VBytes [61]; VList (bytes_vals g); VInt z]) :: fr)).
Proof.
  intros g z x cr o es fr Hg Hz Hx. apply E_label_ok with (fr1 := []). eapply E_opt. apply E_seq.
  assert (Hh : head_not [32; 9; 13; 47] (render_int z ++ x)) by exact (render_int_head z x Hz).
  eapply S_ok; [exact (eq_lit_ok cr (g ++ render_int z ++ x) o es []
                         (run_app_ascii_next p_blank g _ Hg (head_not_ascii_next _ _ Hh)))|].
  eapply S_ok; [exact (gap_inline g (render_int z ++ x) cr _ es [] Hg Hh)|].
  eapply S_ok; [apply (E_of_bound 32); intros f Hf;
                exact (int_const_roundtrip z x f cr _ es [] Hz Hx Hf)|].
  apply S_nil.
Qed.

(** ** EnumValue (8), generically:  name g1 [= g z] g2 [sep] x  *)
Definition at_sep (sep : option Z) (x : bytes) : bytes := match sep with Some c => c :: x | None => x end.
Definition at_val (vp : option (bytes * Z)) (s2 : bytes) : bytes :=
  match vp with Some (g, z) => 61 :: g ++ render_int z ++ s2 | None => s2 end.
Definition vp_ok (vp : option (bytes * Z)) : Prop :=
  match vp with Some (g, z) => run_of p_blank g /\ int64 z | None => True end.
Definition ev_result (c : Z) (t : bytes) (vp : option (bytes * Z)) : val :=
  VList [VEnumValue (mkev None (c :: t) (match vp with Some (_, z) => z | None => -1 end) []);
         VBool (match vp with Some _ => true | None => false end)].

Lemma enum_value_generic : forall c t g1 vp g2 sep x cr o es fr,
  ascii c -> p_start c = true -> run_of p_cont t ->
  run_of p_blank g1 -> vp_ok vp -> run_of p_blank g2 ->
  match sep with Some s => is_sep s | None => True end ->
  stops p_cont (g1 ++ at_val vp (g2 ++ at_sep sep x)) ->
  head_not [32; 9; 13; 47] (at_val vp (g2 ++ at_sep sep x)) ->
  match vp with None => head_not [61] (g2 ++ at_sep sep x) | Some _ => stops p_digit (g2 ++ at_sep sep x) end ->
  head_not [32; 9; 13; 47; 40] (at_sep sep x) ->
  match sep with None => head_not [44; 59] x | Some _ => ascii_next x end ->
  exists o', evals (CRef 8) cr (st_of ((c :: t) ++ g1 ++ at_val vp (g2 ++ at_sep sep x)) o es) fr
                   (Done true (ev_result c t vp) (st_of x o' es) fr).
Proof.
  intros c t g1 vp g2 sep x cr o es fr Hc Hp Ht Hg1 Hvp Hg2 Hsep Hstop Hh1 Hval Hh3 Hx.
  destruct enum_shapes as (_ & H8 & _).
  assert (Hh3a : head_not [32; 9; 13; 47] (at_sep sep x)) by (eapply head_not_sub; [|exact Hh3]; intros y Hy; cbn in Hy |- *; tauto).
  assert (Hh3b : head_not [40] (at_sep sep x)) by (eapply head_not_sub; [|exact Hh3]; intros y Hy; cbn in Hy |- *; tauto).
  (* the steps after the value part are the same in all cases *)
  assert (Htail : forall o2 frv,
    exists o', seqs 8 (st_of ((c :: t) ++ g1 ++ at_val vp (g2 ++ at_sep sep x)) o es)
                    [CRef 56; CLabel "annotations" (COpt (CRef 31)); COpt (CRef 46)]
                    (st_of (g2 ++ at_sep sep x) o2 es) frv
                    []
                    (Done true (VList [VList (bytes_vals g2); VNil;
                                       match sep with Some s => VBytes [s] | None => VNil end])
                          (st_of x o' es) (("annotations"%string, VNil) :: frv))).
  { intros o2 frv. destruct sep as [s|]; cbn [at_sep] in *.
    - eexists. eapply S_ok; [exact (gap_inline g2 (s :: x) 8 o2 es frv Hg2 Hh3a)|].
      eapply S_ok; [exact (anns_opt_nil 8 (s :: x) _ es frv Hh3b)|].
      eapply S_ok; [exact (sep_opt_some s 8 x _ es _ Hsep Hx)|].
      apply S_nil.
    - eexists. eapply S_ok; [exact (gap_inline g2 x 8 o2 es frv Hg2 Hh3a)|].
      eapply S_ok; [exact (anns_opt_nil 8 x _ es frv Hh3b)|].
      eapply S_ok; [exact (sep_opt_none 8 x _ es _ Hx)|].
      apply S_nil. }
  assert (Hdoc : head_not [47] ((c :: t) ++ g1 ++ at_val vp (g2 ++ at_sep sep x))).
  { eapply head_not_sub; [|exact (start_head_not c _ Hc Hp)]. intros y Hy; cbn in Hy |- *; tauto. }
  destruct vp as [[g z]|]; cbn [at_val vp_ok] in *.
  - destruct Hvp as [Hg Hz].
    destruct (Htail (o + Z.of_nat (List.length (c :: t)) + Z.of_nat (List.length g1) + 1 + Z.of_nat (List.length g)
                       + Z.of_nat (List.length (render_int z)))
                    [("value"%string, VList [VBytes [61]; VList (bytes_vals g); VInt z]);
                     ("name"%string, VIdent (c :: t)); ("docstr"%string, VNil)]) as [o' Hseq].
    exists o'. eapply E_ref; [exact H8|]. eapply E_act_ok.
    + apply E_seq.
      eapply S_ok; [exact (doc_opt_nil 8 _ o es [] Hdoc)|].
      eapply S_ok; [apply E_label_ok with (fr1 := []); apply (E_of_bound (List.length t + 12)); intros f Hf;
                    exact (identifier_rule c t _ f 8 o es [] Hc Hp Ht Hstop Hf)|].
      eapply S_ok; [exact (gap_inline g1 _ 8 _ es _ Hg1 Hh1)|].
      eapply S_ok; [exact (value_opt_some g z (g2 ++ at_sep sep x) 8 _ es _ Hg Hz Hval)|].
      (* the remaining three steps, with the accumulated values in front *)
      destruct Hseq as [n Hn]. exists n. intros f Hf. specialize (Hn f Hf).
      revert Hn. generalize (ev f). intros evf Hn.
      cbn [seq_go] in Hn |- *.
      destruct (evf (CRef 56) 8%nat _ _) as [[|] v1 st1 fr1| |]; try discriminate Hn; [].
      destruct (evf (CLabel "annotations" (COpt (CRef 31))) 8%nat st1 fr1) as [[|] v2 st2 fr2| |]; try discriminate Hn; [].
      destruct (evf (COpt (CRef 46)) 8%nat st2 fr2) as [[|] v3 st3 fr3| |]; try discriminate Hn; [].
      cbn [rev app] in Hn |- *. injection Hn as Hv Hst Hfr. subst.
      reflexivity.
    + reflexivity.
  - destruct (Htail (o + Z.of_nat (List.length (c :: t)) + Z.of_nat (List.length g1))
                    [("value"%string, VNil); ("name"%string, VIdent (c :: t)); ("docstr"%string, VNil)]) as [o' Hseq].
    exists o'. eapply E_ref; [exact H8|]. eapply E_act_ok.
    + apply E_seq.
      eapply S_ok; [exact (doc_opt_nil 8 _ o es [] Hdoc)|].
      eapply S_ok; [apply E_label_ok with (fr1 := []); apply (E_of_bound (List.length t + 12)); intros f Hf;
                    exact (identifier_rule c t _ f 8 o es [] Hc Hp Ht Hstop Hf)|].
      eapply S_ok; [exact (gap_inline g1 _ 8 _ es _ Hg1 Hh1)|].
      eapply S_ok; [exact (value_opt_none 8 (g2 ++ at_sep sep x) _ es _ Hval)|].
      destruct Hseq as [n Hn]. exists n. intros f Hf. specialize (Hn f Hf).
      revert Hn. generalize (ev f). intros evf Hn.
      cbn [seq_go] in Hn |- *.
      destruct (evf (CRef 56) 8%nat _ _) as [[|] v1 st1 fr1| |]; try discriminate Hn; [].
      destruct (evf (CLabel "annotations" (COpt (CRef 31))) 8%nat st1 fr1) as [[|] v2 st2 fr2| |]; try discriminate Hn; [].
      destruct (evf (COpt (CRef 46)) 8%nat st2 fr2) as [[|] v3 st3 fr3| |]; try discriminate Hn; [].
      cbn [rev app] in Hn |- *. injection Hn as Hv Hst Hfr. subst.
      reflexivity.
    + reflexivity.
Qed.

Lemma sep_facts : forall s x, is_sep s -> ascii s /\ p_cont s = false /\ p_digit s = false
  /\ head_not [32; 9; 13; 47; 40] (s :: x) /\ head_not [61] (s :: x).
Proof.
  intros s x [-> | ->]; (split; [unfold ascii; lia|]); (split; [reflexivity|]); (split; [reflexivity|]);
    (split; (split; [unfold ascii; lia | repeat constructor; lia])).
Qed.

Lemma eq_facts : forall x, ascii 61 /\ p_cont 61 = false /\ head_not [32; 9; 13; 47] (61 :: x).
Proof. intros x. split; [unfold ascii; lia|]. split; [reflexivity|]. split; [unfold ascii; lia | repeat constructor; lia]. Qed.

Lemma stops_of_head_not_cont : forall w more, nl_led w -> brace_or_name more -> (w = [] -> stops p_cont more) ->
  stops p_cont (w ++ more).
Proof.
  intros [|d w] more Hl Hm Hs; cbn [app]; [exact (Hs eq_refl)|].
  cbn in Hl. subst d. split; [unfold ascii; lia | reflexivity].
Qed.

Lemma more_ascii_next : forall more, brace_or_name more -> ascii_next more.
Proof. intros more (d & r & -> & Hd & _). exact Hd. Qed.

Lemma wsnl_ascii_next : forall W more, run_of p_wsnl W -> brace_or_name more -> ascii_next (W ++ more).
Proof. intros W more HW Hm. exact (run_app_ascii_next p_wsnl W more HW (more_ascii_next more Hm)). Qed.

(** EnumValue on each of the four spellings; [W'] is what is left for the loop's __ to skip *)
Lemma enum_value_rule : forall v more cr o es fr,
  ev_ok v more -> brace_or_name more ->
  exists o' W', run_of p_wsnl W'
    /\ evals (CRef 8) cr (st_of (render_ev v more) o es) fr (Done true (ev_val v) (st_of (W' ++ more) o' es) fr).
Proof.
  intros [c t tl] more cr o es fr (Hc & Hp & Ht & Htl) Hm. unfold render_ev, ev_val, ev_pair. cbn [v_c v_t v_tail] in *.
  assert (Hsub : forall cs, incl cs big -> forall W', nl_led W' -> run_of p_wsnl W' -> head_not cs (W' ++ more)).
  { intros cs Hi W' Hl HW'. exact (nl_led_big W' more cs Hl HW' Hm Hi). }
  assert (I4 : incl [32; 9; 13; 47] big) by (intros y Hy; unfold big; cbn in Hy |- *; tauto).
  assert (I5 : incl [32; 9; 13; 47; 40] big) by (intros y Hy; unfold big; cbn in Hy |- *; tauto).
  assert (I61 : incl [61] big) by (intros y Hy; unfold big; cbn in Hy |- *; tauto).
  assert (Isep : incl [44; 59] big) by (intros y Hy; unfold big; cbn in Hy |- *; tauto).
  destruct tl as [W | g sep W | g1 g z W | g1 g z g2 sep W]; cbn [tail_ok tail_text declared fst snd] in *.
  - (* name W *)
    destruct Htl as [HW Hlast]. destruct (split_wsnl W HW) as (b & W' & -> & Hb & HW' & Hnl).
    destruct (enum_value_generic c t b None [] None (W' ++ more) cr o es fr Hc Hp Ht Hb I ltac:(constructor) I) as [o' He];
      cbn [at_val at_sep app].
    + destruct b as [|d b']; cbn [app].
      * destruct W' as [|d' W'']; cbn [app]; [exact (Hlast eq_refl)|].
        cbn in Hnl. subst d'. split; [unfold ascii; lia | reflexivity].
      * inversion Hb as [|? ? [Hd Hpd] _]; subst. split; [exact Hd | exact (blank_not_cont d Hpd)].
    + exact (Hsub _ I4 W' Hnl HW').
    + exact (Hsub _ I61 W' Hnl HW').
    + exact (Hsub _ I5 W' Hnl HW').
    + exact (Hsub _ Isep W' Hnl HW').
    + exists o', W'. split; [exact HW'|]. cbn [at_val at_sep app] in He.
      rewrite <- app_assoc. exact He.
  - (* name g sep W *)
    destruct Htl as (Hg & Hsep & HW). destruct (sep_facts sep (W ++ more) Hsep) as (Hsa & Hsc & Hsd & Hs5 & Hs61).
    destruct (enum_value_generic c t g None [] (Some sep) (W ++ more) cr o es fr Hc Hp Ht Hg I ltac:(constructor) Hsep) as [o' He];
      cbn [at_val at_sep app].
    + apply blank_led_stops; [exact Hg | exact blank_not_cont | split; assumption].
    + eapply head_not_sub; [|exact Hs5]. intros y Hy; cbn in Hy |- *; tauto.
    + exact Hs61.
    + exact Hs5.
    + exact (wsnl_ascii_next W more HW Hm).
    + exists o', W. split; [exact HW|]. cbn [at_val at_sep app] in He.
      rewrite <- app_assoc. cbn [app]. exact He.
  - (* name g1 = g z W *)
    destruct Htl as (Hg1 & Hg & Hz & HW). destruct (split_wsnl W HW) as (b & W' & -> & Hb & HW' & Hnl).
    destruct (eq_facts (g ++ render_int z ++ b ++ W' ++ more)) as (He61 & Hec & Heh).
    destruct (enum_value_generic c t g1 (Some (g, z)) b None (W' ++ more) cr o es fr Hc Hp Ht Hg1 (conj Hg Hz) Hb I) as [o' He];
      cbn [at_val at_sep app].
    + apply blank_led_stops; [exact Hg1 | exact blank_not_cont | split; assumption].
    + exact Heh.
    + apply blank_led_stops; [exact Hb | exact blank_not_digit | exact (nl_led_not_digit W' more Hnl Hm)].
    + exact (Hsub _ I5 W' Hnl HW').
    + exact (Hsub _ Isep W' Hnl HW').
    + exists o', W'. split; [exact HW'|]. cbn [at_val at_sep app] in He.
      repeat rewrite <- app_assoc. cbn [app]. repeat rewrite <- app_assoc. exact He.
  - (* name g1 = g z g2 sep W *)
    destruct Htl as (Hg1 & Hg & Hz & Hg2 & Hsep & HW).
    destruct (sep_facts sep (W ++ more) Hsep) as (Hsa & Hsc & Hsd & Hs5 & Hs61).
    destruct (eq_facts (g ++ render_int z ++ g2 ++ sep :: W ++ more)) as (He61 & Hec & Heh).
    destruct (enum_value_generic c t g1 (Some (g, z)) g2 (Some sep) (W ++ more) cr o es fr Hc Hp Ht Hg1 (conj Hg Hz) Hg2 Hsep) as [o' He];
      cbn [at_val at_sep app].
    + apply blank_led_stops; [exact Hg1 | exact blank_not_cont | split; assumption].
    + exact Heh.
    + apply blank_led_stops; [exact Hg2 | exact blank_not_digit | split; assumption].
    + exact Hs5.
    + exact (wsnl_ascii_next W more HW Hm).
    + exists o', W. split; [exact HW|]. cbn [at_val at_sep app] in He.
      repeat rewrite <- app_assoc. cbn [app]. repeat rewrite <- app_assoc. cbn [app]. exact He.
Qed.

(** ** the values of an enum:  (EnumValue __)*  up to the closing brace *)
Fixpoint render_evs (vs : list ev_spec) (tail : bytes) : bytes :=
  match vs with [] => tail | v :: r => render_ev v (render_evs r tail) end.

(** a value spelled  name  with nothing after it must be the last one (otherwise it would fuse
    with the next name) *)
Definition tail_ok_l (t : ev_tail) (last : bool) : Prop :=
  match t with
  | T_plain W => run_of p_wsnl W /\ (W = [] -> last = true)
  | other => tail_ok other []
  end.
Definition ev_ok_l (v : ev_spec) (last : bool) : Prop :=
  ascii (v_c v) /\ p_start (v_c v) = true /\ run_of p_cont (v_t v) /\ tail_ok_l (v_tail v) last.
Fixpoint evs_ok (vs : list ev_spec) : Prop :=
  match vs with
  | [] => True
  | v :: r => ev_ok_l v (match r with [] => true | _ => false end) /\ evs_ok r
  end.

Lemma ev_ok_of_l : forall v last more, ev_ok_l v last -> (last = true -> stops p_cont more) -> ev_ok v more.
Proof.
  intros [c t tl] last more (Hc & Hp & Ht & Htl) Hl. unfold ev_ok. cbn [v_c v_t v_tail] in *.
  split; [exact Hc|]. split; [exact Hp|]. split; [exact Ht|].
  destruct tl; cbn [tail_ok_l tail_ok] in *; try exact Htl.
  destruct Htl as [HW Hlast]. split; [exact HW|]. intros HWn. exact (Hl (Hlast HWn)).
Qed.

Lemma render_evs_head : forall vs x, evs_ok vs -> brace_or_name (render_evs vs (125 :: x)).
Proof.
  intros [|v r] x Hok; cbn [render_evs].
  - exists 125, x. split; [reflexivity|]. split; [unfold ascii; lia | left; reflexivity].
  - destruct Hok as [(Hc & Hp & _) _]. unfold render_ev. cbn [app].
    eexists _, _. split; [reflexivity|]. split; [exact Hc | right; exact Hp].
Qed.

Lemma brace_stops_cont : forall x, stops p_cont (125 :: x).
Proof. intros. split; [unfold ascii; lia | reflexivity]. Qed.

Lemma enum_value_fails_at_brace : forall x cr o es fr,
  evals (CRef 8) cr (st_of (125 :: x) o es) fr (Done false VNil (st_of (125 :: x) o es) fr).
Proof.
  intros x cr o es fr. destruct enum_shapes as (_ & H8 & _).
  assert (Hid : evals (CLabel "name" (CRef 45)) 8 (st_of (125 :: x) o es) [("docstr"%string, VNil)]
                      (Done false VNil (st_of (125 :: x) o es) [("docstr"%string, VNil)])).
  { apply E_label_fail with (fr1 := []). apply identifier_fails. split; [unfold ascii; lia | reflexivity]. }
  eapply E_ref; [exact H8|]. apply E_act_fail. apply E_seq.
  eapply S_ok; [refine (doc_opt_nil 8 (125 :: x) o es [] _); split; [unfold ascii; lia | repeat constructor; lia]|].
  exact (S_fail 8 _ _ _ _ _ _ _ _ _ Hid).
Qed.

Lemma values_loop : forall vs x o es fr acc,
  evs_ok vs ->
  exists o' lvs,
    map first_of lvs = map (fun v => Some (ev_val v)) vs
    /\ loops (CSeq [CRef 8; CRef 55]) 7 (st_of (render_evs vs (125 :: x)) o es) fr acc
             (Done true (VList (rev acc ++ lvs)) (st_of (125 :: x) o' es) fr).
Proof.
  induction vs as [|v r IH]; intros x o es fr acc Hok.
  - exists o, []. split; [reflexivity|]. cbn [render_evs]. rewrite app_nil_r.
    eapply L_stop. apply E_seq.
    exact (S_fail 7 _ _ _ _ _ _ _ _ _ (enum_value_fails_at_brace x 7 o es [])).
  - destruct Hok as [Hv Hr]. cbn [render_evs].
    assert (Hmore : brace_or_name (render_evs r (125 :: x))) by exact (render_evs_head r x Hr).
    assert (Hev : ev_ok v (render_evs r (125 :: x))).
    { apply (ev_ok_of_l v _ _ Hv). intros Hl. destruct r; [apply brace_stops_cont | discriminate]. }
    destruct (enum_value_rule v (render_evs r (125 :: x)) 7 o es [] Hev Hmore) as (o1 & W' & HW' & Hval).
    assert (Hf6 : head_not [32; 9; 13; 10; 47; 35] (render_evs r (125 :: x))).
    { eapply head_not_sub; [|exact (more_big _ Hmore)]. intros y Hy; unfold big; cbn in Hy |- *; tauto. }
    destruct (IH x (o1 + Z.of_nat (List.length W')) es fr (VList [ev_val v; VList (bytes_vals W')] :: acc) Hr)
      as (o' & lvs & Hmap & Hloop).
    exists o', (VList [ev_val v; VList (bytes_vals W')] :: lvs). split.
    + cbn [map first_of as_list idx nth_error obind]. rewrite Hmap. reflexivity.
    + eapply L_step.
      * apply E_seq. eapply S_ok; [exact Hval|].
        eapply S_ok; [exact (gap_free W' _ 7 o1 es [] HW' Hf6)|]. apply S_nil.
      * cbn [rev] in Hloop. rewrite <- app_assoc in Hloop. exact Hloop.
Qed.

(** the Enum action's collection of values *)
Lemma collect_values : forall vs lvs,
  map first_of lvs = map (fun v => Some (ev_val v)) vs ->
  omap (fun v => let? x := first_of v in
                 match x with
                 | VList [VEnumValue e; VBool explicit] => Some (e, explicit)
                 | VList (VEnumValue e :: VBool explicit :: _) => Some (e, explicit)
                 | _ => None
                 end) lvs = Some (map ev_pair vs).
Proof.
  induction vs as [|v r IH]; intros [|lv lvs] Hm; try discriminate Hm; [reflexivity|].
  cbn [map] in Hm. injection Hm as Hf Hr. cbn [omap]. rewrite Hf. cbn [obind]. unfold ev_val at 1.
  rewrite (IH lvs Hr). cbn [obind map]. destruct (ev_pair v) as [e b]. cbn [fst snd]. reflexivity.
Qed.

(** ** the Enum rule (7) *)
Record en_spec := mk_en { e_g1 : bytes; e_c : Z; e_t : bytes; e_w1 : bytes; e_w2 : bytes;
                          e_vs : list ev_spec; e_g3 : bytes; e_w : bytes }.
Definition en_ok (e : en_spec) : Prop :=
  run_of p_blank (e_g1 e) /\ ascii (e_c e) /\ p_start (e_c e) = true /\ run_of p_cont (e_t e)
  /\ run_of p_wsnl (e_w1 e) /\ run_of p_wsnl (e_w2 e) /\ evs_ok (e_vs e)
  /\ run_of p_blank (e_g3 e) /\ run_of p_wsnl (e_w e)
  /\ enum_overflow (map ev_pair (e_vs e)) 0 false = None.
Definition render_enum (e : en_spec) (more : bytes) : bytes :=
  lit_enum ++ e_g1 e ++ (e_c e :: e_t e) ++ e_w1 e ++ 123 :: e_w2 e
  ++ render_evs (e_vs e) (125 :: e_g3 e ++ 10 :: e_w e ++ more).
Definition enum_of (e : en_spec) : enum :=
  mkenum None (e_c e :: e_t e) (enum_number (map ev_pair (e_vs e)) 0) [].

Lemma char_lit_ok : forall c cr s o es fr, ascii c -> ascii_next s ->
  evals (CLit [c]) cr (st_of (c :: s) o es) fr (Done true (VBytes [c]) (st_of s (o + 1) es) fr).
Proof.
  intros c cr s o es fr Hc Hs.
  assert (Hok : lit_ascii_ok [c] (c :: s)) by (split; [exact Hc | intros _; exact Hs]).
  pose proof (E_lit_at [c] cr (c :: s) o es fr Hok (Forall_cons c Hc (Forall_nil _))) as H.
  cbn [has_prefix List.length skipn] in H. rewrite Z.eqb_refl in H. cbn [andb] in H. rewrite takeZ_1 in H. exact H.
Qed.

Lemma wsnl_not_cont : forall d, p_wsnl d = true -> p_cont d = false.
Proof.
  intros d H. unfold p_wsnl in H. destruct (p_blank d) eqn:Hb; [exact (blank_not_cont d Hb)|].
  cbn [orb] in H. apply Z.eqb_eq in H. subst d. reflexivity.
Qed.

Lemma enum_rule : forall e more cr o es fr,
  en_ok e -> decl_follow more ->
  exists o', evals (CRef 7) cr (st_of (render_enum e more) o es) fr
                   (Done true (VEnum (enum_of e)) (st_of (e_w e ++ more) o' es) fr).
Proof.
  intros [g1 c t w1 w2 vs g3 w] more cr o es fr (Hg1 & Hc & Hp & Ht & Hw1 & Hw2 & Hvs & Hg3 & Hw & Hov) Hm.
  unfold render_enum, enum_of. cbn [e_g1 e_c e_t e_w1 e_w2 e_vs e_g3 e_w] in *.
  destruct enum_shapes as (H7 & _).
  set (tail := g3 ++ 10 :: w ++ more).
  set (body := render_evs vs (125 :: tail)).
  assert (Hbody : brace_or_name body) by exact (render_evs_head vs tail Hvs).
  assert (Hb6 : head_not [32; 9; 13; 10; 47; 35] body).
  { eapply head_not_sub; [|exact (more_big _ Hbody)]. intros y Hy; unfold big; cbn in Hy |- *; tauto. }
  assert (H123 : head_not [32; 9; 13; 10; 47; 35] (123 :: w2 ++ body)) by (split; [unfold ascii; lia | repeat constructor; lia]).
  assert (Hn2 : ascii_next (w2 ++ body)) by exact (run_app_ascii_next p_wsnl w2 body Hw2 (more_ascii_next body Hbody)).
  assert (Hn3 : ascii_next tail).
  { unfold tail. apply (run_app_ascii_next p_blank g3 _ Hg3). cbn. unfold ascii; lia. }
  assert (Hstop : stops p_cont (w1 ++ 123 :: w2 ++ body)).
  { destruct w1 as [|d w1']; cbn [app]; [split; [unfold ascii; lia | reflexivity]|].
    inversion Hw1 as [|? ? [Hd Hpd] _]; subst. split; [exact Hd | exact (wsnl_not_cont d Hpd)]. }
  destruct (values_loop vs tail (o + Z.of_nat (List.length lit_enum) + Z.of_nat (List.length g1)
                                   + Z.of_nat (List.length (c :: t)) + Z.of_nat (List.length w1) + 1
                                   + Z.of_nat (List.length w2)) es [] [] Hvs) as (o1 & lvs & Hmap & Hloop).
  eexists. eapply E_ref; [exact H7|]. eapply E_act_ok.
  - apply E_seq.
    (* "enum" *)
    eapply S_ok.
    { pose proof (E_lit_at lit_enum 7 (lit_enum ++ g1 ++ (c :: t) ++ w1 ++ 123 :: w2 ++ body) o es []) as H.
      unfold lit_enum in H at 2 3 4 5. cbn [app has_prefix skipn List.length lit_enum] in H.
      repeat rewrite Z.eqb_refl in H. cbn [andb] in H. apply H.
      - cbn [lit_ascii_ok lit_enum app].
        assert (Hn : ascii_next (g1 ++ (c :: t) ++ w1 ++ 123 :: w2 ++ body))
          by exact (run_app_ascii_next p_blank g1 ((c :: t) ++ w1 ++ 123 :: w2 ++ body) Hg1 Hc).
        lit_ok Hn.
      - unfold lit_enum. repeat constructor; unfold ascii; lia. }
    eapply S_ok.
    { refine (gap_inline g1 ((c :: t) ++ w1 ++ 123 :: w2 ++ body) 7 _ es _ Hg1 _).
      eapply head_not_sub; [|exact (start_head_not c _ Hc Hp)]. intros y Hy; cbn in Hy |- *; tauto. }
    eapply S_ok; [apply E_label_ok with (fr1 := []); apply (E_of_bound (List.length t + 12)); intros f Hf;
                  exact (identifier_rule c t (w1 ++ 123 :: w2 ++ body) f 7 _ es [] Hc Hp Ht Hstop Hf)|].
    eapply S_ok; [exact (gap_free w1 (123 :: w2 ++ body) 7 _ es _ Hw1 H123)|].
    eapply S_ok; [exact (char_lit_ok 123 7 (w2 ++ body) _ es _ ltac:(unfold ascii; lia) Hn2)|].
    eapply S_ok; [exact (gap_free w2 body 7 _ es _ Hw2 Hb6)|].
    eapply S_ok; [apply E_label_ok with (fr1 := []); apply E_star; exact Hloop|].
    eapply S_ok; [exact (char_lit_ok 125 7 tail _ es _ ltac:(unfold ascii; lia) Hn3)|].
    eapply S_ok; [exact (gap_inline g3 (10 :: w ++ more) 7 _ es _ Hg3 (nl_head_not _ [32; 9; 13; 47] ltac:(repeat constructor; lia)))|].
    eapply S_ok; [exact (anns_opt_nil 7 (10 :: w ++ more) _ es _ (nl_head_not _ [40] ltac:(repeat constructor; lia)))|].
    eapply S_ok; [exact (eos_newline w more 7 _ es _ Hw Hm)|].
    apply S_nil.
  - unfold finish_action, run_action, run_action_opt.
    cbn [fget find fst snd String.eqb Ascii.eqb Bool.eqb to_iface_slice as_ident to_anns obind app rev].
    rewrite (collect_values vs lvs Hmap). cbn [obind]. rewrite Hov. reflexivity.
Qed.

(** ** files that mix typedefs of base types and enums *)
Inductive decl_spec := D_typedef (d : td_spec) | D_enum (e : en_spec).
Definition decl_ok (d : decl_spec) : Prop := match d with D_typedef t => td_ok t | D_enum e => en_ok e end.
Definition render_decl (d : decl_spec) (more : bytes) : bytes :=
  match d with D_typedef t => render_one t more | D_enum e => render_enum e more end.
Definition decl_w (d : decl_spec) : bytes := match d with D_typedef t => td_w t | D_enum e => e_w e end.
Definition decl_val (d : decl_spec) : val :=
  match d with D_typedef t => VTypeDef (typedef_of t) | D_enum e => VEnum (enum_of e) end.
Fixpoint render_decls (ds : list decl_spec) : bytes :=
  match ds with [] => [] | d :: r => render_decl d (render_decls r) end.
Definition decl_stmt_val (d : decl_spec) : val :=
  VList [VWrapper None (decl_val d); VList (bytes_vals (decl_w d))].
Fixpoint typedefs_of (ds : list decl_spec) : list typedef :=
  match ds with [] => [] | D_typedef t :: r => typedef_of t :: typedefs_of r | D_enum _ :: r => typedefs_of r end.
Fixpoint enums_of (ds : list decl_spec) : list enum :=
  match ds with [] => [] | D_enum e :: r => enum_of e :: enums_of r | D_typedef _ :: r => enums_of r end.

Lemma render_decls_follow : forall ds, decl_follow (render_decls ds).
Proof.
  intros [|[t|e] r]; [exact I| |]; unfold decl_follow; cbn [render_decls render_decl];
    unfold render_one, render_enum, lit_typedef, lit_enum; cbn [app];
    (split; [unfold ascii; lia | repeat constructor; lia]).
Qed.

Lemma e_head_not : forall s cs, Forall (fun c => 101 <> c) cs -> head_not cs (101 :: s).
Proof. intros. split; [unfold ascii; lia | assumption]. Qed.

Lemma statement_enum : forall e more cr o es fr,
  en_ok e -> decl_follow more ->
  exists o', evals (CRef 2) cr (st_of (render_enum e more) o es) fr
                   (Done true (VWrapper None (VEnum (enum_of e))) (st_of (e_w e ++ more) o' es) fr).
Proof.
  intros e more cr o es fr He Hm.
  destruct shapes as (_ & H2 & H3 & _).
  destruct keyword_rules as (K4 & K5 & K6 & _).
  destruct (enum_rule e more 3 o es [] He Hm) as [o' Hen].
  exists o'.
  assert (Hk : forall c, 101 <> c -> head_not [c] (render_enum e more)).
  { intros c Hne. unfold render_enum, lit_enum. cbn [app]. apply e_head_not. repeat constructor; exact Hne. }
  eapply E_ref; [exact H2|]. eapply E_act_ok.
  - apply E_seq.
    eapply S_ok; [exact (doc_opt_nil 2 _ o es [] (Hk 47 ltac:(lia)))|].
    eapply S_ok.
    { apply E_label_ok with (fr1 := []). eapply E_ref; [exact H3|]. apply E_choice.
      eapply C_next; [exact (keyword_rule_fails 4 _ _ 3 _ o es [] K4 (Hk 105 ltac:(lia)))|].
      eapply C_next; [exact (keyword_rule_fails 5 _ _ 3 _ o es [] K5 (Hk 110 ltac:(lia)))|].
      eapply C_next; [exact (keyword_rule_fails 6 _ _ 3 _ o es [] K6 (Hk 99 ltac:(lia)))|].
      eapply C_ok. exact Hen. }
    apply S_nil.
  - reflexivity.
Qed.

Lemma statement_decl : forall d more cr o es fr,
  decl_ok d -> decl_follow more ->
  exists o', evals (CRef 2) cr (st_of (render_decl d more) o es) fr
                   (Done true (VWrapper None (decl_val d)) (st_of (decl_w d ++ more) o' es) fr).
Proof.
  intros [t|e] more cr o es fr Hd Hm; cbn [render_decl decl_val decl_w decl_ok] in *.
  - exact (statement_typedef t more cr o es fr Hd Hm).
  - exact (statement_enum e more cr o es fr Hd Hm).
Qed.

Lemma decl_w_ok : forall d, decl_ok d -> run_of p_wsnl (decl_w d).
Proof.
  intros [t|e] H; cbn [decl_ok decl_w] in *.
  - destruct H as (_ & _ & _ & _ & _ & _ & _ & _ & Hw). exact Hw.
  - destruct H as (_ & _ & _ & _ & _ & _ & _ & _ & Hw & _). exact Hw.
Qed.

Lemma decls_loop : forall ds o es fr acc,
  Forall decl_ok ds ->
  exists o', loops (CSeq [CRef 2; CRef 55]) 0 (st_of (render_decls ds) o es) fr acc
                   (Done true (VList (rev acc ++ map decl_stmt_val ds)) (st_of [] o' es) fr).
Proof.
  induction ds as [|d r IH]; intros o es fr acc Hall.
  - exists o. cbn [render_decls map]. rewrite app_nil_r.
    eapply L_stop. apply E_seq.
    exact (S_fail 0 _ _ _ _ _ _ _ _ _ (statement_fails_eof 0 o es [])).
  - inversion Hall as [|d' r' Hd Hr]; subst.
    destruct (statement_decl d (render_decls r) 0 o es [] Hd (render_decls_follow r)) as [o1 Hst].
    assert (Hf6 : head_not [32; 9; 13; 10; 47; 35] (render_decls r)).
    { eapply head_not_sub; [|exact (render_decls_follow r)]. intros x Hx; cbn in Hx |- *; tauto. }
    destruct (IH (o1 + Z.of_nat (List.length (decl_w d))) es fr (decl_stmt_val d :: acc) Hr) as [o' Hloop].
    exists o'. cbn [render_decls].
    eapply L_step.
    + apply E_seq.
      eapply S_ok; [exact Hst|].
      eapply S_ok; [exact (gap_free (decl_w d) (render_decls r) 0 o1 es [] (decl_w_ok d Hd) Hf6)|].
      apply S_nil.
    + cbn [rev map] in Hloop |- *. rewrite <- app_assoc in Hloop. exact Hloop.
Qed.

Definition with_td_en (f : frugal) (tds : list typedef) (ens : list enum) : frugal :=
  mkfrugal (fr_includes f) (fr_namespaces f) tds (fr_constants f) ens (fr_structs f)
           (fr_exceptions f) (fr_unions f) (fr_services f) (fr_scopes f).

Lemma add_statements_decls : forall ds f,
  add_statements (map decl_stmt_val ds) f
  = Some (inl (with_td_en f (fr_typedefs f ++ typedefs_of ds) (fr_enums f ++ enums_of ds))).
Proof.
  induction ds as [|[t|e] r IH]; intros f.
  - cbn [map add_statements typedefs_of enums_of]. rewrite !app_nil_r. destruct f; reflexivity.
  - cbn [map]. unfold decl_stmt_val at 1. cbn [decl_val add_statements first_of as_list idx nth_error obind].
    rewrite IH. unfold with_td_en. cbn [fr_includes fr_namespaces fr_typedefs fr_constants fr_enums fr_structs
                                        fr_exceptions fr_unions fr_services fr_scopes typedefs_of enums_of].
    rewrite <- app_assoc. reflexivity.
  - cbn [map]. unfold decl_stmt_val at 1. cbn [decl_val add_statements first_of as_list idx nth_error obind].
    rewrite IH. unfold with_td_en. cbn [fr_includes fr_namespaces fr_typedefs fr_constants fr_enums fr_structs
                                        fr_exceptions fr_unions fr_services fr_scopes typedefs_of enums_of].
    rewrite <- app_assoc. reflexivity.
Qed.

Definition td_en_only (tds : list typedef) (ens : list enum) : frugal := mkfrugal [] [] tds [] ens [] [] [] [] [].

Lemma grammar_decls : forall w0 ds,
  run_of p_wsnl w0 -> Forall decl_ok ds ->
  exists body o', nth_error rules 0 = Some body
    /\ evals body 0 (st_of (w0 ++ render_decls ds) 0 []) []
             (Done true (VFrugal (td_en_only (typedefs_of ds) (enums_of ds))) (st_of [] o' [])
                   [("statements"%string, VList (map decl_stmt_val ds))]).
Proof.
  intros w0 ds Hw0 Hall. destruct shapes as (H0 & _ & _ & _ & _ & _ & _ & _ & _ & _ & _ & _ & _ & _ & _ & _ & _ & H61).
  assert (Hf6 : head_not [32; 9; 13; 10; 47; 35] (render_decls ds)).
  { eapply head_not_sub; [|exact (render_decls_follow ds)]. intros x Hx; cbn in Hx |- *; tauto. }
  destruct (decls_loop ds (0 + Z.of_nat (List.length w0)) [] [] [] Hall) as [o' Hloop].
  eexists. exists o'. split; [exact H0|].
  eapply E_act_ok.
  - apply E_seq.
    eapply S_ok; [exact (gap_free w0 (render_decls ds) 0 0 [] [] Hw0 Hf6)|].
    eapply S_ok; [apply E_label_ok with (fr1 := []); apply E_star; exact Hloop|].
    eapply S_ok.
    { apply E_choice. eapply C_ok. eapply E_ref; [exact H61|].
      eapply (E_not CAny 61 _ [] false). apply E_any. reflexivity. }
    apply S_nil.
  - unfold finish_action, run_action, run_action_opt. cbn [fget find fst snd String.eqb Ascii.eqb Bool.eqb].
    cbn [app rev to_iface_slice obind]. rewrite add_statements_decls. reflexivity.
Qed.

(** parse (render m) = m for models made of typedefs of base types and enums *)
Theorem roundtrip_decls : forall w0 ds,
  run_of p_wsnl w0 -> Forall decl_ok ds ->
  parse_idl (w0 ++ render_decls ds) = POk (td_en_only (typedefs_of ds) (enums_of ds)).
Proof.
  intros w0 ds Hw0 Hall.
  destruct (grammar_decls w0 ds Hw0 Hall) as (body & o' & Hbody & [n Hev]).
  set (input := w0 ++ render_decls ds) in *.
  assert (Hinit : initial_state aerr input = st_of input 0 []).
  { apply initial_state_ascii. unfold input.
    apply (run_app_ascii_next p_wsnl w0 _ Hw0). exact (head_not_ascii_next _ _ (render_decls_follow ds)). }
  assert (Hn : parse_with n input = PResult (inl (VFrugal (td_en_only (typedefs_of ds) (enums_of ds))))).
  { unfold parse_with, p_parse, Peg.parse. rewrite Hbody, Hinit.
    change (Peg.eval action val aerr VNil VBytes VList run_action rules n body 0 (st_of input 0 []) [])
      with (ev n body 0%nat (st_of input 0 []) []).
    rewrite (Hev n (le_n n)). reflexivity. }
  pose proof (parser_never_out_of_fuel input) as Hne. unfold parse_text in Hne.
  assert (Hnn : parse_with n input <> PFuel) by (rewrite Hn; discriminate).
  assert (Heq : parse_with (fuel_for input) input = parse_with n input).
  { exact (parse_fuel_irrelevant action val aerr VNil VBytes VList run_action rules (fuel_for input) n input Hne Hnn). }
  unfold parse_idl, parse_text. rewrite Heq, Hn. reflexivity.
Qed.

(** every enum of the result is numbered as Apache Thrift numbers it, as long as no number reaches
    the largest 64-bit integer (beyond it Go's addition wraps around: [enum_numbering_overflow]) *)
Lemma declared_pairs : forall vs, map declared_value (map ev_pair vs) = map (fun v => declared (v_tail v)) vs.
Proof.
  intros vs. rewrite map_map. apply map_ext. intros v. unfold declared_value, ev_pair. cbn [fst snd ev_value].
  destruct (declared (v_tail v)); reflexivity.
Qed.

Lemma enum_of_numbering : forall e,
  numbering_in_range (map (fun v => declared (v_tail v)) (e_vs e)) (-1) ->
  map ev_value (en_values (enum_of e)) = thrift_numbering (map (fun v => declared (v_tail v)) (e_vs e)) (-1)
  /\ map ev_name (en_values (enum_of e)) = map (fun v => v_c v :: v_t v) (e_vs e).
Proof.
  intros e Hr. unfold enum_of. cbn [en_values]. rewrite <- declared_pairs in Hr.
  destruct (enum_numbering_full (map ev_pair (e_vs e)) Hr) as (Hv & Hn & _).
  split.
  - rewrite Hv. rewrite declared_pairs. reflexivity.
  - rewrite Hn. rewrite map_map. apply map_ext. intros v. reflexivity.
Qed.

(** without any range hypothesis (after the repair of C10-F22): the hypotheses of the round-trip theorem
    ([en_ok]: explicit numbers are 64-bit integers and the Enum action reports no error) already imply that
    Apache Thrift's numbering stays inside the 64-bit integers and that the parsed enum carries exactly it *)
Lemma evs_explicit_in64 : forall vs, evs_ok vs -> explicit_in64 (map ev_pair vs).
Proof.
  induction vs as [|v r IH]; intros H; [constructor|]. cbn [evs_ok] in H. destruct H as [Hv Hr].
  cbn [map]. constructor; [|exact (IH Hr)].
  destruct Hv as (_ & _ & _ & Htl). unfold ev_pair. cbn [fst snd ev_value].
  destruct (v_tail v) as [W|g sep W|g1 g z W|g1 g z g2 sep W]; cbn [declared tail_ok_l tail_ok] in *; intros Hex;
    try discriminate Hex; unfold in64; unfold int64 in Htl; tauto.
Qed.

Lemma in64_dec : forall z, {in64 z} + {~ in64 z}.
Proof.
  intros z. unfold in64. destruct (Z_le_dec (- 9223372036854775808) z); destruct (Z_le_dec z 9223372036854775807);
    [left; lia | right; lia | right; lia | right; lia].
Qed.

Lemma enum_of_numbering_ok : forall e,
  en_ok e ->
  Forall in64 (thrift_numbering (map (fun v => declared (v_tail v)) (e_vs e)) (-1))
  /\ map ev_value (en_values (enum_of e)) = thrift_numbering (map (fun v => declared (v_tail v)) (e_vs e)) (-1)
  /\ map ev_name (en_values (enum_of e)) = map (fun v => v_c v :: v_t v) (e_vs e).
Proof.
  intros e (_ & _ & _ & _ & _ & _ & Hvs & _ & _ & Hov).
  pose proof (enum_numbering_exact (map ev_pair (e_vs e)) (evs_explicit_in64 _ Hvs)) as [Hin Hout].
  rewrite declared_pairs in Hin, Hout.
  destruct (Forall_dec in64 in64_dec (thrift_numbering (map (fun v => declared (v_tail v)) (e_vs e)) (-1))) as [Hf|Hnf].
  - destruct (Hin Hf) as [_ Hv]. split; [exact Hf|]. unfold enum_of. cbn [en_values]. split; [exact Hv|].
    destruct (enum_number_keeps (map ev_pair (e_vs e)) 0) as (Hn & _). rewrite Hn, map_map. apply map_ext. intros v. reflexivity.
  - destruct (Hout Hnf) as [v Hv]. rewrite Hov in Hv. discriminate Hv.
Qed.
