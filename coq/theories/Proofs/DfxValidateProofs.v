(** Findings triage (dfx): validation of scope prefixes (C11-K12, repaired by "fix: validation
    rejects a scope prefix that names the same variable twice").
    [validate] of Model/ParserFiles.v transcribes Frugal.validate; its last conjunct,
    [validate_scopes], transcribes validateScopes / validateScopeTypes. *)
From Coq Require Import ZArith List Bool String.
From FV Require Import Model.PegSyntax Model.Peg Model.ParserStrings Model.ParserAst Model.ParserActions
     Model.Parser Model.ParserFiles Proofs.ParserProofs.
Import ListNotations.
Open Scope Z_scope.

Lemma dfx_beqb_true_iff (a b : bytes) : beqb a b = true <-> a = b.
Proof.
  revert b; induction a as [|x a IH]; intros [|y b]; cbn [beqb]; split; intro H; try discriminate; auto.
  - apply andb_true_iff in H as [H1 H2]. apply Z.eqb_eq in H1. apply IH in H2. congruence.
  - inversion H; subst. apply andb_true_iff; split; [apply Z.eqb_refl | apply IH; reflexivity].
Qed.

Lemma has_dup_false_NoDup (l : list bytes) : has_dup l = false <-> NoDup l.
Proof.
  induction l as [|x t IH]; cbn [has_dup].
  - split; [constructor | reflexivity].
  - rewrite orb_false_iff. split.
    + intros [Hx Ht]. constructor; [|apply IH; exact Ht].
      intro Hin. assert (Hex : existsb (beqb x) t = true).
      { apply existsb_exists. exists x. split; [exact Hin | apply dfx_beqb_true_iff; reflexivity]. }
      congruence.
    + intro Hnd. inversion Hnd as [|? ? Hnin Hnd']; subst. split; [|apply IH; exact Hnd'].
      destruct (existsb (beqb x) t) eqn:E; [|reflexivity].
      apply existsb_exists in E. destruct E as (y & Hy & Hxy). apply dfx_beqb_true_iff in Hxy. subst y.
      contradiction.
Qed.

Lemma vand_ok a b : vand a b = VOk -> a = VOk /\ b tt = VOk.
Proof. destruct a; cbn [vand]; intro H; try discriminate. split; [reflexivity | exact H]. Qed.

Lemma vall_ok {X} (p : X -> vres) (l : list X) : vall p l = VOk -> forall x, In x l -> p x = VOk.
Proof.
  induction l as [|y t IH]; cbn [vall]; intros H x Hin; [destruct Hin|].
  apply vand_ok in H. destruct H as [Hy Ht]. destruct Hin as [->|Hin]; [exact Hy | apply IH; assumption].
Qed.

Lemma of_bool_ok b : of_bool b = VOk -> b = true.
Proof. destruct b; [reflexivity | discriminate]. Qed.

Lemma validate_reaches_scopes f incs : validate f incs = VOk -> validate_scopes f incs = VOk.
Proof.
  unfold validate. intro H.
  repeat (apply vand_ok in H; destruct H as [_ H]). exact H.
Qed.

(** a file that passes validation names every prefix variable once, in every scope; and every
    operation type of every scope is valid (not a panic, not an error) *)
Lemma validate_prefix_variables_distinct f incs :
  validate f incs = VOk ->
  forall s, In s (fr_scopes f) ->
    NoDup (p_vars (sc_prefix s))
    /\ forall o, In o (sc_ops s) -> valid_type f incs (o_type o) = Some true.
Proof.
  intros H s Hin. apply validate_reaches_scopes in H. unfold validate_scopes in H.
  pose proof (vall_ok _ _ H s Hin) as Hs. unfold validate_scope in Hs.
  apply vand_ok in Hs. destruct Hs as [Hd Hops]. split.
  - apply of_bool_ok in Hd. apply negb_true_iff in Hd. apply has_dup_false_NoDup. exact Hd.
  - intros o Ho. pose proof (vall_ok _ _ Hops o Ho) as Hv. cbn beta in Hv.
    destruct (valid_type f incs (o_type o)) as [[|]|]; cbn [of_type] in Hv; try discriminate. reflexivity.
Qed.

(** conversely a duplicate is an error, never a panic and never accepted *)
Lemma validate_scope_dup_rejected f incs s :
  has_dup (p_vars (sc_prefix s)) = true -> validate_scope f incs s = VErr.
Proof. intro H. unfold validate_scope. rewrite H. reflexivity. Qed.

Open Scope string_scope.

(** on program text, through the PEG parser: the program of the finding is rejected by ParseFrugal,
    the same program with two different variables is accepted; the validation before the repair
    ([validate_scopes_pinned]) accepted the parsed scopes of the first *)
Definition dfx_dup_prefix_text : bytes :=
  cat [idl "struct E {}"; idl "scope Sc prefix a.{zone}.{zone} { op: E }"].
Definition dfx_two_vars_text : bytes :=
  cat [idl "struct E {}"; idl "scope Sc prefix a.{zone}.{user} { op: E }"].

Definition dfx_zone : bytes := bytes_of_string "zone".

Lemma dup_prefix_variable_rejected :
  is_ferr (parse_program [(main_frugal, dfx_dup_prefix_text)] main_frugal) = true
  /\ is_fok (parse_program [(main_frugal, dfx_two_vars_text)] main_frugal) = true.
Proof. vm_compute. split; reflexivity. Qed.

Lemma dup_prefix_variable_accepted_pinned :
  exists f, parse_idl dfx_dup_prefix_text = POk f
    /\ map (fun s => p_vars (sc_prefix s)) (fr_scopes f) = [[dfx_zone; dfx_zone]]
    /\ validate_scopes_pinned f [] = VOk
    /\ validate_scopes f [] = VErr.
Proof. eexists. vm_compute. repeat split; reflexivity. Qed.

Close Scope string_scope.
