(** Findings triage (dfx): validation of scope prefixes (C11-K12, repaired by "fix: validation
    rejects a scope prefix that names the same variable twice").
    [validate] of Model/ParserFiles.v is [cvalidate] of Model/CompilerValidate.v (the one
    transcription of Frugal.validate) with the diagnostic text forgotten; its last conjunct,
    [rall (check_scope rf) (fr_scopes f)], transcribes validateScopes / validateScopeTypes. *)
From Coq Require Import ZArith List Bool String.
From FV Require Import Model.PegSyntax Model.Peg Model.ParserStrings Model.ParserAst Model.ParserActions
     Model.Parser Model.ParserFiles Proofs.ParserProofs.
From FV Require Import Model.CompilerValidate Proofs.CompilerValidateProofs Proofs.ParserFilesProofs.
Import ListNotations.
Open Scope Z_scope.

Lemma dfx_beqb_true_iff (a b : bytes) : beqb a b = true <-> a = b.
Proof.
  revert b; induction a as [|x a IH]; intros [|y b]; cbn [beqb]; split; intro H; try discriminate; auto.
  - apply andb_true_iff in H as [H1 H2]. apply Z.eqb_eq in H1. apply IH in H2. congruence.
  - inversion H; subst. apply andb_true_iff; split; [apply Z.eqb_refl | apply IH; reflexivity].
Qed.

Lemma has_dup_false_NoDup (l : list bytes) : has_dup l = false <-> NoDup l.
Proof.
  induction l as [|x t IH]; cbn [has_dup].
  - split; [constructor | reflexivity].
  - rewrite orb_false_iff. split.
    + intros [Hx Ht]. constructor; [|apply IH; exact Ht].
      intro Hin. assert (Hex : existsb (beqb x) t = true).
      { apply existsb_exists. exists x. split; [exact Hin | apply dfx_beqb_true_iff; reflexivity]. }
      congruence.
    + intro Hnd. inversion Hnd as [|? ? Hnin Hnd']; subst. split; [|apply IH; exact Hnd'].
      destruct (existsb (beqb x) t) eqn:E; [|reflexivity].
      apply existsb_exists in E. destruct E as (y & Hy & Hxy). apply dfx_beqb_true_iff in Hxy. subst y.
      contradiction.
Qed.

(** a file that passes validation names every prefix variable once, in every scope; and every
    operation type of every scope is valid (not a panic, not an error) *)
Lemma validate_prefix_variables_distinct f incs :
  ParserFiles.validate f incs = VOk ->
  forall s, In s (fr_scopes f) ->
    NoDup (p_vars (sc_prefix s))
    /\ forall o, In o (sc_ops s) -> valid_ty (reduce f incs) (o_type o) = true.
Proof.
  intros H s Hin. pose proof (validate_ok_facts f incs H) as F. split.
  - exact (vf_prefix_vars _ _ _ F s Hin).
  - intros o Ho. exact (vf_ops _ _ _ F s o Hin Ho).
Qed.

(** conversely a duplicate is an error, never a panic and never accepted *)
Lemma first_dup_var_some vars : forall seen,
  has_dup vars = true \/ (exists x, In x vars /\ In x seen) -> exists v, first_dup_var seen vars = Some v.
Proof.
  induction vars as [|x t IH]; intros seen H.
  - destruct H as [H|(z & [] & _)]. discriminate.
  - cbn [first_dup_var]. destruct (existsb (beqb x) seen) eqn:E; [eauto|].
    apply IH. destruct H as [H|(z & [<-|Hz] & Hs)].
    + cbn [has_dup] in H. apply orb_true_iff in H as [H|H]; [|left; exact H].
      right. apply existsb_exists in H as (y & Hy & Hxy). apply dfx_beqb_true_iff in Hxy. subst y.
      exists x. split; [exact Hy|left; reflexivity].
    + assert (existsb (beqb x) seen = true) as X; [|congruence].
      apply existsb_exists. exists x. split; [exact Hs|apply dfx_beqb_true_iff; reflexivity].
    + right. exists z. split; [exact Hz|right; exact Hs].
Qed.

Lemma check_scope_dup_rejected rf s :
  has_dup (p_vars (sc_prefix s)) = true -> exists m, check_scope rf s = RErr m.
Proof.
  intro H. destruct (first_dup_var_some _ [] (or_introl H)) as [v E]. unfold check_scope. rewrite E. cbn [rand]. eauto.
Qed.

Open Scope string_scope.

(** on program text, through the PEG parser: the program of the finding is rejected by ParseFrugal,
    the same program with two different variables is accepted; the validation before the repair
    ([check_scope_pinned]) accepted the parsed scopes of the first *)
Definition dfx_dup_prefix_text : bytes :=
  cat [idl "struct E {}"; idl "scope Sc prefix a.{zone}.{zone} { op: E }"].
Definition dfx_two_vars_text : bytes :=
  cat [idl "struct E {}"; idl "scope Sc prefix a.{zone}.{user} { op: E }"].

Definition dfx_zone : bytes := bytes_of_string "zone".

Lemma dup_prefix_variable_rejected :
  is_ferr (parse_program [(main_frugal, dfx_dup_prefix_text)] main_frugal) = true
  /\ is_fok (parse_program [(main_frugal, dfx_two_vars_text)] main_frugal) = true.
Proof. vm_compute. split; reflexivity. Qed.

Lemma dup_prefix_variable_accepted_pinned :
  exists f, parse_idl dfx_dup_prefix_text = Parser.POk f
    /\ map (fun s => p_vars (sc_prefix s)) (fr_scopes f) = [[dfx_zone; dfx_zone]]
    /\ rall (check_scope_pinned (reduce f [])) (fr_scopes f) = ROk
    /\ exists m, rall (check_scope (reduce f [])) (fr_scopes f) = RErr m.
Proof. eexists. vm_compute. repeat split; try reflexivity. eexists. reflexivity. Qed.

Close Scope string_scope.
