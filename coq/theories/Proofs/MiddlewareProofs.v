(** Lemmas about Model/Middleware.v (C16). *)
From Coq Require Import ZArith List Bool Arith Lia.
From FV Require Import Model.Middleware.
Import ListNotations.

(* ------------------------------------------------------------------------------------------- *)
(** * composeMiddleware *)
Section Compose.
Context {V : Type}.
Notation handler := (handler V).
Notation middleware := (middleware V).
Notation mwspec := (mwspec V).
Notation event := (event V).

Lemma compose_app : forall (ms1 ms2 : list middleware) (core : handler),
  compose core (ms1 ++ ms2) = compose (compose core ms1) ms2.
Proof. intros ms1 ms2 core. unfold compose. apply fold_left_app. Qed.

(** later-listed wraps earlier *)
Lemma compose_snoc : forall (ms : list middleware) (m : middleware) (core : handler),
  compose core (ms ++ [m]) = m (compose core ms).
Proof. intros ms m core. rewrite compose_app. reflexivity. Qed.

Lemma compose_nil : forall core : handler, compose core [] = core.
Proof. reflexivity. Qed.

(** AddMiddleware after NewMethod = one more element at the end of the list *)
Lemma add_middleware_is_snoc : forall (ms : list middleware) (m : middleware) (core : handler),
  add_middleware m (compose core ms) = compose core (ms ++ [m]).
Proof. intros ms m core. rewrite compose_snoc. reflexivity. Qed.

Lemma add_middlewares_fold : forall (added ms : list middleware) (core : handler),
  fold_left (fun h m => add_middleware m h) added (compose core ms) = compose core (ms ++ added).
Proof.
  intros added ms core. rewrite compose_app. reflexivity.
Qed.

Lemma exit_events_app : forall (ms1 ms2 : list mwspec) r,
  exit_events (ms1 ++ ms2) r = exit_events ms1 r ++ exit_events ms2 (res_out ms1 r).
Proof.
  induction ms1 as [|m ms1 IH]; intros ms2 r.
  - reflexivity.
  - cbn [app exit_events]. rewrite IH. reflexivity.
Qed.

Lemma enter_events_app : forall (os1 os2 : list mwspec) a,
  enter_events (os1 ++ os2) a = enter_events os1 a ++ enter_events os2 (args_in os1 a).
Proof.
  induction os1 as [|m os1 IH]; intros os2 a.
  - reflexivity.
  - cbn [app enter_events]. rewrite IH. reflexivity.
Qed.

Lemma res_out_app : forall (ms1 ms2 : list mwspec) r,
  res_out (ms1 ++ ms2) r = res_out ms2 (res_out ms1 r).
Proof. intros. unfold res_out. apply fold_left_app. Qed.

Lemma args_in_app : forall (os1 os2 : list mwspec) a,
  args_in (os1 ++ os2) a = args_in os2 (args_in os1 a).
Proof. intros. unfold args_in. apply fold_left_app. Qed.

(** the trace of one invocation through a composed list, whatever the proxied function does *)
Lemma compose_std : forall (ms : list mwspec) (core : handler) a,
  compose core (map mw_of ms) a =
  let '(ctr, ro) := core (args_in (rev ms) a) in
  match ro with
  | Some r => (enter_events (rev ms) a ++ ctr ++ exit_events ms r, Some (res_out ms r))
  | None => (enter_events (rev ms) a ++ ctr, None)
  end.
Proof.
  induction ms as [|m ms IH] using rev_ind; intros core a.
  - cbn. destruct (core a) as [ctr [r|]]; cbn; rewrite ?app_nil_r; reflexivity.
  - rewrite map_app. cbn [map]. rewrite compose_snoc. unfold mw_of at 1.
    rewrite IH. rewrite rev_app_distr. cbn [rev app args_in fold_left enter_events].
    fold (args_in (rev ms) (ms_pre m a)).
    destruct (core (args_in (rev ms) (ms_pre m a))) as [ctr [r|]].
    + rewrite exit_events_app, res_out_app. cbn [exit_events res_out fold_left].
      rewrite <- !app_assoc. reflexivity.
    + reflexivity.
Qed.

Lemma compose_std_some : forall (ms : list mwspec) (core : handler) a ctr r,
  core (args_in (rev ms) a) = (ctr, Some r) ->
  compose core (map mw_of ms) a
  = (enter_events (rev ms) a ++ ctr ++ exit_events ms r, Some (res_out ms r)).
Proof. intros ms core a ctr r H. rewrite compose_std, H. reflexivity. Qed.

Lemma compose_std_panic : forall (ms : list mwspec) (core : handler) a ctr,
  core (args_in (rev ms) a) = (ctr, None) ->
  compose core (map mw_of ms) a = (enter_events (rev ms) a ++ ctr, None).
Proof. intros ms core a ctr H. rewrite compose_std, H. reflexivity. Qed.

Lemma enter_ids_app : forall t1 t2 : list event, enter_ids (t1 ++ t2) = enter_ids t1 ++ enter_ids t2.
Proof. intros. unfold enter_ids. apply flat_map_app. Qed.
Lemma exit_ids_app : forall t1 t2 : list event, exit_ids (t1 ++ t2) = exit_ids t1 ++ exit_ids t2.
Proof. intros. unfold exit_ids. apply flat_map_app. Qed.

Lemma enter_ids_cons : forall (e : event) t,
  enter_ids (e :: t) = match e with EEnter i _ => [i] | _ => [] end ++ enter_ids t.
Proof. reflexivity. Qed.
Lemma exit_ids_cons : forall (e : event) t,
  exit_ids (e :: t) = match e with EExit i _ => [i] | _ => [] end ++ exit_ids t.
Proof. reflexivity. Qed.

Lemma enter_ids_enter_events : forall (os : list mwspec) a,
  enter_ids (enter_events os a) = map ms_id os.
Proof.
  induction os as [|m os IH]; intros a; [reflexivity|].
  cbn [enter_events map]. rewrite enter_ids_cons, IH. reflexivity.
Qed.
Lemma exit_ids_enter_events : forall (os : list mwspec) a, exit_ids (enter_events os a) = [].
Proof.
  induction os as [|m os IH]; intros a; [reflexivity|].
  cbn [enter_events]. rewrite exit_ids_cons, IH. reflexivity.
Qed.
Lemma exit_ids_exit_events : forall (ms : list mwspec) r,
  exit_ids (exit_events ms r) = map ms_id ms.
Proof.
  induction ms as [|m ms IH]; intros r; [reflexivity|].
  cbn [exit_events map]. rewrite exit_ids_cons, IH. reflexivity.
Qed.
Lemma enter_ids_exit_events : forall (ms : list mwspec) r, enter_ids (exit_events ms r) = [].
Proof.
  induction ms as [|m ms IH]; intros r; [reflexivity|].
  cbn [exit_events]. rewrite enter_ids_cons, IH. reflexivity.
Qed.

(** what the k-th middleware from the outside saw on entry, the k-th from the inside on exit *)
Lemma enter_events_nth : forall (os : list mwspec) a k,
  nth_error (enter_events os a) k
  = option_map (fun m => EEnter (ms_id m) (args_in (firstn k os) a)) (nth_error os k).
Proof.
  induction os as [|m os IH]; intros a k.
  - destruct k; reflexivity.
  - destruct k as [|k]; cbn [enter_events nth_error firstn].
    + reflexivity.
    + rewrite IH. reflexivity.
Qed.
Lemma exit_events_nth : forall (ms : list mwspec) r k,
  nth_error (exit_events ms r) k
  = option_map (fun m => EExit (ms_id m) (res_out (firstn k ms) r)) (nth_error ms k).
Proof.
  induction ms as [|m ms IH]; intros r k.
  - destruct k; reflexivity.
  - destruct k as [|k]; cbn [exit_events nth_error firstn].
    + reflexivity.
    + rewrite IH. reflexivity.
Qed.

(** observers change nothing *)
Definition observer (m : mwspec) : Prop := (forall a, ms_pre m a = a) /\ (forall r, ms_post m r = r).
Lemma args_in_observers : forall (os : list mwspec) a, Forall observer os -> args_in os a = a.
Proof.
  induction os as [|m os IH]; intros a H; [reflexivity|].
  inversion H as [|? ? Hm Hos]; subst. cbn. destruct Hm as [Hp _]. rewrite Hp. apply IH, Hos.
Qed.
Lemma res_out_observers : forall (ms : list mwspec) r, Forall observer ms -> res_out ms r = r.
Proof.
  induction ms as [|m ms IH]; intros r H; [reflexivity|].
  inversion H as [|? ? Hm Hms]; subst. cbn. destruct Hm as [_ Hp]. rewrite Hp. apply IH, Hms.
Qed.

(** statement of c16_each_once_nested *)
Lemma each_once_nested : forall (ms : list mwspec) (core : handler) a ctr ro,
  core (args_in (rev ms) a) = (ctr, ro) ->
  (* the proxied function is called once, with the arguments as rewritten from the outside in *)
  (* and the trace is: entries outermost (= last listed) first, the call, exits innermost first *)
  match ro with
  | Some r =>
    compose core (map mw_of ms) a
    = (enter_events (rev ms) a ++ ctr ++ exit_events ms r, Some (res_out ms r))
  | None => compose core (map mw_of ms) a = (enter_events (rev ms) a ++ ctr, None)
  end
  /\ enter_ids (enter_events (rev ms) a) = rev (map ms_id ms)
  /\ (forall r, exit_ids (exit_events ms r) = map ms_id ms)
  /\ (forall k m, nth_error (rev ms) k = Some m ->
        nth_error (enter_events (rev ms) a) k = Some (EEnter (ms_id m) (args_in (firstn k (rev ms)) a)))
  /\ (forall r k m, nth_error ms k = Some m ->
        nth_error (exit_events ms r) k = Some (EExit (ms_id m) (res_out (firstn k ms) r))).
Proof.
  intros ms core a ctr ro H. repeat split.
  - destruct ro as [r|]; [apply compose_std_some | apply compose_std_panic]; exact H.
  - rewrite enter_ids_enter_events, map_rev. reflexivity.
  - intros r. apply exit_ids_exit_events.
  - intros k m Hk. rewrite enter_events_nth, Hk. reflexivity.
  - intros r k m Hk. rewrite exit_events_nth, Hk. reflexivity.
Qed.

End Compose.

(* ------------------------------------------------------------------------------------------- *)
(** * Go slices: append in place / fresh array, what other slices can observe *)
Section SliceProofs.
Context {T : Type}.
Notation heap := (heap T).

Lemma set_nth_length : forall {A} n (x : A) l, length (set_nth n x l) = length l.
Proof.
  intros A n x l. revert n. induction l as [|y l IH]; intros n; [destruct n; reflexivity|].
  destruct n; cbn; [reflexivity | rewrite IH; reflexivity].
Qed.

Lemma nth_set_nth_eq : forall {A} n (x d : A) l, n < length l -> nth n (set_nth n x l) d = x.
Proof.
  intros A n x d l. revert n. induction l as [|y l IH]; intros n Hn; cbn in Hn; [lia|].
  destruct n; cbn; [reflexivity | apply IH; lia].
Qed.

Lemma nth_set_nth_neq : forall {A} n k (x d : A) l, n <> k -> nth k (set_nth n x l) d = nth k l d.
Proof.
  intros A n k x d l. revert n k. induction l as [|y l IH]; intros n k Hnk; [destruct n; reflexivity|].
  destruct n, k; cbn; try reflexivity; try lia. apply IH. lia.
Qed.

Lemma write_at_length : forall (l : list T) off xs,
  off + length xs <= length l -> length (write_at l off xs) = length l.
Proof.
  intros l off xs H. unfold write_at. rewrite !app_length, firstn_length, skipn_length. lia.
Qed.

Lemma firstn_write_at_lo : forall (l : list T) off xs k,
  k <= off -> off <= length l -> firstn k (write_at l off xs) = firstn k l.
Proof.
  intros l off xs k Hk Hoff. unfold write_at. rewrite firstn_app, firstn_length.
  replace (k - Nat.min off (length l)) with 0 by lia. cbn [firstn]. rewrite app_nil_r.
  rewrite firstn_firstn. f_equal. lia.
Qed.

Lemma firstn_write_at_hi : forall (l : list T) off xs,
  off <= length l -> firstn (off + length xs) (write_at l off xs) = firstn off l ++ xs.
Proof.
  intros l off xs Hoff. unfold write_at. rewrite firstn_app, firstn_length.
  replace (Nat.min off (length l)) with off by lia.
  replace (off + length xs - off) with (length xs) by lia.
  rewrite firstn_firstn. replace (Nat.min (off + length xs) off) with off by lia.
  rewrite firstn_app. replace (length xs - length xs) with 0 by lia. cbn [firstn].
  rewrite firstn_all, app_nil_r. reflexivity.
Qed.

Lemma wf_nil_elems : forall (h : heap) s, wf_slice h s -> s_cap s = 0 -> slice_elems h s = [].
Proof.
  intros h s [Hle _] Hc. unfold slice_elems. replace (s_len s) with 0 by lia. reflexivity.
Qed.

(** the appended slice holds the old elements followed by the new ones *)
Lemma go_append_elems : forall (h : heap) s xs,
  wf_slice h s ->
  slice_elems (fst (go_append h s xs)) (snd (go_append h s xs)) = slice_elems h s ++ xs.
Proof.
  intros h s xs Hwf. unfold go_append. destruct xs as [|x xs'].
  - cbn. rewrite app_nil_r. reflexivity.
  - set (xs := x :: xs'). destruct (Nat.leb_spec (s_len s + length xs) (s_cap s)) as [Hfit|Hgrow].
    + cbn [fst snd]. destruct Hwf as [Hle [Hc|[Harr Hlen]]].
      { cbn [length] in Hfit. subst xs. cbn [length] in Hfit. lia. }
      unfold slice_elems, arr_of. cbn [s_arr s_len].
      rewrite nth_set_nth_eq by exact Harr. apply firstn_write_at_hi.
      unfold arr_of in Hlen. lia.
    + cbn [fst snd]. unfold slice_elems at 1, arr_of. cbn [s_arr s_len].
      rewrite app_nth2 by lia. rewrite Nat.sub_diag. cbn [nth].
      rewrite firstn_all2; [reflexivity|].
      rewrite app_length. unfold slice_elems. rewrite firstn_length. lia.
Qed.

Lemma go_append_wf : forall (h : heap) s xs,
  wf_slice h s -> wf_slice (fst (go_append h s xs)) (snd (go_append h s xs)).
Proof.
  intros h s xs Hwf. unfold go_append. destruct xs as [|x xs'].
  - exact Hwf.
  - set (xs := x :: xs'). destruct (Nat.leb_spec (s_len s + length xs) (s_cap s)) as [Hfit|Hgrow].
    + cbn [fst snd]. destruct Hwf as [Hle [Hc|[Harr Hlen]]].
      { subst xs. cbn [length] in Hfit. lia. }
      split; cbn [s_len s_cap s_arr]; [exact Hfit|]. right. rewrite set_nth_length. split; [exact Harr|].
      unfold arr_of. cbn [s_arr]. rewrite nth_set_nth_eq by exact Harr.
      unfold arr_of in Hlen. rewrite write_at_length; lia.
    + cbn [fst snd]. split; cbn [s_len s_cap s_arr]; [lia|]. right. rewrite app_length. cbn [length].
      split; [lia|]. unfold arr_of. cbn [s_arr]. rewrite app_nth2 by lia. rewrite Nat.sub_diag. cbn [nth].
      rewrite app_length. unfold slice_elems. rewrite firstn_length.
      destruct Hwf as [Hle [Hc|[Harr Hlen]]]; [|lia].
      replace (s_len s) with 0 by lia. cbn. reflexivity.
Qed.

(** a slice that the append cannot reach keeps its elements *)
Lemma go_append_frame : forall (h : heap) s xs p,
  wf_slice h s -> wf_slice h p -> append_safe p s ->
  slice_elems (fst (go_append h s xs)) p = slice_elems h p
  /\ wf_slice (fst (go_append h s xs)) p.
Proof.
  intros h s xs p Hwf Hp Hsafe. unfold go_append. destruct xs as [|x xs'].
  - split; [reflexivity | exact Hp].
  - set (xs := x :: xs'). destruct (Nat.leb_spec (s_len s + length xs) (s_cap s)) as [Hfit|Hgrow].
    + cbn [fst snd]. destruct Hwf as [Hle [Hc|[Harr Hlen]]].
      { subst xs. cbn [length] in Hfit. lia. }
      destruct (Nat.eq_dec (s_arr p) (s_arr s)) as [Heq|Hne].
      * destruct Hsafe as [Hne|Hlen_p]; [contradiction|].
        assert (Harr_p : arr_of (set_nth (s_arr s) (write_at (arr_of h s) (s_len s) xs) h) p
                         = write_at (arr_of h s) (s_len s) xs).
        { unfold arr_of. rewrite Heq. apply nth_set_nth_eq. exact Harr. }
        assert (Hsame : arr_of h p = arr_of h s) by (unfold arr_of; rewrite Heq; reflexivity).
        split.
        -- unfold slice_elems. rewrite Harr_p, Hsame. apply firstn_write_at_lo; lia.
        -- destruct Hp as [Hple Hpc]. split; [exact Hple|]. destruct Hpc as [Hpc|[Hparr Hplen]]; [left; exact Hpc|].
           right. rewrite set_nth_length. split; [exact Hparr|]. rewrite Harr_p.
           rewrite write_at_length by lia. rewrite <- Hsame. exact Hplen.
      * assert (Harr_p : arr_of (set_nth (s_arr s) (write_at (arr_of h s) (s_len s) xs) h) p = arr_of h p).
        { unfold arr_of. apply nth_set_nth_neq. lia. }
        split.
        -- unfold slice_elems. rewrite Harr_p. reflexivity.
        -- destruct Hp as [Hple Hpc]. split; [exact Hple|]. destruct Hpc as [Hpc|[Hparr Hplen]]; [left; exact Hpc|].
           right. rewrite set_nth_length, Harr_p. split; assumption.
    + cbn [fst snd]. destruct Hp as [Hple [Hpc|[Hparr Hplen]]].
      * split.
        -- unfold slice_elems. replace (s_len p) with 0 by lia. reflexivity.
        -- split; [exact Hple | left; exact Hpc].
      * assert (Harr_p : arr_of (h ++ [slice_elems h s ++ xs]) p = arr_of h p).
        { unfold arr_of. apply app_nth1. exact Hparr. }
        split.
        -- change (firstn (s_len p) (arr_of (h ++ [slice_elems h s ++ xs]) p) = slice_elems h p).
           rewrite Harr_p. reflexivity.
        -- split; [exact Hple|]. right. rewrite app_length, Harr_p. split; [lia | exact Hplen].
Qed.

(** a full slice (cap = len) is never appended to in place *)
Lemma go_append_frame_full : forall (h : heap) s xs p,
  wf_slice h s -> wf_slice h p -> s_cap s <= s_len s ->
  slice_elems (fst (go_append h s xs)) p = slice_elems h p.
Proof.
  intros h s xs p Hwf Hp Hfull. unfold go_append. destruct xs as [|x xs'].
  - reflexivity.
  - set (xs := x :: xs'). destruct (Nat.leb_spec (s_len s + length xs) (s_cap s)) as [Hfit|Hgrow].
    + subst xs. cbn [length] in Hfit. lia.
    + cbn [fst]. destruct Hp as [Hple [Hpc|[Hparr Hplen]]].
      * unfold slice_elems. replace (s_len p) with 0 by lia. reflexivity.
      * change (firstn (s_len p) (arr_of (h ++ [slice_elems h s ++ xs]) p) = slice_elems h p).
        unfold arr_of at 1. rewrite app_nth1 by exact Hparr. reflexivity.
Qed.

Lemma append_safe_refl : forall s : slice, append_safe s s.
Proof. intros s. right. lia. Qed.

End SliceProofs.

(* ------------------------------------------------------------------------------------------- *)
(** * Generated constructors: which list every Method is composed with *)
Section Wiring.
Context {V : Type}.
Notation handler := (handler V).
Notation middleware := (middleware V).
Notation mheap := (mheap V).

(** client (with extends): every method of every level gets constructor ++ provider, and the
    caller's and the provider's slices read the same afterwards *)
Lemma new_client_spec : forall (chain : list (list handler)) (h : mheap) prov mw,
  wf_slice h prov -> wf_slice h mw -> append_safe prov mw ->
  snd (new_client h prov mw chain)
  = map (map (fun c => compose c (slice_elems h mw ++ slice_elems h prov))) chain
  /\ slice_elems (fst (new_client h prov mw chain)) mw = slice_elems h mw
  /\ slice_elems (fst (new_client h prov mw chain)) prov = slice_elems h prov
  /\ wf_slice (fst (new_client h prov mw chain)) mw
  /\ wf_slice (fst (new_client h prov mw chain)) prov.
Proof.
  induction chain as [|own parents IH]; intros h prov mw Hprov Hmw Hsafe.
  - cbn. exact (conj eq_refl (conj eq_refl (conj eq_refl (conj Hmw Hprov)))).
  - cbn [new_client].
    destruct (IH h prov mw Hprov Hmw Hsafe) as (Htab & Emw & Eprov & Wmw & Wprov).
    destruct (new_client h prov mw parents) as [h0 pm]. cbn [fst snd] in *.
    unfold get_middleware.
    pose proof (go_append_elems h0 mw (slice_elems h0 prov) Wmw) as Hel.
    pose proof (go_append_frame h0 mw (slice_elems h0 prov) mw Wmw Wmw (append_safe_refl mw)) as [Fmw Fwmw].
    pose proof (go_append_frame h0 mw (slice_elems h0 prov) prov Wmw Wprov Hsafe) as [Fprov Fwprov].
    destruct (go_append h0 mw (slice_elems h0 prov)) as [h1 s1]. cbn [fst snd] in *.
    rewrite Hel, Emw, Eprov, Htab.
    split; [reflexivity|]. split; [congruence|]. split; [congruence|]. split; assumption.
Qed.

Lemma new_publisher_spec : forall (ops : list handler) (h : mheap) prov mw,
  wf_slice h prov -> wf_slice h mw ->
  snd (new_publisher h prov mw ops)
  = map (fun c => compose c (slice_elems h mw ++ slice_elems h prov)) ops.
Proof.
  intros ops h prov mw Hprov Hmw. unfold new_publisher, get_middleware.
  pose proof (go_append_elems h mw (slice_elems h prov) Hmw) as Hel.
  destruct (go_append h mw (slice_elems h prov)) as [h1 s1]. cbn [fst snd] in *.
  rewrite Hel. reflexivity.
Qed.

(** subscriber: right after construction (and in every later heap in which the kept slice still
    reads the same) Subscribe<Op> composes constructor ++ provider *)
Lemma new_subscriber_spec : forall (h : mheap) prov mw (h' : mheap) (core : handler),
  wf_slice h prov -> wf_slice h mw ->
  slice_elems h' (snd (new_subscriber h prov mw))
  = slice_elems (fst (new_subscriber h prov mw)) (snd (new_subscriber h prov mw)) ->
  subscribe h' (snd (new_subscriber h prov mw)) core
  = compose core (slice_elems h mw ++ slice_elems h prov).
Proof.
  intros h prov mw h' core Hprov Hmw Hsame. unfold subscribe. rewrite Hsame.
  unfold new_subscriber, get_middleware. f_equal. apply go_append_elems. exact Hmw.
Qed.

(** a subscriber whose constructor list was passed with cap = len (f(p, a, b), or a full slice)
    cannot be reached through the caller's slice: appends to it allocate *)
Lemma new_subscriber_full_frame : forall (h : mheap) prov mw xs,
  wf_slice h mw -> s_cap mw <= s_len mw ->
  let h1 := fst (new_subscriber h prov mw) in
  let sub := snd (new_subscriber h prov mw) in
  slice_elems (fst (go_append h1 mw xs)) sub = slice_elems h1 sub.
Proof.
  intros h prov mw xs Hmw Hcap h1 sub. subst h1 sub.
  pose proof (go_append_wf h mw (slice_elems h prov) Hmw) as Wsub.
  pose proof (go_append_frame h mw (slice_elems h prov) mw Hmw Hmw (append_safe_refl mw)) as [_ Wmw1].
  unfold new_subscriber, get_middleware.
  apply go_append_frame_full; assumption.
Qed.

(** processor (with extends) and AddMiddleware: every entry of the process map, own and inherited,
    ends up composed with constructor ++ added, each added middleware applied once *)
Lemma processor_spec : forall (added ms : list middleware) (chain : list (list handler)),
  fold_left (fun pm m => processor_add_middleware m pm) added
            (map (map (fun c => compose c ms)) chain)
  = map (map (fun c => compose c (ms ++ added))) chain.
Proof.
  induction added as [|m added IH]; intros ms chain.
  - cbn. rewrite app_nil_r. reflexivity.
  - cbn [fold_left]. unfold processor_add_middleware at 2. rewrite map_map.
    replace (map (fun x => map (add_middleware m) (map (fun c => compose c ms) x)) chain)
      with (map (map (fun c => compose c (ms ++ [m]))) chain).
    + rewrite IH. rewrite <- app_assoc. reflexivity.
    + apply map_ext. intros tbl. rewrite map_map. apply map_ext. intros c.
      symmetry. apply add_middleware_is_snoc.
Qed.

Lemma new_processor_spec : forall (h : mheap) mw (added : list middleware) (chain : list (list handler)),
  fold_left (fun pm m => processor_add_middleware m pm) added (new_processor h mw chain)
  = map (map (fun c => compose c (slice_elems h mw ++ added))) chain.
Proof. intros. unfold new_processor. apply processor_spec. Qed.

End Wiring.

(* ------------------------------------------------------------------------------------------- *)
(** * End to end: one RPC, one publish *)
Section EndToEnd.
Context {V : Type}.
Notation handler := (handler V).
Notation mwspec := (mwspec V).
Notation event := (event V).

(** a middleware that keeps the number of arguments / results (what Go's reflect and the generated
    [len(ret) != n] checks insist on) *)
Definition arity_pre (n : nat) (m : mwspec) : Prop := forall a, length a = n -> length (ms_pre m a) = n.
Definition arity_post (n : nat) (m : mwspec) : Prop := forall r, length r = n -> length (ms_post m r) = n.

Lemma args_in_length : forall n (os : list mwspec) a,
  Forall (arity_pre n) os -> length a = n -> length (args_in os a) = n.
Proof.
  intros n os. induction os as [|m os IH]; intros a H Ha; [exact Ha|].
  apply Forall_cons_iff in H as [Hm Hos]. cbn. apply IH; [exact Hos | apply Hm, Ha].
Qed.
Lemma res_out_length : forall n (ms : list mwspec) r,
  Forall (arity_post n) ms -> length r = n -> length (res_out ms r) = n.
Proof.
  intros n ms. induction ms as [|m ms IH]; intros r H Hr; [exact Hr|].
  apply Forall_cons_iff in H as [Hm Hms]. cbn. apply IH; [exact Hms | apply Hm, Hr].
Qed.

Lemma reflect_handler_ok : forall n (f : handler) a, length a = n -> reflect_handler n f a = f a.
Proof. intros n f a H. unfold reflect_handler. rewrite H, Nat.eqb_refl. reflexivity. Qed.
Lemma reflect_handler_panic : forall n (f : handler) a, length a <> n -> reflect_handler n f a = ([], None).
Proof.
  intros n f a H. unfold reflect_handler. destruct (Nat.eqb_spec (length a) n); [contradiction | reflexivity].
Qed.

Lemma arity_stub_ok : forall n (meth : handler) a tr r,
  meth a = (tr, Some r) -> length r = n -> arity_stub n meth a = (tr, Some r).
Proof. intros n meth a tr r H Hr. unfold arity_stub. rewrite H, Hr, Nat.eqb_refl. reflexivity. Qed.
Lemma arity_stub_bad : forall n (meth : handler) a tr r,
  meth a = (tr, Some r) -> length r <> n -> arity_stub n meth a = (tr, None).
Proof.
  intros n meth a tr r H Hr. unfold arity_stub. rewrite H.
  destruct (Nat.eqb_spec (length r) n); [contradiction | reflexivity].
Qed.

Lemma Forall_rev_iff : forall {A} (P : A -> Prop) l, Forall P l -> Forall P (rev l).
Proof. intros A P l H. apply Forall_forall. intros x Hx. rewrite <- in_rev in Hx. revert x Hx. apply Forall_forall, H. Qed.

Lemma rpc_trace : forall nin nret wargs wres (cms pms : list mwspec) user a,
  length a = nin ->
  Forall (arity_pre nin) cms -> Forall (arity_pre nin) pms ->
  Forall (arity_post nret) cms -> Forall (arity_post nret) pms ->
  (forall x, length x = nin -> length (wargs x) = nin) ->
  (forall x, length x = nret -> length (wres x) = nret) ->
  (forall x, length x = nin -> length (user x) = nret) ->
  let a_c := args_in (rev cms) a in                 (* what leaves the client *)
  let a_s := args_in (rev pms) (wargs a_c) in       (* what the user's handler receives *)
  let r_s := res_out pms (user a_s) in              (* what the processor writes *)
  let r_c := res_out cms (wres r_s) in              (* what the caller receives *)
  rpc nin nret wargs wres (fun core => compose core (map mw_of cms))
      (fun core => compose core (map mw_of pms)) user a
  = (enter_events (rev cms) a ++ [ECore 1 []] ++ enter_events (rev pms) (wargs a_c)
       ++ [ECore 0 a_s] ++ exit_events pms (user a_s) ++ exit_events cms (wres r_s),
     Some r_c).
Proof.
  intros nin nret wargs wres cms pms user a Ha Hcpre Hppre Hcpost Hppost Hwa Hwr Hu a_c a_s r_s r_c.
  assert (Lac : length a_c = nin) by (apply args_in_length; [apply Forall_rev_iff, Hcpre | exact Ha]).
  assert (Las : length a_s = nin) by (apply args_in_length; [apply Forall_rev_iff, Hppre | apply Hwa, Lac]).
  assert (Lrs : length r_s = nret) by (apply res_out_length; [exact Hppost | apply Hu, Las]).
  assert (Lrc : length r_c = nret) by (apply res_out_length; [exact Hcpost | apply Hwr, Lrs]).
  unfold rpc.
  match goal with |- context [arity_stub nret (compose (reflect_handler nin ?u) (map mw_of pms))] =>
    set (ucore := reflect_handler nin u) end.
  set (server := arity_stub nret (compose ucore (map mw_of pms))).
  assert (Hserver : server (wargs a_c)
          = (enter_events (rev pms) (wargs a_c) ++ [ECore 0 a_s] ++ exit_events pms (user a_s), Some r_s)).
  { subst server. apply arity_stub_ok; [|exact Lrs]. apply compose_std_some.
    fold a_s. subst ucore. rewrite reflect_handler_ok by exact Las. reflexivity. }
  match goal with |- context [reflect_handler nin ?t] => set (transport := t) end.
  apply arity_stub_ok; [|exact Lrc].
  rewrite (compose_std_some cms (reflect_handler nin transport) a
             (ECore 1 [] :: enter_events (rev pms) (wargs a_c) ++ [ECore 0 a_s] ++ exit_events pms (user a_s))
             (wres r_s)).
  - fold r_c. f_equal. cbn [app]. rewrite <- !app_assoc. reflexivity.
  - fold a_c. rewrite reflect_handler_ok by exact Lac. subst transport. cbv beta.
    rewrite Hserver. reflexivity.
Qed.

(** pub/sub *)
Lemma list_eqb_spec : forall (eqb : V -> V -> bool),
  (forall x y, eqb x y = true <-> x = y) -> forall a b, list_eqb eqb a b = true <-> a = b.
Proof.
  intros eqb Heq. induction a as [|x a IH]; intros [|y b]; cbn; split; intros H;
    try reflexivity; try discriminate.
  - apply andb_true_iff in H as [H1 H2]. apply Heq in H1. apply IH in H2. subst. reflexivity.
  - inversion H; subst. apply andb_true_iff. split; [apply Heq; reflexivity | apply IH; reflexivity].
Qed.

Lemma removelast_snoc : forall (l : list V) x, removelast (l ++ [x]) = l.
Proof. intros. apply removelast_last. Qed.

Lemma pubsub_trace : forall nvars eqb nilv wargs sub_vars (pms sms : list mwspec) herr ctx vars req c' vars' req',
  (forall x y, eqb x y = true <-> x = y) ->
  length vars = nvars -> length vars' = nvars ->
  Forall (arity_pre 2) sms ->
  Forall (arity_post 1) pms -> Forall (arity_post 1) sms ->
  (forall x, length x = 2 -> length (wargs x) = 2) ->
  (* what the internal publish function receives after the publisher's middleware *)
  args_in (rev pms) (ctx :: vars ++ [req]) = c' :: vars' ++ [req'] ->
  let a_s := args_in (rev sms) (wargs [c'; req']) in
  let r_s := res_out sms [herr] in
  pubsub nvars eqb nilv wargs sub_vars (fun core => compose core (map mw_of pms))
         (fun core => compose core (map mw_of sms)) herr (ctx :: vars ++ [req])
  = if list_eqb eqb vars' sub_vars
    then (enter_events (rev pms) (ctx :: vars ++ [req]) ++ [ECore 1 []]
            ++ enter_events (rev sms) (wargs [c'; req']) ++ [ECore 2 a_s] ++ exit_events sms [herr]
            ++ [ERet 1 r_s] ++ exit_events pms [nilv],
          Some (res_out pms [nilv]))
    else (enter_events (rev pms) (ctx :: vars ++ [req]) ++ [ECore 1 []] ++ exit_events pms [nilv],
          Some (res_out pms [nilv])).
Proof.
  intros nvars eqb nilv wargs sub_vars pms sms herr ctx vars req c' vars' req'
         Heq Lv Lv' Hspre Hppost Hspost Hwa Hap a_s r_s.
  assert (Las : length a_s = 2)
    by (apply args_in_length; [apply Forall_rev_iff, Hspre | apply Hwa; reflexivity]).
  assert (Lrs : length r_s = 1) by (apply res_out_length; [exact Hspost | reflexivity]).
  assert (Lrp : length (res_out pms [nilv]) = 1) by (apply res_out_length; [exact Hppost | reflexivity]).
  unfold pubsub.
  match goal with |- context [sub_stub (compose (reflect_handler 2 ?u) (map mw_of sms))] =>
    set (score := reflect_handler 2 u) end.
  set (callback := sub_stub (compose score (map mw_of sms))).
  assert (Hcb : callback (wargs [c'; req'])
          = (enter_events (rev sms) (wargs [c'; req']) ++ [ECore 2 a_s] ++ exit_events sms [herr], Some r_s)).
  { subst callback. unfold sub_stub.
    rewrite (compose_std_some sms score (wargs [c'; req']) [ECore 2 a_s] [herr]).
    - fold r_s. destruct r_s as [|x [|y t]]; cbn in Lrs; try discriminate. reflexivity.
    - fold a_s. subst score. rewrite reflect_handler_ok by exact Las. reflexivity. }
  match goal with |- context [reflect_handler (2 + nvars) ?t] => set (transport := t) end.
  assert (Lap : length (c' :: vars' ++ [req']) = 2 + nvars)
    by (cbn [length]; rewrite app_length; cbn [length]; lia).
  unfold pub_stub.
  destruct (list_eqb eqb vars' sub_vars) eqn:Ev.
  - rewrite (compose_std_some pms (reflect_handler (2 + nvars) transport) (ctx :: vars ++ [req])
               (ECore 1 [] :: (enter_events (rev sms) (wargs [c'; req']) ++ [ECore 2 a_s] ++ exit_events sms [herr]) ++ [ERet 1 r_s])
               [nilv]).
    + destruct (res_out pms [nilv]) as [|x [|y t]] eqn:Er; cbn in Lrp; try discriminate.
      f_equal. cbn [app]. rewrite <- !app_assoc. reflexivity.
    + rewrite Hap. rewrite reflect_handler_ok by exact Lap. subst transport. cbv beta iota.
      rewrite removelast_snoc, last_last, Ev, Hcb. reflexivity.
  - rewrite (compose_std_some pms (reflect_handler (2 + nvars) transport) (ctx :: vars ++ [req])
               [ECore 1 []] [nilv]).
    + destruct (res_out pms [nilv]) as [|x [|y t]] eqn:Er; cbn in Lrp; try discriminate.
      reflexivity.
    + rewrite Hap. rewrite reflect_handler_ok by exact Lap. subst transport. cbv beta iota.
      rewrite removelast_snoc, Ev. reflexivity.
Qed.

End EndToEnd.

(* ------------------------------------------------------------------------------------------- *)
(** * Corollaries in the shape of the property, and the subscriber witness *)
Section Corollaries.
Context {V : Type}.
Notation handler := (handler V).
Notation mwspec := (mwspec V).
Notation mheap := (mheap V).

(** provider middleware are outside constructor middleware: the entries of one invocation of a
    method composed with constructor ++ provider *)
Lemma provider_outside_constructor : forall (cs ps : list mwspec) (core : handler) a ctr ro,
  core (args_in (rev (cs ++ ps)) a) = (ctr, ro) ->
  enter_ids (fst (compose core (map mw_of (cs ++ ps)) a))
  = rev (map ms_id ps) ++ rev (map ms_id cs) ++ enter_ids ctr
  /\ exit_ids (fst (compose core (map mw_of (cs ++ ps)) a))
     = exit_ids ctr ++ match ro with Some _ => map ms_id cs ++ map ms_id ps | None => [] end.
Proof.
  intros cs ps core a ctr ro H. rewrite compose_std, H. destruct ro as [r|]; cbn [fst].
  - rewrite !enter_ids_app, !exit_ids_app, enter_ids_enter_events, enter_ids_exit_events,
      exit_ids_enter_events, exit_ids_exit_events.
    rewrite app_nil_r, map_rev, map_app, rev_app_distr, <- app_assoc. cbn [app]. split; reflexivity.
  - rewrite !enter_ids_app, !exit_ids_app, enter_ids_enter_events, exit_ids_enter_events.
    rewrite app_nil_r, map_rev, map_app, rev_app_distr, <- app_assoc. cbn [app]. split; reflexivity.
Qed.

End Corollaries.

Definition obs (id : Z) : mwspec Z := {| ms_id := id; ms_pre := fun a => a; ms_post := fun r => r |}.

(** two subscribers built from one base slice that has spare capacity, and two providers: the second
    constructor's append lands in the array the first subscriber kept *)
Definition wit_heap : mheap Z := [[mw_of (obs 1); nil_mw]; [mw_of (obs 2)]; [mw_of (obs 9)]].
Definition wit_ctor : slice := {| s_arr := 0; s_len := 1; s_cap := 2 |}.
Definition wit_prov1 : slice := {| s_arr := 1; s_len := 1; s_cap := 1 |}.
Definition wit_prov2 : slice := {| s_arr := 2; s_len := 1; s_cap := 1 |}.
Definition wit_core : handler Z := fun a => ([ECore 2 a], Some [0%Z]).

Lemma subscriber_alias_witness :
  wf_slice wit_heap wit_ctor /\ wf_slice wit_heap wit_prov1 /\ wf_slice wit_heap wit_prov2
  /\ append_safe wit_prov1 wit_ctor /\ append_safe wit_prov2 wit_ctor
  /\ slice_elems wit_heap wit_ctor = map mw_of [obs 1]
  /\ slice_elems wit_heap wit_prov1 = map mw_of [obs 2]
  /\ let '(h1, sub1) := new_subscriber wit_heap wit_prov1 wit_ctor in
     let '(h2, sub2) := new_subscriber h1 wit_prov2 wit_ctor in
     enter_ids (fst (subscribe h1 sub1 wit_core [7; 8]%Z)) = rev (map ms_id ([obs 1] ++ [obs 2]))
     /\ enter_ids (fst (subscribe h2 sub1 wit_core [7; 8]%Z)) = [9; 1]%Z
     /\ enter_ids (fst (subscribe h2 sub1 wit_core [7; 8]%Z)) <> rev (map ms_id ([obs 1] ++ [obs 2])).
Proof.
  unfold wf_slice, append_safe. cbn.
  repeat split; try lia; try (right; split; [lia | reflexivity]); try (left; lia).
  discriminate.
Qed.

Lemma subscriber_keeps_callers_array_refuted :
  exists (h : mheap Z) (ctor prov1 prov2 : slice) (cs ps : list (mwspec Z)) (core : handler Z) (a : list Z),
    wf_slice h ctor /\ wf_slice h prov1 /\ wf_slice h prov2
    /\ append_safe prov1 ctor /\ append_safe prov2 ctor
    /\ slice_elems h ctor = map mw_of cs /\ slice_elems h prov1 = map mw_of ps
    /\ let '(h1, sub1) := new_subscriber h prov1 ctor in
       let '(h2, sub2) := new_subscriber h1 prov2 ctor in
       enter_ids (fst (subscribe h1 sub1 core a)) = rev (map ms_id (cs ++ ps))
       /\ enter_ids (fst (subscribe h2 sub1 core a)) <> rev (map ms_id (cs ++ ps)).
Proof.
  exists wit_heap, wit_ctor, wit_prov1, wit_prov2, [obs 1%Z], [obs 2%Z], wit_core, [7%Z; 8%Z].
  pose proof subscriber_alias_witness as (W1 & W2 & W3 & S1 & S2 & E1 & E2 & H).
  repeat (split; [assumption|]).
  destruct (new_subscriber wit_heap wit_prov1 wit_ctor) as [h1 sub1].
  destruct (new_subscriber h1 wit_prov2 wit_ctor) as [h2 sub2].
  destruct H as (Ha & _ & Hc). exact (conj Ha Hc).
Qed.

Lemma observers_transparent : forall (V : Type) (ms : list (mwspec V)) (a r : list V),
  Forall observer ms -> args_in (rev ms) a = a /\ res_out ms r = r.
Proof.
  intros V ms a r H. split.
  - apply args_in_observers, Forall_rev_iff, H.
  - apply res_out_observers, H.
Qed.

Lemma later_wraps_earlier : forall (V : Type) (ms : list (middleware V)) (m : middleware V) (core : handler V),
  compose core (ms ++ [m]) = m (compose core ms)
  /\ add_middleware m (compose core ms) = compose core (ms ++ [m]).
Proof. intros V ms m core. exact (conj (compose_snoc ms m core) (add_middleware_is_snoc ms m core)). Qed.

(** a middleware that changes the number of arguments makes the reflect call panic: every
    middleware was entered, the proxied function was not called, nobody exits; one that changes the
    number of results makes the generated stub panic after all exits *)
Lemma arity_break_panics : forall (V : Type) nin nret (f : handler V) (ms : list (mwspec V)) a,
  (length (args_in (rev ms) a) <> nin ->
   arity_stub nret (new_method nin f (map mw_of ms)) a = (enter_events (rev ms) a, None))
  /\ (forall ctr r, length (args_in (rev ms) a) = nin -> f (args_in (rev ms) a) = (ctr, Some r) ->
      length (res_out ms r) <> nret ->
      arity_stub nret (new_method nin f (map mw_of ms)) a
      = (enter_events (rev ms) a ++ ctr ++ exit_events ms r, None)).
Proof.
  intros V nin nret f ms a. split.
  - intros Hlen. unfold arity_stub, new_method.
    rewrite (compose_std_panic ms (reflect_handler nin f) a []).
    + rewrite app_nil_r. reflexivity.
    + apply reflect_handler_panic. exact Hlen.
  - intros ctr r Hlen Hf Hres. unfold new_method.
    apply arity_stub_bad with (r := res_out ms r); [|exact Hres].
    apply compose_std_some. rewrite reflect_handler_ok by exact Hlen. exact Hf.
Qed.
