(** C18, the "nothing else" side: identical programs and the documented compatible edits contain
    no breaking change of the catalogue (Proofs/AuditSpec.v), hence pass the audit. *)
From Coq Require Import ZArith List Bool Lia.
From FV Require Import Base.Bytes Model.Audit Proofs.AuditSpec Proofs.AuditProofs.
Import ListNotations.
Open Scope Z_scope.

(** * Well-formedness assumptions *)
Definition Unique {A K} (key : A -> K) (l : list A) : Prop := NoDup (map key l).

(** declarations of one kind carry distinct names (Thrift rejects repeated names; Frugal's parser
    checks it for services, methods, scopes and operations only) *)
Record WfNames (p : program) : Prop := {
  wf_scopes : Unique sc_name (p_scopes p);
  wf_ops : forall s, In s (p_scopes p) -> Unique o_name (sc_ops s);
  wf_enums : Unique e_name (p_enums p);
  wf_structs : forall k, Unique s_name (structs_of k p);
  wf_services : Unique sv_name (p_services p);
  wf_methods : forall sv, In sv (p_services p) -> Unique m_name (sv_methods sv) }.

(** every type expression has a normal form: typedefs are acyclic (and have a target) *)
Definition Normalizing (p : program) : Prop := forall sc t, exists r, Resolves p sc t r.

(** * Generic facts about [Denotes] *)
Section DenotesFacts.
  Context {A K : Type} (key : A -> K).

  Lemma Unique_In_Denotes l x : Unique key l -> In x l -> Denotes key l (key x) x.
  Proof.
    unfold Unique, Denotes. intros Hu Hi. apply in_split in Hi as (l1 & l2 & ->).
    exists l1, l2. split; [reflexivity|]. split; [reflexivity|].
    rewrite map_app in Hu. cbn [map] in Hu. apply NoDup_remove_2 in Hu.
    apply Forall_forall. intros y Hy E. apply Hu. apply in_or_app. right. rewrite <- E. apply in_map. exact Hy.
  Qed.

  Lemma Denotes_unique_fun l k x y :
    Denotes key l k x -> Denotes key l k y -> x = y.
  Proof.
    intros (a1 & a2 & E1 & K1 & F1) (b1 & b2 & E2 & K2 & F2). subst l. subst k.
    revert b1 E2. induction a1 as [|z a1 IH]; intros [|w b1] E; cbn in E; inversion E; auto.
    - exfalso. subst. rewrite Forall_forall in F1.
      apply (F1 y); [apply in_or_app; right; left; reflexivity | exact K2].
    - exfalso. subst. rewrite Forall_forall in F2.
      apply (F2 x); [apply in_or_app; right; left; reflexivity | reflexivity].
    - eapply IH; eauto.
  Qed.

  Lemma Denotes_Absent_False l k x : Denotes key l k x -> Absent key l k -> False.
  Proof.
    intros (l1 & l2 & -> & Hk & _) Ha. unfold Absent in Ha. rewrite Forall_forall in Ha.
    apply (Ha x); [apply in_or_app; right; left; reflexivity | exact Hk].
  Qed.

  (** position-wise related lists with equal keys denote related things *)
  Lemma Denotes_Forall2 (R : A -> A -> Prop) l l' k x :
    (forall a b, R a b -> key a = key b) ->
    Forall2 R l l' -> Denotes key l k x -> exists x', Denotes key l' k x' /\ R x x'.
  Proof.
    intros HR HF (l1 & l2 & -> & Hk & Hf).
    apply Forall2_app_inv_l in HF as (l1' & m & H1 & H2 & ->).
    inversion H2 as [|? x' ? l2' Hx H3]; subst.
    exists x'. split; [|exact Hx]. exists l1', l2'. split; [reflexivity|]. split.
    - rewrite <- (HR _ _ Hx). reflexivity.
    - clear -HR H3 Hf. induction H3; constructor; inversion Hf; subst; auto.
      rewrite <- (HR _ _ H). assumption.
  Qed.

  (** inserting a declaration with another key does not change what a key denotes *)
  Lemma Denotes_insert l1 l2 f k x :
    key f <> k -> (Denotes key (l1 ++ l2) k x <-> Denotes key (l1 ++ f :: l2) k x).
  Proof.
    intro Hf. unfold Denotes. split.
    - intros (a & b & E & Hk & Hb).
      destruct (app_eq_app _ _ _ _ E) as (m & [[E1 E2] | [E1 E2]]).
      + (* l1 = a ++ m, x :: b = m ++ l2 *)
        destruct m as [|y m]; cbn in E2.
        * subst. rewrite app_nil_r. exists (a ++ [f]), b. rewrite <- app_assoc. cbn. repeat split; auto.
        * inversion E2; subst. exists a, (m ++ f :: l2). rewrite <- app_assoc. cbn. repeat split; auto.
          rewrite Forall_app in *. destruct Hb as [Hb1 Hb2]. split; auto.
      + (* a = l1 ++ m, l2 = m ++ x :: b *)
        subst. exists (l1 ++ f :: m), b. rewrite <- app_assoc. cbn. repeat split; auto.
    - intros (a & b & E & Hk & Hb).
      destruct (app_eq_app _ _ _ _ E) as (m & [[E1 E2] | [E1 E2]]).
      + (* l1 = a ++ m, x :: b = m ++ f :: l2 *)
        destruct m as [|y m]; cbn in E2.
        * inversion E2; subst. contradiction.
        * inversion E2; subst. exists a, (m ++ l2). rewrite <- app_assoc. cbn. repeat split; auto.
          rewrite Forall_app in *. destruct Hb as [Hb1 Hb2]. inversion Hb2; subst. split; auto.
      + (* a = l1 ++ m, f :: l2 = m ++ x :: b *)
        destruct m as [|y m]; cbn in E2.
        * inversion E2; subst. contradiction.
        * inversion E2; subst. exists (l1 ++ m), b. rewrite <- app_assoc. repeat split; auto.
  Qed.

  Lemma Absent_insert l1 l2 f k :
    Absent key (l1 ++ f :: l2) k <-> Absent key (l1 ++ l2) k /\ key f <> k.
  Proof.
    unfold Absent. rewrite !Forall_app. split.
    - intros [H1 H2]. inversion H2; subst. auto.
    - intros [[H1 H2] H3]. split; auto.
  Qed.

  Lemma Denotes_key_in l k x : Denotes key l k x -> In k (map key l).
  Proof.
    intros (l1 & l2 & -> & Hk & _). rewrite map_app. apply in_or_app. right. left. exact Hk.
  Qed.

  Lemma Absent_not_in l k : ~ In k (map key l) -> Absent key l k.
  Proof.
    intro H. apply Forall_forall. intros y Hy E. apply H. rewrite <- E. apply in_map. exact Hy.
  Qed.

  Lemma Forall2_flip (R : A -> A -> Prop) l l' : Forall2 R l l' -> Forall2 (fun a b => R b a) l' l.
  Proof. induction 1; constructor; auto. Qed.
End DenotesFacts.

(** * Programs that differ only in what the audit documents as compatible *)
(** same id, modifier and type; name and default value free *)
Definition field_eq (f g : field) : Prop :=
  f_id f = f_id g /\ f_mod f = f_mod g /\ f_type f = f_type g.
(** one field that is not required, with an id not used before, inserted anywhere *)
Definition FieldAdded (fs fs' : list field) : Prop :=
  exists l1 l2 f, fs = l1 ++ l2 /\ fs' = l1 ++ f :: l2
                  /\ ~ In (f_id f) (map f_id fs) /\ f_mod f <> Required.
Definition fields_compat (fs fs' : list field) : Prop := Forall2 field_eq fs fs' \/ FieldAdded fs fs'.
Definition struct_eq (s s' : strct) : Prop :=
  s_name s = s_name s' /\ fields_compat (s_fields s) (s_fields s').
(** same number; variant name free *)
Definition enumv_eq (v v' : enumv) : Prop := ev_value v = ev_value v'.
Definition enum_eq (e e' : enum) : Prop :=
  e_name e = e_name e' /\ Forall2 enumv_eq (e_values e) (e_values e').
Definition op_eq (o o' : operation) : Prop := o_name o = o_name o' /\ o_type o = o_type o'.
(** same prefix up to the names of its variables *)
Definition scope_eq (s s' : scope) : Prop :=
  sc_name s = sc_name s' /\ PrefixEquiv (sc_prefix s) (sc_prefix s') /\ Forall2 op_eq (sc_ops s) (sc_ops s').
Definition method_eq (m m' : method) : Prop :=
  m_name m = m_name m' /\ m_oneway m = m_oneway m' /\ m_ret m = m_ret m'
  /\ fields_compat (m_args m) (m_args m') /\ Forall2 field_eq (m_excs m) (m_excs m').
Definition service_eq (s s' : service) : Prop :=
  sv_name s = sv_name s' /\ sv_extends s = sv_extends s' /\ Forall2 method_eq (sv_methods s) (sv_methods s').

(** [Renamed p p']: p' is p up to field / argument / exception names, default values, enum variant
    names, scope prefix variable names, namespaces and constants (all of them, anywhere), and up to
    one added non-required field or argument per struct / union / exception / method *)
Record Renamed (p p' : program) : Prop := {
  rn_files : p_files p = p_files p';
  rn_scopes : Forall2 scope_eq (p_scopes p) (p_scopes p');
  rn_enums : Forall2 enum_eq (p_enums p) (p_enums p');
  rn_structs : forall k, Forall2 struct_eq (structs_of k p) (structs_of k p');
  rn_services : Forall2 service_eq (p_services p) (p_services p') }.

(** * Resolution only looks at the table of files *)
Lemma TypedefOf_files P P' sc n d body :
  p_files P = p_files P' -> TypedefOf P sc n d body -> TypedefOf P' sc n d body.
Proof.
  intros E H. destruct H as [f b Hi Hf Hd | f d g b Hi Hf Hd Hg Hd'].
  - eapply TO_local; eauto. unfold get_file in *. rewrite <- E. exact Hf.
  - eapply TO_include; eauto; unfold get_file in *; rewrite <- E; eauto.
Qed.

Lemma qualified_name_files P P' sc n : p_files P = p_files P' -> qualified_name P sc n = qualified_name P' sc n.
Proof. intro E. unfold qualified_name, get_file. rewrite E. reflexivity. Qed.

Lemma Resolves_files P P' sc t r :
  p_files P = p_files P' -> Resolves P sc t r -> Resolves P' sc t r.
Proof.
  intros E H. induction H.
  - constructor.
  - eapply R_alias; eauto. eapply TypedefOf_files; eauto.
  - rewrite (qualified_name_files P P' _ _ E). apply R_base; auto.
    intros d body HT. eapply H. eapply TypedefOf_files; [symmetry; exact E | exact HT].
Qed.

Section RenamedPasses.
  Variables po pn : program.
  Hypothesis Hren : Renamed po pn.
  Hypothesis Hwf : WfNames po.
  Hypothesis Hnorm : Normalizing po.

  Lemma same_type_refl t : SameType po pn t t.
  Proof.
    destruct (Hnorm 0%nat t) as (r & Hr). exists r. split; [exact Hr|].
    eapply Resolves_files; [apply (rn_files _ _ Hren) | exact Hr].
  Qed.

  Lemma field_eq_key a b : field_eq a b -> f_id a = f_id b.
  Proof. intros (H & _); exact H. Qed.

  Lemma fields_no_break fs fs' : Forall2 field_eq fs fs' -> ~ FieldsBreak po pn fs fs'.
  Proof.
    intros HF HB. destruct HB as [o n Ho Hn Ht | o n Ho Hn Hr | o Ho Ha Hm | n Hn Ha Hm].
    - destruct (Denotes_Forall2 f_id field_eq _ _ _ _ field_eq_key HF Ho) as (n' & Hn' & (_ & _ & Et)).
      rewrite (Denotes_unique_fun f_id _ _ _ _ Hn Hn') in Ht. rewrite <- Et in Ht. apply Ht. apply same_type_refl.
    - destruct (Denotes_Forall2 f_id field_eq _ _ _ _ field_eq_key HF Ho) as (n' & Hn' & (_ & Em & _)).
      rewrite (Denotes_unique_fun f_id _ _ _ _ Hn Hn') in Hr. rewrite Em in Hr. apply Hr. reflexivity.
    - destruct (Denotes_Forall2 f_id field_eq _ _ _ _ field_eq_key HF Ho) as (n' & Hn' & _).
      eapply Denotes_Absent_False; eauto.
    - apply Forall2_flip in HF.
      assert (K : forall a b, field_eq b a -> f_id a = f_id b) by (intros a b (H & _); auto).
      destruct (Denotes_Forall2 f_id (fun a b => field_eq b a) _ _ _ _ K HF Hn) as (o' & Ho' & _).
      eapply Denotes_Absent_False; eauto.
  Qed.

  Lemma added_no_break fs fs' : FieldAdded fs fs' -> ~ FieldsBreak po pn fs fs'.
  Proof.
    intros (l1 & l2 & f & -> & -> & Hfresh & Hmod) HB.
    assert (Hne : forall o k, Denotes f_id (l1 ++ l2) k o -> f_id f <> k).
    { intros o k Ho E. apply Hfresh. rewrite E. eapply Denotes_key_in; eauto. }
    destruct HB as [o n Ho Hn Ht | o n Ho Hn Hr | o Ho Ha Hm | n Hn Ha Hm].
    - apply (Denotes_insert f_id _ _ f _ _ (Hne _ _ Ho)) in Hn.
      rewrite (Denotes_unique_fun f_id _ _ _ _ Hn Ho) in Ht. apply Ht. apply same_type_refl.
    - apply (Denotes_insert f_id _ _ f _ _ (Hne _ _ Ho)) in Hn.
      rewrite (Denotes_unique_fun f_id _ _ _ _ Hn Ho) in Hr. apply Hr. reflexivity.
    - apply Absent_insert in Ha as [Ha _]. eapply Denotes_Absent_False; eauto.
    - destruct (Z.eq_dec (f_id f) (f_id n)) as [E|E].
      + assert (Hf : Denotes f_id (l1 ++ f :: l2) (f_id n) f).
        { exists l1, l2. repeat split; auto. apply Forall_forall. intros y Hy Ey. apply Hfresh.
          rewrite E, <- Ey. apply in_map. apply in_or_app. right. exact Hy. }
        rewrite (Denotes_unique_fun f_id _ _ _ _ Hn Hf) in Hm. contradiction.
      + apply (Denotes_insert f_id _ _ f _ _ E) in Hn. eapply Denotes_Absent_False; eauto.
  Qed.

  Lemma compat_no_break fs fs' : fields_compat fs fs' -> ~ FieldsBreak po pn fs fs'.
  Proof. intros [H|H]; [apply fields_no_break | apply added_no_break]; exact H. Qed.

  Lemma Forall2_In_l {A} (R : A -> A -> Prop) l l' x : Forall2 R l l' -> In x l -> exists x', In x' l' /\ R x x'.
  Proof.
    induction 1; intros []; subst; [eexists; split; [left; reflexivity | assumption]|].
    destruct (IHForall2 H1) as (x' & Hx' & HR). exists x'. split; [right|]; assumption.
  Qed.

  Lemma Forall2_nil_iff {A} (R : A -> A -> Prop) l l' : Forall2 R l l' -> (l = [] <-> l' = []).
  Proof. destruct 1; split; intro; try discriminate; reflexivity. Qed.

  Theorem renamed_not_breaking : ~ Breaking po pn.
  Proof.
    intros [HB | HB | k HB | HB].
    - (* scopes *)
      pose proof (rn_scopes _ _ Hren) as HF.
      assert (Ks : forall a b, scope_eq a b -> sc_name a = sc_name b) by (intros a b (H & _); auto).
      assert (Ko : forall a b, op_eq a b -> o_name a = o_name b) by (intros a b (H & _); auto).
      destruct HB as [s Hs Ha | s s' Hs Hd Hp | s s' o Hs Hd Ho Ha | s s' o o' Hs Hd Ho Ho' Ht];
        pose proof (Unique_In_Denotes sc_name _ _ (wf_scopes _ Hwf) Hs) as Hds;
        destruct (Denotes_Forall2 sc_name scope_eq _ _ _ _ Ks HF Hds) as (s2 & Hd2 & (_ & Epre & Eops)).
      + eapply Denotes_Absent_False; eauto.
      + rewrite (Denotes_unique_fun sc_name _ _ _ _ Hd Hd2) in Hp. contradiction.
      + rewrite (Denotes_unique_fun sc_name _ _ _ _ Hd Hd2) in Ha.
        pose proof (Unique_In_Denotes o_name _ _ (wf_ops _ Hwf s Hs) Ho) as Hdo.
        destruct (Denotes_Forall2 o_name op_eq _ _ _ _ Ko Eops Hdo) as (o2 & Ho2 & _).
        eapply Denotes_Absent_False; eauto.
      + rewrite (Denotes_unique_fun sc_name _ _ _ _ Hd Hd2) in Ho'.
        pose proof (Unique_In_Denotes o_name _ _ (wf_ops _ Hwf s Hs) Ho) as Hdo.
        destruct (Denotes_Forall2 o_name op_eq _ _ _ _ Ko Eops Hdo) as (o2 & Ho2 & (_ & Et)).
        rewrite (Denotes_unique_fun o_name _ _ _ _ Ho' Ho2), <- Et in Ht. apply Ht. apply same_type_refl.
    - (* enums *)
      pose proof (rn_enums _ _ Hren) as HF.
      assert (Ke : forall a b, enum_eq a b -> e_name a = e_name b) by (intros a b (H & _); auto).
      destruct HB as [e e' v He Hd Hv Ha].
      pose proof (Unique_In_Denotes e_name _ _ (wf_enums _ Hwf) He) as Hde.
      destruct (Denotes_Forall2 e_name enum_eq _ _ _ _ Ke HF Hde) as (e2 & Hd2 & (_ & Ev)).
      rewrite (Denotes_unique_fun e_name _ _ _ _ Hd Hd2) in Ha.
      destruct (Forall2_In_l _ _ _ _ Ev Hv) as (v' & Hv' & Evv).
      unfold Absent in Ha. rewrite Forall_forall in Ha. apply (Ha v' Hv'). symmetry. exact Evv.
    - (* structs, exceptions, unions *)
      pose proof (rn_structs _ _ Hren k) as HF.
      assert (Kst : forall a b, struct_eq a b -> s_name a = s_name b) by (intros a b (H & _); auto).
      destruct HB as [s Hs Ha | s s' Hs Hd Hf];
        pose proof (Unique_In_Denotes s_name _ _ (wf_structs _ Hwf k) Hs) as Hds;
        destruct (Denotes_Forall2 s_name struct_eq _ _ _ _ Kst HF Hds) as (s2 & Hd2 & (_ & Ef)).
      + eapply Denotes_Absent_False; eauto.
      + rewrite (Denotes_unique_fun s_name _ _ _ _ Hd Hd2) in Hf. eapply compat_no_break; eauto.
    - (* services *)
      pose proof (rn_services _ _ Hren) as HF.
      assert (Ksv : forall a b, service_eq a b -> sv_name a = sv_name b) by (intros a b (H & _); auto).
      assert (Km : forall a b, method_eq a b -> m_name a = m_name b) by (intros a b (H & _); auto).
      destruct HB as [s Hs Ha | s s' Hs Hd H1 H2 | s s' m Hs Hd Hm Ha | s s' m m' Hs Hd Hm Hd' Hb];
        pose proof (Unique_In_Denotes sv_name _ _ (wf_services _ Hwf) Hs) as Hds;
        destruct (Denotes_Forall2 sv_name service_eq _ _ _ _ Ksv HF Hds) as (s2 & Hd2 & (_ & Eext & Ems)).
      + eapply Denotes_Absent_False; eauto.
      + rewrite (Denotes_unique_fun sv_name _ _ _ _ Hd Hd2) in H2. contradiction.
      + rewrite (Denotes_unique_fun sv_name _ _ _ _ Hd Hd2) in Ha.
        pose proof (Unique_In_Denotes m_name _ _ (wf_methods _ Hwf s Hs) Hm) as Hdm.
        destruct (Denotes_Forall2 m_name method_eq _ _ _ _ Km Ems Hdm) as (m2 & Hm2 & _).
        eapply Denotes_Absent_False; eauto.
      + rewrite (Denotes_unique_fun sv_name _ _ _ _ Hd Hd2) in Hd'.
        pose proof (Unique_In_Denotes m_name _ _ (wf_methods _ Hwf s Hs) Hm) as Hdm.
        destruct (Denotes_Forall2 m_name method_eq _ _ _ _ Km Ems Hdm) as (m2 & Hm2 & (_ & Eow & Eret & Eargs & Eexcs)).
        rewrite (Denotes_unique_fun m_name _ _ _ _ Hd' Hm2) in Hb.
        destruct Hb as [H | H | H | H | H1 H2 H3 | H1 H2 H3].
        * apply H. exact Eow.
        * rewrite <- Eret in H. apply H. apply same_type_refl.
        * exact (compat_no_break _ _ Eargs H).
        * exact (fields_no_break _ _ Eexcs H).
        * apply H3. apply (Forall2_nil_iff _ _ _ Eexcs). exact H2.
        * apply H3. apply (Forall2_nil_iff _ _ _ Eexcs). exact H2.
  Qed.
End RenamedPasses.

Lemma Forall2_refl {A} (R : A -> A -> Prop) l : (forall x, R x x) -> Forall2 R l l.
Proof. intro H. induction l; constructor; auto. Qed.

Lemma PrefixEquiv_refl a : PrefixEquiv a a.
Proof. apply PrefixEquiv_spec. reflexivity. Qed.

Lemma Renamed_refl p : Renamed p p.
Proof.
  assert (Ff : forall l, Forall2 field_eq l l) by (intro l; apply Forall2_refl; intro; repeat split).
  assert (Fc : forall l, fields_compat l l) by (intro l; left; apply Ff).
  constructor; auto.
  - apply Forall2_refl. intro s. repeat split; [apply PrefixEquiv_refl|]. apply Forall2_refl. intro; split; reflexivity.
  - apply Forall2_refl. intro e. split; [reflexivity|]. apply Forall2_refl. intro; reflexivity.
  - intro k. apply Forall2_refl. intro s. split; auto.
  - apply Forall2_refl. intro s. repeat split. apply Forall2_refl. intro m. repeat split; auto.
Qed.

Theorem identity_not_breaking p : WfNames p -> Normalizing p -> ~ Breaking p p.
Proof. intros. apply renamed_not_breaking; auto using Renamed_refl. Qed.

(** * The compatible edits as functions on programs *)
Definition map_struct (g : field -> field) (s : strct) : strct := mkStruct (s_name s) (map g (s_fields s)).
Definition map_method (g : field -> field) (m : method) : method :=
  mkMethod (m_name m) (m_oneway m) (m_ret m) (map g (m_args m)) (map g (m_excs m)).
Definition map_service (g : field -> field) (s : service) : service :=
  mkService (sv_name s) (sv_extends s) (map (map_method g) (sv_methods s)).

(** every field, argument and declared exception rewritten by [g]; every enum variant renamed by
    [h]; every scope prefix replaced by [hp]; namespaces and constants replaced wholesale *)
Definition cosmetic (g : field -> field) (h : enumv -> bytes) (hp : scope -> bytes)
           (ns : list namespace) (cs : list const) (p : program) : program :=
  mkProgram (p_files p)
            (map (fun s => mkScope (sc_name s) (hp s) (sc_ops s)) (p_scopes p))
            ns cs
            (map (fun e => mkEnum (e_name e) (map (fun v => mkEnumV (h v) (ev_value v)) (e_values e))) (p_enums p))
            (map (map_struct g) (p_structs p)) (map (map_struct g) (p_exceptions p))
            (map (map_struct g) (p_unions p))
            (map (map_service g) (p_services p)).

Lemma Forall2_map_r {A} (R : A -> A -> Prop) (g : A -> A) l : (forall x, R x (g x)) -> Forall2 R l (map g l).
Proof. intro H. induction l; cbn; constructor; auto. Qed.

Lemma cosmetic_renamed g h hp ns cs p :
  (forall f, field_eq f (g f)) ->
  (forall s, PrefixEquiv (sc_prefix s) (hp s)) ->
  Renamed p (cosmetic g h hp ns cs p).
Proof.
  intros Hg Hp.
  assert (Fs : forall l, Forall2 struct_eq l (map (map_struct g) l)).
  { intro l. apply Forall2_map_r. intro s. split; [reflexivity|]. left. apply Forall2_map_r. exact Hg. }
  constructor; cbn.
  - reflexivity.
  - apply Forall2_map_r. intro s. repeat split; cbn; auto. apply Forall2_refl. intro; split; reflexivity.
  - apply Forall2_map_r. intro e. split; [reflexivity|]. cbn. apply Forall2_map_r. intro; reflexivity.
  - intros [| |]; cbn; apply Fs.
  - apply Forall2_map_r. intro s. repeat split; cbn. apply Forall2_map_r. intro m.
    repeat split; cbn; [left|]; apply Forall2_map_r; exact Hg.
Qed.

(** a scope prefix with one variable renamed *)
Lemma prefix_variable_renamed (pre post : list bytes) (v w : bytes) :
  Forall DotFree pre -> Forall DotFree post -> DotFree v -> DotFree w ->
  PrefixEquiv (join_dot (pre ++ (123 :: v ++ [125]) :: post)) (join_dot (pre ++ (123 :: w ++ [125]) :: post)).
Proof.
  intros Hpre Hpost Hv Hw.
  assert (D : forall x, DotFree x -> DotFree (123 :: x ++ [125])).
  { unfold DotFree. intros x Hx [H|H]; [discriminate|]. apply in_app_or in H as [H|[H|[]]]; [auto | discriminate]. }
  eexists _, _. split; [reflexivity|]. split; [reflexivity|].
  split; [intro E; apply app_eq_nil in E as [_ E]; discriminate|].
  split; [intro E; apply app_eq_nil in E as [_ E]; discriminate|].
  split; [apply Forall_app; split; auto|]. split; [apply Forall_app; split; auto|].
  apply Forall2_app.
  - apply Forall2_refl. intro; left; reflexivity.
  - constructor; [right; split; eexists; reflexivity|]. apply Forall2_refl. intro; left; reflexivity.
Qed.

Lemma skind_eq_dec (a b : skind) : {a = b} + {a <> b}.
Proof. decide equality. Qed.

Definition with_structs (k : skind) (l : list strct) (p : program) : program :=
  mkProgram (p_files p) (p_scopes p) (p_namespaces p) (p_constants p) (p_enums p)
            (match k with KStruct => l | _ => p_structs p end)
            (match k with KException => l | _ => p_exceptions p end)
            (match k with KUnion => l | _ => p_unions p end)
            (p_services p).

(** field [f] inserted at position [pos] of the struct / exception / union named [sname] *)
Definition insert_field (k : skind) (sname : bytes) (pos : nat) (f : field) (p : program) : program :=
  with_structs k (map (fun s => if beqb (s_name s) sname
                                then mkStruct (s_name s) (firstn pos (s_fields s) ++ f :: skipn pos (s_fields s))
                                else s) (structs_of k p)) p.

Lemma insert_field_renamed k sname pos f p :
  f_mod f <> Required ->
  (forall s, In s (structs_of k p) -> s_name s = sname -> ~ In (f_id f) (map f_id (s_fields s))) ->
  Renamed p (insert_field k sname pos f p).
Proof.
  intros Hm Hfresh. pose proof (Renamed_refl p) as R. destruct R as [R1 R2 R3 R4 R5].
  constructor; cbn; auto.
  intro k'. destruct (skind_eq_dec k k') as [<-|Hne].
  - replace (structs_of k (insert_field k sname pos f p)) with
      (map (fun s => if beqb (s_name s) sname
                     then mkStruct (s_name s) (firstn pos (s_fields s) ++ f :: skipn pos (s_fields s))
                     else s) (structs_of k p)) by (destruct k; reflexivity).
    clear R4. induction (structs_of k p) as [|s l IH]; cbn [map]; constructor.
    + destruct (beqb (s_name s) sname) eqn:E.
      * split; [reflexivity|]. right. cbn. exists (firstn pos (s_fields s)), (skipn pos (s_fields s)), f.
        rewrite firstn_skipn. repeat split; auto. apply Hfresh; [left; reflexivity | apply beqb_true_iff; exact E].
      * split; [reflexivity|]. left. apply Forall2_refl. intro; repeat split.
    + apply IH. intros s' Hs'. apply Hfresh. right. exact Hs'.
  - replace (structs_of k' (insert_field k sname pos f p)) with (structs_of k' p)
      by (destruct k, k'; try reflexivity; contradiction).
    apply R4.
Qed.
