(** Lemmas for C03 (Model/GenCall.v). *)
From Coq Require Import ZArith List Bool Lia.
From FV Require Import Base.Res Base.Bytes Base.GoSem Model.Headers Model.Receivers Model.ThriftBin Model.GenCall
     Proofs.HeadersProofs Proofs.ThriftBinProofs Proofs.ThriftBinGoProofs.
Import ListNotations.
Open Scope Z_scope.

Lemma bytes_eqb_refl b : ThriftBin.bytes_eqb b b = true.
Proof. induction b as [|x b IH]; [reflexivity|]. cbn. rewrite Z.eqb_refl. exact IH. Qed.
